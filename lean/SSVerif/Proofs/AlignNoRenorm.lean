import SSVerif.Proofs.AlignOpt
/-!
# The renormalisation of `state_align_search_step` never fires on utterances of at most 16 140 frames

`renormDue best` (state_align_search.c:201-202 with the repair of D28) needs a best score that is alive
(`> WORST_SCORE`) and below `WORST_SCORE + 0x300000 = -533 725 184`.  A best score that is alive is one of the scores
`hmm_vit_eval_3st_lr` wrote (`eval3_best_cases`), an alive score written in frame `f` is at least
`-(f+1)·33022` (each frame subtracts at most one senone score `≤ 32767` and one transition score `≤ 255` from an
alive score, invariant `K`), and `16 140 · 33 022 = 532 975 080 < 533 725 184`.
-/
namespace SSVerif.Align.Step

theorem maxI_cases (x y : Int) : maxI x y = x ∨ maxI x y = y := by unfold maxI; split <;> simp

theorem maxI_or4 (w x y z : Int) (P : Int → Prop) (hw : P w) (hx : P x) (hy : P y) (hz : P z) :
    P (maxI w (maxI x (maxI y z))) := by
  rcases maxI_cases w (maxI x (maxI y z)) with e | e <;> rw [e]
  · exact hw
  · rcases maxI_cases x (maxI y z) with e' | e' <;> rw [e']
    · exact hx
    · rcases maxI_cases y z with e'' | e'' <;> rw [e'']
      · exact hy
      · exact hz

/-- the best score `hmm_vit_eval_3st_lr` returns is `WORST_SCORE` or one of the scores it wrote in this call -/
theorem eval3_best_cases (tp : Array Int) (a b c : Int) (h : Hmm) (hr : InRange tp a b c h) (hn : NoSkip3 tp)
    (h' : Hmm) (bb : Int) (he : eval3 tp a b c h = (h', bb)) :
    bb = worst ∨ bb = h'.s0 ∨ bb = h'.s1 ∨ bb = h'.s2 ∨ (h.s1 - b > worst ∧ bb = h'.out) := by
  obtain ⟨n02, n13⟩ := hn
  have t22 := hr.tp 2 2; have t12 := hr.tp 1 2; have t23 := hr.tp 2 3
  have hs1 := hr.s1; have hs2 := hr.s2
  have hb := hr.e1; have hc := hr.e2
  have hw : worst = -536870912 := rfl
  have hm : intMin = -2147483648 := rfl
  have f0 : ¬ (intMin > h.s2 - c - tpAt tp 2 2) := by omega
  have f1 : ¬ (intMin > h.s1 - b - tpAt tp 1 2) := by omega
  have f3 : h.s2 - c - tpAt tp 2 3 > intMin := by omega
  unfold eval3 at he
  simp only [n02, n13, Int.lt_irrefl, if_false] at he
  by_cases hA : h.s1 - b > worst
  · simp only [hA, if_true, f3, f0, f1, if_false] at he
    obtain ⟨e1, e2⟩ := Prod.mk.inj he
    subst e1; subst e2
    refine maxI_or4 _ _ _ _ (fun m => m = worst ∨ m = _ ∨ m = _ ∨ m = _ ∨ (h.s1 - b > worst ∧ m = _)) ?_ ?_ ?_ ?_
    · exact Or.inr (Or.inl rfl)
    · exact Or.inr (Or.inr (Or.inl rfl))
    · exact Or.inr (Or.inr (Or.inr (Or.inl rfl)))
    · exact Or.inr (Or.inr (Or.inr (Or.inr ⟨hA, rfl⟩)))
  · simp only [hA, if_false, f0, f1] at he
    obtain ⟨e1, e2⟩ := Prod.mk.inj he
    subst e1; subst e2
    refine maxI_or4 _ _ _ _ (fun m => m = worst ∨ m = _ ∨ m = _ ∨ m = _ ∨ (h.s1 - b > worst ∧ m = _)) ?_ ?_ ?_ ?_
    · exact Or.inr (Or.inl rfl)
    · exact Or.inr (Or.inr (Or.inl rfl))
    · exact Or.inr (Or.inr (Or.inr (Or.inl rfl)))
    · exact Or.inl rfl

/-- an alive best score of one evaluation in frame `f` is at least `-(f+1)·33022` -/
theorem ev_best_lb (tps : Array (Array Int)) (sf ef : Array Int) (sen : Array Int) (rows : List (List Tok)) (f : Nat)
    (best : Int) (i : Nat) (h : Hmm) (hK : K sf ef rows f best i h) (hok : FrameOK tps sen)
    (hal : (ev tps sen f i h).2 > worst) : (ev tps sen f i h).2 ≥ -(((f : Int) + 1) * 33022) := by
  have hw : worst = -536870912 := rfl
  by_cases hf : h.frame < (f : Int)
  · have e1 : (ev tps sen f i h).2 = worst := by unfold ev; rw [if_pos hf]
    omega
  · have hfe : h.frame = (f : Int) := by have := hK.frameLe; omega
    obtain ⟨l0, l1, l2, lo', _⟩ := hK.lo hfe
    have hr : InRange (tps.getD i #[]) (sen.getD (3 * i) 0) (sen.getD (3 * i + 1) 0) (sen.getD (3 * i + 2) 0) h :=
      ⟨l0, l1, l2, lo', hok.sen _, hok.sen _, hok.sen _, hok.tp i⟩
    cases hev : eval3 (tps.getD i #[]) (sen.getD (3 * i) 0) (sen.getD (3 * i + 1) 0) (sen.getD (3 * i + 2) 0) h with
    | mk h' bb =>
    obtain ⟨es0, es1, _, es2, _, eout, _, _, _, _, _, _, _⟩ :=
      eval3_fields _ _ _ _ h hr (hok.noskip i) h' bb hev
    have e1 : ev tps sen f i h = (h', bb) := by unfold ev; rw [if_neg hf]; exact hev
    rw [e1] at hal ⊢
    simp only at hal ⊢
    have ha := hok.sen (3 * i); have hb := hok.sen (3 * i + 1); have hc := hok.sen (3 * i + 2)
    have t00 := hok.tp i 0 0; have t01 := hok.tp i 0 1; have t11 := hok.tp i 1 1
    have t12 := hok.tp i 1 2; have t22 := hok.tp i 2 2; have t23 := hok.tp i 2 3
    have k0 : h.s0 > worst → h.s0 ≥ -((f : Int) * 33022) := fun x => (hK.a0 hfe x).2.2.1
    have k1 : h.s1 > worst → h.s1 ≥ -((f : Int) * 33022) := fun x => (hK.a1 hfe x).2.2.1
    have k2 : h.s2 > worst → h.s2 ≥ -((f : Int) * 33022) := fun x => (hK.a2 hfe x).2.2.1
    rcases eval3_best_cases _ _ _ _ h hr (hok.noskip i) h' bb hev with e | e | e | e | ⟨hA, e⟩
    · omega
    · rw [e, es0] at hal ⊢
      obtain ⟨q1, q2⟩ := clampW_alive _ hal
      rw [q1]
      have := k0 (by omega); omega
    · rw [e, es1] at hal ⊢
      obtain ⟨q1, q2⟩ := clampW_alive _ hal
      rw [q1]
      split at q2
      · have := k1 (by omega); omega
      · have := k0 (by omega); omega
    · rw [e, es2] at hal ⊢
      obtain ⟨q1, q2⟩ := clampW_alive _ hal
      rw [q1]
      split at q2
      · have := k2 (by omega); omega
      · have := k1 (by omega); omega
    · rw [e, eout, if_pos hA] at hal ⊢
      obtain ⟨q1, q2⟩ := clampW_alive _ hal
      rw [q1]
      have := k2 (by omega); omega

theorem foldl_max_mem : ∀ (l : List Int) (b0 : Int),
    l.foldl (fun b x => if x > b then x else b) b0 = b0 ∨ l.foldl (fun b x => if x > b then x else b) b0 ∈ l
  | [], b0 => Or.inl rfl
  | y :: l, b0 => by
    simp only [List.foldl_cons]
    rcases foldl_max_mem l (if y > b0 then y else b0) with e | e
    · rw [e]; split
      · exact Or.inr (List.mem_cons_self ..)
      · exact Or.inl rfl
    · exact Or.inr (List.mem_cons_of_mem _ e)

/-- lower bound of the best score: alive implies `≥ -f·33022` -/
def LB (f : Nat) (best : Int) : Prop := best > worst → best ≥ -((f : Int) * 33022)

/-- with the bound, the renormalisation test is false while `f·33022 ≤ 533 000 000` -/
theorem not_renormDue (f : Nat) (best : Int) (h : LB f best) (hB : (f : Int) * 33022 ≤ 533000000) :
    ¬ renormDue best := by
  have hw : worst = -536870912 := rfl
  rintro ⟨h1, h2⟩
  have := h h1
  omega

/-- one frame: the new best score is `WORST_SCORE` or at least `-(f+1)·33022` -/
theorem step_LB (tps : Array (Array Int)) (sf ef : Array Int) (sen : Array Int) (rows : List (List Tok)) (f : Nat)
    (s : Search) (hok : FrameOK tps sen) (hB : ((f : Int) + 1) * 33022 ≤ 533000000)
    (hK : ∀ i h, s.hmms[i]? = some h → K sf ef rows f s.best i h) :
    LB (f + 1) (step tps sf ef sen (f : Int) s).1.best := by
  obtain ⟨_, hK0, _⟩ := hm0_get sf ef rows f s hK hB
  have hb : (step tps sf ef sen (f : Int) s).1.best =
      ((evalPhase tps sen (f : Int) (hm0Of s)).map (·.2)).foldl (fun b x => if x > b then x else b) worst := rfl
  intro hal
  rw [hb] at hal ⊢
  rcases foldl_max_mem ((evalPhase tps sen (f : Int) (hm0Of s)).map (·.2)) worst with e | e
  · rw [e] at hal; omega
  · generalize ((evalPhase tps sen (f : Int) (hm0Of s)).map (·.2)).foldl (fun b x => if x > b then x else b) worst = B at *
    rw [List.mem_map] at e
    obtain ⟨p, hp, rfl⟩ := e
    obtain ⟨i, hi, hget⟩ := List.mem_iff_getElem.1 hp
    have hget' : (evalPhase tps sen (f : Int) (hm0Of s))[i]? = some p := by rw [List.getElem?_eq_getElem hi, hget]
    unfold evalPhase at hget'
    rw [List.getElem?_mapIdx] at hget'
    cases hl : (hm0Of s)[i]? with
    | none => rw [hl] at hget'; simp at hget'
    | some a =>
      rw [hl] at hget'
      simp only [Option.map_some, Option.some.injEq] at hget'
      have hev : ev tps sen f i a = p := hget'
      have := ev_best_lb tps sf ef sen rows f s.best i a (hK0 i a hl).1 hok (by rw [hev]; exact hal)
      rw [hev] at this
      push_cast; exact this

/-- **no renormalisation.**  The renormalisation flag of `runAux` stays false over frames `f .. f + n` as long as
`(f + n)·33022 ≤ 533 000 000`. -/
theorem runAux_no_renorm (tps : Array (Array Int)) (sf ef : Array Int) (N : Nat)
    (hmono : ∀ i, i + 1 < N → ef.getD i 0 ≤ ef.getD (i + 1) 0) (frames : List (Array Int)) :
    ∀ (s : Search) (f : Nat) (rows : List (List Tok)),
    s.hmms.length ≤ N → rows.length = f → (∀ sen ∈ frames, FrameOK tps sen) →
    ((f + frames.length : Nat) : Int) * 33022 ≤ 533000000 →
    (∀ i h, s.hmms[i]? = some h → K sf ef rows f s.best i h) → LB f s.best →
    (runAux tps sf ef frames s f rows false).2.2 = false := by
  induction frames with
  | nil => intro s f rows _ _ _ _ _ _; rfl
  | cons sen rest ih =>
    intro s f rows hN hl hok hB hK hLB
    have hB1 : ((f : Int) + 1) * 33022 ≤ 533000000 := by
      simp only [List.length_cons] at hB; push_cast at hB; omega
    have hB0 : (f : Int) * 33022 ≤ 533000000 := by omega
    have hokf := hok sen (List.mem_cons_self ..)
    obtain ⟨k1, k2⟩ := step_K tps sf ef sen rows f s N hN hmono hl hokf hB1 hK
    have hnr : decide (renormDue s.best) = false := decide_eq_false (not_renormDue f s.best hLB hB0)
    have e : f + (sen :: rest).length = f + 1 + rest.length := by simp only [List.length_cons]; omega
    show (runAux tps sf ef rest (step tps sf ef sen (f : Int) s).1 (f + 1)
        (rows ++ [(step tps sf ef sen (f : Int) s).2]) (false || decide (renormDue s.best))).2.2 = false
    rw [hnr]
    exact ih (step tps sf ef sen (f : Int) s).1 (f + 1) (rows ++ [(step tps sf ef sen (f : Int) s).2])
      (by rw [k2]; exact hN) (by simp [hl]) (fun x hx => hok x (List.mem_cons_of_mem _ hx))
      (by rw [← e]; exact hB) k1 (step_LB tps sf ef sen rows f s hokf hB1 hK)

/-- **the second pass of an utterance of at most 16 140 frames is never renormalised** (whether or not the final
state is alive) -/
theorem run_no_renorm (tps : Array (Array Int)) (sf ef : Array Int) (frames : List (Array Int))
    (hok : ∀ sen ∈ frames, FrameOK tps sen) (hsf : sf.getD 0 0 ≤ 0)
    (hmono : ∀ i, i + 1 < sf.size → ef.getD i 0 ≤ ef.getD (i + 1) 0)
    (hT : (frames.length : Int) * 33022 ≤ 533000000) :
    (run tps sf ef frames).2.2 = false := by
  have hlenS : (start sf.size).hmms.length = sf.size := by simp [start]
  have hLB0 : LB 0 (start sf.size).best := by
    intro _; show (0 : Int) ≥ -(((0 : Nat) : Int) * 33022); simp
  exact runAux_no_renorm tps sf ef sf.size hmono frames (start sf.size) 0 [] (by rw [hlenS]; exact Nat.le_refl _) rfl hok
    (by simpa using hT) (k_start sf ef sf.size hsf) hLB0

end SSVerif.Align.Step
