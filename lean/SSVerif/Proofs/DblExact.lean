import SSVerif.Proofs.Dbl
/-! # The duration field is exact: `%.3f` of `(double)n / frate` is the decimal `n/frate` whenever that is a whole
number of milliseconds (lemmas for `C14_duration_field_exact`) -/
namespace SSVerif.Dbl
open SSVerif.Fmt3

theorem rne_ge_div (a d : Nat) : a / d ≤ rne a d := by
  unfold rne
  dsimp only
  split
  · omega
  · split
    · omega
    · split <;> omega

/-- above the denormal range the mantissa has its leading bit -/
theorem mantB_ge (num den : Nat) (h : 0 < ulpB num den) : 2 ^ 52 ≤ mantB num den := by
  unfold mantB
  refine Nat.le_trans ?_ (rne_ge_div _ _)
  rw [← Nat.div_div_eq_div_mul, Nat.le_div_iff_mul_le (two_pow_pos _)]
  unfold ulpB at h ⊢
  generalize num * 2 ^ 1074 / den = q at h ⊢
  have hq : q ≠ 0 := by
    intro h0; subst h0
    have : Nat.log2 0 = 0 := by decide
    omega
  have h1 := Nat.log2_self_le hq
  rw [← Nat.pow_add]
  have : 52 + (q.log2 - 52) = q.log2 := by omega
  rw [this]; exact h1

/-- decoding what `roundPos` encoded gives back the value `mantissa · 2^ulp` (in units of `2^-1074`) -/
theorem decode_value (num den : Nat) (he : ulpB num den ≤ 1053) :
    ∃ m e, ofBits (roundPos num den) = some (false, m, e) ∧ -1074 ≤ e ∧
      m * 2 ^ (e + 1074).toNat = mantB num den * 2 ^ ulpB num den := by
  have hm := mantB_le num den
  have hge := mantB_ge num den
  have hb : roundPos num den = ulpB num den * 2 ^ 52 + mantB num den := by
    have h3 : ulpB num den * 2 ^ 52 + mantB num den ≤ 2047 * 2 ^ 52 := by
      clear hge
      omega
    have hinf : infBits = 2047 * 2 ^ 52 := by decide
    have h2 : ulpB num den * 2 ^ 52 + mantB num den ≤ infBits := by rw [hinf]; exact h3
    unfold roundPos
    exact Nat.min_eq_left h2
  rw [hb]
  generalize ulpB num den = e' at *
  generalize mantB num den = m at *
  unfold ofBits
  dsimp only
  have hs : decide ((e' * 2 ^ 52 + m) / 2 ^ 63 % 2 = 1) = false := by
    simp only [decide_eq_false_iff_not]; omega
  rw [hs]
  by_cases h1 : m < 2 ^ 52
  · have h0 : e' = 0 := by
      by_cases h : 0 < e'
      · have := hge h; omega
      · omega
    subst h0
    have hex : (0 * 2 ^ 52 + m) / 2 ^ 52 % 2048 = 0 := by omega
    have hfr : (0 * 2 ^ 52 + m) % 2 ^ 52 = m := by omega
    rw [hex, hfr]
    refine ⟨m, -1074, by simp, by omega, by simp⟩
  · by_cases h2 : m = 2 ^ 53
    · subst h2
      have hex : (e' * 2 ^ 52 + 2 ^ 53) / 2 ^ 52 % 2048 = e' + 2 := by omega
      have hfr : (e' * 2 ^ 52 + 2 ^ 53) % 2 ^ 52 = 0 := by omega
      rw [hex, hfr]
      refine ⟨2 ^ 52 + 0, ((e' + 2 : Nat) : Int) - 1075, ?_, by omega, ?_⟩
      · have a1 : ¬ (e' + 2 = 2047) := by omega
        have a2 : ¬ (e' + 2 = 0) := by omega
        rw [if_neg a1, if_neg a2]
      · have : (((e' + 2 : Nat) : Int) - 1075 + 1074).toNat = e' + 1 := by omega
        rw [this, Nat.pow_succ]
        grind
    · have hex : (e' * 2 ^ 52 + m) / 2 ^ 52 % 2048 = e' + 1 := by omega
      have hfr : (e' * 2 ^ 52 + m) % 2 ^ 52 = m - 2 ^ 52 := by omega
      rw [hex, hfr]
      refine ⟨2 ^ 52 + (m - 2 ^ 52), ((e' + 1 : Nat) : Int) - 1075, ?_, by omega, ?_⟩
      · have a1 : ¬ (e' + 1 = 2047) := by omega
        have a2 : ¬ (e' + 1 = 0) := by omega
        rw [if_neg a1, if_neg a2]
      · have : (((e' + 1 : Nat) : Int) - 1075 + 1074).toNat = e' := by omega
        rw [this]
        have : 2 ^ 52 + (m - 2 ^ 52) = m := by omega
        rw [this]

/-- `milli` with the exponent biased: the value in units of `2^-1074` -/
theorem milli_biased (m : Nat) (e : Int) (he : -1074 ≤ e) :
    milli m e = rne (1000 * (m * 2 ^ (e + 1074).toNat)) (2 ^ 1074) := by
  unfold milli
  cases e with
  | ofNat k =>
    have : (Int.ofNat k + 1074).toNat = k + 1074 := by simp only [Int.ofNat_eq_natCast]; omega
    rw [this]
    show rne (1000 * m * 2 ^ k) 1 = _
    have h := rne_scale (1000 * m * 2 ^ k) 1 (2 ^ 1074) (two_pow_pos _)
    rw [Nat.one_mul] at h
    rw [← h]
    have e1 : 1000 * m * 2 ^ k * 2 ^ 1074 = 1000 * (m * 2 ^ (k + 1074)) := by rw [Nat.pow_add]; grind
    rw [e1]
  | negSucc i =>
    have hi : i + 1 ≤ 1074 := by
      have : Int.negSucc i = -((i : Int) + 1) := rfl
      omega
    have : (Int.negSucc i + 1074).toNat = 1074 - (i + 1) := by
      have : Int.negSucc i = -((i : Int) + 1) := rfl
      omega
    rw [this]
    show rne (1000 * m) (2 ^ (i + 1)) = _
    have h := rne_scale (1000 * m) (2 ^ (i + 1)) (2 ^ (1074 - (i + 1))) (two_pow_pos _)
    rw [← h]
    have e1 : 1000 * m * 2 ^ (1074 - (i + 1)) = 1000 * (m * 2 ^ (1074 - (i + 1))) := by grind
    have e2 : 2 ^ (i + 1) * 2 ^ (1074 - (i + 1)) = 2 ^ 1074 := by
      rw [← Nat.pow_add]
      have : i + 1 + (1074 - (i + 1)) = 1074 := by omega
      rw [this]
    rw [e1, e2]

theorem ulpB_small (n fr : Nat) (hfr : 0 < fr) (hn : n ≤ 2 ^ 31) : ulpB n fr ≤ 1053 := by
  have := ulpB_le n fr 1105 hfr (by
    have h1 : n * 2 ^ 1074 ≤ 2 ^ 31 * 2 ^ 1074 := Nat.mul_le_mul_right _ hn
    have h2 : 2 ^ 31 * 2 ^ 1074 < 2 ^ (1105 + 1) * 1 := by rw [← Nat.pow_add]; simp; exact Nat.pow_lt_pow_right (by decide) (by decide)
    have h3 : 2 ^ (1105 + 1) * 1 ≤ 2 ^ (1105 + 1) * fr := Nat.mul_le_mul_left _ hfr
    omega)
  omega

/-- the heart: if `1000·n = k·fr`, rounding `n/fr` to a double and that double to thousandths gives back `k` -/
theorem milli_round_exact (n fr k : Nat) (hfr : 0 < fr) (hn : n ≤ 2 ^ 31) (hk : 1000 * n = k * fr) :
    rne (1000 * (mantB n fr * 2 ^ ulpB n fr)) (2 ^ 1074) = k := by
  have he : ulpB n fr ≤ 1053 := ulpB_small n fr hfr hn
  have hspec := rne_spec (n * 2 ^ 1074) (fr * 2 ^ ulpB n fr) (Nat.mul_pos hfr (two_pow_pos _))
  change IsRNE (n * 2 ^ 1074) (fr * 2 ^ ulpB n fr) (mantB n fr) at hspec
  generalize ulpB n fr = e' at *
  generalize mantB n fr = m at *
  obtain ⟨j, hj⟩ : ∃ j, 1074 = j + e' := ⟨1074 - e', by omega⟩
  have hj21 : 21 ≤ j := by omega
  have hpow : (2 : Nat) ^ 1074 = 2 ^ j * 2 ^ e' := by rw [hj, Nat.pow_add]
  have hP : 0 < 2 ^ e' := two_pow_pos _
  obtain ⟨s1, s2, _, _⟩ := hspec
  rw [hpow] at s1 s2 ⊢
  -- cancel 2^e'
  have A1 : 2 * (m * fr) ≤ 2 * (n * 2 ^ j) + fr := by
    have : (2 * (m * fr)) * 2 ^ e' ≤ (2 * (n * 2 ^ j) + fr) * 2 ^ e' := by
      calc (2 * (m * fr)) * 2 ^ e' = 2 * (m * (fr * 2 ^ e')) := by grind
        _ ≤ 2 * (n * (2 ^ j * 2 ^ e')) + fr * 2 ^ e' := s1
        _ = (2 * (n * 2 ^ j) + fr) * 2 ^ e' := by grind
    exact Nat.le_of_mul_le_mul_right this hP
  have A2 : 2 * (n * 2 ^ j) ≤ 2 * (m * fr) + fr := by
    have : (2 * (n * 2 ^ j)) * 2 ^ e' ≤ (2 * (m * fr) + fr) * 2 ^ e' := by
      calc (2 * (n * 2 ^ j)) * 2 ^ e' = 2 * (n * (2 ^ j * 2 ^ e')) := by grind
        _ ≤ 2 * (m * (fr * 2 ^ e')) + fr * 2 ^ e' := s2
        _ = (2 * (m * fr) + fr) * 2 ^ e' := by grind
    exact Nat.le_of_mul_le_mul_right this hP
  -- multiply by 1000, use 1000 n = k fr, cancel fr
  have B1 : 2000 * m ≤ 2 * (k * 2 ^ j) + 1000 := by
    have : (2000 * m) * fr ≤ (2 * (k * 2 ^ j) + 1000) * fr := by
      calc (2000 * m) * fr = 1000 * (2 * (m * fr)) := by grind
        _ ≤ 1000 * (2 * (n * 2 ^ j) + fr) := Nat.mul_le_mul_left _ A1
        _ = 2 * ((1000 * n) * 2 ^ j) + 1000 * fr := by grind
        _ = 2 * ((k * fr) * 2 ^ j) + 1000 * fr := by rw [hk]
        _ = (2 * (k * 2 ^ j) + 1000) * fr := by grind
    exact Nat.le_of_mul_le_mul_right this hfr
  have B2 : 2 * (k * 2 ^ j) ≤ 2000 * m + 1000 := by
    have : (2 * (k * 2 ^ j)) * fr ≤ (2000 * m + 1000) * fr := by
      calc (2 * (k * 2 ^ j)) * fr = 2 * ((k * fr) * 2 ^ j) := by grind
        _ = 2 * ((1000 * n) * 2 ^ j) := by rw [hk]
        _ = 1000 * (2 * (n * 2 ^ j)) := by grind
        _ ≤ 1000 * (2 * (m * fr) + fr) := Nat.mul_le_mul_left _ A2
        _ = (2000 * m + 1000) * fr := by grind
    exact Nat.le_of_mul_le_mul_right this hfr
  -- scale the rounding by 2^e' and conclude by uniqueness
  have hsc : rne (1000 * (m * 2 ^ e')) (2 ^ j * 2 ^ e') = rne (1000 * m) (2 ^ j) := by
    have := rne_scale (1000 * m) (2 ^ j) (2 ^ e') hP
    have e1 : 1000 * m * 2 ^ e' = 1000 * (m * 2 ^ e') := by grind
    rw [← this, e1]
  rw [hsc]
  have hJ : (2 : Nat) ^ 21 ≤ 2 ^ j := Nat.pow_le_pow_right (by decide) hj21
  have hkr : IsRNE (1000 * m) (2 ^ j) k := by
    refine ⟨by omega, by omega, by omega, by omega⟩
  exact IsRNE_unique (two_pow_pos _) (rne_spec _ _ (two_pow_pos _)) hkr


theorem ratioBits_nat (n fr : Nat) (hfr : 0 < fr) : ratioBits (n : Int) (fr : Int) = roundPos n fr := by
  unfold ratioBits divInt
  dsimp only
  have h0 : ¬ ((fr : Int) = 0) := by omega
  have h1 : decide ((n : Int) < 0) = false := by simp
  have h2 : decide ((fr : Int) < 0) = false := by simp
  rw [if_neg h0, h1, h2]
  show sgn false + roundPos (n : Int).natAbs (fr : Int).natAbs = roundPos n fr
  rw [Int.natAbs_natCast, Int.natAbs_natCast]
  show 0 + roundPos n fr = roundPos n fr
  rw [Nat.zero_add]

theorem fmtBits_of_decode (b : Nat) (m : Nat) (e : Int) (k : Nat) (h : ofBits b = some (false, m, e)) (hk : milli m e = k) :
    fmtBits b = dec (k / 1000) ++ 46 :: pad3 (k % 1000) := by
  unfold fmtBits
  rw [h]
  show fmt3 false m e = _
  unfold fmt3
  rw [hk]
  rfl

/-- re-rounding a value that is already a double changes nothing: `mant · 2^ulp` units round to the same pattern -/
theorem roundPos_idem (num den : Nat) (he : ulpB num den ≤ 1053) :
    roundPos (mantB num den * 2 ^ ulpB num den) (2 ^ 1074) = roundPos num den := by
  have hm := mantB_le num den
  have hge := mantB_ge num den
  have hb : roundPos num den = ulpB num den * 2 ^ 52 + mantB num den := by
    have h3 : ulpB num den * 2 ^ 52 + mantB num den ≤ 2047 * 2 ^ 52 := by
      clear hge
      omega
    have hinf : infBits = 2047 * 2 ^ 52 := by decide
    have h2 : ulpB num den * 2 ^ 52 + mantB num den ≤ infBits := by rw [hinf]; exact h3
    unfold roundPos
    exact Nat.min_eq_left h2
  rw [hb]
  generalize ulpB num den = e' at *
  generalize mantB num den = m at *
  obtain ⟨hu, hmm⟩ := roundPos_int (m * 2 ^ e')
  have hP : 0 < 2 ^ e' := two_pow_pos _
  have hinf : infBits = 2047 * 2 ^ 52 := by decide
  -- the three shapes of the mantissa
  by_cases h53 : m = 2 ^ 53
  · subst h53
    have hX : 2 ^ 53 * 2 ^ e' = 2 ^ (53 + e') := by rw [← Nat.pow_add]
    have hlog : (2 ^ 53 * 2 ^ e').log2 = 53 + e' := by rw [hX]; exact Nat.log2_two_pow
    have hu' : ulpB (2 ^ 53 * 2 ^ e') (2 ^ 1074) = e' + 1 := by rw [hu, hlog]; omega
    have hm' : mantB (2 ^ 53 * 2 ^ e') (2 ^ 1074) = 2 ^ 52 := by
      rw [hmm, hlog]
      have : 53 + e' - 52 = e' + 1 := by omega
      rw [this]
      have hexp : 53 + e' = 52 + (e' + 1) := by omega
      have : 2 ^ 53 * 2 ^ e' = 2 ^ 52 * 2 ^ (e' + 1) := by rw [← Nat.pow_add, ← Nat.pow_add, hexp]
      rw [this]
      exact rne_mul_self _ _ (two_pow_pos _)
    unfold roundPos
    rw [hu', hm', hinf]
    have h1 : (e' + 1) * 2 ^ 52 + 2 ^ 52 = e' * 2 ^ 52 + 2 ^ 53 := by omega
    rw [h1]
    apply Nat.min_eq_left
    omega
  · have hlt : m < 2 ^ 53 := by omega
    have hm' : rne (m * 2 ^ e') (2 ^ e') = m := rne_mul_self _ _ hP
    by_cases h0 : m = 0
    · subst h0
      have he0 : e' = 0 := by
        by_cases h : 0 < e'
        · have := hge h; omega
        · omega
      subst he0
      obtain ⟨hu0, hm0⟩ := roundPos_int 0
      have hl0 : Nat.log2 0 = 0 := by decide
      rw [hl0] at hu0 hm0
      have hz : 0 * 2 ^ 0 = 0 := by decide
      rw [hz]
      unfold roundPos
      rw [hu0, hm0, rne_zero _ (two_pow_pos _)]
      decide
    · have hlog : (m * 2 ^ e').log2 - 52 = e' := by
        have hX0 : m * 2 ^ e' ≠ 0 := Nat.mul_ne_zero h0 (Nat.ne_of_gt hP)
        by_cases h : 0 < e'
        · have h52 := hge h
          -- 2^(52+e') ≤ X < 2^(53+e')
          have l1 : 2 ^ (52 + e') ≤ m * 2 ^ e' := by rw [Nat.pow_add]; exact Nat.mul_le_mul_right _ h52
          have l2 : m * 2 ^ e' < 2 ^ (53 + e') := by rw [Nat.pow_add]; exact Nat.mul_lt_mul_of_pos_right hlt hP
          have a1 := (Nat.le_log2 hX0).mpr l1
          have a2 := (Nat.log2_lt hX0).mpr l2
          omega
        · have he0 : e' = 0 := by omega
          subst he0
          have l2 : m * 2 ^ 0 < 2 ^ 53 := by simpa using hlt
          have a2 := (Nat.log2_lt hX0).mpr l2
          omega
      unfold roundPos
      rw [hu, hmm, hlog, hm', hinf]
      apply Nat.min_eq_left
      clear hge hu hmm hm' hb
      omega

/-- adding `+0.0` to a rounded non-negative quotient gives the same double -/
theorem addBits_zero_roundPos' (z : Nat) (h0 : ofBits z = some (false, 0, -1074)) (num den : Nat)
    (he : ulpB num den ≤ 1053) : addBits z (roundPos num den) = roundPos num den := by
  obtain ⟨m, e, d1, d2, d3⟩ := decode_value num den he
  unfold addBits
  rw [h0, d1]
  dsimp only
  have hmin : min (-1074) e = -1074 := by omega
  rw [hmin]
  have e1 : (e - -1074).toNat = (e + 1074).toNat := by omega
  have e2 : ((-1074 : Int) + 1074).toNat = 0 := by decide
  rw [e1, e2, d3]
  simp only [Bool.false_eq_true, if_false, Nat.zero_mul, Int.natCast_zero, Int.zero_add, Nat.pow_zero, Nat.mul_one,
    Bool.and_self]
  by_cases hz : ((mantB num den * 2 ^ ulpB num den : Nat) : Int) = 0
  · rw [if_pos hz]
    have hz' : mantB num den * 2 ^ ulpB num den = 0 := by exact_mod_cast hz
    have hm0 : mantB num den = 0 := by
      rcases Nat.mul_eq_zero.mp hz' with h | h
      · exact h
      · exact absurd h (Nat.ne_of_gt (two_pow_pos _))
    have hu0 : ulpB num den = 0 := by
      by_cases h : 0 < ulpB num den
      · have := mantB_ge num den h; omega
      · omega
    unfold roundPos
    rw [hm0, hu0]
    decide
  · rw [if_neg hz]
    have hneg : decide (((mantB num den * 2 ^ ulpB num den : Nat) : Int) < 0) = false := by
      simp only [decide_eq_false_iff_not]; omega
    rw [hneg, Int.natAbs_natCast]
    show 0 + roundPos (mantB num den * 2 ^ ulpB num den) (2 ^ 1074) = _
    rw [Nat.zero_add]
    exact roundPos_idem num den he

theorem addBits_zero_roundPos (num den : Nat) (he : ulpB num den ≤ 1053) :
    addBits 0 (roundPos num den) = roundPos num den :=
  addBits_zero_roundPos' 0 (by decide) num den he

/-- `%.3f` of `(double)n / fr` when `n/fr` is a whole number `k` of thousandths: the exact decimal -/
theorem fmt_ratio_exact (n fr k : Nat) (hfr : 0 < fr) (hn : n ≤ 2 ^ 31) (hk : 1000 * n = k * fr) :
    fmtBits (ratioBits (n : Int) (fr : Int)) = dec (k / 1000) ++ 46 :: pad3 (k % 1000) := by
  obtain ⟨m, e, d1, d2, d3⟩ := decode_value n fr (ulpB_small n fr hfr hn)
  have hmil : milli m e = k := by
    rw [milli_biased m e d2, d3]
    exact milli_round_exact n fr k hfr hn hk
  rw [ratioBits_nat n fr hfr]
  exact fmtBits_of_decode _ m e k d1 hmil

/-- in general (any frame rate): rounding `n/fr` to a double and that double to thousandths gives a `k` with
`|k/1000 − n/fr| ≤ (1/2000)·(1 + 2^-11)` -/
theorem milli_round_close (n fr : Nat) (hfr : 0 < fr) (hn : n ≤ 2 ^ 31) :
    2048 * (2 * (rne (1000 * (mantB n fr * 2 ^ ulpB n fr)) (2 ^ 1074) * fr)) ≤ 2048 * (2000 * n) + 2049 * fr ∧
    2048 * (2000 * n) ≤ 2048 * (2 * (rne (1000 * (mantB n fr * 2 ^ ulpB n fr)) (2 ^ 1074) * fr)) + 2049 * fr := by
  have he : ulpB n fr ≤ 1053 := ulpB_small n fr hfr hn
  have hspec := rne_spec (n * 2 ^ 1074) (fr * 2 ^ ulpB n fr) (Nat.mul_pos hfr (two_pow_pos _))
  change IsRNE (n * 2 ^ 1074) (fr * 2 ^ ulpB n fr) (mantB n fr) at hspec
  generalize ulpB n fr = e' at *
  generalize mantB n fr = m at *
  obtain ⟨j, hj⟩ : ∃ j, 1074 = j + e' := ⟨1074 - e', by omega⟩
  have hj21 : 21 ≤ j := by omega
  have hpow : (2 : Nat) ^ 1074 = 2 ^ j * 2 ^ e' := by rw [hj, Nat.pow_add]
  have hP : 0 < 2 ^ e' := two_pow_pos _
  obtain ⟨s1, s2, _, _⟩ := hspec
  rw [hpow] at s1 s2 ⊢
  have A1 : 2 * (m * fr) ≤ 2 * (n * 2 ^ j) + fr := by
    have : (2 * (m * fr)) * 2 ^ e' ≤ (2 * (n * 2 ^ j) + fr) * 2 ^ e' := by
      calc (2 * (m * fr)) * 2 ^ e' = 2 * (m * (fr * 2 ^ e')) := by grind
        _ ≤ 2 * (n * (2 ^ j * 2 ^ e')) + fr * 2 ^ e' := s1
        _ = (2 * (n * 2 ^ j) + fr) * 2 ^ e' := by grind
    exact Nat.le_of_mul_le_mul_right this hP
  have A2 : 2 * (n * 2 ^ j) ≤ 2 * (m * fr) + fr := by
    have : (2 * (n * 2 ^ j)) * 2 ^ e' ≤ (2 * (m * fr) + fr) * 2 ^ e' := by
      calc (2 * (n * 2 ^ j)) * 2 ^ e' = 2 * (n * (2 ^ j * 2 ^ e')) := by grind
        _ ≤ 2 * (m * (fr * 2 ^ e')) + fr * 2 ^ e' := s2
        _ = (2 * (m * fr) + fr) * 2 ^ e' := by grind
    exact Nat.le_of_mul_le_mul_right this hP
  have hsc : rne (1000 * (m * 2 ^ e')) (2 ^ j * 2 ^ e') = rne (1000 * m) (2 ^ j) := by
    have := rne_scale (1000 * m) (2 ^ j) (2 ^ e') hP
    have e1 : 1000 * m * 2 ^ e' = 1000 * (m * 2 ^ e') := by grind
    rw [← this, e1]
  rw [hsc]
  obtain ⟨c1, c2, _, _⟩ := rne_spec (1000 * m) (2 ^ j) (two_pow_pos _)
  generalize rne (1000 * m) (2 ^ j) = k at *
  have hJ : (2 : Nat) ^ 21 ≤ 2 ^ j := Nat.pow_le_pow_right (by decide) hj21
  generalize (2 : Nat) ^ j = P at *
  have hPpos : 0 < P := by omega
  -- everything times fr, in the atoms k*P*fr, m*fr, n*P, P*fr
  have D1 : 2 * (k * P * fr) ≤ 2000 * (m * fr) + P * fr := by
    have := Nat.mul_le_mul_right fr c1
    calc 2 * (k * P * fr) = 2 * (k * P) * fr := by grind
      _ ≤ (2 * (1000 * m) + P) * fr := this
      _ = 2000 * (m * fr) + P * fr := by grind
  have D2 : 2000 * (m * fr) ≤ 2 * (k * P * fr) + P * fr := by
    have := Nat.mul_le_mul_right fr c2
    calc 2000 * (m * fr) = 2 * (1000 * m) * fr := by grind
      _ ≤ (2 * (k * P) + P) * fr := this
      _ = 2 * (k * P * fr) + P * fr := by grind
  have D3 : 2097152 * fr ≤ P * fr := Nat.mul_le_mul_right fr hJ
  constructor
  · have : (2048 * (2 * (k * fr))) * P ≤ (2048 * (2000 * n) + 2049 * fr) * P := by
      have e1 : (2048 * (2 * (k * fr))) * P = 4096 * (k * P * fr) := by grind
      have e2 : (2048 * (2000 * n) + 2049 * fr) * P = 4096000 * (n * P) + 2049 * (P * fr) := by grind
      rw [e1, e2]
      omega
    exact Nat.le_of_mul_le_mul_right this hPpos
  · have : (2048 * (2000 * n)) * P ≤ (2048 * (2 * (k * fr)) + 2049 * fr) * P := by
      have e1 : (2048 * (2000 * n)) * P = 4096000 * (n * P) := by grind
      have e2 : (2048 * (2 * (k * fr)) + 2049 * fr) * P = 4096 * (k * P * fr) + 2049 * (P * fr) := by grind
      rw [e1, e2]
      omega
    exact Nat.le_of_mul_le_mul_right this hPpos

theorem fmtBits_eq_fmt3 (b : Nat) (neg : Bool) (m : Nat) (e : Int) (h : ofBits b = some (neg, m, e)) :
    fmtBits b = fmt3 neg m e := by
  unfold fmtBits
  rw [h]

/-- the text `%.3f` prints for `(double)n / fr`, read back in thousandths, for any frame rate -/
theorem fmt_ratio_close (n fr : Nat) (hfr : 0 < fr) (hn : n ≤ 2 ^ 31) :
    ∃ k, readMilli (fmtBits (ratioBits (n : Int) (fr : Int))) = some (false, k) ∧
      2048 * (2 * (k * fr)) ≤ 2048 * (2000 * n) + 2049 * fr ∧ 2048 * (2000 * n) ≤ 2048 * (2 * (k * fr)) + 2049 * fr := by
  obtain ⟨m, e, d1, d2, d3⟩ := decode_value n fr (ulpB_small n fr hfr hn)
  have hk : milli m e = rne (1000 * (mantB n fr * 2 ^ ulpB n fr)) (2 ^ 1074) := by
    rw [milli_biased m e d2, d3]
  have hc := milli_round_close n fr hfr hn
  generalize rne (1000 * (mantB n fr * 2 ^ ulpB n fr)) (2 ^ 1074) = k at hk hc
  refine ⟨k, ?_, hc.1, hc.2⟩
  rw [ratioBits_nat n fr hfr, fmtBits_eq_fmt3 _ _ m e d1, readMilli_fmt3, hk]

/-- the same for `0.0 + (double)f / fr`: a zero start offset does not disturb the time -/
theorem fmt_time_zero_exact (f fr k : Nat) (hfr : 0 < fr) (hf : f ≤ 2 ^ 31) (hk : 1000 * f = k * fr) :
    fmtBits (timeBits 0 (f : Int) (fr : Int)) = dec (k / 1000) ++ 46 :: pad3 (k % 1000) := by
  unfold timeBits
  have := ratioBits_nat f fr hfr
  unfold ratioBits at this
  rw [this, addBits_zero_roundPos f fr (ulpB_small f fr hfr hf), ← ratioBits_nat f fr hfr]
  exact fmt_ratio_exact f fr k hfr hf hk

end SSVerif.Dbl
