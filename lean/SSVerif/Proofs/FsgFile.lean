import SSVerif.Proofs.FsgOps
/-!
# `fsg_model_write` followed by `fsg_model_read_s3file`, at token level

`read C (write C g) = ok (closure (rebuild q g))` where `rebuild` re-adds every written arc with its
re-parsed probability `q logp = parseP (printP logp)` through `fsg_model_trans_add` /
`fsg_model_null_trans_add`; then: `rebuild` has the same states, start, final state and the same
labelled arcs (labels compared as word strings), duplicates merged to the higher probability.
-/
namespace SSVerif.Fsg

/-- what the reader does with one written arc -/
def addArc (q : Int → Int) (src : Fsg) (acc : Fsg) (l : Link) : Fsg :=
  match l.wid with
  | none => (nullAdd acc l.src l.dst (q l.logp)).1
  | some w => transAdd (wordAdd acc (wordStr src w)).1 l.src l.dst (q l.logp) (wordAdd acc (wordStr src w)).2

/-- the arcs in the order `fsg_model_write` prints them -/
def written (g : Fsg) : List Link := (List.range g.nState).flatMap (arcsOf g)

def fileName (g : Fsg) : String := if g.name = "" then "unknown" else g.name

def rebuild (q : Int → Int) (g : Fsg) : Fsg :=
  (written g).foldl (addArc q g) (Fsg.init (fileName g) g.nState g.start g.final g.logZero)

/-- the laws assumed of libc's conversions: the integers that occur (state numbers, `≤ nState`)
survive `%d`/`strtol`; the probability of every arc of `g` is accepted on read-back and comes back
as `q logp` -/
structure CodecLaw (C : Codec) (q : Int → Int) (g : Fsg) : Prop where
  num : ∀ n : Nat, n ≤ g.nState → C.parseN (C.showN n) = some (n : Int)
  prob : ∀ l ∈ g.links, C.parseP (C.printP l.logp) = some (q l.logp)
  /-- the reader is given the `logmath` the grammar was built with -/
  zero : C.zero = g.logZero

/-- what a grammar must satisfy to be written as a file: states in range (the C code requires it
of every arc), words are non-empty tokens -/
structure FileWF (g : Fsg) : Prop where
  start : g.start < g.nState
  final : g.final < g.nState
  dst : ∀ l ∈ g.links, l.dst < g.nState
  word : ∀ l ∈ g.links, ∀ w, l.wid = some w → wordStr g w ≠ ""

theorem mem_written {g : Fsg} {l : Link} : l ∈ written g ↔ l ∈ g.links ∧ l.src < g.nState := by
  unfold written arcsOf
  simp only [List.mem_flatMap, List.mem_range, List.mem_append, List.mem_filter]
  constructor
  · rintro ⟨i, hi, h | h⟩
    · refine ⟨h.1, ?_⟩
      have := h.2; simp at this; omega
    · refine ⟨h.1, ?_⟩
      have := h.2; simp at this; omega
  · rintro ⟨hl, hs⟩
    refine ⟨l.src, hs, ?_⟩
    by_cases hn : l.isNull = true
    · exact .inr ⟨hl, by simp [hn]⟩
    · exact .inl ⟨hl, by simp [hn]⟩

theorem stateTok_show {C : Codec} {i n : Nat} (hn : C.parseN (C.showN i) = some (i : Int)) (h : i < n) :
    stateTok C n (C.showN i) = some i := by
  unfold stateTok
  rw [hn]
  simp only
  rw [if_pos ⟨by omega, by omega⟩]
  simp

theorem addArc_nState (q : Int → Int) (src acc : Fsg) (l : Link) : (addArc q src acc l).nState = acc.nState := by
  unfold addArc
  cases l.wid with
  | none => exact (nullAdd_start _ _ _ _).2.2.1
  | some w =>
    simp only
    rw [(transAdd_fields _ _ _ _ _).2.2.1]
    unfold wordAdd; split <;> rfl

theorem readTrans_writeLink {C : Codec} {q : Int → Int} {g acc : Fsg} (law : CodecLaw C q g) (wf : FileWF g)
    (hn : acc.nState = g.nState) {l : Link} (hl : l ∈ g.links) (hs : l.src < g.nState) :
    readTrans C acc ((writeLink C g l).tail) = .ok (addArc q g acc l) := by
  have hd := wf.dst l hl
  unfold writeLink
  simp only [List.cons_append, List.tail_cons, List.nil_append]
  unfold readTrans
  simp only [hn, stateTok_show (law.num _ (Nat.le_of_lt hs)) hs, stateTok_show (law.num _ (Nat.le_of_lt hd)) hd,
    law.prob l hl]
  unfold addArc
  cases hw : l.wid with
  | none => simp
  | some w =>
    have := wf.word l hl w hw
    simp [optTok, this]

theorem readLines_written {C : Codec} {q : Int → Int} {g : Fsg} (law : CodecLaw C q g) (wf : FileWF g) :
    ∀ (arcs : List Link) (acc : Fsg), (∀ l ∈ arcs, l ∈ g.links ∧ l.src < g.nState) → acc.nState = g.nState →
    readLines C acc (arcs.map (writeLink C g) ++ [["FSG_END"]]) = .ok (arcs.foldl (addArc q g) acc)
  | [], acc, _, _ => by
    have : kwMatch "FSG_END" "FSG_END" = true := by decide
    simp [readLines, this]
  | l :: arcs, acc, h, hn => by
    have hl := h l List.mem_cons_self
    have h1 : kwMatch "TRANSITION" "FSG_END" = false := by decide
    have h2 : kwMatch "TRANSITION" "TRANSITION" = true := by decide
    have hrt := readTrans_writeLink law wf hn hl.1 hl.2
    have hw : writeLink C g l = "TRANSITION" :: (writeLink C g l).tail := by
      unfold writeLink; rfl
    rw [List.map_cons, List.cons_append, hw, readLines]
    simp only [h1, h2, Bool.or_true, if_true, Bool.false_eq_true, if_false, hrt]
    rw [List.foldl_cons]
    exact readLines_written law wf arcs _ (fun x hx => h x (List.mem_cons_of_mem _ hx))
      ((addArc_nState q g acc l).trans hn)

theorem read_write {C : Codec} {q : Int → Int} {g : Fsg} (law : CodecLaw C q g) (wf : FileWF g) :
    read C (write C g) = .ok (closure (rebuild q g)) := by
  have k1 : kwMatch "FSG_BEGIN" "FSG_BEGIN" = true := by decide
  have k2 : kwMatch "NUM_STATES" "N" = false := by decide
  have k3 : kwMatch "NUM_STATES" "NUM_STATES" = true := by decide
  have k4 : kwMatch "START_STATE" "S" = false := by decide
  have k5 : kwMatch "START_STATE" "START_STATE" = true := by decide
  have k6 : kwMatch "FINAL_STATE" "F" = false := by decide
  have k7 : kwMatch "FINAL_STATE" "FINAL_STATE" = true := by decide
  have hlines := readLines_written law wf (written g) (Fsg.init (fileName g) g.nState g.start g.final g.logZero)
    (fun l hl => mem_written.1 hl) rfl
  unfold read write
  simp only [List.cons_append, List.nil_append, headerValue, k1, k2, k3, k4, k5, k6, k7, Bool.or_true, Bool.false_or,
    if_true, List.head?_cons, law.num _ (Nat.le_refl _)]
  have hnn : ¬ ((g.nState : Int) < 0) := by omega
  simp only [hnn, if_false, Int.toNat_natCast, stateTok_show (law.num _ (Nat.le_of_lt wf.start)) wf.start,
    stateTok_show (law.num _ (Nat.le_of_lt wf.final)) wf.final]
  have : (List.flatMap (fun i => List.map (writeLink C g) (arcsOf g i)) (List.range g.nState)) =
      (written g).map (writeLink C g) := by
    unfold written; rw [List.map_flatMap]
  rw [this]
  have hname : (if g.name = "" then "unknown" else g.name) = fileName g := rfl
  rw [hname, law.zero, hlines]
  rfl

/-! ### the rebuilt grammar has the same labelled arcs -/

/-- label of a link as a word string -/
def lbl (g : Fsg) (l : Link) : Option String := l.wid.map (wordStr g)

/-- every word id on a link is inside the vocabulary -/
def VocOK (g : Fsg) : Prop := ∀ l ∈ g.links, ∀ w, l.wid = some w → w < g.vocab.length

theorem getD_of_idxOf? (w : String) : ∀ (vs : List String) (i : Nat), vs.idxOf? w = some i →
    vs.getD i "" = w ∧ i < vs.length
  | [], i, h => by simp [List.idxOf?] at h
  | v :: vs, i, h => by
    simp only [List.idxOf?, List.findIdx?_cons] at h
    by_cases hv : (v == w) = true
    · simp only [hv, if_true, Option.some.injEq] at h
      subst h
      exact ⟨by simpa using hv, by simp⟩
    · have hv' : (v == w) = false := by simpa using hv
      simp only [hv', Bool.false_eq_true, if_false, Option.map_eq_some_iff] at h
      obtain ⟨j, hj, rfl⟩ := h
      have := getD_of_idxOf? w vs j (by simpa [List.idxOf?] using hj)
      exact ⟨by simpa using this.1, by simp; exact this.2⟩

theorem wordAdd_spec (g : Fsg) (s : String) :
    wordStr (wordAdd g s).1 (wordAdd g s).2 = s ∧ (wordAdd g s).2 < (wordAdd g s).1.vocab.length ∧
    (∃ ext, (wordAdd g s).1.vocab = g.vocab ++ ext) ∧ (wordAdd g s).1.links = g.links ∧
    (wordAdd g s).1.nState = g.nState ∧ (wordAdd g s).1.start = g.start ∧ (wordAdd g s).1.final = g.final := by
  have h := wordId_wordAdd g s
  have := getD_of_idxOf? s _ _ h
  refine ⟨this.1, this.2, ?_, wordAdd_links g s, ?_, ?_, ?_⟩
  · unfold wordAdd; split
    · exact ⟨[], by simp⟩
    · exact ⟨[s], rfl⟩
  all_goals (unfold wordAdd; split <;> rfl)

theorem wordStr_append {g g' : Fsg} {ext : List String} (h : g'.vocab = g.vocab ++ ext) {w : Nat}
    (hw : w < g.vocab.length) : wordStr g' w = wordStr g w := by
  unfold wordStr
  rw [h, List.getD_eq_getElem?_getD, List.getD_eq_getElem?_getD, List.getElem?_append_left hw]

theorem transAdd_post (g : Fsg) (a c : Nat) (lp : Int) (w : Nat) :
    ∃ x ∈ (transAdd g a c lp w).links, x.src = a ∧ x.dst = c ∧ x.wid = some w ∧ lp ≤ x.logp := by
  unfold transAdd
  cases hf : g.links.find? (Link.isWordAt a c w) with
  | none => exact ⟨⟨a, c, lp, some w⟩, List.mem_cons_self, rfl, rfl, rfl, Int.le_refl _⟩
  | some l0 =>
    have hk := isWordAt_iff.1 (List.find?_some hf)
    have hm := List.mem_of_find?_eq_some hf
    simp only
    split
    · rcases raiseFirst_covers (p := Link.isWordAt a c w) (lp := lp) hm with h | ⟨_, h, _⟩
      · -- cannot happen (the first match is raised), but harmless: use the raised copy instead
        have := (find?_raiseFirst_same (p := Link.isWordAt a c w) (lp := lp) (isWordAt_logp a c w) g.links)
        rw [hf] at this
        have hm' := List.mem_of_find?_eq_some this
        exact ⟨_, hm', hk.2.1, hk.2.2, hk.1, Int.le_refl _⟩
      · exact ⟨_, h, hk.2.1, hk.2.2, hk.1, Int.le_refl _⟩
    · rename_i hge
      exact ⟨l0, hm, hk.2.1, hk.2.2, hk.1, by omega⟩

/-- invariant of the reader's loop over the arcs written for `g` -/
structure RInv (q : Int → Int) (g acc : Fsg) (done : List Link) : Prop where
  voc : VocOK acc
  back : ∀ l' ∈ acc.links, ∃ l ∈ g.links, l.src = l'.src ∧ l.dst = l'.dst ∧ lbl g l = lbl acc l' ∧ l'.logp = q l.logp
  fwd : ∀ l ∈ done, (l.wid = none → l.src ≠ l.dst) →
    ∃ l' ∈ acc.links, l'.src = l.src ∧ l'.dst = l.dst ∧ lbl acc l' = lbl g l ∧ q l.logp ≤ l'.logp

theorem addArc_inv {q : Int → Int} {g acc : Fsg} {done : List Link} (inv : RInv q g acc done)
    {l : Link} (hl : l ∈ g.links) : RInv q g (addArc q g acc l) (l :: done) := by
  unfold addArc
  cases hw : l.wid with
  | none =>
    simp only
    have hf := nullAdd_start acc l.src l.dst (q l.logp)
    have hvoc : (nullAdd acc l.src l.dst (q l.logp)).1.vocab = acc.vocab := hf.2.2.2.1
    have hlbl : ∀ x : Link, lbl (nullAdd acc l.src l.dst (q l.logp)).1 x = lbl acc x := by
      intro x; unfold lbl wordStr; rw [hvoc]
    refine ⟨?_, ?_, ?_⟩
    · intro x hx w hxw
      rw [hvoc]
      rcases mem_nullAdd hx with hx | ⟨_, _, e, _, _⟩
      · exact inv.voc x hx w hxw
      · rw [e] at hxw; cases hxw
    · intro x hx
      rcases mem_nullAdd hx with hx | ⟨e1, e2, e3, e4, _⟩
      · obtain ⟨l0, m0, a, b, c, d⟩ := inv.back x hx
        exact ⟨l0, m0, a, b, by rw [hlbl]; exact c, d⟩
      · exact ⟨l, hl, e1.symm, e2.symm, by rw [hlbl]; simp [lbl, hw, e3], e4⟩
    · intro l0 h0 hc
      rcases List.mem_cons.1 h0 with rfl | h0
      · obtain ⟨v, e, le⟩ := nullAdd_post acc (q l0.logp) (hc hw)
        obtain ⟨x, mx, wx, sx, dx, px⟩ := nullLookup_some e
        exact ⟨x, mx, sx, dx, by rw [hlbl]; simp [lbl, wx, hw], by omega⟩
      · obtain ⟨x, mx, sx, dx, lx, px⟩ := inv.fwd l0 h0 hc
        obtain ⟨x', mx', sx', dx', wx', px'⟩ := nullAdd_dom acc l.src l.dst (q l.logp) x mx
        exact ⟨x', mx', sx'.trans sx, dx'.trans dx, by rw [hlbl]; simp only [lbl, wx'] at lx ⊢; exact lx, by omega⟩
  | some w =>
    simp only
    obtain ⟨hs, hid, ⟨ext, hext⟩, hlinks, _, _, _⟩ := wordAdd_spec acc (wordStr g w)
    generalize hr : wordAdd acc (wordStr g w) = r at hs hid hext hlinks
    have hf := transAdd_fields r.1 l.src l.dst (q l.logp) r.2
    have hvoc : (transAdd r.1 l.src l.dst (q l.logp) r.2).vocab = acc.vocab ++ ext := hf.2.2.2.1.trans hext
    have hstr : ∀ i, i < acc.vocab.length → wordStr (transAdd r.1 l.src l.dst (q l.logp) r.2) i = wordStr acc i :=
      fun i hi => wordStr_append hvoc hi
    have hstr_new : wordStr (transAdd r.1 l.src l.dst (q l.logp) r.2) r.2 = wordStr g w := by
      unfold wordStr at hs ⊢; rw [hf.2.2.2.1]; exact hs
    have hlbl_old : ∀ x ∈ acc.links, lbl (transAdd r.1 l.src l.dst (q l.logp) r.2) x = lbl acc x := by
      intro x hx
      unfold lbl
      cases hxw : x.wid with
      | none => rfl
      | some i => simp only [Option.map_some]; rw [hstr i (inv.voc x hx i hxw)]
    refine ⟨?_, ?_, ?_⟩
    · intro x hx i hxi
      rw [hvoc]
      rcases mem_transAdd hx with hx | ⟨_, _, e, _⟩
      · rw [hlinks] at hx
        have := inv.voc x hx i hxi
        simp; omega
      · rw [e] at hxi; cases hxi
        rw [hf.2.2.2.1] at *
        rw [← hext]; exact hid
    · intro x hx
      rcases mem_transAdd hx with hx | ⟨e1, e2, e3, e4⟩
      · rw [hlinks] at hx
        obtain ⟨l0, m0, a, b, c, d⟩ := inv.back x hx
        exact ⟨l0, m0, a, b, by rw [hlbl_old x hx]; exact c, d⟩
      · refine ⟨l, hl, e1.symm, e2.symm, ?_, e4⟩
        simp only [lbl, hw, e3, Option.map_some]; rw [hstr_new]
    · intro l0 h0 hc
      rcases List.mem_cons.1 h0 with rfl | h0
      · obtain ⟨x, mx, sx, dx, wx, px⟩ := transAdd_post r.1 l0.src l0.dst (q l0.logp) r.2
        refine ⟨x, mx, sx, dx, ?_, px⟩
        simp only [lbl, hw, wx, Option.map_some]; rw [hstr_new]
      · obtain ⟨x, mx, sx, dx, lx, px⟩ := inv.fwd l0 h0 hc
        have mx0 := mx
        rw [← hlinks] at mx
        obtain ⟨x', mx', sx', dx', wx', px'⟩ := transAdd_dom r.1 l.src l.dst (q l.logp) r.2 x mx
        refine ⟨x', mx', sx'.trans sx, dx'.trans dx, ?_, by omega⟩
        have : lbl (transAdd r.1 l.src l.dst (q l.logp) r.2) x' = lbl (transAdd r.1 l.src l.dst (q l.logp) r.2) x := by
          unfold lbl; rw [wx']
        rw [this, hlbl_old x mx0]; exact lx

theorem rebuildFold_inv {q : Int → Int} {g : Fsg} : ∀ (arcs : List Link) (acc : Fsg) (done : List Link),
    (∀ l ∈ arcs, l ∈ g.links) → RInv q g acc done →
    RInv q g (arcs.foldl (addArc q g) acc) (arcs.reverse ++ done)
  | [], _, _, _, inv => by simpa using inv
  | l :: arcs, acc, done, h, inv => by
    have := rebuildFold_inv arcs _ (l :: done) (fun x hx => h x (List.mem_cons_of_mem _ hx))
      (addArc_inv inv (h l List.mem_cons_self))
    simpa using this

theorem rebuild_inv (q : Int → Int) (g : Fsg) : RInv q g (rebuild q g) (written g).reverse := by
  have := rebuildFold_inv (q := q) (g := g) (written g) (Fsg.init (fileName g) g.nState g.start g.final g.logZero) []
    (fun l hl => (mem_written.1 hl).1)
    ⟨fun _ h => (by cases h), fun _ h => (by cases h), fun _ h => (by cases h)⟩
  simpa [rebuild] using this

theorem addArc_fields (q : Int → Int) (src acc : Fsg) (l : Link) :
    (addArc q src acc l).nState = acc.nState ∧ (addArc q src acc l).start = acc.start ∧
    (addArc q src acc l).final = acc.final := by
  unfold addArc
  cases l.wid with
  | none => exact ⟨(nullAdd_start _ _ _ _).2.2.1, (nullAdd_start _ _ _ _).1, (nullAdd_start _ _ _ _).2.1⟩
  | some w =>
    simp only
    obtain ⟨_, _, _, _, a, b, c⟩ := wordAdd_spec acc (wordStr src w)
    have f := transAdd_fields (wordAdd acc (wordStr src w)).1 l.src l.dst (q l.logp) (wordAdd acc (wordStr src w)).2
    exact ⟨f.2.2.1.trans a, f.1.trans b, f.2.1.trans c⟩

theorem addArc_logZero (q : Int → Int) (src acc : Fsg) (l : Link) : (addArc q src acc l).logZero = acc.logZero := by
  unfold addArc
  cases l.wid with
  | none => exact (nullAdd_start _ _ _ _).2.2.2.2.2.2.2
  | some w =>
    simp only
    rw [(transAdd_fields _ _ _ _ _).2.2.2.2.2.2.2]
    unfold wordAdd; split <;> rfl

theorem rebuild_logZero (q : Int → Int) (g : Fsg) : (rebuild q g).logZero = g.logZero := by
  unfold rebuild
  suffices H : ∀ (arcs : List Link) (acc : Fsg), (arcs.foldl (addArc q g) acc).logZero = acc.logZero from H _ _
  intro arcs
  induction arcs with
  | nil => intro _; rfl
  | cons l arcs ih => intro acc; rw [List.foldl_cons, ih, addArc_logZero]

theorem rebuild_fields (q : Int → Int) (g : Fsg) :
    (rebuild q g).nState = g.nState ∧ (rebuild q g).start = g.start ∧ (rebuild q g).final = g.final := by
  unfold rebuild
  suffices H : ∀ (arcs : List Link) (acc : Fsg), (arcs.foldl (addArc q g) acc).nState = acc.nState ∧
      (arcs.foldl (addArc q g) acc).start = acc.start ∧ (arcs.foldl (addArc q g) acc).final = acc.final from
    H _ _
  intro arcs
  induction arcs with
  | nil => intro acc; exact ⟨rfl, rfl, rfl⟩
  | cons l arcs ih =>
    intro acc
    obtain ⟨a, b, c⟩ := ih (addArc q g acc l)
    obtain ⟨a', b', c'⟩ := addArc_fields q g acc l
    exact ⟨a.trans a', b.trans b', c.trans c'⟩

/-! ### a closed grammar is read back closed: the reader's closure adds nothing -/

theorem addArc_wf {q : Int → Int} {g acc : Fsg} (h : NullWF acc) {l : Link} (hq : l.wid = none → q l.logp ≤ 0) :
    NullWF (addArc q g acc l) := by
  unfold addArc
  cases hw : l.wid with
  | none => exact nullWF_nullAdd h _ _ (hq hw)
  | some w => exact nullWF_transAdd (nullWF_congr (wordAdd_links acc _) h) _ _ _ _

theorem nullWF_rebuild {q : Int → Int} {g : Fsg} (hq : ∀ l ∈ g.links, l.wid = none → q l.logp ≤ 0) :
    NullWF (rebuild q g) := by
  unfold rebuild
  suffices H : ∀ (arcs : List Link) (acc : Fsg), (∀ l ∈ arcs, l ∈ g.links) → NullWF acc →
      NullWF (arcs.foldl (addArc q g) acc) from
    H _ _ (fun l hl => (mem_written.1 hl).1) (nullWF_init _ _ _ _ _)
  intro arcs
  induction arcs with
  | nil => intro _ _ h; exact h
  | cons l arcs ih =>
    intro acc hm h
    exact ih _ (fun x hx => hm x (List.mem_cons_of_mem _ hx))
      (addArc_wf h (hq l (hm l List.mem_cons_self)))

/-- with exact probabilities (`q` the identity on the arcs of `g`) a well-formed grammar and its
rebuilt copy have the same null links -/
theorem rebuild_lookup {q : Int → Int} {g : Fsg} (hwf : NullWF g) (hsrc : ∀ l ∈ g.links, l.src < g.nState)
    (hq : ∀ l ∈ g.links, q l.logp = l.logp) (a c : Nat) :
    nullLookup (rebuild q g) a c = nullLookup g a c := by
  have inv := rebuild_inv q g
  have hwf' : NullWF (rebuild q g) := nullWF_rebuild fun l hl hw => by rw [hq l hl]; exact hwf.le0 l hl hw
  have key : ∀ v, nullLookup (rebuild q g) a c = some v ↔ nullLookup g a c = some v := by
    intro v
    constructor
    · intro h
      obtain ⟨l', m', w', s', d', p'⟩ := nullLookup_some h
      obtain ⟨l, m, s, d, lb, p⟩ := inv.back l' m'
      have hw : l.wid = none := by
        simp only [lbl, w', Option.map_none, Option.map_eq_none_iff] at lb; exact lb
      have := hwf.nullUniq l m hw
      rw [s, d, s', d'] at this
      rw [this, ← hq l m, ← p, p']
    · intro h
      obtain ⟨l, m, w, s, d, p⟩ := nullLookup_some h
      obtain ⟨l', m', s', d', lb', p'⟩ := inv.fwd l (by
        rw [List.mem_reverse]; exact mem_written.2 ⟨m, hsrc l m⟩) (fun _ => hwf.noLoop l m w)
      have hw' : l'.wid = none := by
        simp only [lbl, w, Option.map_none, Option.map_eq_none_iff] at lb'; exact lb'
      have hu := hwf'.nullUniq l' m' hw'
      rw [s', d', s, d] at hu
      rw [hu]
      -- the value: `l'` comes back from a null link of `g` with the same ends, which is `l`
      obtain ⟨l0, m0, s0, d0, lb0, p0⟩ := inv.back l' m'
      have hw0 : l0.wid = none := by
        simp only [lbl, hw', Option.map_none, Option.map_eq_none_iff] at lb0; exact lb0
      have h0 := hwf.nullUniq l0 m0 hw0
      rw [s0, d0, s', d', s, d, h] at h0
      have : l0.logp = v := (Option.some.inj h0).symm
      rw [p0, hq l0 m0, this]
  cases h1 : nullLookup (rebuild q g) a c with
  | some v => exact ((key v).1 h1).symm
  | none =>
    cases h2 : nullLookup g a c with
    | none => rfl
    | some v => rw [(key v).2 h2] at h1; cases h1

theorem rebuild_closed {q : Int → Int} {g : Fsg} (hwf : NullWF g) (hc : NullClosed g)
    (hsrc : ∀ l ∈ g.links, l.src < g.nState) (hq : ∀ l ∈ g.links, q l.logp = l.logp) :
    NullClosed (rebuild q g) := by
  have inv := rebuild_inv q g
  unfold NullClosed
  rw [rebuild_logZero]
  intro a b v1 h1 l2' m2' w2' s2' hne
  rw [rebuild_lookup hwf hsrc hq] at h1
  obtain ⟨l2, m2, s2, d2, lb2, p2⟩ := inv.back l2' m2'
  have hw2 : l2.wid = none := by
    simp only [lbl, w2', Option.map_none, Option.map_eq_none_iff] at lb2; exact lb2
  obtain ⟨v, e, le⟩ := hc a b v1 h1 l2 m2 hw2 (s2.trans s2') (d2 ▸ hne)
  rw [d2] at e
  refine ⟨v, by rw [rebuild_lookup hwf hsrc hq]; exact e, ?_⟩
  rw [p2, hq l2 m2]; exact le

end SSVerif.Fsg
