import SSVerif.Proofs.JsonAlign
set_option linter.unusedSimpArgs false
/-! C14 helper lemmas: the two passes of `decoder_result_json` -/
namespace SSVerif.Json

/-- what the sizing loops add up: every item plus one byte (`,` or the final `]`) -/
def sumLen : List JV → Nat
  | [] => 0
  | v :: t => (printV v).length + 1 + sumLen t

/-- what the writing loops store: every item followed by a comma -/
def commaText : List JV → Bytes
  | [] => []
  | v :: t => printV v ++ 44 :: commaText t

theorem sumLen_eq : ∀ (l : List JV), l ≠ [] → sumLen l = (printL l).length + 1
  | [], h => absurd rfl h
  | [v], _ => by simp [sumLen, printL_single]
  | v :: v' :: t, _ => by
    have := sumLen_eq (v' :: t) (by simp)
    rw [sumLen, this, printL_cons_cons]; simp; omega

theorem commaText_eq : ∀ (l : List JV), l ≠ [] → commaText l = printL l ++ [44]
  | [], h => absurd rfl h
  | [v], _ => by simp [commaText, printL_single]
  | v :: v' :: t, _ => by
    have := commaText_eq (v' :: t) (by simp)
    rw [commaText, this, printL_cons_cons]; simp

theorem commaText_length (l : List JV) : (commaText l).length = sumLen l := by
  induction l with
  | nil => rfl
  | cons v t ih => simp [commaText, sumLen, ih]; omega

/-! ### sizing loops -/

theorem measureSegs_spec (fmt : Fmt) (frate : Int) (m : Mem) (segs : List Seg) : ∀ (maxlen : Int),
    measureSegs fmt frate m maxlen segs = (maxlen + sumLen (segs.map (segTree fmt frate)), m) := by
  induction segs with
  | nil => intro maxlen; simp [measureSegs, sumLen]
  | cons g rest ih =>
    intro maxlen
    simp only [measureSegs, formatSeg_dry, ih, List.map_cons, sumLen]
    congr 1; simp; omega

theorem measureWords_spec (fmt : Fmt) (frate : Int) (sa : Bool) (m : Mem) (ws : List AWord) : ∀ (maxlen : Int),
    measureWords fmt frate sa m maxlen ws = (maxlen + sumLen (ws.map (wordTree fmt frate sa)), m) := by
  induction ws with
  | nil => intro maxlen; simp [measureWords, sumLen]
  | cons w rest ih =>
    intro maxlen
    simp only [measureWords, formatSegAlign_dry, ih, List.map_cons, sumLen]
    congr 1; simp; omega

/-! ### writing loops -/

/-- locals of the writing pass: `maxlen` is the true remaining room -/
def TInv (s : WSt) (pre : Bytes) (k : Nat) : Prop := At s.m pre k ∧ s.ptr = (pre.length : Int) ∧ s.maxlen = (k : Int)

theorem writeSegs_spec (fmt : Fmt) (frate : Int) (segs : List Seg) : ∀ {s : WSt} {pre : Bytes} {k : Nat},
    TInv s pre k → sumLen (segs.map (segTree fmt frate)) ≤ k →
    TInv (writeSegs fmt frate s segs) (pre ++ commaText (segs.map (segTree fmt frate)))
      (k - sumLen (segs.map (segTree fmt frate))) := by
  induction segs with
  | nil => intro s pre k h _; simpa [writeSegs, commaText, sumLen] using h
  | cons g rest ih =>
    intro s pre k h hk
    obtain ⟨h1, h2, h3⟩ := h
    simp only [List.map_cons, sumLen] at hk ⊢
    have ha : s.m.assert (decide (s.maxlen > 0)) = s.m := assert_true _ (by simp; omega)
    have hf := formatSeg_write fmt (n := s.maxlen) g frate h1 h2 (by omega) (by omega)
    simp only [writeSegs, ha]
    generalize formatSeg fmt s.m (some s.ptr) s.maxlen g frate = res at *
    obtain ⟨len, m'⟩ := res
    obtain ⟨f1, f2⟩ := hf
    simp only at f1 f2 ⊢
    subst f1
    have h4 := store_spec 44 f2 (p := s.ptr + ((printV (segTree fmt frate g)).length : Int)) (by simp [h2]) (by omega)
    have := ih (s := { m := m'.store (s.ptr + ((printV (segTree fmt frate g)).length : Int)) 44,
                       ptr := s.ptr + ((printV (segTree fmt frate g)).length : Int) + 1,
                       maxlen := s.maxlen - ((printV (segTree fmt frate g)).length : Int) - 1 })
      ⟨h4, by simp [h2]; omega, by simp [h3]; omega⟩ (by omega)
    obtain ⟨t1, t2, t3⟩ := this
    refine ⟨?_, ?_, ?_⟩
    · unfold At at t1 ⊢; rw [t1]; simp [commaText]; omega
    · rw [t2]; simp [commaText]
    · rw [t3]; omega

theorem writeWords_spec (fmt : Fmt) (frate : Int) (sa : Bool) (ws : List AWord) : ∀ {s : WSt} {pre : Bytes} {k : Nat},
    TInv s pre k → sumLen (ws.map (wordTree fmt frate sa)) ≤ k →
    TInv (writeWords fmt frate sa s ws) (pre ++ commaText (ws.map (wordTree fmt frate sa)))
      (k - sumLen (ws.map (wordTree fmt frate sa))) := by
  induction ws with
  | nil => intro s pre k h _; simpa [writeWords, commaText, sumLen] using h
  | cons w rest ih =>
    intro s pre k h hk
    obtain ⟨h1, h2, h3⟩ := h
    simp only [List.map_cons, sumLen] at hk ⊢
    have ha : s.m.assert (decide (s.maxlen > 0)) = s.m := assert_true _ (by simp; omega)
    have hf := formatSegAlign_write fmt (n := s.maxlen) w frate sa h1 h2 h3 (by omega)
    simp only [writeWords, ha]
    generalize formatSegAlign fmt s.m (some s.ptr) s.maxlen w frate sa = res at *
    obtain ⟨len, m'⟩ := res
    obtain ⟨f1, f2⟩ := hf
    simp only at f1 f2 ⊢
    subst f1
    have h4 := store_spec 44 f2 (p := s.ptr + ((printV (wordTree fmt frate sa w)).length : Int)) (by simp [h2]) (by omega)
    have := ih (s := { m := m'.store (s.ptr + ((printV (wordTree fmt frate sa w)).length : Int)) 44,
                       ptr := s.ptr + ((printV (wordTree fmt frate sa w)).length : Int) + 1,
                       maxlen := s.maxlen - ((printV (wordTree fmt frate sa w)).length : Int) - 1 })
      ⟨h4, by simp [h2]; omega, by simp [h3]; omega⟩ (by omega)
    obtain ⟨t1, t2, t3⟩ := this
    refine ⟨?_, ?_, ?_⟩
    · unfold At at t1 ⊢; rw [t1]; simp [commaText]; omega
    · rw [t2]; simp [commaText]
    · rw [t3]; omega

/-! ### the two passes -/

/-- the trees of the top-level `"w"` list for the local `alignment` -/
def itemsOf (fmt : Fmt) (r : Result) (alignment : Option (List AWord)) (sa : Bool) : List JV :=
  match alignment with
  | some ws => ws.map (wordTree fmt r.frate sa)
  | none => r.segs.map (segTree fmt r.frate)

def hypText (fmt : Fmt) (r : Result) : Bytes := entryText fmt .start (.ratio r.nframes r.frate) (.prob r.prob) r.hyp

theorem sizing_tail {α : Type} (f : α → JV) (l : List α) (x : Int) :
    (if l.isEmpty then x + 1 else x) + sumLen (l.map f) = x + (printL (l.map f)).length + 1 := by
  cases l with
  | nil => simp [sumLen, printL]
  | cons a t =>
    have := sumLen_eq ((a :: t).map f) (by simp)
    simp only [List.isEmpty_cons, Bool.false_eq_true, if_false, this]; omega

theorem sizingPass_spec (fmt : Fmt) (r : Result) (al : Option (List AWord)) (sa : Bool) :
    sizingPass fmt r al sa =
      ((((hypText fmt r).length + 6 + (printL (itemsOf fmt r al sa)).length + 4 : Nat) : Int), ⟨[], true⟩) := by
  unfold sizingPass
  simp only [formatHyp, formatEntry_dry]
  cases al with
  | some ws =>
    simp only [measureWords_spec, itemsOf, sizing_tail, hypText]
    congr 1
  | none =>
    simp only [measureSegs_spec, itemsOf, sizing_tail, hypText]
    congr 1

theorem calloc_at (n : Nat) : At (Mem.calloc (n : Int)) [] n := by
  simp [Mem.calloc, At]

theorem finish_spec {s : WSt} {P : Bytes} {c : UInt8} (h : TInv s (P ++ [c]) 3) :
    ((((s.m.store (s.ptr - 1) 93).assert (decide (s.maxlen = 3))).store s.ptr 125).store (s.ptr + 1) 10).store (s.ptr + 2) 0
      = ⟨P ++ [93, 125, 10, 0], true⟩ := by
  obtain ⟨h1, h2, h3⟩ := h
  have a1 := store_last 93 h1 (p := s.ptr - 1) (by rw [h2]; simp)
  have a2 : (s.m.store (s.ptr - 1) 93).assert (decide (s.maxlen = 3)) = s.m.store (s.ptr - 1) 93 :=
    assert_true _ (by simp [h3])
  rw [a2]
  have a3 := store_spec 125 a1 (p := s.ptr) (by rw [h2]; simp) (by omega)
  have a4 := store_spec 10 a3 (p := s.ptr + 1) (by rw [h2]; simp; omega) (by omega)
  have a5 := store_nul a4 (p := s.ptr + 2) (by rw [h2]; simp; omega) (by omega)
  rw [a5]
  unfold At at a4
  rw [a4]
  simp

/-- after `memcpy(ptr, ",\"w\":[", 6)`: the loop (or the `]` placeholder) and the closing statements -/
theorem tail_words (fmt : Fmt) (frate : Int) (sa : Bool) (ws : List AWord) {s : WSt} {pre : Bytes}
    (h : TInv s pre ((printL (ws.map (wordTree fmt frate sa))).length + 4)) :
    let s1 : WSt := if ws.isEmpty then { m := s.m.store s.ptr 93, ptr := s.ptr + 1, maxlen := s.maxlen - 1 } else s
    let s2 := writeWords fmt frate sa s1 ws
    ((((s2.m.store (s2.ptr - 1) 93).assert (decide (s2.maxlen = 3))).store s2.ptr 125).store (s2.ptr + 1) 10).store (s2.ptr + 2) 0
      = ⟨pre ++ printL (ws.map (wordTree fmt frate sa)) ++ [93, 125, 10, 0], true⟩ := by
  intro s1 s2
  cases ws with
  | nil =>
    obtain ⟨h1, h2, h3⟩ := h
    have t : TInv s2 (pre ++ [93]) 3 := by
      refine ⟨?_, ?_, ?_⟩
      · exact store_spec 93 h1 h2 (by simp [printL])
      · show s.ptr + 1 = _; rw [h2]; simp
      · show s.maxlen - 1 = _; rw [h3]; simp [printL]
    simpa [printL] using finish_spec t
  | cons w rest =>
    have hs := sumLen_eq ((w :: rest).map (wordTree fmt frate sa)) (by simp)
    have t := writeWords_spec fmt frate sa (w :: rest) h (by omega)
    rw [commaText_eq _ (by simp), hs] at t
    have t' : TInv s2 (pre ++ printL ((w :: rest).map (wordTree fmt frate sa)) ++ [44]) 3 := by
      have e : (printL ((w :: rest).map (wordTree fmt frate sa))).length + 4 -
          ((printL ((w :: rest).map (wordTree fmt frate sa))).length + 1) = 3 := by omega
      rw [e, ← List.append_assoc] at t
      exact t
    exact finish_spec t'

theorem tail_segs (fmt : Fmt) (frate : Int) (segs : List Seg) {s : WSt} {pre : Bytes}
    (h : TInv s pre ((printL (segs.map (segTree fmt frate))).length + 4)) :
    let s1 : WSt := if segs.isEmpty then { m := s.m.store s.ptr 93, ptr := s.ptr + 1, maxlen := s.maxlen - 1 } else s
    let s2 := writeSegs fmt frate s1 segs
    ((((s2.m.store (s2.ptr - 1) 93).assert (decide (s2.maxlen = 3))).store s2.ptr 125).store (s2.ptr + 1) 10).store (s2.ptr + 2) 0
      = ⟨pre ++ printL (segs.map (segTree fmt frate)) ++ [93, 125, 10, 0], true⟩ := by
  intro s1 s2
  cases segs with
  | nil =>
    obtain ⟨h1, h2, h3⟩ := h
    have t : TInv s2 (pre ++ [93]) 3 := by
      refine ⟨?_, ?_, ?_⟩
      · exact store_spec 93 h1 h2 (by simp [printL])
      · show s.ptr + 1 = _; rw [h2]; simp
      · show s.maxlen - 1 = _; rw [h3]; simp [printL]
    simpa [printL] using finish_spec t
  | cons g rest =>
    have hs := sumLen_eq ((g :: rest).map (segTree fmt frate)) (by simp)
    have t := writeSegs_spec fmt frate (g :: rest) h (by omega)
    rw [commaText_eq _ (by simp), hs] at t
    have t' : TInv s2 (pre ++ printL ((g :: rest).map (segTree fmt frate)) ++ [44]) 3 := by
      have e : (printL ((g :: rest).map (segTree fmt frate))).length + 4 -
          ((printL ((g :: rest).map (segTree fmt frate))).length + 1) = 3 := by omega
      rw [e, ← List.append_assoc] at t
      exact t
    exact finish_spec t'

theorem writingTail_spec (fmt : Fmt) (r : Result) (al : Option (List AWord)) (sa : Bool) {s : WSt} {pre : Bytes}
    (h : TInv s pre ((printL (itemsOf fmt r al sa)).length + 4)) :
    writingTail fmt r al sa s = ⟨pre ++ printL (itemsOf fmt r al sa) ++ [93, 125, 10, 0], true⟩ := by
  cases al with
  | some ws => exact tail_words fmt r.frate sa ws h
  | none => exact tail_segs fmt r.frate r.segs h

theorem writingPass_core (fmt : Fmt) (r : Result) (al : Option (List AWord)) (sa : Bool) {A : Nat} {len : Int}
    {m1 : Mem} {H : Bytes} (hA : H.length + 6 + (printL (itemsOf fmt r al sa)).length + 4 = A)
    (f1 : len = (H.length : Int)) (f2 : At m1 H (A - H.length)) :
    writingTail fmt r al sa
      { m := (m1.assert (decide ((A : Int) - len > 6))).storeList len wOpen, ptr := len + 6, maxlen := (A : Int) - len - 6 }
      = ⟨H ++ wOpen ++ printL (itemsOf fmt r al sa) ++ [93, 125, 10, 0], true⟩ := by
  subst f1
  have a1 : m1.assert (decide ((A : Int) - (H.length : Int) > 6)) = m1 := assert_true _ (by simp; omega)
  rw [a1]
  have f3 := storeList_spec wOpen f2 (p := (H.length : Int)) rfl (by rw [wOpen_length]; omega)
  have hk : A - H.length - wOpen.length = (printL (itemsOf fmt r al sa)).length + 4 := by
    rw [wOpen_length]; omega
  rw [hk] at f3
  have ht : TInv { m := m1.storeList (H.length : Int) wOpen, ptr := (H.length : Int) + 6,
                   maxlen := (A : Int) - (H.length : Int) - 6 }
      (H ++ wOpen) ((printL (itemsOf fmt r al sa)).length + 4) := by
    unfold TInv
    refine ⟨?_, ?_, ?_⟩
    · dsimp only; exact f3
    · simp [wOpen_length]
    · simp; omega
  exact writingTail_spec fmt r al sa ht

theorem writingPass_spec (fmt : Fmt) (r : Result) (al : Option (List AWord)) (sa : Bool) :
    writingPass fmt r al sa (((hypText fmt r).length + 6 + (printL (itemsOf fmt r al sa)).length + 4 : Nat) : Int) =
      ⟨hypText fmt r ++ wOpen ++ printL (itemsOf fmt r al sa) ++ [93, 125, 10, 0], true⟩ := by
  generalize hA : (hypText fmt r).length + 6 + (printL (itemsOf fmt r al sa)).length + 4 = A
  have hf := formatEntry_write fmt (n := (A : Int)) .start (.ratio r.nframes r.frate) (.prob r.prob) r.hyp
    (calloc_at A) (p := 0) (by simp) (by unfold hypText at hA; omega) (by unfold hypText at hA; omega)
  unfold writingPass
  simp only [formatHyp]
  obtain ⟨f1, f2⟩ := hf
  change _ = ((hypText fmt r).length : Int) at f1
  change At _ ([] ++ hypText fmt r) (A - (hypText fmt r).length) at f2
  rw [List.nil_append] at f2
  exact writingPass_core fmt r al sa hA f1 f2

end SSVerif.Json
