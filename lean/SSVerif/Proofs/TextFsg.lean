import SSVerif.Model.TextFsg
import SSVerif.Proofs.TextIn
/-! # well-formedness of what `fsgRead` accepts (C10) -/
namespace SSVerif.TextIn

/-- a probability literal whose `float32` value lies in `(0, 1]` -/
def ProbOk (p : FloatLit) : Prop := ∃ m ten e, p = .fin false m ten e ∧ probInRange m ten e

theorem probAccept_sound (p : FloatLit) (h : probAccept p = true) : ProbOk p := by
  cases p with
  | nan => simp [probAccept] at h
  | inf n => simp [probAccept] at h
  | fin neg m ten e =>
    cases neg with
    | true => simp [probAccept] at h
    | false =>
      refine ⟨m, ten, e, rfl, ?_⟩
      simp only [probAccept] at h
      split at h
      · cases h
      · split at h
        · cases h
        · split at h
          · cases h
          · exact of_decide_eq_true h

theorem parseState_lt (n : Nat) (w : List UInt8) (i : Nat) (h : parseState n w = some i) : i < n := by
  unfold parseState at h
  split at h
  · cases h
  · simp only at h
    split at h
    · cases h
    · injection h with h; subst h; omega

/-- every word of a line consists of non-space bytes only -/
theorem wordsFrom_nonspace (buf : Buf) (p e : Nat) (he : e ≤ buf.size) :
    ∀ w ∈ wordsFrom buf p e he, ∀ b ∈ slice buf w, isSpaceC b = false := by
  fun_induction wordsFrom buf p e he with
  | case1 p h => intro w hw; cases hw
  | case2 p w h ih =>
    intro w' hw'
    cases hw' with
    | head =>
      intro b hb
      obtain ⟨k, hk, rfl⟩ := List.getElem_of_mem hb
      rw [slice_getElem]
      have hl := slice_length buf w
      have := (nextWord_spec buf p e he w h).2.2.2.1
      exact this _ _ (by omega) (by omega)
    | tail _ hm => exact ih w' hm

structure TransInv (n : Nat) (st : TransSt) : Prop where
  trans : ∀ t ∈ st.trans, t.1 < n ∧ t.2.1 < n ∧ t.2.2.1 < st.vocab.length ∧ ProbOk t.2.2.2
  nulls : ∀ t ∈ st.nulls, t.1 < n ∧ t.2.1 < n ∧ t.1 ≠ t.2.1 ∧ ProbOk t.2.2
  nodup : st.vocab.Nodup
  words : ∀ w ∈ st.vocab, w ≠ [] ∧ ∀ b ∈ w, isSpaceC b = false

theorem vocabAdd_spec (v : List (List UInt8)) (w : List UInt8) :
    (vocabAdd v w).2 < (vocabAdd v w).1.length ∧ v.length ≤ (vocabAdd v w).1.length ∧
    (v.Nodup → (vocabAdd v w).1.Nodup) ∧ (∀ x ∈ (vocabAdd v w).1, x ∈ v ∨ x = w) ∧
    (vocabAdd v w).1[(vocabAdd v w).2]? = some w := by
  unfold vocabAdd
  split
  · rename_i i hi
    unfold List.idxOf? at hi
    obtain ⟨hlt, hp, _⟩ := List.findIdx?_eq_some_iff_getElem.mp hi
    refine ⟨hlt, Nat.le_refl _, id, fun x hx => .inl hx, ?_⟩
    simp only
    rw [List.getElem?_eq_getElem hlt]
    simpa using hp
  · rename_i hi
    have hnot : ¬ w ∈ v := List.idxOf?_eq_none_iff.mp hi
    refine ⟨by simp, by simp, ?_, ?_, by simp⟩
    · intro hn
      rw [List.nodup_append]
      refine ⟨hn, by simp, ?_⟩
      intro a ha b hb
      simp at hb; subst hb
      intro hab; subst hab; exact hnot ha
    · intro x hx
      simp at hx
      exact hx

theorem transLine_inv (buf : Buf) (n : Nat) (ws : List (Span buf.size)) (st st' : TransSt)
    (hw : ∀ w ∈ ws, ∀ b ∈ slice buf w, isSpaceC b = false)
    (hI : TransInv n st) (h : transLine buf n ws st = .ok st') : TransInv n st' := by
  unfold transLine at h
  split at h
  · cases h
  · rename_i wi ws1
    split at h
    · cases h
    · rename_i i hi
      split at h
      · cases h
      · rename_i wj ws2
        split at h
        · cases h
        · rename_i j hj
          split at h
          · cases h
          · rename_i wp ws3
            simp only at h
            split at h
            · cases h
            · rename_i hacc
              have hp : ProbOk (atofLit (slice buf wp)) := probAccept_sound _ (by simpa using hacc)
              have hi' := parseState_lt _ _ _ hi
              have hj' := parseState_lt _ _ _ hj
              split at h
              · rename_i ww _
                injection h with h; subst h
                have hv := vocabAdd_spec st.vocab (slice buf ww)
                refine ⟨?_, hI.nulls, hv.2.2.1 hI.nodup, ?_⟩
                · intro t ht
                  simp only [List.mem_cons] at ht
                  rcases ht with rfl | ht
                  · exact ⟨hi', hj', hv.1, hp⟩
                  · obtain ⟨a, b, c, d⟩ := hI.trans t ht
                    exact ⟨a, b, Nat.lt_of_lt_of_le c hv.2.1, d⟩
                · intro x hx
                  rcases hv.2.2.2.1 x hx with hx | rfl
                  · exact hI.words x hx
                  · exact ⟨slice_ne_nil buf ww, hw ww (by simp)⟩
              · split at h
                · injection h with h; subst h; exact hI
                · rename_i hne
                  injection h with h; subst h
                  refine ⟨hI.trans, ?_, hI.nodup, hI.words⟩
                  intro t ht
                  simp only [List.mem_cons] at ht
                  rcases ht with rfl | ht
                  · exact ⟨hi', hj', by simpa using hne, hp⟩
                  · exact hI.nulls t ht

theorem readTrans_inv (buf : Buf) (n : Nat) (ls : List (Span buf.size)) (st st' : TransSt)
    (hI : TransInv n st) (h : readTrans buf n ls st = .ok st') : TransInv n st' := by
  induction ls generalizing st with
  | nil => simp [readTrans] at h; subst h; exact hI
  | cons l rest ih =>
    unfold readTrans at h
    split at h
    · exact ih st hI h
    · split at h
      · exact ih st hI h
      · rename_i w ws hlw
        simp only at h
        split at h
        · injection h with h; subst h; exact hI
        · split at h
          · split at h
            · cases h
            · rename_i st1 hst1
              refine ih st1 (transLine_inv buf n ws st st1 ?_ hI hst1) h
              intro w' hw'
              exact wordsFrom_nonspace buf l.lo l.hi l.le w' (by
                have : w' ∈ lineWords buf l := by rw [hlw]; exact List.mem_cons_of_mem _ hw'
                exact this)
          · exact ih st hI h

/-- the well-formedness the other models (M6) assume of a grammar read from text -/
structure FsgWF (f : FsgObj) : Prop where
  nState_int32 : f.nState ≤ 2147483647
  start : f.start < f.nState
  final : f.final < f.nState
  trans : ∀ t ∈ f.trans, t.1 < f.nState ∧ t.2.1 < f.nState ∧ t.2.2.1 < f.vocab.length ∧ ProbOk t.2.2.2
  nulls : ∀ t ∈ f.nulls, t.1 < f.nState ∧ t.2.1 < f.nState ∧ t.1 ≠ t.2.1 ∧ ProbOk t.2.2
  vocab_nodup : f.vocab.Nodup
  vocab_words : ∀ w ∈ f.vocab, w ≠ [] ∧ ∀ b ∈ w, isSpaceC b = false

theorem fsgRead_wf (buf : Buf) (f : FsgObj) (h : fsgRead buf = .ok f) : FsgWF f := by
  unfold fsgRead at h
  simp only at h
  split at h
  · cases h
  · split at h
    · cases h
    · split at h
      · cases h
      · rename_i nl hnl
        split at h
        · cases h
        · split at h
          · cases h
          · rename_i hneg32
            split at h
            · cases h
            · split at h
              · cases h
              · rename_i start hstart
                split at h
                · cases h
                · split at h
                  · cases h
                  · rename_i final hfinal
                    split at h
                    · cases h
                    · rename_i st hst
                      injection h with h; subst h
                      have hI := readTrans_inv buf _ _ {} st
                        ⟨(by intro t ht; cases ht), (by intro t ht; cases ht), List.nodup_nil, (by intro w hw; cases hw)⟩ hst
                      have hr := wrap32_range nl
                      exact ⟨(by simp only; omega), parseState_lt _ _ _ hstart, parseState_lt _ _ _ hfinal,
                        (by intro t ht; exact hI.trans t (by simpa using ht)),
                        (by intro t ht; exact hI.nulls t (by simpa using ht)), hI.nodup, hI.words⟩

end SSVerif.TextIn

namespace SSVerif.TextIn

/-- the magnitude short cuts of `probAccept` only refuse values outside the interval: the test is
*exactly* the interval test -/
theorem probAccept_complete (m : Nat) (ten : Bool) (e : Int) (h : probInRange m ten e) :
    probAccept (.fin false m ten e) = true := by
  have hB : 2 ≤ (if ten then 10 else 2 : Nat) := by split <;> omega
  unfold probInRange at h
  simp only at h
  obtain ⟨hlo, hhi⟩ := h
  simp only [probAccept]
  have hm : m ≠ 0 := by
    intro h0; subst h0; simp at hlo
  have hmpos : 0 < m := Nat.pos_of_ne_zero hm
  split
  · rename_i h0; simp at h0; exact absurd h0 hm
  · split
    · -- e ≥ 1: the value is at least B ≥ 2 > 1 + 2^-24 + 2^-53
      rename_i he
      exfalso
      have h1 : (-e).toNat = 0 := by omega
      rw [h1] at hhi
      have h2 : 2 ≤ (if ten then 10 else 2 : Nat) ^ e.toNat := by
        have : 1 ≤ e.toNat := by omega
        calc 2 ≤ (if ten then 10 else 2 : Nat) := hB
          _ = (if ten then 10 else 2 : Nat) ^ 1 := (Nat.pow_one _).symm
          _ ≤ (if ten then 10 else 2 : Nat) ^ e.toNat := Nat.pow_le_pow_right (by omega) this
      have h3 : 2 ≤ m * (if ten then 10 else 2 : Nat) ^ e.toNat := by
        calc 2 = 1 * 2 := rfl
          _ ≤ m * (if ten then 10 else 2 : Nat) ^ e.toNat := Nat.mul_le_mul hmpos h2
      have h4 : 2 * 2 ^ 53 ≤ m * (if ten then 10 else 2 : Nat) ^ e.toNat * 2 ^ 53 := Nat.mul_le_mul_right _ h3
      simp only [Nat.pow_zero, Nat.mul_one] at hhi
      omega
    · split
      · -- e ≤ -(log2 m + 161): the value is below 2^-160 < 2^-150
        rename_i he1 he
        exfalso
        have hk : (-e).toNat ≥ m.log2 + 1 + 160 := by omega
        have h1 : e.toNat = 0 := by omega
        rw [h1] at hlo
        simp only [Nat.pow_zero, Nat.mul_one] at hlo
        -- B^k ≥ 2^k ≥ 2^(log2 m + 161)
        have h2 : 2 ^ (m.log2 + 1 + 160) ≤ (if ten then 10 else 2 : Nat) ^ (-e).toNat :=
          calc 2 ^ (m.log2 + 1 + 160) ≤ 2 ^ (-e).toNat := Nat.pow_le_pow_right (by omega) hk
            _ ≤ (if ten then 10 else 2 : Nat) ^ (-e).toNat := Nat.pow_le_pow_left hB _
        have h3 : m < 2 ^ (m.log2 + 1) := Nat.lt_log2_self
        have h4 : (2 : Nat) ^ (m.log2 + 1 + 160) = 2 ^ (m.log2 + 1) * 2 ^ 160 := Nat.pow_add _ _ _
        -- m * 2^203 < 2^(log2 m+1) * 2^203 ≤ 2^(log2 m+1) * 2^160 * 2^53 ≤ (2^53+1) * B^k
        have h5 : m * 2 ^ 203 < 2 ^ (m.log2 + 1) * 2 ^ 203 := Nat.mul_lt_mul_of_pos_right h3 (by decide)
        have h6 : 2 ^ (m.log2 + 1) * 2 ^ 203 ≤ (2 ^ 53 + 1) * (if ten then 10 else 2 : Nat) ^ (-e).toNat := by
          calc 2 ^ (m.log2 + 1) * 2 ^ 203 ≤ 2 ^ (m.log2 + 1) * (2 ^ 160 * (2 ^ 53 + 1)) :=
                Nat.mul_le_mul_left _ (by decide)
            _ = (2 ^ 53 + 1) * (2 ^ (m.log2 + 1) * 2 ^ 160) := by
                rw [Nat.mul_comm (2 ^ 53 + 1), Nat.mul_assoc]
            _ = (2 ^ 53 + 1) * 2 ^ (m.log2 + 1 + 160) := by rw [h4]
            _ ≤ (2 ^ 53 + 1) * (if ten then 10 else 2 : Nat) ^ (-e).toNat := Nat.mul_le_mul_left _ h2
        omega
      · exact decide_eq_true ⟨hlo, hhi⟩

/-- the probability test is exactly the interval test on positive finite literals -/
theorem probAccept_iff (p : FloatLit) : probAccept p = true ↔ ProbOk p :=
  ⟨probAccept_sound p, fun ⟨m, ten, e, hp, hr⟩ => hp ▸ probAccept_complete m ten e hr⟩

end SSVerif.TextIn
