import SSVerif.Model.ProtocolPred
import SSVerif.Proofs.ProtocolBorrow
import SSVerif.Proofs.ProtocolApiTotal
/-! helper lemmas for `Props/C09Pred.lean`: the prediction level refines the API level -/
namespace SSVerif.Protocol

/-- a refused call leaves the API-level state unchanged (both kinds of refusal) -/
theorem refused_unchanged (x : XState) (c : XCall) (h : refusedX x c (xStep x c).2 = true) : (xStep x c).1 = x := by
  unfold refusedX at h
  rcases Bool.or_eq_true _ _ |>.mp h with h1 | h2
  · exact xStep_oop x c (by simpa using h1)
  · have := error_is_noop x c (of_decide_eq_true h2)
    rw [this]

theorem forget_x (p : PState) : p.forget.x = p.x := rfl
theorem setSeen_x (p : PState) (i : Inst) (m : Seen) : (p.setSeen i m).x = p.x := by cases i <;> rfl
theorem setRem_x (p : PState) (i : Inst) (l : List (Nat × Nat)) : (p.setRem i l).x = p.x := by cases i <;> rfl
theorem forget_rem (p : PState) (i : Inst) : p.forget.rem i = p.rem i := by cases i <;> rfl
theorem setRem_rem (p : PState) (i : Inst) (l : List (Nat × Nat)) : (p.setRem i l).rem i = l := by cases i <;> rfl
theorem setSeen_rem (p : PState) (i j : Inst) (m : Seen) : (p.setSeen i m).rem j = p.rem j := by
  cases i <;> cases j <;> rfl
theorem setRem_seen (p : PState) (i j : Inst) (l : List (Nat × Nat)) : (p.setRem i l).seen j = p.seen j := by
  cases i <;> cases j <;> rfl
theorem setSeen_seen (p : PState) (i : Inst) (m : Seen) : (p.setSeen i m).seen i = m := by cases i <;> rfl
theorem setSeen_seen_ne (p : PState) (i j : Inst) (m : Seen) (h : j ≠ i) : (p.setSeen i m).seen j = p.seen j := by
  cases i <;> cases j <;> first | rfl | exact absurd rfl h
theorem forget_seen (p : PState) (i : Inst) :
    p.forget.seen i = if (p.x.sys.inst i).refs = 0 then {} else p.seen i := by cases i <;> rfl

/-- the API-level component of a predicted step is the API-level step of the predicted call -/
theorem pStep_x (p : PState) (c : PCall) : (pStep p c).1.x = (xStep p.x (pPredict p c)).1 := by
  unfold pStep
  simp only []
  split
  · rename_i h; exact (refused_unchanged _ _ h).symm
  · split <;> simp [forget_x, setSeen_x, setRem_x]

theorem pStep_ret (p : PState) (c : PCall) : (pStep p c).2 = (xStep p.x (pPredict p c)).2 := by
  unfold pStep
  simp only []
  split
  · rfl
  · split <;> rfl

theorem pRun_x (cs : List PCall) : ∀ p : PState, (pRun p cs).x = xRun p.x (pCalls p cs) := by
  induction cs with
  | nil => intro p; rfl
  | cons c cs ih => intro p; simp only [pRun, pCalls, xRun]; rw [ih, pStep_x]

theorem pRets_x (cs : List PCall) : ∀ p : PState, pRets p cs = xRets p.x (pCalls p cs) := by
  induction cs with
  | nil => intro p; rfl
  | cons c cs ih => intro p; simp only [pRets, pCalls, xRets]; rw [ih, pStep_x, pStep_ret]

theorem pStep_refused (p : PState) (c : PCall) (h : refusedX p.x (pPredict p c) (pStep p c).2 = true) :
    (pStep p c).1 = p := by
  rw [pStep_ret] at h
  unfold pStep
  simp [h]

theorem pRun_accepted (cs : List PCall) : ∀ p : PState, pRun p (pAccepted p cs) = pRun p cs := by
  induction cs with
  | nil => intro p; rfl
  | cons c cs ih =>
    intro p
    simp only [pAccepted]
    split
    · rename_i h
      simp only [pRun]
      rw [pStep_refused p c h]; exact ih p
    · simp only [pRun]; exact ih _

theorem pRets_accepted (cs : List PCall) : ∀ p : PState, pRets p (pAccepted p cs) = pAcceptedRets p cs := by
  induction cs with
  | nil => intro p; rfl
  | cons c cs ih =>
    intro p
    simp only [pAccepted, pAcceptedRets]
    split
    · exact ih p
    · simp only [pRets]; rw [ih]

/-! ## what is known about results stays consistent -/

/-- a hypothesis string implies a segmentation, no segmentation implies no hypothesis string -/
def SeenOK (m : Seen) : Prop := (m.hyp = some true → m.seg = some true) ∧ (m.seg = some false → m.hyp = some false)

instance (m : Seen) : Decidable (SeenOK m) := by unfold SeenOK; infer_instance

theorem seenOK_empty : SeenOK {} := by decide

theorem update_seenOK (m : Seen) (c : XCall) (ret : Ret) (nret fed : Nat) (w : WordInfo) (h : SeenOK m) :
    SeenOK (m.update c ret false nret fed w) := by
  obtain ⟨h1, h2⟩ := h
  unfold Seen.update SeenOK
  simp only [Bool.false_eq_true, if_false]
  split <;> (try split) <;> simp_all

/-- invariant of the predicted state, per decoder instance -/
def PredInv (p : PState) : Prop :=
  ∀ i : Inst, ((p.x.sys.inst i).refs = 0 → p.seen i = {}) ∧ SeenOK (p.seen i)

theorem predInv_p0 : PredInv p0 := by intro i; cases i <;> exact ⟨fun _ => rfl, seenOK_empty⟩

theorem forget_inv (p : PState) (h : ∀ i, SeenOK (p.seen i)) : PredInv p.forget := by
  intro i
  rw [forget_seen, forget_x]
  by_cases h0 : (p.x.sys.inst i).refs = 0
  · simp [h0, seenOK_empty]
  · simp [h0, h i]

theorem pStep_inv (p : PState) (c : PCall) (h : PredInv p) : PredInv (pStep p c).1 := by
  unfold pStep
  simp only []
  split
  · exact h
  · split
    · rename_i i _
      apply forget_inv
      intro j
      rw [setRem_seen]
      by_cases hj : j = i
      · subst hj; rw [setSeen_seen]; exact update_seenOK _ _ _ _ _ _ (h j).2
      · rw [setSeen_seen_ne _ _ _ _ hj]; exact (h j).2
    · apply forget_inv
      intro j
      exact (h j).2

theorem pRun_inv (cs : List PCall) : ∀ p : PState, PredInv p → PredInv (pRun p cs) := by
  induction cs with
  | nil => intro p h; exact h
  | cons c cs ih => intro p h; exact ih _ (pStep_inv p c h)

/-! ## the state after an accepted call on a decoder -/

theorem pStep_accepted (p : PState) (c : PCall) (i : Inst) (hi : instOfX c.call = some i)
    (h : refusedX p.x (pPredict p c) (xStep p.x (pPredict p c)).2 = false) :
    (pStep p c).1 =
      ((({ p with x := (xStep p.x (pPredict p c)).1 }.setSeen i
          ((p.seen i).update (pPredict p c) (xStep p.x (pPredict p c)).2 false c.obs.nret c.obs.fed c.obs.w)).setRem i
          (remUpdate (p.rem i) (pPredict p c) (xStep p.x (pPredict p c)).2 c.obs.k)).forget) := by
  unfold pStep
  simp [h, hi]

theorem pStep_accepted_rem (p : PState) (c : PCall) (i : Inst) (hi : instOfX c.call = some i)
    (h : refusedX p.x (pPredict p c) (xStep p.x (pPredict p c)).2 = false) :
    (pStep p c).1.rem i = remUpdate (p.rem i) (pPredict p c) (xStep p.x (pPredict p c)).2 c.obs.k := by
  rw [pStep_accepted p c i hi h, forget_rem, setRem_rem]

theorem pStep_accepted_seen (p : PState) (c : PCall) (i : Inst) (hi : instOfX c.call = some i)
    (h : refusedX p.x (pPredict p c) (xStep p.x (pPredict p c)).2 = false)
    (hr : ((xStep p.x (pPredict p c)).1.sys.inst i).refs ≠ 0) :
    (pStep p c).1.seen i =
      (p.seen i).update (pPredict p c) (xStep p.x (pPredict p c)).2 false c.obs.nret c.obs.fed c.obs.w := by
  rw [pStep_accepted p c i hi h, forget_seen, setRem_x, setSeen_x, setRem_seen, setSeen_seen]
  simp [hr]

/-- a decoder call made through the API level: the called instance either stays as it is or follows the base automaton -/
theorem xStep_dec_inst (x : XState) (i : Inst) (dc : Call) (cons : Bool) :
    (xStep x (.base (.dec i dc) cons)).1.sys.inst i = x.sys.inst i ∨
    (xStep x (.base (.dec i dc) cons)).1.sys.inst i = (step (x.sys.inst i) dc).1 := by
  unfold xStep
  split
  · exact .inl rfl
  · have hx : xCore x (.base (.dec i dc) cons) = baseStep x (.dec i dc) cons := by unfold xCore; rfl
    rw [hx]
    rcases baseStep_sys x (.dec i dc) cons with ⟨_, h1⟩ | ⟨h1, _⟩
    · left; rw [h1]
    · rw [h1]
      by_cases hn : needsSys dc = true
      · left; simp [sysStep, hn]
      · right; simp [sysStep, hn, inst_setInst_eq]

/-! ## iterators: `…_next` is predicted from the remaining count -/

theorem step_next (f : NextFam) (s : ApiState) (id : Nat) (l : Bool) :
    step s (f.call id l) =
      match findIter s.iters id with
      | some it =>
        if f.accepts it.kind && it.valid then
          if l then ({ s with iters := removeIter s.iters id }, .null) else (s, .ptr)
        else (s, .oop)
      | none => (s, .oop) := by
  cases f <;> rfl

theorem findIter_removeIter (l : List Iter) (id : Nat) : findIter (removeIter l id) id = none := by
  simp [findIter, removeIter, List.find?_eq_none, List.mem_filter]

theorem remOf_remDel (l : List (Nat × Nat)) (id : Nat) : remOf (remDel l id) id = none := by
  simp [remOf, remDel, List.find?_eq_none, List.mem_filter]

theorem remOf_remSet (l : List (Nat × Nat)) (id r : Nat) : remOf (remSet l id r) id = some r := by
  simp [remOf, remSet]

theorem next_not_blocked (x : XState) (i : Inst) (f : NextFam) (id : Nat) (l cons : Bool) :
    blocked x (.base (.dec i (f.call id l)) cons) = false := by
  cases f <;> simp [blocked, instOfX, instOf, blockedCreated, takesDec, usesDecCfg, NextFam.call]

/-- a `…_next` call on a valid iterator of the right type, at the API level -/
theorem xStep_next (x : XState) (i : Inst) (f : NextFam) (id : Nat) (l cons : Bool) (it : Iter)
    (hf : findIter (x.sys.inst i).iters id = some it) (hk : f.accepts it.kind = true) (hv : it.valid = true) :
    (xStep x (.base (.dec i (f.call id l)) cons)).2 = (if l then .null else .ptr) ∧
    (xStep x (.base (.dec i (f.call id l)) cons)).1.sys.inst i =
      (if l then { x.sys.inst i with iters := removeIter (x.sys.inst i).iters id } else x.sys.inst i) := by
  have hn : needsSys (f.call id l) = false := by cases f <;> rfl
  have hs : sysStep x.sys (.dec i (f.call id l)) =
      (x.sys.setInst i (if l then { x.sys.inst i with iters := removeIter (x.sys.inst i).iters id } else x.sys.inst i),
       if l then .null else .ptr) := by
    simp only [sysStep, hn, step_next, hf, hk, hv]
    cases l <;> simp
  have hq : quietCall x (.dec i (f.call id l)) = false := by
    cases f <;> simp [quietCall, outOfOrder, NextFam.call] <;> rfl
  have hr : (sysStep x.sys (.dec i (f.call id l))).2 ≠ .oop := by rw [hs]; cases l <;> simp
  obtain ⟨h1, h2, _⟩ := xStep_base x (.dec i (f.call id l)) cons (next_not_blocked x i f id l cons)
    (fun j h => by cases h) hr hq
  rw [h1, h2, hs]
  exact ⟨rfl, inst_setInst_eq _ _ _⟩

theorem pPredict_next (p : PState) (i : Inst) (f : NextFam) (id : Nat) (l cons : Bool) (o : PObs) :
    pPredict p ⟨.base (.dec i (f.call id l)) cons, o⟩ = .base (.dec i (f.call id (predLast (p.rem i) id l))) cons := by
  cases f <;> simp [pPredict, instOfX, instOf, Seen.predict, predictIter, NextFam.call]

theorem next_not_ooo (x : XState) (i : Inst) (f : NextFam) (id : Nat) (l cons : Bool) :
    ¬ outOfOrderX x (.base (.dec i (f.call id l)) cons) := by
  cases f <;> simp [outOfOrderX, outOfOrder, NextFam.call]

theorem remUpdate_next (rem : List (Nat × Nat)) (i : Inst) (f : NextFam) (id : Nat) (l cons : Bool) (ret : Ret)
    (k : Option Nat) :
    remUpdate rem (.base (.dec i (f.call id l)) cons) ret k =
      if ret = .ptr then
        (match remOf rem id with
         | some (r + 1) => remSet rem id r
         | some 0 => remDel rem id
         | none => rem)
      else remDel rem id := by
  cases f <;> simp only [remUpdate, createdId, nextId, NextFam.call] <;> rfl

/-- one predicted `…_next`: the return class is determined by the remaining count alone (the reported flag `l` is
ignored), the iterator is gone exactly when NULL was returned -/
theorem pStep_next (p : PState) (i : Inst) (f : NextFam) (id : Nat) (l cons : Bool) (o : PObs) (it : Iter) (r : Nat)
    (hf : findIter (p.x.sys.inst i).iters id = some it) (hk : f.accepts it.kind = true) (hv : it.valid = true)
    (hr : remOf (p.rem i) id = some r) :
    let q := pStep p ⟨.base (.dec i (f.call id l)) cons, o⟩
    (r = 0 → q.2 = .null ∧ findIter (q.1.x.sys.inst i).iters id = none ∧ remOf (q.1.rem i) id = none) ∧
    (∀ r', r = r' + 1 → q.2 = .ptr ∧ findIter (q.1.x.sys.inst i).iters id = some it ∧ remOf (q.1.rem i) id = some r') := by
  intro q
  have hp := pPredict_next p i f id l cons o
  have hl : predLast (p.rem i) id l = (r == 0) := by simp [predLast, hr]
  obtain ⟨x1, x2⟩ := xStep_next p.x i f id (r == 0) cons it hf hk hv
  have hret : q.2 = (if (r == 0) = true then Ret.null else Ret.ptr) := by
    show (pStep p _).2 = _
    rw [pStep_ret, hp, hl, x1]
  have hnr : refusedX p.x (pPredict p ⟨.base (.dec i (f.call id l)) cons, o⟩)
      (xStep p.x (pPredict p ⟨.base (.dec i (f.call id l)) cons, o⟩)).2 = false := by
    rw [hp, hl]
    simp only [refusedX, x1, next_not_ooo, decide_false, Bool.or_false]
    cases (r == 0) <;> simp
  have hrem := pStep_accepted_rem p ⟨.base (.dec i (f.call id l)) cons, o⟩ i (by cases f <;> rfl) hnr
  have hx : q.1.x.sys.inst i =
      (if (r == 0) = true then { p.x.sys.inst i with iters := removeIter (p.x.sys.inst i).iters id } else p.x.sys.inst i) := by
    show (pStep p _).1.x.sys.inst i = _
    rw [pStep_x, hp, hl, x2]
  refine ⟨?_, ?_⟩
  · intro h0
    subst h0
    refine ⟨by simpa using hret, ?_, ?_⟩
    · rw [hx]; simp [findIter_removeIter]
    · show remOf ((pStep p _).1.rem i) id = none
      rw [hrem, hp, hl, x1, remUpdate_next]
      simp [remOf_remDel]
  · intro r' h1
    subst h1
    refine ⟨by simpa using hret, ?_, ?_⟩
    · rw [hx]; simpa using hf
    · show remOf ((pStep p _).1.rem i) id = some r'
      rw [hrem, hp, hl, x1, remUpdate_next]
      simp [hr, remOf_remSet]

theorem pStep_next_flag (p : PState) (i : Inst) (f : NextFam) (id : Nat) (l l' cons : Bool) (o : PObs)
    (h : (remOf (p.rem i) id).isSome = true) :
    pStep p ⟨.base (.dec i (f.call id l)) cons, o⟩ = pStep p ⟨.base (.dec i (f.call id l')) cons, o⟩ := by
  have e : pPredict p ⟨.base (.dec i (f.call id l)) cons, o⟩ = pPredict p ⟨.base (.dec i (f.call id l')) cons, o⟩ := by
    rw [pPredict_next, pPredict_next]
    cases hr : remOf (p.rem i) id with
    | none => simp [hr] at h
    | some r => simp [predLast, hr]
  have e2 : instOfX (.base (.dec i (f.call id l)) cons) = instOfX (.base (.dec i (f.call id l')) cons) := rfl
  unfold pStep
  simp only [e, e2]

/-! ## the frame counter -/

/-- decoder calls that keep the decoder, cannot change the recognition result and, audio blocks apart, cannot change
`decoder_n_frames` -/
def quietDec : Call → Bool
  | .proc _ _ | .hyp _ | .seg _ _ | .segNext _ _ | .segFree _ | .nframes | .times | .lookup _ | .retain | .logfile _
  | .hypNext _ _ | .hypFree _ | .hypSeg _ _ _ => true
  | _ => false

def isProc : Call → Bool | .proc _ _ => true | _ => false

/-- such a call made on decoder `i` -/
def quietOn (i : Inst) : XCall → Bool
  | .base (.dec j dc) _ => j == i && quietDec dc
  | _ => false

def isProcX : XCall → Bool
  | .base (.dec _ dc) _ => isProc dc
  | _ => false

/-- what the accepted audio blocks of a history reported, summed -/
def frameSum (p : PState) : List PCall → Nat
  | [] => 0
  | c :: cs =>
    (if isProcX c.call && !refusedX p.x (pPredict p c) (pStep p c).2 then c.obs.nret else 0) + frameSum (pStep p c).1 cs

theorem step_refs_quiet (s : ApiState) (dc : Call) (hq : quietDec dc = true) (h : s.refs ≠ 0) : (step s dc).1.refs ≠ 0 := by
  cases dc <;> simp [quietDec] at hq <;> simp only [step] <;> (repeat' split) <;> simp_all

theorem pPredict_quiet (p : PState) (i : Inst) (dc : Call) (cons : Bool) (o : PObs) (hq : quietDec dc = true) :
    ∃ dc', pPredict p ⟨.base (.dec i dc) cons, o⟩ = .base (.dec i dc') cons ∧ quietDec dc' = true ∧ isProc dc' = isProc dc := by
  cases dc <;> simp [quietDec] at hq <;>
    simp [pPredict, instOfX, instOf, Seen.predict, predictIter, quietDec, isProc]

theorem update_frames_quiet (m : Seen) (i : Inst) (dc : Call) (cons : Bool) (ret : Ret) (nret fed f : Nat) (w : WordInfo)
    (hq : quietDec dc = true) (hf : m.frames = some f) :
    (m.update (.base (.dec i dc) cons) ret false nret fed w).frames = some (f + if isProc dc then nret else 0) := by
  cases dc <;> simp [quietDec] at hq <;>
    simp [Seen.update, hf, pureQuery, XCall.kind, SysCall.kind, Call.kind, isProc]

/-- one quiet call on decoder `i`: the predicted frame counter grows by exactly what an accepted audio block reported -/
theorem pStep_frames_quiet (p : PState) (c : PCall) (i : Inst) (f : Nat) (hq : quietOn i c.call = true) (hi : PredInv p)
    (hf : (p.seen i).frames = some f) :
    ((pStep p c).1.seen i).frames =
      some (f + if isProcX c.call && !refusedX p.x (pPredict p c) (pStep p c).2 then c.obs.nret else 0) := by
  obtain ⟨call, o⟩ := c
  cases call with
  | base sc cons =>
    cases sc with
    | dec j dc =>
      simp only [quietOn, Bool.and_eq_true, beq_iff_eq] at hq
      obtain ⟨hj, hq⟩ := hq
      subst hj
      by_cases hr : refusedX p.x (pPredict p ⟨.base (.dec j dc) cons, o⟩) (pStep p ⟨.base (.dec j dc) cons, o⟩).2 = true
      · rw [pStep_refused p _ hr]; simp [hr, hf]
      · have hr' := hr
        rw [pStep_ret] at hr'
        simp only [Bool.not_eq_true] at hr hr'
        obtain ⟨dc', e1, e2, e3⟩ := pPredict_quiet p j dc cons o hq
        have h0 : (p.x.sys.inst j).refs ≠ 0 := by
          intro h0
          have := (hi j).1 h0
          rw [this] at hf
          cases hf
        have h1 : ((xStep p.x (pPredict p ⟨.base (.dec j dc) cons, o⟩)).1.sys.inst j).refs ≠ 0 := by
          rw [e1]
          rcases xStep_dec_inst p.x j dc' cons with h | h <;> rw [h]
          · exact h0
          · exact step_refs_quiet _ _ e2 h0
        rw [pStep_accepted_seen p _ j rfl hr' h1, e1, update_frames_quiet _ _ _ _ _ _ _ _ _ e2 hf]
        rw [e1] at hr
        simp [isProcX, hr, e3]
    | _ => simp [quietOn] at hq
  | _ => simp [quietOn] at hq

theorem pRun_frames_quiet (i : Inst) (cs : List PCall) : ∀ (p : PState) (f : Nat), (∀ c ∈ cs, quietOn i c.call = true) →
    PredInv p → (p.seen i).frames = some f → ((pRun p cs).seen i).frames = some (f + frameSum p cs) := by
  induction cs with
  | nil => intro p f _ _ hf; simpa [pRun, frameSum] using hf
  | cons c cs ih =>
    intro p f hall hi hf
    have h1 := pStep_frames_quiet p c i f (hall c (List.mem_cons_self ..)) hi hf
    have := ih (pStep p c).1 _ (fun c' hc' => hall c' (List.mem_cons_of_mem _ hc')) (pStep_inv p c hi) h1
    simp only [pRun, frameSum]
    rw [this, Nat.add_assoc]

/-- an accepted `decoder_start_utt`: the predicted frame counter is 1 (`output_frame = 0`), whatever was known -/
theorem pStep_start_frames (p : PState) (i : Inst) (cons : Bool) (o : PObs)
    (h : (pStep p ⟨.base (.dec i .start) cons, o⟩).2 = .ok) :
    ((pStep p ⟨.base (.dec i .start) cons, o⟩).1.seen i).frames = some 1 := by
  have e : pPredict p ⟨.base (.dec i .start) cons, o⟩ = .base (.dec i .start) cons := by
    simp [pPredict, instOfX, instOf, Seen.predict, predictIter]
  rw [pStep_ret, e] at h
  have hno : ¬ outOfOrderX p.x (.base (.dec i .start) cons) := by
    intro ho
    rw [error_is_noop _ _ ho] at h
    simp [errorValueX, errorValue] at h
  have hr : refusedX p.x (pPredict p ⟨.base (.dec i .start) cons, o⟩)
      (xStep p.x (pPredict p ⟨.base (.dec i .start) cons, o⟩)).2 = false := by
    rw [e]; simp [refusedX, h, hno]
  have hs : (step (p.x.sys.inst i) .start).2 = .ok := by
    rcases xStep_dec_ret p.x i .start cons with h' | h'
    · rw [h] at h'; cases h'
    · rw [← h', h]
  have h0 : (p.x.sys.inst i).refs ≠ 0 := by
    intro h0; simp [step, h0] at hs
  have h1 : ((xStep p.x (pPredict p ⟨.base (.dec i .start) cons, o⟩)).1.sys.inst i).refs ≠ 0 := by
    rw [e]
    rcases xStep_dec_inst p.x i .start cons with h' | h' <;> rw [h']
    · exact h0
    · revert hs; simp only [step]; (repeat' split) <;> simp_all
  rw [pStep_accepted_seen p _ i rfl hr h1, e]
  simp [Seen.update]

end SSVerif.Protocol
