import SSVerif.Proofs.JsgfLex
import SSVerif.Proofs.JsgfParse
/-!
`parseText (printG g) = some g` for every text-level syntax tree whose spellings satisfy the
printer's side conditions.
-/
namespace SSVerif.JsgfText

def declTok (t : Tok) : Bool := lexNext .decl t == some .decl

theorem lexable_decl_append : ∀ (ts more : List Tok), ts.all declTok = true →
    lexable .decl (ts ++ more) = lexable .decl more
  | [], more, _ => rfl
  | t :: ts, more, h => by
    simp only [List.all_cons, Bool.and_eq_true, declTok, beq_iff_eq] at h
    simp only [List.cons_append, lexable, h.1]
    exact lexable_decl_append ts more (by simpa [declTok] using h.2)

theorem declTok_ch {c : Char} (h : c = '=' ∨ c = '|' ∨ c = '*' ∨ c = '+' ∨ c = '(' ∨ c = ')' ∨ c = '[' ∨ c = ']') :
    declTok (.ch c) = true := by
  rcases h with rfl | rfl | rfl | rfl | rfl | rfl | rfl | rfl <;> decide

mutual
  theorem declE : ∀ (e : TExp), okE e = true → (toksE e).all declTok = true
    | .tok s, h => by simp only [okE] at h; simp [toksE, declTok, lexNext, h]
    | .rule s, h => by simp only [okE] at h; simp [toksE, declTok, lexNext, h]
    | .star e, h => by
      simp only [okE] at h
      simp only [toksE, List.all_append, declE e h, Bool.true_and, List.all_cons, List.all_nil, Bool.and_true]
      exact declTok_ch (by simp)
    | .plus e, h => by
      simp only [okE] at h
      simp only [toksE, List.all_append, declE e h, Bool.true_and, List.all_cons, List.all_nil, Bool.and_true]
      exact declTok_ch (by simp)
    | .group a, h => by
      simp only [okE] at h
      simp only [toksE, List.all_cons, List.all_append, declA a h, List.all_nil, Bool.and_true, Bool.true_and,
        Bool.and_eq_true]
      exact ⟨declTok_ch (by simp), declTok_ch (by simp)⟩
    | .opt a, h => by
      simp only [okE] at h
      simp only [toksE, List.all_cons, List.all_append, declA a h, List.all_nil, Bool.and_true, Bool.true_and,
        Bool.and_eq_true]
      exact ⟨declTok_ch (by simp), declTok_ch (by simp)⟩
  theorem declI : ∀ (wt : Option Dec) (tags : List (List Char)) (e : TExp), okE e = true → tags.all tagOK = true →
      (wtToks wt ++ toksE e ++ tags.map Tok.tag).all declTok = true
    | wt, tags, e, he, ht => by
      simp only [List.all_append, Bool.and_eq_true]
      refine ⟨⟨?_, declE e he⟩, ?_⟩
      · cases wt <;> simp [wtToks, declTok, lexNext]
      · simp only [List.all_map, List.all_eq_true] at ht ⊢
        intro s hs
        simp [declTok, lexNext, ht s hs]
  theorem declS : ∀ (s : TSeq), okS s = true → (toksS s).all declTok = true
    | .one wt tags e, h => by
      simp only [okS, Bool.and_eq_true] at h
      simp only [toksS]
      exact declI wt tags e h.1 h.2
    | .cons wt tags e s, h => by
      simp only [okS, Bool.and_eq_true] at h
      simp only [toksS, List.all_append, Bool.and_eq_true]
      have := declI wt tags e h.1.1 h.1.2
      simp only [List.all_append, Bool.and_eq_true] at this
      exact ⟨this, declS s h.2⟩
  theorem declA : ∀ (a : TAlts), okA a = true → (toksA a).all declTok = true
    | .one s, h => by simp only [okA] at h; simp only [toksA]; exact declS s h
    | .cons s a, h => by
      simp only [okA, Bool.and_eq_true] at h
      simp only [toksA, List.all_append, List.all_cons, declS s h.1, declA a h.2, Bool.true_and, Bool.and_true]
      exact declTok_ch (by simp)
end

theorem lexable_rule (r : TRule) (more : List Tok) (hn : rulenameOK r.name = true) (hb : okA r.body = true) :
    lexable .initial (toksRule r ++ more) = lexable .initial more := by
  obtain ⟨name, pub, body⟩ := r
  simp only at hn hb
  have hbody : lexable .decl (toksA body ++ (Tok.ch ';' :: more)) = lexable .initial more := by
    rw [lexable_decl_append _ _ (declA body hb)]
    simp [lexable, lexNext]
  cases pub with
  | false =>
    simp only [toksRule, Bool.false_eq_true, if_false, List.nil_append, List.cons_append, List.append_assoc,
      lexable, lexNext, hn, if_true]
    simpa using hbody
  | true =>
    simp only [toksRule, if_true, List.cons_append, List.nil_append, List.append_assoc, lexable, lexNext, hn]
    simpa using hbody

theorem lexable_rules : ∀ (rules : List TRule),
    (rules.all fun r => rulenameOK r.name && okA r.body) = true →
    lexable .initial (rules.flatMap toksRule) = true
  | [], _ => rfl
  | r :: more, h => by
    simp only [List.all_cons, Bool.and_eq_true] at h
    simp only [List.flatMap_cons]
    rw [lexable_rule r _ h.1.1 h.1.2]
    exact lexable_rules more h.2

theorem lexable_imports : ∀ (imports : List (List Char)) (more : List Tok), imports.all rulenameOK = true →
    lexable .initial ((imports.flatMap fun n => [Tok.import_, Tok.rulename n, Tok.ch ';']) ++ more) =
      lexable .initial more
  | [], more, _ => rfl
  | n :: rest, more, h => by
    simp only [List.all_cons, Bool.and_eq_true] at h
    simp only [List.flatMap_cons, List.cons_append, List.nil_append, lexable, lexNext, h.1, if_true]
    exact lexable_imports rest more h.2

theorem lexable_toksG (g : TGrammar) (h : g.ok = true) : lexable .initial (toksG g) = true := by
  obtain ⟨hd, gn, im, rules⟩ := g
  simp only [TGrammar.ok, Bool.and_eq_true] at h
  obtain ⟨⟨⟨⟨_, hhd⟩, hgn⟩, him⟩, hr⟩ := h
  have e : toksG ⟨hd, gn, im, rules⟩ = Tok.header :: ((hd.map Tok.token) ++
      (Tok.ch ';' :: Tok.grammar :: Tok.token gn :: Tok.ch ';' ::
        ((im.flatMap fun n => [Tok.import_, Tok.rulename n, Tok.ch ';']) ++ rules.flatMap toksRule))) := by
    simp [toksG]
  rw [e]
  simp only [lexable, lexNext]
  rw [lexable_decl_append _ _ (by
    simp only [List.all_map, List.all_eq_true] at hhd ⊢
    intro s hs
    simp [declTok, lexNext, hhd s hs])]
  simp only [lexable, lexNext, if_true, hgn]
  rw [lexable_imports im _ him]
  exact lexable_rules rules hr

theorem ok_wf (g : TGrammar) (h : g.ok = true) : g.wf = true := by
  simp only [TGrammar.ok, Bool.and_eq_true] at h
  simp only [TGrammar.wf, Bool.and_eq_true]
  exact ⟨h.1.1.1.1.1, h.1.1.1.1.2⟩

/-- the text front end reads back what the printer writes -/
theorem parse_print (g : TGrammar) (h : g.ok = true) : parseText (printG g) = some g := by
  unfold parseText printG lex
  rw [lex_unlex (toksG g) .initial (Or.inl rfl) (lexable_toksG g h)]
  exact parseToks_toksG g (ok_wf g h)

end SSVerif.JsgfText
