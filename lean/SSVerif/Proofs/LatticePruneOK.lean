import SSVerif.Proofs.LatticePrune
/-! which clauses of the C11 predicate the lattice left by `lattice_posterior_prune` keeps; paths of the
pruned lattice are the renumbered surviving paths -/
namespace SSVerif.Lattice
open SSVerif.Nfa
namespace Prune

variable {G : Nfa} {L : Lat} {post : Link → Int} {beam : Int}

local notation "SS" => survivors L post beam
local notation "ord" => keepOrder L post beam
local notation "LP" => prunedLat L post beam
local notation "SL" => L.withLinks (survivors L post beam)

theorem idx_eq_start (ok : LatticeOK G L) {v : Nat} (hv : v ∈ ord) : (ord).idxOf v = (LP).start ↔ v = L.start :=
  ⟨fun h => idx_inj hv (start_ord ok) h, fun h => by rw [h]; rfl⟩

theorem idx_eq_final (ok : LatticeOK G L) {v : Nat} (hv : v ∈ ord) : (ord).idxOf v = (LP).final ↔ v = L.final :=
  ⟨fun h => idx_inj hv (final_ord ok) h, fun h => by rw [h]; rfl⟩

theorem lt_of_ord (ok : LatticeOK G L) {v : Nat} (hv : v ∈ ord) : v < L.n := ((mem_ord ok).1 hv).1

theorem link_src (l : Link) : (renumLink (ord) l).src = (ord).idxOf l.src := rfl
theorem link_dst (l : Link) : (renumLink (ord) l).dst = (ord).idxOf l.dst := rfl
theorem link_ef (l : Link) : (renumLink (ord) l).ef = l.ef := rfl
theorem link_ascr (l : Link) : (renumLink (ord) l).ascr = l.ascr := rfl

theorem node_src {l : Link} (hk : Kept L post beam l) : (LP).node (renumLink (ord) l).src = L.node l.src :=
  node_idx hk.2.2.1
theorem node_dst {l : Link} (hk : Kept L post beam l) : (LP).node (renumLink (ord) l).dst = L.node l.dst :=
  node_idx hk.2.2.2

/-! ### clauses that hold whatever is pruned -/

theorem endpoints (ok : LatticeOK G L) : EndpointsOK (LP) := by
  refine ⟨?_, ?_, ?_⟩
  · rw [n_eq]; exact idx_lt (start_ord ok)
  · rw [n_eq]; exact idx_lt (final_ord ok)
  · intro l' hl'
    obtain ⟨l, hk, rfl⟩ := (mem_links ok).1 hl'
    rw [n_eq]
    exact ⟨idx_lt hk.2.2.1, idx_lt hk.2.2.2⟩

theorem exitsCut_pairwise (ok : LatticeOK G L) (v : Nat) :
    (exitsCut L post beam v).Pairwise (fun a b => ¬(a.src = b.src ∧ a.dst = b.dst)) := by
  have base : ((exits L v).filter fun l => !cutB (traverseEdges L) post beam l).Pairwise
      (fun a b => ¬(a.src = b.src ∧ a.dst = b.dst)) := by
    unfold exits
    exact List.Pairwise.filter _ (List.Pairwise.filter _ ok.distinct)
  unfold exitsCut
  simp only
  split
  · rw [List.pairwise_reverse]
    exact base.imp (fun h e => h ⟨e.1.symm, e.2.symm⟩)
  · exact base

theorem keptLinks_pairwise (ok : LatticeOK G L) :
    (keptLinks L post beam).Pairwise (fun a b => ¬(a.src = b.src ∧ a.dst = b.dst)) := by
  unfold keptLinks
  simp only
  rw [List.pairwise_flatMap]
  refine ⟨fun v _ => List.Pairwise.filter _ (exitsCut_pairwise ok v), ?_⟩
  refine (ord_nodup (L := L) (post := post) (beam := beam)).imp ?_
  intro v w hne x hx y hy e
  have h1 := (mem_exitsCut.1 (List.mem_filter.1 hx).1).2
  have h2 := (mem_exitsCut.1 (List.mem_filter.1 hy).1).2
  exact hne (by rw [← h1, ← h2]; exact e.1)

theorem distinct (ok : LatticeOK G L) : LinksDistinct (LP) := by
  show ((keptLinks L post beam).map (renumLink (ord))).Pairwise _
  rw [List.pairwise_map]
  refine (keptLinks_pairwise ok).imp_of_mem ?_
  intro a b ha hb h e
  have ka := (mem_keptLinks ok).1 ha
  have kb := (mem_keptLinks ok).1 hb
  exact h ⟨idx_inj ka.2.2.1 kb.2.2.1 e.1, idx_inj ka.2.2.2 kb.2.2.2 e.2⟩

theorem markers (ok : LatticeOK G L) : MarkersOK (LP) := by
  intro i hi hr
  obtain ⟨v, hv, rfl⟩ := exists_of_lt hi
  rw [node_idx hv] at hr
  rcases ok.markers v (lt_of_ord ok hv) hr with h | h
  · exact Or.inl ((idx_eq_start ok hv).2 h)
  · exact Or.inr ((idx_eq_final ok hv).2 h)

theorem nodeTimes (ok : LatticeOK G L) : NodeTimesOK (LP) := by
  intro i hi
  obtain ⟨v, hv, rfl⟩ := exists_of_lt hi
  rw [node_idx hv]
  have h := ok.nodeTimes v (lt_of_ord ok hv)
  refine ⟨h.1, fun hr => ?_⟩
  obtain ⟨a, b, c, d⟩ := h.2 hr
  exact ⟨fun e => a ((idx_eq_start ok hv).1 e), fun e => b (fun e' => e ((idx_eq_start ok hv).2 e')), c, d⟩

theorem maxLef_eq (ok : LatticeOK G L) {v : Nat} (hv : v ∈ ord) (hr : (L.node v).real = true)
    (hm : (L.node v).lef = L.maxLef) : (LP).maxLef = L.maxLef := by
  apply Nat.le_antisymm
  · apply BuildPrune.maxLef_le
    intro i hi hri
    obtain ⟨w, hw, rfl⟩ := exists_of_lt hi
    rw [node_idx hw] at hri ⊢
    exact BuildPrune.le_maxLef (lt_of_ord ok hw) hri
  · have h1 : (ord).idxOf v < (LP).n := by rw [n_eq]; exact idx_lt hv
    have := BuildPrune.le_maxLef h1 (by rw [node_idx hv]; exact hr)
    rw [node_idx hv, hm] at this
    exact this

theorem linkTimes (ok : LatticeOK G L) : ∀ l' ∈ (LP).links, LinkTimeOK (LP) l' := by
  intro l' hl'
  obtain ⟨l, hk, rfl⟩ := (mem_links ok).1 hl'
  have h := ok.linkTimes l hk.1
  unfold LinkTimeOK at h ⊢
  rw [node_src hk, node_dst hk, link_ef]
  refine ⟨h.1, fun hs hd => ?_, fun hs => ?_⟩
  · obtain ⟨a, b, c⟩ := h.2.1 hs hd
    exact ⟨(idx_eq_final ok hk.2.2.2).2 a, b, by rw [c]; exact (maxLef_eq ok hk.2.2.1 hs c).symm⟩
  · obtain ⟨a, b, c, d⟩ := h.2.2 hs
    exact ⟨(idx_eq_start ok hk.2.2.1).2 a, b, c, d⟩

theorem realStart (ok : LatticeOK G L) : RealStartOK (LP) := by
  intro hr
  rw [start_eq, node_idx (start_ord ok)] at hr ⊢
  obtain ⟨a, b⟩ := ok.markerLinks.1 hr
  refine ⟨a, ?_⟩
  intro i hi hne
  obtain ⟨v, hv, rfl⟩ := exists_of_lt hi
  rw [node_idx hv]
  exact b v (lt_of_ord ok hv) (fun e => hne (by rw [e]))

theorem linkGrammar (ok : LatticeOK G L) : ∀ l' ∈ (LP).links, LinkGrammarOK G (LP) l' := by
  intro l' hl'
  obtain ⟨l, hk, rfl⟩ := (mem_links ok).1 hl'
  have h := ok.linkGrammar l hk.1
  unfold LinkGrammarOK gstate at h ⊢
  rw [node_src hk, node_dst hk]
  exact h

theorem startGrammar (ok : LatticeOK G L) : StartGrammarOK G (LP) := by
  have h := ok.startGrammar
  unfold StartGrammarOK at h ⊢
  rw [start_eq, node_idx (start_ord ok)]
  exact h

theorem rank_idx (ok : LatticeOK G L) {v : Nat} (hv : v ∈ ord) : (LP).rank ((ord).idxOf v) = L.rank v := by
  unfold Lat.rank
  rw [node_idx hv]
  by_cases h : v = L.start
  · have : (ord).idxOf v = (LP).start := (idx_eq_start ok hv).2 h
    rw [this]
    simp [h]
  · have : (ord).idxOf v ≠ (LP).start := fun e => h ((idx_eq_start ok hv).1 e)
    simp [this, h]

/-! ### paths -/

theorem Path.last {L : Lat} {u v : Nat} {p : List Link} (h : Path L u p v) (hne : p ≠ []) :
    ∃ q l, Path L u q l.src ∧ l ∈ L.links ∧ l.dst = v := by
  induction h with
  | nil u => exact absurd rfl hne
  | cons hm hs tail ih =>
    rename_i u l ls v
    by_cases hls : ls = []
    · subst hls
      exact ⟨[], l, hs ▸ .nil _, hm, tail.eq_of_nil⟩
    · obtain ⟨q, l2, hq, hm2, hd⟩ := ih hls
      exact ⟨l :: q, l2, .cons hm hs hq, hm2, hd⟩

theorem ord_of_paths (ok : LatticeOK G L) {v : Nat} (hv : v < L.n) (h1 : ∃ p, Path (SL) L.start p v)
    (h2 : ∃ q, Path (SL) v q L.final) : v ∈ ord :=
  (mem_ord ok).2 ⟨hv, Or.inr (Or.inr ⟨h1, h2⟩)⟩

theorem kept_of_path_link (ok : LatticeOK G L) {l : Link} (hl : l ∈ SS)
    (h1 : ∃ p, Path (SL) L.start p l.src) (h2 : ∃ q, Path (SL) l.dst q L.final) : Kept L post beam l := by
  obtain ⟨hm, hb⟩ := (mem_survivors ok).1 hl
  obtain ⟨p, hp⟩ := h1
  obtain ⟨q, hq⟩ := h2
  have he := ok.endpoints.2.2 l hm
  exact ⟨hm, hb, ord_of_paths ok he.1 ⟨p, hp⟩ ⟨l :: q, .cons hl rfl hq⟩,
    ord_of_paths ok he.2 ⟨p ++ [l], hp.snoc hl rfl⟩ ⟨q, hq⟩⟩

/-- a surviving path between a node the start still reaches and a node that still reaches the end is, renumbered,
a path of the pruned lattice -/
theorem path_image (ok : LatticeOK G L) {u w : Nat} {q : List Link} (hq : Path (SL) u q w)
    (hs : ∃ p, Path (SL) L.start p u) (hf : ∃ r, Path (SL) w r L.final) :
    Path (LP) ((ord).idxOf u) (q.map (renumLink (ord))) ((ord).idxOf w) := by
  induction hq with
  | nil u => exact .nil _
  | cons hm hsrc tail ih =>
    rename_i u l ls w
    subst hsrc
    obtain ⟨p, hp⟩ := hs
    obtain ⟨r, hr⟩ := hf
    have hk : Kept L post beam l := kept_of_path_link ok hm ⟨p, hp⟩ ⟨ls ++ r, tail.append hr⟩
    have := ih ⟨p ++ [l], hp.snoc hm rfl⟩ ⟨r, hr⟩
    exact .cons ((mem_links ok).2 ⟨l, hk, rfl⟩) rfl this

/-- every path of the pruned lattice is the renumbered image of a path of the original lattice over links
that are not below the beam -/
theorem path_preimage (ok : LatticeOK G L) {i j : Nat} {p' : List Link} (h : Path (LP) i p' j) :
    ∀ u, u ∈ ord → i = (ord).idxOf u →
      ∃ p w, w ∈ ord ∧ j = (ord).idxOf w ∧ p' = p.map (renumLink (ord)) ∧ Path (SL) u p w ∧
        ∀ l ∈ p, Kept L post beam l := by
  induction h with
  | nil i => intro u hu e; exact ⟨[], u, hu, e, rfl, .nil _, by simp⟩
  | cons hm hsrc _ ih =>
    rename_i i l' ls' j
    intro u hu e
    obtain ⟨l, hk, rfl⟩ := (mem_links ok).1 hm
    have hsu : l.src = u := idx_inj hk.2.2.1 hu (by rw [← link_src, hsrc, e])
    obtain ⟨p, w, hw, ej, ep, hp, hall⟩ := ih l.dst hk.2.2.2 rfl
    refine ⟨l :: p, w, hw, ej, by rw [ep]; rfl, .cons ((mem_survivors ok).2 ⟨hk.1, hk.2.1⟩) hsu hp, ?_⟩
    intro x hx
    rcases List.mem_cons.1 hx with rfl | hx
    · exact hk
    · exact hall x hx

theorem score_map (p : List Link) : score (p.map (renumLink (ord))) = score p := by
  unfold score
  rw [List.map_map]
  rfl

end Prune
end SSVerif.Lattice
