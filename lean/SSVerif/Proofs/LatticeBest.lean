import SSVerif.Proofs.LatticeTraverse
/-! `lattice_bestpath` (max part): the dynamic program over the traversal order computes, for every
link, the best score of a path from the start node ending with that link -/
namespace SSVerif.Lattice

variable {L : Lat}

/-- `Walk L p x`: the non-empty link list `p` leads from the start node and ends with link `x` -/
inductive Walk (L : Lat) : List Link → Link → Prop
  | single {x : Link} : x ∈ L.links → x.src = L.start → Walk L [x] x
  | snoc {p : List Link} {l x : Link} : Walk L p l → x ∈ L.links → x.src = l.dst → Walk L (p ++ [x]) x

theorem Walk.mem {p : List Link} {x : Link} (h : Walk L p x) : x ∈ L.links := by
  cases h with
  | single h _ => exact h
  | snoc _ h _ => exact h

theorem Walk.path {p : List Link} {x : Link} (h : Walk L p x) :
    Path L L.start p x.dst ∧ p.getLast? = some x := by
  induction h with
  | single hm hs => exact ⟨.cons hm hs (.nil _), rfl⟩
  | snoc _ hm hs ih => exact ⟨ih.1.snoc hm hs, by simp⟩

theorem Walk.extend {l : Link} {p : List Link} {v : Nat} (hp : Path L l.dst p v) :
    ∀ {q : List Link}, Walk L q l → ∃ x, Walk L (q ++ p) x ∧ x.dst = v := by
  generalize hu : l.dst = u at hp
  induction hp generalizing l with
  | nil u => intro q hq; exact ⟨l, by simpa using hq, hu⟩
  | @cons u y ys v hm hs _ ih =>
    intro q hq
    have hw : Walk L (q ++ [y]) y := .snoc hq hm (hs.trans hu.symm)
    obtain ⟨x, hx, hd⟩ := ih rfl hw
    exact ⟨x, by simpa using hx, hd⟩

theorem Walk.of_path {p : List Link} {v : Nat} (hp : Path L L.start p v) (hne : p ≠ []) :
    ∃ x, Walk L p x ∧ x.dst = v := by
  cases hp with
  | nil => exact absurd rfl hne
  | cons hm hs hrest =>
    obtain ⟨x, hx, hd⟩ := Walk.extend hrest (.single hm hs)
    exact ⟨x, by simpa using hx, hd⟩

theorem score_snoc (p : List Link) (x : Link) : score (p ++ [x]) = score p + x.ascr := by
  simp [score, List.sum_append]

/-- order on scores with `none` as minus infinity -/
def OLe (a b : Option Int) : Prop := ∀ x, a = some x → ∃ y, b = some y ∧ x ≤ y

theorem OLe.refl (a : Option Int) : OLe a a := fun x h => ⟨x, h, Int.le_refl _⟩

theorem OLe.trans {a b c : Option Int} (h1 : OLe a b) (h2 : OLe b c) : OLe a c := by
  intro x hx
  obtain ⟨y, hy, hxy⟩ := h1 x hx
  obtain ⟨z, hz, hyz⟩ := h2 y hy
  exact ⟨z, hz, Int.le_trans hxy hyz⟩

abbrev BState := Scores × (Link → Option Link)

/-- the update of one exit in `relax` -/
def relaxOne (a : Int) (l : Link) (st : BState) (x : Link) : BState :=
  if better (a + x.ascr) (st.1 x) then (upd st.1 x (some (a + x.ascr)), upd st.2 x (some l)) else st

theorem relax_eq (st : BState) (l : Link) :
    relax L st l = match st.1 l with
      | none => st
      | some a => (exits L l.dst).foldl (relaxOne a l) st := rfl

theorem relaxOne_mono (a : Int) (l : Link) (st : BState) (x y : Link) :
    OLe (st.1 y) ((relaxOne a l st x).1 y) := by
  unfold relaxOne
  split
  · rename_i hb
    simp only [upd]
    by_cases hy : y = x
    · subst hy
      rw [if_pos rfl]
      intro s hs
      rw [hs] at hb
      simp only [better, decide_eq_true_eq] at hb
      exact ⟨_, rfl, by omega⟩
    · rw [if_neg hy]; exact OLe.refl _
  · exact OLe.refl _

theorem relaxOne_frame (a : Int) (l : Link) (st : BState) (x y : Link) (h : y ≠ x) :
    (relaxOne a l st x).1 y = st.1 y := by
  unfold relaxOne
  split
  · simp [upd, h]
  · rfl

theorem relaxOne_ge (a : Int) (l : Link) (st : BState) (x : Link) :
    OLe (some (a + x.ascr)) ((relaxOne a l st x).1 x) := by
  unfold relaxOne
  split
  · simp only [upd, if_pos]; exact OLe.refl _
  · rename_i hb
    intro s hs
    cases hst : st.1 x with
    | none => rw [hst] at hb; simp [better] at hb
    | some b =>
      rw [hst] at hb
      simp only [better, decide_eq_true_eq] at hb
      cases hs
      exact ⟨b, rfl, by omega⟩

theorem fold_mono (a : Int) (l : Link) : ∀ (xs : List Link) (st : BState) (y : Link),
    OLe (st.1 y) ((xs.foldl (relaxOne a l) st).1 y) := by
  intro xs
  induction xs with
  | nil => intro st y; exact OLe.refl _
  | cons x xs ih =>
    intro st y
    simp only [List.foldl_cons]
    exact (relaxOne_mono a l st x y).trans (ih _ y)

theorem fold_frame (a : Int) (l : Link) : ∀ (xs : List Link) (st : BState) (y : Link), y ∉ xs →
    (xs.foldl (relaxOne a l) st).1 y = st.1 y := by
  intro xs
  induction xs with
  | nil => intro st y _; rfl
  | cons x xs ih =>
    intro st y hy
    simp only [List.foldl_cons]
    rw [ih _ y (fun h => hy (List.mem_cons_of_mem _ h))]
    exact relaxOne_frame a l st x y (fun h => hy (h ▸ List.mem_cons_self))

theorem fold_ge (a : Int) (l : Link) : ∀ (xs : List Link) (st : BState) (x : Link), x ∈ xs →
    OLe (some (a + x.ascr)) ((xs.foldl (relaxOne a l) st).1 x) := by
  intro xs
  induction xs with
  | nil => intro st x hx; cases hx
  | cons z xs ih =>
    intro st x hx
    simp only [List.foldl_cons]
    rcases List.mem_cons.1 hx with rfl | hx
    · exact (relaxOne_ge a l st x).trans (fold_mono a l xs _ x)
    · exact ih _ x hx

theorem fold_sound (a : Int) (l : Link) (Q : Link → Int → Prop) : ∀ (xs : List Link) (st : BState),
    (∀ y s, st.1 y = some s → Q y s) → (∀ x ∈ xs, Q x (a + x.ascr)) →
    ∀ y s, (xs.foldl (relaxOne a l) st).1 y = some s → Q y s := by
  intro xs
  induction xs with
  | nil => intro st h _; exact h
  | cons x xs ih =>
    intro st h hq
    simp only [List.foldl_cons]
    apply ih
    · intro y s hy
      unfold relaxOne at hy
      split at hy
      · simp only [upd] at hy
        by_cases hyx : y = x
        · subst hyx; rw [if_pos rfl] at hy; cases hy; exact hq y List.mem_cons_self
        · rw [if_neg hyx] at hy; exact h y s hy
      · exact h y s hy
    · intro z hz; exact hq z (List.mem_cons_of_mem _ hz)

theorem relax_mono (st : BState) (l y : Link) : OLe (st.1 y) ((relax L st l).1 y) := by
  rw [relax_eq]
  split
  · exact OLe.refl _
  · exact fold_mono _ _ _ _ _

theorem relax_frame (st : BState) (l y : Link) (h : y ∉ exits L l.dst) : (relax L st l).1 y = st.1 y := by
  rw [relax_eq]
  split
  · rfl
  · exact fold_frame _ _ _ _ _ h

theorem relax_ge (st : BState) (l x : Link) (a : Int) (ha : st.1 l = some a) (hx : x ∈ exits L l.dst) :
    OLe (some (a + x.ascr)) ((relax L st l).1 x) := by
  rw [relax_eq, ha]
  exact fold_ge _ _ _ _ _ hx

theorem foldl_relax_mono : ∀ (ord : List Link) (st : BState) (y : Link),
    OLe (st.1 y) ((ord.foldl (relax L) st).1 y) := by
  intro ord
  induction ord with
  | nil => intro st y; exact OLe.refl _
  | cons l ord ih => intro st y; exact (relax_mono st l y).trans (ih _ y)

theorem foldl_relax_frame : ∀ (ord : List Link) (st : BState) (y : Link),
    (∀ l ∈ ord, y ∉ exits L l.dst) → (ord.foldl (relax L) st).1 y = st.1 y := by
  intro ord
  induction ord with
  | nil => intro st y _; rfl
  | cons l ord ih =>
    intro st y h
    simp only [List.foldl_cons]
    rw [ih _ y (fun l' hl' => h l' (List.mem_cons_of_mem _ hl'))]
    exact relax_frame st l y (h l List.mem_cons_self)

/-- every recorded score is the score of a walk -/
def Sound (L : Lat) (st : BState) : Prop := ∀ y s, st.1 y = some s → ∃ p, Walk L p y ∧ score p = s

theorem sound_init : Sound L (bestInit L) := by
  intro y s h
  simp only [bestInit] at h
  split at h
  · rename_i hc
    cases h
    exact ⟨[y], .single hc.1 hc.2, by simp [score]⟩
  · cases h

theorem sound_relax {st : BState} (h : Sound L st) (l : Link) : Sound L (relax L st l) := by
  rw [relax_eq]
  split
  · exact h
  · rename_i a ha
    obtain ⟨p, hp, hs⟩ := h l a ha
    apply fold_sound a l (fun y s => ∃ p, Walk L p y ∧ score p = s) _ _ h
    intro x hx
    exact ⟨p ++ [x], .snoc hp (mem_exits.1 hx).1 (mem_exits.1 hx).2, by rw [score_snoc, hs]⟩

theorem sound_foldl : ∀ (ord : List Link) (st : BState), Sound L st → Sound L (ord.foldl (relax L) st) := by
  intro ord
  induction ord with
  | nil => intro st h; exact h
  | cons l ord ih => intro st h; exact ih _ (sound_relax h l)

/-- the score of a link does not change after its own visit in a topological, duplicate-free order -/
theorem stable {pre post : List Link} {l : Link}
    (hnd : (pre ++ l :: post).Nodup) (hsub : ∀ x ∈ pre ++ l :: post, x ∈ L.links)
    (htopo : Topo L (pre ++ l :: post)) (st : BState) :
    ((l :: post).foldl (relax L) st).1 l = st.1 l := by
  apply foldl_relax_frame
  intro l' hl' hmem
  have h1 := mem_exits.1 hmem
  have hl'links := hsub l' (List.mem_append_right _ hl')
  have hpre := htopo pre l post rfl l' hl'links h1.2.symm
  exact (List.nodup_append.1 hnd).2.2 l' hpre l' hl' rfl

/-- after the whole order has been processed every walk is dominated by the score of its last link -/
theorem dp_complete {ord : List Link} (hperm : ord.Perm L.links) (hnd : ord.Nodup) (htopo : Topo L ord)
    {p : List Link} {x : Link} (hw : Walk L p x) :
    OLe (some (score p)) ((ord.foldl (relax L) (bestInit L)).1 x) := by
  induction hw with
  | @single x hm hs =>
    refine OLe.trans ?_ (foldl_relax_mono ord (bestInit L) x)
    intro s hsx
    cases hsx
    refine ⟨x.ascr, ?_, by simp [score]⟩
    simp only [bestInit]
    rw [if_pos ⟨hm, hs⟩]
  | @snoc p l x hwl hm hs ih =>
    have hl : l ∈ ord := hperm.mem_iff.2 hwl.mem
    obtain ⟨pre, post, rfl⟩ := List.append_of_mem hl
    have hsub : ∀ y ∈ pre ++ l :: post, y ∈ L.links := fun y hy => hperm.mem_iff.1 hy
    rw [List.foldl_append] at ih ⊢
    rw [stable hnd hsub htopo] at ih
    obtain ⟨a, ha, hle⟩ := ih _ rfl
    simp only [List.foldl_cons]
    have h1 := relax_ge (pre.foldl (relax L) (bestInit L)) l x a ha (mem_exits.2 ⟨hm, hs⟩)
    have h2 := foldl_relax_mono (L := L) post (relax L (pre.foldl (relax L) (bestInit L)) l) x
    refine OLe.trans ?_ (h1.trans h2)
    intro s hsx
    cases hsx
    exact ⟨a + x.ascr, rfl, by rw [score_snoc]; omega⟩

/-- invariant of the scan over the entries of the end node -/
def BestInv (sc : Scores) (best : Option (Link × Int)) (done : List Link) : Prop :=
  (∀ x s, best = some (x, s) → sc x = some s ∧ x ∈ done ∧ ∀ y ∈ done, OLe (sc y) (some s)) ∧
  (best = none → ∀ y ∈ done, sc y = none)

theorem bestStep_inv (sc : Scores) (best : Option (Link × Int)) (done : List Link) (x : Link)
    (h : BestInv sc best done) : BestInv sc (bestStep sc best x) (done ++ [x]) := by
  unfold bestStep
  cases hsx : sc x with
  | none =>
    simp only
    constructor
    · intro x' s hb
      obtain ⟨h1, h2, h3⟩ := h.1 x' s hb
      refine ⟨h1, List.mem_append_left _ h2, fun y hy => ?_⟩
      rcases List.mem_append.1 hy with hy | hy
      · exact h3 y hy
      · simp at hy; subst hy; rw [hsx]; intro _ hh; cases hh
    · intro hb y hy
      rcases List.mem_append.1 hy with hy | hy
      · exact h.2 hb y hy
      · simp at hy; subst hy; exact hsx
  | some sx =>
    cases best with
    | none =>
      simp only
      constructor
      · intro x' s hb
        cases hb
        refine ⟨hsx, by simp, fun y hy => ?_⟩
        rcases List.mem_append.1 hy with hy | hy
        · rw [h.2 rfl y hy]; intro _ hh; cases hh
        · simp at hy; subst hy; rw [hsx]; exact OLe.refl _
      · intro hb; cases hb
    | some yb =>
      obtain ⟨y0, b⟩ := yb
      simp only
      obtain ⟨h1, h2, h3⟩ := h.1 y0 b rfl
      by_cases hgt : sx > b
      · rw [if_pos hgt]
        constructor
        · intro x' s hb
          cases hb
          refine ⟨hsx, by simp, fun y hy => ?_⟩
          rcases List.mem_append.1 hy with hy | hy
          · refine (h3 y hy).trans ?_
            intro s' hs'; cases hs'; exact ⟨sx, rfl, by omega⟩
          · simp at hy; subst hy; rw [hsx]; exact OLe.refl _
        · intro hb; cases hb
      · rw [if_neg hgt]
        constructor
        · intro x' s hb
          cases hb
          refine ⟨h1, List.mem_append_left _ h2, fun y hy => ?_⟩
          rcases List.mem_append.1 hy with hy | hy
          · exact h3 y hy
          · simp at hy; subst hy; rw [hsx]
            intro s' hs'; cases hs'; exact ⟨b, rfl, by omega⟩
        · intro hb; cases hb

theorem bestFold_inv (sc : Scores) : ∀ (es done : List Link) (best : Option (Link × Int)),
    BestInv sc best done → BestInv sc (es.foldl (bestStep sc) best) (done ++ es) := by
  intro es
  induction es with
  | nil => intro done best h; simpa using h
  | cons e es ih =>
    intro done best h
    simp only [List.foldl_cons]
    have := ih (done ++ [e]) _ (bestStep_inv sc best done e h)
    simpa using this

theorem bestEnd_inv (sc : Scores) : BestInv sc (bestEnd L sc) (entries L L.final) := by
  have h0 : BestInv sc none [] := by
    constructor
    · intro x s h; cases h
    · intro _ y hy; cases hy
  have := bestFold_inv sc (entries L L.final) [] none h0
  simpa [bestEnd] using this

/-- **`lattice_bestpath` returns the last link of a maximum-score start→end path** -/
theorem bestpath_is_max {rank : Nat → Nat} (ok : DagOK L rank) :
    match bestpath L with
    | some (x, s, _) =>
      x ∈ L.links ∧ x.dst = L.final ∧
      (∃ p, Path L L.start p L.final ∧ p.getLast? = some x ∧ score p = s) ∧
      (∀ p, Path L L.start p L.final → p ≠ [] → score p ≤ s)
    | none => ∀ p, Path L L.start p L.final → p = [] := by
  obtain ⟨hperm, htopo⟩ := traverse_topological ok
  have hnd : (traverseEdges L).Nodup := (hperm.nodup_iff).2 ok.nodup
  have hsound : Sound L (bestScores L) := sound_foldl _ _ sound_init
  have hcomplete : ∀ {p : List Link} {x : Link}, Walk L p x → OLe (some (score p)) ((bestScores L).1 x) :=
    fun hw => dp_complete hperm hnd htopo hw
  have hinv := bestEnd_inv (L := L) (bestScores L).1
  unfold bestpath
  simp only
  cases hres : bestEnd L (bestScores L).1 with
  | none =>
    simp only
    intro p hp
    cases hpe : p with
    | nil => rfl
    | cons y ys =>
      exfalso
      obtain ⟨x, hw, hd⟩ := Walk.of_path hp (by rw [hpe]; simp)
      have h1 := hinv.2 hres x (mem_entries.2 ⟨hw.mem, hd⟩)
      obtain ⟨_, h2, _⟩ := hcomplete hw _ rfl
      rw [h1] at h2; cases h2
  | some xs =>
    obtain ⟨x, s⟩ := xs
    simp only
    obtain ⟨h1, hx, h3⟩ := hinv.1 x s hres
    have hxm := mem_entries.1 hx
    obtain ⟨p, hp, hs⟩ := hsound x s h1
    refine ⟨hxm.1, hxm.2, ⟨p, hxm.2 ▸ hp.path.1, hp.path.2, hs⟩, ?_⟩
    intro p' hp' hne
    obtain ⟨y, hw, hd⟩ := Walk.of_path hp' hne
    obtain ⟨a, ha, hle⟩ := hcomplete hw _ rfl
    obtain ⟨b, hb, hab⟩ := h3 y (mem_entries.2 ⟨hw.mem, hd⟩) a ha
    cases hb
    omega

end SSVerif.Lattice
