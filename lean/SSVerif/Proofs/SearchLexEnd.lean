import SSVerif.Proofs.SearchLex
import SSVerif.Proofs.Search
/-! every `sibling` chain of the lextree `buildLexTree` constructs ends in NULL: the loops of the search over
the roots of a state and over the children of a pnode (and the pointer walks of the construction itself)
terminate, and the fuel of `LexTree.chain` / `findChild` / `lastOf` is never exhausted.

The invariant is a rank that strictly decreases along `sibling` (`Ranked`).  Allocation gives the new pnode
the rank of its sibling plus one; hooking a new group of leaves to the END of an existing child chain
("link to the end of the sibling chain") lifts the rank of every older pnode above the ranks of the group. -/
namespace SSVerif.Search
open SSVerif.Hist

def Ranked (a : Array PNode) : Prop :=
  ∃ r : Nat → Nat, ∀ p, p < a.size → ∀ q, (ndOf a p).sibling = some q → r q < r p

theorem GInv.sibClosed {g : Fsg} {a : Array PNode} (inv : GInv g a) {p q : Nat} (hp : p < a.size)
    (h : (ndOf a p).sibling = some q) : q < a.size := ((inv p hp).2.1 q h).1

theorem GInv.succClosed {g : Fsg} {a : Array PNode} (inv : GInv g a) {p q : Nat} (hp : p < a.size)
    (h : (ndOf a p).succ = some q) : q < a.size := ((inv p hp).1 q h).1

theorem ranked_empty : Ranked #[] := ⟨fun _ => 0, fun p hp => by simp at hp⟩

theorem ranked_push {g : Fsg} {a : Array PNode} {n : PNode} (hr : Ranked a) (inv : GInv g a)
    (hn : ∀ q, n.sibling = some q → q < a.size) : Ranked (a.push n) := by
  obtain ⟨r, hr⟩ := hr
  refine ⟨fun x => if x = a.size then (match n.sibling with | some q => r q + 1 | none => 0) else r x, ?_⟩
  intro p hp q hq
  rw [Array.size_push] at hp
  by_cases hlt : p < a.size
  · rw [ndOf_push_lt a n hlt] at hq
    have hq' := inv.sibClosed hlt hq
    have h1 : p ≠ a.size := by omega
    have h2 : q ≠ a.size := by omega
    simp only [h1, h2, if_false]
    exact hr p hlt q hq
  · have : p = a.size := by omega
    subst this
    rw [ndOf_push_eq] at hq
    have hq' := hn q hq
    have h2 : q ≠ a.size := by omega
    simp only [h2, if_false, if_true, hq]
    omega

theorem sibling_amod (a : Array PNode) (p : Nat) (f : PNode → PNode) (hf : ∀ n, (f n).sibling = n.sibling) {q : Nat}
    (hq : q < a.size) : (ndOf (amod a p f) q).sibling = (ndOf a q).sibling := by
  rw [ndOf_modify a p f hq]
  split
  · exact hf _
  · rfl

theorem succ_amod (a : Array PNode) (p : Nat) (f : PNode → PNode) (hf : ∀ n, (f n).succ = n.succ) {q : Nat}
    (hq : q < a.size) : (ndOf (amod a p f) q).succ = (ndOf a q).succ := by
  rw [ndOf_modify a p f hq]
  split
  · exact hf _
  · rfl

theorem ranked_amod {a : Array PNode} {p : Nat} {f : PNode → PNode} (hr : Ranked a)
    (hf : ∀ n, (f n).sibling = n.sibling) : Ranked (amod a p f) := by
  obtain ⟨r, hr⟩ := hr
  refine ⟨r, fun x hx q hq => ?_⟩
  rw [size_amod] at hx
  rw [sibling_amod a p f hf hx] at hq
  exact hr x hx q hq

/-- hooking the group of new pnodes `[g0, size)` behind the old pnode `t`, the end of an old chain -/
theorem ranked_setSibling {a : Array PNode} {t g0 : Nat} {h : Option Nat} (hr : Ranked a) (ht : t < g0)
    (hold : ∀ x, x < g0 → x < a.size → ∀ y, (ndOf a x).sibling = some y → y < g0)
    (hnew : ∀ x, g0 ≤ x → x < a.size → ∀ y, (ndOf a x).sibling = some y → g0 ≤ y)
    (hh : ∀ y, h = some y → g0 ≤ y) : Ranked (setSibling a t h) := by
  obtain ⟨r, hr⟩ := hr
  refine ⟨fun x => if x < g0 then r x + (h.elim 0 fun y => r y + 1) else r x, ?_⟩
  intro x hx q hq
  unfold setSibling at hx hq
  rw [size_amod] at hx
  rw [ndOf_modify a t _ hx] at hq
  by_cases htx : t = x
  · subst htx
    simp only [if_true] at hq
    have hq' : h = some q := hq
    subst hq'
    have hge := hh q rfl
    have h1 : ¬ q < g0 := by omega
    simp only [ht, h1, if_true, if_false, Option.elim]
    omega
  · simp only [htx, if_false] at hq
    by_cases hxo : x < g0
    · have hqo := hold x hxo hx q hq
      simp only [hxo, hqo, if_true]
      have := hr x hx q hq
      omega
    · have hqn := hnew x (by omega) hx q hq
      have h1 : ¬ q < g0 := by omega
      simp only [hxo, h1, if_false]
      exact hr x hx q hq

/-! ### a ranked, closed array has no endless chain -/

def chainEndsA (a : Array PNode) : Nat → Option Nat → Bool
  | _, none => true
  | 0, some _ => false
  | fuel + 1, some p => chainEndsA a fuel (ndOf a p).sibling

def chainA (a : Array PNode) : Nat → Option Nat → List Nat
  | 0, _ => []
  | _, none => []
  | fuel + 1, some p => p :: chainA a fuel (ndOf a p).sibling

theorem chainEndsA_none (a : Array PNode) (k : Nat) : chainEndsA a k none = true := by
  cases k <;> rfl

theorem chainA_none (a : Array PNode) (k : Nat) : chainA a k none = [] := by
  cases k <;> rfl

theorem ends_of_rank {g : Fsg} {a : Array PNode} (inv : GInv g a) {r : Nat → Nat}
    (hr : ∀ p, p < a.size → ∀ q, (ndOf a p).sibling = some q → r q < r p) :
    ∀ (k p : Nat), p < a.size → r p < k → chainEndsA a k (some p) = true := by
  intro k
  induction k with
  | zero => intro p _ h; omega
  | succ k ih =>
    intro p hp hk
    simp only [chainEndsA]
    cases hs : (ndOf a p).sibling with
    | none => exact chainEndsA_none a k
    | some q =>
      have := hr p hp q hs
      exact ih q (inv.sibClosed hp hs) (by omega)

theorem chainA_rank {g : Fsg} {a : Array PNode} (inv : GInv g a) {r : Nat → Nat}
    (hr : ∀ p, p < a.size → ∀ q, (ndOf a p).sibling = some q → r q < r p) :
    ∀ (k p : Nat), p < a.size → ∀ x ∈ chainA a k (ndOf a p).sibling, r x < r p ∧ x < a.size := by
  intro k
  induction k with
  | zero => intro p _ x hx; simp [chainA] at hx
  | succ k ih =>
    intro p hp x hx
    cases hs : (ndOf a p).sibling with
    | none => rw [hs, chainA_none] at hx; cases hx
    | some q =>
      rw [hs] at hx
      simp only [chainA] at hx
      have hq := inv.sibClosed hp hs
      have hrq := hr p hp q hs
      rcases List.mem_cons.1 hx with h1 | h1
      · rw [h1]; exact ⟨hrq, hq⟩
      · have := ih q hq x h1
        exact ⟨by omega, this.2⟩

theorem chainA_nodup {g : Fsg} {a : Array PNode} (inv : GInv g a) {r : Nat → Nat}
    (hr : ∀ p, p < a.size → ∀ q, (ndOf a p).sibling = some q → r q < r p) :
    ∀ (k p : Nat), p < a.size → (chainA a k (some p)).Nodup ∧ ∀ x ∈ chainA a k (some p), x < a.size := by
  intro k
  induction k with
  | zero => intro p _; simp [chainA]
  | succ k ih =>
    intro p hp
    simp only [chainA]
    have hrank := chainA_rank inv hr k p hp
    cases hs : (ndOf a p).sibling with
    | none => simp [chainA_none, hp]
    | some q =>
      rw [hs] at hrank
      obtain ⟨h1, h2⟩ := ih q (inv.sibClosed hp hs)
      refine ⟨List.nodup_cons.2 ⟨fun hm => ?_, h1⟩, fun x hx => ?_⟩
      · have := (hrank p hm).1; omega
      · rcases List.mem_cons.1 hx with h3 | h3
        · rw [h3]; exact hp
        · exact h2 x h3

theorem chainEndsA_shrink (a : Array PNode) : ∀ (k m : Nat) (o : Option Nat), chainEndsA a k o = true →
    (chainA a k o).length ≤ m → chainEndsA a m o = true := by
  intro k
  induction k with
  | zero =>
    intro m o h _
    cases o with
    | none => exact chainEndsA_none a m
    | some p => simp [chainEndsA] at h
  | succ k ih =>
    intro m o h hl
    cases o with
    | none => exact chainEndsA_none a m
    | some p =>
      simp only [chainEndsA] at h
      simp only [chainA, List.length_cons] at hl
      cases m with
      | zero => omega
      | succ m => simp only [chainEndsA]; exact ih m _ h (by omega)

/-- **every chain ends within `size` steps** -/
theorem ranked_ends {g : Fsg} {a : Array PNode} (inv : GInv g a) (hr : Ranked a) {p : Nat} (hp : p < a.size) :
    chainEndsA a a.size (some p) = true := by
  obtain ⟨r, hr⟩ := hr
  have h1 := ends_of_rank inv hr (r p + 1) p hp (by omega)
  obtain ⟨h2, h3⟩ := chainA_nodup inv hr (r p + 1) p hp
  exact chainEndsA_shrink a _ _ _ h1 (nodup_length_le _ _ h2 h3)

theorem lastOf_end (a : Array PNode) : ∀ (k c : Nat), chainEndsA a k (some c) = true →
    (ndOf a (lastOf a k c)).sibling = none := by
  intro k
  induction k with
  | zero => intro c h; simp [chainEndsA] at h
  | succ k ih =>
    intro c h
    simp only [chainEndsA] at h
    simp only [lastOf]
    split
    · rename_i hs; exact hs
    · rename_i q hs
      rw [hs] at h
      cases k with
      | zero => simp [chainEndsA] at h
      | succ k => exact ih q h

theorem lastOf_old (a : Array PNode) (g0 : Nat)
    (hold : ∀ x, x < g0 → ∀ y, (ndOf a x).sibling = some y → y < g0) :
    ∀ (k c : Nat), c < g0 → lastOf a k c < g0 := by
  intro k
  induction k with
  | zero => intro c hc; exact hc
  | succ k ih =>
    intro c hc
    simp only [lastOf]
    split
    · exact hc
    · rename_i q hs
      exact ih q (hold c hc q hs)

/-! ### the operations of the construction keep the array ranked -/

theorem ranked_addCtxt {a : Array PNode} (hr : Ranked a) (p c : Nat) : Ranked (addCtxt a p c) :=
  ranked_amod hr (fun _ => rfl)

theorem ranked_setSucc {a : Array PNode} (hr : Ranked a) (p : Nat) (q : Option Nat) : Ranked (setSucc a p q) :=
  ranked_amod hr (fun _ => rfl)

theorem sibling_addCtxt (a : Array PNode) (p c : Nat) {q : Nat} (hq : q < a.size) :
    (ndOf (addCtxt a p c) q).sibling = (ndOf a q).sibling := by
  unfold addCtxt
  apply sibling_amod
  · intro n; rfl
  · exact hq

theorem succ_addCtxt (a : Array PNode) (p c : Nat) {q : Nat} (hq : q < a.size) :
    (ndOf (addCtxt a p c) q).succ = (ndOf a q).succ := by
  unfold addCtxt
  apply succ_amod
  · intro n; rfl
  · exact hq

theorem sibling_setSucc (a : Array PNode) (p : Nat) (o : Option Nat) {q : Nat} (hq : q < a.size) :
    (ndOf (setSucc a p o) q).sibling = (ndOf a q).sibling := by
  unfold setSucc
  apply sibling_amod
  · intro n; rfl
  · exact hq

theorem size_addCtxt (a : Array PNode) (p c : Nat) : (addCtxt a p c).size = a.size := size_amod a p _
theorem size_setSucc (a : Array PNode) (p : Nat) (o : Option Nat) : (setSucc a p o).size = a.size := size_amod a p _

theorem ranked_setSuccAll (id : Nat) : ∀ (l : List Nat) (a : Array PNode), Ranked a →
    Ranked (l.foldl (fun a r => setSucc a r (some id)) a) := by
  intro l
  induction l with
  | nil => intro a h; exact h
  | cons r rest ih => intro a h; exact ih _ (ranked_setSucc h r _)

/-- what the loops over `lclist` maintain in addition -/
structure LcR (st : LcSt) : Prop where
  ranked : Ranked st.nodes
  nodup : st.lcl.Nodup

theorem singleStep_ranked {g : Fsg} {li : LexIn} {s lid ci : Nat} {logp : Int} {a0 : Array PNode} (st : LcSt) (lc : Nat)
    (h : LcInv g s a0 st) (hr : LcR st) : LcR (singleStep li s lid ci logp st lc) := by
  unfold singleStep
  simp only
  split
  · exact ⟨ranked_addCtxt hr.ranked _ _, hr.nodup⟩
  · refine ⟨ranked_push hr.ranked h.inv (fun q hq => (h.root q hq).1), List.nodup_cons.2 ⟨fun hm => ?_, hr.nodup⟩⟩
    exact absurd (h.lcl _ hm).1 (Nat.lt_irrefl _)

theorem rootStep_ranked {g : Fsg} {li : LexIn} {s ci rc : Nat} {a0 : Array PNode} (st : LcSt) (lc : Nat)
    (h : LcInv g s a0 st) (hr : LcR st) : LcR (rootStep li s ci rc st lc) := by
  unfold rootStep
  simp only
  split
  · exact ⟨ranked_addCtxt hr.ranked _ _, hr.nodup⟩
  · refine ⟨ranked_addCtxt (ranked_push hr.ranked h.inv (fun q hq => (h.root q hq).1)) _ _,
      List.nodup_cons.2 ⟨fun hm => ?_, hr.nodup⟩⟩
    exact absurd (h.lcl _ hm).1 (Nat.lt_irrefl _)

/-- what the loop over `rclist` maintains in addition, relative to the array `a0` it started from: the old
pnodes keep their pointers, the new pnodes point to new pnodes -/
structure RcR (a0 : Array PNode) (st : RcSt) : Prop where
  ranked : Ranked st.nodes
  size : a0.size ≤ st.nodes.size
  sibOld : ∀ x, x < a0.size → (ndOf st.nodes x).sibling = (ndOf a0 x).sibling
  succOld : ∀ x, x < a0.size → (ndOf st.nodes x).succ = (ndOf a0 x).succ
  sibNew : ∀ x, a0.size ≤ x → x < st.nodes.size → ∀ y, (ndOf st.nodes x).sibling = some y → a0.size ≤ y
  rclNew : ∀ x ∈ st.rcl, a0.size ≤ x

theorem RcR.ctxt {a0 : Array PNode} {st : RcSt} (hr : RcR a0 st) (q rc : Nat) :
    RcR a0 { st with nodes := addCtxt st.nodes q rc } := by
  refine ⟨ranked_addCtxt hr.ranked _ _, by rw [size_addCtxt]; exact hr.size, ?_, ?_, ?_, hr.rclNew⟩
  · intro x hx
    show (ndOf (addCtxt st.nodes q rc) x).sibling = _
    rw [sibling_addCtxt _ _ _ (Nat.lt_of_lt_of_le hx hr.size)]; exact hr.sibOld x hx
  · intro x hx
    show (ndOf (addCtxt st.nodes q rc) x).succ = _
    rw [succ_addCtxt _ _ _ (Nat.lt_of_lt_of_le hx hr.size)]; exact hr.succOld x hx
  · intro x hx hlt y hy
    have hlt' : x < st.nodes.size := by simpa [size_addCtxt] using hlt
    have hy' : (ndOf (addCtxt st.nodes q rc) x).sibling = some y := hy
    rw [sibling_addCtxt _ _ _ hlt'] at hy'
    exact hr.sibNew x hx hlt' y hy'

theorem leafStep_ranked {g : Fsg} {li : LexIn} {s lid ci lc p : Nat} {logp : Int} {a0 : Array PNode} (st : RcSt) (rc : Nat)
    (h : RcInv g s a0 st) (hr : RcR a0 st) : RcR a0 (leafStep li s lid ci lc p logp st rc) := by
  unfold leafStep
  split
  · exact hr.ctxt _ rc
  · have hp : RcR a0 (RcSt.mk (st.nodes.push (leafNode li s lid ci lc p logp st.rcl.head? rc)) (st.nodes.size :: st.rcl)
        ((li.rcMap ci lc rc, st.nodes.size) :: st.rmap)) := by
      refine ⟨ranked_push hr.ranked h.inv (fun q hq => (h.rcl q (head?_mem hq)).1), ?_, ?_, ?_, ?_, ?_⟩
      · show a0.size ≤ (st.nodes.push _).size
        rw [Array.size_push]; have := hr.size; omega
      · intro x hx
        show (ndOf (st.nodes.push _) x).sibling = _
        rw [ndOf_push_lt _ _ (Nat.lt_of_lt_of_le hx hr.size)]; exact hr.sibOld x hx
      · intro x hx
        show (ndOf (st.nodes.push _) x).succ = _
        rw [ndOf_push_lt _ _ (Nat.lt_of_lt_of_le hx hr.size)]; exact hr.succOld x hx
      · intro x hx hlt y hy
        have hlt' : x < st.nodes.size + 1 := by simpa [Array.size_push] using hlt
        have hy' : (ndOf (st.nodes.push (leafNode li s lid ci lc p logp st.rcl.head? rc)) x).sibling = some y := hy
        by_cases hxs : x < st.nodes.size
        · rw [ndOf_push_lt _ _ hxs] at hy'
          exact hr.sibNew x hx hxs y hy'
        · have : x = st.nodes.size := by omega
          subst this
          rw [ndOf_push_eq] at hy'
          exact hr.rclNew y (head?_mem hy')
      · intro x hx
        rcases List.mem_cons.1 hx with h1 | h1
        · rw [h1]; exact hr.size
        · exact hr.rclNew x h1
    exact hp.ctxt _ rc

/-! ### hooking the new leaves keeps the array ranked -/

theorem attach_end_ranked {a : Array PNode} {g0 c : Nat} {head : Option Nat} (hr : Ranked a) (hc : c < g0)
    (hold : ∀ x, x < g0 → ∀ y, (ndOf a x).sibling = some y → y < g0)
    (hnew : ∀ x, g0 ≤ x → x < a.size → ∀ y, (ndOf a x).sibling = some y → g0 ≤ y)
    (hh : ∀ y, head = some y → g0 ≤ y) : Ranked (setSibling a (lastOf a a.size c) head) :=
  ranked_setSibling hr (lastOf_old a g0 hold a.size c hc) (fun x hx _ => hold x hx) hnew hh

theorem attachOne_ranked {a : Array PNode} {g0 pred : Nat} {head : Option Nat} (hr : Ranked a)
    (hold : ∀ x, x < g0 → ∀ y, (ndOf a x).sibling = some y → y < g0)
    (hnew : ∀ x, g0 ≤ x → x < a.size → ∀ y, (ndOf a x).sibling = some y → g0 ≤ y)
    (hsucc : ∀ c, (ndOf a pred).succ = some c → c < g0)
    (hh : ∀ y, head = some y → g0 ≤ y) : Ranked (attachOne a pred head) := by
  unfold attachOne
  split
  · exact ranked_setSucc hr _ _
  · rename_i c hc
    exact attach_end_ranked hr (hsucc c hc) hold hnew hh

theorem attachRoots_ranked {g0 : Nat} {head : Option Nat} (hh : ∀ y, head = some y → g0 ≤ y) :
    ∀ (l : List Nat) (a : Array PNode), Ranked a → g0 ≤ a.size → l.Nodup →
    (∀ x, x < g0 → ∀ y, (ndOf a x).sibling = some y → y < g0) →
    (∀ x, g0 ≤ x → x < a.size → ∀ y, (ndOf a x).sibling = some y → g0 ≤ y) →
    (∀ x ∈ l, x < g0 ∧ ∀ c, (ndOf a x).succ = some c → c < g0) →
    Ranked (attachRoots a head l) := by
  intro l
  induction l with
  | nil => intro a hr _ _ _ _ _; exact hr
  | cons r rest ih =>
    intro a hr hg hnd hold hnew hl
    have hrr := hl r (List.mem_cons_self ..)
    simp only [attachRoots]
    split
    · have hnd' := List.nodup_cons.1 hnd
      refine ih _ (ranked_setSucc hr _ _) (by rw [size_setSucc]; exact hg) hnd'.2 ?_ ?_ ?_
      · intro x hx y hy
        rw [sibling_setSucc _ _ _ (Nat.lt_of_lt_of_le hx hg)] at hy
        exact hold x hx y hy
      · intro x hx hlt y hy
        have hlt' : x < a.size := by simpa [size_setSucc] using hlt
        rw [sibling_setSucc _ _ _ hlt'] at hy
        exact hnew x hx hlt' y hy
      · intro x hx
        have hxl := hl x (List.mem_cons_of_mem _ hx)
        refine ⟨hxl.1, fun c hc => ?_⟩
        have hne : r ≠ x := fun h0 => hnd'.1 (h0 ▸ hx)
        unfold setSucc at hc
        rw [ndOf_modify a r _ (Nat.lt_of_lt_of_le hxl.1 hg)] at hc
        simp only [hne, if_false] at hc
        exact hxl.2 c hc
    · rename_i c hc
      exact attach_end_ranked hr (hrr.2 c hc) hold hnew hh

/-! ### the phones `p ≥ 1`, one arc, one state, the whole lextree -/

theorem phoneStep_ranked {g : Fsg} {li : LexIn} {s lid : Nat} {w : WordInfo} {logp : Int} {rclist lcl : List Nat}
    {a0 : Array PNode} (hl : lid < g.links.size ∧ (g.link lid).src = s ∧ 0 ≤ (g.link lid).wid)
    (hlcl : ∀ x ∈ lcl, Valid a0 s x) (hnd : lcl.Nodup) (st : PhSt) (p : Nat) (h : PhInv g s a0 st)
    (hr : Ranked st.nodes) : Ranked (phoneStep li s lid w logp rclist lcl st p).nodes := by
  have hlcl' : ∀ x ∈ lcl, Valid st.nodes s x := fun x hx => (hlcl x hx).ext h.ext
  unfold phoneStep
  simp only
  split
  · have hhead : ∀ q, (ndOf st.nodes st.pred).succ = some q → q < st.nodes.size :=
      fun q hq => h.inv.succClosed h.pred.1 hq
    split
    · exact hr
    · have hp := ranked_push (n := internalNode li s (w.pron.getD p 0) p w.dictWid (ndOf st.nodes st.pred).succ) hr h.inv hhead
      split
      · exact ranked_setSuccAll _ lcl _ hp
      · exact ranked_setSucc hp _ _
  · have hrr : RcInv g s st.nodes (rclist.foldl (leafStep li s lid (w.pron.getD p 0) (w.pron.getD (p - 1) 0) p logp)
          { nodes := st.nodes }) ∧
        RcR st.nodes (rclist.foldl (leafStep li s lid (w.pron.getD p 0) (w.pron.getD (p - 1) 0) p logp) { nodes := st.nodes }) :=
      foldl_inv (fun st' => RcInv g s st.nodes st' ∧ RcR st.nodes st') _ rclist _
        ⟨⟨h.inv, Ext.refl _, nil_all, nil_all⟩,
         ⟨hr, Nat.le_refl _, fun _ _ => rfl, fun _ _ => rfl,
          fun x h1 h2 => absurd h2 (Nat.not_lt.2 h1), nil_all⟩⟩
        (fun st' rc _ h' => ⟨leafStep_inv hl st' rc h'.1, leafStep_ranked st' rc h'.1 h'.2⟩)
    obtain ⟨_, hR⟩ := hrr
    have hold : ∀ x, x < st.nodes.size → ∀ y, (ndOf (rclist.foldl (leafStep li s lid (w.pron.getD p 0)
        (w.pron.getD (p - 1) 0) p logp) { nodes := st.nodes }).nodes x).sibling = some y → y < st.nodes.size := by
      intro x hx y hy
      rw [hR.sibOld x hx] at hy
      exact h.inv.sibClosed hx hy
    have hh : ∀ y, (rclist.foldl (leafStep li s lid (w.pron.getD p 0) (w.pron.getD (p - 1) 0) p logp)
        { nodes := st.nodes }).rcl.head? = some y → st.nodes.size ≤ y := fun y hy => hR.rclNew y (head?_mem hy)
    have hsucc : ∀ x, x < st.nodes.size → ∀ c, (ndOf (rclist.foldl (leafStep li s lid (w.pron.getD p 0)
        (w.pron.getD (p - 1) 0) p logp) { nodes := st.nodes }).nodes x).succ = some c → c < st.nodes.size := by
      intro x hx c hc
      rw [hR.succOld x hx] at hc
      exact h.inv.succClosed hx hc
    split
    · exact attachRoots_ranked hh lcl _ hR.ranked hR.size hnd hold hR.sibNew
        (fun x hx => ⟨(hlcl' x hx).1, hsucc x (hlcl' x hx).1⟩)
    · exact attachOne_ranked hR.ranked hold hR.sibNew (hsucc st.pred h.pred.1) hh

/-- what `psubtree_add_trans` maintains in addition -/
structure WR (w : Bld) : Prop where
  ranked : Ranked w.nodes
  nodup : ∀ e ∈ w.glists, e.list.Nodup

theorem addTrans_ranked {g : Fsg} {li : LexIn} {s : Nat} {lclist rclist : List Nat} {a0 : Array PNode} (hlc : lclist ≠ [])
    (w0 : Bld) (lid : Nat) (hl : lid < g.links.size ∧ (g.link lid).src = s ∧ 0 ≤ (g.link lid).wid)
    (h : WInv g s a0 w0) (hr : WR w0) : WR (addTrans li g s lclist rclist w0 lid) := by
  unfold addTrans
  simp only
  split
  · split
    · have hf := foldl_inv (fun st => LcInv g s w0.nodes st ∧ LcR st)
          (singleStep li s lid ((li.word (g.link lid).wid.toNat).pron.headD 0) (g.link lid).logp) lclist
          { nodes := w0.nodes, root := w0.root, lcl := [] }
          ⟨⟨h.inv, Ext.refl _, h.root, nil_all, nil_all⟩, ⟨hr.ranked, List.nodup_nil⟩⟩
          (fun st lc _ h' => ⟨singleStep_inv hl st lc h'.1, singleStep_ranked st lc h'.1 h'.2⟩)
      exact ⟨hf.2.ranked, hr.nodup⟩
    · exact ⟨ranked_push hr.ranked h.inv (fun q hq => (h.root q hq).1), hr.nodup⟩
  · have hfresh : ∀ ci rc, (LcInv g s w0.nodes (lclist.foldl (rootStep li s ci rc) { nodes := w0.nodes, root := w0.root, lcl := [] }) ∧
        LcR (lclist.foldl (rootStep li s ci rc) { nodes := w0.nodes, root := w0.root, lcl := [] })) ∧
        (lclist.foldl (rootStep li s ci rc) { nodes := w0.nodes, root := w0.root, lcl := [] }).root.isSome = true := by
      intro ci rc
      refine ⟨foldl_inv (fun st => LcInv g s w0.nodes st ∧ LcR st) _ lclist _
        ⟨⟨h.inv, Ext.refl _, h.root, nil_all, nil_all⟩, ⟨hr.ranked, List.nodup_nil⟩⟩
        (fun st lc _ h' => ⟨rootStep_inv st lc h'.1, rootStep_ranked st lc h'.1 h'.2⟩), ?_⟩
      cases lclist with
      | nil => exact absurd rfl hlc
      | cons x rest =>
        simp only [List.foldl_cons]
        exact (rootFold_root li s ci rc rest _ (rootStep_root li s ci rc _ x (Or.inl rfl))).2
    have key : ∀ (w1 : Bld) (lcl : List Nat) (pred : Nat), WInv g s a0 w1 → (∀ x ∈ lcl, Valid w1.nodes s x) → lcl.Nodup →
        Valid w1.nodes s pred → Ranked w1.nodes →
        Ranked (((List.range (li.word (g.link lid).wid.toNat).pron.length).drop 1).foldl
          (phoneStep li s lid (li.word (g.link lid).wid.toNat) (g.link lid).logp rclist lcl) { nodes := w1.nodes, pred }).nodes := by
      intro w1 lcl pred h1 hlcl hnd hpred hrk
      exact (foldl_inv (fun st => PhInv g s w1.nodes st ∧ Ranked st.nodes) _ _ _ ⟨⟨h1.inv, Ext.refl _, hpred⟩, hrk⟩
        (fun st p _ h' => ⟨phoneStep_inv hl hlcl st p h'.1, phoneStep_ranked hl hlcl hnd st p h'.1 h'.2⟩)).2
    split
    · rename_i i e hf
      have hmem := findG_mem _ _ _ _ _ _ hf
      split
      · rename_i hne
        refine ⟨key w0 e.list (e.list.headD 0) h (fun x hx => h.glists e hmem x hx) (hr.nodup e hmem) ?_ hr.ranked, hr.nodup⟩
        cases hel : e.list with
        | nil => rw [hel] at hne; simp at hne
        | cons y ys => exact h.glists e hmem y (by rw [hel]; exact List.mem_cons_self ..)
      · obtain ⟨⟨hI, hR⟩, hsome⟩ := hfresh ((li.word (g.link lid).wid.toNat).pron.headD 0) ((li.word (g.link lid).wid.toNat).pron.getD 1 0)
        refine ⟨key _ _ _ ⟨hI.inv, h.ext.trans hI.ext, hI.root, ?_⟩ hI.lcl hR.nodup ?_ hR.ranked, ?_⟩
        · intro e' he' x hx
          rcases List.mem_or_eq_of_mem_set he' with h1 | h1
          · exact (h.glists e' h1 x hx).ext hI.ext
          · rw [h1] at hx; exact hI.lcl x hx
        · cases hroot : (lclist.foldl (rootStep li s ((li.word (g.link lid).wid.toNat).pron.headD 0)
              ((li.word (g.link lid).wid.toNat).pron.getD 1 0)) { nodes := w0.nodes, root := w0.root, lcl := [] }).root with
          | none => rw [hroot] at hsome; cases hsome
          | some r => exact hI.root r hroot
        · intro e' he'
          rcases List.mem_or_eq_of_mem_set he' with h1 | h1
          · exact hr.nodup e' h1
          · rw [h1]; exact hR.nodup
    · obtain ⟨⟨hI, hR⟩, hsome⟩ := hfresh ((li.word (g.link lid).wid.toNat).pron.headD 0) ((li.word (g.link lid).wid.toNat).pron.getD 1 0)
      refine ⟨key _ _ _ ⟨hI.inv, h.ext.trans hI.ext, hI.root, ?_⟩ hI.lcl hR.nodup ?_ hR.ranked, ?_⟩
      · intro e' he' x hx
        rcases List.mem_cons.1 he' with h1 | h1
        · rw [h1] at hx; exact hI.lcl x hx
        · exact (h.glists e' h1 x hx).ext hI.ext
      · cases hroot : (lclist.foldl (rootStep li s ((li.word (g.link lid).wid.toNat).pron.headD 0)
            ((li.word (g.link lid).wid.toNat).pron.getD 1 0)) { nodes := w0.nodes, root := w0.root, lcl := [] }).root with
        | none => rw [hroot] at hsome; cases hsome
        | some r => exact hI.root r hroot
      · intro e' he'
        rcases List.mem_cons.1 he' with h1 | h1
        · rw [h1]; exact hR.nodup
        · exact hr.nodup e' h1

theorem buildState_ranked {g : Fsg} {li : LexIn} {lcs rcs : Array Nat} {nodes : Array PNode} {s : Nat}
    (hlc : ctxList li (lcs.getD s 0) ≠ []) (inv : GInv g nodes) (hr : Ranked nodes) :
    Ranked (buildState li g lcs rcs nodes s).1 := by
  have h := foldl_inv (fun w => WInv g s nodes w ∧ WR w)
      (fun w lid => addTrans li g s (ctxList li (lcs.getD s 0)) (ctxList li (rcs.getD (g.link lid).dst 0)) w lid)
      ((arcsOf g s).filter fun lid => 0 ≤ (g.link lid).wid) { nodes := nodes }
      ⟨⟨inv, Ext.refl _, ovalid_none _ _, nil_all⟩, ⟨hr, nil_all⟩⟩
      (fun w lid hm hw => by
        have h1 := List.mem_filter.1 hm
        have h2 := List.mem_filter.1 h1.1
        have hl : lid < g.links.size ∧ (g.link lid).src = s ∧ 0 ≤ (g.link lid).wid :=
          ⟨List.mem_range.1 h2.1, by simpa using h2.2, by simpa using h1.2⟩
        exact ⟨addTrans_inv hlc w lid hl hw.1, addTrans_ranked hlc w lid hl hw.1 hw.2⟩)
  exact h.2.ranked

theorem buildFold_ranked (li : LexIn) (g : Fsg) (hsil : li.sil < li.nCi) : ∀ n, n ≤ li.nState →
    Ranked ((List.range n).foldl (buildStep li g) (#[], #[])).1 := by
  intro n
  induction n with
  | zero => intro _; exact ranked_empty
  | succ n ih =>
    intro hn
    have hi := (buildFold_inv li g hsil n (by omega)).1
    have hr := ih (by omega)
    rw [List.range_succ, List.foldl_append]
    simp only [List.foldl_cons, List.foldl_nil]
    exact buildState_ranked (li := li) (rcs := (ctxFlags li g).2) (ctxList_ne_nil li g hsil (by omega : n < li.nState)) hi hr

/-! ### the chains of the built lextree end -/

theorem chainEnds_eq (lt : LexTree) : ∀ (k : Nat) (o : Option Nat), lt.chainEnds k o = chainEndsA lt.nodes k o := by
  intro k
  induction k with
  | zero => intro o; cases o <;> rfl
  | succ k ih =>
    intro o
    cases o with
    | none => rfl
    | some p => simp only [LexTree.chainEnds, chainEndsA]; exact ih _

/-- **every sibling chain the search follows in the built lextree ends**: the root chain of every state and the
child chain of every non-leaf pnode reach NULL within the number of pnodes -/
theorem build_chainsEnd (li : LexIn) (g : Fsg) (hsil : li.sil < li.nCi) : (buildLexTree li g).chainsEndB = true := by
  obtain ⟨hi, hsz, hroots⟩ := buildFold_inv li g hsil li.nState (Nat.le_refl _)
  have hr := buildFold_ranked li g hsil li.nState (Nat.le_refl _)
  have hend : ∀ o : Option Nat, (∀ x, o = some x → x < (buildLexTree li g).nodes.size) →
      (buildLexTree li g).chainEnds (buildLexTree li g).nodes.size o = true := by
    intro o ho
    rw [chainEnds_eq]
    cases o with
    | none => exact chainEndsA_none _ _
    | some p => exact ranked_ends (g := g) hi hr (ho p rfl)
  unfold LexTree.chainsEndB
  simp only [Bool.and_eq_true, List.all_eq_true, List.mem_range, Bool.or_eq_true]
  refine ⟨fun d hd => hend _ (fun x hx => ?_), fun p hp => ?_⟩
  · have hd' : d < li.nState := by
      have : (buildLexTree li g).root.size = li.nState := hsz
      omega
    exact (hroots d hd' x hx).1
  · by_cases hl : ((buildLexTree li g).node p).leaf = true
    · exact Or.inl hl
    · exact Or.inr (hend _ (fun x hx => hi.succClosed hp hx))

end SSVerif.Search
