import SSVerif.Model.HashTable
/-!
Helper lemmas for C20: bucket-level behaviour of `findB`/`insertB`/`replaceFirst`/`eraseB`,
the table invariant and its preservation.
-/
namespace SSVerif.HashTable

/-- what the proofs need of a mode: the comparison is an equivalence that the hash respects -/
structure Lawful (P : Params) (size : Nat) : Prop where
  refl : ∀ a, P.keq a a = true
  symm : ∀ a b, P.keq a b = true → P.keq b a = true
  trans : ∀ a b c, P.keq a b = true → P.keq b c = true → P.keq a c = true
  hash_compat : ∀ a b, P.keq a b = true → P.hashf a = P.hashf b
  hash_lt : ∀ a, P.hashf a < size

variable {P : Params} {size : Nat}

theorem Lawful.keq_false_of {a b c : Key} (L : Lawful P size) (h1 : P.keq a b = true)
    (h2 : P.keq a c = false) : P.keq b c = false := by
  cases h : P.keq b c with
  | false => rfl
  | true => rw [L.trans a b c h1 h] at h2; cases h2

/-- no two entries of a bucket have equal keys -/
def NoDup (P : Params) (b : List Entry) : Prop := b.Pairwise (fun x y => P.keq x.key y.key = false)

theorem findB_none_iff {b : List Entry} {k : Key} :
    findB P b k = none ↔ ∀ e ∈ b, P.keq e.key k = false := by
  unfold findB
  rw [List.find?_eq_none]
  constructor <;> intro h e he <;> simpa using h e he

theorem findB_some_mem {b : List Entry} {k : Key} {e : Entry} (h : findB P b k = some e) :
    e ∈ b ∧ P.keq e.key k = true := by
  unfold findB at h
  exact ⟨List.mem_of_find?_eq_some h, by simpa using List.find?_some h⟩

theorem findB_cons_pos {x : Entry} {xs : List Entry} {k : Key} (h : P.keq x.key k = true) :
    findB P (x :: xs) k = some x := by
  simp [findB, List.find?, h]

theorem findB_cons_neg {x : Entry} {xs : List Entry} {k : Key} (h : P.keq x.key k = false) :
    findB P (x :: xs) k = findB P xs k := by
  simp [findB, List.find?, h]

theorem findB_nil {k : Key} : findB P [] k = none := rfl

/-- `a ≈ b` and `a ≉ c` give `b ≉ c`, in the argument orders the proofs need -/
theorem Lawful.ne_of_left (L : Lawful P size) {a b c : Key} (h1 : P.keq a b = true)
    (h2 : P.keq a c = false) : P.keq b c = false := L.keq_false_of h1 h2

theorem Lawful.ne_of_right (L : Lawful P size) {a b c : Key} (h1 : P.keq b c = true)
    (h2 : P.keq a c = false) : P.keq a b = false := by
  cases h : P.keq a b with
  | false => rfl
  | true => rw [L.trans a b c h h1] at h2; cases h2

theorem Lawful.ne_symm (L : Lawful P size) {a b : Key} (h : P.keq a b = false) : P.keq b a = false := by
  cases h2 : P.keq b a with
  | false => rfl
  | true => rw [L.symm _ _ h2] at h; cases h

/-! ### insertion -/

theorem findB_insertB (L : Lawful P size) {b : List Entry} {k : Key} (v : Int) (k' : Key)
    (hn : findB P b k = none) :
    (findB P (insertB k v b) k').map (·.val)
      = if P.keq k k' then some v else (findB P b k').map (·.val) := by
  cases b with
  | nil =>
    simp only [insertB]
    cases hk : P.keq k k' with
    | true => rw [findB_cons_pos (by exact hk)]; simp
    | false => rw [findB_cons_neg (by exact hk)]; simp
  | cons hd tl =>
    have hhd : P.keq hd.key k = false := (findB_none_iff.mp hn) hd (by simp)
    simp only [insertB]
    cases hk : P.keq k k' with
    | true =>
      have h1 : P.keq hd.key k' = false := L.ne_symm (L.ne_of_left hk (L.ne_symm hhd))
      rw [findB_cons_neg h1, findB_cons_pos (by exact hk)]; simp
    | false =>
      cases h : P.keq hd.key k' with
      | true => rw [findB_cons_pos h, findB_cons_pos h]; simp
      | false => rw [findB_cons_neg h, findB_cons_neg (by exact hk), findB_cons_neg h]; simp

theorem mem_insertB {b : List Entry} {k : Key} {v : Int} {e : Entry} :
    e ∈ insertB k v b ↔ e = ⟨k, v⟩ ∨ e ∈ b := by
  cases b with
  | nil => simp [insertB]
  | cons hd tl =>
    simp only [insertB, List.mem_cons]
    constructor
    · rintro (h | h | h)
      · exact .inr (.inl h)
      · exact .inl h
      · exact .inr (.inr h)
    · rintro (h | h | h)
      · exact .inr (.inl h)
      · exact .inl h
      · exact .inr (.inr h)

theorem noDup_insertB (L : Lawful P size) {b : List Entry} {k : Key} (v : Int)
    (hn : findB P b k = none) (hd : NoDup P b) : NoDup P (insertB k v b) := by
  have hnone := findB_none_iff.mp hn
  cases b with
  | nil => simp [insertB, NoDup]
  | cons x tl =>
    unfold NoDup at *
    simp only [insertB]
    rw [List.pairwise_cons] at hd ⊢
    refine ⟨?_, ?_⟩
    · intro y hy
      rcases List.mem_cons.mp hy with rfl | hy
      · exact hnone x (by simp)
      · exact hd.1 y hy
    · rw [List.pairwise_cons]
      refine ⟨?_, hd.2⟩
      intro y hy
      exact L.ne_symm (hnone y (by simp [hy]))

theorem length_insertB (b : List Entry) (k : Key) (v : Int) : (insertB k v b).length = b.length + 1 := by
  cases b <;> simp [insertB]

/-! ### replacement -/

theorem findB_replaceFirst (L : Lawful P size) {b : List Entry} {k : Key} (v : Int) (k' : Key)
    {e : Entry} (hs : findB P b k = some e) :
    (findB P (replaceFirst P k v b) k').map (·.val)
      = if P.keq k k' then some v else (findB P b k').map (·.val) := by
  induction b with
  | nil => simp [findB] at hs
  | cons x xs ih =>
    cases hx : P.keq x.key k with
    | true =>
      have hr : replaceFirst P k v (x :: xs) = ⟨k, v⟩ :: xs := by simp [replaceFirst, hx]
      rw [hr]
      cases hk : P.keq k k' with
      | true => rw [findB_cons_pos (by exact hk)]; simp
      | false =>
        have h1 : P.keq x.key k' = false := L.ne_of_left (L.symm _ _ hx) hk
        rw [findB_cons_neg (by exact hk), findB_cons_neg h1]; simp
    | false =>
      have hr : replaceFirst P k v (x :: xs) = x :: replaceFirst P k v xs := by simp [replaceFirst, hx]
      rw [hr]
      have hs' : findB P xs k = some e := by rw [findB_cons_neg hx] at hs; exact hs
      have ih' := ih hs'
      cases h : P.keq x.key k' with
      | true =>
        have hk : P.keq k k' = false := L.ne_symm (L.ne_of_left h hx) |> fun t => L.ne_symm (L.ne_symm t)
        rw [findB_cons_pos h, findB_cons_pos h]; simp [hk]
      | false => rw [findB_cons_neg h, findB_cons_neg h]; exact ih'

theorem length_replaceFirst (b : List Entry) (k : Key) (v : Int) :
    (replaceFirst P k v b).length = b.length := by
  induction b with
  | nil => rfl
  | cons x xs ih => simp only [replaceFirst]; split <;> simp [ih]

theorem mem_replaceFirst {b : List Entry} {k : Key} {v : Int} {e : Entry}
    (h : e ∈ replaceFirst P k v b) : e = ⟨k, v⟩ ∨ e ∈ b := by
  induction b with
  | nil => simp [replaceFirst] at h
  | cons x xs ih =>
    simp only [replaceFirst] at h
    split at h
    · rcases List.mem_cons.mp h with h | h
      · exact .inl h
      · exact .inr (by simp [h])
    · rcases List.mem_cons.mp h with h | h
      · exact .inr (by simp [h])
      · rcases ih h with h | h
        · exact .inl h
        · exact .inr (by simp [h])

theorem noDup_replaceFirst (L : Lawful P size) {b : List Entry} {k : Key} (v : Int)
    (hd : NoDup P b) : NoDup P (replaceFirst P k v b) := by
  induction b with
  | nil => simp [replaceFirst, NoDup]
  | cons x xs ih =>
    unfold NoDup at *
    rw [List.pairwise_cons] at hd
    cases hx : P.keq x.key k with
    | true =>
      have hr : replaceFirst P k v (x :: xs) = ⟨k, v⟩ :: xs := by simp [replaceFirst, hx]
      rw [hr, List.pairwise_cons]
      refine ⟨?_, hd.2⟩
      intro y hy
      exact L.keq_false_of hx (hd.1 y hy)
    | false =>
      have hr : replaceFirst P k v (x :: xs) = x :: replaceFirst P k v xs := by simp [replaceFirst, hx]
      rw [hr, List.pairwise_cons]
      refine ⟨?_, ih hd.2⟩
      intro y hy
      rcases mem_replaceFirst hy with rfl | hy
      · exact hx
      · exact hd.1 y hy

/-! ### deletion -/

theorem mem_eraseB {b : List Entry} {k : Key} {e : Entry} (h : e ∈ eraseB P k b) : e ∈ b := by
  induction b with
  | nil => simp [eraseB] at h
  | cons x xs ih =>
    simp only [eraseB] at h
    split at h
    · simp [h]
    · rcases List.mem_cons.mp h with h | h
      · simp [h]
      · simp [ih h]

theorem noDup_eraseB {b : List Entry} {k : Key} (hd : NoDup P b) : NoDup P (eraseB P k b) := by
  induction b with
  | nil => simp [eraseB, NoDup]
  | cons x xs ih =>
    unfold NoDup at *
    rw [List.pairwise_cons] at hd
    simp only [eraseB]
    split
    · exact hd.2
    · rw [List.pairwise_cons]
      exact ⟨fun y hy => hd.1 y (mem_eraseB hy), ih hd.2⟩

theorem findB_eraseB (L : Lawful P size) {b : List Entry} {k : Key} (k' : Key)
    (hd : NoDup P b) :
    findB P (eraseB P k b) k' = if P.keq k k' then none else findB P b k' := by
  induction b with
  | nil => simp [eraseB, findB]
  | cons x xs ih =>
    unfold NoDup at hd
    rw [List.pairwise_cons] at hd
    cases hx : P.keq x.key k with
    | true =>
      have hr : eraseB P k (x :: xs) = xs := by simp [eraseB, hx]
      rw [hr]
      cases hk : P.keq k k' with
      | true =>
        simp only [if_true]
        rw [findB_none_iff]
        intro e he
        have hxk' : P.keq x.key k' = true := L.trans _ _ _ hx hk
        exact L.ne_symm (L.ne_of_left hxk' (hd.1 e he))
      | false =>
        have h1 : P.keq x.key k' = false := L.ne_of_left (L.symm _ _ hx) hk
        rw [findB_cons_neg h1]; simp
    | false =>
      have hr : eraseB P k (x :: xs) = x :: eraseB P k xs := by simp [eraseB, hx]
      rw [hr]
      have ih' := ih hd.2
      cases h : P.keq x.key k' with
      | true =>
        have hk : P.keq k k' = false := L.ne_symm (L.ne_symm (L.ne_symm (L.ne_of_left h hx)))
        rw [findB_cons_pos h, findB_cons_pos h]; simp [hk]
      | false => rw [findB_cons_neg h, findB_cons_neg h]; exact ih'

theorem length_eraseB {b : List Entry} {k : Key} {e : Entry} (hs : findB P b k = some e) :
    (eraseB P k b).length + 1 = b.length := by
  induction b with
  | nil => simp [findB] at hs
  | cons x xs ih =>
    cases hx : P.keq x.key k with
    | true => simp [eraseB, hx]
    | false =>
      have hs' : findB P xs k = some e := by rw [findB_cons_neg hx] at hs; exact hs
      simp [eraseB, hx, ih hs']

/-! ### table level -/

structure Inv (P : Params) (h : HT) : Prop where
  len : h.buckets.length = h.size
  home : ∀ i, ∀ e ∈ h.bucket i, P.hashf e.key = i
  nodup : ∀ i, NoDup P (h.bucket i)
  count : h.inuse = ((iter h).length : Int)

theorem bucket_set {h : HT} {i j : Nat} {b : List Entry} (hi : i < h.buckets.length) :
    ({ h with buckets := h.buckets.set i b } : HT).bucket j = if i = j then b else h.bucket j := by
  unfold HT.bucket
  simp only [List.getD_eq_getElem?_getD, List.getElem?_set]
  by_cases hij : i = j
  · subst hij; simp [hi]
  · simp [hij]

theorem sum_length_set (l : List (List Entry)) (i : Nat) (b : List Entry) (hi : i < l.length) :
    ((l.set i b).flatten.length : Int) = (l.flatten.length : Int) - ((l.getD i []).length : Int) + b.length := by
  induction l generalizing i with
  | nil => simp at hi
  | cons x xs ih =>
    cases i with
    | zero => simp; omega
    | succ i =>
      have := ih i (by simpa using hi)
      simp only [List.set_cons_succ, List.flatten_cons, List.length_append, List.getD_cons_succ] at this ⊢
      omega

theorem bucket_new (size i : Nat) : (HT.new size).bucket i = [] := by
  unfold HT.bucket HT.new
  simp only [List.getD_eq_getElem?_getD, List.getElem?_replicate]
  split <;> rfl

theorem flatten_replicate_nil (n : Nat) : (List.replicate n ([] : List Entry)).flatten = [] := by
  induction n with
  | zero => rfl
  | succ n ih => simp [List.replicate_succ, ih]

theorem inv_new (size : Nat) : Inv P (HT.new size) where
  len := by simp [HT.new]
  home := by intro i e he; rw [bucket_new] at he; cases he
  nodup := by intro i; rw [bucket_new]; exact List.Pairwise.nil
  count := by simp [iter, HT.new]

theorem inv_empty {h : HT} : Inv P (empty h) := inv_new h.size

end SSVerif.HashTable
