import SSVerif.Model.Json
set_option linter.unusedSimpArgs false
/-! helper lemmas for C14: stores into a block that is "written prefix ++ zeros" -/
namespace SSVerif.Json

/-- the block consists of the bytes written so far followed by `k` untouched (zero) bytes, and nothing went wrong -/
def At (m : Mem) (pre : Bytes) (k : Nat) : Prop := m = ⟨pre ++ List.replicate k 0, true⟩

theorem replicate_pos {k : Nat} (h : 0 < k) : List.replicate k (0 : UInt8) = 0 :: List.replicate (k - 1) 0 := by
  cases k with
  | zero => omega
  | succ n => simp [List.replicate_succ]

theorem store_spec {m : Mem} {pre : Bytes} {k : Nat} {p : Int} (b : UInt8)
    (h : At m pre k) (hp : p = pre.length) (hk : 0 < k) : At (m.store p b) (pre ++ [b]) (k - 1) := by
  subst hp; subst h
  unfold Mem.store At
  have h1 : (0 : Int) ≤ (pre.length : Int) ∧ (pre.length : Int) < ((pre ++ List.replicate k (0 : UInt8)).length : Int) := by
    refine ⟨by omega, ?_⟩
    simp only [List.length_append, List.length_replicate]; omega
  rw [if_pos h1]
  simp only [Int.toNat_natCast, List.set_append, Nat.lt_irrefl, if_false, Nat.sub_self]
  rw [replicate_pos hk]
  simp

theorem store_nul {m : Mem} {pre : Bytes} {k : Nat} {p : Int}
    (h : At m pre k) (hp : p = pre.length) (hk : 0 < k) : m.store p 0 = m := by
  have := store_spec 0 h hp hk
  unfold At at this h
  rw [this, h]
  rw [replicate_pos hk]
  simp

theorem store_last {m : Mem} {pre : Bytes} {c : UInt8} {k : Nat} {p : Int} (b : UInt8)
    (h : At m (pre ++ [c]) k) (hp : p = pre.length) : At (m.store p b) (pre ++ [b]) k := by
  subst hp; subst h
  unfold Mem.store At
  have h1 : (0 : Int) ≤ (pre.length : Int) ∧ (pre.length : Int) < ((pre ++ [c] ++ List.replicate k (0 : UInt8)).length : Int) := by
    refine ⟨by omega, ?_⟩
    simp only [List.length_append, List.length_replicate, List.length_cons, List.length_nil]; omega
  rw [if_pos h1]
  simp [List.set_append]

theorem storeList_spec {m : Mem} {pre : Bytes} {k : Nat} {p : Int} (bs : Bytes)
    (h : At m pre k) (hp : p = pre.length) (hk : bs.length ≤ k) :
    At (m.storeList p bs) (pre ++ bs) (k - bs.length) := by
  induction bs generalizing m pre k p with
  | nil => simpa [Mem.storeList] using h
  | cons b t ih =>
    simp only [Mem.storeList]
    simp only [List.length_cons] at hk
    have h1 := store_spec b h hp (by omega)
    have := ih (p := p + 1) h1 (by simp [hp]) (by omega)
    simpa [Nat.sub_sub, Nat.add_comm] using this

theorem At.ok {m : Mem} {pre : Bytes} {k : Nat} (h : At m pre k) : m.ok = true := by subst h; rfl

theorem assert_true (m : Mem) {c : Bool} (h : c = true) : m.assert c = m := by simp [Mem.assert, h]

/-- the writing call of `snprintf`: room for the text and its NUL, size argument larger than the text -/
theorem snprintf_write {m : Mem} {pre : Bytes} {k : Nat} {p n : Int} (text : Bytes) (cnt : Nat)
    (h : At m pre k) (hp : p = pre.length) (hn : (text.length : Int) < n) (hk : text.length < k) :
    (snprintf m (some p) n text cnt).1 = (cnt : Int) ∧ At (snprintf m (some p) n text cnt).2 (pre ++ text) (k - text.length) := by
  unfold snprintf
  have h0 : ¬ n = 0 := by omega
  have h1 : ¬ n < 0 := by omega
  simp only [h0, h1, if_false]
  refine ⟨trivial, ?_⟩
  have ht : text.take (n.toNat - 1) = text := by
    apply List.take_of_length_le; omega
  rw [ht]
  have h2 := storeList_spec (text ++ [0]) h hp (by simp; omega)
  unfold At at h2 ⊢
  rw [h2]
  have : k - (text ++ [0]).length + 1 = k - text.length := by simp; omega
  rw [← this, List.replicate_succ]
  simp

/-- the dry call `snprintf(NULL, 0, …)` -/
theorem snprintf_dry (m : Mem) (text : Bytes) (cnt : Nat) : snprintf m none 0 text cnt = ((cnt : Int), m) := by
  simp [snprintf]

end SSVerif.Json
