import SSVerif.Proofs.LatticeChainDefs
import SSVerif.Proofs.LatticeBuildShape
import SSVerif.Proofs.LatticeBuildEnds
import SSVerif.Proofs.LatticeBuildReach
import SSVerif.Proofs.LatticeBuildPrune
import SSVerif.Proofs.LatticeGraph
/-! A chain of linked word nodes that starts in frame 0 and ends in the last exit frame survives start/end
selection and pruning: it is a start→end path of the lattice with exactly its segmentation as instance sequence. -/
namespace SSVerif.Lattice
open SSVerif.Nfa
namespace ChainPath
open BuildPrune BuildEnds

theorem instances_cons (L : Lat) (u : Nat) (l : Link) (ls : List Link) :
    instances L u (l :: ls) =
      (if (L.node u).real then
        [⟨(L.node u).word, (L.node u).sf, if (L.node l.dst).real then l.ef else (L.node u).lef⟩]
       else []) ++ instances L l.dst ls := rfl

theorem instances_nil (L : Lat) (u : Nat) :
    instances L u [] = if (L.node u).real then [⟨(L.node u).word, (L.node u).sf, (L.node u).lef⟩] else [] := rfl

section
variable {G : Nfa} {frame wS wE : Nat} {b0 : Build} {R : BuildResult} {lastEf : Int} {sc ec : List Nat} {b1 : Build}
  {sc' : Nat → Int} {isFiller : Nat → Bool} {silWord : Nat} {silpen fillpen : Int}

local notation "KP" => markReachable R.b R.final
local notation "LL" => pruneWith (markReachable R.b R.final) R.b R.start R.final frame isFiller silWord silpen fillpen
local notation "ix" => List.idxOf (l := order (markReachable R.b R.final) R.b)

theorem old_order (F : Facts frame wS wE b0 R lastEf sc ec sc') {v : Nat} (hv : v < b0.nodes.size) (hk : v ∈ KP) :
    v ∈ order KP R.b := mem_order.2 ⟨Nat.lt_of_lt_of_le hv F.szLe, hk⟩

/-- the sub-chain starting at `v1` (entered by a link, or starting in frame 0) is a path to the end node -/
theorem chain_path (hm : MidOK G frame b0) (hs : EndsShape b0 frame wS wE R lastEf sc ec b1)
    (F : Facts frame wS wE b0 R lastEf sc ec sc') (hp : PreOK G frame R.b R.start R.final)
    (hk : KeepSpec R.b R.final KP) :
    ∀ (vs : List Nat) (segs : List Seg), ChainMid b0 vs segs → ∀ v1, vs.head? = some v1 →
      ((∃ l ∈ R.b.links.toList, l.dst = v1) ∨ (b0.node v1).sf = 0) →
      v1 < b0.nodes.size ∧ v1 ∈ KP ∧
      ∃ ls, Path (LL) ((order KP R.b).idxOf v1) ls ((order KP R.b).idxOf R.final) ∧
        instances (LL) ((order KP R.b).idxOf v1) ls = segs := by
  intro vs
  induction vs with
  | nil => intro segs hch; simp [ChainMid] at hch
  | cons v rest ih =>
    intro segs hch v1 hv1 hin
    simp only [List.head?_cons, Option.some.injEq] at hv1
    subst hv1
    cases rest with
    | nil =>
      -- the last node of the chain
      cases segs with
      | nil => simp [ChainMid] at hch
      | cons s ss =>
        cases ss with
        | cons _ _ => simp [ChainMid] at hch
        | nil =>
          simp only [ChainMid] at hch
          obtain ⟨hv, hw, hsf, hlef, hdom⟩ := hch
          obtain ⟨hub, u, hu, hlu⟩ := lastEf_dom hm hs F
          have h1 := hdom u hu
          have h2 := hub v hv
          have hlast : ((b0.node v).lef : Int) = lastEf := by omega
          have hec : v ∈ ec := by
            apply F.ecIn v hv hlast
            rcases hin with h | h
            · exact Or.inl h
            · have hc : v ∈ sc := (hs.scMem v).2 ⟨hv, h, Or.inr hlast⟩
              by_cases hS : R.start < b0.nodes.size
              · exact Or.inr ((sc_start F hc).1 hS)
              · exact Or.inl ⟨_, (sc_start F hc).2 (by omega), rfl⟩
          have hnode : v ∈ KP → (LL).node ((order KP R.b).idxOf v) = conv (b0.node v) := by
            intro hvk
            rw [node_idx (old_order F hv hvk), F.old v hv]
          have hreal : (b0.node v).state.isSome = true := by rw [← F.old v hv]; exact realOld hm F hv
          by_cases hf : R.final < b0.nodes.size
          · -- the chain ends in the (real) end node
            have hvf : v = R.final := by
              rcases final_real hs hf with h | h
              · rw [h] at hec; simpa using hec
              · rw [h] at hec; cases hec
            have hvk : v ∈ KP := hvf ▸ hk.final
            refine ⟨hv, hvk, [], ?_, ?_⟩
            · rw [hvf]; exact .nil _
            · rw [instances_nil, hnode hvk]
              simp only [conv_real, hreal, if_true]
              show [(⟨(b0.node v).word, (b0.node v).sf, (b0.node v).lef⟩ : Seg)] = [s]
              rw [hw, hsf, hlef]
          · -- the chain is linked to the synthetic end
            have hF : b0.nodes.size ≤ R.final := by omega
            have hl : (⟨v, R.final, frame, sc' v⟩ : BLink) ∈ R.b.links.toList :=
              (F.links _).2 (Or.inr (Or.inr ⟨hF, v, hec, rfl⟩))
            have hvk : v ∈ KP := hk.closed _ hl hk.final
            have hl' := mem_links_of (isFiller := isFiller) (silWord := silWord) (silpen := silpen) (fillpen := fillpen)
              hp hk hl hk.final
            refine ⟨hv, hvk, [_], .cons hl' rfl (.nil _), ?_⟩
            rw [instances_cons, instances_nil, hnode hvk]
            have hfo := f_order hp hk
            simp only [node_idx hfo, conv_real, synF F hF, hreal, if_true, Bool.false_eq_true, if_false,
              List.append_nil]
            show [(⟨(b0.node v).word, (b0.node v).sf, (b0.node v).lef⟩ : Seg)] = [s]
            rw [hw, hsf, hlef]
    | cons v' vs' =>
      cases segs with
      | nil => simp [ChainMid] at hch
      | cons s ss =>
        simp only [ChainMid] at hch
        obtain ⟨hv, hw, hsf, ⟨l, hl, hls, hld⟩, hnext, hrest⟩ := hch
        have hlB : l ∈ R.b.links.toList := (F.links l).2 (Or.inl hl)
        obtain ⟨hv', hv'k, ls, hpath, hinst⟩ := ih ss hrest v' rfl (Or.inl ⟨l, hlB, hld⟩)
        have hvk : v ∈ KP := hls ▸ hk.closed l hlB (hld ▸ hv'k)
        have hl' := mem_links_of (isFiller := isFiller) (silWord := silWord) (silpen := silpen) (fillpen := fillpen)
          hp hk hlB (hld ▸ hv'k)
        have hreal : (b0.node v).state.isSome = true := by rw [← F.old v hv]; exact realOld hm F hv
        have hreal' : (b0.node v').state.isSome = true := by rw [← F.old v' hv']; exact realOld hm F hv'
        have hef : l.ef = s.ef := by
          have := (hm.link l hl).2.2.2.2.2.1
          rw [hld] at this; omega
        refine ⟨hv, hvk, _ :: ls, .cons hl' (by simp only [hls]) (by simp only [hld]; exact hpath), ?_⟩
        rw [instances_cons]
        simp only [hld, node_idx (old_order F hv hvk), node_idx (old_order F hv' hv'k), F.old v hv, F.old v' hv',
          conv_real, hreal, hreal', if_true, hinst, hef]
        show [(⟨(b0.node v).word, (b0.node v).sf, s.ef⟩ : Seg)] ++ ss = s :: ss
        rw [hw, hsf]
        rfl

end
end ChainPath

/-- a chain of linked word nodes from frame 0 to the last exit frame is a start→end path of the lattice that is
built, with exactly its segmentation as instance sequence -/
theorem firstBest_of_chainMid (G : Nfa) (frame wS wE : Nat) (b0 : Build) (R : BuildResult)
    (isFiller : Nat → Bool) (silWord : Nat) (silpen fillpen : Int)
    (hm : MidOK G frame b0) (vs : List Nat) (segs : List Seg) (hch : ChainMid b0 vs segs)
    (h0 : ∀ v ∈ vs.head?, (b0.node v).sf = 0)
    (hfs : findStartEnd b0 frame wS wE = some R) :
    FirstBestInLattice (pruneLat R.b R.start R.final frame isFiller silWord silpen fillpen) segs := by
  open BuildPrune BuildEnds ChainPath in
  obtain ⟨lastEf, sc, ec, b1, hs⟩ := findStartEnd_shape _ frame wS wE R
    (fun l hl => ⟨(hm.link l hl).1, (hm.link l hl).2.1⟩) hfs
  obtain ⟨sc', F⟩ := facts hm hs
  have hp := preOK hm hs F
  have hk := markReachable_spec R.b R.final hp.fLt (fun l hl => (hp.linkLt l hl).1)
  rw [pruneLat_eq]
  cases hvs : vs with
  | nil => rw [hvs] at hch; simp [ChainMid] at hch
  | cons v1 rest =>
    rw [hvs] at hch h0
    have hsf0 := h0 v1 (by simp)
    obtain ⟨hv1, hv1k, ls, hpath, hinst⟩ :=
      chain_path (isFiller := isFiller) (silWord := silWord) (silpen := silpen) (fillpen := fillpen)
        hm hs F hp hk _ segs hch v1 (by simp) (Or.inr hsf0)
    have hc : v1 ∈ sc := cand0 hm hs F hv1 hsf0 (kept_exit hk hv1k)
    unfold FirstBestInLattice
    rw [start_eq, final_eq]
    by_cases hS : R.start < b0.nodes.size
    · have := (sc_start F hc).1 hS
      rw [this] at hpath hinst
      exact ⟨ls, hpath, hinst⟩
    · have hS' : b0.nodes.size ≤ R.start := by omega
      have hl := (sc_start F hc).2 hS'
      have hl' := mem_links_of (isFiller := isFiller) (silWord := silWord) (silpen := silpen) (fillpen := fillpen)
        hp hk hl hv1k
      refine ⟨_ :: ls, .cons hl' rfl hpath, ?_⟩
      rw [instances_cons]
      simp only [node_idx (s_order hp hk), conv_real, synS F hS', Bool.false_eq_true, if_false, List.nil_append]
      exact hinst

end SSVerif.Lattice
