import SSVerif.Proofs.LatticeBuildDefs
/-! Deleting the nodes that do not reach the end node (`lattice_delete_unreachable`, renumbering in C list
order) turns the pre-pruning invariant `PreOK` into the C11 predicate `LatticeOK`. -/
namespace SSVerif.Lattice
open SSVerif.Nfa
namespace BuildPrune

def order (keep : List Nat) (b : Build) : List Nat :=
  ((List.range b.nodes.size).reverse).filter fun v => keep.contains v

def conv (a : BNode) : Node := ⟨a.word, a.sf, a.fef, a.lef, a.state⟩

def pen (b : Build) (start final : Nat) (isFiller : Nat → Bool) (silWord : Nat) (silpen fillpen : Int) (l : BLink) : Int :=
  let a := b.nodes.getD l.dst default
  if l.dst ≠ start ∧ l.dst ≠ final ∧ isFiller a.word then (if a.word = silWord then silpen else fillpen) else 0

/-- `pruneLat` with the kept set as a parameter -/
def pruneWith (keep : List Nat) (b : Build) (start final frame : Nat)
    (isFiller : Nat → Bool) (silWord : Nat) (silpen fillpen : Int) : Lat :=
  { nframes := frame,
    nodes := (order keep b).map fun v => conv (b.node v),
    links := (order keep b).flatMap fun v =>
      (b.links.toList.reverse.filter fun l => l.src = v ∧ keep.contains l.dst).map fun l =>
        ({ src := (order keep b).idxOf l.src, dst := (order keep b).idxOf l.dst, ef := l.ef,
           ascr := l.ascr + pen b start final isFiller silWord silpen fillpen l } : Link),
    start := (order keep b).idxOf start, final := (order keep b).idxOf final }

theorem pruneLat_eq (b : Build) (s f frame : Nat) (isFiller : Nat → Bool) (silWord : Nat) (silpen fillpen : Int) :
    pruneLat b s f frame isFiller silWord silpen fillpen =
      pruneWith (markReachable b f) b s f frame isFiller silWord silpen fillpen := rfl

section
variable {G : Nfa} {keep : List Nat} {b : Build} {s f frame : Nat}
  {isFiller : Nat → Bool} {silWord : Nat} {silpen fillpen : Int}

local notation "LL" => pruneWith keep b s f frame isFiller silWord silpen fillpen
local notation "idx" => List.idxOf (l := order keep b)

/-! ### structure of the result -/

theorem order_nodup : (order keep b).Nodup := by
  unfold order
  apply List.Pairwise.filter
  rw [List.pairwise_reverse]
  exact (List.nodup_range (n := b.nodes.size)).imp (fun h => fun e => h e.symm)

theorem mem_order {v : Nat} : v ∈ order keep b ↔ v < b.nodes.size ∧ v ∈ keep := by
  unfold order
  simp only [List.mem_filter, List.mem_reverse, List.mem_range, List.contains_iff_mem]

theorem idx_lt {v : Nat} (h : v ∈ order keep b) : (order keep b).idxOf v < (order keep b).length :=
  List.idxOf_lt_length_iff.2 h

theorem get_idx {v : Nat} (h : v ∈ order keep b) : (order keep b)[(order keep b).idxOf v]'(idx_lt h) = v :=
  List.getElem_idxOf _

theorem idx_inj {u v : Nat} (hu : u ∈ order keep b) (hv : v ∈ order keep b)
    (h : (order keep b).idxOf u = (order keep b).idxOf v) : u = v := by
  have h1 := get_idx hu
  have h2 := get_idx hv
  rw [← h1, ← h2]
  congr 1

theorem n_eq : (LL).n = (order keep b).length := by
  simp [Lat.n, pruneWith]

theorem exists_of_lt {i : Nat} (h : i < (LL).n) : ∃ v, v ∈ order keep b ∧ (order keep b).idxOf v = i := by
  rw [n_eq] at h
  exact ⟨(order keep b)[i], List.getElem_mem h, order_nodup.idxOf_getElem i h⟩

theorem node_idx {v : Nat} (h : v ∈ order keep b) : (LL).node ((order keep b).idxOf v) = conv (b.node v) := by
  have hlt := idx_lt h
  unfold Lat.node pruneWith
  simp only
  rw [List.getD_eq_getElem?_getD, List.getElem?_map, List.getElem?_eq_getElem hlt, get_idx h]
  rfl

theorem real_idx {v : Nat} (h : v ∈ order keep b) :
    ((LL).node ((order keep b).idxOf v)).real = (b.node v).state.isSome := by
  rw [node_idx h]; rfl

theorem mem_links {l' : Link} : l' ∈ (LL).links ↔ ∃ l ∈ b.links.toList, l.src ∈ order keep b ∧ l.dst ∈ keep ∧
    l' = ⟨(order keep b).idxOf l.src, (order keep b).idxOf l.dst, l.ef,
          l.ascr + pen b s f isFiller silWord silpen fillpen l⟩ := by
  unfold pruneWith
  simp only [List.mem_flatMap, List.mem_map, List.mem_filter, List.mem_reverse, decide_eq_true_eq,
    List.contains_iff_mem]
  constructor
  · rintro ⟨v, hv, l, ⟨hl, hs, hd⟩, rfl⟩
    exact ⟨l, hl, hs ▸ hv, hd, rfl⟩
  · rintro ⟨l, hl, hs, hd, rfl⟩
    exact ⟨l.src, hs, l, ⟨hl, rfl, hd⟩, rfl⟩

/-! ### the kept set -/

theorem keep_exit (hk : KeepSpec b f keep) {v : Nat} (hv : v ∈ keep) :
    v = f ∨ ∃ l ∈ b.links.toList, l.src = v ∧ l.dst ∈ keep := by
  have := hk.induct (fun v => v ∈ keep ∧ (v = f ∨ ∃ l ∈ b.links.toList, l.src = v ∧ l.dst ∈ keep))
    ⟨hk.final, Or.inl rfl⟩
    (fun l hl h => ⟨hk.closed l hl h.1, Or.inr ⟨l, hl, rfl, h.1⟩⟩) v hv
  exact this.2

theorem keep_rank (hk : KeepSpec b f keep) {r : Nat → Nat} (hr : ∀ l ∈ b.links.toList, r l.src < r l.dst)
    {v : Nat} (hv : v ∈ keep) : r v ≤ r f :=
  hk.induct (fun v => r v ≤ r f) (Nat.le_refl _)
    (fun l hl h => Nat.le_of_lt (Nat.lt_of_lt_of_le (hr l hl) h)) v hv

theorem no_exit_final (hp : PreOK G frame b s f) (hk : KeepSpec b f keep) {l : BLink} (hl : l ∈ b.links.toList)
    (hs : l.src = f) : l.dst ∉ keep := by
  intro hd
  obtain ⟨r, hr⟩ := hp.rank
  have h1 := hr l hl
  have h2 := keep_rank hk hr hd
  rw [hs] at h1
  omega

theorem f_order (hp : PreOK G frame b s f) (hk : KeepSpec b f keep) : f ∈ order keep b :=
  mem_order.2 ⟨hp.fLt, hk.final⟩

theorem s_keep (hp : PreOK G frame b s f) (hk : KeepSpec b f keep) : s ∈ keep := by
  obtain ⟨r, hr⟩ := hp.rank
  have key : ∀ n v, r v = n → v < b.nodes.size → v ∈ keep → s ∈ keep := by
    intro n
    induction n using Nat.strongRecOn with
    | _ n ih =>
      intro v hn hv hvk
      by_cases hvs : v = s
      · rw [← hvs]; exact hvk
      · have hex : v = f ∨ ∃ l ∈ b.links.toList, l.src = v := by
          rcases keep_exit hk hvk with h | ⟨l, hl, h1, _⟩
          · exact Or.inl h
          · exact Or.inr ⟨l, hl, h1⟩
        obtain ⟨l, hl, hd⟩ := hp.entry v hv hvs hex
        have hsk : l.src ∈ keep := hk.closed l hl (hd ▸ hvk)
        have hlt := hr l hl
        rw [hd, hn] at hlt
        exact ih _ hlt l.src rfl (hp.linkLt l hl).1 hsk
  exact key _ f rfl hp.fLt hk.final

theorem s_order (hp : PreOK G frame b s f) (hk : KeepSpec b f keep) : s ∈ order keep b :=
  mem_order.2 ⟨hp.sLt, s_keep hp hk⟩

/-- a kept link: both ends are in `order` -/
theorem link_ends (hp : PreOK G frame b s f) (hk : KeepSpec b f keep) {l : BLink} (hl : l ∈ b.links.toList)
    (hd : l.dst ∈ keep) : l.src ∈ order keep b ∧ l.dst ∈ order keep b :=
  ⟨mem_order.2 ⟨(hp.linkLt l hl).1, hk.closed l hl hd⟩, mem_order.2 ⟨(hp.linkLt l hl).2, hd⟩⟩

theorem mem_links_of (hp : PreOK G frame b s f) (hk : KeepSpec b f keep) {l : BLink} (hl : l ∈ b.links.toList)
    (hd : l.dst ∈ keep) :
    (⟨(order keep b).idxOf l.src, (order keep b).idxOf l.dst, l.ef,
      l.ascr + pen b s f isFiller silWord silpen fillpen l⟩ : Link) ∈ (LL).links :=
  mem_links.2 ⟨l, hl, (link_ends hp hk hl hd).1, hd, rfl⟩

/-! ### `maxLef` -/

theorem foldl_max_ge (l : List Node) : ∀ (m : Nat), m ≤ l.foldl (fun m a => max m a.lef) m ∧
    ∀ a ∈ l, a.lef ≤ l.foldl (fun m a => max m a.lef) m := by
  induction l with
  | nil => intro m; simp
  | cons x xs ih =>
    intro m
    simp only [List.foldl_cons]
    obtain ⟨h1, h2⟩ := ih (max m x.lef)
    refine ⟨by omega, ?_⟩
    intro a ha
    rcases List.mem_cons.1 ha with rfl | ha
    · omega
    · exact h2 a ha

theorem foldl_max_le (l : List Node) (M : Nat) : ∀ (m : Nat), m ≤ M → (∀ a ∈ l, a.lef ≤ M) →
    l.foldl (fun m a => max m a.lef) m ≤ M := by
  induction l with
  | nil => intro m hm _; simpa using hm
  | cons x xs ih =>
    intro m hm h
    simp only [List.foldl_cons]
    apply ih
    · have := h x List.mem_cons_self; omega
    · intro a ha; exact h a (List.mem_cons_of_mem _ ha)

theorem node_mem {L : Lat} {i : Nat} (h : i < L.n) : L.node i ∈ L.nodes := by
  unfold Lat.node
  rw [List.getD_eq_getElem?_getD, List.getElem?_eq_getElem h]
  exact List.getElem_mem h

theorem le_maxLef {L : Lat} {i : Nat} (h : i < L.n) (hr : (L.node i).real = true) : (L.node i).lef ≤ L.maxLef := by
  unfold Lat.maxLef
  exact (foldl_max_ge _ 0).2 _ (List.mem_filter.2 ⟨node_mem h, hr⟩)

theorem maxLef_le {L : Lat} (M : Nat) (h : ∀ i, i < L.n → (L.node i).real = true → (L.node i).lef ≤ M) :
    L.maxLef ≤ M := by
  unfold Lat.maxLef
  apply foldl_max_le _ _ _ (Nat.zero_le _)
  intro a ha
  obtain ⟨ha1, ha2⟩ := List.mem_filter.1 ha
  obtain ⟨i, hi, rfl⟩ := List.mem_iff_getElem.1 ha1
  have : L.node i = L.nodes[i] := by
    unfold Lat.node; rw [List.getD_eq_getElem?_getD, List.getElem?_eq_getElem hi]; rfl
  have := h i hi (this ▸ ha2)
  rwa [‹L.node i = L.nodes[i]›] at this

/-- a kept word node whose `lef` dominates all word nodes carries `maxLef` -/
theorem maxLef_eq {u : Nat} (hu : u ∈ order keep b) (hur : (b.node u).state.isSome = true)
    (hdom : ∀ w, w < b.nodes.size → (b.node w).state.isSome = true → (b.node w).lef ≤ (b.node u).lef) :
    (LL).maxLef = (b.node u).lef := by
  apply Nat.le_antisymm
  · apply maxLef_le
    intro i hi hr
    obtain ⟨v, hv, rfl⟩ := exists_of_lt hi
    rw [real_idx hv] at hr
    rw [node_idx hv]
    exact hdom v (mem_order.1 hv).1 hr
  · have h1 : (order keep b).idxOf u < (LL).n := by rw [n_eq]; exact idx_lt hu
    have := le_maxLef h1 (by rw [real_idx hu]; exact hur)
    rw [node_idx hu] at this
    exact this

/-! ### the clauses -/

theorem conv_real (a : BNode) : (conv a).real = a.state.isSome := rfl
theorem start_eq : (LL).start = (order keep b).idxOf s := rfl
theorem final_eq : (LL).final = (order keep b).idxOf f := rfl
theorem nframes_eq : (LL).nframes = frame := rfl

theorem prune_endpoints (hp : PreOK G frame b s f) (hk : KeepSpec b f keep) : EndpointsOK (LL) := by
  refine ⟨?_, ?_, ?_⟩
  · rw [n_eq, start_eq]; exact idx_lt (s_order hp hk)
  · rw [n_eq, final_eq]; exact idx_lt (f_order hp hk)
  · intro l' hl'
    obtain ⟨l, hl, _, hd, rfl⟩ := mem_links.1 hl'
    have := link_ends hp hk hl hd
    rw [n_eq]
    exact ⟨idx_lt this.1, idx_lt this.2⟩

theorem prune_distinct (hp : PreOK G frame b s f) (hk : KeepSpec b f keep) : LinksDistinct (LL) := by
  unfold LinksDistinct
  show List.Pairwise _ ((order keep b).flatMap _)
  rw [List.pairwise_flatMap]
  constructor
  · intro v _
    rw [List.pairwise_map]
    have h1 : List.Pairwise (fun a c : BLink => ¬(a.src = c.src ∧ a.dst = c.dst)) b.links.toList.reverse := by
      rw [List.pairwise_reverse]
      exact hp.distinct.imp (fun h => fun e => h ⟨e.1.symm, e.2.symm⟩)
    have h2 := h1.filter (fun l => decide (l.src = v ∧ keep.contains l.dst))
    apply List.Pairwise.imp_of_mem _ h2
    intro a c ha hc hac
    simp only [List.mem_filter, List.mem_reverse, decide_eq_true_eq, List.contains_iff_mem] at ha hc
    rintro ⟨_, h4⟩
    simp only at h4
    apply hac
    refine ⟨ha.2.1.trans hc.2.1.symm, ?_⟩
    exact idx_inj (link_ends hp hk ha.1 ha.2.2).2 (link_ends hp hk hc.1 hc.2.2).2 h4
  · apply List.Pairwise.imp_of_mem _ order_nodup
    intro v1 v2 h1 h2 hne x hx y hy
    simp only [List.mem_map, List.mem_filter, List.mem_reverse, decide_eq_true_eq, List.contains_iff_mem] at hx hy
    obtain ⟨a, ⟨_, ha2, _⟩, rfl⟩ := hx
    obtain ⟨c, ⟨_, hc2, _⟩, rfl⟩ := hy
    rintro ⟨h3, _⟩
    simp only at h3
    rw [ha2, hc2] at h3
    exact hne (idx_inj h1 h2 h3)

theorem prune_startEnd (hp : PreOK G frame b s f) (hk : KeepSpec b f keep) : StartEndOK (LL) := by
  refine ⟨?_, ?_, ?_⟩
  · intro l' hl'
    obtain ⟨l, hl, _, hd, rfl⟩ := mem_links.1 hl'
    have he := link_ends hp hk hl hd
    constructor
    · rw [start_eq]; intro h
      exact hp.noEnterStart l hl (idx_inj he.2 (s_order hp hk) h)
    · rw [final_eq]; intro h
      exact no_exit_final hp hk hl (idx_inj he.1 (f_order hp hk) h) hd
  · intro i hi hne
    obtain ⟨v, hv, rfl⟩ := exists_of_lt hi
    have hvk := (mem_order.1 hv).2
    have hvs : v ≠ s := by rintro rfl; exact hne rfl
    have hex : v = f ∨ ∃ l ∈ b.links.toList, l.src = v := by
      rcases keep_exit hk hvk with h | ⟨l, hl, h1, _⟩
      · exact Or.inl h
      · exact Or.inr ⟨l, hl, h1⟩
    obtain ⟨l, hl, hd⟩ := hp.entry v (mem_order.1 hv).1 hvs hex
    refine ⟨_, mem_links_of hp hk hl (hd ▸ hvk), ?_⟩
    simp only [hd]
  · intro i hi hne
    obtain ⟨v, hv, rfl⟩ := exists_of_lt hi
    have hvk := (mem_order.1 hv).2
    have hvf : v ≠ f := by rintro rfl; exact hne rfl
    rcases keep_exit hk hvk with h | ⟨l, hl, h1, h2⟩
    · exact absurd h hvf
    · refine ⟨_, mem_links_of hp hk hl h2, ?_⟩
      simp only [h1]

theorem prune_markers (hp : PreOK G frame b s f) (_hk : KeepSpec b f keep) : MarkersOK (LL) := by
  intro i hi hr
  obtain ⟨v, hv, rfl⟩ := exists_of_lt hi
  rw [real_idx hv] at hr
  rcases hp.markers v (mem_order.1 hv).1 hr with h | h
  · exact Or.inl (by rw [h]; rfl)
  · exact Or.inr (by rw [h]; rfl)

theorem prune_nodeTimes (hp : PreOK G frame b s f) (hk : KeepSpec b f keep) : NodeTimesOK (LL) := by
  intro i hi
  obtain ⟨v, hv, rfl⟩ := exists_of_lt hi
  have hvl := (mem_order.1 hv).1
  rw [real_idx hv, node_idx hv, nframes_eq, start_eq]
  constructor
  · intro hr; exact hp.nodeReal v hvl hr
  · intro hr
    obtain ⟨h1, h2, h3, h4⟩ := hp.nodeSyn v hvl hr
    refine ⟨?_, ?_, h3, h4⟩
    · intro h; exact h1 (idx_inj hv (s_order hp hk) h)
    · intro h; exact h2 (fun e => h (by rw [e]))

theorem prune_linkTimes (hp : PreOK G frame b s f) (hk : KeepSpec b f keep) :
    ∀ l ∈ (LL).links, LinkTimeOK (LL) l := by
  intro l' hl'
  obtain ⟨l, hl, _, hd, rfl⟩ := mem_links.1 hl'
  have he := link_ends hp hk hl hd
  unfold LinkTimeOK
  simp only [node_idx he.1, node_idx he.2, conv_real, nframes_eq, start_eq, final_eq]
  refine ⟨?_, ?_, ?_⟩
  · intro h1 h2; exact hp.linkRR l hl h1 h2
  · intro h1 h2
    have h2' : (b.node l.dst).state.isSome = false := h2
    obtain ⟨a, c, d⟩ := hp.linkRS l hl h1 h2'
    refine ⟨by rw [a], c, ?_⟩
    exact (maxLef_eq he.1 h1 d).symm
  · intro h1
    have h1' : (b.node l.src).state.isSome = false := h1
    obtain ⟨a, c, d, e⟩ := hp.linkSR l hl h1'
    exact ⟨by rw [a], c, d, e⟩

theorem kept_exit (hk : KeepSpec b f keep) {v : Nat} (hvk : v ∈ keep) : v = f ∨ ∃ l ∈ b.links.toList, l.src = v := by
  rcases keep_exit hk hvk with h | ⟨l, hl, h1, _⟩
  · exact Or.inl h
  · exact Or.inr ⟨l, hl, h1⟩

theorem prune_markerLinks (hp : PreOK G frame b s f) (hk : KeepSpec b f keep) : MarkerLinksOK (LL) := by
  have hso := s_order hp hk
  have hfo := f_order hp hk
  refine ⟨?_, ?_, ?_⟩
  · unfold RealStartOK
    rw [start_eq, real_idx hso, node_idx hso]
    intro hr
    obtain ⟨h1, h2⟩ := hp.realStart hr
    refine ⟨h1, ?_⟩
    intro i hi hne
    obtain ⟨v, hv, rfl⟩ := exists_of_lt hi
    rw [node_idx hv]
    exact h2 v (mem_order.1 hv).1 (fun e => hne (by rw [e])) (kept_exit hk (mem_order.1 hv).2)
  · unfold StartMarkOK
    rw [start_eq, real_idx hso]
    intro hr i hi hc
    have hr' : (b.node s).state.isSome = false := by simpa using hr
    obtain ⟨v, hv, rfl⟩ := exists_of_lt hi
    rw [real_idx hv, node_idx hv] at hc
    obtain ⟨l, hl, h1, h2⟩ := hp.startMark hr' v (mem_order.1 hv).1 hc.1 hc.2 (kept_exit hk (mem_order.1 hv).2)
    refine ⟨_, mem_links_of hp hk hl (h2 ▸ (mem_order.1 hv).2), ?_, ?_⟩
    · simp only [h1]
    · simp only [h2]
  · unfold EndMarkOK
    rw [final_eq, real_idx hfo]
    intro hr i hi hc
    have hr' : (b.node f).state.isSome = false := by simpa using hr
    obtain ⟨v, hv, rfl⟩ := exists_of_lt hi
    rw [real_idx hv, node_idx hv] at hc
    -- the end has an entry from a word node with the largest `lef`
    obtain ⟨l0, hl0, hd0⟩ := hp.finalEntry hr'
    have hsr : (b.node l0.src).state.isSome = true := by
      cases hh : (b.node l0.src).state.isSome with
      | true => rfl
      | false =>
        have := (hp.linkSR l0 hl0 hh).2.2.1
        rw [hd0, hr'] at this; cases this
    obtain ⟨_, _, hdom⟩ := hp.linkRS l0 hl0 hsr (by rw [hd0]; exact hr')
    have he0 := link_ends hp hk hl0 (hd0 ▸ hk.final)
    have hmax := maxLef_eq (isFiller := isFiller) (silWord := silWord) (silpen := silpen) (fillpen := fillpen)
      (s := s) (f := f) (frame := frame) he0.1 hsr hdom
    have hdom' : ∀ u, u < b.nodes.size → (b.node u).state.isSome = true → (b.node u).lef ≤ (b.node v).lef := by
      intro u hu hur
      have := hdom u hu hur
      have h2 := hc.2
      simp only [conv] at h2
      rw [hmax] at h2
      omega
    obtain ⟨l, hl, h1, h2⟩ := hp.endMark hr' v (mem_order.1 hv).1 hc.1 hdom'
    refine ⟨_, mem_links_of hp hk hl (h2 ▸ hk.final), ?_, ?_⟩
    · simp only [h1]
    · simp only [h2]

theorem prune_linkGrammar (hp : PreOK G frame b s f) (hk : KeepSpec b f keep) :
    ∀ l ∈ (LL).links, LinkGrammarOK G (LL) l := by
  intro l' hl'
  obtain ⟨l, hl, _, hd, rfl⟩ := mem_links.1 hl'
  have he := link_ends hp hk hl hd
  unfold LinkGrammarOK gstate
  simp only [node_idx he.1, node_idx he.2]
  cases hst : (conv (b.node l.dst)).state with
  | none => trivial
  | some r => exact hp.linkGrammar l hl r hst

theorem prune_startGrammar (hp : PreOK G frame b s f) (hk : KeepSpec b f keep) : StartGrammarOK G (LL) := by
  unfold StartGrammarOK
  rw [start_eq, node_idx (s_order hp hk)]
  cases hst : (conv (b.node s)).state with
  | none => trivial
  | some r => exact hp.startGrammar r hst

theorem pruneWith_latticeOK (hp : PreOK G frame b s f) (hk : KeepSpec b f keep) : LatticeOK G (LL) :=
  ⟨prune_endpoints hp hk, prune_distinct hp hk, prune_startEnd hp hk, prune_markers hp hk, prune_nodeTimes hp hk,
   prune_linkTimes hp hk, prune_markerLinks hp hk, prune_linkGrammar hp hk, prune_startGrammar hp hk⟩

end
end BuildPrune

/-- deleting the nodes that do not reach the end node (and renumbering in C list order) turns the
pre-pruning invariant into the C11 predicate -/
theorem pruneLat_latticeOK (G : Nfa) (frame : Nat) (b : Build) (s f : Nat)
    (isFiller : Nat → Bool) (silWord : Nat) (silpen fillpen : Int)
    (hp : PreOK G frame b s f) (hk : KeepSpec b f (markReachable b f)) :
    LatticeOK G (pruneLat b s f frame isFiller silWord silpen fillpen) := by
  rw [BuildPrune.pruneLat_eq]
  exact BuildPrune.pruneWith_latticeOK hp hk
end SSVerif.Lattice
