import SSVerif.Proofs.AlignStepWF
import SSVerif.Proofs.AlignLevel
/-!
Glue between the constrained Viterbi (`Step.run` on the window arrays of a populated alignment) and the backtrace
theorems: the window function of the step model is the one of the populated state entries; the window arrays of a
populated alignment of contiguous first-pass words satisfy the hypotheses of `run_wfTokens`.
-/
namespace SSVerif.Align

/-! ### `wfTokens` only looks at the windows of the states on the walk -/

theorem wfWalk_congr (tokens : List (List Tok)) (w1 w2 : Nat → Int × Int) :
    ∀ (f k : Nat), (∀ k', k' ≤ k → w1 k' = w2 k') → wfWalk tokens w1 f k = wfWalk tokens w2 f k
  | 0, k, h => by simp [wfWalk, h 0 (Nat.zero_le _)]
  | f + 1, k, h => by
    simp only [wfWalk, h k (Nat.le_refl _)]
    cases tokAt tokens f k with
    | none => rfl
    | some t =>
      simp only
      by_cases c : (t.id.toNat == k || t.id.toNat + 1 == k) = true
      · have hle : t.id.toNat ≤ k := by
          simp only [Bool.or_eq_true, beq_iff_eq] at c; omega
        rw [wfWalk_congr tokens w1 w2 f t.id.toNat (fun k' hk' => h k' (by omega))]
      · simp only [Bool.not_eq_true] at c
        simp [c]

theorem wfTokens_congr (tokens : List (List Tok)) (w1 w2 : Nat → Int × Int) (T S : Nat) (final : Tok)
    (h : ∀ k, k < S → w1 k = w2 k) : wfTokens tokens w1 T S final = wfTokens tokens w2 T S final := by
  unfold wfTokens
  by_cases hS : 1 ≤ S
  · rw [wfWalk_congr tokens w1 w2 (T - 1) (S - 1) (fun k' hk' => h k' (by omega))]
  · simp [hS]

/-! ### windows of a populated alignment with three states per phone -/

theorem blockWins_replicate_get : ∀ (ws : List (Int × Int)) (k : Nat),
    (blockWins (List.replicate ws.length 3) ws)[k]? = if k < 3 * ws.length then ws[k / 3]? else none
  | [], k => by simp [blockWins]
  | w :: ws, k => by
    have e0 : blockWins (List.replicate (w :: ws).length 3) (w :: ws) =
        List.replicate 3 w ++ blockWins (List.replicate ws.length 3) ws := rfl
    rw [e0]
    simp only [List.length_cons]
    by_cases hk : k < 3
    · rw [List.getElem?_append_left (by rw [List.length_replicate]; exact hk)]
      have : k / 3 = 0 := by omega
      have h3 : k < 3 * (ws.length + 1) := by omega
      rw [List.getElem?_replicate]
      simp [this, hk, h3]
    · rw [List.getElem?_append_right (by rw [List.length_replicate]; omega)]
      rw [List.length_replicate, blockWins_replicate_get ws (k - 3)]
      have e : k / 3 = (k - 3) / 3 + 1 := by omega
      rw [e, List.getElem?_cons_succ]
      by_cases h2 : k - 3 < 3 * ws.length
      · have : k < 3 * (ws.length + 1) := by omega
        simp [h2, this]
      · have : ¬ k < 3 * (ws.length + 1) := by omega
        simp [h2, this]

/-- the window of state `k` read from the populated state entries is the window of phone `k / 3` in the arrays the
search is given -/
theorem winOf_eq_win (phones states : List Entry)
    (hst : states.map winE = blockWins (List.replicate phones.length 3) (phones.map winE))
    (k : Nat) (hk : k < 3 * phones.length) :
    winOf states k = Step.win (phones.map sfOf).toArray (phones.map efOf).toArray k := by
  have h1 : (states.map winE)[k]? = (blockWins (List.replicate phones.length 3) (phones.map winE))[k]? := by
    rw [hst]
  have hl : (phones.map winE).length = phones.length := by simp
  rw [← hl, blockWins_replicate_get] at h1
  simp only [hl, hk, if_true, List.getElem?_map] at h1
  have hp : k / 3 < phones.length := by omega
  rw [List.getElem?_eq_getElem hp] at h1
  cases hs : states[k]? with
  | none => rw [hs] at h1; simp at h1
  | some e =>
    rw [hs] at h1
    simp only [Option.map_some, Option.some.injEq] at h1
    have hg : states.getD k default = e := by simp [List.getD_eq_getElem?_getD, hs]
    simp only [winOf, Step.win, hg]
    have e1 : (phones.map sfOf).toArray.getD (k / 3) 0 = sfOf phones[k / 3] := by
      simp [Array.getD, hp]
    have e2 : (phones.map efOf).toArray.getD (k / 3) 0 = efOf phones[k / 3] := by
      simp [Array.getD, hp]
    rw [e1, e2]
    simp only [winE, Prod.mk.injEq] at h1
    rw [h1.1, h1.2]

/-! ### the window arrays of contiguous first-pass words -/

/-- exit frames of the phones of contiguous words (positive block lengths): non-decreasing, all in `(a, b]`, and when
there is a word the first window starts at `a` and some phone exits at `b` -/
theorem blockWins_contig : ∀ (words : List Entry) (lens : List Nat) (a b : Int),
    Contig words a b → lens.length = words.length → (∀ n ∈ lens, 0 < n) → 0 ≤ a →
    List.Pairwise (· ≤ ·) ((blockWins lens (words.map winE)).map (·.2)) ∧
    (∀ x ∈ blockWins lens (words.map winE), a < x.2 ∧ x.2 ≤ b) ∧
    (words ≠ [] → (∃ x ∈ blockWins lens (words.map winE), x.2 = b) ∧
      ((blockWins lens (words.map winE)).head?.map (·.1)) = some a)
  | [], lens, a, b, _, hl, _, _ => by
    have : lens = [] := by simpa using hl
    subst this
    simp [blockWins]
  | w :: ws, [], _, _, _, hl, _, _ => by simp at hl
  | w :: ws, n :: ns, a, b, hc, hl, hpos, ha => by
    obtain ⟨h1, h2, h3⟩ := hc
    have hn : 0 < n := hpos n (List.mem_cons_self ..)
    have hwe : winE w = (a, a + w.duration) := by
      simp only [winE, sfOf, efOf, h2, if_true, h1]
      by_cases hs : a > 0
      · simp [hs]
      · have : a = 0 := by omega
        simp [this]
    obtain ⟨i1, i2, i3⟩ := blockWins_contig ws ns (a + w.duration) b h3 (by simpa using hl)
      (fun m hm => hpos m (List.mem_cons_of_mem _ hm)) (by omega)
    have hle := contig_le ws _ b h3
    simp only [List.map_cons, blockWins, hwe, List.map_append, List.map_replicate]
    refine ⟨?_, ?_, fun _ => ⟨?_, ?_⟩⟩
    · rw [List.pairwise_append]
      refine ⟨List.pairwise_replicate.2 (Or.inr (Int.le_refl _)), i1, ?_⟩
      intro x hx y hy
      rw [(List.mem_replicate.1 hx).2]
      obtain ⟨z, hz, rfl⟩ := List.mem_map.1 hy
      have := (i2 z hz).1
      omega
    · intro x hx
      rcases List.mem_append.1 hx with hx | hx
      · rw [(List.mem_replicate.1 hx).2]; simp only; omega
      · have := i2 x hx; omega
    · by_cases hws : ws = []
      · subst hws
        have e : a + w.duration = b := h3
        refine ⟨(a, a + w.duration), List.mem_append_left _ (List.mem_replicate.2 ⟨by omega, rfl⟩), e⟩
      · obtain ⟨⟨x, hx, hxb⟩, _⟩ := i3 hws
        exact ⟨x, List.mem_append_right _ hx, hxb⟩
    · obtain ⟨m, rfl⟩ : ∃ m, n = m + 1 := ⟨n - 1, by omega⟩
      simp [List.replicate_succ]

theorem sum_replicate3 : ∀ (m : Nat), (List.replicate m 3).sum = 3 * m
  | 0 => rfl
  | m + 1 => by simp [List.replicate_succ, sum_replicate3 m]; omega

/-- the window arrays of a populated alignment of contiguous first-pass words meet the hypotheses of `run_wfTokens` -/
theorem populated_windows_ok (words : List Entry) (lens : List Nat) (phones : List Entry) (T : Nat)
    (hc : Contig words 0 T) (hl : lens.length = words.length) (hpos : ∀ n ∈ lens, 0 < n)
    (hph : phones.map winE = blockWins lens (words.map winE)) :
    (phones.map sfOf).toArray.getD 0 0 ≤ 0 ∧
    (∀ i, i + 1 < phones.length →
      (phones.map efOf).toArray.getD i 0 ≤ (phones.map efOf).toArray.getD (i + 1) 0) ∧
    (T : Int) ≤ (phones.map efOf).toArray.getD (phones.length - 1) 0 := by
  obtain ⟨b1, b2, b3⟩ := blockWins_contig words lens 0 T hc hl hpos (by omega)
  rw [← hph] at b1 b2 b3
  have hef : (phones.map winE).map (·.2) = phones.map efOf := by simp [winE, Function.comp_def]
  rw [hef] at b1
  have hget : ∀ i (hi : i < phones.length), (phones.map efOf).toArray.getD i 0 = efOf phones[i] := by
    intro i hi; simp [Array.getD, hi]
  have hpw := List.pairwise_iff_getElem.1 b1
  have hmono2 : ∀ i j (hi : i < phones.length) (hj : j < phones.length), i ≤ j → efOf phones[i] ≤ efOf phones[j] := by
    intro i j hi hj hij
    by_cases e : i = j
    · subst e; exact Int.le_refl _
    · have := hpw i j (by simpa using hi) (by simpa using hj) (by omega)
      simpa using this
  refine ⟨?_, ?_, ?_⟩
  · cases hp : phones with
    | nil => simp
    | cons e rest =>
      have hw : words ≠ [] := by
        intro hw; subst hw
        have : lens = [] := by simpa using hl
        subst this
        rw [hp] at hph; simp [blockWins] at hph
      have := (b3 hw).2
      rw [hp] at this
      simp only [List.map_cons, List.head?_cons, Option.map_some, Option.some.injEq, winE] at this
      simp [Array.getD, this]
  · intro i hi
    rw [hget i (by omega), hget (i + 1) hi]
    exact hmono2 i (i + 1) (by omega) hi (by omega)
  · by_cases hw : words = []
    · subst hw
      have hT : (0 : Int) = T := hc
      have : lens = [] := by simpa using hl
      subst this
      have hp : phones = [] := by simpa [blockWins] using hph
      subst hp
      simp; omega
    · obtain ⟨x, hx, hxT⟩ := (b3 hw).1
      obtain ⟨e, he, rfl⟩ := List.mem_map.1 hx
      obtain ⟨i, hi, rfl⟩ := List.getElem_of_mem he
      rw [hget (phones.length - 1) (by omega)]
      have := hmono2 i (phones.length - 1) hi (by omega) (by omega)
      simp only [winE] at hxT
      omega

end SSVerif.Align
