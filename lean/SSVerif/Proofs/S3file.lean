import SSVerif.Model.S3file
/-!
# Bounds of the byte reader and of the read plans (helper lemmas for `Props/C17`)

`r.Sat Q`: the step `r` touches nothing outside the file (`oob`) or outside an allocated array
(`idx`) and, when it completes, its result satisfies `Q`.  `Good f s`: the reader still reads the
file `f` and `buf ≤ ptr ≤ end`.
-/
namespace SSVerif.S3file

def Res.Sat {α : Type} (r : Res α) (Q : α → Prop) : Prop :=
  match r with
  | .ok a => Q a
  | .reject _ => True
  | .oob _ => False
  | .idx _ _ => False

theorem Sat.bind {α β : Type} {x : Res α} {f : α → Res β} {P : α → Prop} {Q : β → Prop}
    (hx : x.Sat P) (hf : ∀ a, P a → (f a).Sat Q) : (x >>= f).Sat Q := by
  cases x with
  | ok a => exact hf a hx
  | reject s => trivial
  | oob i => exact hx
  | idx i n => exact hx

theorem Sat.mono {α : Type} {x : Res α} {P Q : α → Prop} (hx : x.Sat P) (h : ∀ a, P a → Q a) : x.Sat Q := by
  cases x with
  | ok a => exact h a hx
  | reject s => trivial
  | oob i => exact hx
  | idx i n => exact hx

theorem Sat.ok {α : Type} {a : α} {Q : α → Prop} (h : Q a) : (Res.ok a).Sat Q := h
theorem Sat.pure {α : Type} {a : α} {Q : α → Prop} (h : Q a) : (Pure.pure a : Res α).Sat Q := h
theorem Sat.reject {α : Type} {s : String} {Q : α → Prop} : (Res.reject s : Res α).Sat Q := trivial

theorem Sat.not_oob {α : Type} {x : Res α} {Q : α → Prop} (h : x.Sat Q) (i : Nat) : x ≠ .oob i := by
  intro e; rw [e] at h; exact h
theorem Sat.not_idx {α : Type} {x : Res α} {Q : α → Prop} (h : x.Sat Q) (i n : Nat) : x ≠ .idx i n := by
  intro e; rw [e] at h; exact h
theorem Sat.of_ok {α : Type} {x : Res α} {Q : α → Prop} (h : x.Sat Q) {a : α} (e : x = .ok a) : Q a := by
  rw [e] at h; exact h

def Good (f : File) (s : S) : Prop := s.f = f ∧ s.ptr ≤ f.size

theorem good_init (f : File) : Good f (S.init f) := ⟨rfl, Nat.zero_le _⟩

/-! ### primitives -/

theorem rd_sat {f : File} {i : Nat} (h : i < f.size) : (rd f i).Sat fun _ => True := by
  unfold rd; rw [if_pos h]; trivial

theorem rdN_sat {f : File} {off n : Nat} (h : off + n ≤ f.size) : (rdN f off n).Sat fun l => l.length = n := by
  unfold rdN; rw [if_pos h]; simp [Res.Sat]

/-- **`s3file_get` stays inside `[ptr, end)`** and returns `min(n, available/el_sz)` elements -/
theorem get_sat {f : File} {s : S} (k n : Nat) (hk : 0 < k) (hs : Good f s) :
    (get s k n).Sat fun r => Good f r.1 ∧ r.2 = min n (s.avail / k) ∧ r.1.ptr = s.ptr + k * r.2 ∧
      r.1.swap = s.swap ∧ r.1.chk = s.chk ∧ r.1.headers = s.headers := by
  obtain ⟨hf, hp⟩ := hs
  have hsz : s.f.size = f.size := by rw [hf]
  have ha : s.avail = s.f.size - s.ptr := rfl
  unfold get
  simp only
  by_cases hav : s.avail < k * n
  · rw [if_pos hav]
    have hlt : s.avail / k < n := (Nat.div_lt_iff_lt_mul hk).mpr (by rw [Nat.mul_comm]; exact hav)
    have hmin : min n (s.avail / k) = s.avail / k := by omega
    by_cases h0 : s.avail / k = 0
    · rw [if_pos h0]
      refine ⟨⟨hf, hp⟩, ?_, ?_, rfl, rfl, rfl⟩
      · show 0 = _; omega
      · show s.ptr = s.ptr + k * 0; omega
    · rw [if_neg h0]
      have hle : k * (s.avail / k) ≤ s.avail := Nat.mul_div_le _ _
      have hb : s.ptr + k * (s.avail / k) ≤ s.f.size := by omega
      rw [if_pos hb]
      refine ⟨⟨hf, ?_⟩, ?_, rfl, rfl, rfl, rfl⟩
      · show s.ptr + k * (s.avail / k) ≤ f.size; omega
      · show s.avail / k = _; omega
  · rw [if_neg hav]
    have hge : n ≤ s.avail / k := (Nat.le_div_iff_mul_le hk).mpr (by rw [Nat.mul_comm]; omega)
    have hmin : min n (s.avail / k) = n := by omega
    by_cases h0 : n = 0
    · rw [if_pos h0]
      refine ⟨⟨hf, hp⟩, ?_, ?_, rfl, rfl, rfl⟩
      · show 0 = _; omega
      · show s.ptr = s.ptr + k * 0; omega
    · rw [if_neg h0]
      have hb : s.ptr + k * n ≤ s.f.size := by omega
      rw [if_pos hb]
      refine ⟨⟨hf, ?_⟩, ?_, rfl, rfl, rfl, rfl⟩
      · show s.ptr + k * n ≤ f.size; omega
      · show n = _; omega

/-- `s3file_get` has no error return -/
theorem get_ne_reject (s : S) (k n : Nat) (site : String) : get s k n ≠ .reject site := by
  unfold get
  simp only
  intro h
  by_cases h0 : (if s.avail < k * n then s.avail / k else n) = 0
  · rw [if_pos h0] at h; cases h
  · rw [if_neg h0] at h
    by_cases hb : s.ptr + k * (if s.avail < k * n then s.avail / k else n) ≤ s.f.size
    · rw [if_pos hb] at h; cases h
    · rw [if_neg hb] at h; cases h

theorem get32_sat {f : File} {s : S} (site : String) (hs : Good f s) :
    (get32 s site).Sat fun r => Good f r.1 ∧ r.1.ptr = s.ptr + 4 ∧ r.1.swap = s.swap ∧ r.1.chk = s.chk ∧
      r.1.headers = s.headers := by
  unfold get32
  refine Sat.bind (get_sat 4 1 (by omega) hs) ?_
  rintro ⟨s', c⟩ ⟨hg, hc, hp, h1, h2, h3⟩
  simp only at hg hc hp h1 h2 h3 ⊢
  by_cases h : c ≠ 1
  · rw [if_pos h]; trivial
  · rw [if_neg h]
    have : c = 1 := by omega
    subst this
    exact ⟨hg, by omega, h1, h2, h3⟩

theorem skip_sat {f : File} {s : S} (n : Nat) (site : String) (hs : Good f s) :
    (skip s n site).Sat fun s' => Good f s' ∧ s'.ptr = s.ptr + n ∧ s'.swap = s.swap ∧ s'.chk = s.chk := by
  obtain ⟨hf, hp⟩ := hs
  have hsz : s.f.size = f.size := by rw [hf]
  have ha : s.avail = s.f.size - s.ptr := rfl
  unfold skip
  by_cases h : n > s.avail
  · rw [if_pos h]; trivial
  · rw [if_neg h]
    have hb : s.ptr + n ≤ s.f.size := by omega
    rw [if_pos hb]
    exact ⟨⟨hf, by show s.ptr + n ≤ f.size; rw [← hf]; exact hb⟩, rfl, rfl, rfl⟩

theorem verifyChksum_sat {f : File} {s : S} (hs : Good f s) : (verifyChksum s).Sat fun s' => Good f s' := by
  unfold verifyChksum
  by_cases h : (!s.chk) = true
  · rw [if_pos h]; exact hs
  · rw [if_neg h]
    refine Sat.bind (get32_sat (s := { s with chk := false }) _ ⟨hs.1, hs.2⟩) ?_
    rintro ⟨s1, v⟩ ⟨hg, _⟩
    simp only
    split
    · trivial
    · exact hg

/-! ### arrays -/

theorem get1d_sat {f : File} {s : S} (k : Nat) (hk : 0 < k) (hs : Good f s) :
    (get1d s k).Sat fun r => Good f r.1 ∧ 0 < r.2.n ∧ r.2.off + k * r.2.n ≤ f.size ∧ r.1.ptr = r.2.off + k * r.2.n := by
  unfold get1d
  refine Sat.bind (get32_sat _ hs) ?_
  rintro ⟨s1, n⟩ ⟨hg1, _⟩
  simp only
  by_cases hbad : n = 0 ∨ n > s1.avail / k
  · rw [if_pos hbad]; trivial
  · rw [if_neg hbad]
    refine Sat.bind (get_sat k n hk hg1) ?_
    rintro ⟨s2, c⟩ ⟨hg2, hc, hp, _⟩
    simp only at hg2 hc hp ⊢
    by_cases hcn : c ≠ n
    · rw [if_pos hcn]; trivial
    · rw [if_neg hcn]
      have : c = n := by omega
      subst this
      refine ⟨hg2, ?_, ?_, hp⟩
      · show 0 < c; omega
      show s1.ptr + k * c ≤ f.size
      rw [← hp]; exact hg2.2

/-- all rows of an array laid over `n = d1*d2` elements are inside it -/
theorem rowsInside_sat (d1 d2 n : Nat) (hn : n = d1 * d2) : ∀ i, i ≤ d1 → (rowsInside d1 d2 n i).Sat fun _ => True
  | 0, _ => trivial
  | i + 1, hi => by
    unfold rowsInside
    have h1 : (i + 1) * d2 ≤ n := by rw [hn]; exact Nat.mul_le_mul_right _ hi
    rw [if_pos ⟨h1, by omega⟩]
    exact rowsInside_sat d1 d2 n hn i (by omega)

theorem get2d_sat {f : File} {s : S} (k : Nat) (hk : 0 < k) (hs : Good f s) :
    (get2d s k).Sat fun r => Good f r.1 ∧ r.2.2.2.n = r.2.1 * r.2.2.1 ∧ 0 < r.2.2.2.n ∧
      r.2.2.2.off + k * r.2.2.2.n ≤ f.size := by
  unfold get2d
  refine Sat.bind (get32_sat _ hs) ?_
  rintro ⟨s1, d1⟩ ⟨hg1, _⟩
  refine Sat.bind (get32_sat _ hg1) ?_
  rintro ⟨s2, d2⟩ ⟨hg2, _⟩
  refine Sat.bind (get1d_sat k hk hg2) ?_
  rintro ⟨s3, a⟩ ⟨hg3, hpos, hin, _⟩
  simp only at hg3 hpos hin ⊢
  by_cases hne : a.n ≠ d1 * d2
  · rw [if_pos hne]; trivial
  · rw [if_neg hne]
    have he : a.n = d1 * d2 := by omega
    refine Sat.bind (rowsInside_sat d1 d2 a.n he d1 (Nat.le_refl _)) ?_
    intro _ _
    exact ⟨hg3, he, hpos, hin⟩

theorem get3d_sat {f : File} {s : S} (k : Nat) (hk : 0 < k) (hs : Good f s) :
    (get3d s k).Sat fun r => Good f r.1 ∧ r.2.2.2.2.n = r.2.1 * r.2.2.1 * r.2.2.2.1 ∧ 0 < r.2.2.2.2.n ∧
      r.2.2.2.2.off + k * r.2.2.2.2.n ≤ f.size := by
  unfold get3d
  refine Sat.bind (get32_sat _ hs) ?_
  rintro ⟨s1, d1⟩ ⟨hg1, _⟩
  refine Sat.bind (get32_sat _ hg1) ?_
  rintro ⟨s2, d2⟩ ⟨hg2, _⟩
  refine Sat.bind (get32_sat _ hg2) ?_
  rintro ⟨s3, d3⟩ ⟨hg3, _⟩
  refine Sat.bind (get1d_sat k hk hg3) ?_
  rintro ⟨s4, a⟩ ⟨hg4, hpos, hin, _⟩
  simp only at hg4 hpos hin ⊢
  by_cases hne : d1 * d2 > a.n ∨ a.n ≠ d1 * d2 * d3
  · rw [if_pos hne]; trivial
  · rw [if_neg hne]
    have he : a.n = d1 * d2 * d3 := by omega
    refine Sat.bind (rowsInside_sat (d1 * d2) d3 a.n he (d1 * d2) (Nat.le_refl _)) ?_
    intro _ _
    exact ⟨hg4, he, hpos, hin⟩

/-! ### header parsing -/

theorem scanNl_sat (f : File) : ∀ fuel p, p ≤ f.size → (scanNl f fuel p).Sat fun e => p ≤ e ∧ e ≤ f.size
  | 0, p, hp => ⟨Nat.le_refl _, hp⟩
  | fuel + 1, p, hp => by
    unfold scanNl
    by_cases h : p < f.size
    · rw [if_pos h]
      refine Sat.bind (rd_sat h) ?_
      intro b _
      by_cases hb : b = 10
      · rw [if_pos hb]; exact ⟨Nat.le_refl _, hp⟩
      · rw [if_neg hb]
        exact Sat.mono (scanNl_sat f fuel (p + 1) h) fun e he => ⟨by omega, he.2⟩
    · rw [if_neg h]; exact ⟨Nat.le_refl _, hp⟩

theorem nextline_sat (f : File) (p : Nat) (hp : p ≤ f.size) :
    (nextline f p).Sat fun o => ∀ np, o = some np → p ≤ np ∧ np ≤ f.size := by
  unfold nextline
  by_cases h : p = f.size
  · rw [if_pos h]; intro np hnp; cases hnp
  · rw [if_neg h]
    refine Sat.bind (scanNl_sat f _ p hp) ?_
    intro e ⟨h1, h2⟩ np hnp
    injection hnp with hnp
    subst hnp
    by_cases he : e ≠ f.size
    · rw [if_pos he]; omega
    · rw [if_neg he]; omega

theorem skipSp_sat (f : File) (lim : Nat) (hl : lim ≤ f.size) :
    ∀ fuel p, p ≤ lim → (skipSp f lim fuel p).Sat fun e => p ≤ e ∧ e ≤ lim
  | 0, p, hp => ⟨Nat.le_refl _, hp⟩
  | fuel + 1, p, hp => by
    unfold skipSp
    by_cases h : p < lim
    · rw [if_pos h]
      refine Sat.bind (rd_sat (by omega)) ?_
      intro b _
      by_cases hb : isSpace b = true
      · rw [if_pos hb]
        exact Sat.mono (skipSp_sat f lim hl fuel (p + 1) h) fun e he => ⟨by omega, he.2⟩
      · rw [if_neg hb]; exact ⟨Nat.le_refl _, hp⟩
    · rw [if_neg h]; exact ⟨Nat.le_refl _, hp⟩

theorem skipNon_sat (f : File) (lim : Nat) (hl : lim ≤ f.size) :
    ∀ fuel p, p ≤ lim → (skipNon f lim fuel p).Sat fun e => p ≤ e ∧ e ≤ lim
  | 0, p, hp => ⟨Nat.le_refl _, hp⟩
  | fuel + 1, p, hp => by
    unfold skipNon
    by_cases h : p < lim
    · rw [if_pos h]
      refine Sat.bind (rd_sat (by omega)) ?_
      intro b _
      by_cases hb : isSpace b = true
      · rw [if_pos hb]; exact ⟨Nat.le_refl _, hp⟩
      · rw [if_neg hb]
        exact Sat.mono (skipNon_sat f lim hl fuel (p + 1) h) fun e he => ⟨by omega, he.2⟩
    · rw [if_neg h]; exact ⟨Nat.le_refl _, hp⟩

theorem nextword_sat (f : File) (lim p : Nat) (hl : lim ≤ f.size) :
    (nextword f lim p).Sat fun o => ∀ w e, o = some (w, e) → p ≤ w ∧ w < lim ∧ w ≤ e ∧ e ≤ lim := by
  unfold nextword
  by_cases h : p ≥ lim
  · rw [if_pos h]; intro w e hwe; cases hwe
  · rw [if_neg h]
    refine Sat.bind (skipSp_sat f lim hl _ p (by omega)) ?_
    intro w ⟨hw1, hw2⟩
    by_cases hw : w ≥ lim
    · rw [if_pos hw]; intro w' e' hwe; cases hwe
    · rw [if_neg hw]
      refine Sat.bind (skipNon_sat f lim hl _ w hw2) ?_
      intro e ⟨he1, he2⟩ w' e' hwe
      injection hwe with hwe
      injection hwe with h1 h2
      subst h1; subst h2
      omega

theorem strncmpEq_sat (f : File) (off : Nat) (l : List UInt8) :
    ∀ n i, off + i + n ≤ f.size → (strncmpEq f off l n i).Sat fun _ => True
  | 0, _, _ => trivial
  | n + 1, i, h => by
    unfold strncmpEq
    refine Sat.bind (rd_sat (by omega)) ?_
    intro a _
    by_cases h1 : a ≠ l.getD i 0
    · rw [if_pos h1]; trivial
    · rw [if_neg h1]
      by_cases h2 : a = 0
      · rw [if_pos h2]; trivial
      · rw [if_neg h2]
        exact strncmpEq_sat f off l n (i + 1) (by omega)

/-- what `classify` guarantees about the positions it returns -/
def Line.Inside (f : File) (p : Nat) : Line → Prop
  | .comment np => p ≤ np ∧ np ≤ f.size
  | .endhdr np => p ≤ np ∧ np ≤ f.size
  | .entry np w e => p ≤ np ∧ np ≤ f.size ∧ p ≤ w ∧ w ≤ e ∧ e ≤ np

theorem classify_sat (f : File) (p : Nat) (hp : p ≤ f.size) : (classify f p).Sat (Line.Inside f p) := by
  unfold classify
  refine Sat.bind (nextline_sat f p hp) ?_
  intro o ho
  cases o with
  | none => trivial
  | some np =>
    obtain ⟨h1, h2⟩ := ho np rfl
    simp only
    refine Sat.bind (nextword_sat f np p h2) ?_
    intro o2 ho2
    cases o2 with
    | none => trivial
    | some we =>
      obtain ⟨w, e⟩ := we
      obtain ⟨a1, a2, a3, a4⟩ := ho2 w e rfl
      simp only
      refine Sat.bind (rd_sat (by omega)) ?_
      intro c _
      by_cases hc : c = 35
      · rw [if_pos hc]; exact ⟨h1, h2⟩
      · rw [if_neg hc]
        refine Sat.bind (strncmpEq_sat f w _ (e - w) 0 (by omega)) ?_
        intro b _
        cases b with
        | true => exact ⟨h1, h2⟩
        | false => exact ⟨h1, h2, a1, a3, a4⟩

theorem pass1_sat (f : File) : ∀ fuel p cnt, p ≤ f.size → (pass1 f fuel p cnt).Sat fun n => cnt ≤ n
  | 0, _, _, _ => trivial
  | fuel + 1, p, cnt, hp => by
    unfold pass1
    refine Sat.bind (classify_sat f p hp) ?_
    intro l hl
    cases l with
    | comment np => exact pass1_sat f fuel np cnt hl.2
    | endhdr np => exact Nat.le_refl _
    | entry np w e => exact Sat.mono (pass1_sat f fuel np (cnt + 1) hl.2.1) fun n hn => by omega

/-- **the second header pass never stores past the `nhdr` entries counted by the first**:
both passes classify the same lines, so the index reaches `nhdr` only at `endhdr` -/
theorem pass2_sat (f : File) : ∀ fuel p cnt n acc chk, p ≤ f.size → acc.length = cnt →
    pass1 f fuel p cnt = .ok n →
    (pass2 f n fuel p acc chk).Sat fun r => r.1 ≤ f.size ∧ r.2.1.length ≤ n
  | 0, _, _, _, _, _, _, _, h => by simp [pass1] at h
  | fuel + 1, p, cnt, n, acc, chk, hp, hacc, h => by
    unfold pass1 at h
    unfold pass2
    have hc := classify_sat f p hp
    cases hcl : classify f p with
    | reject s => trivial
    | oob i => rw [hcl] at hc; exact hc
    | idx i m => rw [hcl] at hc; exact hc
    | ok l =>
      rw [hcl] at hc h
      have hl : Line.Inside f p l := hc
      cases l with
      | comment np => exact pass2_sat f fuel np cnt n acc chk hl.2 hacc h
      | endhdr np =>
        have hn : cnt = n := by
          have : (Res.ok cnt : Res Nat) = .ok n := h
          injection this
        refine ⟨hl.2, ?_⟩
        show acc.reverse.length ≤ n
        rw [List.length_reverse]; omega
      | entry np w e =>
        have h' : pass1 f fuel np (cnt + 1) = .ok n := h
        have hle : cnt + 1 ≤ n := Sat.of_ok (pass1_sat f fuel np (cnt + 1) hl.2.1) h'
        have hlt : ¬ acc.length ≥ n := by omega
        show Res.Sat (if acc.length ≥ n then _ else _) _
        rw [if_neg hlt]
        obtain ⟨b1, b2, b3, b4, b5⟩ := hl
        refine Sat.bind (rdN_sat (by omega)) ?_
        intro name _
        refine Sat.bind (nextword_sat f np e b2) ?_
        intro o ho
        cases o with
        | none => trivial
        | some ve =>
          obtain ⟨v, ve⟩ := ve
          obtain ⟨c1, c2, c3, c4⟩ := ho v ve rfl
          simp only
          refine Sat.bind (rdN_sat (by omega)) ?_
          intro value _
          exact pass2_sat f fuel np (cnt + 1) n _ _ b2 (by simp [hacc]) h'

theorem oldFmt_sat (f : File) : ∀ fuel p, p ≤ f.size → (oldFmt f fuel p).Sat fun np => np ≤ f.size
  | 0, _, _ => trivial
  | fuel + 1, p, hp => by
    unfold oldFmt
    refine Sat.bind (nextline_sat f p hp) ?_
    intro o ho
    cases o with
    | none => trivial
    | some np =>
      obtain ⟨h1, h2⟩ := ho np rfl
      simp only
      refine Sat.bind (strncmpEq_sat f p _ (np - p) 0 (by omega)) ?_
      intro b _
      cases b with
      | true => exact h2
      | false => exact oldFmt_sat f fuel np h2

theorem swapCheck_sat {f : File} {s : S} (hs : Good f s) : (swapCheck s).Sat fun r => Good f r.1 := by
  unfold swapCheck
  refine Sat.bind (get32_sat (s := { s with swap := false, chk := false }) _ ⟨hs.1, hs.2⟩) ?_
  rintro ⟨s', magic⟩ ⟨hg, _⟩
  simp only
  split
  · exact hg
  · split
    · exact hg
    · trivial

theorem sniffS3_sat (f : File) (p np : Nat) (h : np ≤ f.size) : (sniffS3 f p np).Sat fun _ => True := by
  unfold sniffS3
  by_cases h3 : np - p ≥ 3
  · rw [if_pos h3]; exact strncmpEq_sat f p _ 3 0 (by omega)
  · rw [if_neg h3]; trivial

theorem hdrBody_sat (f : File) (p np : Nat) (isS3 : Bool) (h1 : p ≤ np) (h2 : np ≤ f.size) :
    (hdrBody f p np isS3).Sat fun r => r.1 ≤ f.size := by
  unfold hdrBody
  cases isS3 with
  | true =>
    simp only [if_true]
    have h1s := pass1_sat f (f.size - np + 1) np 0 h2
    cases hp1 : pass1 f (f.size - np + 1) np 0 with
    | reject s => trivial
    | oob i => rw [hp1] at h1s; exact h1s
    | idx i m => rw [hp1] at h1s; exact h1s
    | ok n =>
      exact Sat.mono (pass2_sat f _ np 0 n [] false h2 rfl hp1) fun r hr => hr.1
  | false =>
    simp only [Bool.false_eq_true, if_false]
    refine Sat.bind (rdN_sat (by omega)) ?_
    intro v _
    refine Sat.bind (oldFmt_sat f _ np h2) ?_
    intro q hq
    exact hq

/-- **`s3file_parse_header` reads nothing outside the file** (for every file, in particular every
truncation of a valid one), never stores past the header table, and leaves `ptr ≤ end` -/
theorem parseHeader_sat {f : File} {s : S} (hs : Good f s) : (parseHeader s).Sat fun s' => Good f s' := by
  obtain ⟨hf, hp⟩ := hs
  subst hf
  unfold parseHeader
  refine Sat.bind (nextline_sat s.f s.ptr hp) ?_
  intro o ho
  cases o with
  | none => trivial
  | some np =>
    obtain ⟨h1, h2⟩ := ho np rfl
    simp only
    refine Sat.bind (sniffS3_sat s.f s.ptr np h2) ?_
    intro isS3 _
    refine Sat.bind (hdrBody_sat s.f s.ptr np isS3 h1 h2) ?_
    intro r hr
    refine Sat.bind (swapCheck_sat (f := s.f) (s := { s with ptr := r.1, headers := r.2.1 }) ⟨rfl, hr⟩) ?_
    intro r2 hg
    exact ⟨hg.1, hg.2⟩

/-! ### read plans -/

theorem getRows_sat {f : File} (site : String) (per : Nat) :
    ∀ n (s : S), Good f s → (getRows site per n s).Sat fun s' => Good f s'
  | 0, _, hs => hs
  | n + 1, s, hs => by
    unfold getRows
    refine Sat.bind (get_sat 4 per (by omega) hs) ?_
    rintro ⟨s', c⟩ ⟨hg, _⟩
    simp only
    by_cases h : c ≠ per
    · rw [if_pos h]; trivial
    · rw [if_neg h]; exact getRows_sat site per n s' hg

/-- what a completed `tmatPlan` has established -/
def TmatOut.Consistent (o : TmatOut) : Prop :=
  0 < o.nTmat ∧ o.nTmat < 32767 ∧ 0 < o.nState ∧ o.nState < 32767 ∧ o.nDst = o.nState + 1 ∧
  o.n = o.nTmat * (o.nState * o.nDst)

theorem tmatPlan_sat (f : File) : (tmatPlan f).Sat TmatOut.Consistent := by
  unfold tmatPlan
  refine Sat.bind (parseHeader_sat (good_init f)) ?_
  intro s0 h0
  refine Sat.bind (get32_sat _ h0) ?_
  rintro ⟨s1, a⟩ ⟨h1, _⟩
  refine Sat.bind (get32_sat _ h1) ?_
  rintro ⟨s2, b⟩ ⟨h2, _⟩
  refine Sat.bind (get32_sat _ h2) ?_
  rintro ⟨s3, c⟩ ⟨h3, _⟩
  refine Sat.bind (get32_sat _ h3) ?_
  rintro ⟨s4, d⟩ ⟨h4, _⟩
  simp only
  by_cases c1 : toI32 a ≤ 0 ∨ toI32 a ≥ 32767
  · rw [if_pos c1]; trivial
  rw [if_neg c1]
  by_cases c2 : toI32 b ≤ 0 ∨ toI32 b ≥ 32767
  · rw [if_pos c2]; trivial
  rw [if_neg c2]
  by_cases c3 : toI32 c ≠ toI32 b + 1
  · rw [if_pos c3]; trivial
  rw [if_neg c3]
  by_cases c4 : toI32 d < 0 ∨ (toI32 d).toNat ≠ (toI32 a).toNat * ((toI32 b).toNat * (toI32 c).toNat)
  · rw [if_pos c4]; trivial
  rw [if_neg c4]
  by_cases c5 : (toI32 d).toNat > s4.avail / 4
  · rw [if_pos c5]; trivial
  rw [if_neg c5]
  have hn : (toI32 d).toNat = (toI32 a).toNat * ((toI32 b).toNat * (toI32 c).toNat) := by omega
  refine Sat.bind (rowsInside_sat _ _ _ hn _ (Nat.le_refl _)) ?_
  intro _ _
  refine Sat.bind (getRows_sat _ _ _ s4 h4) ?_
  intro s5 h5
  refine Sat.bind (verifyChksum_sat h5) ?_
  intro _ _
  refine ⟨?_, ?_, ?_, ?_, ?_, hn⟩
  · show 0 < (toI32 a).toNat; omega
  · show (toI32 a).toNat < 32767; omega
  · show 0 < (toI32 b).toNat; omega
  · show (toI32 b).toNat < 32767; omega
  · show (toI32 c).toNat = (toI32 b).toNat + 1; omega

theorem placeVecs_sat (n : Nat) : ∀ (L : List Nat) (l : Nat), l + sumN L ≤ n →
    (placeVecs n L l).Sat fun e => e = l + sumN L
  | [], l, _ => by simp [placeVecs, sumN, Res.Sat]
  | v :: vs, l, h => by
    unfold placeVecs
    have h' : l + v + sumN vs ≤ n := by simp only [sumN] at h; omega
    rw [if_pos (by omega)]
    exact Sat.mono (placeVecs_sat n vs (l + v) h') fun e he => by simp only [sumN]; omega

theorem sumN_append (a b : List Nat) : sumN (a ++ b) = sumN a + sumN b := by
  induction a with
  | nil => simp [sumN]
  | cons x r ih => simp only [List.cons_append, sumN, ih]; omega

theorem sumN_replicate (d v : Nat) : sumN (List.replicate d v) = d * v := by
  induction d with
  | zero => simp [sumN]
  | succ k ih => rw [List.replicate_succ]; simp only [sumN, ih]; rw [Nat.succ_mul]; omega

theorem sumN_flatMap_replicate (d : Nat) (vl : List Nat) :
    sumN (vl.flatMap fun v => List.replicate d v) = d * sumN vl := by
  induction vl with
  | nil => simp [sumN]
  | cons v r ih =>
    rw [List.flatMap_cons, sumN_append, sumN_replicate, ih]
    simp only [sumN]; rw [Nat.mul_add]

theorem sumN_replicate_flatten (a : Nat) (X : List Nat) : sumN (List.replicate a X).flatten = a * sumN X := by
  induction a with
  | zero => simp [sumN]
  | succ k ih => rw [List.replicate_succ, List.flatten_cons, sumN_append, ih, Nat.succ_mul]; omega

/-- the vectors laid out by the triple loop fill exactly `n_mgau * n_density * blk` floats -/
theorem sumN_vecOrder (a d : Nat) (vl : List Nat) : sumN (vecOrder a d vl) = a * d * sumN vl := by
  unfold vecOrder
  rw [sumN_replicate_flatten, sumN_flatMap_replicate, Nat.mul_assoc]

/-- what a completed `gaudenParamPlan` has established -/
def GauOut.Consistent (o : GauOut) : Prop :=
  0 < o.nMgau ∧ 0 < o.nFeat ∧ 0 < o.nDensity ∧ o.veclen.length = o.nFeat ∧
  o.n = o.nMgau * o.nDensity * sumN o.veclen ∧ sumN (vecOrder o.nMgau o.nDensity o.veclen) = o.n

theorem gaudenParamPlan_sat (f : File) : (gaudenParamPlan f).Sat GauOut.Consistent := by
  unfold gaudenParamPlan
  refine Sat.bind (parseHeader_sat (good_init f)) ?_
  intro s0 h0
  refine Sat.bind (get32_sat _ h0) ?_
  rintro ⟨s1, a⟩ ⟨h1, _⟩
  refine Sat.bind (get32_sat _ h1) ?_
  rintro ⟨s2, b⟩ ⟨h2, _⟩
  refine Sat.bind (get32_sat _ h2) ?_
  rintro ⟨s3, c⟩ ⟨h3, _⟩
  simp only
  by_cases c1 : toI32 a ≤ 0 ∨ toI32 b ≤ 0 ∨ toI32 c ≤ 0 ∨ (toI32 b).toNat > s3.avail / 4
  · rw [if_pos c1]; trivial
  rw [if_neg c1]
  refine Sat.bind (get_sat 4 _ (by omega) h3) ?_
  rintro ⟨s4, got⟩ ⟨h4, _⟩
  simp only
  by_cases c2 : got ≠ (toI32 b).toNat
  · rw [if_pos c2]; trivial
  rw [if_neg c2]
  split
  · trivial
  rename_i c3
  refine Sat.bind (get32_sat _ h4) ?_
  rintro ⟨s5, d⟩ ⟨h5, _⟩
  simp only
  split
  · trivial
  rename_i c4
  split
  · trivial
  rename_i c5
  have hn : (toI32 d).toNat = _ := Classical.byContradiction fun h => c4 (Or.inr (Or.inr h))
  refine Sat.bind (placeVecs_sat _ _ 0 (by rw [sumN_vecOrder, ← hn]; omega)) ?_
  intro e _
  refine Sat.bind (get_sat 4 _ (by omega) h5) ?_
  rintro ⟨s6, got2⟩ ⟨h6, _⟩
  simp only
  split
  · trivial
  refine Sat.bind (verifyChksum_sat h6) ?_
  intro _ _
  refine ⟨?_, ?_, ?_, ?_, ?_, ?_⟩
  · show 0 < (toI32 a).toNat; omega
  · show 0 < (toI32 b).toNat; omega
  · show 0 < (toI32 c).toNat; omega
  · simp
  · exact hn
  · rw [sumN_vecOrder]; exact hn.symm

theorem gaudenPlan_sat (means vars : File) :
    (gaudenPlan means vars).Sat fun o => o.Consistent ∧
      ∃ v, gaudenParamPlan vars = .ok v ∧ v.Consistent ∧ v.nMgau = o.nMgau ∧ v.nFeat = o.nFeat ∧
        v.nDensity = o.nDensity ∧ v.veclen = o.veclen := by
  unfold gaudenPlan
  refine Sat.bind (gaudenParamPlan_sat means) ?_
  intro m hm
  have hv := gaudenParamPlan_sat vars
  cases hvv : gaudenParamPlan vars with
  | reject s => trivial
  | oob i => rw [hvv] at hv; exact hv
  | idx i n => rw [hvv] at hv; exact hv
  | ok v =>
    rw [hvv] at hv
    show Res.Sat (if _ then _ else _) _
    split
    · trivial
    rename_i c1
    split
    · trivial
    rename_i c2
    refine ⟨hm, v, rfl, hv, ?_, ?_, ?_, ?_⟩
    · exact Classical.byContradiction fun h => c1 (Or.inl h)
    · exact Classical.byContradiction fun h => c1 (Or.inr (Or.inl h))
    · exact Classical.byContradiction fun h => c1 (Or.inr (Or.inr h))
    · exact Classical.byContradiction fun h => c2 h

theorem ldaPlan_sat (f : File) (streamLen : Nat) :
    (ldaPlan f streamLen).Sat fun o => o.n = o.nLda * o.rows * o.cols ∧ o.cols = streamLen ∧ 0 < o.n := by
  unfold ldaPlan
  refine Sat.bind (parseHeader_sat (good_init f)) ?_
  intro s0 h0
  refine Sat.bind (get3d_sat 4 (by omega) h0) ?_
  rintro ⟨s1, d1, d2, d3, a⟩ ⟨h1, he, hpos, _⟩
  simp only at h1 he hpos ⊢
  refine Sat.bind (verifyChksum_sat h1) ?_
  intro _ _
  split
  · trivial
  rename_i c
  exact ⟨he, Classical.byContradiction fun h => c h, hpos⟩

theorem sdTitleLen_sat {f : File} {s : S} (t : Nat) (hs : Good f s) :
    (sdTitleLen s t).Sat fun r => Good f r.1 := by
  unfold sdTitleLen
  split
  · exact hs
  · split
    · exact ⟨hs.1, hs.2⟩
    · trivial

theorem sdBlock_sat {f : File} {s : S} (n : Nat) (site : String) (hs : Good f s) :
    (sdBlock s n site).Sat fun s' => Good f s' := by
  unfold sdBlock
  by_cases h : n < 1 ∨ n > s.avail
  · rw [if_pos h]; trivial
  rw [if_neg h]
  have ha : s.avail = s.f.size - s.ptr := rfl
  have hp := hs.2
  have hsz : s.f.size = f.size := by rw [hs.1]
  refine Sat.bind (rd_sat (by omega)) ?_
  intro z _
  split
  · trivial
  · exact Sat.mono (skip_sat n site hs) fun s' h' => h'.1

theorem sdStrings_sat {f : File} : ∀ fuel (s : S) (h : SdHdr), Good f s →
    (sdStrings fuel s h).Sat fun r => Good f r.1
  | 0, _, _, _ => trivial
  | fuel + 1, s, h, hs => by
    unfold sdStrings
    refine Sat.bind (get32_sat _ hs) ?_
    rintro ⟨s1, nn⟩ ⟨h1, _⟩
    simp only
    split
    · exact h1
    split
    · trivial
    rename_i c2
    have ha : s1.avail = s1.f.size - s1.ptr := rfl
    have hp := h1.2
    have hsz : s1.f.size = f.size := by rw [h1.1]
    refine Sat.bind (rdN_sat (by omega)) ?_
    intro raw _
    refine Sat.bind (skip_sat _ _ h1) ?_
    intro s2 h2
    exact sdStrings_sat fuel s2 _ h2.1

theorem sdRowsCols_sat {f : File} {s : S} (h : SdHdr) (hs : Good f s) :
    (sdRowsCols s h).Sat fun r => Good f r.1 := by
  unfold sdRowsCols
  split
  · refine Sat.bind (get32_sat _ hs) ?_
    rintro ⟨s1, r⟩ ⟨h1, _⟩
    refine Sat.bind (get32_sat _ h1) ?_
    rintro ⟨s2, c⟩ ⟨h2, _⟩
    exact h2
  · exact hs

theorem sdCodebook_sat {f : File} {s : S} (n : Nat) (hs : Good f s) :
    (sdCodebook s n).Sat fun s' => Good f s' ∧ s'.ptr = s.ptr + n := by
  unfold sdCodebook
  split
  · exact Sat.mono (skip_sat _ _ hs) fun s' h' => ⟨h'.1, h'.2.1⟩
  · rename_i h0
    have : n = 0 := Classical.byContradiction fun hx => h0 hx
    exact ⟨hs, by omega⟩

/-- every row pointer set up by `read_sendump` (and the `step` bytes it stands for) is inside the file -/
theorem sdRows_sat {f : File} (step : Nat) : ∀ n (s : S), Good f s →
    (sdRows step n s).Sat fun s' => Good f s' ∧ s'.ptr = s.ptr + n * step
  | 0, s, hs => ⟨hs, by omega⟩
  | n + 1, s, hs => by
    unfold sdRows
    refine Sat.bind (skip_sat _ _ hs) ?_
    intro s1 ⟨h1, hp, _⟩
    exact Sat.mono (sdRows_sat step n s1 h1) fun s' ⟨hg, hq⟩ => ⟨hg, by rw [hq, hp, Nat.succ_mul]; omega⟩

/-- `read_sendump` completes only with: one row per density, at least one column per senone, `n_bits` 8 or 4,
a cluster codebook of 0 or 16 bytes lying in the file right before the first row, and the reader position after
the last row exactly `n_feat * n_density` rows of `step = sdStep bits cols` bytes (`cols`, or `(cols + 1) / 2`
when two weights are packed per byte) behind the first row — all inside the file -/
theorem sendumpPlan_sat (f : File) (gFeat gDensity mdefSen : Nat) :
    (sendumpPlan f gFeat gDensity mdefSen).Sat fun o =>
      o.rows = gDensity ∧ mdefSen ≤ o.cols ∧ o.endPtr ≤ f.size ∧
      (o.bits = 8 ∨ o.bits = 4) ∧ (o.clust = 0 ∨ o.clust = 16) ∧ o.clust ≤ o.dataOff ∧
      o.endPtr = o.dataOff + gFeat * gDensity * sdStep o.bits o.cols := by
  unfold sendumpPlan
  refine Sat.bind (get32_sat _ (good_init f)) ?_
  rintro ⟨s1, t⟩ ⟨h1, _⟩
  refine Sat.bind (sdTitleLen_sat t h1) ?_
  rintro ⟨s2, n⟩ h2
  refine Sat.bind (sdBlock_sat n _ h2) ?_
  intro s3 h3
  refine Sat.bind (get32_sat _ h3) ?_
  rintro ⟨s4, hh⟩ ⟨h4, _⟩
  simp only
  split
  · trivial
  refine Sat.bind (sdBlock_sat _ _ h4) ?_
  intro s5 h5
  refine Sat.bind (sdStrings_sat _ s5 _ h5) ?_
  rintro ⟨s6, h⟩ h6
  refine Sat.bind (sdRowsCols_sat h h6) ?_
  rintro ⟨s7, r, c⟩ h7
  simp only at h7 ⊢
  split
  · trivial
  split
  · trivial
  split
  · trivial
  rename_i hsen
  split
  · trivial
  split
  · trivial
  rename_i hbits
  split
  · trivial
  rename_i hrc
  refine Sat.bind (sdCodebook_sat _ h7) ?_
  intro s8 ⟨h8, hp8⟩
  refine Sat.bind (sdRows_sat _ _ s8 h8) ?_
  intro s9 ⟨h9, hp9⟩
  have hb : h.nBits = 8 ∨ h.nBits = 4 := Classical.byContradiction fun hx => hbits hx
  refine ⟨rfl, ?_, h9.2, ?_, ?_, ?_, ?_⟩
  · show mdefSen ≤ c.toNat
    have : h.nSen = (mdefSen : Int) := Classical.byContradiction fun hx => hsen hx
    omega
  · show h.nBits.toNat = 8 ∨ h.nBits.toNat = 4
    omega
  · show (if h.nClust = 0 then 0 else 16) = 0 ∨ (if h.nClust = 0 then 0 else 16) = 16
    split <;> simp
  · show (if h.nClust = 0 then 0 else 16) ≤ s8.ptr
    omega
  · show s9.ptr = s8.ptr + gFeat * gDensity * sdStep h.nBits.toNat c.toNat
    rw [hp9]
    congr 1
    unfold sdStep
    rcases hb with hb | hb <;> simp [hb]

theorem mixwPlan_sat (f : File) (gFeat gDensity : Nat) :
    (mixwPlan f gFeat gDensity).Sat fun o => 0 < o.nSen ∧ o.nFeat = gFeat ∧ o.nComp = gDensity ∧
      o.n = o.nSen * o.nFeat * o.nComp := by
  unfold mixwPlan
  refine Sat.bind (parseHeader_sat (good_init f)) ?_
  intro s0 h0
  refine Sat.bind (get32_sat _ h0) ?_
  rintro ⟨s1, a⟩ ⟨h1, _⟩
  refine Sat.bind (get32_sat _ h1) ?_
  rintro ⟨s2, b⟩ ⟨h2, _⟩
  refine Sat.bind (get32_sat _ h2) ?_
  rintro ⟨s3, c⟩ ⟨h3, _⟩
  refine Sat.bind (get32_sat _ h3) ?_
  rintro ⟨s4, d⟩ ⟨h4, _⟩
  simp only
  split
  · trivial
  split
  · trivial
  split
  · trivial
  rename_i c3
  split
  · trivial
  have hn : (toI32 d).toNat = (toI32 a).toNat * gFeat * gDensity :=
    Classical.byContradiction fun h => c3 (Or.inr (Or.inr (Or.inr h)))
  refine Sat.bind (rowsInside_sat _ _ _ hn _ (Nat.le_refl _)) ?_
  intro _ _
  refine Sat.bind (getRows_sat _ _ _ s4 h4) ?_
  intro _ _
  refine ⟨?_, rfl, rfl, hn⟩
  show 0 < (toI32 a).toNat
  have : ¬ toI32 a ≤ 0 := fun h => c3 (Or.inl h)
  omega

/-! ### arbitrary op sequences -/

/-- an op is admissible when its element size is positive (the loaders use 1, 2 and 4) -/
def Op.Admissible : Op → Prop
  | .get k _ => 0 < k
  | .get1d k => 0 < k
  | .get2d k => 0 < k
  | .get3d k => 0 < k
  | _ => True

theorem Op.run_sat {f : File} {s : S} (o : Op) (ho : o.Admissible) (hs : Good f s) :
    (o.run s).Sat fun s' => Good f s' := by
  cases o with
  | hdr => exact parseHeader_sat hs
  | get k n => exact Sat.bind (get_sat k n ho hs) fun r hr => hr.1
  | get1d k => exact Sat.bind (get1d_sat k ho hs) fun r hr => hr.1
  | get2d k => exact Sat.bind (get2d_sat k ho hs) fun r hr => hr.1
  | get3d k => exact Sat.bind (get3d_sat k ho hs) fun r hr => hr.1
  | verify => exact verifyChksum_sat hs

theorem runOps_sat {f : File} : ∀ (ops : List Op) (s : S), (∀ o ∈ ops, o.Admissible) → Good f s →
    (runOps ops s).Sat fun s' => Good f s'
  | [], _, _, hs => hs
  | o :: os, s, ha, hs => by
    unfold runOps
    refine Sat.bind (Op.run_sat o (ha o (by simp)) hs) ?_
    intro s' hs'
    exact runOps_sat os s' (fun o' ho' => ha o' (by simp [ho'])) hs'

end SSVerif.S3file
