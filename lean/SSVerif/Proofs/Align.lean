import SSVerif.Model.Align
/-!
Helper lemmas for C04: `modifyAt`, the backtrace loop invariant, the two loops of
`alignment_propagate` on block-structured vectors, tilings.
-/
namespace SSVerif.Align

/-! ### `modifyAt` -/

theorem length_modifyAt (g : Entry → Entry) : ∀ (k : Nat) (l : List Entry), (modifyAt g k l).length = l.length
  | _, [] => by simp [modifyAt]
  | 0, _ :: _ => rfl
  | k + 1, _ :: l => by simp [modifyAt, length_modifyAt g k l]

theorem drop_modifyAt_succ (g : Entry → Entry) :
    ∀ (k : Nat) (l : List Entry), (modifyAt g k l).drop (k + 1) = l.drop (k + 1)
  | _, [] => by simp [modifyAt]
  | 0, _ :: _ => by simp [modifyAt]
  | k + 1, _ :: l => by simp [modifyAt, drop_modifyAt_succ g k l]

theorem drop_modifyAt (g : Entry → Entry) :
    ∀ (k : Nat) (l : List Entry), k < l.length →
      ∃ e, l.drop k = e :: l.drop (k + 1) ∧ (modifyAt g k l).drop k = g e :: l.drop (k + 1)
  | _, [], h => by simp at h
  | 0, e :: l, _ => ⟨e, by simp, by simp [modifyAt]⟩
  | k + 1, _ :: l, h => by
    obtain ⟨e, h1, h2⟩ := drop_modifyAt g k l (by simpa using h)
    exact ⟨e, by simpa using h1, by simpa [modifyAt] using h2⟩

theorem map_modifyAt {β : Type} (h : Entry → β) (g : Entry → Entry) (hg : ∀ e, h (g e) = h e) :
    ∀ (k : Nat) (l : List Entry), (modifyAt g k l).map h = l.map h
  | _, [] => by simp [modifyAt]
  | 0, _ :: _ => by simp [modifyAt, hg]
  | k + 1, _ :: l => by simp [modifyAt, map_modifyAt h g hg k l]

theorem modifyAt_append_len (g : Entry → Entry) (p : Entry) (rest : List Entry) :
    ∀ (done : List Entry), modifyAt g done.length (done ++ p :: rest) = done ++ g p :: rest
  | [] => rfl
  | _ :: d => by simp [modifyAt, modifyAt_append_len g p rest d]

/-! ### tilings -/

theorem contig_append : ∀ (l1 l2 : List Entry) (a c : Int),
    Contig (l1 ++ l2) a c ↔ ∃ b, Contig l1 a b ∧ Contig l2 b c
  | [], l2, a, c => by
    constructor
    · intro h; exact ⟨a, rfl, h⟩
    · rintro ⟨b, h1, h2⟩
      have : a = b := h1
      subst this; exact h2
  | e :: l1, l2, a, c => by
    simp only [List.cons_append, Contig]
    constructor
    · rintro ⟨h1, h2, h3⟩
      obtain ⟨b, hb1, hb2⟩ := (contig_append l1 l2 _ c).1 h3
      exact ⟨b, ⟨h1, h2, hb1⟩, hb2⟩
    · rintro ⟨b, ⟨h1, h2, h3⟩, h4⟩
      exact ⟨h1, h2, (contig_append l1 l2 _ c).2 ⟨b, h3, h4⟩⟩

theorem contig_sum : ∀ (l : List Entry) (a b : Int), Contig l a b → b = a + sumDur l
  | [], a, b, h => by
    have : a = b := h
    simp [sumDur, this]
  | e :: l, a, b, h => by
    obtain ⟨_, _, h3⟩ := h
    have := contig_sum l _ b h3
    simp only [sumDur, List.map_cons, List.sum_cons] at *
    omega

theorem contig_le : ∀ (l : List Entry) (a b : Int), Contig l a b → a ≤ b
  | [], a, b, h => by
    have : a = b := h
    omega
  | e :: l, a, b, h => by
    obtain ⟨_, h2, h3⟩ := h
    have := contig_le l _ b h3
    omega

theorem contig_lt (e : Entry) (l : List Entry) (a b : Int) (h : Contig (e :: l) a b) : a < b := by
  obtain ⟨_, h2, h3⟩ := h
  have := contig_le l _ b h3
  omega

/-- every segment of a tiling of `[a,b)` lies inside `[a,b)` -/
theorem contig_mem : ∀ (l : List Entry) (a b : Int), Contig l a b →
    ∀ e ∈ l, a ≤ e.start ∧ e.start + e.duration ≤ b
  | [], _, _, _, e, he => by simp at he
  | x :: l, a, b, h, e, he => by
    obtain ⟨h1, h2, h3⟩ := h
    rcases List.mem_cons.1 he with rfl | he
    · have := contig_le l _ b h3
      omega
    · have := contig_mem l _ b h3 e he
      omega

/-! ### backtrace -/

/-- fields the backtrace and `alignment_propagate` never touch -/
def keyOf (e : Entry) : Nat × Nat × Int × Int × Int := (e.parent, e.child, e.id, e.ssid, e.tmatid)

/-- the aligned segment of every entry of the first list lies in the activity window (`sfOf`, `efOf`)
of the corresponding populated entry of the second -/
def Within2 : List Entry → List Entry → Prop
  | [], [] => True
  | x :: xs, y :: ys => sfOf y ≤ x.start ∧ x.start + x.duration ≤ efOf y ∧ Within2 xs ys
  | _, _ => False

/-- cumulative path score with which state `j` (entry `e`) was entered: 0 for state 0, otherwise the score
of the token of state `j` in the frame before its first frame -/
def cumIn (tokens : List (List Tok)) (j : Nat) (e : Entry) : Int :=
  if j = 0 then 0 else ((tokAt tokens (e.start - 1).toNat j).map (·.score)).getD 0

/-- each state score is the difference of the cumulative path scores at its two ends; the last state
ends with the final out-score.  `j` = index of the first entry of the list. -/
def ScoreChain (tokens : List (List Tok)) (final : Tok) : Nat → List Entry → Prop
  | _, [] => True
  | j, [e] => e.score = final.score - cumIn tokens j e
  | j, e :: e' :: r => e.score = cumIn tokens (j + 1) e' - cumIn tokens j e ∧ ScoreChain tokens final (j + 1) (e' :: r)

def outCum (tokens : List (List Tok)) (final : Tok) (j : Nat) : List Entry → Int
  | [] => final.score
  | e :: _ => cumIn tokens j e

theorem scoreChain_cons (tokens : List (List Tok)) (final : Tok) (j : Nat) (e : Entry) (r : List Entry) :
    ScoreChain tokens final j (e :: r) ↔
      (e.score = outCum tokens final (j + 1) r - cumIn tokens j e ∧ ScoreChain tokens final (j + 1) r) := by
  cases r with
  | nil => simp [ScoreChain, outCum]
  | cons e' r => simp [ScoreChain, outCum]

theorem scoreChain_sum (tokens : List (List Tok)) (final : Tok) :
    ∀ (l : List Entry) (j : Nat), ScoreChain tokens final j l → sumScore l = final.score - outCum tokens final j l
  | [], j, _ => by simp [sumScore, outCum]
  | e :: r, j, h => by
    obtain ⟨h1, h2⟩ := (scoreChain_cons tokens final j e r).1 h
    have := scoreChain_sum tokens final r (j + 1) h2
    simp only [sumScore, List.map_cons, List.sum_cons, outCum] at *
    omega

def winOf (states0 : List Entry) (k : Nat) : Int × Int :=
  (sfOf (states0.getD k default), efOf (states0.getD k default))

theorem wfWalk_win (tokens : List (List Tok)) (win : Nat → Int × Int) (f k : Nat)
    (h : wfWalk tokens win f k = true) : (win k).1 ≤ (f : Int) ∧ (f : Int) < (win k).2 := by
  cases f with
  | zero =>
    simp only [wfWalk, Bool.and_eq_true, beq_iff_eq, decide_eq_true_eq] at h
    obtain ⟨rfl, h2⟩ := h
    simpa using h2
  | succ f =>
    simp only [wfWalk, Bool.and_eq_true, decide_eq_true_eq] at h
    have := h.1
    push_cast
    exact this

structure BTInv (tokens : List (List Tok)) (final : Tok) (T : Int) (states0 : List Entry) (k : Nat) (s : BT) : Prop where
  id : s.last.id = (k : Int)
  len : s.states.length = states0.length
  klt : k < states0.length
  contig : Contig (s.states.drop (k + 1)) s.lastFrame T
  within : Within2 (s.states.drop (k + 1)) (states0.drop (k + 1))
  chain : ScoreChain tokens final (k + 1) (s.states.drop (k + 1))
  lastScore : s.last.score = outCum tokens final (k + 1) (s.states.drop (k + 1))
  keys : s.states.map keyOf = states0.map keyOf
  hi : s.lastFrame ≤ (winOf states0 k).2

theorem btLoop_spec (tokens : List (List Tok)) (final : Tok) (T : Int) (states0 : List Entry) :
    ∀ (f k : Nat) (s : BT), wfWalk tokens (winOf states0) f k = true → BTInv tokens final T states0 k s →
      (f : Int) < s.lastFrame →
      ∃ s', btLoop tokens f s = some s' ∧ BTInv tokens final T states0 0 s' ∧ 0 < s'.lastFrame ∧
        (winOf states0 0).1 ≤ 0 := by
  intro f
  induction f with
  | zero =>
    intro k s hw hI hlt
    have hwin := wfWalk_win _ _ _ _ hw
    simp only [wfWalk, Bool.and_eq_true, beq_iff_eq] at hw
    obtain ⟨rfl, _⟩ := hw
    exact ⟨s, rfl, hI, by simpa using hlt, by simpa using hwin.1⟩
  | succ f ih =>
    intro k s hw hI hlt
    have hwin := wfWalk_win _ _ _ _ hw
    simp only [wfWalk, Bool.and_eq_true, decide_eq_true_eq] at hw
    obtain ⟨_, hw⟩ := hw
    cases htok : tokAt tokens f k with
    | none => simp [htok] at hw
    | some t =>
      simp only [htok, Bool.and_eq_true, decide_eq_true_eq, Bool.or_eq_true, beq_iff_eq] at hw
      obtain ⟨⟨hnn, hstep⟩, hw'⟩ := hw
      have hid : s.last.id = (k : Int) := hI.id
      have htid : t.id = ((t.id.toNat : Nat) : Int) := (Int.toNat_of_nonneg hnn).symm
      have hnotneg : ¬ s.last.id < 0 := by omega
      have htoNat : s.last.id.toNat = k := by simp [hid]
      have hne1 : t.id ≠ -1 := by omega
      have hne2 : s.last.id ≠ -1 := by omega
      rcases hstep with hsame | hprev
      · -- no state boundary
        have hEq : t.id = s.last.id := by omega
        have hstep' : btStep tokens f s = some s := by
          unfold btStep
          simp [hnotneg, htoNat, htok, hne2, hEq]
        obtain ⟨s', h1, h2⟩ := ih k s (by rw [hsame] at hw'; exact hw') hI (by push_cast at hlt; omega)
        exact ⟨s', by simp [btLoop, hstep', h1], h2⟩
      · -- boundary: state k starts in frame f+1
        have hNe : t.id ≠ s.last.id := by omega
        have hklen : k < s.states.length := by rw [hI.len]; exact hI.klt
        let g : Entry → Entry := fun e => { e with start := (f : Int) + 1, duration := s.lastFrame - ((f : Int) + 1),
                                                    score := s.last.score - t.score }
        let s1 : BT := { last := t, lastFrame := (f : Int) + 1, states := modifyAt g k s.states }
        have hstep' : btStep tokens f s = some s1 := by
          unfold btStep
          simp [hnotneg, htoNat, htok, hne1, hNe, hklen, s1, g]
        obtain ⟨e, hd1, hd2⟩ := drop_modifyAt g k s.states hklen
        have hk0 : states0.drop k = states0[k]'hI.klt :: states0.drop (k + 1) := List.drop_eq_getElem_cons hI.klt
        have hwk : winOf states0 k = (sfOf (states0[k]'hI.klt), efOf (states0[k]'hI.klt)) := by
          simp [winOf, List.getElem?_eq_getElem hI.klt]
        have hwin' := wfWalk_win _ _ _ _ hw'
        have hkk : t.id.toNat + 1 = k := hprev
        have hI1 : BTInv tokens final T states0 t.id.toNat s1 := by
          refine ⟨htid, ?_, by have := hI.klt; omega, ?_, ?_, ?_, ?_, ?_, ?_⟩
          · simp [s1, length_modifyAt, hI.len]
          · show Contig ((modifyAt g k s.states).drop (t.id.toNat + 1)) ((f : Int) + 1) T
            rw [hkk, hd2]
            refine ⟨rfl, ?_, ?_⟩
            · show 0 < s.lastFrame - ((f : Int) + 1)
              push_cast at hlt; omega
            · have : ((f : Int) + 1 + (s.lastFrame - ((f : Int) + 1))) = s.lastFrame := by omega
              show Contig (s.states.drop (k + 1)) ((f : Int) + 1 + (s.lastFrame - ((f : Int) + 1))) T
              rw [this]; exact hI.contig
          · show Within2 ((modifyAt g k s.states).drop (t.id.toNat + 1)) (states0.drop (t.id.toNat + 1))
            rw [hkk, hd2, hk0]
            refine ⟨?_, ?_, hI.within⟩
            · show sfOf _ ≤ (f : Int) + 1
              have := hwin.1; rw [hwk] at this; push_cast at this; exact this
            · show (f : Int) + 1 + (s.lastFrame - ((f : Int) + 1)) ≤ efOf _
              have := hI.hi; rw [hwk] at this
              simp only at this
              omega
          · show ScoreChain tokens final (t.id.toNat + 1) ((modifyAt g k s.states).drop (t.id.toNat + 1))
            rw [hkk, hd2, scoreChain_cons]
            refine ⟨?_, hI.chain⟩
            show s.last.score - t.score = outCum tokens final (k + 1) (s.states.drop (k + 1)) - cumIn tokens k (g e)
            have hc : cumIn tokens k (g e) = t.score := by
              have hk : k ≠ 0 := by omega
              simp [cumIn, hk, g, htok]
            rw [hc, hI.lastScore]
          · show t.score = outCum tokens final (t.id.toNat + 1) ((modifyAt g k s.states).drop (t.id.toNat + 1))
            rw [hkk, hd2]
            have hk : k ≠ 0 := by omega
            simp [outCum, cumIn, hk, g, htok]
          · show (modifyAt g k s.states).map keyOf = states0.map keyOf
            rw [map_modifyAt keyOf g (fun _ => rfl)]; exact hI.keys
          · show (f : Int) + 1 ≤ (winOf states0 t.id.toNat).2
            have := hwin'.2; omega
        obtain ⟨s', h1, h2⟩ := ih t.id.toNat s1 hw' hI1 (by show (f : Int) < (f : Int) + 1; omega)
        exact ⟨s', by simp [btLoop, hstep', h1], h2⟩

/-- **Backtrace.**  If the token stack encodes a well-formed path (`wfTokens`, windows taken from the populated
state entries), `state_align_search_finish` succeeds and the state vector it leaves tiles `[0,T)` with positive
durations, every state inside its activity window, scores chained as differences of cumulative token
scores, and no other field changed. -/
theorem backtrace_spec (tokens : List (List Tok)) (final : Tok) (T : Nat) (states0 : List Entry)
    (h : wfTokens tokens (winOf states0) T states0.length final = true) :
    ∃ st, backtrace tokens T final states0 = some st ∧ Contig st 0 T ∧ Within2 st states0 ∧
      ScoreChain tokens final 0 st ∧ st.map keyOf = states0.map keyOf := by
  simp only [wfTokens, Bool.and_eq_true, decide_eq_true_eq] at h
  obtain ⟨⟨⟨hT, hS⟩, hfin⟩, hw⟩ := h
  have hwin := wfWalk_win _ _ _ _ hw
  let s0 : BT := { last := final, lastFrame := T, states := states0 }
  have hSS : states0.length - 1 + 1 = states0.length := by omega
  have hI0 : BTInv tokens final T states0 (states0.length - 1) s0 := by
    refine ⟨?_, rfl, by omega, ?_, ?_, ?_, ?_, rfl, ?_⟩
    · show final.id = ((states0.length - 1 : Nat) : Int)
      rw [hfin]; omega
    · show Contig (states0.drop (states0.length - 1 + 1)) (T : Int) T
      rw [hSS, List.drop_length]; exact rfl
    · show Within2 (states0.drop (states0.length - 1 + 1)) (states0.drop (states0.length - 1 + 1))
      rw [hSS, List.drop_length]; exact True.intro
    · show ScoreChain tokens final _ (states0.drop (states0.length - 1 + 1))
      rw [hSS, List.drop_length]; exact True.intro
    · show final.score = outCum tokens final _ (states0.drop (states0.length - 1 + 1))
      rw [hSS, List.drop_length]; rfl
    · show (T : Int) ≤ _
      have := hwin.2; omega
  obtain ⟨s', hl, hI, hpos, hlo⟩ := btLoop_spec tokens final T states0 (T - 1) (states0.length - 1) s0 hw hI0
    (by show ((T - 1 : Nat) : Int) < (T : Int); omega)
  have hne : final.id ≠ -1 := by omega
  have hlen : 0 < s'.states.length := by rw [hI.len]; omega
  let g0 : Entry → Entry := fun e => { e with start := 0, duration := s'.lastFrame, score := s'.last.score }
  refine ⟨modifyAt g0 0 s'.states, ?_, ?_, ?_, ?_, ?_⟩
  · unfold backtrace
    simp only [hne, if_false]
    show (match btLoop tokens (T - 1) s0 with
      | none => none
      | some s => if 0 < s.states.length then some (modifyAt (fun e => { e with start := 0, duration := s.lastFrame, score := s.last.score }) 0 s.states) else none) = _
    rw [hl]
    simp [hlen, g0]
  all_goals
    obtain ⟨e, hd1, hd2⟩ := drop_modifyAt g0 0 s'.states hlen
    simp only [List.drop_zero] at hd1 hd2
    have h0 : 0 < states0.length := by omega
    have hk0 : states0 = states0[0]'h0 :: states0.drop 1 := by
      have := List.drop_eq_getElem_cons h0
      simpa using this
    have hwk : winOf states0 0 = (sfOf (states0[0]'h0), efOf (states0[0]'h0)) := by
      simp [winOf, List.getElem?_eq_getElem h0]
  · rw [hd2]
    refine ⟨rfl, hpos, ?_⟩
    show Contig (s'.states.drop (0 + 1)) (0 + s'.lastFrame) T
    have : (0 + s'.lastFrame) = s'.lastFrame := by omega
    rw [this]; exact hI.contig
  · rw [hd2, hk0]
    refine ⟨?_, ?_, hI.within⟩
    · show sfOf _ ≤ (0 : Int)
      rw [hwk] at hlo; exact hlo
    · show (0 : Int) + s'.lastFrame ≤ efOf _
      have := hI.hi; rw [hwk] at this
      simp only at this
      omega
  · rw [hd2, scoreChain_cons]
    refine ⟨?_, hI.chain⟩
    show s'.last.score = outCum tokens final (0 + 1) (s'.states.drop (0 + 1)) - cumIn tokens 0 (g0 e)
    rw [hI.lastScore]; simp [cumIn]
  · rw [map_modifyAt keyOf g0 (fun _ => rfl)]; exact hI.keys

end SSVerif.Align
