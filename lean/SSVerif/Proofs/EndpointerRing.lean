import SSVerif.Model.Endpointer
/-!
# Ring queue of `ps_endpointer.c` refines the capped FIFO (helper lemmas for C15)

`Ring c e q` says that the ring state `e` represents the list `q` (oldest first): slot
`(pos + k) % maxlen` holds the `k`-th element, for `k < n = q.length ≤ maxlen`, `pos < maxlen`.
Everything hangs on injectivity of `k ↦ (pos + k) % maxlen` on `k < maxlen` (`mod_inj`).
-/
set_option linter.unusedSimpArgs false

namespace SSVerif.Endpointer

theorem mod_inj {m p a b : Nat} (ha : a < m) (hb : b < m) (h : (p + a) % m = (p + b) % m) : a = b := by
  rcases Nat.le_total a b with hab | hab
  · have := Nat.sub_mod_eq_zero_of_mod_eq h.symm
    have h2 : (p + b) - (p + a) = b - a := by omega
    rw [h2] at this
    have : b - a = 0 := by
      have hlt : b - a < m := by omega
      rw [Nat.mod_eq_of_lt hlt] at this; exact this
    omega
  · have := Nat.sub_mod_eq_zero_of_mod_eq h
    have h2 : (p + a) - (p + b) = a - b := by omega
    rw [h2] at this
    have : a - b = 0 := by
      have hlt : a - b < m := by omega
      rw [Nat.mod_eq_of_lt hlt] at this; exact this
    omega

theorem succ_mod_add (p k m : Nat) : ((p + 1) % m + k) % m = (p + (k + 1)) % m := by
  rw [Nat.mod_add_mod]; congr 1; omega

/-- the abstract state a ring state stands for, given the queue contents -/
def toSpec (e : Ep α) (q : List (α × Bool)) : Spec α :=
  { inSpeech := e.inSpeech, q := q, qstart := e.qstart, tsFrames := e.tsFrames, tsSamples := e.tsSamples,
    speechStart := e.speechStart, speechEnd := e.speechEnd }

/-- representation invariant of the ring -/
structure Ring (c : Cfg) (e : Ep α) (q : List (α × Bool)) : Prop where
  buf_len : e.buf.length = c.maxlen
  flags_len : e.flags.length = c.maxlen
  pos_lt : e.pos < c.maxlen
  len : q.length = e.n
  n_le : e.n ≤ c.maxlen
  slot : ∀ k (h : k < q.length),
    e.buf[(e.pos + k) % c.maxlen]? = some q[k].1 ∧ e.flags[(e.pos + k) % c.maxlen]? = some q[k].2

theorem ring_init (c : Cfg) (hm : 0 < c.maxlen) (z : α) : Ring c (Ep.init c z) [] where
  buf_len := by simp [Ep.init]
  flags_len := by simp [Ep.init]
  pos_lt := hm
  len := rfl
  n_le := Nat.zero_le _
  slot := by intro k h; simp at h

/-! ### push -/

def pushQ (c : Cfg) (q : List (α × Bool)) (x : α × Bool) : List (α × Bool) :=
  if q.length = c.maxlen then q.tail ++ [x] else q ++ [x]

theorem pushQ_full {c : Cfg} {q : List (α × Bool)} (h : q.length = c.maxlen) (x : α × Bool) :
    pushQ c q x = q.tail ++ [x] := by simp [pushQ, h]

theorem pushQ_notfull {c : Cfg} {q : List (α × Bool)} (h : q.length ≠ c.maxlen) (x : α × Bool) :
    pushQ c q x = q ++ [x] := by simp [pushQ, h]

theorem push_sim {c : Cfg} {e : Ep α} {q : List (α × Bool)} (h : Ring c e q) (d : Bool) (f : α) :
    ∃ e', epPush c e d f = some e' ∧ Ring c e' (pushQ c q (f, d)) ∧
      toSpec e' (pushQ c q (f, d)) = (toSpec e q).push c (f, d) := by
  have hm : 0 < c.maxlen := Nat.lt_of_le_of_lt (Nat.zero_le _) h.pos_lt
  have hi : (e.pos + e.n) % c.maxlen < c.maxlen := Nat.mod_lt _ hm
  have hlen := h.len
  unfold epPush wr
  simp only [h.buf_len, h.flags_len, hi, if_true]
  by_cases hfull : e.n = c.maxlen
  · -- full: the oldest element is overwritten and `pos` advances
    simp only [hfull, if_true]
    have hq : q.length = c.maxlen := by omega
    have hidx : (e.pos + c.maxlen) % c.maxlen = e.pos := by
      rw [Nat.add_mod_right]; exact Nat.mod_eq_of_lt h.pos_lt
    rw [pushQ_full hq]
    have htl : q.tail.length = c.maxlen - 1 := by simp [hq]
    refine ⟨_, rfl, ?_, ?_⟩
    · refine ⟨by simp [h.buf_len], by simp [h.flags_len], Nat.mod_lt _ hm, ?_, ?_, ?_⟩
      · simp only [List.length_append, htl, List.length_singleton]; omega
      · exact Nat.le_refl _
      · intro k hk
        have hk' : k < c.maxlen := by
          simp only [List.length_append, htl, List.length_singleton] at hk; omega
        show (e.buf.set _ f)[((e.pos + 1) % c.maxlen + k) % c.maxlen]? = _ ∧
             (e.flags.set _ d)[((e.pos + 1) % c.maxlen + k) % c.maxlen]? = _
        rw [succ_mod_add, hidx]
        by_cases hlast : k + 1 = c.maxlen
        · have hpk : (e.pos + (k + 1)) % c.maxlen = e.pos := by rw [hlast]; exact hidx
          rw [hpk]
          have hkt : k = q.tail.length := by omega
          subst hkt
          rw [List.getElem?_set_self (by rw [h.buf_len]; exact h.pos_lt),
              List.getElem?_set_self (by rw [h.flags_len]; exact h.pos_lt)]
          simp
        · have hne : e.pos ≠ (e.pos + (k + 1)) % c.maxlen := by
            intro heq
            have h0 : (e.pos + 0) % c.maxlen = (e.pos + (k + 1)) % c.maxlen := by
              rw [Nat.add_zero, Nat.mod_eq_of_lt h.pos_lt]; exact heq
            have := mod_inj hm (by omega) h0
            omega
          rw [List.getElem?_set_ne hne, List.getElem?_set_ne hne]
          have hk1 : k + 1 < q.length := by omega
          have := h.slot (k + 1) hk1
          have hkt : k < q.tail.length := by omega
          rw [List.getElem_append_left hkt]
          simpa [List.getElem_tail] using this
    · simp [toSpec, Spec.push, hq]
  · -- not full: append
    simp only [hfull, if_false]
    have hq : q.length ≠ c.maxlen := by omega
    have hnlt : e.n < c.maxlen := Nat.lt_of_le_of_ne h.n_le hfull
    rw [pushQ_notfull hq]
    refine ⟨_, rfl, ?_, ?_⟩
    · refine ⟨by simp [h.buf_len], by simp [h.flags_len], h.pos_lt, ?_, ?_, ?_⟩
      · simp only [List.length_append, List.length_singleton]; omega
      · show e.n + 1 ≤ c.maxlen; omega
      · intro k hk
        have hk' : k ≤ e.n := by
          simp only [List.length_append, List.length_singleton] at hk; omega
        show (e.buf.set _ f)[(e.pos + k) % c.maxlen]? = _ ∧ (e.flags.set _ d)[(e.pos + k) % c.maxlen]? = _
        by_cases hlast : k = e.n
        · have hkq : k = q.length := by omega
          subst hkq
          rw [← hlen]
          rw [List.getElem?_set_self (by rw [h.buf_len]; exact Nat.mod_lt _ hm),
              List.getElem?_set_self (by rw [h.flags_len]; exact Nat.mod_lt _ hm)]
          simp
        · have hklt : k < e.n := by omega
          have hne : (e.pos + e.n) % c.maxlen ≠ (e.pos + k) % c.maxlen := by
            intro heq
            have := mod_inj hnlt (by omega) heq
            omega
          rw [List.getElem?_set_ne hne, List.getElem?_set_ne hne]
          have hkq : k < q.length := by omega
          rw [List.getElem_append_left hkq]
          exact h.slot k hkq
    · simp [toSpec, Spec.push, hq]

/-- `Ring` only looks at the two rings, `pos` and `n` -/
theorem Ring.congr {c : Cfg} {e e' : Ep α} {q : List (α × Bool)} (h : Ring c e q)
    (h1 : e'.buf = e.buf) (h2 : e'.flags = e.flags) (h3 : e'.pos = e.pos) (h4 : e'.n = e.n) : Ring c e' q :=
  ⟨by rw [h1]; exact h.buf_len, by rw [h2]; exact h.flags_len, by rw [h3]; exact h.pos_lt,
   by rw [h4]; exact h.len, by rw [h4]; exact h.n_le, by rw [h1, h2, h3]; exact h.slot⟩

/-! ### pop -/

theorem pop_nil {c : Cfg} {e : Ep α} (h : Ring c e []) : epPop c e = some (e, none) := by
  have : e.n = 0 := h.len.symm
  simp [epPop, this]

/-- the state `ep_pop` leaves behind on a non-empty queue -/
def popped (c : Cfg) (e : Ep α) : Ep α :=
  { e with qstart := e.qstart + 1, pos := (e.pos + 1) % c.maxlen, n := e.n - 1 }

theorem pop_cons {c : Cfg} {e : Ep α} {x : α × Bool} {r : List (α × Bool)} (h : Ring c e (x :: r)) :
    epPop c e = some (popped c e, some x) ∧ Ring c (popped c e) r := by
  have hm : 0 < c.maxlen := Nat.lt_of_le_of_lt (Nat.zero_le _) h.pos_lt
  have hlen : r.length + 1 = e.n := h.len
  have hn : e.n ≠ 0 := by omega
  have h0 := h.slot 0 (by simp)
  simp only [Nat.add_zero, Nat.mod_eq_of_lt h.pos_lt, List.getElem_cons_zero] at h0
  refine ⟨?_, ?_⟩
  · simp [epPop, hn, rd, h0.1, h0.2, popped]
  · refine ⟨h.buf_len, h.flags_len, Nat.mod_lt _ hm, ?_, ?_, ?_⟩
    · show r.length = e.n - 1; omega
    · show e.n - 1 ≤ c.maxlen; have := h.n_le; omega
    · intro k hk
      show e.buf[((e.pos + 1) % c.maxlen + k) % c.maxlen]? = _ ∧ e.flags[((e.pos + 1) % c.maxlen + k) % c.maxlen]? = _
      rw [succ_mod_add]
      have := h.slot (k + 1) (by simp; omega)
      simpa using this

/-! ### speech count -/

theorem countRange_spec (flags : List Bool) : ∀ (k i acc : Nat), i + k ≤ flags.length →
    countRange flags i k acc = some (acc + ((flags.drop i).take k).countP id) := by
  intro k
  induction k with
  | zero => intro i acc _; simp [countRange]
  | succ k ih =>
    intro i acc hik
    have hi : i < flags.length := by omega
    have hd : flags.drop i = flags[i] :: flags.drop (i + 1) := List.drop_eq_getElem_cons hi
    simp only [countRange, rd, List.getElem?_eq_getElem hi]
    rw [ih (i + 1) _ (by omega), hd, List.take_succ_cons, List.countP_cons]
    simp only [b2n, id]
    congr 1; omega

theorem rot_getElem? (l : List β) (p k : Nat) (hp : p ≤ l.length) (hk : k < l.length) :
    (l.drop p ++ l.take p)[k]? = l[(p + k) % l.length]? := by
  by_cases hlt : k < l.length - p
  · rw [List.getElem?_append_left (by simp; exact hlt), List.getElem?_drop,
        Nat.mod_eq_of_lt (by omega)]
  · rw [List.getElem?_append_right (by simp; omega), List.getElem?_take]
    have h1 : (p + k) % l.length = p + k - l.length := by
      rw [Nat.mod_eq_sub_mod (by omega), Nat.mod_eq_of_lt (by omega)]
    simp only [List.length_drop]
    rw [h1, if_pos (by omega)]
    congr 1; omega

theorem countP_rot (pr : β → Bool) (l : List β) (p : Nat) :
    (l.drop p ++ l.take p).countP pr = l.countP pr := by
  rw [List.countP_append, Nat.add_comm, ← List.countP_append, List.take_append_drop]

/-- a full ring, read from slot 0, holds a rotation of the queue -/
theorem full_rot {c : Cfg} {e : Ep α} {q : List (α × Bool)} (h : Ring c e q) (hfull : e.n = c.maxlen) :
    q.map (·.2) = e.flags.drop e.pos ++ e.flags.take e.pos ∧
    q.map (·.1) = e.buf.drop e.pos ++ e.buf.take e.pos := by
  have hq : q.length = c.maxlen := by rw [h.len, hfull]
  have hp := h.pos_lt
  constructor
  · apply List.ext_getElem?
    intro k
    by_cases hk : k < c.maxlen
    · rw [rot_getElem? _ _ _ (by rw [h.flags_len]; omega) (by rw [h.flags_len]; exact hk), h.flags_len,
          (h.slot k (by omega)).2]
      simp [List.getElem?_eq_getElem (show k < q.length by omega)]
    · rw [List.getElem?_eq_none (by simp; omega), List.getElem?_eq_none (by simp [h.flags_len]; omega)]
  · apply List.ext_getElem?
    intro k
    by_cases hk : k < c.maxlen
    · rw [rot_getElem? _ _ _ (by rw [h.buf_len]; omega) (by rw [h.buf_len]; exact hk), h.buf_len,
          (h.slot k (by omega)).1]
      simp [List.getElem?_eq_getElem (show k < q.length by omega)]
    · rw [List.getElem?_eq_none (by simp; omega), List.getElem?_eq_none (by simp [h.buf_len]; omega)]

theorem countLoop_spec {c : Cfg} {e : Ep α} {q : List (α × Bool)} (h : Ring c e q) (hn : e.n < c.maxlen) :
    ∀ (dist k acc fuel : Nat), k + dist = e.n → dist < fuel →
      countLoop e.flags c.maxlen ((e.pos + e.n) % c.maxlen) fuel ((e.pos + k) % c.maxlen) acc
        = some (acc + (q.drop k).countP (·.2)) := by
  intro dist
  induction dist with
  | zero =>
    intro k acc fuel hk hf
    obtain ⟨fuel, rfl⟩ : ∃ f', fuel = f' + 1 := ⟨fuel - 1, by omega⟩
    have : k = e.n := by omega
    subst this
    simp [countLoop, List.drop_of_length_le (Nat.le_of_eq h.len)]
  | succ dist ih =>
    intro k acc fuel hk hf
    obtain ⟨fuel, rfl⟩ : ∃ f', fuel = f' + 1 := ⟨fuel - 1, by omega⟩
    have hkn : k < e.n := by omega
    have hkq : k < q.length := by rw [h.len]; exact hkn
    have hne : (e.pos + k) % c.maxlen ≠ (e.pos + e.n) % c.maxlen := by
      intro heq
      have := mod_inj (by omega) hn heq
      omega
    have hd : q.drop k = q[k] :: q.drop (k + 1) := List.drop_eq_getElem_cons hkq
    simp only [countLoop, if_neg hne, rd, (h.slot k hkq).2]
    rw [Nat.mod_add_mod, Nat.add_assoc, ih (k + 1) _ fuel (by omega) (by omega), hd, List.countP_cons]
    simp only [b2n]
    congr 1; omega

/-- **the repaired `ep_speech_count` counts the speech flags of the queue**, staying inside the ring -/
theorem count_sim {c : Cfg} {e : Ep α} {q : List (α × Bool)} (h : Ring c e q) :
    epSpeechCount c e = some (q.countP (·.2)) := by
  unfold epSpeechCount
  by_cases h0 : e.n = 0
  · have : q = [] := List.eq_nil_of_length_eq_zero (by rw [h.len, h0])
    simp [h0, this]
  · rw [if_neg h0]
    by_cases hfull : e.n = c.maxlen
    · rw [if_pos hfull, countRange_spec _ _ _ _ (by rw [h.flags_len]; omega)]
      have := (full_rot h hfull).1
      have hc : q.countP (·.2) = (q.map (·.2)).countP id := by rw [List.countP_map]; rfl
      rw [hc, this, countP_rot]
      simp [← h.flags_len]
    · rw [if_neg hfull]
      have hn : e.n < c.maxlen := Nat.lt_of_le_of_ne h.n_le hfull
      have hq0 : 0 < q.length := by rw [h.len]; omega
      have h0' := (h.slot 0 hq0).2
      simp only [Nat.add_zero, Nat.mod_eq_of_lt h.pos_lt] at h0'
      simp only [rd, h0']
      have := countLoop_spec h hn (e.n - 1) 1 (b2n q[0].2) (c.maxlen + 1) (by omega) (by omega)
      refine this.trans ?_
      have hd : q = q[0] :: q.drop 1 := by
        have := List.drop_eq_getElem_cons hq0
        simpa using this
      conv => rhs; rw [hd, List.countP_cons]
      simp only [b2n]
      congr 1; omega

/-! ### `endpointer_process` -/

/-- one `endpointer_process` call on the ring is one `Spec.process` step on the FIFO it represents:
same return value, same scalars, and the ring again represents the new FIFO; no access leaves the arrays -/
theorem process_sim {c : Cfg} {e : Ep α} {q : List (α × Bool)} (h : Ring c e q) (d : Bool) (f : α) :
    ∃ e', process c e d f = some (e', ((toSpec e q).process c d f).2) ∧
      Ring c e' ((toSpec e q).process c d f).1.q ∧
      toSpec e' ((toSpec e q).process c d f).1.q = ((toSpec e q).process c d f).1 := by
  obtain ⟨e1, hp, hr1, hs1⟩ := push_sim h d f
  have hr2 : Ring c { e1 with tsFrames := e1.tsFrames + 1 } (pushQ c q (f, d)) := hr1.congr rfl rfl rfl rfl
  have hcnt := count_sim hr2
  have hovf : (e.inSpeech && e.n == c.maxlen) = ((toSpec e q).inSpeech && (toSpec e q).q.length == c.maxlen) := by
    simp [toSpec, h.len]
  unfold process Spec.process
  simp only [hp, hcnt, ← hs1, hovf]
  generalize pushQ c q (f, d) = q1 at *
  generalize ((toSpec e q).inSpeech && (toSpec e q).q.length == c.maxlen) = ovf
  cases q1 with
  | nil =>
    have hpopA := pop_nil hr2
    have hpopB := pop_nil (hr1.congr rfl rfl rfl rfl : Ring c
      { e1 with tsFrames := e1.tsFrames + 1, speechStart := e1.qstart, speechEnd := ⟨0, 0⟩, inSpeech := true } [])
    simp only [hpopA, hpopB, toSpec, Spec.count, Spec.pop]
    by_cases hin : e1.inSpeech = true
    · by_cases hlt : List.countP (fun x : α × Bool => x.2) [] < c.endFrames
      · simp only [hin, hlt, if_true]
        exact ⟨_, rfl, hr1.congr rfl rfl rfl rfl, rfl⟩
      · simp only [hin, hlt, if_true, if_false]
        exact ⟨_, rfl, hr1.congr rfl rfl rfl rfl, rfl⟩
    · by_cases hgt : List.countP (fun x : α × Bool => x.2) [] > c.startFrames
      · simp only [hin, hgt, if_true]
        exact ⟨_, rfl, hr1.congr rfl rfl rfl rfl, rfl⟩
      · simp only [hin, hgt, if_false]
        exact ⟨_, rfl, hr1.congr rfl rfl rfl rfl, rfl⟩
  | cons x r =>
    obtain ⟨hpopA, hrA⟩ := pop_cons hr2
    obtain ⟨hpopB, hrB⟩ := pop_cons (hr1.congr rfl rfl rfl rfl : Ring c
      { e1 with tsFrames := e1.tsFrames + 1, speechStart := e1.qstart, speechEnd := ⟨0, 0⟩, inSpeech := true } (x :: r))
    simp only [hpopA, hpopB, toSpec, Spec.count, Spec.pop, popped] at hrA hrB ⊢
    by_cases hin : e1.inSpeech = true
    · by_cases hlt : List.countP (fun x : α × Bool => x.2) (x :: r) < c.endFrames
      · simp only [hin, hlt, if_true]
        exact ⟨_, rfl, hrA.congr rfl rfl rfl rfl, rfl⟩
      · simp only [hin, hlt, if_true, if_false]
        exact ⟨_, rfl, hrA.congr rfl rfl rfl rfl, rfl⟩
    · by_cases hgt : List.countP (fun x : α × Bool => x.2) (x :: r) > c.startFrames
      · simp only [hin, hgt, if_true]
        exact ⟨_, rfl, hrB.congr rfl rfl rfl rfl, rfl⟩
      · simp only [hin, hgt, if_false]
        exact ⟨_, rfl, hr1.congr rfl rfl rfl rfl, rfl⟩

/-! ### `endpointer_end_stream` -/

theorem linearize_sim {c : Cfg} {e : Ep α} {q : List (α × Bool)} (h : Ring c e q) :
    ∃ e', epLinearize e = some e' ∧ Ring c e' q ∧ e'.pos = 0 ∧ e'.n = e.n ∧ e'.inSpeech = e.inSpeech ∧
      e'.qstart = e.qstart ∧ e'.tsFrames = e.tsFrames ∧ e'.tsSamples = e.tsSamples ∧
      e'.speechStart = e.speechStart ∧ e'.speechEnd = e.speechEnd := by
  unfold epLinearize
  by_cases hp : e.pos = 0
  · simp only [hp, if_true]
    exact ⟨e, rfl, h, hp, rfl, rfl, rfl, rfl, rfl, rfl, rfl⟩
  · have hm : 0 < c.maxlen := Nat.lt_of_le_of_lt (Nat.zero_le _) h.pos_lt
    have h1 : e.pos ≤ e.buf.length := by rw [h.buf_len]; exact Nat.le_of_lt h.pos_lt
    have h2 : e.pos ≤ e.flags.length := by rw [h.flags_len]; exact Nat.le_of_lt h.pos_lt
    simp only [hp, if_false, h1, h2, and_self, if_true]
    refine ⟨_, rfl, ?_, rfl, rfl, rfl, rfl, rfl, rfl, rfl, rfl⟩
    refine ⟨?_, ?_, hm, h.len, h.n_le, ?_⟩
    · simp [h.buf_len]; omega
    · simp [h.flags_len]; omega
    · intro k hk
      have hkm : k < c.maxlen := by have := h.len; have := h.n_le; omega
      show (e.buf.drop e.pos ++ e.buf.take e.pos)[(0 + k) % c.maxlen]? = _ ∧
           (e.flags.drop e.pos ++ e.flags.take e.pos)[(0 + k) % c.maxlen]? = _
      rw [Nat.zero_add, Nat.mod_eq_of_lt hkm,
          rot_getElem? _ _ _ h1 (by rw [h.buf_len]; exact hkm), rot_getElem? _ _ _ h2 (by rw [h.flags_len]; exact hkm),
          h.buf_len, h.flags_len]
      exact h.slot k hk

/-- number of `ep_pop` calls the end-of-stream loop makes on queue `q` -/
def nPopped (q : List (α × Bool)) : Nat :=
  let k := (q.takeWhile (·.2)).length
  if k = q.length then k else k + 1

theorem popLoop_spec {c : Cfg} : ∀ (q : List (α × Bool)) (e : Ep α) (k fuel : Nat),
    Ring c e q → q.length < fuel → e.speechEnd = ⟨e.qstart, 0⟩ →
    ∃ e', popLoop c fuel e k = some (e', k + (q.takeWhile (·.2)).length) ∧
      e'.buf = e.buf ∧ e'.flags = e.flags ∧ e'.pos = (e.pos + nPopped q) % c.maxlen ∧ e'.n = e.n - nPopped q ∧
      e'.qstart = e.qstart + nPopped q ∧ e'.speechEnd = ⟨e.qstart + (q.takeWhile (·.2)).length, 0⟩ ∧
      e'.inSpeech = e.inSpeech ∧ e'.tsFrames = e.tsFrames ∧ e'.tsSamples = e.tsSamples ∧
      e'.speechStart = e.speechStart := by
  intro q
  induction q with
  | nil =>
    intro e k fuel h hf hse
    obtain ⟨fuel, rfl⟩ : ∃ f', fuel = f' + 1 := ⟨fuel - 1, by omega⟩
    have hn : e.n = 0 := h.len.symm
    refine ⟨e, by simp [popLoop, hn], rfl, rfl, ?_, ?_, ?_, ?_, rfl, rfl, rfl, rfl⟩
    · simp [nPopped, Nat.mod_eq_of_lt h.pos_lt]
    · simp [nPopped]
    · simp [nPopped]
    · simpa using hse
  | cons x r ih =>
    intro e k fuel h hf hse
    obtain ⟨fuel, rfl⟩ : ∃ f', fuel = f' + 1 := ⟨fuel - 1, by omega⟩
    have hn : e.n ≠ 0 := by have := h.len; simp at this; omega
    obtain ⟨hpop, hr⟩ := pop_cons h
    obtain ⟨x1, x2⟩ := x
    cases x2 with
    | false =>
      refine ⟨popped c e, by simp [popLoop, hn, hpop], rfl, rfl, ?_, ?_, ?_, ?_, rfl, rfl, rfl, rfl⟩
      · simp [nPopped, popped]
      · simp [nPopped, popped]
      · simp [nPopped, popped]
      · simpa [popped] using hse
    | true =>
      have hr' : Ring c { popped c e with speechEnd := ⟨(popped c e).qstart, 0⟩ } r := hr.congr rfl rfl rfl rfl
      obtain ⟨e', h1, h2, h3, h4, h5, h6, h7, h8, h9, h10, h11⟩ :=
        ih _ (k + 1) fuel hr' (by simp at hf; omega) rfl
      have hnp : nPopped ((x1, true) :: r) = nPopped r + 1 := by
        simp only [nPopped, List.takeWhile_cons, if_true, List.length_cons]
        split <;> split <;> omega
      refine ⟨e', ?_, h2, h3, ?_, ?_, ?_, ?_, h8, h9, h10, h11⟩
      · simp only [popLoop, hn, if_false, hpop]
        rw [h1]; simp; omega
      · rw [h4, hnp]; show ((e.pos + 1) % c.maxlen + nPopped r) % c.maxlen = _
        rw [succ_mod_add]
      · rw [h5, hnp]; show e.n - 1 - nPopped r = _; omega
      · rw [h6, hnp]; show e.qstart + 1 + nPopped r = _; omega
      · rw [h7]; show (⟨e.qstart + 1 + _, 0⟩ : Time) = _; simp; omega

theorem takeWhile_eq_take (p : β → Bool) (l : List β) : l.takeWhile p = l.take (l.takeWhile p).length := by
  exact List.prefix_iff_eq_take.mp (List.takeWhile_prefix p)

/-- a linearised ring holds the queue at its start -/
theorem ring_take {c : Cfg} {e : Ep α} {q : List (α × Bool)} (h : Ring c e q) (hp : e.pos = 0) (j : Nat)
    (hj : j ≤ q.length) : e.buf.take j = (q.take j).map (·.1) := by
  apply List.ext_getElem?
  intro k
  by_cases hk : k < j
  · have hkq : k < q.length := by omega
    have hkm : k < c.maxlen := by have := h.len; have := h.n_le; omega
    have := (h.slot k hkq).1
    rw [hp, Nat.zero_add, Nat.mod_eq_of_lt hkm] at this
    rw [List.getElem?_take, if_pos hk, this]
    simp [hk, List.getElem?_eq_getElem hkq]
  · rw [List.getElem?_eq_none (by simp; omega), List.getElem?_eq_none (by simp; omega)]

/-- one `endpointer_end_stream` call on the ring is one `Spec.endStream` step on the FIFO; needs
`in_speech → n < maxlen` (so that the trailing samples land behind the returned frames) -/
theorem endStream_sim {c : Cfg} {e : Ep α} {q : List (α × Bool)} (h : Ring c e q)
    (hsp : e.inSpeech = true → e.n < c.maxlen) (nsamp : Nat) (f : α) :
    ∃ e', endStream c e nsamp f = some (e', ((toSpec e q).endStream c nsamp f).2) ∧
      Ring c e' ((toSpec e q).endStream c nsamp f).1.q ∧
      toSpec e' ((toSpec e q).endStream c nsamp f).1.q = ((toSpec e q).endStream c nsamp f).1 := by
  unfold endStream Spec.endStream
  by_cases hlong : nsamp > c.frameSize
  · simp only [hlong, if_true]; exact ⟨e, rfl, h, rfl⟩
  simp only [hlong, if_false]
  by_cases hin : e.inSpeech = true
  case neg =>
    have h1 : e.inSpeech = false := by simpa using hin
    have h2 : (toSpec e q).inSpeech = false := h1
    simp only [h1, h2, Bool.not_false, if_true]; exact ⟨e, rfl, h, rfl⟩
  have hnlt := hsp hin
  have hr0 : Ring c { e with inSpeech := false, speechEnd := ⟨e.qstart, 0⟩ } q := h.congr rfl rfl rfl rfl
  obtain ⟨e1, hl, hr1, hp1, hn1, l1, l2, l3, l4, l5, l6⟩ := linearize_sim hr0
  obtain ⟨e2, hpl, p1, p2, p3, p4, p5, p6, p7, p8, p9, p10⟩ :=
    popLoop_spec q e1 0 (e1.n + 1) hr1 (by have := hr1.len; omega) (by rw [l6, l2])
  simp only [toSpec, hin, Bool.not_true, Bool.false_eq_true, if_false, hl, hp1, ne_eq, not_true_eq_false, hpl, Nat.zero_add]
  have hqn : q.length = e.n := h.len
  have htk := ring_take hr1 hp1 (q.takeWhile (·.2)).length (List.takeWhile_prefix _).length_le
  rw [← takeWhile_eq_take] at htk
  by_cases hall : (q.takeWhile (·.2)).length = q.length
  · have hnp : nPopped q = q.length := by simp [nPopped, hall]
    have hc : e2.n = 0 ∧ e2.speechEnd = ⟨e2.qstart, 0⟩ := by
      rw [p4, p5, p6, hnp, hall, hn1]; exact ⟨by show e.n - q.length = 0; omega, rfl⟩
    have hpos : e2.pos = q.length := by
      rw [p3, hp1, hnp, Nat.zero_add, Nat.mod_eq_of_lt (by omega)]
    have hne : e2.pos ≠ c.maxlen := by omega
    have hlt : e2.pos < e2.buf.length := by rw [p1, hr1.buf_len]; omega
    have hset : (e2.buf.set e2.pos f)[(q.takeWhile (·.2)).length]? = some f := by
      rw [hall, ← hpos]; exact List.getElem?_set_self hlt
    have htk' : (e2.buf.set e2.pos f).take (q.takeWhile (·.2)).length = (q.takeWhile (·.2)).map (·.1) := by
      rw [List.take_set_of_le (by rw [hpos, hall]; exact Nat.le_refl _), p1]; exact htk
    rw [if_pos hall]
    simp only [hc, and_self, if_true, hne, if_false, wr, hlt, rd, hset, htk']
    refine ⟨_, rfl, ?_, ?_⟩
    refine ⟨?_, ?_, ?_, rfl, Nat.zero_le _, ?_⟩
    · show (e2.buf.set e2.pos f).length = _; rw [List.length_set, p1]; exact hr1.buf_len
    · show e2.flags.length = _; rw [p2]; exact hr1.flags_len
    · show e2.pos < _; omega
    · intro k hk; simp at hk
    · simp only [hall, p5, p7, p8, p9, p10, l1, l2, l3, l4, l5, hnp]
  · have hnp : nPopped q = (q.takeWhile (·.2)).length + 1 := by simp [nPopped, hall]
    have hc : ¬(e2.n = 0 ∧ e2.speechEnd = ⟨e2.qstart, 0⟩) := by
      rw [p5, p6, hnp]; intro hh; have := hh.2; simp at this
    have hm : 0 < c.maxlen := Nat.lt_of_le_of_lt (Nat.zero_le _) h.pos_lt
    rw [← p1] at htk
    rw [if_neg hall]
    simp only [hc, if_false, htk]
    refine ⟨_, rfl, ?_, ?_⟩
    refine ⟨?_, ?_, ?_, rfl, Nat.zero_le _, ?_⟩
    · show e2.buf.length = _; rw [p1]; exact hr1.buf_len
    · show e2.flags.length = _; rw [p2]; exact hr1.flags_len
    · show e2.pos < _; rw [p3]; exact Nat.mod_lt _ hm
    · intro k hk; simp at hk
    · simp only [p5, p6, p7, p8, p9, p10, l1, l2, l3, l4, l5, hnp]; rfl

end SSVerif.Endpointer
