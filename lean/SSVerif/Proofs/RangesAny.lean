import SSVerif.Model.RangesHmm
import SSVerif.Proofs.Ranges
/-!
Range lemmas for `anytopoStep` (`hmm_vit_eval_anytopo`) and for `hmm_normalize`.

The entry state is the delicate one: the C code floors `st_sen_scr[from]` at `WORST_SCORE` for `from ≥ 1` only, and
stores the new state scores without any floor.  States `≥ 1` therefore live in `[WORST - 255, 0]` for ever, the entry
state loses up to `S + 254` per frame below `WORST_SCORE` until it is entered again (`S` = bound on its senone score).
-/
namespace SSVerif.Ranges
open SSVerif.Generated.Ranges

theorem const_facts_any : int32Min + 255 ≤ 2 * worstScore - 255 - 255 ∧ 0 ≤ alignRenormMargin ∧
    alignRenormMargin ≤ 1073741824 := by decide

theorem worst_room3 : -2147483648 + 255 ≤ 2 * WORST - 255 - 255 := by
  have h := const_facts_any.1
  rw [const_facts.1] at h; exact h

theorem getD_map_range {α : Type} (g : Nat → α) (n i : Nat) (d : α) :
    ((List.range n).map g).getD i d = if i < n then g i else d := by
  by_cases h : i < n
  · rw [List.getD_eq_getElem?_getD, List.getElem?_map, List.getElem?_range h]; simp [h]
  · rw [List.getD_eq_getElem?_getD, List.getElem?_eq_none (by simp; omega)]; simp [h]

theorem foldl_upd_bd {lo : Int} : ∀ (l : List Int) (b : Int), lo ≤ b → b ≤ 0 → (∀ x ∈ l, x ≤ 0) →
    lo ≤ l.foldl upd b ∧ l.foldl upd b ≤ 0
  | [], b, h1, h2, _ => ⟨h1, h2⟩
  | x :: l, b, h1, h2, hl => by
    simp only [List.foldl_cons]
    exact foldl_upd_bd l (upd b x) (Int.le_trans h1 (upd_ge_left b x)) (upd_le h2 (hl x (by simp)))
      (fun y hy => hl y (by simp [hy]))

section scan
variable {tp : Nat → Nat → Nat} (htp : ∀ i j, tp i j ≤ 255)
variable {st : Nat → Int} {L : Int} (hL : -2147483648 + 255 ≤ L) (hst : ∀ f, L ≤ st f ∧ st f ≤ 0)
include htp hL hst

/-- the inner loop only raises `scr`, never above 0, and stores int32 values only -/
theorem scan_ok (to : Nat) : ∀ (fs : List Nat) (acc : Int × Int × List Int), acc.1 ≤ 0 → (∀ x ∈ acc.2.2, I32 x) →
    acc.1 ≤ (scan tp st to fs acc).1 ∧ (scan tp st to fs acc).1 ≤ 0 ∧ (∀ x ∈ (scan tp st to fs acc).2.2, I32 x)
  | [], acc, h0, htr => by simp only [scan]; exact ⟨Int.le_refl _, h0, htr⟩
  | f :: fs, acc, h0, htr => by
    have r := tprob_range htp f to
    have b := hst f
    simp only [scan]
    split
    · have hns : I32 (st f + tprob tp f to) := by rw [i32_iff]; omega
      have htr' : ∀ x ∈ acc.2.2 ++ [st f + tprob tp f to], I32 x := by
        intro x hx
        rcases List.mem_append.1 hx with hx | hx
        · exact htr x hx
        · simp only [List.mem_cons, List.mem_nil_iff, or_false] at hx; rw [hx]; exact hns
      split
      · have ih := scan_ok to fs (st f + tprob tp f to, (f : Int), acc.2.2 ++ [st f + tprob tp f to])
          (by simp only; omega) htr'
        simp only at ih
        exact ⟨by omega, ih.2.1, ih.2.2⟩
      · exact scan_ok to fs (acc.1, acc.2.1, acc.2.2 ++ [st f + tprob tp f to]) h0 htr'
    · exact scan_ok to fs acc h0 htr

end scan

/-- the invariant of an any-topology HMM: entry state in `[B, 0]`, the other states in `[WORST - 255, 0]`, the exit
score in `[WORST, 0]` -/
structure AnyBd (B : Int) (h : HA) : Prop where
  s0 : B ≤ h.sc.getD 0 0 ∧ h.sc.getD 0 0 ≤ 0
  si : ∀ i, 1 ≤ i → WORST - 255 ≤ h.sc.getD i 0 ∧ h.sc.getD i 0 ≤ 0
  out : WORST ≤ h.out ∧ h.out ≤ 0

theorem AnyBd.mono {B B' : Int} {h : HA} (hb : AnyBd B h) (hle : B' ≤ B) : AnyBd B' h :=
  ⟨⟨Int.le_trans hle hb.s0.1, hb.s0.2⟩, hb.si, hb.out⟩

/-- lower bound of the entry state after one frame -/
def nextB (clamp0 : Bool) (B S : Int) : Int := if clamp0 = true then WORST - 255 else B - S - 255

theorem anytopoStep_core {tp : Nat → Nat → Nat} (htp : ∀ i j, tp i j ≤ 255) (clamp0 mpx : Bool)
    {c : Int → Nat → Int} {S B : Int} (hS : 0 ≤ S)
    (hc0 : ∀ id, -S ≤ c id 0 ∧ c id 0 ≤ 0) (hci : ∀ id st, WORST ≤ c id st ∧ c id st ≤ 0)
    (hB : -2147483648 + 255 ≤ B - S) (hBW : B ≤ WORST - 255) {h : HA} (hb : AnyBd B h) :
    (∀ x ∈ (anytopoStep clamp0 mpx tp c h).2, I32 x) ∧ AnyBd (nextB clamp0 B S) (anytopoStep clamp0 mpx tp c h).1 ∧
    WORST ≤ (anytopoStep clamp0 mpx tp c h).1.best ∧ (anytopoStep clamp0 mpx tp c h).1.best ≤ 0 := by
  have hW0 := worst_le_zero
  have hW3 := worst_room3
  -- the stored `st_sen_scr`
  have hst : ∀ f, B - S ≤ stSenScr clamp0 c h f ∧ stSenScr clamp0 c h f ≤ 0 := by
    intro f
    unfold stSenScr
    simp only
    by_cases hf : f = 0
    · subst hf
      have := hc0 (h.ids.getD 0 0)
      have := hb.s0
      split
      · omega
      · exact ⟨Int.le_trans (by omega) (clampW_ge _), clampW_le (by omega) hW0⟩
    · have := hci (h.ids.getD f 0) f
      have := hb.si f (by omega)
      rw [if_neg (by intro hh; exact hf hh.1)]
      exact ⟨Int.le_trans (by omega) (clampW_ge _), clampW_le (by omega) hW0⟩
  have hst1 : ∀ f, 1 ≤ f → WORST ≤ stSenScr clamp0 c h f := by
    intro f hf
    unfold stSenScr
    simp only
    rw [if_neg (by intro hh; omega)]
    exact clampW_ge _
  have hst0 : clamp0 = true → WORST ≤ stSenScr clamp0 c h 0 := by
    intro hc
    unfold stSenScr
    simp only
    rw [if_neg (by intro hh; rw [hc] at hh; exact absurd hh.2 (by decide))]
    exact clampW_ge _
  -- the start value of the loop for state `to`
  have hself : ∀ to, nextB clamp0 B S ≤ selfScr tp (stSenScr clamp0 c h) to ∧
      (1 ≤ to → WORST - 255 ≤ selfScr tp (stSenScr clamp0 c h) to) ∧ selfScr tp (stSenScr clamp0 c h) to ≤ 0 ∧
      I32 (selfScr tp (stSenScr clamp0 c h) to) := by
    intro to
    have r := tprob_range htp to to
    have b := hst to
    have hT : tmatWorstScore = -255 := const_facts.2.2.2.2.2.2.2.1
    have hN : nextB clamp0 B S ≤ WORST - 255 ∧ (clamp0 = false → nextB clamp0 B S ≤ B - S - 255) := by
      unfold nextB; split
      · exact ⟨Int.le_refl _, fun hh => by simp_all⟩
      · exact ⟨by omega, fun _ => Int.le_refl _⟩
    unfold selfScr
    rw [i32_iff]
    split
    · rename_i hg
      rw [hT] at hg
      refine ⟨?_, ?_, by omega, by omega⟩
      · by_cases hto : to = 0
        · subst hto
          by_cases hcl : clamp0 = true
          · have := hst0 hcl; omega
          · have := hN.2 (by simpa using hcl); omega
        · have := hst1 to (by omega); omega
      · intro hto; have := hst1 to hto; omega
    · exact ⟨by omega, by intro _; omega, hW0, by omega⟩
  have hfin := scan_ok htp hB hst h.sc.length (fromsOf h.sc.length) (WORST, -1, []) hW0 (by intro x hx; cases hx)
  have hrow : ∀ to, selfScr tp (stSenScr clamp0 c h) to ≤
        (scan tp (stSenScr clamp0 c h) to (fromsOf to)
          (selfScr tp (stSenScr clamp0 c h) to, -1, [selfScr tp (stSenScr clamp0 c h) to])).1 ∧
      (scan tp (stSenScr clamp0 c h) to (fromsOf to)
          (selfScr tp (stSenScr clamp0 c h) to, -1, [selfScr tp (stSenScr clamp0 c h) to])).1 ≤ 0 ∧
      ∀ x ∈ (scan tp (stSenScr clamp0 c h) to (fromsOf to)
          (selfScr tp (stSenScr clamp0 c h) to, -1, [selfScr tp (stSenScr clamp0 c h) to])).2.2, I32 x := by
    intro to
    refine scan_ok htp hB hst to (fromsOf to) _ (hself to).2.2.1 ?_
    intro x hx
    simp only [List.mem_cons, List.mem_nil_iff, or_false] at hx
    rw [hx]; exact (hself to).2.2.2
  simp only [anytopoStep]
  refine ⟨?_, ⟨?_, ?_, ⟨hfin.1, hfin.2.1⟩⟩, ?_⟩
  · -- the trace
    intro x hx
    simp only [List.mem_append, List.mem_map, List.mem_flatMap, List.mem_range] at hx
    rcases hx with ((⟨i, hi, rfl⟩ | ⟨i, hi, rfl⟩) | hx) | ⟨r, ⟨to, hto, rfl⟩, hx⟩
    · rw [i32_iff]
      by_cases h0 : i = 0
      · subst h0
        have := hc0 (h.ids.getD 0 0); have := hb.s0; omega
      · have := hci (h.ids.getD i 0) i; have := hb.si i (by omega); omega
    · rw [i32_iff]; have := hst i; omega
    · exact hfin.2.2 x hx
    · exact (hrow to).2.2 x hx
  · -- entry state
    rw [List.map_map, getD_map_range]
    split
    · exact ⟨Int.le_trans (hself 0).1 (hrow 0).1, (hrow 0).2.1⟩
    · refine ⟨?_, Int.le_refl _⟩
      unfold nextB; split <;> omega
  · intro i hi
    rw [List.map_map, getD_map_range]
    split
    · exact ⟨Int.le_trans ((hself i).2.1 hi) (hrow i).1, (hrow i).2.1⟩
    · omega
  · rw [List.map_map]
    refine foldl_upd_bd _ _ hfin.1 hfin.2.1 ?_
    intro x hx
    obtain ⟨to, _, rfl⟩ := List.mem_map.1 hx
    exact (hrow to).2.1

/-- `hmm_enter` keeps the invariant -/
theorem AnyBd.enter {B : Int} {h : HA} (hb : AnyBd B h) {s hi : Int} (hs : B ≤ s ∧ s ≤ 0) (hB0 : B ≤ 0) :
    AnyBd B (h.enter s hi) := by
  refine ⟨?_, ?_, hb.out⟩
  · show B ≤ (h.sc.set 0 s).getD 0 0 ∧ (h.sc.set 0 s).getD 0 0 ≤ 0
    rw [List.getD_eq_getElem?_getD, List.getElem?_set]
    simp only [if_true]
    split
    · simpa using hs
    · simpa using hB0
  · intro i hi1
    show WORST - 255 ≤ (h.sc.set 0 s).getD i 0 ∧ (h.sc.set 0 s).getD i 0 ≤ 0
    rw [List.getD_eq_getElem?_getD, List.getElem?_set]
    rw [if_neg (by omega), ← List.getD_eq_getElem?_getD]
    exact hb.si i hi1

/-! ## `hmm_normalize` -/

/-- renormalising with a best score `b ∈ (WORST, 0]`: a live score moves up by `-b`, the subtraction fits an int32
as long as the upper bound `U` of the scores satisfies `U - WORST ≤ INT32_MAX`, dead scores (`= WORST_SCORE`, or below
it) are left alone -/
theorem normOne_bd {b x lo U : Int} (hb : WORST < b ∧ b ≤ 0) (hx : lo ≤ x ∧ x ≤ U) (hU : U - WORST ≤ 2147483647)
    (hlo : -2147483648 ≤ lo) :
    I32 (normOne b x) ∧ lo ≤ normOne b x ∧ normOne b x ≤ U - b ∧ (x ≤ b → normOne b x ≤ 0) := by
  rw [i32_iff]
  have := worst_le_zero
  unfold normOne
  split <;> omega

/-! ## the aligner's frame loop -/

/-- frame hypotheses relative to the current upper bound `U` of all scores: normalised senone scores, an entering score
(the exit score of the previous phone) in `[WORST_SCORE, U]` -/
def Frame3.OkU (U : Int) (f : Frame3) : Prop :=
  (0 ≤ f.c0 ∧ f.c0 ≤ 32767) ∧ (0 ≤ f.c1 ∧ f.c1 ≤ 32767) ∧ (0 ≤ f.c2 ∧ f.c2 ≤ 32767) ∧
  ∀ s hi, f.enter = some (s, hi) → WORST ≤ s ∧ s ≤ U

/-- the upper bound after the renormalisation (if any) of a frame -/
def AFrame.up (f : AFrame) (U : Int) : Int :=
  match f.renorm with
  | some b => U - b
  | none => U

/-- hypotheses along a run: a renormalisation happens only when the aligner's test fires, with a best score `≤ 0` -/
def AlignOk : Int → List AFrame → Prop
  | _, [] => True
  | U, f :: fs =>
    (∀ b, f.renorm = some b → renormFires b = true ∧ b ≤ 0) ∧
    (∀ fr, some fr ∈ f.evals → fr.OkU (f.up U)) ∧ AlignOk (f.up U) fs

theorem Bd3.mono {lo U U' : Int} {h : H3} (hb : Bd3 lo U h) (hle : U ≤ U') : Bd3 lo U' h :=
  ⟨⟨hb.s0.1, Int.le_trans hb.s0.2 hle⟩, ⟨hb.s1.1, Int.le_trans hb.s1.2 hle⟩, ⟨hb.s2.1, Int.le_trans hb.s2.2 hle⟩,
   ⟨hb.out.1, Int.le_trans hb.out.2 hle⟩⟩

theorem normalize3_ok {b U : Int} (hf : WORST < b ∧ b ≤ 0) (hU : U - WORST ≤ 2147483647) {h : H3} (hb : Bd3 WORST U h) :
    (∀ x ∈ (h.normalize b).2, I32 x) ∧ Bd3 WORST (U - b) (h.normalize b).1 := by
  have hW := worst_room
  have n0 := normOne_bd (lo := WORST) hf hb.s0 hU (by omega)
  have n1 := normOne_bd (lo := WORST) hf hb.s1 hU (by omega)
  have n2 := normOne_bd (lo := WORST) hf hb.s2 hU (by omega)
  have n3 := normOne_bd (lo := WORST) hf hb.out hU (by omega)
  refine ⟨?_, ⟨⟨n0.2.1, n0.2.2.1⟩, ⟨n1.2.1, n1.2.2.1⟩, ⟨n2.2.1, n2.2.2.1⟩, ⟨n3.2.1, n3.2.2.1⟩⟩⟩
  intro x hx
  simp only [H3.normalize, List.mem_cons, List.mem_nil_iff, or_false] at hx
  rcases hx with e | e | e | e <;> rw [e]
  · exact n0.1
  · exact n1.1
  · exact n2.1
  · exact n3.1

theorem getD_none_some_mem {α : Type} {l : List (Option α)} {i : Nat} {x : α} (h : l.getD i none = some x) :
    some x ∈ l := by
  rw [List.getD_eq_getElem?_getD] at h
  cases hi : l[i]? with
  | none => rw [hi] at h; simp at h
  | some y =>
    rw [hi] at h
    simp only [Option.getD_some] at h
    rw [← h]; exact List.mem_of_getElem? hi

theorem alignFrame_ok {tps : Nat → Nat → Nat → Nat} (htps : ∀ i a b, tps i a b ≤ 255) {U : Int} {hs : List H3}
    {f : AFrame} (hU0 : 0 ≤ U) (hhs : ∀ h ∈ hs, Bd3 WORST U h)
    (hr : ∀ b, f.renorm = some b → renormFires b = true ∧ b ≤ 0)
    (he : ∀ fr, some fr ∈ f.evals → fr.OkU (f.up U))
    (hUW : f.renorm.isSome = true → U - WORST ≤ 2147483647) (hUp : f.up U ≤ 2147483647) :
    (∀ x ∈ (alignFrame tps hs f).2, I32 x) ∧ (∀ h ∈ (alignFrame tps hs f).1, Bd3 WORST (f.up U) h) ∧ U ≤ f.up U := by
  have hW0 := worst_le_zero
  -- after the renormalisation
  have hn : ∀ p ∈ alignNorm hs f.renorm, (∀ x ∈ p.2, I32 x) ∧ Bd3 WORST (f.up U) p.1 := by
    intro p hp
    cases hfr : f.renorm with
    | none =>
      rw [hfr] at hp
      obtain ⟨h, hh, rfl⟩ := List.mem_map.1 hp
      simp only [AFrame.up, hfr]
      exact ⟨(by intro x hx; cases hx), hhs h hh⟩
    | some b =>
      rw [hfr] at hp
      obtain ⟨h, hh, rfl⟩ := List.mem_map.1 hp
      obtain ⟨hfire, hb0⟩ := hr b hfr
      have hf : WORST < b ∧ b - alignRenormMargin < WORST := by simpa [renormFires] using hfire
      simp only [AFrame.up, hfr]
      exact normalize3_ok ⟨hf.1, hb0⟩ (hUW (by rw [hfr]; rfl)) (hhs h hh)
  have hup : U ≤ f.up U := by
    cases hfr : f.renorm with
    | none => simp [AFrame.up, hfr]
    | some b => have := (hr b hfr).2; simp only [AFrame.up, hfr]; omega
  have hWU : WORST ≤ f.up U := by omega
  simp only [alignFrame]
  generalize alignNorm hs f.renorm = n at hn ⊢
  -- after the evaluation
  have hev : ∀ q ∈ alignEval tps f.evals n, (∀ x ∈ q.2, I32 x) ∧ Bd3 WORST (f.up U) q.1 := by
    intro q hq
    obtain ⟨i, hi, rfl⟩ := List.mem_mapIdx.1 hq
    have hp := hn n[i] (List.getElem_mem hi)
    cases hfe : f.evals.getD i none with
    | none => simp only; exact ⟨(by intro x hx; cases hx), hp.2⟩
    | some fr =>
      simp only
      obtain ⟨b0, b1, b2, hen⟩ := he fr (getD_none_some_mem hfe)
      have hb' : Bd3 WORST (f.up U) (match fr.enter with | some (s, hi) => n[i].1.enter s hi | none => n[i].1) := by
        cases hfen : fr.enter with
        | none => exact hp.2
        | some pr =>
          obtain ⟨s, hi'⟩ := pr
          exact ⟨hen s hi' hfen, hp.2.s1, hp.2.s2, hp.2.out⟩
      have st := hmm3Step_core (htps i) (cl := 0) (ch := 32767) (U := f.up U) (V := f.up U) (by omega) (by omega) hUp
        (Int.le_refl _) (by omega) hWU b0 b1 b2 hb'
      exact ⟨st.1, st.2.1⟩
  refine ⟨?_, ?_, hup⟩
  · intro x hx
    rcases List.mem_append.1 hx with hx | hx
    · obtain ⟨p, hp, hxp⟩ := List.mem_flatMap.1 hx
      exact (hn p hp).1 x hxp
    · obtain ⟨q, hq, hxq⟩ := List.mem_flatMap.1 hx
      exact (hev q hq).1 x hxq
  · intro h hh
    obtain ⟨q, hq, rfl⟩ := List.mem_map.1 hh
    exact (hev q hq).2

end SSVerif.Ranges
