import SSVerif.Proofs.AcmodDec
/-!
The batch path (`full_utt = 1`): `acmod_process_full_raw/_float32`, `acmod_process_full_cep`,
`feat_s2mfc2feat_block_utt`, and the search / alignment lemmas for a feature buffer that is filled exactly to
its end (where `feat_outidx` wraps to 0 after the last frame).  Core Lean only.
-/
namespace SSVerif.AcmodBuf
open SSVerif.Generated

/-! ## the search side when the queue may end exactly at the end of `feat_buf` -/

structure QInvW (s : St) : Prop where
  nofault : s.fault = none
  fbLen : s.featBuf.length = s.nFeatAlloc
  alloc1 : 1 ≤ s.nFeatAlloc
  room : s.outputFrame + s.nFeatFrame ≤ s.nFeatAlloc
  outIdx : s.featOutidx = s.outputFrame % s.nFeatAlloc

theorem scoreReadW (s : St) (h : QInvW s) (hn : 1 ≤ s.nFeatFrame) :
    scoreRead s = some (s.outputFrame, s.featBuf.getD s.outputFrame none) := by
  have h1 := h.fbLen
  have h3 := h.room
  have h2 : s.featOutidx = s.outputFrame := by rw [h.outIdx, Nat.mod_eq_of_lt (by omega)]
  have hidx : featIdx s s.outputFrame = some s.outputFrame := by
    unfold featIdx
    have c1 : ¬ ((s.outputFrame : Int) - (s.outputFrame : Int) > (s.nFeatAlloc : Int) - (s.nFeatFrame : Int)) := by omega
    have c2 : ¬ s.nFeatAlloc = 0 := by omega
    simp only [c1, c2, if_false]
    congr 1
    rw [h2]
    have : ((s.outputFrame : Int) + (s.outputFrame : Int) - (s.outputFrame : Int)) = (s.outputFrame : Int) := by omega
    rw [this, Int.emod_eq_of_lt (by omega) (by omega)]
    simp
  unfold scoreRead
  rw [hidx]
  simp only []
  rw [if_pos (by omega)]

theorem advanceW (s : St) (h : QInvW s) (hn : 1 ≤ s.nFeatFrame) :
    advance s = { s with featOutidx := (s.outputFrame + 1) % s.nFeatAlloc, nFeatFrame := s.nFeatFrame - 1,
                         outputFrame := s.outputFrame + 1 } := by
  have h3 := h.room
  have h2 : s.featOutidx = s.outputFrame := by rw [h.outIdx, Nat.mod_eq_of_lt (by omega)]
  unfold advance
  rw [if_neg (by omega), h2]
  by_cases he : s.outputFrame + 1 = s.nFeatAlloc
  · rw [if_pos he, he, Nat.mod_self]
  · rw [if_neg he, Nat.mod_eq_of_lt (by omega)]

theorem QInvW.step {s : St} (h : QInvW s) (hn : 1 ≤ s.nFeatFrame) (sr : List (Nat × Option Feat)) :
    QInvW { s with searched := sr, featOutidx := (s.outputFrame + 1) % s.nFeatAlloc, nFeatFrame := s.nFeatFrame - 1,
                   outputFrame := s.outputFrame + 1 } :=
  ⟨h.nofault, h.fbLen, h.alloc1, by have := h.room; simp only []; omega, rfl⟩

theorem searchNW : ∀ (n : Nat) (s : St), QInvW s → n ≤ s.nFeatFrame → SearchedOK s →
    ∃ sr, searchN n s = { s with searched := sr, featOutidx := (s.outputFrame + n) % s.nFeatAlloc,
                                 nFeatFrame := s.nFeatFrame - n, outputFrame := s.outputFrame + n } ∧
      sr = (List.range (s.outputFrame + n)).map fun k => (k, s.featBuf.getD k none) := by
  intro n
  induction n with
  | zero =>
    intro s h _ hs
    refine ⟨s.searched, ?_, by simpa [SearchedOK] using hs⟩
    simp only [searchN, Nat.add_zero, Nat.sub_zero, ← h.outIdx]
  | succ n ih =>
    intro s hq hn hs
    have hq1 : QInvW { s with searched := s.searched ++ [(s.outputFrame, s.featBuf.getD s.outputFrame none)] } :=
      ⟨hq.nofault, hq.fbLen, hq.alloc1, hq.room, hq.outIdx⟩
    have hadv := advanceW _ hq1 (by simp only []; omega)
    simp only [] at hadv
    have hq' := hq.step (by omega) (s.searched ++ [(s.outputFrame, s.featBuf.getD s.outputFrame none)])
    obtain ⟨sr, e, hsr⟩ := ih _ hq' (by simp only []; omega)
      (by
        unfold SearchedOK at *
        simp only []
        rw [hs, List.range_succ, List.map_append]
        rfl)
    simp only [] at e hsr
    refine ⟨sr, ?_, ?_⟩
    · simp only [searchN, scoreReadW s hq (by omega)]
      rw [hadv, e, show s.outputFrame + 1 + n = s.outputFrame + (n + 1) by omega]
      congr 1
      omega
    · rw [hsr, show s.outputFrame + 1 + n = s.outputFrame + (n + 1) by omega]

theorem searchForwardW (s : St) (hq : QInvW s) (hs : SearchedOK s) :
    searchForward s = { s with searched := (List.range (s.outputFrame + s.nFeatFrame)).map fun k => (k, s.featBuf.getD k none),
                               featOutidx := (s.outputFrame + s.nFeatFrame) % s.nFeatAlloc, nFeatFrame := 0,
                               outputFrame := s.outputFrame + s.nFeatFrame } := by
  obtain ⟨sr, e, hsr⟩ := searchNW s.nFeatFrame s hq (Nat.le_refl _) hs
  unfold searchForward
  rw [e, hsr, Nat.sub_self]

theorem alignNW (upto : Nat) : ∀ (n : Nat) (s : St) (acc : List (Nat × Option Feat)), QInvW s → n ≤ s.nFeatFrame →
    alignN n upto s acc =
      ({ s with featOutidx := (s.outputFrame + n) % s.nFeatAlloc, nFeatFrame := s.nFeatFrame - n,
                outputFrame := s.outputFrame + n },
       acc ++ ((List.range' s.outputFrame n).filter fun k => decide (k < upto)).map fun k => (k, s.featBuf.getD k none)) := by
  intro n
  induction n with
  | zero => intro s acc h _; simp [alignN, ← h.outIdx]
  | succ n ih =>
    intro s acc hq hn
    have hadv := advanceW s hq (by omega)
    have hq' : QInvW { s with featOutidx := (s.outputFrame + 1) % s.nFeatAlloc, nFeatFrame := s.nFeatFrame - 1,
                              outputFrame := s.outputFrame + 1 } :=
      ⟨hq.nofault, hq.fbLen, hq.alloc1, by have := hq.room; simp only []; omega, rfl⟩
    by_cases hu : s.outputFrame < upto
    · simp only [alignN, hu, if_true, scoreReadW s hq (by omega)]
      rw [hadv, ih _ _ hq' (by simp only []; omega)]
      simp only [List.range'_succ, List.filter_cons, hu, decide_true, if_true, List.map_cons, List.append_assoc,
        List.singleton_append]
      rw [show s.outputFrame + 1 + n = s.outputFrame + (n + 1) by omega]
      congr 2
      omega
    · simp only [alignN, hu, if_false]
      rw [hadv, ih _ _ hq' (by simp only []; omega)]
      simp only [List.range'_succ, List.filter_cons, hu, decide_false, if_false, Bool.false_eq_true]
      rw [show s.outputFrame + 1 + n = s.outputFrame + (n + 1) by omega]
      congr 2
      omega

theorem alignPassW (s : St) (upto : Nat) (hq : QInvW s) :
    alignPass s upto =
      { s with aligned := s.aligned ++ [(List.range (min upto s.outputFrame)).map fun k => (k, s.featBuf.getD k none)] } := by
  have hroom := hq.room
  have hq1 : QInvW { s with nFeatFrame := s.outputFrame + s.nFeatFrame, featOutidx := 0, outputFrame := 0 } :=
    ⟨hq.nofault, hq.fbLen, hq.alloc1, by simp only []; omega, by simp only []; rw [Nat.zero_mod]⟩
  unfold alignPass
  rw [if_neg (by omega)]
  simp only []
  rw [alignNW upto s.outputFrame _ [] hq1 (by simp only []; omega)]
  simp only [List.nil_append, Nat.zero_add, Nat.add_sub_cancel_left, ← List.range_eq_range', filter_lt_range]
  rw [← hq.outIdx]

/-! ## `feat_s2mfc2feat_block_utt` -/

theorem cmnBatchBlock_spec (skip : Nat → Bool) : ∀ (n ptr : Nat) (s : St) (c : Nat), ptr + n ≤ s.mfcBuf.length →
    (∀ i, i < n → s.mfcBuf.getD (ptr + i) none = some ⟨c + i, 0, false⟩) →
    ∃ mb cf, cmnBatchBlock skip n ptr s = { s with mfcBuf := mb, cmnFrames := cf } ∧ mb.length = s.mfcBuf.length ∧
      (∀ i, i < n → mb.getD (ptr + i) none = some ⟨c + i, 1, false⟩) ∧
      (∀ q, (q < ptr ∨ q ≥ ptr + n) → mb.getD q none = s.mfcBuf.getD q none) := by
  intro n
  induction n with
  | zero => intro ptr s c _ _; exact ⟨s.mfcBuf, s.cmnFrames, by simp [cmnBatchBlock], rfl, by simp, by simp⟩
  | succ n ih =>
    intro ptr s c hp hfr
    have h0 := hfr 0 (by omega)
    rw [Nat.add_zero] at h0
    obtain ⟨mb, cf, e, hl, h1, h2⟩ := ih (ptr + 1)
      { s with mfcBuf := s.mfcBuf.set ptr (some ⟨c, 1, false⟩),
               cmnFrames := if skip c then s.cmnFrames else s.cmnFrames + 1 } (c + 1) (by simp; omega)
      (by
        intro i hi
        simp only []
        rw [getD_set_ne _ _ _ _ _ (by omega)]
        have := hfr (i + 1) (by omega)
        rw [show ptr + 1 + i = ptr + (i + 1) by omega, this]
        congr 2; omega)
    refine ⟨mb, cf, ?_, by simpa using hl, ?_, ?_⟩
    · simp only [cmnBatchBlock, h0, Nat.add_zero, Nat.zero_add]
      simpa using e
    · intro i hi
      cases i with
      | zero =>
        rw [Nat.add_zero, h2 ptr (by omega)]
        simp only []
        rw [getD_set_eq _ _ _ _ (by omega)]; simp
      | succ i =>
        have := h1 i (by omega)
        rw [show ptr + (i + 1) = ptr + 1 + i by omega, this]
        congr 2; omega
    · intro q hq
      rw [h2 q (by omega)]
      simp only []
      exact getD_set_ne _ _ _ _ _ (by omega)

theorem blockScratch_spec (win : Nat) (first last : Option Cep) : ∀ (k : Nat) (s : St), k ≤ win → 2 * win ≤ s.cepbuf.length →
    ∃ cb, blockScratch k win first last s = { s with cepbuf := cb } ∧ cb.length = s.cepbuf.length := by
  intro k
  induction k with
  | zero => intro s _ _; exact ⟨s.cepbuf, rfl, rfl⟩
  | succ k ih =>
    intro s hk hl
    obtain ⟨cb, e, hcl⟩ := ih { s with cepbuf := (s.cepbuf.set (win - (k + 1)) first).set (win + (win - (k + 1))) last }
      (by omega) (by simpa using hl)
    refine ⟨cb, ?_, by simpa using hcl⟩
    simp only [blockScratch]
    rw [if_pos (by omega), e]

theorem blockFeats_spec (win : Nat) (padded : List (Option Cep)) : ∀ (k i o : Nat) (s : St), o + k ≤ s.featBuf.length →
    ∃ fb, blockFeats win padded k i o s = { s with featBuf := fb } ∧ fb.length = s.featBuf.length ∧
      (∀ t, t < k → fb.getD (o + t) none = some ((padded.drop (i + t)).take (2 * win + 1))) ∧
      (∀ q, (q < o ∨ q ≥ o + k) → fb.getD q none = s.featBuf.getD q none) := by
  intro k
  induction k with
  | zero => intro i o s _; exact ⟨s.featBuf, rfl, rfl, by simp, by simp⟩
  | succ k ih =>
    intro i o s ho
    have hw : writeFeat s o ((padded.drop i).take (2 * win + 1)) =
        { s with featBuf := s.featBuf.set o (some ((padded.drop i).take (2 * win + 1))) } := by
      simp [writeFeat, (by omega : o < s.featBuf.length)]
    obtain ⟨fb, e, hl, h1, h2⟩ := ih (i + 1) (o + 1) { s with featBuf := s.featBuf.set o (some ((padded.drop i).take (2 * win + 1))) }
      (by simp; omega)
    refine ⟨fb, ?_, by simpa using hl, ?_, ?_⟩
    · simp only [blockFeats]
      rw [hw, e]
    · intro t ht
      cases t with
      | zero =>
        simp only [Nat.add_zero]
        rw [h2 o (by omega)]
        simp only []
        rw [getD_set_eq _ _ _ _ (by omega)]
      | succ t =>
        have := h1 t (by omega)
        rw [show o + (t + 1) = o + 1 + t by omega, this, show i + 1 + t = i + (t + 1) by omega]
    · intro q hq
      rw [h2 q (by omega)]
      simp only []
      exact getD_set_ne _ _ _ _ _ (by omega)

/-- the windows of the padded pointer array are the canonical windows -/
theorem padded_window (win n k : Nat) (xs : List (Option Cep)) (a b : Option Cep) (hn : xs.length = n) (hk : k < n)
    (hx : ∀ i, i < n → xs.getD i none = some ⟨i, 1, false⟩) (ha : a = some ⟨0, 1, false⟩) (hb : b = some ⟨n - 1, 1, false⟩) :
    ((List.replicate win a ++ xs ++ List.replicate win b).drop k).take (2 * win + 1) = canon win n k := by
  apply List.ext_getElem?
  intro j
  unfold canon
  rw [List.getElem?_take, List.getElem?_map]
  by_cases hj : j < 2 * win + 1
  · rw [if_pos hj, List.getElem?_drop, List.getElem?_range hj]
    simp only [Option.map_some]
    by_cases h1 : k + j < win
    · rw [List.append_assoc, List.getElem?_append_left (by simpa using h1), List.getElem?_replicate, if_pos h1, ha]
      congr 3; omega
    · by_cases h2 : k + j < win + n
      · rw [List.getElem?_append_left (by simp; omega), List.getElem?_append_right (by simp; omega)]
        simp only [List.length_replicate]
        have := hx (k + j - win) (by omega)
        rw [List.getD_eq_getElem?_getD] at this
        have hlt : k + j - win < xs.length := by omega
        rw [List.getElem?_eq_getElem hlt] at this ⊢
        simp only [Option.getD_some] at this
        rw [this]
        congr 3; omega
      · rw [List.getElem?_append_right (by simp; omega), List.getElem?_replicate]
        simp only [List.length_append, List.length_replicate, hn]
        rw [if_pos (by omega), hb]
        congr 3; omega
  · rw [if_neg hj]
    have : (List.range (2 * win + 1))[j]? = none := by simp; omega
    rw [this]; rfl

/-- `feat_cmn(.., 1, 1)` of the block path: every frame normalised exactly once, in either configuration -/
theorem blockCmn_spec (skip : Nat → Bool) (s : St) (ptr n : Nat) (hp : ptr + n ≤ s.mfcBuf.length)
    (hfr : MfcAt s.mfcBuf ptr n 0) (hm : s.cmnMoved = false) (hc : s.cmnBatch = true ∨ s.cmnFrames + n ≤ cmnWinHwm) :
    ∃ mb cf cm, (if s.cmnBatch then cmnBatchBlock skip n ptr { s with cmnFrames := 0 } else cmnUpdate (cmnLive skip s ptr n)) =
        { s with mfcBuf := mb, cmnFrames := cf, cmnMoved := cm } ∧ mb.length = s.mfcBuf.length ∧
      (∀ i, i < n → mb.getD (ptr + i) none = some ⟨0 + i, 1, false⟩) := by
  by_cases hb : s.cmnBatch = true
  · obtain ⟨mb, cf, e, hl, h1, _⟩ := cmnBatchBlock_spec skip n ptr { s with cmnFrames := 0 } 0 hp hfr
    refine ⟨mb, cf, s.cmnMoved, ?_, hl, h1⟩
    rw [if_pos hb, e]
  · have hcm : s.cmnFrames + n ≤ cmnWinHwm := by
      rcases hc with h | h
      · exact absurd h hb
      · exact h
    obtain ⟨mb, cf, e, hl, h1, _, _, hcf2⟩ := cmnLive_spec skip s ptr n 0 hp hfr hm hcm
    rw [if_neg hb, e]
    unfold cmnUpdate
    by_cases h0 : cf = 0
    · exact ⟨mb, cf, s.cmnMoved, by simp [h0], hl, h1⟩
    · have : ¬ cf > cmnWinHwm := by omega
      exact ⟨mb, cf, true, by simp [h0, this], hl, h1⟩

theorem blockUtt_spec (win : Nat) (skip : Nat → Bool) (s : St) (ptr n o : Nat) (hn : 1 ≤ n) (hp : ptr + n ≤ s.mfcBuf.length)
    (hfr : MfcAt s.mfcBuf ptr n 0) (hcl : 2 * win ≤ s.cepbuf.length) (ho : o + n ≤ s.featBuf.length)
    (hm : s.cmnMoved = false) (hc : s.cmnBatch = true ∨ s.cmnFrames + n ≤ cmnWinHwm) :
    (blockUtt win skip s ptr n o).used = n ∧ (blockUtt win skip s ptr n o).nfeat = n ∧
    ∃ cb fb mb cf cm, (blockUtt win skip s ptr n o).st =
        { s with cepbuf := cb, featBuf := fb, mfcBuf := mb, cmnFrames := cf, cmnMoved := cm } ∧
      cb.length = s.cepbuf.length ∧ fb.length = s.featBuf.length ∧ mb.length = s.mfcBuf.length ∧
      (∀ k, k < n → fb.getD (o + k) none = some (canon win n k)) := by
  obtain ⟨mb, cf, cm, e1, hmbl, hmb⟩ := blockCmn_spec skip s ptr n hp hfr hm hc
  obtain ⟨cb, e2, hcbl⟩ := blockScratch_spec win (mb.getD ptr none) (mb.getD (ptr + n - 1) none) win
    { s with mfcBuf := mb, cmnFrames := cf, cmnMoved := cm } (Nat.le_refl _) hcl
  obtain ⟨fb, e3, hfbl, hf1, _⟩ := blockFeats_spec win
    (List.replicate win (mb.getD ptr none) ++ ((List.range n).map fun i => mb.getD (ptr + i) none) ++
      List.replicate win (mb.getD (ptr + n - 1) none)) n 0 o
    { s with mfcBuf := mb, cmnFrames := cf, cmnMoved := cm, cepbuf := cb } ho
  have hE : blockUtt win skip s ptr n o =
      ⟨{ s with mfcBuf := mb, cmnFrames := cf, cmnMoved := cm, cepbuf := cb, featBuf := fb }, n, n⟩ := by
    simp only [blockUtt, e1, e2]
    rw [e3]
  rw [hE]
  refine ⟨rfl, rfl, cb, fb, mb, cf, cm, rfl, hcbl, hfbl, hmbl, ?_⟩
  intro k hk
  rw [hf1 k hk, Nat.zero_add]
  congr 1
  apply padded_window win n k _ _ _ (by simp) hk
  · intro i hi
    rw [List.getD_eq_getElem?_getD, List.getElem?_map, List.getElem?_range hi]
    simp only [Option.map_some, Option.getD_some]
    rw [hmb i hi, Nat.zero_add]
  · have := hmb 0 (by omega); simpa using this
  · have := hmb (n - 1) (by omega)
    rw [show ptr + (n - 1) = ptr + n - 1 by omega, Nat.zero_add] at this
    exact this

/-! ## `acmod_process_full_raw` and the utterance around it -/

/-- the invariant of an utterance decoded in the batch regime: `M` frames delivered (0 before the call), their
    canonical features in `feat_buf[0 .. M)`, the first `output_frame` of them searched -/
structure BInv (win : Nat) (s : St) (M : Nat) : Prop where
  nofault : s.fault = none
  cepLen : s.cepbuf.length = livebuf
  fbLen : s.featBuf.length = s.nFeatAlloc
  alloc1 : 1 ≤ s.nFeatAlloc
  mfcLen : s.mfcBuf.length = s.nMfcAlloc
  mfcAlloc1 : 1 ≤ s.nMfcAlloc
  mfc0 : s.nMfcFrame = 0
  next : s.nextId = M
  cnt : s.outputFrame + s.nFeatFrame = M
  room : M ≤ s.nFeatAlloc
  outIdx : s.featOutidx = s.outputFrame % s.nFeatAlloc
  feats : ∀ k, k < M → s.featBuf.getD k none = some (canon win M k)
  srch : SearchedOK s
  algn : AlignedOK s

theorem BInv.qinv {win M} {s : St} (h : BInv win s M) : QInvW s :=
  ⟨h.nofault, h.fbLen, h.alloc1, by have := h.cnt; have := h.room; omega, h.outIdx⟩

theorem fullFe_spec (s : St) (r : FullResp) (hl : s.mfcBuf.length = s.nMfcAlloc) (h1 : 1 ≤ s.nMfcAlloc) :
    ∃ mb a1, fullFe s r = { s with mfcBuf := mb, nMfcAlloc := a1, nMfcFrame := 0, mfcOutidx := 0, nextId := fullCount r } ∧
      mb.length = a1 ∧ fullCount r ≤ a1 ∧ 1 ≤ a1 ∧ MfcAt mb 0 (fullCount r) 0 := by
  obtain ⟨mb1, a1, e1, hl1, ha1, ha1'⟩ : ∃ mb1 a1, (if s.nMfcAlloc < r.est then
      { s with mfcBuf := List.replicate r.est none, nMfcAlloc := r.est } else s) =
        { s with mfcBuf := mb1, nMfcAlloc := a1 } ∧ mb1.length = a1 ∧ r.est ≤ a1 ∧ 1 ≤ a1 := by
    by_cases hlt : s.nMfcAlloc < r.est
    · exact ⟨_, _, by rw [if_pos hlt], by simp, Nat.le_refl _, by omega⟩
    · exact ⟨s.mfcBuf, s.nMfcAlloc, by rw [if_neg hlt], hl, by omega, h1⟩
  have hmin := Nat.min_le_right r.nvec r.est
  obtain ⟨mb2, e2, hl2, h21, _⟩ := feWrite_spec (min r.nvec r.est) 0
    { s with mfcBuf := mb1, nMfcAlloc := a1, nMfcFrame := 0, mfcOutidx := 0, nextId := 0 }
    (by simp only []; omega)
  simp only [Nat.zero_add] at e2 hl2 h21
  obtain ⟨mb3, e3, hl3, h31, h32⟩ := feWrite_spec (min (if r.tail then 1 else 0) (r.est - min r.nvec r.est)) (min r.nvec r.est)
    { s with mfcBuf := mb2, nMfcAlloc := a1, nMfcFrame := 0, mfcOutidx := 0, nextId := min r.nvec r.est }
    (by simp only []; omega)
  simp only [] at e3 hl3 h31 h32
  refine ⟨mb3, a1, ?_, by omega, ?_, ha1', ?_⟩
  · simp only [fullFe, e1]
    rw [e2, e3]
    rfl
  · unfold fullCount; omega
  · intro i hi
    unfold fullCount at hi
    by_cases hi1 : i < min r.nvec r.est
    · rw [h32 (0 + i) (by omega), Nat.zero_add, h21 i hi1]
    · have := h31 (i - min r.nvec r.est) (by omega)
      rw [show 0 + i = min r.nvec r.est + (i - min r.nvec r.est) by omega, this]

theorem fullRaw_spec (win : Nat) (skip : Nat → Bool) (s : St) (r : FullResp) (h : BInv win s 0) (hm : s.cmnMoved = false)
    (hM : 1 ≤ fullCount r) (hw : 2 * win ≤ livebuf)
    (hc : s.cmnBatch = true ∨ s.cmnFrames + fullCount r ≤ cmnWinHwm) :
    BInv win (fullRaw win skip s r) (fullCount r) ∧ (fullRaw win skip s r).state = s.state := by
  have hcnt := h.cnt
  have hof : s.outputFrame = 0 := by omega
  have hnf : s.nFeatFrame = 0 := by omega
  have hfo : s.featOutidx = 0 := by rw [h.outIdx, hof, Nat.zero_mod]
  have hsr : s.searched = [] := by have := h.srch; unfold SearchedOK at this; rw [this, hof]; rfl
  obtain ⟨mb3, a1, eF, hl3, hM', ha1', hat⟩ := fullFe_spec s r h.mfcLen h.mfcAlloc1
  -- `feat_buf`, replaced when too small
  obtain ⟨fb1, a2, fo1, e4, hl4, ha2, ha2', hfo1⟩ : ∃ fb1 a2 fo1, fullFeatBuf (fullFe s r) (fullCount r) =
        { s with mfcBuf := mb3, nMfcAlloc := a1, nMfcFrame := 0, mfcOutidx := 0, nextId := fullCount r,
                 featBuf := fb1, nFeatAlloc := a2, nFeatFrame := 0, featOutidx := fo1 } ∧
      fb1.length = a2 ∧ fullCount r ≤ a2 ∧ 1 ≤ a2 ∧ fo1 = 0 := by
    rw [eF]
    unfold fullFeatBuf
    by_cases hlt : s.nFeatAlloc < fullCount r
    · exact ⟨_, _, 0, by rw [if_pos hlt], by simp, Nat.le_refl _, hM, rfl⟩
    · refine ⟨s.featBuf, s.nFeatAlloc, s.featOutidx, ?_, h.fbLen, by omega, h.alloc1, hfo⟩
      rw [if_neg hlt, ← hnf]
  obtain ⟨b1, b2, cb, fb, mb, cf, cm, e5, hcbl, hfbl, hmbl, hfe⟩ := blockUtt_spec win skip
    { s with mfcBuf := mb3, nMfcAlloc := a1, nMfcFrame := 0, mfcOutidx := 0, nextId := fullCount r,
             featBuf := fb1, nFeatAlloc := a2, nFeatFrame := 0, featOutidx := fo1 } 0 (fullCount r) 0 hM
    (by simp only []; omega) hat (by simp only []; rw [h.cepLen]; exact hw) (by simp only []; omega) hm hc
  simp only [] at hcbl hfbl hmbl
  have hdec : decide (fullCount r > 0) = true := by simp; omega
  have hE : fullRaw win skip s r =
      { s with mfcBuf := mb, nMfcAlloc := a1, nMfcFrame := 0, mfcOutidx := 0, nextId := fullCount r,
               featBuf := fb, nFeatAlloc := a2, nFeatFrame := fullCount r, featOutidx := fo1, cepbuf := cb,
               cmnFrames := cf, cmnMoved := cm } := by
    simp only [fullRaw, fullCep, e4, featLive, Bool.true_and, hdec, if_true, b2, e5]
    rw [if_pos ha2]
  rw [hE]
  refine ⟨⟨h.nofault, by simp only []; rw [hcbl, h.cepLen], by simp only []; omega, ha2', by simp only []; omega, ha1', rfl, rfl,
    by simp only []; omega, ha2, by simp only []; rw [hfo1, hof, Nat.zero_mod], ?_, ?_, ?_⟩, rfl⟩
  · intro k hk
    have := hfe k hk
    rwa [Nat.zero_add] at this
  · unfold SearchedOK; simp only []; rw [hsr, hof]; rfl
  · intro l hl
    obtain ⟨p, hp, el⟩ := h.algn l hl
    have hp0 : p = 0 := by omega
    subst hp0
    exact ⟨0, Nat.zero_le _, by rw [el]; rfl⟩

/-- the fields the queries and the search never touch -/
structure SameCfg (s s' : St) : Prop where
  state : s'.state = s.state
  moved : s'.cmnMoved = s.cmnMoved
  frames : s'.cmnFrames = s.cmnFrames
  batch : s'.cmnBatch = s.cmnBatch

theorem SameCfg.refl (s : St) : SameCfg s s := ⟨rfl, rfl, rfl, rfl⟩
theorem SameCfg.trans {a b c : St} (h1 : SameCfg a b) (h2 : SameCfg b c) : SameCfg a c :=
  ⟨h2.state.trans h1.state, h2.moved.trans h1.moved, h2.frames.trans h1.frames, h2.batch.trans h1.batch⟩

theorem BInv.search {win M} {s : St} (h : BInv win s M) :
    BInv win (searchForward s) M ∧ (searchForward s).nFeatFrame = 0 ∧ SameCfg s (searchForward s) := by
  have e := searchForwardW s h.qinv h.srch
  have hc := h.cnt
  rw [e]
  refine ⟨⟨h.nofault, h.cepLen, h.fbLen, h.alloc1, h.mfcLen, h.mfcAlloc1, h.mfc0, h.next, by simp only []; omega, h.room, rfl,
    h.feats, ?_, ?_⟩, rfl, ⟨rfl, rfl, rfl, rfl⟩⟩
  · unfold SearchedOK; rfl
  · intro l hl
    obtain ⟨p, hp, el⟩ := h.algn l hl
    exact ⟨p, by simp only []; omega, el⟩

theorem BInv.align {win M} {s : St} (h : BInv win s M) (upto : Nat) :
    BInv win (alignPass s upto) M ∧ SameCfg s (alignPass s upto) := by
  have e := alignPassW s upto h.qinv
  rw [e]
  refine ⟨⟨h.nofault, h.cepLen, h.fbLen, h.alloc1, h.mfcLen, h.mfcAlloc1, h.mfc0, h.next, h.cnt, h.room, h.outIdx, h.feats, ?_, ?_⟩,
    ⟨rfl, rfl, rfl, rfl⟩⟩
  · have := h.srch; unfold SearchedOK at *; exact this
  · intro l hl
    simp only [List.mem_append, List.mem_singleton] at hl
    rcases hl with hl | hl
    · exact h.algn l hl
    · exact ⟨min upto s.outputFrame, Nat.min_le_right _ _, hl⟩

theorem runOps_B (win : Nat) (skip : Nat → Bool) {M : Nat} : ∀ (ops : List Op) (s : St), BInv win s M →
    (∀ op, op ∈ ops → op.isProcess = false) → BInv win (runOps true win skip s ops) M ∧ SameCfg s (runOps true win skip s ops) := by
  intro ops
  induction ops with
  | nil => intro s h _; exact ⟨h, SameCfg.refl s⟩
  | cons op ops ih =>
    intro s h hp
    have hop := hp op (List.mem_cons_self ..)
    have hs : BInv win (step true win skip s op) M ∧ SameCfg s (step true win skip s op) := by
      cases op with
      | process ns rs => simp [Op.isProcess] at hop
      | processFull ns rs => simp [Op.isProcess] at hop
      | query => exact ⟨h, SameCfg.refl s⟩
      | align steps =>
        cases steps with
        | none => exact ⟨h, SameCfg.refl s⟩
        | some upto => exact h.align upto
    obtain ⟨i1, i2⟩ := ih _ hs.1 (fun op' hm => hp op' (List.mem_cons_of_mem _ hm))
    simp only [runOps, List.foldl_cons] at i1 i2 ⊢
    exact ⟨i1, hs.2.trans i2⟩

/-- `acmod_set_grow(TRUE)` before any frame of the utterance -/
theorem setGrow_B {win} {s : St} (h : BInv win s 0) : BInv win (setGrow s true) 0 ∧ SameCfg s (setGrow s true) := by
  have hcnt := h.cnt
  have hof : s.outputFrame = 0 := by omega
  have hsr : s.searched = [] := by have := h.srch; unfold SearchedOK at this; rw [this, hof]; rfl
  have halg : ∀ (s' : St), s'.aligned = s.aligned → AlignedOK s' := by
    intro s' he l hl
    rw [he] at hl
    obtain ⟨p, hp, el⟩ := h.algn l hl
    have hp0 : p = 0 := by omega
    subst hp0
    exact ⟨0, Nat.zero_le _, by rw [el]; rfl⟩
  by_cases hlt : s.nFeatAlloc < growMin
  · have e : setGrow s true = { s with growFeat := true,
                                        featBuf := s.featBuf ++ List.replicate (growMin - s.featBuf.length) none,
                                        nFeatAlloc := growMin } := by
      unfold setGrow growFeatBuf; simp only [Bool.true_and, hlt, decide_true, if_true]
    rw [e]
    refine ⟨⟨h.nofault, h.cepLen, by have := h.fbLen; simp only [List.length_append, List.length_replicate]; omega,
      (by decide : 1 ≤ growMin), h.mfcLen, h.mfcAlloc1, h.mfc0, h.next, h.cnt, Nat.zero_le _, ?_, ?_, ?_, halg _ rfl⟩,
      ⟨rfl, rfl, rfl, rfl⟩⟩
    · simp only []; rw [h.outIdx, hof, Nat.zero_mod, Nat.zero_mod]
    · intro k hk; omega
    · unfold SearchedOK; simp only []; rw [hsr, hof]; rfl
  · have e : setGrow s true = { s with growFeat := true } := by
      unfold setGrow; simp only [Bool.true_and, hlt, decide_false, if_false, Bool.false_eq_true]
    rw [e]
    exact ⟨⟨h.nofault, h.cepLen, h.fbLen, h.alloc1, h.mfcLen, h.mfcAlloc1, h.mfc0, h.next, h.cnt, h.room, h.outIdx, h.feats,
      h.srch, h.algn⟩, ⟨rfl, rfl, rfl, rfl⟩⟩

/-- `decoder_process_*` with `full_utt = 1` on the whole utterance (one pass: the estimate made room for everything) -/
theorem decProcessFull_B (win : Nat) (skip : Nat → Bool) (s : St) (ns : Bool) (r : FullResp) (h : BInv win s 0)
    (hst : s.state = .started) (hm : s.cmnMoved = false) (hmore : r.more = false) (hM : 1 ≤ fullCount r)
    (hw : 2 * win ≤ livebuf) (hc : s.cmnBatch = true ∨ s.cmnFrames + fullCount r ≤ cmnWinHwm) :
    BInv win (decProcessFull win skip s ns [r]) (fullCount r) ∧ (decProcessFull win skip s ns [r]).state = .started := by
  have hni : ¬ s.state = .idle := by rw [hst]; decide
  cases ns with
  | true =>
    obtain ⟨g1, g2⟩ := setGrow_B h
    obtain ⟨f1, f2⟩ := fullRaw_spec win skip _ r g1 (by rw [g2.moved]; exact hm) hM hw (by rw [g2.batch, g2.frames]; exact hc)
    have e : decProcessFull win skip s true [r] = fullRaw win skip (setGrow s true) r := by
      unfold decProcessFull
      rw [if_neg hni]
      simp only [decFull, hmore, Bool.false_eq_true, if_false, if_true]
    rw [e]
    exact ⟨f1, by rw [f2, g2.state, hst]⟩
  | false =>
    obtain ⟨f1, f2⟩ := fullRaw_spec win skip s r h hm hM hw hc
    have e : decProcessFull win skip s false [r] = searchForward (fullRaw win skip s r) := by
      unfold decProcessFull
      rw [if_neg hni]
      simp only [decFull, hmore, Bool.false_eq_true, if_false]
    rw [e]
    obtain ⟨s1, _, s3⟩ := f1.search
    exact ⟨s1, by rw [s3.state, f2, hst]⟩

/-- `decoder_end_utt` after the batch call: the front end has nothing pending, the remaining frames are searched -/
theorem decEnd_B (win : Nat) (skip : Nat → Bool) (s : St) {M : Nat} (h : BInv win s M) (hst : s.state = .started) :
    BInv win (decEnd true win skip s false) M ∧ (decEnd true win skip s false).nFeatFrame = 0 ∧
      (decEnd true win skip s false).state = .ended := by
  have hne : ¬ (s.state = .ended ∨ s.state = .idle) := by rw [hst]; decide
  have hlt : s.nMfcFrame < s.nMfcAlloc := by rw [h.mfc0]; exact h.mfcAlloc1
  have e : acmodEndUtt true win skip s false = { s with state := .ended, nMfcFrame := s.nMfcFrame + 0 } := by
    simp only [acmodEndUtt, endFe, hlt, if_true, Bool.false_eq_true, if_false, Nat.zero_min, feWrite]
    rfl
  have hB : BInv win { s with state := .ended, nMfcFrame := s.nMfcFrame + 0 } M :=
    ⟨h.nofault, h.cepLen, h.fbLen, h.alloc1, h.mfcLen, h.mfcAlloc1, by simp only []; rw [h.mfc0], h.next, h.cnt, h.room, h.outIdx,
      h.feats, h.srch, h.algn⟩
  unfold decEnd
  rw [if_neg hne, e]
  obtain ⟨s1, s2, s3⟩ := hB.search
  exact ⟨s1, s2, by rw [s3.state]⟩

theorem BInv.searched_eq {win M} {s : St} (h : BInv win s M) (hn : s.nFeatFrame = 0) :
    s.searched = (List.range M).map fun k => (k, some (canon win M k)) := by
  have hc := h.cnt
  have : s.outputFrame = M := by omega
  rw [h.srch, this]
  apply List.map_congr_left
  intro k hk
  rw [h.feats k (List.mem_range.mp hk)]

end SSVerif.AcmodBuf
