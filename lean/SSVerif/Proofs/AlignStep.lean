import SSVerif.Model.Align
/-!
The constrained Viterbi step of the aligner (`Model/Align.lean`, namespace `Step`): without skip transitions
no recorded token points more than one state back — the monotone / no-skipped-state part of `WFTokens`.
-/
namespace SSVerif.Align.Step

/-- score and matrix ranges the C code guarantees: scores are clamped at `WORST_SCORE`, senone scores are
`int16` magnitudes, transition entries are `uint8` -/
structure InRange (tp : Array Int) (sen0 sen1 sen2 : Int) (h : Hmm) : Prop where
  s0 : worst ≤ h.s0
  s1 : worst ≤ h.s1
  s2 : worst ≤ h.s2
  out : worst ≤ h.out
  e0 : 0 ≤ sen0 ∧ sen0 ≤ 32767
  e1 : 0 ≤ sen1 ∧ sen1 ≤ 32767
  e2 : 0 ≤ sen2 ∧ sen2 ≤ 32767
  tp : ∀ i j, 0 ≤ tpAt tp i j ∧ tpAt tp i j ≤ 255

/-- `NoSkip` for a 3-state matrix: no transition 0→2 and none 1→exit -/
def NoSkip3 (tp : Array Int) : Prop := tpAt tp 0 2 = 255 ∧ tpAt tp 1 3 = 255

/-- **One evaluation never moves a history more than one state forward**: without skip transitions, after
`hmm_vit_eval_3st_lr` the history of state 0 is unchanged, that of state 1 comes from state 1 or 0, that of
state 2 from state 2 or 1, and the exit history from state 2 (or is unchanged); the scores stay `≥ WORST_SCORE`. -/
theorem eval3_noskip_local (tp : Array Int) (a b c : Int) (h : Hmm) (hr : InRange tp a b c h) (hn : NoSkip3 tp) :
    let h' := (eval3 tp a b c h).1
    h'.h0 = h.h0 ∧ (h'.h1 = h.h1 ∨ h'.h1 = h.h0) ∧ (h'.h2 = h.h2 ∨ h'.h2 = h.h1) ∧
    (h'.outH = h.h2 ∨ h'.outH = h.outH) ∧ worst ≤ h'.s0 ∧ worst ≤ h'.s1 ∧ worst ≤ h'.s2 ∧ worst ≤ h'.out ∧
    h'.frame = h.frame := by
  obtain ⟨n02, n13⟩ := hn
  have t22 := hr.tp 2 2
  have t12 := hr.tp 1 2
  have t23 := hr.tp 2 3
  have hs0 := hr.s0; have hs1 := hr.s1; have hs2 := hr.s2; have ho := hr.out
  have ha := hr.e0; have hb := hr.e1; have hc := hr.e2
  have hw : worst = -536870912 := rfl
  have hm : intMin = -2147483648 := rfl
  have hcl : ∀ x, worst ≤ clampW x := by
    intro x; unfold clampW; split <;> omega
  have f0 : ¬ (intMin > h.s2 - c - tpAt tp 2 2) := by omega
  have f1 : ¬ (intMin > h.s1 - b - tpAt tp 1 2) := by omega
  have f3 : h.s2 - c - tpAt tp 2 3 > intMin := by omega
  unfold eval3
  simp only [n02, n13, Int.lt_irrefl, if_false]
  by_cases hA : h.s1 - b > worst
  · simp only [hA, if_true, f3, f0, f1, if_false]
    refine ⟨trivial, ?_, ?_, ?_, hcl _, hcl _, hcl _, hcl _, trivial⟩
    · split <;> simp
    · split <;> simp
    · simp
  · simp only [hA, if_false, f0, f1]
    refine ⟨trivial, ?_, ?_, ?_, hcl _, hcl _, hcl _, ho, trivial⟩
    · split <;> simp
    · split <;> simp
    · simp

/-! ### the invariant of the search and the locality of every recorded token -/

/-- a token of state `k` is dead (`-1`), a self-transition, or comes from state `k-1` -/
def TokLoc (k : Nat) (id : Int) : Prop := id = -1 ∨ id = (k : Int) ∨ id + 1 = (k : Int)

/-- holds for every HMM `i` at all times: the exit history is the last state of the phone (or unset); scores
are at least `WORST_SCORE` -/
structure HInv (i : Nat) (h : Hmm) : Prop where
  outH : h.outH = ((3 * i + 2 : Nat) : Int) ∨ h.outH = -1
  s0 : worst ≤ h.s0
  s1 : worst ≤ h.s1
  s2 : worst ≤ h.s2
  out : worst ≤ h.out

/-- between frames every backpointer is the HMM's own state index (written by `record_transitions`) or unset -/
def Lab (i : Nat) (h : Hmm) : Prop :=
  (h.h0 = ((3 * i : Nat) : Int) ∨ h.h0 = -1) ∧ (h.h1 = ((3 * i + 1 : Nat) : Int) ∨ h.h1 = -1) ∧
  (h.h2 = ((3 * i + 2 : Nat) : Int) ∨ h.h2 = -1)

def TokLocs (i : Nat) (h : Hmm) : Prop := TokLoc (3 * i) h.h0 ∧ TokLoc (3 * i + 1) h.h1 ∧ TokLoc (3 * i + 2) h.h2

theorem lab_tokLocs {i : Nat} {h : Hmm} (hl : Lab i h) : TokLocs i h := by
  obtain ⟨a, b, c⟩ := hl
  refine ⟨?_, ?_, ?_⟩
  · rcases a with a | a
    · exact Or.inr (Or.inl a)
    · exact Or.inl a
  · rcases b with b | b
    · exact Or.inr (Or.inl b)
    · exact Or.inl b
  · rcases c with c | c
    · exact Or.inr (Or.inl c)
    · exact Or.inl c

/-- the invariant between frames -/
def Inv (hm : List Hmm) : Prop := ∀ i h, hm[i]? = some h → HInv i h ∧ Lab i h

/-- what holds for every HMM during the phases of frame `f` -/
def Q (f : Int) (i : Nat) (h : Hmm) : Prop := HInv i h ∧ TokLocs i h ∧ (h.frame < f → Lab i h)

/-- hypotheses on the data of one frame -/
structure FrameOK (tps : Array (Array Int)) (sen : Array Int) : Prop where
  noskip : ∀ i, NoSkip3 (tps.getD i #[])
  tp : ∀ i a b, 0 ≤ tpAt (tps.getD i #[]) a b ∧ tpAt (tps.getD i #[]) a b ≤ 255
  sen : ∀ k, 0 ≤ sen.getD k 0 ∧ sen.getD k 0 ≤ 32767

theorem q_eval (tps : Array (Array Int)) (sen : Array Int) (f : Int) (hok : FrameOK tps sen) (i : Nat) (h : Hmm)
    (hI : HInv i h) (hL : Lab i h) :
    Q f i (if h.frame < f then (h, worst)
      else eval3 (tps.getD i #[]) (sen.getD (3 * i) 0) (sen.getD (3 * i + 1) 0) (sen.getD (3 * i + 2) 0) h).1 := by
  by_cases hf : h.frame < f
  · simp only [hf, if_true]
    exact ⟨hI, lab_tokLocs hL, fun _ => hL⟩
  · simp only [hf, if_false]
    have hr : InRange (tps.getD i #[]) (sen.getD (3 * i) 0) (sen.getD (3 * i + 1) 0) (sen.getD (3 * i + 2) 0) h :=
      ⟨hI.s0, hI.s1, hI.s2, hI.out, hok.sen _, hok.sen _, hok.sen _, hok.tp i⟩
    obtain ⟨e0, e1, e2, eo, b0, b1, b2, bo, efr⟩ := eval3_noskip_local _ _ _ _ h hr (hok.noskip i)
    obtain ⟨l0, l1, l2⟩ := hL
    refine ⟨⟨?_, b0, b1, b2, bo⟩, ⟨?_, ?_, ?_⟩, ?_⟩
    · rcases eo with eo | eo
      · rw [eo]; exact l2
      · rw [eo]; exact hI.outH
    · rw [e0]; exact (lab_tokLocs ⟨l0, l1, l2⟩).1
    · rcases e1 with e1 | e1
      · rw [e1]; exact (lab_tokLocs ⟨l0, l1, l2⟩).2.1
      · rw [e1]
        rcases l0 with l0 | l0
        · right; right; rw [l0]; push_cast; omega
        · left; exact l0
    · rcases e2 with e2 | e2
      · rw [e2]; exact (lab_tokLocs ⟨l0, l1, l2⟩).2.2
      · rw [e2]
        rcases l1 with l1 | l1
        · right; right; rw [l1]; push_cast; omega
        · left; exact l1
    · intro hlt; rw [efr] at hlt; exact absurd hlt hf

theorem q_prune (ef : Array Int) (f : Int) (i : Nat) (h : Hmm) (hq : Q f i h) :
    Q f i (if h.frame < f then h else if f + 1 > ef.getD i 0 then h else { h with frame := f + 1 }) := by
  by_cases hf : h.frame < f
  · simp only [hf, if_true]; exact hq
  · simp only [hf, if_false]
    split
    · exact hq
    · obtain ⟨a, b, _⟩ := hq
      exact ⟨⟨a.outH, a.s0, a.s1, a.s2, a.out⟩, b, fun hlt => by simp at hlt; omega⟩

theorem getElem?_mapIdx_q {α : Type} (l : List α) (g : Nat → α → Hmm) (P : Nat → Hmm → Prop)
    (h : ∀ i a, l[i]? = some a → P i (g i a)) : ∀ i h', (l.mapIdx g)[i]? = some h' → P i h' := by
  intro i h' he
  rw [List.getElem?_mapIdx] at he
  cases hl : l[i]? with
  | none => rw [hl] at he; simp at he
  | some a =>
    rw [hl] at he
    simp at he
    rw [← he]; exact h i a hl

theorem q_trans (sf : Array Int) (f : Int) : ∀ (l : List Hmm) (i : Nat) (prev : Option Hmm),
    (∀ j h, l[j]? = some h → Q f (i + j) h) →
    (∀ p, prev = some p → 1 ≤ i ∧ HInv (i - 1) p) →
    ∀ j h', (transPhase sf f i prev l)[j]? = some h' → Q f (i + j) h'
  | [], _, _, _, _, j, h', he => by simp [transPhase] at he
  | h :: rest, i, none, hl, _, j, h', he => by
    simp only [transPhase] at he
    cases j with
    | zero =>
      simp at he; rw [← he]; exact hl 0 h (by simp)
    | succ j =>
      simp only [List.getElem?_cons_succ] at he
      have hq0 := hl 0 h (by simp)
      have := q_trans sf f rest (i + 1) (some h) (fun k x hx => by
          have := hl (k + 1) x (by simpa using hx)
          have e : i + (k + 1) = i + 1 + k := by omega
          rw [e] at this; exact this)
        (fun p hp => by
          cases hp
          exact ⟨by omega, by simpa using hq0.1⟩) j h' he
      have e : i + (j + 1) = i + 1 + j := by omega
      rw [e]; exact this
  | nh :: rest, i, some p, hl, hp, j, h', he => by
    obtain ⟨hi1, hpI⟩ := hp p rfl
    have hq0 : Q f i nh := by simpa using hl 0 nh (by simp)
    -- the updated head
    have hq0' : Q f i (if p.frame ≠ f + 1 then nh else if f + 1 < sf.getD i 0 then nh
        else if nh.frame < f ∨ p.out > nh.s0 then { nh with s0 := p.out, h0 := p.outH, frame := f + 1 } else nh) := by
      split
      · exact hq0
      · split
        · exact hq0
        · split
          · obtain ⟨a, b, _⟩ := hq0
            refine ⟨⟨a.outH, hpI.out, a.s1, a.s2, a.out⟩, ⟨?_, b.2.1, b.2.2⟩, fun hlt => by simp at hlt; omega⟩
            show TokLoc (3 * i) p.outH
            rcases hpI.outH with e | e
            · right; right; rw [e]; push_cast; omega
            · left; exact e
          · exact hq0
    simp only [transPhase] at he
    cases j with
    | zero =>
      simp at he; rw [← he]; simpa using hq0'
    | succ j =>
      simp only [List.getElem?_cons_succ] at he
      have := q_trans sf f rest (i + 1) _ (fun k x hx => by
          have := hl (k + 1) x (by simpa using hx)
          have e : i + (k + 1) = i + 1 + k := by omega
          rw [e] at this; exact this)
        (fun q hq => by
          cases hq
          exact ⟨by omega, by simpa using hq0'.1⟩) j h' he
      have e : i + (j + 1) = i + 1 + j := by omega
      rw [e]; exact this

/-- **C04 (growth), locality of the constrained Viterbi.**  If the invariant holds between frames, the
transition matrices have no skip transitions and the data are in the ranges of the C types, then after the
evaluation, pruning and phone-transition phases of frame `f` every backpointer that `record_transitions` pushes
for state `k` is `-1`, `k` or `k-1` — no token skips a state or goes backwards — and the invariant holds again
after `record_transitions`. -/
theorem advance_local (tps : Array (Array Int)) (sf ef : Array Int) (sen : Array Int) (f : Int) (hm : List Hmm)
    (hI : Inv hm) (hok : FrameOK tps sen) :
    (∀ i h, (advance tps sf ef sen f hm)[i]? = some h → TokLocs i h) ∧
    Inv (relabel f (advance tps sf ef sen f hm)) := by
  -- phase 1: evaluation
  have h1 : ∀ i h', ((evalPhase tps sen f hm).map (·.1))[i]? = some h' → Q f i h' := by
    intro i h' he
    rw [List.getElem?_map] at he
    unfold evalPhase at he
    rw [List.getElem?_mapIdx] at he
    cases hl : hm[i]? with
    | none => rw [hl] at he; simp at he
    | some a =>
      rw [hl] at he
      simp only [Option.map_some, Option.some.injEq] at he
      rw [← he]
      exact q_eval tps sen f hok i a (hI i a hl).1 (hI i a hl).2
  -- phase 2: pruning
  have h2 : ∀ i h', (prunePhase ef f ((evalPhase tps sen f hm).map (·.1)))[i]? = some h' → Q f i h' := by
    unfold prunePhase
    exact getElem?_mapIdx_q _ _ (Q f) (fun i a ha => q_prune ef f i a (h1 i a ha))
  -- phase 3: phone transitions
  have h3 : ∀ i h', (advance tps sf ef sen f hm)[i]? = some h' → Q f i h' := by
    intro i h' he
    have := q_trans sf f _ 0 none (fun j h hj => by simpa using h2 j h hj) (fun p hp => by cases hp) i h' he
    simpa using this
  refine ⟨fun i h he => (h3 i h he).2.1, ?_⟩
  intro i h' he
  unfold relabel at he
  rw [List.getElem?_mapIdx] at he
  cases hl : (advance tps sf ef sen f hm)[i]? with
  | none => rw [hl] at he; simp at he
  | some a =>
    rw [hl] at he
    simp only [Option.map_some, Option.some.injEq] at he
    obtain ⟨qa, _, qc⟩ := h3 i a hl
    by_cases hf : a.frame < f
    · simp only [hf, if_true] at he
      rw [← he]; exact ⟨qa, qc hf⟩
    · simp only [hf, if_false] at he
      rw [← he]
      exact ⟨⟨qa.outH, qa.s0, qa.s1, qa.s2, qa.out⟩, Or.inl rfl, Or.inl rfl, Or.inl rfl⟩

/-- the invariant holds at the start of the search -/
theorem inv_start (n : Nat) : Inv (start n).hmms := by
  intro i h he
  unfold start at he
  simp only [List.getElem?_map] at he
  cases hr : (List.range n)[i]? with
  | none => rw [hr] at he; simp at he
  | some k =>
    rw [hr] at he
    have hk : k = i := by
      have := List.getElem?_range (n := n) (i := i)
      by_cases hin : i < n
      · rw [List.getElem?_range hin] at hr; simpa using hr.symm
      · rw [List.getElem?_eq_none (by simpa using hin)] at hr; simp at hr
    subst hk
    simp only [Option.map_some, Option.some.injEq] at he
    rw [← he]
    have hw : worst = -536870912 := rfl
    by_cases h0 : k = 0
    · subst h0
      refine ⟨⟨Or.inr rfl, ?_, ?_, ?_, ?_⟩, Or.inl rfl, Or.inr rfl, Or.inr rfl⟩ <;> simp [hw]
    · simp only [h0, if_false]
      refine ⟨⟨Or.inr rfl, ?_, ?_, ?_, ?_⟩, Or.inr rfl, Or.inr rfl, Or.inr rfl⟩ <;> simp

end SSVerif.Align.Step
