import SSVerif.Model.Search
import SSVerif.Proofs.Hist
/-! helper lemmas about the token-passing model (M10) used by `Props/C01Search.lean` -/
namespace SSVerif.Search
open SSVerif.Hist
open SSVerif.Generated.Search (worstScore)

/-! ### appending a list of entries -/

theorem size_foldl_push (es : List Entry) (h : Hist) : (es.foldl Array.push h).size = h.size + es.length := by
  induction es generalizing h with
  | nil => simp
  | cons e rest ih => simp only [List.foldl_cons, ih, Array.size_push, List.length_cons]; omega

theorem ent_foldl_push_lt (es : List Entry) (h : Hist) {i : Nat} (hi : i < h.size) :
    ent (es.foldl Array.push h) i = ent h i := by
  induction es generalizing h with
  | nil => rfl
  | cons e rest ih =>
    simp only [List.foldl_cons]
    rw [ih (h.push e) (by rw [Array.size_push]; omega), ent_push_lt h e hi]

theorem ent_foldl_push_mem (es : List Entry) (h : Hist) {i : Nat} (h1 : h.size ≤ i) (h2 : i < h.size + es.length) :
    ent (es.foldl Array.push h) i ∈ es := by
  induction es generalizing h with
  | nil => simp at h2; omega
  | cons e rest ih =>
    simp only [List.foldl_cons]
    by_cases hi : i = h.size
    · subst hi
      rw [ent_foldl_push_lt rest (h.push e) (by rw [Array.size_push]; omega), ent_push_eq]
      exact List.mem_cons_self ..
    · have := ih (h.push e) (by rw [Array.size_push]; omega) (by rw [Array.size_push]; simp at h2; omega)
      exact List.mem_cons_of_mem _ this

/-- appending word-arc entries of frame `f` that hang off entries `< n` of earlier frames, in any order and
any selection, keeps the table well-formed -/
theorem wf_append_words {g : Fsg} {cur : Int} (n : Nat) (f : Int) : ∀ (es : List Entry) (h : Hist),
    WFHist g h cur → n ≤ h.size → (ent h (h.size - 1)).frame ≤ f → f < cur →
    (∀ e ∈ es, ∃ lid, e.link = some lid ∧ lid < g.links.size ∧ 0 ≤ (g.link lid).wid ∧ 0 ≤ e.pred ∧ e.pred.toNat < n ∧
      (g.link lid).src = dest g (ent h e.pred.toNat) ∧ (ent h e.pred.toNat).frame < f ∧ e.frame = f) →
    WFHist g (es.foldl Array.push h) cur := by
  intro es
  induction es with
  | nil => intro h wf _ _ _ _; exact wf
  | cons e rest ih =>
    intro h wf hn hlast hf hall
    obtain ⟨lid, hl, hlid, hw, hp0, hpn, hsrc, hpf, hfr⟩ := hall e (List.mem_cons_self ..)
    have hnw : ¬ (g.link lid).wid < 0 := by omega
    have wf' : WFHist g (h.push e) cur := wf.push ⟨lid, hl, hlid, hp0, by omega, hsrc,
      by simp only [hnw, if_false]; omega, by omega, by omega⟩
    simp only [List.foldl_cons]
    have hsz : (h.push e).size = h.size + 1 := Array.size_push ..
    refine ih (h.push e) wf' (by omega) ?_ hf ?_
    · rw [hsz]
      have : h.size + 1 - 1 = h.size := by omega
      rw [this, ent_push_eq, hfr]
      exact Int.le_refl _
    · intro e' he'
      obtain ⟨lid', h1, h2, h3, h4, h5, h6, h7, h8⟩ := hall e' (List.mem_cons_of_mem _ he')
      have hlt : e'.pred.toNat < h.size := by omega
      rw [ent_push_lt h e hlt]
      exact ⟨lid', h1, h2, h3, h4, h5, h6, h7, h8⟩

/-! ### lextree -/

theorem chain_none (lt : LexTree) (n : Nat) : lt.chain n none = [] := by
  cases n <;> rfl

theorem roots_lt {lt : LexTree} {d p : Nat} (h : p ∈ lt.roots d) : d < lt.root.size := by
  rcases Nat.lt_or_ge d lt.root.size with h1 | h1
  · exact h1
  · unfold LexTree.roots at h
    have : lt.root.getD d none = none := by simp [Array.getD, Nat.not_lt.2 h1]
    rw [this, chain_none] at h
    cases h

/-! ### HMMs -/

theorem clear_sc (n j : Nat) : (Hmm.clear n).sc j = worstScore := by
  unfold Hmm.sc Hmm.clear
  simp only [List.getD_eq_getElem?_getD]
  by_cases hj : j < n
  · simp [hj]
  · simp [hj]

theorem not_live_worst : ¬ live worstScore := by unfold live; omega

theorem clear_not_live (n j : Nat) : ¬ live ((Hmm.clear n).sc j) := by rw [clear_sc]; exact not_live_worst

theorem clear_out_not_live (n : Nat) : ¬ live (Hmm.clear n).outScore := not_live_worst

theorem hmmOK_of_clear {lt : LexTree} {g : Fsg} {s : SState} {p : Nat} (h : s.hmm p = Hmm.clear lt.nst) :
    HmmOK lt g s p := by
  unfold HmmOK
  rw [h]
  exact ⟨fun j _ hl => absurd hl (clear_not_live _ _), fun hl => absurd hl (clear_out_not_live _)⟩

theorem HistOK.mono {g : Fsg} {h h' : Hist} {cur cur' : Int} {d : Nat} {x : Int} (hk : HistOK g h cur d x)
    (hs : h.size ≤ h'.size) (he : ∀ i, i < h.size → ent h' i = ent h i) (hc : cur ≤ cur') :
    HistOK g h' cur' d x := by
  obtain ⟨h0, h1, h2, h3⟩ := hk
  refine ⟨h0, by omega, ?_, ?_⟩
  · rw [he _ h1]; exact h2
  · rw [he _ h1]; omega

/-! ### the step -/

/-- the exit state of a pnode that was evaluated in this frame and stays active holds, if live, a history
index that was good *before* the frame (so: an entry of an earlier frame) -/
theorem out_old_ok {lt : LexTree} {g : Fsg} {s s' : SState} (inv : HmmsInv lt g s) (st : HmmsStep lt g s s')
    {p : Nat} (hpa : p ∈ s.active) (hpa' : p ∈ s'.active) (hl : live (s'.hmm p).outScore) :
    HistOK g s.hist s.frame (lt.node p).owner (s'.hmm p).outHist := by
  obtain ⟨_, hact, hpn⟩ := inv
  obtain ⟨_, _, hstep⟩ := st
  have hpN := (hact p hpa).1
  have hout := ((hstep p hpN).2 hpa').2.2.1
  simp only [hpa, if_true] at hout
  rcases hout with ⟨heq, hlv⟩ | ⟨i, hi, _, heq, hlv⟩
  · rw [heq]; exact (hpn p hpN).1.2 (hlv hl)
  · rw [heq]; exact (hpn p hpN).1.1 i (List.mem_range.1 hi) (hlv hl)

/-- **the missing obligation of `fsg_search_pnode_exit`**: the entry of a word exit meets the conditions under
which an append keeps the table well-formed — a word arc of the FSG leaving the destination state of its
predecessor, which is an entry of an earlier frame -/
theorem exit_entry_ok {lt : LexTree} {g : Fsg} {s s' : SState} (lok : LexTreeOK lt g) (inv : HmmsInv lt g s)
    (st : HmmsStep lt g s s') {e : Entry} (he : ExitOK lt s s' e) :
    ∃ lid, e.link = some lid ∧ lid < g.links.size ∧ 0 ≤ (g.link lid).wid ∧ 0 ≤ e.pred ∧ e.pred.toNat < s.hist.size ∧
      (g.link lid).src = dest g (ent s.hist e.pred.toNat) ∧ (ent s.hist e.pred.toNat).frame < s.frame ∧
      e.frame = s.frame := by
  obtain ⟨p, hpa, hpa', hleaf, hlink, hfr, hpred, hlive, _, _⟩ := he
  have hpN := (inv.2.1 p hpa).1
  obtain ⟨h1, h2, h3⟩ := lok.2.2 p hpN hleaf
  obtain ⟨k0, k1, k2, k3⟩ := out_old_ok inv st hpa hpa' hlive
  rw [← hpred] at k0 k1 k2 k3
  exact ⟨_, hlink, h1, h3, k0, k1, by rw [h2, k2], k3, hfr⟩

theorem nullOK_elim {shift : Nat} {g : Fsg} {h1 : Hist} {start : Nat} {e : Entry} (h : NullOK shift g h1 start e) :
    ∃ lid, e.link = some lid ∧ lid < g.links.size ∧ (g.link lid).wid < 0 ∧ 0 ≤ e.pred ∧ start ≤ e.pred.toNat ∧
      e.pred.toNat < h1.size ∧ (g.link lid).src = dest g (ent h1 e.pred.toNat) ∧
      e.frame = (ent h1 e.pred.toNat).frame := by
  unfold NullOK at h
  split at h
  · exact absurd h id
  · rename_i lid hl
    exact ⟨lid, hl, h.1, h.2.1, h.2.2.1, h.2.2.2.1, h.2.2.2.2.1, h.2.2.2.2.2.1, h.2.2.2.2.2.2.1⟩

/-- the table after a frame is well-formed (with one more frame searched) -/
theorem table_step_wf {shift : Nat} {lt : LexTree} {g : Fsg} {s s' : SState} (lok : LexTreeOK lt g)
    (wf : WFHist g s.hist s.frame) (inv : HmmsInv lt g s) (st : HmmsStep lt g s s')
    (tab : TableStep shift lt g s s') :
    WFHist g s'.hist (s.frame + 1) ∧ s.hist.size ≤ s'.hist.size ∧ ∀ i, i < s.hist.size → ent s'.hist i = ent s.hist i := by
  obtain ⟨exits, nulls, htab, hex, hnl⟩ := tab
  have hne := wf.nonempty
  have hlast : (ent s.hist (s.hist.size - 1)).frame ≤ s.frame := by
    have := wf.below (s.hist.size - 1) (by omega); omega
  have wf1 : WFHist g (exits.foldl Array.push s.hist) (s.frame + 1) :=
    wf_append_words s.hist.size s.frame exits s.hist (wf.advance (by omega)) (Nat.le_refl _) hlast (by omega)
      (fun e he => by
        obtain ⟨lid, a1, a2, a3, a4, a5, a6, a7, a8⟩ := exit_entry_ok lok inv st (hex e he)
        exact ⟨lid, a1, a2, a3, a4, a5, a6, a7, a8⟩)
  have hsz1 := size_foldl_push exits s.hist
  have hexfr : ∀ b, s.hist.size ≤ b → b < (exits.foldl Array.push s.hist).size →
      (ent (exits.foldl Array.push s.hist) b).frame = s.frame := by
    intro b hb1 hb2
    have hm := ent_foldl_push_mem exits s.hist hb1 (by omega)
    obtain ⟨_, _, _, _, _, hfr, _⟩ := hex _ hm
    exact hfr
  refine ⟨?_, ?_, ?_⟩
  · rw [htab]
    cases hn : nulls with
    | nil => simpa using wf1
    | cons e0 rest =>
      rw [← hn]
      obtain ⟨_, _, _, _, _, b1, b2, _⟩ := nullOK_elim (hnl e0 (by rw [hn]; exact List.mem_cons_self ..))
      have hlast1 : (ent (exits.foldl Array.push s.hist) ((exits.foldl Array.push s.hist).size - 1)).frame = s.frame :=
        hexfr _ (by omega) (by omega)
      apply wf_append_nulls nulls _ (exits.foldl Array.push s.hist).size s.frame wf1 (Nat.le_refl _) hlast1
      intro e he
      obtain ⟨lid, c1, c2, c3, c4, c5, c6, c7, c8⟩ := nullOK_elim (hnl e he)
      exact ⟨lid, c1, c2, c3, c4, c6, c7, c8, hexfr _ c5 c6⟩
  · rw [htab, size_foldl_push, hsz1]; omega
  · intro i hi
    rw [htab, ent_foldl_push_lt nulls _ (by omega), ent_foldl_push_lt exits _ hi]

/-- **the token-passing step preserves the invariant** -/
theorem step_preserves {shift : Nat} {lt : LexTree} {g : Fsg} {s s' : SState} (lok : LexTreeOK lt g)
    (inv : SearchInv lt g s) (st : StepRel shift lt g s s') : SearchInv lt g s' := by
  obtain ⟨wf, hinv⟩ := inv
  obtain ⟨hfr, htab, hst⟩ := st
  obtain ⟨wf', hsz', hext⟩ := table_step_wf lok wf hinv hst htab
  have hmono : ∀ {d x}, HistOK g s.hist s.frame d x → HistOK g s'.hist s'.frame d x :=
    fun hk => hk.mono hsz' hext (by omega)
  refine ⟨by rw [hfr]; exact wf', ?_⟩
  obtain ⟨hsz, hact, hpn⟩ := hinv
  obtain ⟨hsz2, hact', hstep⟩ := hst
  refine ⟨⟨hsz2.1.trans hsz.1, hsz2.2⟩, ?_, ?_⟩
  · intro p hp
    refine ⟨hact' p hp, ?_⟩
    rw [hfr]
    exact ((hstep p (hact' p hp)).2 hp).1
  · intro p hpN
    obtain ⟨hdrop, hkeep⟩ := hstep p hpN
    by_cases hpa' : p ∈ s'.active
    · refine ⟨?_, fun h => absurd hpa' h⟩
      obtain ⟨_, hinner, hout, hentry⟩ := hkeep hpa'
      refine ⟨?_, ?_⟩
      · intro j hj hl
        rcases Nat.eq_zero_or_pos j with h0 | h0
        · subst h0
          rcases hentry with ⟨hpa, heq, hlv⟩ | ⟨q, hqa, hqa', _, hpc, heq, hlv⟩ | ⟨e0, e1, e2, e3⟩
          · rw [heq]; exact hmono ((hpn p hpN).1.1 0 hj (hlv hl))
          · have hqN := (hact q hqa).1
            have hown := (lok.2.1 q hqN p hpc).2
            rw [heq, hown]
            exact hmono (out_old_ok ⟨hsz, hact, hpn⟩ ⟨hsz2, hact', hstep⟩ hqa hqa' (hlv hl))
          · have hd := roots_lt e3
            have hown := (lok.1 _ hd p e3).2
            refine ⟨e0, e2, hown.symm, ?_⟩
            rw [hfr]
            exact wf'.below _ e2
        · have hin := hinner j hj h0
          by_cases hpa : p ∈ s.active
          · simp only [hpa, if_true] at hin
            obtain ⟨i, hi, heq, hlv⟩ := hin
            have hij : i < lt.nst := by have := List.mem_range.1 hi; omega
            rw [heq]; exact hmono ((hpn p hpN).1.1 i hij (hlv hl))
          · simp only [hpa, if_false] at hin
            rw [hin.1]; rw [hin.2] at hl
            exact hmono ((hpn p hpN).1.1 j hj hl)
      · intro hl
        by_cases hpa : p ∈ s.active
        · exact hmono (out_old_ok ⟨hsz, hact, hpn⟩ ⟨hsz2, hact', hstep⟩ hpa hpa' hl)
        · simp only [hpa, if_false] at hout
          rw [hout.1]; rw [hout.2] at hl
          exact hmono ((hpn p hpN).1.2 hl)
    · have hcl : s'.hmm p = Hmm.clear lt.nst := by
        rw [hdrop hpa']
        by_cases hpa : p ∈ s.active
        · simp [hpa]
        · simp only [hpa, if_false]; exact (hpn p hpN).2 hpa
      exact ⟨hmmOK_of_clear hcl, fun _ => hcl⟩

/-! ### start -/

/-- the table right after the root entry was added -/
theorem wf_start' (g : Fsg) {d0 : Entry} (hd : IsDummy d0) : WFHist g #[d0] 0 := by
  obtain ⟨h1, h2, h3, h4⟩ := hd
  have he : ent #[d0] 0 = d0 := rfl
  refine ⟨by simp, by rw [he]; exact ⟨h1, h2, h3, h4⟩, ?_, ?_, ?_⟩
  · intro i hi hlt; simp at hlt; omega
  · intro i hi; simp at hi
  · intro i hi
    have : i = 0 := by simp at hi; omega
    subst this
    rw [he, h2]; omega

theorem start_establishes {shift : Nat} {lt : LexTree} {g : Fsg} {s0 s : SState} (lok : LexTreeOK lt g)
    (h0 : AllCleared lt s0) (st : StartRel shift lt g s0 s) : SearchInv lt g s := by
  obtain ⟨hfr, ⟨d0, nulls, htab, hd0, hnl⟩, hsz, hact, hpn⟩ := st
  obtain ⟨_, h0sz, h0cl⟩ := h0
  have he0 : ent #[d0] 0 = d0 := rfl
  have wf : WFHist g s.hist s.frame := by
    rw [hfr, htab]
    apply wf_append_nulls nulls #[d0] 1 (-1) (wf_start' g hd0) (by simp) (by rw [show (#[d0] : Hist).size - 1 = 0 from rfl, he0]; exact hd0.2.1)
    intro e he
    obtain ⟨lid, c1, c2, c3, c4, _, c6, c7, c8⟩ := nullOK_elim (hnl e he)
    have hz : e.pred.toNat = 0 := by simp at c6; omega
    refine ⟨lid, c1, c2, c3, c4, by omega, c7, c8, ?_⟩
    rw [hz, he0]; exact hd0.2.1
  refine ⟨wf, ⟨hsz.1.trans h0sz, hsz.2⟩, ?_, ?_⟩
  · intro p hp
    exact ⟨hact p hp, by rw [hfr]; exact ((hpn p (hact p hp)).2 hp).1⟩
  · intro p hpN
    obtain ⟨hrest, hent⟩ := hpn p hpN
    by_cases hpa : p ∈ s.active
    · refine ⟨?_, fun h => absurd hpa h⟩
      obtain ⟨_, hout, hinner, e0, e2, e3⟩ := hent hpa
      refine ⟨?_, ?_⟩
      · intro j hj hl
        rcases Nat.eq_zero_or_pos j with hz | hz
        · subst hz
          have hd := roots_lt e3
          exact ⟨e0, e2, ((lok.1 _ hd p e3).2).symm, wf.below _ e2⟩
        · rw [hinner j hj hz, h0cl p hpN] at hl
          exact absurd hl (clear_not_live _ _)
      · intro hl
        rw [hout, h0cl p hpN] at hl
        exact absurd hl (clear_out_not_live _)
    · have hcl : s.hmm p = Hmm.clear lt.nst := by rw [hrest hpa]; exact h0cl p hpN
      exact ⟨hmmOK_of_clear hcl, fun _ => hcl⟩

/-! ### finish -/

theorem finish_size (lt : LexTree) (s : SState) : (finish lt s).hmms.size = s.hmms.size := by
  simp [finish]

theorem finish_hmm (lt : LexTree) (s : SState) {p : Nat} (hp : p < s.hmms.size) :
    (finish lt s).hmm p = if p ∈ s.active then Hmm.clear lt.nst else s.hmm p := by
  simp [SState.hmm, finish, Array.getD, hp]

/-- **`fsg_search_finish` leaves every HMM cleared and both active lists empty** -/
theorem finish_allCleared {lt : LexTree} {g : Fsg} {s : SState} (inv : HmmsInv lt g s) :
    AllCleared lt (finish lt s) := by
  obtain ⟨⟨hsz, _⟩, _, hpn⟩ := inv
  refine ⟨rfl, by rw [finish_size]; exact hsz, ?_⟩
  intro p hpN
  rw [finish_hmm lt s (by omega)]
  by_cases hpa : p ∈ s.active
  · simp [hpa]
  · simp only [hpa, if_false]; exact (hpn p hpN).2 hpa

/-! ### the active list is never longer than the lextree -/

theorem nodup_length_le : ∀ (n : Nat) (l : List Nat), l.Nodup → (∀ x ∈ l, x < n) → l.length ≤ n
  | 0, l, _, hs => by
    cases l with
    | nil => simp
    | cons a t => exact absurd (hs a (List.mem_cons_self ..)) (by omega)
  | n + 1, l, hn, hs => by
    have h1 := nodup_length_le n (l.erase n) (hn.erase n) (fun x hx => by
      have hm := (List.Nodup.mem_erase_iff hn).1 hx
      have := hs x hm.2
      have := hm.1
      omega)
    have h2 := List.length_erase (a := n) (l := l)
    split at h2 <;> omega

theorem active_length_le {lt : LexTree} {g : Fsg} {s : SState} (inv : HmmsInv lt g s) :
    s.active.length ≤ lt.nodes.size :=
  nodup_length_le _ _ inv.1.2 (fun p hp => (inv.2.1 p hp).1)

/-! ### any number of frames, any number of utterances -/

/-- the states the search can be in between frames: `fsg_search_start` from the all-cleared state a fresh
lextree is in (`hmm_init` ends with `hmm_clear`), any number of `fsg_search_step`s, and
`fsg_search_finish` followed by the `fsg_search_start` of the next utterance -/
inductive Reachable (shift : Nat) (lt : LexTree) (g : Fsg) : SState → Prop
  | first {s0 s : SState} : AllCleared lt s0 → StartRel shift lt g s0 s → Reachable shift lt g s
  | step {s s' : SState} : Reachable shift lt g s → StepRel shift lt g s s' → Reachable shift lt g s'
  | again {s s' : SState} : Reachable shift lt g s → StartRel shift lt g (finish lt s) s' → Reachable shift lt g s'

theorem reachable_inv {shift : Nat} {lt : LexTree} {g : Fsg} (lok : LexTreeOK lt g) {s : SState}
    (hr : Reachable shift lt g s) : SearchInv lt g s := by
  induction hr with
  | first h0 st => exact start_establishes lok h0 st
  | step _ st ih => exact step_preserves lok ih st
  | again _ st ih => exact start_establishes lok (finish_allCleared ih.hmms) st

/-! ### the Boolean checkers the driver runs are sound -/

theorem searchInvB_iff (lt : LexTree) (g : Fsg) (s : SState) : searchInvB lt g s = true ↔ SearchInv lt g s := by
  unfold searchInvB
  simp only [Bool.and_eq_true, decide_eq_true_eq, wfHistB_iff]
  exact ⟨fun ⟨a, b⟩ => ⟨a, b⟩, fun ⟨a, b⟩ => ⟨a, b⟩⟩

theorem tableStepB_sound {shift : Nat} {lt : LexTree} {g : Fsg} {s s' : SState}
    (h : tableStepB shift lt g s s' = true) : TableStep shift lt g s s' := by
  unfold tableStepB at h
  simp only [Bool.and_eq_true, decide_eq_true_eq, List.all_eq_true] at h
  exact ⟨_, _, h.1.1, h.1.2, h.2⟩

theorem stepRelB_sound {shift : Nat} {lt : LexTree} {g : Fsg} {s s' : SState}
    (h : stepRelB shift lt g s s' = true) : StepRel shift lt g s s' := by
  unfold stepRelB at h
  simp only [Bool.and_eq_true, decide_eq_true_eq] at h
  exact ⟨h.1.1, tableStepB_sound h.1.2, h.2⟩

theorem startRelB_sound {shift : Nat} {lt : LexTree} {g : Fsg} {s0 s : SState}
    (h : startRelB shift lt g s0 s = true) : StartRel shift lt g s0 s := by
  unfold startRelB at h
  simp only [Bool.and_eq_true, decide_eq_true_eq, List.all_eq_true] at h
  exact ⟨h.1.1.1.1, ⟨_, _, h.1.1.1.2, h.1.1.2, h.1.2⟩, h.2⟩

end SSVerif.Search
