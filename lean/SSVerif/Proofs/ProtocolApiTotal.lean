import SSVerif.Proofs.ProtocolApi
/-! totality of the API-level step: documented return classes, out-of-protocol calls change nothing -/
namespace SSVerif.Protocol


/-- the documented return classes of the API-level calls -/
def docClassX : XCall → List Ret
  | .base _ _ => []          -- see `isDocX`
  | .createNew _ _ _ => [.ptr] | .createNull _ => [.ptr]
  | .hypHold _ _ _ => [.ptr, .null] | .jsonHold _ _ _ _ _ _ => [.ptr, .null] | .cmnHold _ _ => [.ptr]
  | .iterHold _ _ _ _ => [.ptr, .null] | .borrowUse _ => [.void]
  | .lookupHold _ _ _ => [.ptr, .null] | .strUse _ => [.void] | .strFree _ => [.void]
  | .alProp _ _ => [.ok] | .cfgValidate _ _ => [.ok, .err] | .cfgExpand _ => [.void] | .cfgLog _ => [.void]
  | .cfgParseNew _ _ => [.ptr, .null] | .cfgSetAny _ _ _ _ => [.ptr, .null]

theorem baseStep_oop (x : XState) (c : SysCall) (cons : Bool) (h : (baseStep x c cons).2 = .oop) : (baseStep x c cons).1 = x := by
  unfold baseStep at h ⊢
  simp only [] at h ⊢
  by_cases h1 : (sysStep x.sys c).2 = .oop
  · simp [h1]
  · by_cases h2 : quietCall x c = true
    · simp [h1, h2] at h
    · simp [h1, h2] at h

set_option maxHeartbeats 1000000 in
theorem xStep_oop (x : XState) (c : XCall) (h : (xStep x c).2 = .oop) : (xStep x c).1 = x := by
  unfold xStep at h ⊢
  split
  · rfl
  · rename_i hb
    simp only [hb] at h
    cases c with
    | base sc cons =>
      cases sc with
      | reinitKeep i =>
        simp only [xCore] at h ⊢
        split
        · split <;> rfl
        · rename_i hn
          simp only [hn] at h
          exact baseStep_oop _ _ _ h
      | _ => exact baseStep_oop _ _ _ h
    | _ => simp only [xCore, ptrIf] at h ⊢ <;> (repeat' split) <;> simp_all

set_option maxHeartbeats 2000000 in
theorem xStep_doc (x : XState) (c : XCall) (hc : ∀ sc cons, c ≠ .base sc cons) :
    (xStep x c).2 ∈ docClassX c ∨ (xStep x c).2 = .oop := by
  unfold xStep
  split
  · exact .inr rfl
  · cases c with
    | base sc cons => exact absurd rfl (hc sc cons)
    | _ =>
      simp only [xCore, ptrIf, docClassX, sysStep, needsSys, step, Bool.false_eq_true, if_false] <;>
        (repeat' split) <;> simp_all


/-- a base step either is out-of-protocol and changes nothing, or follows the base level -/
theorem baseStep_sys (x : XState) (c : SysCall) (cons : Bool) :
    ((baseStep x c cons).2 = .oop ∧ (baseStep x c cons).1 = x) ∨
    ((baseStep x c cons).1.sys = (sysStep x.sys c).1 ∧ (baseStep x c cons).2 = (sysStep x.sys c).2) := by
  unfold baseStep
  simp only []
  split
  · left; exact ⟨rfl, rfl⟩
  · right
    split
    · exact ⟨rfl, rfl⟩
    · simp

/-- a decoder call made through the API level returns what the base automaton returns, or is out-of-protocol -/
theorem xStep_dec_ret (x : XState) (i : Inst) (dc : Call) (cons : Bool) :
    (xStep x (.base (.dec i dc) cons)).2 = .oop ∨ (xStep x (.base (.dec i dc) cons)).2 = (step (x.sys.inst i) dc).2 := by
  unfold xStep
  split
  · exact .inl rfl
  · have hx : xCore x (.base (.dec i dc) cons) = baseStep x (.dec i dc) cons := by unfold xCore; rfl
    rw [hx]
    rcases baseStep_sys x (.dec i dc) cons with ⟨h1, _⟩ | ⟨_, h2⟩
    · exact .inl h1
    · rw [h2]
      by_cases hn : needsSys dc = true
      · left; simp [sysStep, hn]
      · right; simp [sysStep, hn]



/-- the two states agree on everything but the `ACMOD_STARTED` / `ACMOD_PROCESSING` flags -/
def PhaseEq (x y : XState) : Prop :=
  x.sys = y.sys ∧ x.crA = y.crA ∧ x.crB = y.crB ∧ x.noCfgA = y.noCfgA ∧ x.noCfgB = y.noCfgB ∧ x.borrows = y.borrows
    ∧ x.strs = y.strs

theorem phaseEq_setProc {x y : XState} (h : PhaseEq x y) (i : Inst) (v w : Bool) : PhaseEq (x.setProc i v) (y.setProc i w) := by
  cases i <;> simpa [PhaseEq, XState.setProc] using h

theorem phaseEq_setProcL {x y : XState} (h : PhaseEq x y) (i : Inst) (v : Bool) : PhaseEq (x.setProc i v) y := by
  cases i <;> simpa [PhaseEq, XState.setProc] using h

theorem phaseEq_setProcR {x y : XState} (h : PhaseEq x y) (i : Inst) (v : Bool) : PhaseEq x (y.setProc i v) := by
  cases i <;> simpa [PhaseEq, XState.setProc] using h

theorem phaseEq_setCreated {x y : XState} (h : PhaseEq x y) (i : Inst) (v n : Bool) :
    PhaseEq (x.setCreated i v n) (y.setCreated i v n) := by
  obtain ⟨h1, h2, h3, h4, h5, h6, h7⟩ := h
  cases i <;> simp [PhaseEq, XState.setCreated, *]

theorem phaseEq_post {x y : XState} (h : PhaseEq x y) (c : SysCall) (cons : Bool) (r : Ret) :
    PhaseEq (postBase x c cons r) (postBase y c cons r) := by
  have hs : x.sys = y.sys := h.1
  unfold postBase
  split
  · split
    · exact phaseEq_setProc h _ _ _
    · exact h
  · split
    · exact phaseEq_setProc h _ _ _
    · exact h
  · exact phaseEq_setCreated h _ _ _
  · exact phaseEq_setCreated h _ _ _
  · exact phaseEq_setCreated h _ _ _
  · rw [hs]
    split
    · exact phaseEq_setCreated h _ _ _
    · exact h
  · exact h

theorem phaseEq_fields {x y : XState} (h : PhaseEq x y) :
    x.created = y.created ∧ x.noCfg = y.noCfg := by
  obtain ⟨h1, h2, h3, h4, h5, h6, h7⟩ := h
  constructor <;> funext i <;> cases i <;> simp [XState.created, XState.noCfg, *]

theorem baseStep_phase {x y : XState} (h : PhaseEq x y) (c : SysCall) (cons : Bool) :
    (baseStep x c cons).2 = (baseStep y c cons).2 ∧ PhaseEq (baseStep x c cons).1 (baseStep y c cons).1 := by
  have h' := h
  obtain ⟨h1, h2, h3, h4, h5, h6, h7⟩ := h
  have hq : quietCall x c = quietCall y c := by cases c <;> simp [quietCall, h1]
  unfold baseStep
  simp only [h1, hq]
  split
  · exact ⟨rfl, h'⟩
  · split
    · exact ⟨rfl, by simp [PhaseEq, *]⟩
    · refine ⟨rfl, phaseEq_post ?_ _ _ _⟩
      simp [PhaseEq, *]

theorem blocked_phase {x y : XState} (h : PhaseEq x y) (c : XCall) : blocked x c = blocked y c := by
  obtain ⟨e1, e2⟩ := phaseEq_fields h
  simp [blocked, e1, e2]

set_option maxHeartbeats 2000000 in
theorem xStep_phase {x y : XState} (h : PhaseEq x y) (c : XCall) :
    (xStep x c).2 = (xStep y c).2 ∧ PhaseEq (xStep x c).1 (xStep y c).1 := by
  have hb := blocked_phase h c
  obtain ⟨e1, e2⟩ := phaseEq_fields h
  have h' := h
  obtain ⟨h1, h2, h3, h4, h5, h6, h7⟩ := h
  unfold xStep
  rw [hb]
  split
  · exact ⟨rfl, h'⟩
  · cases c with
    | base sc cons =>
      cases sc with
      | reinitKeep i =>
        simp only [xCore, e2, h1]
        split
        · split <;> exact ⟨rfl, h'⟩
        · exact baseStep_phase h' _ _
      | _ => exact baseStep_phase h' _ _
    | _ =>
      simp only [xCore, h1, h6, h7] <;> (repeat' split) <;>
        first
        | exact ⟨rfl, h'⟩
        | (refine ⟨rfl, ?_⟩; first | exact phaseEq_setCreated (by simp [PhaseEq, *]) _ _ _ | simp [PhaseEq, *])


end SSVerif.Protocol
