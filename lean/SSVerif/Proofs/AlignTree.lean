import SSVerif.Proofs.AlignProp
import SSVerif.Model.AlignJson
/-!
# From the block formulation (`Contig` / `Parts` over `splitLens`) to the tree formulation (`AlignOK`, `TimeOK`)

The model theorems describe the alignment after the second pass by its three flat vectors and their blocks
(`Parts parents (splitLens lens children)`); the checker `alignOKB` that runs on the C output works on the tree the
iterator API hands out (`List WNode`).  `blockTree` builds that tree from the blocks (by `C04_children_are_blocks`
the blocks are what `alignment_iter_children` yields); this file shows that the block facts give the tree clauses.
-/
namespace SSVerif.Align
open JsonObs

/-- phone `j` with block `j` of the state vector under it -/
def pnodes : List Entry → List (List Entry) → List PNode
  | p :: ps, b :: bs => { e := p, states := b } :: pnodes ps bs
  | _, _ => []

/-- word `i` with the next `n_i` phones under it (`ph`, `sb`: the phones and state blocks not yet consumed) -/
def blockTree : List Entry → List Nat → List Entry → List (List Entry) → List WNode
  | w :: ws, n :: ns, ph, sb =>
    { e := w, phones := pnodes (ph.take n) (sb.take n) } :: blockTree ws ns (ph.drop n) (sb.drop n)
  | _, _, _, _ => []

theorem parts_length : ∀ (ps : List Entry) (bs : List (List Entry)), Parts ps bs → ps.length = bs.length
  | [], [], _ => rfl
  | [], _ :: _, h => h.elim
  | _ :: _, [], h => h.elim
  | _ :: ps, _ :: bs, h => by simp only [List.length_cons]; rw [parts_length ps bs h.2.2.2]

theorem parts_take : ∀ (n : Nat) (ps : List Entry) (bs : List (List Entry)), Parts ps bs → Parts (ps.take n) (bs.take n)
  | 0, _, _, _ => by simp [Parts]
  | _ + 1, [], [], _ => by simp [Parts]
  | _ + 1, [], _ :: _, h => h.elim
  | _ + 1, _ :: _, [], h => h.elim
  | n + 1, _ :: ps, _ :: bs, h => by
    simp only [List.take_succ_cons]
    exact ⟨h.1, h.2.1, h.2.2.1, parts_take n ps bs h.2.2.2⟩

theorem parts_drop : ∀ (n : Nat) (ps : List Entry) (bs : List (List Entry)), Parts ps bs → Parts (ps.drop n) (bs.drop n)
  | 0, _, _, h => by simpa using h
  | _ + 1, [], [], _ => by simp [Parts]
  | _ + 1, [], _ :: _, h => h.elim
  | _ + 1, _ :: _, [], h => h.elim
  | n + 1, _ :: ps, _ :: bs, h => by
    simp only [List.drop_succ_cons]
    exact parts_drop n ps bs h.2.2.2

theorem pnodes_facts : ∀ (ps : List Entry) (bs : List (List Entry)), Parts ps bs →
    (pnodes ps bs).map (·.e) = ps ∧ (pnodes ps bs).flatMap (·.states) = bs.flatten ∧
    ∀ p ∈ pnodes ps bs, Contig p.states p.e.start (p.e.start + p.e.duration) ∧ p.e.score = sumScore p.states
  | [], [], _ => by simp [pnodes]
  | [], _ :: _, h => h.elim
  | _ :: _, [], h => h.elim
  | p :: ps, b :: bs, h => by
    obtain ⟨i1, i2, i3⟩ := pnodes_facts ps bs h.2.2.2
    simp only [pnodes, List.map_cons, List.flatMap_cons, List.flatten_cons, List.mem_cons]
    refine ⟨by rw [i1], by rw [i2], ?_⟩
    rintro q (rfl | hq)
    · exact ⟨h.1, h.2.1⟩
    · exact i3 q hq

/-- the tree clauses from the block facts -/
theorem blockTree_facts : ∀ (ws : List Entry) (ns : List Nat) (ph : List Entry) (sb : List (List Entry)),
    Parts ws (splitLens ns ph) → Parts ph sb → ns.sum = ph.length →
    (blockTree ws ns ph sb).map (·.e) = ws ∧
    ((blockTree ws ns ph sb).flatMap (·.phones)).map (·.e) = ph ∧
    ((blockTree ws ns ph sb).flatMap (·.phones)).flatMap (·.states) = sb.flatten ∧
    (∀ w ∈ blockTree ws ns ph sb, Contig (w.phones.map (·.e)) w.e.start (w.e.start + w.e.duration) ∧
      w.e.score = sumScore (w.phones.map (·.e))) ∧
    (∀ w ∈ blockTree ws ns ph sb, ∀ p ∈ w.phones,
      Contig p.states p.e.start (p.e.start + p.e.duration) ∧ p.e.score = sumScore p.states)
  | [], [], ph, sb, _, hP, hs => by
    have hph : ph = [] := by simpa using hs.symm
    subst hph
    have hsb : sb = [] := by have := parts_length _ _ hP; simpa using this.symm
    subst hsb
    simp [blockTree]
  | [], _ :: _, _, _, hW, _, _ => by simp only [splitLens] at hW; exact hW.elim
  | _ :: _, [], _, _, hW, _, _ => by simp only [splitLens] at hW; exact hW.elim
  | w :: ws, n :: ns, ph, sb, hW, hP, hs => by
    simp only [splitLens] at hW
    obtain ⟨c1, c2, _, c4⟩ := hW
    have hn : n ≤ ph.length := by simp only [List.sum_cons] at hs; omega
    have hs' : ns.sum = (ph.drop n).length := by simp only [List.sum_cons] at hs; simp only [List.length_drop]; omega
    obtain ⟨i1, i2, i3, i4, i5⟩ := blockTree_facts ws ns (ph.drop n) (sb.drop n) c4 (parts_drop n ph sb hP) hs'
    obtain ⟨j1, j2, j3⟩ := pnodes_facts (ph.take n) (sb.take n) (parts_take n ph sb hP)
    simp only [blockTree, List.map_cons, List.flatMap_cons, List.map_append, List.flatMap_append, List.mem_cons]
    refine ⟨by rw [i1], ?_, ?_, ?_, ?_⟩
    · rw [j1, i2]; exact List.take_append_drop n ph
    · rw [j2, i3, ← List.flatten_append, List.take_append_drop]
    · rintro x (rfl | hx)
      · simp only; rw [j1]; exact ⟨c1, c2⟩
      · exact i4 x hx
    · rintro x (rfl | hx) p hp
      · exact j3 p hp
      · exact i5 x hx p hp

theorem splitLens_map_id : ∀ (lens : List Nat) (l1 l2 : List Entry), l1.map (·.id) = l2.map (·.id) →
    (splitLens lens l1).map (·.map (·.id)) = (splitLens lens l2).map (·.map (·.id))
  | [], _, _, _ => rfl
  | n :: ns, l1, l2, h => by
    simp only [splitLens, List.map_cons, List.map_take]
    rw [h, splitLens_map_id ns (l1.drop n) (l2.drop n) (by simp only [List.map_drop]; rw [h])]

/-- the phones under word `i` of the tree are block `i` of the phone vector -/
theorem blockTree_blocks : ∀ (ws : List Entry) (ns : List Nat) (ph : List Entry) (sb : List (List Entry)),
    Parts ws (splitLens ns ph) → Parts ph sb →
    (blockTree ws ns ph sb).map (fun w => w.phones.map (·.e)) = splitLens ns ph
  | [], [], _, _, _, _ => by simp [blockTree, splitLens]
  | [], _ :: _, _, _, hW, _ => by simp only [splitLens] at hW; exact hW.elim
  | _ :: _, [], _, _, hW, _ => by simp only [splitLens] at hW; exact hW.elim
  | w :: ws, n :: ns, ph, sb, hW, hP => by
    simp only [splitLens] at hW
    obtain ⟨_, _, _, c4⟩ := hW
    have ih := blockTree_blocks ws ns (ph.drop n) (sb.drop n) c4 (parts_drop n ph sb hP)
    obtain ⟨j1, _, _⟩ := pnodes_facts (ph.take n) (sb.take n) (parts_take n ph sb hP)
    simp only [blockTree, List.map_cons, splitLens]
    rw [j1, ih]

/-- **the block formulation implies the tree formulation**: levels `Contig`, `Parts` at both levels ⇒ the tree built
from the blocks satisfies the time clauses (`TimeOK` with the state level) and both score clauses of `AlignOK`, and
lists the word vector -/
theorem blockTree_timeOK (ws ph st : List Entry) (ns ms : List Nat) (T : Int)
    (cW : Contig ws 0 T) (cP : Contig ph 0 T) (cS : Contig st 0 T)
    (hW : Parts ws (splitLens ns ph)) (hP : Parts ph (splitLens ms st))
    (hs : ns.sum = ph.length) (hm : st.length = ms.sum) :
    let t := blockTree ws ns ph (splitLens ms st)
    TimeOK true T t ∧ t.map (·.e) = ws ∧
    (∀ w ∈ t, w.e.score = sumScore (w.phones.map (·.e))) ∧
    (∀ w ∈ t, ∀ p ∈ w.phones, p.e.score = sumScore p.states) := by
  intro t
  obtain ⟨i1, i2, i3, i4, i5⟩ := blockTree_facts ws ns ph (splitLens ms st) hW hP hs
  rw [splitLens_flatten ms st hm] at i3
  refine ⟨⟨fun w hw => (i4 w hw).1, ?_, ?_, fun _ w hw p hp => (i5 w hw p hp).1, fun _ => ?_⟩, i1,
    fun w hw => (i4 w hw).2, fun w hw p hp => (i5 w hw p hp).2⟩
  · show Contig (t.map (·.e)) 0 T; rw [i1]; exact cW
  · show Contig ((t.flatMap (·.phones)).map (·.e)) 0 T; rw [i2]; exact cP
  · show Contig ((t.flatMap (·.phones)).flatMap (·.states)) 0 T; rw [i3]; exact cS

end SSVerif.Align
