import SSVerif.Proofs.SearchScoreMem
/-! The frame invariant of the unpruned scoring search: after `searchStart` and `t` frames, emitting state `k` of the
HMM of pnode `p` holds the DP cell `vAt (treeNet E) (treeEm E e) t (3p + k)`; and the history entries a frame makes
are, per destination state / left context / right-context phone, exactly as good as the exit candidates of the DP.
Core Lean only. -/
namespace SSVerif.SearchScore
open SSVerif.Viterbi SSVerif.Hmm SSVerif.Search SSVerif.Hist
open SSVerif.FlatNet (hmmEdges hmmExits st shiftS)

/-- the history entries one frame makes, as a function of the exit scores -/
def curOf (E : Env) (out : Nat → Option Int) (fr : Int) : List Tok :=
  flush (exitCands E out) fr ++ flush (nullCands E (flush (exitCands E out) fr)) fr

theorem tok1_sound {E : Env} {out : Nat → Option Int} {fr : Int} {tk : Tok} (h : tk ∈ flush (exitCands E out) fr) :
    ∃ q, q < E.n ∧ (E.node q).leaf = true ∧ ∃ w, out q = some w ∧ tk.dst = dstOf E q ∧ tk.score = w ∧
      tk.lc = (E.node q).ciExt ∧ (∀ r ∈ tk.rc, r ∈ rcOf E q) ∧ tk.frame = fr ∧ tk.link.isSome = true := by
  obtain ⟨x, hx, h1, h2, h3, h4, h5, h6⟩ := flush_sound h
  obtain ⟨q, hq, hl, w, ho, rfl⟩ := mem_exitCands.mp hx
  exact ⟨q, hq, hl, w, ho, h1.symm, h3.symm, h2.symm, h4, h5, by simp [h6]⟩

/-- a history entry of the frame comes from a leaf with a finite exit score, over at most one null arc -/
theorem tok_sound {E : Env} {out : Nat → Option Int} {fr : Int} {tk : Tok} (h : tk ∈ curOf E out fr) :
    ∃ q, q < E.n ∧ (E.node q).leaf = true ∧ ∃ w d hop, out q = some w ∧ (d, hop) ∈ reach E.g (dstOf E q) ∧
      tk.dst = d ∧ tk.score = w + hop ∧ tk.lc = (E.node q).ciExt ∧ (∀ r ∈ tk.rc, r ∈ rcOf E q) ∧ tk.frame = fr ∧
      tk.link.isSome = true := by
  rcases List.mem_append.mp h with h | h
  · obtain ⟨q, hq, hl, w, ho, h1, h2, h3, h4, h5, h6⟩ := tok1_sound h
    exact ⟨q, hq, hl, w, dstOf E q, 0, ho, mem_reach.mpr (Or.inl ⟨rfl, rfl⟩), h1, by omega, h3, h4, h5, h6⟩
  · obtain ⟨x, hx, g1, g2, g3, g4, g5, g6⟩ := flush_sound h
    obtain ⟨tk1, htk1, lid, l, hm, rfl⟩ := mem_nullCands.mp hx
    obtain ⟨q, hq, hl, w, ho, h1, h2, h3, h4, _, _⟩ := tok1_sound htk1
    rw [h1] at hm
    refine ⟨q, hq, hl, w, l.dst, shiftS l.logp, ho, mem_reach.mpr (Or.inr ⟨lid, l, hm, rfl, rfl⟩), g1.symm, ?_, ?_, ?_, g5,
      by simp [g6]⟩
    · simp only at g3; omega
    · simp only at g2; omega
    · intro r hr
      exact h4 r (g4 r hr)

/-- for every leaf with a finite exit score, every FSG state it reaches and every right context it offers there is a
history entry at least as good; and one regardless of contexts -/
theorem tok_compl {E : Env} {out : Nat → Option Int} (fr : Int) {q : Nat} {w : Int} {d : Nat} {hop : Int}
    (hq : q < E.n) (hl : (E.node q).leaf = true) (ho : out q = some w) (hr : (d, hop) ∈ reach E.g (dstOf E q)) :
    (∀ r ∈ rcOf E q, ∃ tk ∈ curOf E out fr, tk.dst = d ∧ tk.lc = (E.node q).ciExt ∧ r ∈ tk.rc ∧ w + hop ≤ tk.score) ∧
    (∃ tk ∈ curOf E out fr, tk.dst = d ∧ w + hop ≤ tk.score) := by
  have hx0 : ((dstOf E q, (E.node q).ciExt, ⟨w, rcOf E q, (E.node q).link⟩) : Cand) ∈ exitCands E out :=
    mem_exitCands.mpr ⟨q, hq, hl, w, ho, rfl⟩
  rcases mem_reach.mp hr with ⟨rfl, rfl⟩ | ⟨lid, l, hm, rfl, rfl⟩
  · constructor
    · intro r hr
      obtain ⟨tk, htk, h1, h2, h3, h4⟩ := flush_compl fr hx0 (r := r) hr
      exact ⟨tk, List.mem_append_left _ htk, h1, h2, h3, by simp only at h4; omega⟩
    · obtain ⟨tk, htk, h1, _, h4⟩ := flush_top fr hx0
      exact ⟨tk, List.mem_append_left _ htk, h1, by simp only at h4; omega⟩
  · constructor
    · intro r hr
      obtain ⟨tk1, htk1, h1, h2, h3, h4⟩ := flush_compl fr hx0 (r := r) hr
      simp only at h1 h2 h4
      have hx1 : ((l.dst, tk1.lc, ⟨tk1.score + shiftS l.logp, tk1.rc, lid⟩) : Cand) ∈
          nullCands E (flush (exitCands E out) fr) :=
        mem_nullCands.mpr ⟨tk1, htk1, lid, l, by rw [h1]; exact hm, rfl⟩
      obtain ⟨tk2, htk2, g1, g2, g3, g4⟩ := flush_compl fr hx1 (r := r) h3
      simp only at g1 g2 g4
      exact ⟨tk2, List.mem_append_right _ htk2, g1, by rw [g2, h2], g3, by omega⟩
    · obtain ⟨tk1, htk1, h1, _, h4⟩ := flush_top fr hx0
      simp only at h1 h4
      have hx1 : ((l.dst, tk1.lc, ⟨tk1.score + shiftS l.logp, tk1.rc, lid⟩) : Cand) ∈
          nullCands E (flush (exitCands E out) fr) :=
        mem_nullCands.mpr ⟨tk1, htk1, lid, l, by rw [h1]; exact hm, rfl⟩
      obtain ⟨tk2, htk2, g1, _, g4⟩ := flush_top fr hx1
      simp only at g1 g4
      exact ⟨tk2, List.mem_append_right _ htk2, g1, by omega⟩

/-! ### the invariant -/

/-- every HMM state holds its DP cell -/
def HmmInv (E : Env) (e : Nat → Nat → Nat → Int) (t : Nat) (h : Array ISt) : Prop :=
  h.size = E.n ∧ ∀ p, p < E.n → ∀ k, k < 3 → comp (hget h p) k = vAt (treeNet E) (treeEm E e) t (st p k)

theorem treeEm_st (E : Env) (e : Nat → Nat → Nat → Int) (t p i : Nat) (hi : i < 3) :
    treeEm E e t (3 * p + i) = e t (E.node p).ssid i := by
  unfold treeEm
  have h1 : (3 * p + i) / 3 = p := by omega
  have h2 : (3 * p + i) % 3 = i := by omega
  rw [h1, h2]

theorem hmmEdges_target {tp : List Nat} {q i j : Nat} {c : Int} (h : (i, j, c) ∈ hmmEdges tp q) : j / 3 = q := by
  rw [hmmEdges_shift] at h
  obtain ⟨x, hx, heq⟩ := List.mem_map.mp h
  have := (hmmEdges0_lt tp x hx).2
  simp only [Prod.mk.injEq] at heq
  omega

section frame
variable (E : Env) (e : Nat → Nat → Nat → Int) (t : Nat) (s : SS)

/-- exit score of pnode `q` in frame `t`, against the DP -/
theorem isMax_out (hs : HmmInv E e t s.hmm) (q : Nat) (hq : q < E.n) :
    IsMax (fun x => ∃ k cx u, (k, cx) ∈ hmmExits (E.tp q) ∧ vAt (treeNet E) (treeEm E e) t (st q k) = some u ∧
        x = u + treeEm E e t (st q k) + cx)
      (evget (evalAll E (e t) s.hmm) q).2 := by
  rw [evget_evalAll E (e t) s.hmm q hq]
  exact isMax_hmm_out (E.tp q) (e t (E.node q).ssid) (hget s.hmm q) q (vAt (treeNet E) (treeEm E e) t) (treeEm E e t)
    (fun i hi => (hs.2 q hq i hi).symm) (fun i hi => treeEm_st E e t q i hi)

theorem searchFrame_cur : (searchFrame E (e t) s).cur = curOf E (fun p => (evget (evalAll E (e t) s.hmm) p).2) s.frame := rfl

theorem frame_hmm (hs : HmmInv E e t s.hmm) : HmmInv E e (t + 1) (searchFrame E (e t) s).hmm := by
  -- abbreviations
  let N := treeNet E
  let V := vAt N (treeEm E e) t
  let ev := evalAll E (e t) s.hmm
  let out : Nat → Option Int := fun p => (evget ev p).2
  let h1 : Array ISt := (ev.toList.map (·.1)).toArray
  let cur := curOf E out s.frame
  have hh1 : h1.size = E.n := by simp [h1, ev, evalAll_size]
  have hfold1 := foldl_enter (phoneRelax E out) h1
  have hsz2 : ((phoneRelax E out).foldl enter h1).size = E.n := by
    by_cases hn : 0 < E.n
    · rw [(hfold1 0 (by omega)).1, hh1]
    · have : ∀ l : List (Nat × Int), ∀ a : Array ISt, (l.foldl enter a).size = a.size := by
        intro l
        induction l with
        | nil => intro a; rfl
        | cons x xs ih => intro a; rw [List.foldl_cons, ih, enter_size]
      rw [this, hh1]
  have hfold2 := foldl_enter (wordRelax E cur) ((phoneRelax E out).foldl enter h1)
  have hhmm : (searchFrame E (e t) s).hmm = (wordRelax E cur).foldl enter ((phoneRelax E out).foldl enter h1) := rfl
  rw [hhmm]
  constructor
  · by_cases hn : 0 < E.n
    · rw [(hfold2 0 (by omega)).1, hsz2]
    · have : ∀ l : List (Nat × Int), ∀ a : Array ISt, (l.foldl enter a).size = a.size := by
        intro l
        induction l with
        | nil => intro a; rfl
        | cons x xs ih => intro a; rw [List.foldl_cons, ih, enter_size]
      rw [this, hsz2]
  · intro p hp k hk
    obtain ⟨_, a1, a2, a0⟩ := hfold1 p (by omega)
    obtain ⟨_, b1, b2, b0⟩ := hfold2 p (by omega)
    have hev : evget ev p = hmmStepIdeal (E.tp p) (e t (E.node p).ssid) (hget s.hmm p) := evget_evalAll E (e t) s.hmm p hp
    have hg1 : hget h1 p = (hmmStepIdeal (E.tp p) (e t (E.node p).ssid) (hget s.hmm p)).1 := by
      rw [← hev]; exact hget_fst ev p
    -- the new state scores of the HMM itself = intra edges
    have hintra : ∀ k, k < 3 → IsMax (fun x => ∃ i c u, (i, 3 * p + k, c) ∈ hmmEdges (E.tp p) p ∧ V i = some u ∧
        x = u + treeEm E e t i + c) (comp (hget h1 p) k) := by
      intro k hk
      rw [hg1]
      exact isMax_hmm_state (E.tp p) (e t (E.node p).ssid) (hget s.hmm p) p k hk V (treeEm E e t)
        (fun i hi => (hs.2 p hp i hi).symm) (fun i hi => treeEm_st E e t p i hi)
    -- the DP cell
    have hdp := isMax_stepV N (treeEm E e t) V (st p k)
    have hV : vAt N (treeEm E e) (t + 1) (st p k) = stepV N (treeEm E e t) V (st p k) := rfl
    show comp (hget ((wordRelax E cur).foldl enter ((phoneRelax E out).foldl enter h1)) p) k = vAt N (treeEm E e) (t + 1) (st p k)
    rw [hV]
    have hst : ∀ a b : Nat, st a b = 3 * a + b := fun _ _ => rfl
    rcases Nat.lt_or_ge 0 k with hk0 | hk0
    · -- states 1 and 2: only edges inside the HMM
      have hmodel : comp (hget ((wordRelax E cur).foldl enter ((phoneRelax E out).foldl enter h1)) p) k = comp (hget h1 p) k := by
        rcases k with _ | _ | _ | k
        · omega
        · rw [b1, a1]
        · rw [b2, a2]
        · omega
      rw [hmodel]
      refine (hintra k hk).unique (hdp.congr fun x => ?_)
      constructor
      · rintro ⟨i, c, u, hm, hv, rfl⟩
        rcases mem_edges.mp hm with ⟨q, hq, h⟩ | ⟨q, _, _, ch, _, k', cx, _, _, hj, _⟩ | ⟨q, _, _, d, hop, _, r, _, _, k', cx, _, _, hj, _⟩
        · have := hmmEdges_target h
          rw [hst] at this h
          have hqp : q = p := by omega
          subst hqp
          exact ⟨i, c, u, h, hv, rfl⟩
        · rw [hst, hst] at hj; omega
        · rw [hst, hst] at hj; omega
      · rintro ⟨i, c, u, hm, hv, rfl⟩
        exact ⟨i, c, u, mem_edges.mpr (Or.inl ⟨p, hp, by rw [hst]; exact hm⟩), hv, rfl⟩
    · -- state 0: the HMM itself, its parents, and the history entries of this frame
      have hk00 : k = 0 := by omega
      subst hk00
      have hm0 := b0 _ (a0 _ (hintra 0 (by omega)))
      refine hm0.eq_of_cofinal hdp ?_ ?_
      · -- every candidate of the search is a candidate of the DP
        rintro v ((⟨i, c, u, hm, hv, rfl⟩ | hph) | hw)
        · exact ⟨_, ⟨i, c, u, mem_edges.mpr (Or.inl ⟨p, hp, by rw [hst]; exact hm⟩), hv, rfl⟩, Int.le_refl _⟩
        · obtain ⟨q, hq, hl, w, ho, hc, rfl⟩ := mem_phoneRelax.mp hph
          obtain ⟨k', cx, u, hx, hv, rfl⟩ := (isMax_out E e t s hs q hq).1 w ho
          refine ⟨_, ⟨st q k', cx + (E.node p).logs2prob, u, ?_, hv, rfl⟩, by omega⟩
          exact mem_edges.mpr (Or.inr (Or.inl ⟨q, hq, hl, p, hc, k', cx, hx, rfl, rfl, rfl⟩))
        · obtain ⟨tk, htk, hroot, hadm, rfl⟩ := mem_wordRelax.mp hw
          obtain ⟨q, hq, hl, w, d, hop, ho, hr, h1', h2', h3', h4', _, _⟩ := tok_sound htk
          obtain ⟨k', cx, u, hx, hv, rfl⟩ := (isMax_out E e t s hs q hq).1 w ho
          have hadm' : admits E (E.node q).ciExt (rcOf E q) p = true := by
            unfold admits at hadm ⊢
            simp only [Bool.and_eq_true, List.contains_iff_mem] at hadm ⊢
            exact ⟨by rw [← h3']; exact hadm.1, h4' _ hadm.2⟩
          refine ⟨_, ⟨st q k', cx + hop + (E.node p).logs2prob, u, ?_, hv, rfl⟩, by omega⟩
          refine mem_edges.mpr (Or.inr (Or.inr ⟨q, hq, hl, d, hop, hr, p, ?_, hadm', k', cx, hx, rfl, rfl, rfl⟩))
          rw [← h1']; exact hroot
      · -- every candidate of the DP is matched by a candidate of the search at least as good
        rintro v ⟨i, c, u, hm, hv, rfl⟩
        rcases mem_edges.mp hm with ⟨q, hq, h⟩ | ⟨q, hq, hl, ch, hch, k', cx, hx, rfl, hj, rfl⟩ |
            ⟨q, hq, hl, d, hop, hr, r, hrr, hadm, k', cx, hx, rfl, hj, rfl⟩
        · have := hmmEdges_target h
          rw [hst] at this h
          have hqp : q = p := by omega
          subst hqp
          exact ⟨_, Or.inl (Or.inl ⟨i, c, u, h, hv, rfl⟩), Int.le_refl _⟩
        · rw [hst, hst] at hj
          have hcp : ch = p := by omega
          subst hcp
          have hge := (isMax_out E e t s hs q hq).2 _ ⟨k', cx, u, hx, hv, rfl⟩
          obtain ⟨w, ho, hle⟩ := ole_some_elim hge
          exact ⟨w + (E.node ch).logs2prob, Or.inl (Or.inr (mem_phoneRelax.mpr ⟨q, hq, hl, w, ho, hch, rfl⟩)), by omega⟩
        · rw [hst, hst] at hj
          have hrp : r = p := by omega
          subst hrp
          have hge := (isMax_out E e t s hs q hq).2 _ ⟨k', cx, u, hx, hv, rfl⟩
          obtain ⟨w, ho, hle⟩ := ole_some_elim hge
          have hadm2 := hadm
          unfold admits at hadm2
          simp only [Bool.and_eq_true, List.contains_iff_mem] at hadm2
          obtain ⟨tk, htk, g1, g2, g3, g4⟩ := (tok_compl (out := out) s.frame hq hl ho hr).1 _ hadm2.2
          refine ⟨tk.score + (E.node r).logs2prob, Or.inr (mem_wordRelax.mpr ⟨tk, htk, by rw [g1]; exact hrr, ?_, rfl⟩), by omega⟩
          unfold admits
          simp only [Bool.and_eq_true, List.contains_iff_mem]
          exact ⟨by rw [g2]; exact hadm2.1, g3⟩

end frame

end SSVerif.SearchScore
