import SSVerif.Model.Viterbi
/-! Lemmas for C02: the DP is an upper bound of every path and is attained; the array DP refines the
specification DP; the explicit-path checker is sound. Core Lean only. -/
namespace SSVerif.Viterbi

theorem ole_refl (a : Option Int) : ole a a := by cases a <;> simp [ole]
theorem ole_trans {a b c : Option Int} (h1 : ole a b) (h2 : ole b c) : ole a c := by
  cases a <;> cases b <;> cases c <;> simp_all [ole]; omega
theorem ole_omax_left (a b : Option Int) : ole a (omax a b) := by
  cases a <;> cases b <;> simp [ole, omax]; omega
theorem ole_omax_right (a b : Option Int) : ole b (omax a b) := by
  cases a <;> cases b <;> simp [ole, omax]; omega
theorem omax_cases (a b : Option Int) : omax a b = a ∨ omax a b = b := by
  cases a <;> cases b <;> simp [omax]; omega
@[simp] theorem omax_none_right (a : Option Int) : omax a none = a := by cases a <;> rfl
@[simp] theorem omax_none_left (a : Option Int) : omax none a = a := by cases a <;> rfl

theorem foldl_omax_ge (l : List (Option Int)) : ∀ acc, ole acc (l.foldl omax acc) := by
  induction l with
  | nil => intro acc; exact ole_refl _
  | cons x xs ih => intro acc; exact ole_trans (ole_omax_left acc x) (ih _)

theorem best_ge {l : List (Option Int)} {x} (h : x ∈ l) : ole x (best l) := by
  unfold best
  suffices ∀ acc, ole x (l.foldl omax acc) from this none
  induction l with
  | nil => cases h
  | cons y ys ih =>
    intro acc
    cases h with
    | head => exact ole_trans (ole_omax_right acc x) (foldl_omax_ge ys _)
    | tail _ h' => exact ih h' _

theorem best_mem (l : List (Option Int)) : best l = none ∨ best l ∈ l := by
  unfold best
  suffices ∀ acc, l.foldl omax acc = acc ∨ l.foldl omax acc ∈ l by
    rcases this none with h | h
    · left; exact h
    · right; exact h
  induction l with
  | nil => intro acc; left; rfl
  | cons y ys ih =>
    intro acc
    rcases ih (omax acc y) with h | h
    · rw [List.foldl_cons, h]
      rcases omax_cases acc y with h2 | h2
      · left; exact h2
      · right; rw [h2]; exact List.mem_cons_self
    · right; exact List.mem_cons_of_mem _ h

theorem vAt_upper (N : Net) (em) : ∀ t j sc, PathTo N em t j sc → ole (some sc) (vAt N em t j) := by
  intro t j sc h
  induction h with
  | start hm =>
    rename_i s c
    apply best_ge
    simp only [List.mem_map]
    exact ⟨(s, c), hm, by simp⟩
  | step hp he ih =>
    rename_i t i j c sc
    cases hv : vAt N em t i with
    | none => rw [hv] at ih; simp [ole] at ih
    | some vi =>
      rw [hv] at ih
      have hmem : some (vi + em t i + c) ∈
          (N.edges.map fun (i, j', c) => if j' = j then (vAt N em t i).map (· + em t i + c) else none) := by
        simp only [List.mem_map]
        exact ⟨(i, j, c), he, by simp [hv]⟩
      have := best_ge hmem
      refine ole_trans ?_ this
      simp [ole] at ih ⊢; omega

theorem vAt_attained (N : Net) (em) : ∀ t j v, vAt N em t j = some v → PathTo N em t j v := by
  intro t
  induction t with
  | zero =>
    intro j v hv
    simp only [vAt, v0] at hv
    rcases best_mem (N.init.map fun (s, c) => if s = j then some c else none) with h | h
    · rw [h] at hv; cases hv
    · rw [hv] at h
      simp only [List.mem_map] at h
      obtain ⟨⟨s, c⟩, hm, heq⟩ := h
      by_cases hs : s = j
      · simp [hs] at heq; subst heq; subst hs; exact .start hm
      · simp [hs] at heq
  | succ t ih =>
    intro j v hv
    simp only [vAt, stepV] at hv
    rcases best_mem (N.edges.map fun (i, j', c) => if j' = j then (vAt N em t i).map (· + em t i + c) else none) with h | h
    · rw [h] at hv; cases hv
    · rw [hv] at h
      simp only [List.mem_map] at h
      obtain ⟨⟨i, j', c⟩, hm, heq⟩ := h
      by_cases hj : j' = j
      · simp only [hj, if_true] at heq
        cases hvi : vAt N em t i with
        | none => simp [hvi] at heq
        | some vi =>
          simp [hvi] at heq
          subst heq; subst hj
          exact .step (ih i vi hvi) hm
      · simp [hj] at heq

theorem viterbi_is_max (N : Net) (em) (T : Nat) :
    (∀ sc, Alignment N em T sc → ole (some sc) (viterbi N em T)) ∧
    (∀ v, viterbi N em T = some v → Alignment N em T v) := by
  constructor
  · intro sc h
    cases h with
    | mk hp hx =>
      rename_i i c sc0
      have hu := vAt_upper N em _ _ _ hp
      cases hv : vAt N em (T-1) i with
      | none => rw [hv] at hu; simp [ole] at hu
      | some vi =>
        rw [hv] at hu
        have hmem : some (vi + em (T-1) i + c) ∈
            (N.exits.map fun (i, c) => (vAt N em (T-1) i).map (· + em (T-1) i + c)) := by
          simp only [List.mem_map]
          exact ⟨(i, c), hx, by simp [hv]⟩
        refine ole_trans ?_ (best_ge hmem)
        simp [ole] at hu ⊢; omega
  · intro v hv
    unfold viterbi at hv
    rcases best_mem (N.exits.map fun (i, c) => (vAt N em (T-1) i).map (· + em (T-1) i + c)) with h | h
    · rw [h] at hv; cases hv
    · rw [hv] at h
      simp only [List.mem_map] at h
      obtain ⟨⟨i, c⟩, hm, heq⟩ := h
      cases hvi : vAt N em (T-1) i with
      | none => simp [hvi] at heq
      | some vi =>
        simp [hvi] at heq
        subst heq
        exact .mk (vAt_attained N em _ _ _ hvi) hm

/-! ### pruning can only lose -/

theorem vAtK_attained (N : Net) (K : Mask) (em) : ∀ t j v, vAtK N K em t j = some v → PathTo N em t j v := by
  intro t
  induction t with
  | zero =>
    intro j v hv
    simp only [vAtK, v0K] at hv
    rcases best_mem (N.init.map fun e => if K.init e ∧ e.1 = j then some e.2 else none) with h | h
    · rw [h] at hv; cases hv
    · rw [hv] at h
      simp only [List.mem_map] at h
      obtain ⟨⟨s, c⟩, hm, heq⟩ := h
      by_cases hs : K.init (s, c) = true ∧ s = j
      · obtain ⟨hk, hs'⟩ := hs
        subst hs'
        simp [hk] at heq; subst heq; exact .start hm
      · simp [hs] at heq
  | succ t ih =>
    intro j v hv
    simp only [vAtK, stepVK] at hv
    rcases best_mem (N.edges.map fun e => if K.edge t e ∧ e.2.1 = j then (vAtK N K em t e.1).map (· + em t e.1 + e.2.2) else none) with h | h
    · rw [h] at hv; cases hv
    · rw [hv] at h
      simp only [List.mem_map] at h
      obtain ⟨⟨i, j', c⟩, hm, heq⟩ := h
      by_cases hj : K.edge t (i, j', c) = true ∧ j' = j
      · obtain ⟨hk, hj'⟩ := hj
        subst hj'
        simp only [hk, and_self, if_true] at heq
        cases hvi : vAtK N K em t i with
        | none => simp [hvi] at heq
        | some vi =>
          simp [hvi] at heq
          subst heq
          exact .step (ih i vi hvi) hm
      · simp [hj] at heq

/-- whatever is pruned, a reported value is the score of an alignment, hence at most the optimum -/
theorem pruned_le_optimum (N : Net) (K : Mask) (em) (T : Nat) (v : Int) (hv : viterbiK N K em T = some v) :
    Alignment N em T v ∧ ole (some v) (viterbi N em T) := by
  have ha : Alignment N em T v := by
    unfold viterbiK at hv
    rcases best_mem (N.exits.map fun e => if K.exit e then (vAtK N K em (T-1) e.1).map (· + em (T-1) e.1 + e.2) else none) with h | h
    · rw [h] at hv; cases hv
    · rw [hv] at h
      simp only [List.mem_map] at h
      obtain ⟨⟨i, c⟩, hm, heq⟩ := h
      by_cases hk : K.exit (i, c) = true
      · simp only [hk, if_true] at heq
        cases hvi : vAtK N K em (T-1) i with
        | none => simp [hvi] at heq
        | some vi =>
          simp [hvi] at heq
          subst heq
          exact .mk (vAtK_attained N K em _ _ _ hvi) hm
      · simp [hk] at heq
  exact ⟨ha, (viterbi_is_max N em T).1 v ha⟩

/-- with nothing masked out the pruned DP is the DP -/
theorem viterbiK_all (N : Net) (em) (T : Nat) :
    viterbiK N ⟨fun _ _ => true, fun _ => true, fun _ => true⟩ em T = viterbi N em T := by
  have hv : ∀ t, vAtK N ⟨fun _ _ => true, fun _ => true, fun _ => true⟩ em t = vAt N em t := by
    intro t
    induction t with
    | zero => funext j; simp [vAtK, v0K, vAt, v0]
    | succ t ih => funext j; simp [vAtK, stepVK, vAt, stepV, ih]
  unfold viterbiK viterbi
  rw [hv]
  simp

/-! ### the array DP refines the specification DP -/

theorem vget_modify (a : Vec) (j k : Nat) (f : Option Int → Option Int) (hj : j < a.size) :
    vget (a.modify j f) k = if j = k then f (vget a k) else vget a k := by
  unfold vget
  rw [Array.getElem?_modify]
  by_cases h : j = k
  · subst h; simp [hj]
  · simp [h]

theorem vget_replicate (n k : Nat) : vget (Array.replicate n (none : Option Int) : Vec) k = none := by
  unfold vget; rw [Array.getElem?_replicate]; split <;> rfl

theorem foldl_relax_size (em : Nat → Int) (v : Vec) (edges : List (Nat × Nat × Int)) :
    ∀ acc : Vec, (edges.foldl (relax em v) acc).size = acc.size := by
  induction edges with
  | nil => intro acc; rfl
  | cons e es ih =>
    intro acc
    rw [List.foldl_cons, ih]
    unfold relax
    split
    · rfl
    · exact Array.size_modify

theorem foldl_relax_get (em : Nat → Int) (v : Vec) (j : Nat) (edges : List (Nat × Nat × Int)) :
    ∀ acc : Vec, (∀ e ∈ edges, e.2.1 < acc.size) →
      vget (edges.foldl (relax em v) acc) j =
        (edges.map fun (i, j', c) => if j' = j then (vget v i).map (· + em i + c) else none).foldl omax (vget acc j) := by
  induction edges with
  | nil => intro acc _; rfl
  | cons e es ih =>
    intro acc hwf
    obtain ⟨i, j', c⟩ := e
    have hj' : j' < acc.size := hwf (i, j', c) List.mem_cons_self
    have hsz : (relax em v acc (i, j', c)).size = acc.size := by
      unfold relax; split
      · rfl
      · exact Array.size_modify
    rw [List.foldl_cons, ih _ (by intro e he; rw [hsz]; exact hwf e (List.mem_cons_of_mem _ he))]
    simp only [List.map_cons, List.foldl_cons]
    congr 1
    unfold relax
    simp only
    cases hv : vget v i with
    | none => simp
    | some x =>
      simp only [Option.map_some]
      rw [vget_modify _ _ _ _ hj']
      by_cases h : j' = j
      · simp [h]
      · simp [h]

theorem stepArr_get (N : Net) (n : Nat) (em : Nat → Int) (v : Vec)
    (hwf : ∀ e ∈ N.edges, e.2.1 < n) (j : Nat) :
    vget (stepArr N.edges n em v) j = stepV N em (vget v) j := by
  unfold stepArr stepV best
  rw [foldl_relax_get em v j N.edges _ (by simpa using hwf), vget_replicate]

theorem v0Arr_get (N : Net) (n : Nat) (hwf : ∀ e ∈ N.init, e.1 < n) (j : Nat) :
    vget (v0Arr N n) j = v0 N j := by
  unfold v0Arr v0 best
  suffices H : ∀ (l : List (Nat × Int)) (acc : Vec), (∀ e ∈ l, e.1 < acc.size) →
      vget (l.foldl (fun acc (e : Nat × Int) => acc.modify e.1 (omax · (some e.2))) acc) j =
        (l.map fun (s, c) => if s = j then some c else none).foldl omax (vget acc j) by
    rw [H N.init _ (by simpa using hwf), vget_replicate]
  intro l
  induction l with
  | nil => intro acc _; rfl
  | cons e es ih =>
    intro acc h
    obtain ⟨s, c⟩ := e
    have hs : s < acc.size := h (s, c) List.mem_cons_self
    rw [List.foldl_cons, ih _ (by intro e he; rw [Array.size_modify]; exact h e (List.mem_cons_of_mem _ he))]
    simp only [List.map_cons, List.foldl_cons]
    congr 1
    rw [vget_modify _ _ _ _ hs]
    by_cases hj : s = j
    · simp [hj]
    · simp [hj]

theorem Net.wf_spec {N : Net} {n : Nat} (h : N.wf n = true) :
    (∀ e ∈ N.edges, e.1 < n ∧ e.2.1 < n) ∧ (∀ e ∈ N.init, e.1 < n) ∧ (∀ e ∈ N.exits, e.1 < n) := by
  unfold Net.wf at h
  simp only [Bool.and_eq_true, List.all_eq_true, decide_eq_true_eq] at h
  exact ⟨h.1.1, h.1.2, h.2⟩

theorem vAtArr_get (N : Net) (n : Nat) (em : Nat → Nat → Int) (h : N.wf n = true) :
    ∀ t j, vget (vAtArr N n em t) j = vAt N em t j := by
  obtain ⟨he, hi, _⟩ := Net.wf_spec h
  intro t
  induction t with
  | zero => intro j; exact v0Arr_get N n hi j
  | succ t ih =>
    intro j
    simp only [vAtArr, vAt]
    rw [stepArr_get N n (em t) _ (fun e h => (he e h).2) j]
    have : vget (vAtArr N n em t) = vAt N em t := funext ih
    rw [this]

/-- the executable DP equals the specification DP on a well-formed net -/
theorem viterbiArr_eq (N : Net) (n : Nat) (em : Nat → Nat → Int) (T : Nat) (h : N.wf n = true) :
    viterbiArr N n em T = viterbi N em T := by
  unfold viterbiArr finishArr viterbi
  have : vget (vAtArr N n em (T-1)) = vAt N em (T-1) := funext (vAtArr_get N n em h (T-1))
  rw [this]

/-! ### explicit paths -/

theorem pathScoreGo_sound (N : Net) (em : Nat → Nat → Int) :
    ∀ (steps : List (Nat × Int)) (t i : Nat) (sc cx v : Int), PathTo N em t i sc →
      pathScoreGo N em t i sc steps cx = some v →
      ∃ i' sc', PathTo N em (t + steps.length) i' sc' ∧ (i', cx) ∈ N.exits ∧ v = sc' + em (t + steps.length) i' + cx := by
  intro steps
  induction steps with
  | nil =>
    intro t i sc cx v hp h
    simp only [pathScoreGo] at h
    split at h
    · rename_i hc
      simp only [Option.some.injEq] at h
      exact ⟨i, sc, hp, by simpa using hc, h.symm⟩
    · cases h
  | cons e rest ih =>
    intro t i sc cx v hp h
    obtain ⟨j, c⟩ := e
    simp only [pathScoreGo] at h
    split at h
    · rename_i hc
      have he : (i, j, c) ∈ N.edges := by simpa using hc
      obtain ⟨i', sc', h1, h2, h3⟩ := ih (t+1) j _ cx v (.step hp he) h
      refine ⟨i', sc', ?_, h2, ?_⟩
      · have : t + (rest.length + 1) = t + 1 + rest.length := by omega
        simp only [List.length_cons]; rw [this]; exact h1
      · have : t + (rest.length + 1) = t + 1 + rest.length := by omega
        simp only [List.length_cons]; rw [this]; exact h3
    · cases h

/-- a path accepted by the checker is an alignment with the computed score -/
theorem pathScore_sound (N : Net) (em : Nat → Nat → Int) (T s0 : Nat) (c0 : Int) (steps : List (Nat × Int))
    (cx v : Int) (h : pathScore N em T s0 c0 steps cx = some v) : Alignment N em T v := by
  unfold pathScore at h
  split at h
  · rename_i hc
    obtain ⟨hi, hl⟩ := hc
    have hi' : (s0, c0) ∈ N.init := by simpa using hi
    obtain ⟨i', sc', h1, h2, h3⟩ := pathScoreGo_sound N em steps 0 s0 c0 cx v (.start hi') h
    have hT : T - 1 = 0 + steps.length := by omega
    rw [h3, ← hT]
    exact .mk (hT ▸ h1) h2
  · cases h

end SSVerif.Viterbi
