import SSVerif.Proofs.Hmm
/-! `hmm_vit_eval_5st_lr` computes the 5-state max-plus step when nothing underflows. Core Lean only. -/
namespace SSVerif.Hmm
open SSVerif.Generated.Search SSVerif.Viterbi

theorem tprob5_le (tp : List Nat) (i j : Nat) : tprob5 tp i j ≤ 0 := by
  unfold tprob5; omega

theorem tprob5_ge (tp : List Nat) (h : ∀ x ∈ tp, x ≤ 255) (i j : Nat) : -255 ≤ tprob5 tp i j := by
  unfold tprob5
  have : tp.getD (i * 6 + j) 255 ≤ 255 := by
    rw [List.getD_eq_getElem?_getD]
    cases hx : tp[i * 6 + j]? with
    | none => simp
    | some x => simp; exact h x (List.mem_of_getElem? hx)
  omega

theorem rep_max2c (a b : Int) : rep (max2c a b) = omax (rep a) (rep b) := rep_max a b
theorem rep_max3c (a b c : Int) : rep (max3c a b c) = omax (omax (rep a) (rep b)) (rep c) := rep_max3 a b c

theorem rep_worst : rep worstScore = none := by simp [rep]

theorem clampW_of_rep_none {x : Int} (hx : rep (clampW x) = none) : clampW x = worstScore := by
  unfold rep at hx
  unfold clampW at hx ⊢
  by_cases hlt : x < worstScore
  · simp [hlt]
  · simp only [hlt, if_false] at hx ⊢
    by_cases hle : x ≤ worstScore
    · omega
    · simp [hle] at hx

theorem NoUf.rep_none {x : Int} (h : NoUf x) (hr : rep x = none) : x = worstScore := by
  rcases h with h | h
  · exact h
  · unfold rep at hr; rw [if_neg (by omega)] at hr; cases hr

theorem NoUf.active {x e : Int} (h : NoUf x) (he : -32768 ≤ e ∧ e ≤ 0) : x + e > worstScore ↔ x ≠ worstScore := by
  rcases h with h | h
  · subst h; constructor
    · intro h1; omega
    · intro h1; exact absurd rfl h1
  · constructor
    · intro _ h2; omega
    · intro _; omega

theorem oadd_none (c : Int) : oadd none c = none := rfl

/-- an `omax` that is `none` has both arguments `none` -/
theorem omax_none {a b : Option Int} (h : omax a b = none) : a = none ∧ b = none := by
  cases a <;> cases b <;> simp_all [omax]

theorem oadd2_none {a : Option Int} {x y : Int} (h : oadd (oadd a x) y = none) : a = none := by
  cases a <;> simp_all [oadd]


/-- left-to-right activity: a state is only active when the one below it is, and the exit score is still
`WORST_SCORE` while state 3 is inactive -/
def Inv5 (h : St5) : Prop :=
  (h.s1 = worstScore → h.s2 = worstScore) ∧ (h.s2 = worstScore → h.s3 = worstScore) ∧
  (h.s3 = worstScore → h.s4 = worstScore) ∧ (h.s3 = worstScore → h.out = worstScore)

structure StepHyp5 (tp : List Nat) (e : Nat → Int) (h : St5) : Prop where
  tpByte : ∀ x ∈ tp, x ≤ 255
  em : ∀ k, -32768 ≤ e k ∧ e k ≤ 0
  s0 : NoUf h.s0
  s1 : NoUf h.s1
  s2 : NoUf h.s2
  s3 : NoUf h.s3
  s4 : NoUf h.s4

section
variable {tp : List Nat} {e : Nat → Int} {h : St5} (H : StepHyp5 tp e h) (hI : Inv5 h)
include H

theorem cand5 (x : Int) (hx : NoUf x) (k i j : Nat) :
    rep (x + e k + tprob5 tp i j) = oadd (oadd (rep x) (e k)) (tprob5 tp i j) :=
  rep_add hx (H.em k) ⟨tprob5_ge tp H.tpByte i j, tprob5_le tp i j⟩

theorem new0_eq : rep (new0 tp e h) = (hmmStepIdeal5 tp e h.rep).1.s0 := by
  simp only [new0, hmmStepIdeal5, St5.rep]; rw [rep_clampW, cand5 H _ H.s0]

theorem new1_eq : rep (new1 tp e h) = (hmmStepIdeal5 tp e h.rep).1.s1 := by
  simp only [new1, hmmStepIdeal5, St5.rep]; rw [rep_clampW, rep_max2c, cand5 H _ H.s1, cand5 H _ H.s0]

theorem new2_eq : rep (new2 tp e h) = (hmmStepIdeal5 tp e h.rep).1.s2 := by
  simp only [new2, hmmStepIdeal5, St5.rep]
  rw [rep_clampW, rep_max3c, cand5 H _ H.s2, cand5 H _ H.s1, cand5 H _ H.s0]

include hI

theorem new3_eq : rep (new3 tp e h) = (hmmStepIdeal5 tp e h.rep).1.s3 := by
  simp only [new3, hmmStepIdeal5, St5.rep]
  by_cases g : h.s1 + e 1 > worstScore
  · simp only [g, if_true]
    rw [rep_clampW, rep_max3c, cand5 H _ H.s3, cand5 H _ H.s2, cand5 H _ H.s1]
  · simp only [g, if_false]
    have h1 : h.s1 = worstScore := by
      by_cases hh : h.s1 = worstScore
      · exact hh
      · exact absurd ((H.s1.active (H.em 1)).mpr hh) g
    have h2 := hI.1 h1
    have h3 := hI.2.1 h2
    rw [h1, h2, h3, rep_worst]; rfl

theorem new4_eq : rep (new4 tp e h) = (hmmStepIdeal5 tp e h.rep).1.s4 := by
  simp only [new4, hmmStepIdeal5, St5.rep]
  by_cases g : h.s2 + e 2 > worstScore
  · simp only [g, if_true]
    rw [rep_clampW, rep_max3c, cand5 H _ H.s4, cand5 H _ H.s3, cand5 H _ H.s2]
  · simp only [g, if_false]
    have h2 : h.s2 = worstScore := by
      by_cases hh : h.s2 = worstScore
      · exact hh
      · exact absurd ((H.s2.active (H.em 2)).mpr hh) g
    have h3 := hI.2.1 h2
    have h4 := hI.2.2.1 h3
    rw [h2, h3, h4, rep_worst]; rfl

theorem out5_eq : rep (out5 tp e h) = (hmmStepIdeal5 tp e h.rep).2 := by
  simp only [out5, hmmStepIdeal5, St5.rep]
  by_cases g : h.s3 + e 3 > worstScore
  · simp only [g, if_true]
    rw [rep_clampW, rep_max2c, cand5 H _ H.s4, cand5 H _ H.s3]
  · simp only [g, if_false]
    have h3 : h.s3 = worstScore := by
      by_cases hh : h.s3 = worstScore
      · exact hh
      · exact absurd ((H.s3.active (H.em 3)).mpr hh) g
    have h4 := hI.2.2.1 h3
    have ho := hI.2.2.2 h3
    rw [h3, h4, ho, rep_worst]; rfl

theorem inv5_step : Inv5 (hmmStep5 tp e h) := by
  have e1 := new1_eq H (h := h)
  have e2 := new2_eq H (h := h)
  have e3 := new3_eq H hI
  simp only [hmmStepIdeal5, St5.rep] at e1 e2 e3
  -- which old states are inactive when a new value is WORST_SCORE
  have n1 : new1 tp e h = worstScore → h.s1 = worstScore ∧ h.s0 = worstScore := by
    intro hh
    rw [hh, rep_worst] at e1
    obtain ⟨a, b⟩ := omax_none e1.symm
    exact ⟨H.s1.rep_none (oadd2_none a), H.s0.rep_none (oadd2_none b)⟩
  have n2 : new2 tp e h = worstScore → h.s2 = worstScore ∧ h.s1 = worstScore ∧ h.s0 = worstScore := by
    intro hh
    rw [hh, rep_worst] at e2
    obtain ⟨ab, c⟩ := omax_none e2.symm
    obtain ⟨a, b⟩ := omax_none ab
    exact ⟨H.s2.rep_none (oadd2_none a), H.s1.rep_none (oadd2_none b), H.s0.rep_none (oadd2_none c)⟩
  have n3 : new3 tp e h = worstScore → h.s1 = worstScore := by
    intro hh
    rw [hh, rep_worst] at e3
    obtain ⟨_, c⟩ := omax_none e3.symm
    exact H.s1.rep_none (oadd2_none c)
  have g1 : h.s1 = worstScore → ¬ h.s1 + e 1 > worstScore := fun hh => by
    have := H.em 1; rw [hh]; omega
  have g2 : h.s2 = worstScore → ¬ h.s2 + e 2 > worstScore := fun hh => by
    have := H.em 2; rw [hh]; omega
  have g3 : h.s3 = worstScore → ¬ h.s3 + e 3 > worstScore := fun hh => by
    have := H.em 3; rw [hh]; omega
  refine ⟨?_, ?_, ?_, ?_⟩
  · -- new1 = W → new2 = W
    intro hh
    obtain ⟨a1, a0⟩ := n1 hh
    have a2 := hI.1 a1
    show new2 tp e h = worstScore
    have : rep (new2 tp e h) = none := by
      rw [e2, a2, a1, a0, rep_worst]; rfl
    unfold new2 at this ⊢
    exact clampW_of_rep_none this
  · -- new2 = W → new3 = W
    intro hh
    obtain ⟨a2, a1, _⟩ := n2 hh
    show new3 tp e h = worstScore
    unfold new3
    rw [if_neg (g1 a1)]
    exact hI.2.1 a2
  · -- new3 = W → new4 = W
    intro hh
    have a1 := n3 hh
    have a2 := hI.1 a1
    have a3 := hI.2.1 a2
    show new4 tp e h = worstScore
    unfold new4
    rw [if_neg (g2 a2)]
    exact hI.2.2.1 a3
  · -- new3 = W → out = W
    intro hh
    have a1 := n3 hh
    have a2 := hI.1 a1
    have a3 := hI.2.1 a2
    show out5 tp e h = worstScore
    unfold out5
    rw [if_neg (g3 a3)]
    exact hI.2.2.2 a3

theorem hmmStep5_eq_ideal :
    (hmmStep5 tp e h).rep = (hmmStepIdeal5 tp e h.rep).1 ∧
    rep (hmmStep5 tp e h).out = (hmmStepIdeal5 tp e h.rep).2 ∧
    Inv5 (hmmStep5 tp e h) := by
  refine ⟨?_, out5_eq H hI, inv5_step H hI⟩
  have a0 := new0_eq H (h := h)
  have a1 := new1_eq H (h := h)
  have a2 := new2_eq H (h := h)
  have a3 := new3_eq H hI
  have a4 := new4_eq H hI
  show (⟨rep (new0 tp e h), rep (new1 tp e h), rep (new2 tp e h), rep (new3 tp e h), rep (new4 tp e h)⟩ : ISt5) = _
  rw [a0, a1, a2, a3, a4]

end

end SSVerif.Hmm
