import SSVerif.Proofs.EndpointerRing
/-!
# The capped FIFO machine and the input history (helper lemmas for C15)

`HInv c hist s`: after the input frames `hist` (with their decisions, oldest first) the FIFO of the
abstract state `s` is exactly the *suffix* of `hist` that has not been handed back or dropped yet;
`head = hist.length - s.q.length` is the stream position (in frames) of the oldest queued frame.
`Spec.skew` is the number of frames the queue clock `qstart` is behind that position (0 until an
`end_stream` has returned data: it does not count the frames it discards).
-/
set_option linter.unusedSimpArgs false

namespace SSVerif.Endpointer

/-- queue clock after the push of a `process` call -/
def qs1 (c : Cfg) (s : Spec α) : Nat := if s.q.length = c.maxlen then s.qstart + 1 else s.qstart

theorem pushQ_ne_nil (c : Cfg) (q : List (α × Bool)) (x : α × Bool) : pushQ c q x ≠ [] := by
  unfold pushQ; split <;> simp

/-- closed form of one `Spec.process` step -/
theorem process_eq (c : Cfg) (s : Spec α) (d : Bool) (f : α) :
    s.process c d f =
      (let w := pushQ c s.q (f, d)
       let cnt := w.countP (·.2)
       let ovf := s.inSpeech && s.q.length == c.maxlen
       if s.inSpeech then
         if cnt < c.endFrames then
           ({ s with inSpeech := false, q := w.tail, qstart := qs1 c s + 1, tsFrames := s.tsFrames + 1,
                     speechEnd := ⟨qs1 c s + 1, 0⟩ }, ⟨w.head?.map (·.1), ovf⟩)
         else ({ s with q := w.tail, qstart := qs1 c s + 1, tsFrames := s.tsFrames + 1 }, ⟨w.head?.map (·.1), ovf⟩)
       else if cnt > c.startFrames then
         ({ s with inSpeech := true, q := w.tail, qstart := qs1 c s + 1, tsFrames := s.tsFrames + 1,
                   speechStart := qs1 c s, speechEnd := ⟨0, 0⟩ }, ⟨w.head?.map (·.1), ovf⟩)
       else ({ s with q := w, qstart := qs1 c s, tsFrames := s.tsFrames + 1 }, ⟨none, ovf⟩)) := by
  have hne := pushQ_ne_nil c s.q (f, d)
  unfold Spec.process Spec.push Spec.count Spec.pop qs1
  by_cases hfull : s.q.length = c.maxlen
  · simp only [hfull, if_true] at hne ⊢
    have hw : pushQ c s.q (f, d) = s.q.tail ++ [(f, d)] := pushQ_full hfull _
    rw [hw] at hne ⊢
    cases hq : s.q.tail ++ [(f, d)] with
    | nil => exact absurd hq hne
    | cons y r => cases s.inSpeech <;> simp <;> split <;> simp
  · simp only [hfull, if_false] at hne ⊢
    have hw : pushQ c s.q (f, d) = s.q ++ [(f, d)] := pushQ_notfull hfull _
    rw [hw] at hne ⊢
    cases hq : s.q ++ [(f, d)] with
    | nil => exact absurd hq hne
    | cons y r => cases s.inSpeech <;> simp <;> split <;> simp

/-- frames the queue clock is behind the stream clock -/
def Spec.skew (s : Spec α) : Nat := s.tsFrames - (s.qstart + s.q.length)

structure HInv (c : Cfg) (hist : List (α × Bool)) (s : Spec α) : Prop where
  ts : s.tsFrames = hist.length
  suffix : s.q = hist.drop (hist.length - s.q.length)
  len_le : s.q.length ≤ hist.length
  cap : s.q.length ≤ c.maxlen
  sp_lt : s.inSpeech = true → s.q.length < c.maxlen
  sp_pos : s.inSpeech = true → 0 < s.q.length
  clock : s.qstart + s.q.length ≤ hist.length

theorem hinv_init (c : Cfg) : HInv c ([] : List (α × Bool)) Spec.init :=
  ⟨rfl, rfl, Nat.le_refl _, Nat.zero_le _, by simp [Spec.init], by simp [Spec.init], Nat.le_refl _⟩

/-- the window after a push is again a suffix of the (extended) history -/
theorem push_suffix {c : Cfg} (hm : 0 < c.maxlen) {hist q : List (α × Bool)} (x : α × Bool)
    (hs : q = hist.drop (hist.length - q.length)) (hl : q.length ≤ hist.length) (hc : q.length ≤ c.maxlen) :
    let w := pushQ c q x
    let hist' := hist ++ [x]
    w = hist'.drop (hist'.length - w.length) ∧ w.length = min (q.length + 1) c.maxlen ∧ w.length ≤ hist'.length ∧
    0 < w.length := by
  intro w hist'
  have hlen : w.length = min (q.length + 1) c.maxlen := by
    show (pushQ c q x).length = _
    unfold pushQ; split <;> simp <;> omega
  refine ⟨?_, hlen, by simp [hist']; omega, by omega⟩
  show pushQ c q x = _
  by_cases hfull : q.length = c.maxlen
  · rw [pushQ_full hfull]
    have h1 : hist'.length - w.length = hist.length - q.length + 1 := by simp [hist']; omega
    rw [h1]
    conv => lhs; rw [hs]
    rw [List.tail_drop]
    show _ = (hist ++ [x]).drop _
    rw [List.drop_append_of_le_length (by omega)]
  · rw [pushQ_notfull hfull]
    have h1 : hist'.length - w.length = hist.length - q.length := by simp [hist']; omega
    rw [h1]
    conv => lhs; rw [hs]
    show _ = (hist ++ [x]).drop _
    rw [List.drop_append_of_le_length (by omega)]

theorem suffix_tail {l w : List β} (hs : w = l.drop (l.length - w.length)) (hl : w.length ≤ l.length)
    (hpos : 0 < w.length) :
    w.tail = l.drop (l.length - w.tail.length) ∧ w.head? = l[l.length - w.length]? := by
  constructor
  · have : l.length - w.tail.length = l.length - w.length + 1 := by simp; omega
    rw [this]; conv => lhs; rw [hs]
    rw [List.tail_drop]
  · conv => lhs; rw [hs]
    rw [List.head?_drop]


/-- everything one `Spec.process` step does, in terms of the input history: `w` is the window after
the push, `r` the result of the step, `hist.length + 1 - w.length` the stream position of the oldest
frame of the window -/
structure ProcFacts (c : Cfg) (hist : List (α × Bool)) (s : Spec α) (d : Bool) (f : α)
    (w : List (α × Bool)) (r : Spec α × POut α) : Prop where
  w_suffix : w = (hist ++ [(f, d)]).drop (hist.length + 1 - w.length)
  w_len : w.length = min (s.q.length + 1) c.maxlen
  hd_le : hist.length - s.q.length ≤ hist.length + 1 - w.length
  hd_lt : hist.length + 1 - w.length < hist.length + 1
  hd_eq : s.inSpeech = true → hist.length + 1 - w.length = hist.length - s.q.length
  hinv : HInv c (hist ++ [(f, d)]) r.1
  stay : s.inSpeech = true → (r.1.inSpeech = true ↔ ¬ w.countP (·.2) < c.endFrames)
  start : s.inSpeech = false → (r.1.inSpeech = true ↔ w.countP (·.2) > c.startFrames)
  ret_some : (s.inSpeech = true ∨ r.1.inSpeech = true) →
    r.2.ret = ((hist ++ [(f, d)])[hist.length + 1 - w.length]?).map (·.1) ∧
    hist.length + 1 - r.1.q.length = hist.length + 1 - w.length + 1
  ret_none : ¬(s.inSpeech = true ∨ r.1.inSpeech = true) →
    r.2.ret = none ∧ hist.length + 1 - r.1.q.length = hist.length + 1 - w.length
  no_ovf : r.2.overflow = false
  skew : r.1.skew = s.skew
  tsSamples : r.1.tsSamples = s.tsSamples
  t_start : s.inSpeech = false → r.1.inSpeech = true →
    r.1.speechStart + s.skew = hist.length + 1 - w.length ∧ r.1.speechEnd = ⟨0, 0⟩
  t_keep : s.inSpeech = true → r.1.speechStart = s.speechStart
  t_end : s.inSpeech = true → r.1.inSpeech = false →
    r.1.speechEnd.frames + s.skew = hist.length + 1 - w.length + 1 ∧ r.1.speechEnd.samples = 0
  t_same : s.inSpeech = r.1.inSpeech → r.1.speechStart = s.speechStart ∧ r.1.speechEnd = s.speechEnd

theorem process_facts {c : Cfg} (hv : c.Valid) {hist : List (α × Bool)} {s : Spec α} (H : HInv c hist s)
    (d : Bool) (f : α) : ProcFacts c hist s d f (pushQ c s.q (f, d)) (s.process c d f) := by
  have hm : 0 < c.maxlen := Nat.lt_of_le_of_lt (Nat.zero_le _) hv.start_lt
  obtain ⟨ws, wl, wle, wpos⟩ := push_suffix hm (f, d) H.suffix H.len_le H.cap
  obtain ⟨wt, wh⟩ := suffix_tail ws wle wpos
  simp only [List.length_append, List.length_singleton] at ws wle wt wh
  have hcnt : (pushQ c s.q (f, d)).countP (·.2) ≤ (pushQ c s.q (f, d)).length := List.countP_le_length
  have htl : (pushQ c s.q (f, d)).tail.length = (pushQ c s.q (f, d)).length - 1 := by simp
  have hts := H.ts
  have hcl := H.clock
  have hle := H.len_le
  have hcap := H.cap
  have hsl := H.sp_lt
  have hsp := H.sp_pos
  have hs0 := hv.start_pos
  have hq1 : qs1 c s + (pushQ c s.q (f, d)).length = s.qstart + s.q.length + 1 := by
    unfold qs1; split <;> omega
  have hpe := process_eq c s d f
  have hovf : s.inSpeech = true → (s.inSpeech && s.q.length == c.maxlen) = false := by
    intro h; have := hsl h; simp; omega
  generalize pushQ c s.q (f, d) = w at *
  generalize qs1 c s = q1 at *
  cases hin : s.inSpeech with
  | true =>
    have hnf := hsl hin
    have hps := hsp hin
    have hov := hovf hin
    by_cases hlt : w.countP (·.2) < c.endFrames
    · have hr : s.process c d f =
          ({ s with inSpeech := false, q := w.tail, qstart := q1 + 1, tsFrames := s.tsFrames + 1,
                    speechEnd := ⟨q1 + 1, 0⟩ }, ⟨w.head?.map (·.1), s.inSpeech && s.q.length == c.maxlen⟩) := by
        rw [hpe]; simp only [hin, hlt, if_true]
      rw [hr]
      refine ⟨ws, wl, by omega, by omega, fun _ => by omega, ?_, ?_, by simp [hin], ?_, by simp [hin], ?_, ?_, rfl,
        by simp [hin], fun _ => rfl, ?_, by simp [hin]⟩
      · exact ⟨by simp; omega, by simpa using wt, by simp; omega, by simp; omega, by simp [hin], by simp [hin], by simp; omega⟩
      · simp [hlt]
      · intro _; refine ⟨by simp only [wh], ?_⟩; simp only [htl]; omega
      · simpa using hov
      · simp only [Spec.skew, htl]; omega
      · intro _ _; refine ⟨?_, rfl⟩; show q1 + 1 + s.skew = _; simp only [Spec.skew]; omega
    · have hr : s.process c d f =
          ({ s with q := w.tail, qstart := q1 + 1, tsFrames := s.tsFrames + 1 },
           ⟨w.head?.map (·.1), s.inSpeech && s.q.length == c.maxlen⟩) := by
        rw [hpe]; simp only [hin, hlt, if_true, if_false]
      rw [hr]
      refine ⟨ws, wl, by omega, by omega, fun _ => by omega, ?_, ?_, by simp [hin], ?_, by simp [hin], ?_, ?_, rfl,
        by simp [hin], fun _ => rfl, by simp [hin], by simp [hin]⟩
      · exact ⟨by simp; omega, by simpa using wt, by simp; omega, by simp; omega, by simp; omega, by simp; omega,
          by simp; omega⟩
      · simp [hlt, hin]
      · intro _; refine ⟨by simp only [wh], ?_⟩; simp only [htl]; omega
      · simpa using hov
      · simp only [Spec.skew, htl]; omega
  | false =>
    have hov : (s.inSpeech && s.q.length == c.maxlen) = false := by simp [hin]
    by_cases hgt : w.countP (·.2) > c.startFrames
    · have hr : s.process c d f =
          ({ s with inSpeech := true, q := w.tail, qstart := q1 + 1, tsFrames := s.tsFrames + 1,
                    speechStart := q1, speechEnd := ⟨0, 0⟩ },
           ⟨w.head?.map (·.1), s.inSpeech && s.q.length == c.maxlen⟩) := by
        rw [hpe]; simp only [hin, hgt, if_true, if_false, Bool.false_eq_true]
      rw [hr]
      refine ⟨ws, wl, by omega, by omega, by simp [hin], ?_, by simp [hin], ?_, ?_, by simp [hin], ?_, ?_, rfl,
        ?_, by simp [hin], by simp [hin], by simp [hin]⟩
      · exact ⟨by simp; omega, by simpa using wt, by simp; omega, by simp; omega, by simp; omega, by simp; omega,
          by simp; omega⟩
      · simp [hgt]
      · intro _; refine ⟨by simp only [wh], ?_⟩; simp only [htl]; omega
      · simpa using hov
      · simp only [Spec.skew, htl]; omega
      · intro _ _; refine ⟨?_, rfl⟩; show q1 + s.skew = _; simp only [Spec.skew]; omega
    · have hr : s.process c d f =
          ({ s with q := w, qstart := q1, tsFrames := s.tsFrames + 1 },
           ⟨none, s.inSpeech && s.q.length == c.maxlen⟩) := by
        rw [hpe]; simp only [hin, hgt, if_false, Bool.false_eq_true]
      rw [hr]
      refine ⟨ws, wl, by omega, by omega, by simp [hin], ?_, by simp [hin], ?_, by simp [hin], ?_, ?_, ?_, rfl,
        by simp [hin], by simp [hin], by simp [hin], by simp [hin]⟩
      · exact ⟨by simp; omega, by simpa using ws, by simp; omega, by simp; omega, by simp [hin], by simp [hin],
          by simp; omega⟩
      · simp [hgt, hin]
      · intro _; exact ⟨rfl, rfl⟩
      · simpa using hov
      · simp only [Spec.skew]; omega

/-- everything one `Spec.endStream` step does; `r` is the result of the step -/
structure EndFacts (c : Cfg) (hist : List (α × Bool)) (s : Spec α) (nsamp : Nat) (f : α)
    (r : Spec α × EOut α) : Prop where
  hinv : HInv c hist r.1
  too_long : nsamp > c.frameSize → r = (s, .tooLong)
  not_in : ¬ nsamp > c.frameSize → s.inSpeech = false → r = (s, .notInSpeech)
  ret : ¬ nsamp > c.frameSize → s.inSpeech = true →
    r.2 = .data ((s.q.takeWhile (·.2)).map (·.1))
            (if (s.q.takeWhile (·.2)).length = s.q.length then some (f, nsamp) else none) false
  state : ¬ nsamp > c.frameSize → s.inSpeech = true →
    r.1.inSpeech = false ∧ r.1.q = [] ∧ r.1.speechStart = s.speechStart ∧ r.1.tsFrames = s.tsFrames
  all : ¬ nsamp > c.frameSize → s.inSpeech = true → (s.q.takeWhile (·.2)).length = s.q.length →
    r.1.speechEnd = ⟨s.tsFrames, s.tsSamples + nsamp⟩ ∧ r.1.tsSamples = s.tsSamples + nsamp ∧ r.1.skew = s.skew
  brk : ¬ nsamp > c.frameSize → s.inSpeech = true → (s.q.takeWhile (·.2)).length ≠ s.q.length →
    r.1.speechEnd.frames + s.skew = hist.length - s.q.length + (s.q.takeWhile (·.2)).length ∧
    r.1.speechEnd.samples = 0 ∧ r.1.tsSamples = s.tsSamples ∧
    r.1.skew = s.skew + (s.q.length - (s.q.takeWhile (·.2)).length - 1)

theorem endStream_facts {c : Cfg} {hist : List (α × Bool)} {s : Spec α} (H : HInv c hist s)
    (nsamp : Nat) (f : α) : EndFacts c hist s nsamp f (s.endStream c nsamp f) := by
  have hk : (s.q.takeWhile (·.2)).length ≤ s.q.length := (List.takeWhile_prefix _).length_le
  have hts := H.ts
  have hcl := H.clock
  have hle := H.len_le
  unfold Spec.endStream
  by_cases hlong : nsamp > c.frameSize
  · simp only [hlong, if_true]
    exact ⟨H, fun _ => rfl, fun h => absurd hlong h, fun h => absurd hlong h, fun h => absurd hlong h,
      fun h => absurd hlong h, fun h => absurd hlong h⟩
  simp only [hlong, if_false]
  cases hin : s.inSpeech with
  | false =>
    simp only [Bool.not_false, if_true]
    exact ⟨H, fun h => absurd h hlong, fun _ _ => rfl, by simp [hin], by simp [hin], by simp [hin], by simp [hin]⟩
  | true =>
    simp only [Bool.not_true, Bool.false_eq_true, if_false]
    by_cases hall : (s.q.takeWhile (·.2)).length = s.q.length
    · simp only [hall, if_true]
      refine ⟨?_, fun h => absurd h hlong, by simp [hin], fun _ _ => by simp [hall], fun _ _ => ⟨rfl, rfl, rfl, rfl⟩,
        fun _ _ _ => ⟨rfl, rfl, ?_⟩, fun _ _ h => absurd hall h⟩
      · exact ⟨hts, by simp, by simp, by simp, by simp, by simp, by simp; omega⟩
      · simp only [Spec.skew, List.length_nil]; omega
    · simp only [hall, if_false]
      refine ⟨?_, fun h => absurd h hlong, by simp [hin], fun _ _ => by simp [hall], fun _ _ => ⟨rfl, rfl, rfl, rfl⟩,
        fun _ _ h => absurd h hall, fun _ _ _ => ⟨?_, rfl, rfl, ?_⟩⟩
      · exact ⟨hts, by simp, by simp, by simp, by simp, by simp, by simp; omega⟩
      · show s.qstart + (s.q.takeWhile (·.2)).length + s.skew = _; simp only [Spec.skew]; omega
      · simp only [Spec.skew, List.length_nil]; omega

/-! ### whole histories -/

theorem isData_false_endStream {c : Cfg} {hist : List (α × Bool)} {s : Spec α} (H : HInv c hist s)
    (nsamp : Nat) (f : α) (h : (Ret.e (s.endStream c nsamp f).2).isData = false) :
    (s.endStream c nsamp f).1 = s := by
  have F := endStream_facts H nsamp f
  by_cases hlong : nsamp > c.frameSize
  · rw [F.too_long hlong]
  · cases hin : s.inSpeech with
    | false => rw [F.not_in hlong hin]
    | true => rw [F.ret hlong hin] at h; simp [Ret.isData] at h

/-- one API call on the ring = one step of the FIFO machine (observations included) -/
theorem step_sim {c : Cfg} (hv : c.Valid) {e : Ep α} {q hist : List (α × Bool)} (h : Ring c e q)
    (H : HInv c hist (toSpec e q)) (op : Op α) :
    ∃ e1 q1, step c e op = some (e1, ((toSpec e q).step c op).2) ∧
      ((toSpec e q).step c op).1 = toSpec e1 q1 ∧ Ring c e1 q1 ∧
      HInv c (hist ++ op.input) (toSpec e1 q1) ∧
      ((((toSpec e q).step c op).2.ret.isData = false) → (toSpec e1 q1).skew = (toSpec e q).skew) := by
  cases op with
  | process d f =>
    obtain ⟨e1, h1, h2, h3⟩ := process_sim h d f
    have F := process_facts hv H d f
    refine ⟨e1, _, ?_, h3.symm, h2, ?_, ?_⟩
    · simp only [step, h1, Spec.step]
      rw [← h3]; rfl
    · rw [h3]; exact F.hinv
    · intro _; rw [h3]; exact F.skew
  | endStream nsamp f =>
    have hsp : e.inSpeech = true → e.n < c.maxlen := by
      intro hi; have := H.sp_lt hi; rw [← h.len]; exact this
    obtain ⟨e1, h1, h2, h3⟩ := endStream_sim h hsp nsamp f
    have F := endStream_facts H nsamp f
    refine ⟨e1, _, ?_, h3.symm, h2, ?_, ?_⟩
    · simp only [step, h1, Spec.step]
      rw [← h3]; rfl
    · rw [h3]; simpa [Op.input] using F.hinv
    · intro hd; rw [h3]; rw [isData_false_endStream H nsamp f hd]

theorem inputs_cons (op : Op α) (ops : List (Op α)) : inputs (op :: ops) = op.input ++ inputs ops := by
  simp [inputs]

theorem inputs_append (a b : List (Op α)) : inputs (a ++ b) = inputs a ++ inputs b := by
  simp [inputs]

theorem reach_from {c : Cfg} (hv : c.Valid) : ∀ (ops : List (Op α)) (e : Ep α) (q hist : List (α × Bool)),
    Ring c e q → HInv c hist (toSpec e q) →
    ∃ e' tr q', run c e ops = some (e', tr) ∧ (toSpec e q).run c ops = (toSpec e' q', tr) ∧ Ring c e' q' ∧
      HInv c (hist ++ inputs ops) (toSpec e' q') ∧
      ((∀ o ∈ tr, o.ret.isData = false) → (toSpec e' q').skew = (toSpec e q).skew) := by
  intro ops
  induction ops with
  | nil =>
    intro e q hist h H
    exact ⟨e, [], q, rfl, rfl, h, by simpa [inputs] using H, fun _ => rfl⟩
  | cons op ops ih =>
    intro e q hist h H
    obtain ⟨e1, q1, s1, s2, s3, s4, s5⟩ := step_sim hv h H op
    obtain ⟨e', tr, q', r1, r2, r3, r4, r5⟩ := ih e1 q1 _ s3 s4
    refine ⟨e', ((toSpec e q).step c op).2 :: tr, q', ?_, ?_, r3, ?_, ?_⟩
    · simp only [run, s1, r1]
    · simp only [Spec.run]
      rw [show (toSpec e q).step c op = (toSpec e1 q1, ((toSpec e q).step c op).2) from by rw [← s2]]
      simp only [r2]
    · rw [inputs_cons, ← List.append_assoc]; exact r4
    · intro hall
      rw [r5 (fun o ho => hall o (List.mem_cons_of_mem _ ho)), s5 (hall _ (List.mem_cons_self ..))]

theorem run_append (c : Cfg) : ∀ (a b : List (Op α)) (e : Ep α),
    run c e (a ++ b) =
      match run c e a with
      | none => none
      | some (e1, t1) =>
        match run c e1 b with
        | none => none
        | some (e2, t2) => some (e2, t1 ++ t2) := by
  intro a
  induction a with
  | nil => intro b e; simp only [List.nil_append, run]; cases run c e b with
    | none => rfl
    | some r => rfl
  | cons op a ih =>
    intro b e
    simp only [List.cons_append, run]
    cases step c e op with
    | none => rfl
    | some r =>
      obtain ⟨e1, o⟩ := r
      simp only [ih b e1]
      cases run c e1 a with
      | none => rfl
      | some r1 =>
        obtain ⟨e2, t1⟩ := r1
        simp only
        cases run c e2 b with
        | none => rfl
        | some r2 => rfl

/-- everything known about the state after a history from the initial state, and about one more call -/
theorem reach {c : Cfg} (hv : c.Valid) (z : α) (ops : List (Op α)) :
    ∃ e tr q, run c (Ep.init c z) ops = some (e, tr) ∧ (Spec.init : Spec α).run c ops = (toSpec e q, tr) ∧
      Ring c e q ∧ HInv c (inputs ops) (toSpec e q) ∧
      ((∀ o ∈ tr, o.ret.isData = false) → (toSpec e q).skew = 0) := by
  have hm : 0 < c.maxlen := Nat.lt_of_le_of_lt (Nat.zero_le _) hv.start_lt
  obtain ⟨e, tr, q, h1, h2, h3, h4, h5⟩ :=
    reach_from hv ops (Ep.init c z) [] [] (ring_init c hm z) (hinv_init c)
  refine ⟨e, tr, q, h1, h2, h3, by simpa using h4, fun h => ?_⟩
  rw [h5 h]; rfl

theorem run_snoc {c : Cfg} {e0 e e' : Ep α} {ops : List (Op α)} {tr : List (Obs α)} {op : Op α} {o : Obs α}
    (h1 : run c e0 ops = some (e, tr)) (h2 : step c e op = some (e', o)) :
    run c e0 (ops ++ [op]) = some (e', tr ++ [o]) := by
  rw [run_append, h1]; simp only [run, h2]

variable {α : Type} {c : Cfg}

/-- plumbing: the state after a history, one more `process` call, and the facts about it -/
theorem reach_process (hv : c.Valid) (z : α) (ops : List (Op α)) (d : Bool) (f : α) :
    ∃ e tr q e' o w,
      run c (Ep.init c z) ops = some (e, tr) ∧ process c e d f = some (e', o) ∧
      run c (Ep.init c z) (ops ++ [.process d f]) = some (e', tr ++ [⟨.p o, e'.inSpeech, e'.speechStart, e'.speechEnd⟩]) ∧
      q.length = e.n ∧ e.tsFrames = (inputs ops).length ∧ e'.tsFrames = (inputs ops).length + 1 ∧
      ((∀ o ∈ tr, o.ret.isData = false) → e.skew = 0) ∧
      e'.n = ((toSpec e q).process c d f).1.q.length ∧ e.n ≤ (inputs ops).length ∧ e.qstart + e.n ≤ e.tsFrames ∧
      ProcFacts c (inputs ops) (toSpec e q) d f w (toSpec e' ((toSpec e q).process c d f).1.q, o) := by
  obtain ⟨e, tr, q, h1, _, h3, h4, h5⟩ := reach hv z ops
  obtain ⟨e1, p1, p2, p3⟩ := process_sim h3 d f
  have hlen := h3.len
  have hle : q.length ≤ (inputs ops).length := h4.len_le
  have hcl : e.qstart + q.length ≤ (inputs ops).length := h4.clock
  have hts0 : e.tsFrames = (inputs ops).length := h4.ts
  have F := process_facts hv h4 d f
  have hstep : step c e (.process d f) = some (e1, ⟨.p ((toSpec e q).process c d f).2, e1.inSpeech, e1.speechStart, e1.speechEnd⟩) := by
    simp only [step, p1]
  refine ⟨e, tr, q, e1, ((toSpec e q).process c d f).2, pushQ c q (f, d), h1, p1, run_snoc h1 hstep, h3.len, h4.ts, ?_, ?_,
    p2.len.symm, by omega, by omega, ?_⟩
  · have := F.hinv.ts
    rw [← p3] at this
    simpa [toSpec] using this
  · intro h; have := h5 h; simp only [Spec.skew, toSpec] at this; rw [Ep.skew, ← h3.len]; exact this
  · rw [p3]; exact F

/-- plumbing: the state after a history, one more `end_stream` call, and the facts about it -/
theorem reach_endStream (hv : c.Valid) (z : α) (ops : List (Op α)) (nsamp : Nat) (f : α) :
    ∃ e tr q e' o,
      run c (Ep.init c z) ops = some (e, tr) ∧ endStream c e nsamp f = some (e', o) ∧
      run c (Ep.init c z) (ops ++ [.endStream nsamp f]) =
        some (e', tr ++ [⟨.e o, e'.inSpeech, e'.speechStart, e'.speechEnd⟩]) ∧
      q.length = e.n ∧ e.tsFrames = (inputs ops).length ∧ q = (inputs ops).drop e.head ∧
      e.n ≤ (inputs ops).length ∧ e.qstart + e.n ≤ e.tsFrames ∧
      (e.inSpeech = true → 0 < e.n ∧ e.n < c.maxlen) ∧
      e'.n = ((toSpec e q).endStream c nsamp f).1.q.length ∧
      EndFacts c (inputs ops) (toSpec e q) nsamp f (toSpec e' ((toSpec e q).endStream c nsamp f).1.q, o) := by
  obtain ⟨e, tr, q, h1, _, h3, h4, _⟩ := reach hv z ops
  have hsp : e.inSpeech = true → e.n < c.maxlen := by
    intro hi; have := h4.sp_lt hi; rw [← h3.len]; exact this
  obtain ⟨e1, p1, p2, p3⟩ := endStream_sim h3 hsp nsamp f
  have F := endStream_facts h4 nsamp f
  have hstep : step c e (.endStream nsamp f) =
      some (e1, ⟨.e ((toSpec e q).endStream c nsamp f).2, e1.inSpeech, e1.speechStart, e1.speechEnd⟩) := by
    simp only [step, p1]
  have hts : e.tsFrames = (inputs ops).length := h4.ts
  have hlen := h3.len
  have hle : q.length ≤ (inputs ops).length := h4.len_le
  have hcl : e.qstart + q.length ≤ (inputs ops).length := h4.clock
  refine ⟨e, tr, q, e1, ((toSpec e q).endStream c nsamp f).2, h1, p1, run_snoc h1 hstep, h3.len, hts, ?_,
    by omega, by omega, ?_, p2.len.symm, ?_⟩
  · have := h4.suffix
    simp only [toSpec] at this
    rw [Ep.head, hts, ← hlen]; exact this
  · intro hi
    have a := h4.sp_pos hi; have b := h4.sp_lt hi
    simp only [toSpec] at a b
    omega
  · rw [p3]; exact F

theorem slice_one {l : List β} {j : Nat} (h : j < l.length) : (l.drop j).take 1 = [l[j]] := by
  rw [List.drop_eq_getElem_cons h]; rfl


end SSVerif.Endpointer
