import SSVerif.Model.Search
/-! the exact 3-state HMM evaluation with history indices (`evalHist3`, the mirror of
`hmm_vit_eval_3st_lr`) is a behaviour of the relations `EvalState`/`EvalOut` the step relation uses -/
namespace SSVerif.Search
open SSVerif.Hist
open SSVerif.Generated.Search (worstScore tmatWorstScore)
open SSVerif.Hmm (tprob clampW)

theorem tprob_nonpos (tp : List Nat) (i j : Nat) : tprob tp i j ≤ 0 := by
  unfold tprob; omega

theorem worst_val : worstScore = -536870912 := rfl
theorem intMin_val : SSVerif.Generated.Search.intMin = -2147483648 := rfl

theorem live_clampW {x : Int} : live (clampW x) ↔ worstScore < x := by
  unfold live clampW
  split <;> omega

/-- the exit block: untouched, or taken from state 2 / state 1, whose pre-transition score is then live
whenever the result is; the temporary it leaves is `INT_MIN` unless the skip `1→3` exists -/
theorem exit3_spec (tp : List Nat) (s1 s2 : Int) (h : Hmm) :
    (((exit3 tp s1 s2 h).2.1 = h.outHist ∧ (exit3 tp s1 s2 h).1 = h.outScore) ∨
     ((exit3 tp s1 s2 h).2.1 = h.hi 2 ∧ (live (exit3 tp s1 s2 h).1 → worstScore < s2)) ∨
     ((exit3 tp s1 s2 h).2.1 = h.hi 1 ∧ (live (exit3 tp s1 s2 h).1 → worstScore < s1))) ∧
    ((exit3 tp s1 s2 h).2.2 = SSVerif.Generated.Search.intMin ∨
     (tprob tp 1 3 > tmatWorstScore ∧ (exit3 tp s1 s2 h).2.2 = s1 + tprob tp 1 3)) := by
  have h23 := tprob_nonpos tp 2 3
  have h13 := tprob_nonpos tp 1 3
  by_cases c1 : s1 > worstScore
  · by_cases c2 : tprob tp 1 3 > tmatWorstScore
    · by_cases c3 : s2 + tprob tp 2 3 > s1 + tprob tp 1 3
      · have hE : exit3 tp s1 s2 h = (clampW (s2 + tprob tp 2 3), h.hi 2, s1 + tprob tp 1 3) := by
          simp only [exit3, c1, c2, c3, if_true]
        rw [hE]
        exact ⟨Or.inr (Or.inl ⟨rfl, fun hl => by have := live_clampW.1 hl; omega⟩), Or.inr ⟨c2, rfl⟩⟩
      · have hE : exit3 tp s1 s2 h = (clampW (s1 + tprob tp 1 3), h.hi 1, s1 + tprob tp 1 3) := by
          simp only [exit3, c1, c2, c3, if_true, if_false]
        rw [hE]
        exact ⟨Or.inr (Or.inr ⟨rfl, fun _ => c1⟩), Or.inr ⟨c2, rfl⟩⟩
    · by_cases c3 : s2 + tprob tp 2 3 > SSVerif.Generated.Search.intMin
      · have hE : exit3 tp s1 s2 h = (clampW (s2 + tprob tp 2 3), h.hi 2, SSVerif.Generated.Search.intMin) := by
          simp only [exit3, c1, c2, c3, if_true, if_false]
        rw [hE]
        exact ⟨Or.inr (Or.inl ⟨rfl, fun hl => by have := live_clampW.1 hl; omega⟩), Or.inl rfl⟩
      · have hE : exit3 tp s1 s2 h = (clampW SSVerif.Generated.Search.intMin, h.hi 1, SSVerif.Generated.Search.intMin) := by
          simp only [exit3, c1, c2, c3, if_true, if_false]
        rw [hE]
        exact ⟨Or.inr (Or.inr ⟨rfl, fun _ => c1⟩), Or.inl rfl⟩
  · have hE : exit3 tp s1 s2 h = (h.outScore, h.outHist, SSVerif.Generated.Search.intMin) := by
      simp only [exit3, c1, if_false]
    rw [hE]
    exact ⟨Or.inl ⟨rfl, rfl⟩, Or.inl rfl⟩

/-- the block of state 2, given what the exit block can leave in `t2` and a matrix that has the skip `0→2`
whenever it has the skip `1→3` -/
theorem state2_spec (tp : List Nat) (s0 s1 s2 t2in : Int) (h : Hmm)
    (hskip : tprob tp 1 3 > tmatWorstScore → tprob tp 0 2 > tmatWorstScore)
    (ht : t2in = SSVerif.Generated.Search.intMin ∨ (tprob tp 1 3 > tmatWorstScore ∧ t2in = s1 + tprob tp 1 3)) :
    ((state2 tp s0 s1 s2 t2in h).2 = h.hi 0 ∧ (worstScore < (state2 tp s0 s1 s2 t2in h).1 → worstScore < s0)) ∨
    ((state2 tp s0 s1 s2 t2in h).2 = h.hi 1 ∧ (worstScore < (state2 tp s0 s1 s2 t2in h).1 → worstScore < s1)) ∨
    ((state2 tp s0 s1 s2 t2in h).2 = h.hi 2 ∧ (worstScore < (state2 tp s0 s1 s2 t2in h).1 → worstScore < s2)) := by
  have h22 := tprob_nonpos tp 2 2
  have h12 := tprob_nonpos tp 1 2
  have h02 := tprob_nonpos tp 0 2
  have hw := worst_val
  have hm := intMin_val
  by_cases c4 : tprob tp 0 2 > tmatWorstScore
  · by_cases c5 : s2 + tprob tp 2 2 > s1 + tprob tp 1 2
    · by_cases c6 : s0 + tprob tp 0 2 > s2 + tprob tp 2 2
      · have hE : state2 tp s0 s1 s2 t2in h = (s0 + tprob tp 0 2, h.hi 0) := by
          simp only [state2, c4, c5, c6, if_true]
        rw [hE]; exact Or.inl ⟨rfl, fun hl => by show worstScore < s0; have : worstScore < s0 + tprob tp 0 2 := hl; omega⟩
      · have hE : state2 tp s0 s1 s2 t2in h = (s2 + tprob tp 2 2, h.hi 2) := by
          simp only [state2, c4, c5, c6, if_true, if_false]
        rw [hE]; exact Or.inr (Or.inr ⟨rfl, fun hl => by have : worstScore < s2 + tprob tp 2 2 := hl; omega⟩)
    · by_cases c6 : s0 + tprob tp 0 2 > s1 + tprob tp 1 2
      · have hE : state2 tp s0 s1 s2 t2in h = (s0 + tprob tp 0 2, h.hi 0) := by
          simp only [state2, c4, c5, c6, if_true, if_false]
        rw [hE]; exact Or.inl ⟨rfl, fun hl => by have : worstScore < s0 + tprob tp 0 2 := hl; omega⟩
      · have hE : state2 tp s0 s1 s2 t2in h = (s1 + tprob tp 1 2, h.hi 1) := by
          simp only [state2, c4, c5, c6, if_true, if_false]
        rw [hE]; exact Or.inr (Or.inl ⟨rfl, fun hl => by have : worstScore < s1 + tprob tp 1 2 := hl; omega⟩)
  · have ht2 : t2in = SSVerif.Generated.Search.intMin := by
      rcases ht with h1 | ⟨h1, _⟩
      · exact h1
      · exact absurd (hskip h1) c4
    by_cases c5 : s2 + tprob tp 2 2 > s1 + tprob tp 1 2
    · by_cases c6 : t2in > s2 + tprob tp 2 2
      · have hE : state2 tp s0 s1 s2 t2in h = (t2in, h.hi 0) := by
          simp only [state2, c4, c5, c6, if_true, if_false]
        rw [hE]; exact Or.inl ⟨rfl, fun hl => by have : worstScore < t2in := hl; omega⟩
      · have hE : state2 tp s0 s1 s2 t2in h = (s2 + tprob tp 2 2, h.hi 2) := by
          simp only [state2, c4, c5, c6, if_true, if_false]
        rw [hE]; exact Or.inr (Or.inr ⟨rfl, fun hl => by have : worstScore < s2 + tprob tp 2 2 := hl; omega⟩)
    · by_cases c6 : t2in > s1 + tprob tp 1 2
      · have hE : state2 tp s0 s1 s2 t2in h = (t2in, h.hi 0) := by
          simp only [state2, c4, c5, c6, if_true, if_false]
        rw [hE]; exact Or.inl ⟨rfl, fun hl => by have : worstScore < t2in := hl; omega⟩
      · have hE : state2 tp s0 s1 s2 t2in h = (s1 + tprob tp 1 2, h.hi 1) := by
          simp only [state2, c4, c5, c6, if_false]
        rw [hE]; exact Or.inr (Or.inl ⟨rfl, fun hl => by have : worstScore < s1 + tprob tp 1 2 := hl; omega⟩)

theorem state1_spec (tp : List Nat) (s0 s1 : Int) (h : Hmm) :
    ((state1 tp s0 s1 h).2 = h.hi 0 ∧ (worstScore < (state1 tp s0 s1 h).1 → worstScore < s0)) ∨
    ((state1 tp s0 s1 h).2 = h.hi 1 ∧ (worstScore < (state1 tp s0 s1 h).1 → worstScore < s1)) := by
  have h11 := tprob_nonpos tp 1 1
  have h01 := tprob_nonpos tp 0 1
  by_cases c : s1 + tprob tp 1 1 > s0 + tprob tp 0 1
  · have hE : state1 tp s0 s1 h = (s1 + tprob tp 1 1, h.hi 1) := by simp only [state1, c, if_true]
    rw [hE]; exact Or.inr ⟨rfl, fun hl => by have : worstScore < s1 + tprob tp 1 1 := hl; omega⟩
  · have hE : state1 tp s0 s1 h = (s0 + tprob tp 0 1, h.hi 0) := by simp only [state1, c, if_false]
    rw [hE]; exact Or.inl ⟨rfl, fun hl => by have : worstScore < s0 + tprob tp 0 1 := hl; omega⟩

/-- **`hmm_vit_eval_3st_lr` is a behaviour of the evaluation relation of the step** — for emission scores
`≤ 0` (they are negated `int16` senone scores `≥ 0`) and a transition matrix that has the skip `0→2`
whenever it has the skip `1→3`: state 0 keeps its history and is live only if it was; the states 1, 2 and
the exit state satisfy `EvalState`/`EvalOut`; the frame stamp is untouched. -/
theorem evalHist3_refines (tp : List Nat) (e : Nat → Int) (h : Hmm) (he : ∀ k, e k ≤ 0)
    (hskip : tprob tp 1 3 > tmatWorstScore → tprob tp 0 2 > tmatWorstScore) :
    ((evalHist3 tp e h).hi 0 = h.hi 0 ∧ (live ((evalHist3 tp e h).sc 0) → live (h.sc 0))) ∧
    EvalState h (evalHist3 tp e h) 1 ∧ EvalState h (evalHist3 tp e h) 2 ∧ EvalOut 3 h (evalHist3 tp e h) ∧
    (evalHist3 tp e h).frame = h.frame := by
  have e0 := he 0
  have e1 := he 1
  have e2 := he 2
  have h00 := tprob_nonpos tp 0 0
  obtain ⟨hx, hxt⟩ := exit3_spec tp (h.sc 1 + e 1) (h.sc 2 + e 2) h
  have hy := state2_spec tp (h.sc 0 + e 0) (h.sc 1 + e 1) (h.sc 2 + e 2) _ h hskip hxt
  have hz := state1_spec tp (h.sc 0 + e 0) (h.sc 1 + e 1) h
  refine ⟨⟨rfl, ?_⟩, ?_, ?_, ?_, rfl⟩
  · intro hl
    have : worstScore < h.sc 0 + e 0 + tprob tp 0 0 := live_clampW.1 hl
    unfold live; omega
  · -- state 1
    have hsc : (evalHist3 tp e h).sc 1 = clampW (state1 tp (h.sc 0 + e 0) (h.sc 1 + e 1) h).1 := rfl
    have hhi : (evalHist3 tp e h).hi 1 = (state1 tp (h.sc 0 + e 0) (h.sc 1 + e 1) h).2 := rfl
    unfold EvalState
    rw [hsc, hhi]
    rcases hz with ⟨a, b⟩ | ⟨a, b⟩
    · exact ⟨0, by simp, a, fun hl => by have := b (live_clampW.1 hl); unfold live; omega⟩
    · exact ⟨1, by simp, a, fun hl => by have := b (live_clampW.1 hl); unfold live; omega⟩
  · -- state 2
    have hsc : (evalHist3 tp e h).sc 2 = clampW (state2 tp (h.sc 0 + e 0) (h.sc 1 + e 1) (h.sc 2 + e 2)
      (exit3 tp (h.sc 1 + e 1) (h.sc 2 + e 2) h).2.2 h).1 := rfl
    have hhi : (evalHist3 tp e h).hi 2 = (state2 tp (h.sc 0 + e 0) (h.sc 1 + e 1) (h.sc 2 + e 2)
      (exit3 tp (h.sc 1 + e 1) (h.sc 2 + e 2) h).2.2 h).2 := rfl
    unfold EvalState
    rw [hsc, hhi]
    rcases hy with ⟨a, b⟩ | ⟨a, b⟩ | ⟨a, b⟩
    · exact ⟨0, by simp, a, fun hl => by have := b (live_clampW.1 hl); unfold live; omega⟩
    · exact ⟨1, by simp, a, fun hl => by have := b (live_clampW.1 hl); unfold live; omega⟩
    · exact ⟨2, by simp, a, fun hl => by have := b (live_clampW.1 hl); unfold live; omega⟩
  · -- exit state
    have hsc : (evalHist3 tp e h).outScore = (exit3 tp (h.sc 1 + e 1) (h.sc 2 + e 2) h).1 := rfl
    have hhi : (evalHist3 tp e h).outHist = (exit3 tp (h.sc 1 + e 1) (h.sc 2 + e 2) h).2.1 := rfl
    unfold EvalOut
    rw [hsc, hhi]
    rcases hx with ⟨a, b⟩ | ⟨a, b⟩ | ⟨a, b⟩
    · exact Or.inl ⟨a, fun hl => by rw [b] at hl; exact hl⟩
    · exact Or.inr ⟨2, by simp, by decide, a, fun hl => by have := b hl; unfold live; omega⟩
    · exact Or.inr ⟨1, by simp, by decide, a, fun hl => by have := b hl; unfold live; omega⟩

end SSVerif.Search
