import SSVerif.Proofs.AlignOpt
/-!
Per-word split of the aligned scores, part 1: path segments.  A *pinned entry* is the first state `c = 3p` of a phone
`p ≥ 1` whose window starts exactly where the window of the previous phone ends (`sf[p] = ef[p-1] = A`): every
admissible path that reaches a state `≥ c` enters `c` in frame `A`, so path scores split there.
-/
namespace SSVerif.Align.Step

/-- like `PathTo`, but starting in state `c` at frame `A` with score 0 -/
inductive SegTo (tps : Array (Array Int)) (sf ef : Array Int) (sens : Nat → Array Int) (n c A : Nat) : Nat → Nat → Int → Prop
  | start : SegTo tps sf ef sens n c A A c 0
  | self {f k sc} : SegTo tps sf ef sens n c A f k sc → InWin sf ef f k →
      SegTo tps sf ef sens n c A (f + 1) k (sc - senAt sens f k - tpOf tps k (k % 3) (k % 3))
  | next {f k sc} : SegTo tps sf ef sens n c A f k sc → InWin sf ef f k → k % 3 < 2 →
      SegTo tps sf ef sens n c A (f + 1) (k + 1) (sc - senAt sens f k - tpOf tps k (k % 3) (k % 3 + 1))
  | cross {f k sc} : SegTo tps sf ef sens n c A f k sc → InWin sf ef f k → k % 3 = 2 → (k + 1) / 3 < n →
      sf.getD ((k + 1) / 3) 0 ≤ (f : Int) + 1 →
      SegTo tps sf ef sens n c A (f + 1) (k + 1) (sc - senAt sens f k - tpOf tps k 2 3)

/-- a path to `(A, c)` followed by a segment from there is a path -/
theorem path_compose (tps : Array (Array Int)) (sf ef : Array Int) (sens : Nat → Array Int) (n c A : Nat) (sc1 : Int)
    (h1 : PathTo tps sf ef sens n A c sc1) :
    ∀ f k sc2, SegTo tps sf ef sens n c A f k sc2 → PathTo tps sf ef sens n f k (sc1 + sc2) := by
  intro f k sc2 h
  induction h with
  | start => simpa using h1
  | self _ hw ih =>
    have := PathTo.self ih hw
    rw [show ∀ a b x y : Int, a + (b - x - y) = a + b - x - y from by intros; omega]; exact this
  | next _ hw hj ih =>
    have := PathTo.next ih hw hj
    rw [show ∀ a b x y : Int, a + (b - x - y) = a + b - x - y from by intros; omega]; exact this
  | cross _ hw hj hn hs ih =>
    have := PathTo.cross ih hw hj hn hs
    rw [show ∀ a b x y : Int, a + (b - x - y) = a + b - x - y from by intros; omega]; exact this

/-- **every path that reaches a state `≥ c` passes through the pinned entry `(A, c)`** and splits there -/
theorem path_decompose (tps : Array (Array Int)) (sf ef : Array Int) (sens : Nat → Array Int) (n p A : Nat)
    (hp : 1 ≤ p) (hsf : sf.getD p 0 = (A : Int)) (hef : ef.getD (p - 1) 0 = (A : Int)) :
    ∀ f k sc, PathTo tps sf ef sens n f k sc → 3 * p ≤ k →
      ∃ sc1 sc2, PathTo tps sf ef sens n A (3 * p) sc1 ∧ SegTo tps sf ef sens n (3 * p) A f k sc2 ∧ sc = sc1 + sc2 := by
  intro f k sc h
  induction h with
  | start => intro hk; omega
  | @self f k sc h0 hw ih =>
    intro hk
    obtain ⟨sc1, sc2, a, b, rfl⟩ := ih hk
    exact ⟨sc1, _, a, SegTo.self b hw, by omega⟩
  | @next f k sc h0 hw hj ih =>
    intro hk
    have hk0 : 3 * p ≤ k := by omega
    obtain ⟨sc1, sc2, a, b, rfl⟩ := ih hk0
    exact ⟨sc1, _, a, SegTo.next b hw hj, by omega⟩
  | @cross f k sc h0 hw hj hn hs ih =>
    intro hk
    by_cases hk0 : 3 * p ≤ k
    · obtain ⟨sc1, sc2, a, b, rfl⟩ := ih hk0
      exact ⟨sc1, _, a, SegTo.cross b hw hj hn hs, by omega⟩
    · -- the crossing into `3p`: it happens in frame `A`
      have hk1 : k + 1 = 3 * p := by omega
      have hd : k / 3 = p - 1 := by omega
      have hd1 : (k + 1) / 3 = p := by omega
      have hfA : f + 1 = A := by
        have h1 := hw.2; rw [hd, hef] at h1
        rw [hd1, hsf] at hs
        omega
      refine ⟨sc - senAt sens f k - tpOf tps k 2 3, 0, ?_, ?_, by omega⟩
      · have := PathTo.cross h0 hw hj hn hs
        rw [hk1, hfA] at this; exact this
      · rw [hk1, hfA]; exact SegTo.start

/-! ### prefixes of a run -/

theorem runAux_append (tps : Array (Array Int)) (sf ef : Array Int) : ∀ (l1 l2 : List (Array Int)) (s : Search) (f : Nat)
    (rows : List (List Tok)) (rn : Bool),
    runAux tps sf ef (l1 ++ l2) s f rows rn =
      runAux tps sf ef l2 (runAux tps sf ef l1 s f rows rn).1 (f + l1.length)
        (runAux tps sf ef l1 s f rows rn).2.1 (runAux tps sf ef l1 s f rows rn).2.2
  | [], l2, s, f, rows, rn => by simp [runAux]
  | x :: l1, l2, s, f, rows, rn => by
    simp only [List.cons_append, runAux, List.length_cons]
    rw [runAux_append tps sf ef l1 l2]
    have : f + 1 + l1.length = f + (l1.length + 1) := by omega
    rw [this]

theorem runAux_rows (tps : Array (Array Int)) (sf ef : Array Int) : ∀ (l : List (Array Int)) (s : Search) (f : Nat)
    (rows : List (List Tok)) (rn : Bool), ∃ Y, (runAux tps sf ef l s f rows rn).2.1 = rows ++ Y
  | [], s, f, rows, rn => ⟨[], by simp [runAux]⟩
  | x :: l, s, f, rows, rn => by
    simp only [runAux]
    obtain ⟨Y, h⟩ := runAux_rows tps sf ef l (step tps sf ef x (f : Int) s).1 (f + 1)
      (rows ++ [(step tps sf ef x (f : Int) s).2]) (rn || decide (renormDue s.best))
    exact ⟨(step tps sf ef x (f : Int) s).2 :: Y, by rw [h]; simp⟩

/-- the search after the first `f` frames -/
def stAt (tps : Array (Array Int)) (sf ef : Array Int) (frames : List (Array Int)) (f : Nat) :
    Search × List (List Tok) × Bool :=
  runAux tps sf ef (frames.take f) (start sf.size) 0 [] false

/-- the token rows of the whole run extend those of every prefix -/
theorem rows_prefix (tps : Array (Array Int)) (sf ef : Array Int) (frames : List (Array Int)) (f : Nat) :
    ∃ Y, (stAt tps sf ef frames frames.length).2.1 = (stAt tps sf ef frames f).2.1 ++ Y := by
  unfold stAt
  have : frames.take frames.length = frames.take f ++ frames.drop f := by simp
  rw [this, runAux_append]
  exact runAux_rows _ _ _ _ _ _ _ _

/-- one more frame -/
theorem stAt_succ (tps : Array (Array Int)) (sf ef : Array Int) (frames : List (Array Int)) (f : Nat)
    (hf : f < frames.length) :
    (stAt tps sf ef frames (f + 1)).1 = (step tps sf ef frames[f] (f : Int) (stAt tps sf ef frames f).1).1 ∧
    (stAt tps sf ef frames (f + 1)).2.1 =
      (stAt tps sf ef frames f).2.1 ++ [(step tps sf ef frames[f] (f : Int) (stAt tps sf ef frames f).1).2] := by
  unfold stAt
  have : frames.take (f + 1) = frames.take f ++ [frames[f]] := by
    rw [List.take_succ]; simp [List.getElem?_eq_getElem hf]
  rw [this, runAux_append]
  have hl : (frames.take f).length = f := by simp; omega
  simp only [runAux, hl, Nat.zero_add]
  exact ⟨trivial, trivial⟩

/-- invariants of every prefix of a run -/
theorem stAt_inv (tps : Array (Array Int)) (sf ef : Array Int) (frames : List (Array Int))
    (hok : ∀ sen ∈ frames, FrameOK tps sen) (hsf : sf.getD 0 0 ≤ 0)
    (hmono : ∀ i, i + 1 < sf.size → ef.getD i 0 ≤ ef.getD (i + 1) 0)
    (hT : (frames.length : Int) * 33022 ≤ 533000000) (hn : 1 ≤ sf.size) (hall : AllOK tps (fun g => frames.getD g #[]))
    (f : Nat) (hf : f ≤ frames.length) :
    (∀ i h, (stAt tps sf ef frames f).1.hmms[i]? = some h →
      K sf ef (stAt tps sf ef frames f).2.1 f (stAt tps sf ef frames f).1.best i h) ∧
    (stAt tps sf ef frames f).2.1.length = f ∧ (stAt tps sf ef frames f).1.hmms.length = sf.size ∧
    V tps sf ef (fun g => frames.getD g #[]) sf.size f (stAt tps sf ef frames f).1.hmms := by
  have hlenS : (start sf.size).hmms.length = sf.size := by simp [start]
  have hl : (frames.take f).length = f := by simp; omega
  have hokt : ∀ sen ∈ frames.take f, FrameOK tps sen := fun x hx => hok x (List.mem_of_mem_take hx)
  have hB : ((0 + (frames.take f).length : Nat) : Int) * 33022 ≤ 533000000 := by
    rw [hl]; push_cast; have : (f : Int) ≤ frames.length := by exact_mod_cast hf
    omega
  obtain ⟨k1, k2, k3⟩ := runAux_K tps sf ef sf.size hmono (frames.take f) (start sf.size) 0 [] false
    (by rw [hlenS]; exact Nat.le_refl _) rfl hokt hB (k_start sf ef sf.size hsf)
  have hV := runAux_V tps sf ef (fun g => frames.getD g #[]) sf.size hmono hall (frames.take f) (start sf.size) 0 [] false
    hlenS rfl (fun j hj => by
      have hj' : j < f := by rw [hl] at hj; exact hj
      have : j < frames.length := by omega
      simp [List.getD_eq_getElem?_getD, this, List.getElem_take]) hB (k_start sf ef sf.size hsf)
    (v_start tps sf ef _ sf.size hn)
  rw [hl] at k1 k2 hV
  simp only [Nat.zero_add] at k1 k2 hV
  have k3' : (stAt tps sf ef frames f).1.hmms.length = sf.size := by
    show (runAux tps sf ef (frames.take f) (start sf.size) 0 [] false).1.hmms.length = sf.size
    rw [k3, hlenS]
  exact ⟨k1, k2, k3', hV⟩

/-! ### best segment scores between two points all paths pass through -/

/-- `(A, c)` is a point every path to a state `≥ c` passes through, and `v` is the best score of a path to it -/
structure Src (tps : Array (Array Int)) (sf ef : Array Int) (sens : Nat → Array Int) (n c A : Nat) (v : Int) : Prop where
  ub : ∀ sc, PathTo tps sf ef sens n A c sc → sc ≤ v
  att : PathTo tps sf ef sens n A c v
  split : ∀ f k sc, PathTo tps sf ef sens n f k sc → c ≤ k →
    ∃ sc1 sc2, PathTo tps sf ef sens n A c sc1 ∧ SegTo tps sf ef sens n c A f k sc2 ∧ sc = sc1 + sc2

theorem path_to_seg0 (tps : Array (Array Int)) (sf ef : Array Int) (sens : Nat → Array Int) (n : Nat) :
    ∀ f k sc, PathTo tps sf ef sens n f k sc → SegTo tps sf ef sens n 0 0 f k sc := by
  intro f k sc h
  induction h with
  | start => exact SegTo.start
  | self _ hw ih => exact SegTo.self ih hw
  | next _ hw hj ih => exact SegTo.next ih hw hj
  | cross _ hw hj hn hs ih => exact SegTo.cross ih hw hj hn hs

/-- the origin: state 0 at frame 0 with score 0 -/
theorem src_origin (tps : Array (Array Int)) (sf ef : Array Int) (sens : Nat → Array Int) (n : Nat) :
    Src tps sf ef sens n 0 0 0 := by
  refine ⟨?_, PathTo.start, ?_⟩
  · intro sc h; cases h; exact Int.le_refl _
  · intro f k sc h _
    exact ⟨0, sc, PathTo.start, path_to_seg0 tps sf ef sens n f k sc h, by omega⟩

/-- the segments from a source to any target whose best path score is `w`: no segment scores more than `w - v`, and
`w - v` is attained -/
theorem seg_opt (tps : Array (Array Int)) (sf ef : Array Int) (sens : Nat → Array Int) (n c A : Nat) (v : Int)
    (hs : Src tps sf ef sens n c A v) (f k : Nat) (w : Int) (hck : c ≤ k)
    (hub : ∀ sc, PathTo tps sf ef sens n f k sc → sc ≤ w) (hatt : PathTo tps sf ef sens n f k w) :
    (∀ sc2, SegTo tps sf ef sens n c A f k sc2 → sc2 ≤ w - v) ∧ SegTo tps sf ef sens n c A f k (w - v) := by
  have h1 : ∀ sc2, SegTo tps sf ef sens n c A f k sc2 → sc2 ≤ w - v := by
    intro sc2 h
    have := hub _ (path_compose tps sf ef sens n c A v hs.att f k sc2 h)
    omega
  refine ⟨h1, ?_⟩
  obtain ⟨sc1, sc2, a, b, e⟩ := hs.split f k w hatt hck
  have := hs.ub sc1 a
  have := h1 sc2 b
  have : sc2 = w - v := by omega
  rw [← this]; exact b

/-- a complete segment: from `(A, c)` to the exit of the last state after frame `T-1` -/
def FullSeg (tps : Array (Array Int)) (sf ef : Array Int) (sens : Nat → Array Int) (n c A T : Nat) (sc : Int) : Prop :=
  ∃ f sc0, T = f + 1 ∧ 1 ≤ n ∧ SegTo tps sf ef sens n c A f (3 * (n - 1) + 2) sc0 ∧ InWin sf ef f (3 * (n - 1) + 2) ∧
    sc = sc0 - senAt sens f (3 * (n - 1) + 2) - tpOf tps (3 * (n - 1) + 2) 2 3

theorem seg_opt_end (tps : Array (Array Int)) (sf ef : Array Int) (sens : Nat → Array Int) (n c A : Nat) (v : Int)
    (hs : Src tps sf ef sens n c A v) (T : Nat) (w : Int) (hck : c ≤ 3 * (n - 1) + 2)
    (hub : ∀ sc, FullPath tps sf ef sens n T sc → sc ≤ w) (hatt : FullPath tps sf ef sens n T w) :
    (∀ sc2, FullSeg tps sf ef sens n c A T sc2 → sc2 ≤ w - v) ∧ FullSeg tps sf ef sens n c A T (w - v) := by
  have h1 : ∀ sc2, FullSeg tps sf ef sens n c A T sc2 → sc2 ≤ w - v := by
    rintro sc2 ⟨f, sc0, hT, hn, hseg, hw, rfl⟩
    have hp := path_compose tps sf ef sens n c A v hs.att f _ sc0 hseg
    have := hub _ ⟨f, v + sc0, hT, hn, hp, hw, rfl⟩
    omega
  refine ⟨h1, ?_⟩
  obtain ⟨f, sc0, hT, hn, hp, hw, e⟩ := hatt
  obtain ⟨sc1, sc2, a, b, e2⟩ := hs.split f _ sc0 hp hck
  have hb1 := hs.ub sc1 a
  have hb2 := h1 _ ⟨f, sc2, hT, hn, b, hw, rfl⟩
  refine ⟨f, sc2, hT, hn, b, hw, ?_⟩
  omega

/-- a pinned entry that some path reaches is a source whose value is the score of state 0 of its phone at the start
of frame `A` -/
theorem src_pinned (tps : Array (Array Int)) (sf ef : Array Int) (sens : Nat → Array Int) (n p A : Nat)
    (hok : AllOK tps sens) (hm : List Hmm) (hV : V tps sf ef sens n A hm) (hB : (A : Int) * 33022 ≤ 533000000)
    (hp : 1 ≤ p) (hsf : sf.getD p 0 = (A : Int)) (hef : ef.getD (p - 1) 0 = (A : Int))
    (hreach : ∃ sc, PathTo tps sf ef sens n A (3 * p) sc) :
    ∃ h, hm[p]? = some h ∧ h.frame = (A : Int) ∧ h.s0 > worst ∧ Src tps sf ef sens n (3 * p) A h.s0 := by
  have hw : worst = -536870912 := rfl
  obtain ⟨sc, hsc⟩ := hreach
  obtain ⟨h, hl, hfe, hle⟩ := hV.complete _ _ hsc
  have hd : 3 * p / 3 = p := by omega
  have hmod : 3 * p % 3 = 0 := by omega
  rw [hd] at hl
  rw [hmod] at hle
  have hb := path_bound tps sf ef sens n hok A _ sc hsc
  have hal : h.s0 > worst := by simp only [sel] at hle; omega
  refine ⟨h, hl, hfe, hal, ?_, ?_, ?_⟩
  · intro sc' h'
    obtain ⟨h2, hl2, _, hle2⟩ := hV.complete _ _ h'
    rw [hd, hl] at hl2
    have : h2 = h := (Option.some.inj hl2).symm
    subst this
    rw [hmod] at hle2; exact hle2
  · have := hV.sound p h hl hfe 0 (by omega) hal
    simpa [sel] using this
  · exact path_decompose tps sf ef sens n p A hp hsf hef

/-! ### token scores are the scores of the HMMs -/

theorem step_row (tps : Array (Array Int)) (sf ef : Array Int) (sen : Array Int) (F : Int) (s : Search) :
    (step tps sf ef sen F s).2 = (advance tps sf ef sen F (hm0Of s)).flatMap (rowOf F) := rfl

/-- the token pushed for state `3i+j` in frame `f` carries the score that state has at the start of frame `f+1` -/
theorem step_tok (tps : Array (Array Int)) (sf ef : Array Int) (sen : Array Int) (f : Nat) (s : Search)
    (i : Nat) (h : Hmm) (hl : (step tps sf ef sen (f : Int) s).1.hmms[i]? = some h) (hfr : h.frame = (f : Int) + 1)
    (j : Nat) (hj : j < 3) :
    ∃ t, (step tps sf ef sen (f : Int) s).2[3 * i + j]? = some t ∧ t.score = sel h j := by
  rw [step_hmms] at hl
  rw [step_row, row_get _ _ _ _ hj]
  unfold relabel at hl
  rw [List.getElem?_mapIdx] at hl
  cases h1 : (advance tps sf ef sen (f : Int) (hm0Of s))[i]? with
  | none => rw [h1] at hl; simp at hl
  | some a =>
    rw [h1] at hl
    simp only [Option.map_some, Option.some.injEq] at hl
    replace hl : relabelElem (f : Int) i a = h := hl
    have hfa : a.frame = (f : Int) + 1 := by rw [← hl, (relabel_same _ _ _).1] at hfr; exact hfr
    have hr : rowOf (f : Int) a = [⟨a.h0, a.s0⟩, ⟨a.h1, a.s1⟩, ⟨a.h2, a.s2⟩] := by
      unfold rowOf; rw [if_neg (by omega)]
    simp only [Option.bind_some, hr]
    rw [← hl, sel_relabel]
    match j, hj with
    | 0, _ => exact ⟨_, rfl, rfl⟩
    | 1, _ => exact ⟨_, rfl, rfl⟩
    | 2, _ => exact ⟨_, rfl, rfl⟩

/-- the same for the token stack of the whole run -/
theorem token_link (tps : Array (Array Int)) (sf ef : Array Int) (frames : List (Array Int)) (f : Nat)
    (hf : f < frames.length) (hrl : (stAt tps sf ef frames f).2.1.length = f)
    (i : Nat) (h : Hmm) (hl : (stAt tps sf ef frames (f + 1)).1.hmms[i]? = some h) (hfr : h.frame = (f : Int) + 1)
    (j : Nat) (hj : j < 3) :
    ∃ t, tokAt (stAt tps sf ef frames frames.length).2.1 f (3 * i + j) = some t ∧ t.score = sel h j := by
  obtain ⟨e1, e2⟩ := stAt_succ tps sf ef frames f hf
  rw [e1] at hl
  obtain ⟨t, ht, hs⟩ := step_tok tps sf ef frames[f] f (stAt tps sf ef frames f).1 i h hl hfr j hj
  obtain ⟨Y, hY⟩ := rows_prefix tps sf ef frames (f + 1)
  refine ⟨t, ?_, hs⟩
  rw [hY, tokAt_append_left _ _ _ _ (by rw [e2]; simp [hrl]), e2]
  have := tokAt_last (stAt tps sf ef frames f).2.1 (step tps sf ef frames[f] (f : Int) (stAt tps sf ef frames f).1).2 (3 * i + j)
  rw [hrl] at this
  rw [this, ht]

end SSVerif.Align.Step
