import SSVerif.Proofs.LatticeIntUpper
import SSVerif.Proofs.LatticePostBudget
import SSVerif.Model.LatticeRound
/-!
# Soundness of the Boolean checkers `roundHypsB`, `budOKB` (helper lemmas for C12; core Lean only)

`RangeHyps` are the hypotheses of the rounding theorems (statements over all paths); `roundHypsB_sound`:
a `true` answer of the potential-based checker implies them.  `budOKB_sound`: a `true` answer implies the
budget conditions `BudA`/`BudB` for the link budgets `ea l.src` / `eb l.dst` and the conditions on the
totals.
-/
namespace SSVerif.Lattice

variable {L : Lat}

/-- no underflow to log-zero and no overflow of `hi`, for the scaled scores `P.sc` with `c` per log-addition
(forward: one per link plus the normaliser's additions; backward: `KB`, a bound of all backward budgets) -/
structure RangeHyps (L : Lat) (P : IntParams) (c hi : Int) (KB : Nat) : Prop where
  nu : ∀ p v, Path L L.start p v → P.lz < jointInt P p
  nuB : ∀ v q, Path L v q L.final → P.lz < jointInt P q
  hiW : ∀ p v, Path L L.start p v → jointInt P p + c * (L.links.length + (entries L L.final).length : Nat) < hi
  hiB : ∀ v q, Path L v q L.final → jointInt P q + c * (KB : Int) < hi

/-- potentials bound the scores of paths between any two nodes -/
theorem pots_path (P : IntParams) (m : Nat → Int) :
    (∀ l ∈ L.links, m l.dst ≤ m l.src + P.sc l) → ∀ u p v, Path L u p v → m v ≤ m u + jointInt P p := by
  intro h u p v hp
  induction hp with
  | nil u => simp [jointInt]
  | @cons u l ls v hm hs _ ih =>
    have := h l hm
    rw [jointInt_cons, ← hs]
    omega

theorem pots_path_hi (P : IntParams) (m : Nat → Int) :
    (∀ l ∈ L.links, m l.src + P.sc l ≤ m l.dst) → ∀ u p v, Path L u p v → m u + jointInt P p ≤ m v := by
  intro h u p v hp
  induction hp with
  | nil u => simp [jointInt]
  | @cons u l ls v hm hs _ ih =>
    have := h l hm
    rw [jointInt_cons, ← hs]
    omega

theorem spots_path (P : IntParams) (m : Nat → Int) :
    (∀ l ∈ L.links, m l.src ≤ P.sc l + m l.dst) → ∀ u p v, Path L u p v → m u ≤ jointInt P p + m v := by
  intro h u p v hp
  induction hp with
  | nil u => simp [jointInt]
  | @cons u l ls v hm hs _ ih =>
    have := h l hm
    rw [jointInt_cons, ← hs]
    omega

theorem spots_path_hi (P : IntParams) (m : Nat → Int) :
    (∀ l ∈ L.links, P.sc l + m l.dst ≤ m l.src) → ∀ u p v, Path L u p v → jointInt P p + m v ≤ m u := by
  intro h u p v hp
  induction hp with
  | nil u => simp [jointInt]
  | @cons u l ls v hm hs _ ih =>
    have := h l hm
    rw [jointInt_cons, ← hs]
    omega

/-- the end of a non-empty path is the target of a link; the start of one is the source of a link -/
theorem path_end_cases {u v : Nat} {p : List Link} (hp : Path L u p v) : v = u ∨ ∃ l ∈ L.links, l.dst = v := by
  induction hp with
  | nil u => exact Or.inl rfl
  | @cons u l ls v hm hs _ ih =>
    rcases ih with h | h
    · exact Or.inr ⟨l, hm, h.symm⟩
    · exact Or.inr h

theorem path_start_cases {u v : Nat} {p : List Link} (hp : Path L u p v) : u = v ∨ ∃ l ∈ L.links, l.src = u := by
  cases hp with
  | nil => exact Or.inl rfl
  | cons hm hs _ => exact Or.inr ⟨_, hm, hs⟩

/-- **soundness of `roundHypsB`** -/
theorem roundHypsB_sound (P : IntParams) (c hi : Int) (KB : Nat) (p : Pots)
    (h : roundHypsB L P.sc P.lz c hi KB p = true) : RangeHyps L P c hi KB := by
  simp only [roundHypsB, Bool.and_eq_true, decide_eq_true_eq, List.all_eq_true] at h
  obtain ⟨⟨⟨⟨⟨⟨⟨⟨a1, a2⟩, a3⟩, a4⟩, a5⟩, a6⟩, a7⟩, a8⟩, hl⟩ := h
  have f1 : ∀ l ∈ L.links, p.mLo l.dst ≤ p.mLo l.src + P.sc l := fun l hm => (hl l hm).1.1.1.1.1.1.1
  have f2 : ∀ l ∈ L.links, p.mHi l.src + P.sc l ≤ p.mHi l.dst := fun l hm => (hl l hm).1.1.1.1.1.1.2
  have f3 : ∀ l ∈ L.links, p.sLo l.src ≤ P.sc l + p.sLo l.dst := fun l hm => (hl l hm).1.1.1.1.1.2
  have f4 : ∀ l ∈ L.links, P.sc l + p.sHi l.dst ≤ p.sHi l.src := fun l hm => (hl l hm).1.1.1.1.2
  refine ⟨?_, ?_, ?_, ?_⟩
  · intro q v hq
    have h1 := pots_path P p.mLo f1 _ _ _ hq
    rcases path_end_cases hq with rfl | ⟨l, hm, rfl⟩
    · omega
    · have := (hl l hm).1.1.1.2
      omega
  · intro v q hq
    have h1 := spots_path P p.sLo f3 _ _ _ hq
    rcases path_start_cases hq with rfl | ⟨l, hm, rfl⟩
    · omega
    · have := (hl l hm).1.2
      omega
  · intro q v hq
    have h1 := pots_path_hi P p.mHi f2 _ _ _ hq
    rcases path_end_cases hq with rfl | ⟨l, hm, rfl⟩
    · omega
    · have := (hl l hm).1.1.2
      omega
  · intro v q hq
    have h1 := spots_path_hi P p.sHi f4 _ _ _ hq
    rcases path_start_cases hq with rfl | ⟨l, hm, rfl⟩
    · omega
    · have := (hl l hm).2
      omega

/-- **soundness of `budOKB`** -/
theorem budOKB_sound (ea eb : Nat → Nat) (EN EW KB : Nat) (h : budOKB L ea eb EN EW KB = true) :
    BudA L (fun l => ea l.src) ∧ BudB L (fun l => eb l.dst) ∧
    (∀ x ∈ entries L L.final, ea x.src + ((entries L L.final).length - 1) ≤ EN) ∧
    (∀ x ∈ exits L L.start, eb x.dst + ((exits L L.start).length - 1) ≤ EW) ∧
    (∀ l ∈ L.links, eb l.dst ≤ KB) ∧ EW ≤ KB := by
  simp only [budOKB, Bool.and_eq_true, decide_eq_true_eq, List.all_eq_true] at h
  obtain ⟨⟨⟨⟨k1, k2⟩, h1⟩, h2⟩, h3⟩ := h
  exact ⟨fun l hl x hx => (h1 l hl).1 x hx, fun l hl x hx => (h1 l hl).2 x hx, h2, h3, k2, k1⟩

/-- **soundness of `remOKB`** -/
theorem remOKB_sound (h : remOKB L = true) : ∀ v, v < L.n → remTable L v > worstScore := by
  simp only [remOKB, List.all_eq_true, List.mem_range, decide_eq_true_eq] at h
  exact fun v hv => h v hv

end SSVerif.Lattice
