import SSVerif.Proofs.ProtocolPred
/-! what the model believes about results agrees with the protocol state (helper lemmas for `Props/C09Pred.lean`) -/
namespace SSVerif.Protocol

theorem baseStep_other (x : XState) (sc : SysCall) (cons : Bool) (i : Inst) (h : instOf sc ≠ some i) :
    (baseStep x sc cons).1.sys.inst i = x.sys.inst i := by
  rcases baseStep_sys x sc cons with ⟨_, h1⟩ | ⟨h1, _⟩
  · rw [h1]
  · rw [h1]; exact sysStep_other_inst _ _ _ h

/-- a call that is not made on decoder `i` leaves the whole state of `i` unchanged, at the API level -/
theorem xStep_other_inst (x : XState) (c : XCall) (i : Inst) (h : instOfX c ≠ some i) :
    (xStep x c).1.sys.inst i = x.sys.inst i := by
  unfold xStep
  split
  · rfl
  · cases c with
    | base sc cons =>
      have hb := baseStep_other x sc cons i (by simpa [instOfX] using h)
      cases sc <;> simp only [xCore] <;> (try split) <;> (try split) <;> first | rfl | exact hb
    | createNew j jsgf g =>
      have hj : instOf (SysCall.initNew j jsgf .none false) ≠ some i := by simpa [instOfX, instOf] using h
      have hj2 : instOf (SysCall.cfgGram (.dec j) jsgf g) ≠ some i := by simpa [instOfX, instOf] using h
      simp only [xCore]
      split
      · rfl
      · simp only [setCreated_sys]
        rw [sysStep_other_inst _ _ _ hj2, sysStep_other_inst _ _ _ hj]
    | createNull j =>
      have hj : instOf (SysCall.initNew j false .none false) ≠ some i := by simpa [instOfX, instOf] using h
      simp only [xCore]
      split
      · rfl
      · simp only [setCreated_sys]
        rw [sysStep_other_inst _ _ _ hj]
    | hypHold j k e =>
      have hj : instOf (SysCall.dec j (.hyp e)) ≠ some i := by simpa [instOfX, instOf] using h
      simp only [xCore]
      (repeat' split) <;> first | rfl | exact sysStep_other_inst _ _ _ hj
    | jsonHold j k lvl ru r a =>
      have hj : instOf (SysCall.dec j (.json lvl ru r a)) ≠ some i := by simpa [instOfX, instOf] using h
      simp only [xCore]
      (repeat' split) <;> first | rfl | exact sysStep_other_inst _ _ _ hj
    | cmnHold j k =>
      have hj : instOf (SysCall.dec j .getCmn) ≠ some i := by simpa [instOfX, instOf] using h
      simp only [xCore]
      (repeat' split) <;> first | rfl | exact sysStep_other_inst _ _ _ hj
    | iterHold j id k e =>
      simp only [xCore]
      (repeat' split) <;> rfl
    | borrowUse k => simp only [xCore]; split <;> rfl
    | lookupHold j k f =>
      have hj : instOf (SysCall.dec j (.lookup f)) ≠ some i := by simpa [instOfX, instOf] using h
      simp only [xCore]
      (repeat' split) <;> first | rfl | exact sysStep_other_inst _ _ _ hj
    | strUse k => simp only [xCore]; split <;> rfl
    | strFree k => simp only [xCore]; split <;> rfl
    | alProp j k => simp only [xCore]; split <;> rfl
    | cfgValidate t e => simp only [xCore]; (repeat' split) <;> rfl
    | cfgExpand t => simp only [xCore]; split <;> rfl
    | cfgLog t => simp only [xCore]; split <;> rfl
    | cfgParseNew k ok =>
      simp only [xCore]
      (repeat' split) <;> first | rfl | (simp only []; rw [sysStep_other_inst _ _ _ (by simp [instOf]), sysStep_other_inst _ _ _ (by simp [instOf])])
    | cfgSetAny t kt ty safe =>
      simp only [xCore]
      (repeat' split) <;> first | rfl | (simp only [sysStep]; (repeat' split) <;> cases i <;> rfl)

theorem step_search_pure (s : ApiState) (dc : Call) (h : pureQuery dc.kind = true) : (step s dc).1.search = s.search := by
  cases dc <;> simp [pureQuery, Call.kind] at h <;> simp only [step] <;> (repeat' split) <;> first | rfl | simp_all

theorem sysStep_cfgCall_inst (s : Sys) (t : CfgTarget) (kt : KeyType) (op : CfgOp) (safe : Bool) (i : Inst) :
    (sysStep s (.cfgCall t kt op safe)).1.inst i = s.inst i := by
  simp only [sysStep]; (repeat' split) <;> cases i <;> rfl

theorem sysStep_dec_inst (s : Sys) (i : Inst) (dc : Call) :
    (sysStep s (.dec i dc)).1.inst i = s.inst i ∨ (sysStep s (.dec i dc)).1.inst i = (step (s.inst i) dc).1 := by
  by_cases hn : needsSys dc = true
  · left; simp [sysStep, hn]
  · right; simp [sysStep, hn, inst_setInst_eq]

/-- a call of a pure-query kind keeps the search of the decoder it is made on -/
theorem xStep_search_pure (x : XState) (c : XCall) (i : Inst) (hi : instOfX c = some i) (hp : pureQuery c.kind = true) :
    ((xStep x c).1.sys.inst i).search = (x.sys.inst i).search := by
  cases c with
  | base sc cons =>
    cases sc with
    | dec j dc =>
      have : j = i := by simpa [instOfX, instOf] using hi
      subst this
      rcases xStep_dec_inst x j dc cons with h | h <;> rw [h]
      exact step_search_pure _ _ (by simpa [XCall.kind, SysCall.kind] using hp)
    | cfgCall t kt op safe =>
      unfold xStep
      split
      · rfl
      · have hx : xCore x (.base (.cfgCall t kt op safe) cons) = baseStep x (.cfgCall t kt op safe) cons := by unfold xCore; rfl
        rw [hx]
        rcases baseStep_sys x (.cfgCall t kt op safe) cons with ⟨_, h1⟩ | ⟨h1, _⟩
        · rw [h1]
        · rw [h1, sysStep_cfgCall_inst]
    | _ => simp [XCall.kind, SysCall.kind, pureQuery] at hp
  | hypHold j k e =>
    have : j = i := by simpa [instOfX] using hi
    subst this
    have hd := sysStep_dec_inst x.sys j (.hyp e)
    have hs : (step (x.sys.inst j) (.hyp e)).1 = x.sys.inst j := by simp only [step]; split <;> rfl
    rw [hs] at hd
    unfold xStep
    split
    · rfl
    · simp only [xCore]
      (repeat' split) <;> first | rfl | (rcases hd with h | h <;> simp [h])
  | lookupHold j k f =>
    have : j = i := by simpa [instOfX] using hi
    subst this
    have hd := sysStep_dec_inst x.sys j (.lookup f)
    have hs : (step (x.sys.inst j) (.lookup f)).1 = x.sys.inst j := by simp only [step]; split <;> rfl
    rw [hs] at hd
    unfold xStep
    split
    · rfl
    · simp only [xCore]
      (repeat' split) <;> first | rfl | (rcases hd with h | h <;> simp [h])
  | cmnHold j k =>
    have : j = i := by simpa [instOfX] using hi
    subst this
    have hd := sysStep_dec_inst x.sys j .getCmn
    have hs : (step (x.sys.inst j) .getCmn).1 = x.sys.inst j := by simp only [step]; split <;> rfl
    rw [hs] at hd
    unfold xStep
    split
    · rfl
    · simp only [xCore]
      (repeat' split) <;> first | rfl | (rcases hd with h | h <;> simp [h])
  | iterHold j id k e =>
    unfold xStep
    split
    · rfl
    · simp only [xCore]; (repeat' split) <;> rfl
  | cfgValidate t e =>
    unfold xStep
    split
    · rfl
    · simp only [xCore]; (repeat' split) <;> rfl
  | cfgLog t =>
    unfold xStep
    split
    · rfl
    · simp only [xCore]; split <;> rfl
  | _ => simp [XCall.kind, pureQuery] at hp

theorem predict_inst_kind (m : Seen) (w : WordInfo) (ph : PhoneInfo) (c : XCall) :
    instOfX (m.predict w ph c) = instOfX c ∧ (m.predict w ph c).kind = c.kind := by
  unfold Seen.predict; split <;> exact ⟨rfl, rfl⟩

theorem predictIter_inst_kind (rem : List (Nat × Nat)) (c : XCall) :
    instOfX (predictIter rem c) = instOfX c ∧ (predictIter rem c).kind = c.kind := by
  unfold predictIter; split <;> exact ⟨rfl, rfl⟩

theorem pPredict_inst (p : PState) (c : PCall) : instOfX (pPredict p c) = instOfX c.call := by
  unfold pPredict
  split
  · rw [(predictIter_inst_kind _ _).1, (predict_inst_kind _ _ _ _).1]
  · rfl

theorem hyp_ptr_used (s : ApiState) (e : Bool) (h : (step s (.hyp e)).2 = .ptr) : s.search = .used := by
  simp only [step] at h
  split at h
  · cases h
  · by_cases hu : s.search = .used
    · exact hu
    · simp [ptrIf, hu] at h

theorem seg_ptr_used (s : ApiState) (id : Nat) (e : Bool) (h : (step s (.seg id e)).2 = .ptr) : s.search = .used := by
  simp only [step] at h
  split at h
  · cases h
  · by_cases hu : s.search = .used
    · exact hu
    · revert h; simp [hu]; split <;> simp

theorem xStep_dec_ptr_used (x : XState) (j : Inst) (dc : Call) (cons : Bool)
    (hd : ∀ s, (step s dc).2 = .ptr → s.search = .used)
    (h : (xStep x (.base (.dec j dc) cons)).2 = .ptr) : (x.sys.inst j).search = .used := by
  rcases xStep_dec_ret x j dc cons with h' | h'
  · rw [h] at h'; cases h'
  · exact hd _ (by rw [← h', h])

theorem xStep_hypHold_ptr_used (x : XState) (j : Inst) (k : Nat) (e : Bool)
    (h : (xStep x (.hypHold j k e)).2 = .ptr) : (x.sys.inst j).search = .used := by
  have hr : (sysStep x.sys (.dec j (.hyp e))).2 = (step (x.sys.inst j) (.hyp e)).2 := by simp [sysStep, needsSys]
  unfold xStep at h
  split at h
  · cases h
  · simp only [xCore] at h
    (repeat' split at h) <;> first | (cases h; done) | exact hyp_ptr_used _ e (by rw [← hr]; exact h)

/-- belief about results vs. protocol state, one decoder -/
def BelOK (m : Seen) (s : ApiState) : Prop :=
  (m.hyp = some true → s.search = .used) ∧ (m.seg = some true → s.search = .used)

theorem update_belief (m : Seen) (x : XState) (xc : XCall) (j : Inst) (nret fed : Nat) (w : WordInfo)
    (hj : instOfX xc = some j) (hm : BelOK m (x.sys.inst j)) :
    BelOK (m.update xc (xStep x xc).2 false nret fed w) ((xStep x xc).1.sys.inst j) := by
  obtain ⟨h1, h2⟩ := hm
  unfold Seen.update BelOK
  simp only [Bool.false_eq_true, if_false]
  split
  · simp
  · simp
  · simp
  · -- decoder_hyp
    rename_i i' e c
    have : i' = j := by simpa [instOfX, instOf] using hj
    subst this
    have hs := xStep_search_pure x (.base (.dec i' (.hyp e)) c) i' rfl (by simp [XCall.kind, SysCall.kind, Call.kind, pureQuery])
    rw [hs]
    by_cases hp : (xStep x (.base (.dec i' (.hyp e)) c)).2 = .ptr
    · have := xStep_dec_ptr_used x i' (.hyp e) c (fun s h => hyp_ptr_used s e h) hp
      simp [this]
    · simp [hp]; exact h2
  · -- hypHold
    rename_i i' k e
    have : i' = j := by simpa [instOfX] using hj
    subst this
    have hs := xStep_search_pure x (.hypHold i' k e) i' rfl (by simp [XCall.kind, pureQuery])
    rw [hs]
    by_cases hp : (xStep x (.hypHold i' k e)).2 = .ptr
    · have := xStep_hypHold_ptr_used x i' k e hp
      simp [this]
    · simp [hp]; exact h2
  · -- decoder_seg_iter
    rename_i i' id e c
    have : i' = j := by simpa [instOfX, instOf] using hj
    subst this
    have hs := xStep_search_pure x (.base (.dec i' (.seg id e)) c) i' rfl (by simp [XCall.kind, SysCall.kind, Call.kind, pureQuery])
    rw [hs]
    by_cases hp : (xStep x (.base (.dec i' (.seg id e)) c)).2 = .ptr
    · have := xStep_dec_ptr_used x i' (.seg id e) c (fun s h => seg_ptr_used s id e h) hp
      simp [this]
    · simp [hp]
  · split
    · rename_i hpq
      rw [xStep_search_pure x _ j hj hpq]
      exact ⟨h1, h2⟩
    · simp

/-- what the model believes about the results of each decoder is possible in the protocol state of that decoder -/
def BeliefOK (p : PState) : Prop := ∀ i : Inst, BelOK (p.seen i) (p.x.sys.inst i)

theorem beliefOK_p0 : BeliefOK p0 := by intro i; cases i <;> simp [BelOK, p0, PState.seen]

theorem pStep_belief (p : PState) (c : PCall) (h : BeliefOK p) : BeliefOK (pStep p c).1 := by
  unfold pStep
  simp only []
  split
  · exact h
  · split
    · rename_i j hj
      have hj' : instOfX (pPredict p c) = some j := by rw [pPredict_inst]; exact hj
      intro i
      rw [forget_seen, forget_x, setRem_x, setSeen_x, setRem_seen]
      by_cases h0 : ((xStep p.x (pPredict p c)).1.sys.inst i).refs = 0
      · simp [h0, BelOK]
      · simp only [h0, if_false]
        by_cases hij : i = j
        · subst hij
          rw [setSeen_seen]
          exact update_belief _ _ _ _ _ _ _ hj' (h i)
        · rw [setSeen_seen_ne _ _ _ _ hij, xStep_other_inst _ _ _ (by rw [hj']; intro hh; exact hij (Option.some.inj hh).symm)]
          exact h i
    · rename_i hn
      have hn' : instOfX (pPredict p c) = none := by rw [pPredict_inst]; exact hn
      intro i
      rw [forget_seen, forget_x]
      by_cases h0 : ((xStep p.x (pPredict p c)).1.sys.inst i).refs = 0
      · simp [h0, BelOK]
      · simp only [h0, if_false]
        rw [xStep_other_inst _ _ _ (by rw [hn']; simp)]
        exact h i

theorem pRun_belief (cs : List PCall) : ∀ p : PState, BeliefOK p → BeliefOK (pRun p cs) := by
  induction cs with
  | nil => intro p h; exact h
  | cons c cs ih => intro p h; exact ih _ (pStep_belief p c h)

end SSVerif.Protocol
