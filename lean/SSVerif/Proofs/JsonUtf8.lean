import SSVerif.Model.Json
set_option linter.unusedSimpArgs false
/-! C14 helper: `json_escape` neither creates nor destroys UTF-8 well-formedness -/
namespace SSVerif.Json

/-- number of continuation bytes still expected by a UTF-8 decoder (shape check: lead byte classes and
continuation bytes; overlong forms and surrogates are not distinguished — irrelevant here, escaping does not touch
bytes ≥ 0x80) -/
def utf8Step (pending : Nat) (b : UInt8) : Option Nat :=
  if pending = 0 then
    if b < 128 then some 0
    else if 194 ≤ b ∧ b < 224 then some 1
    else if 224 ≤ b ∧ b < 240 then some 2
    else if 240 ≤ b ∧ b < 245 then some 3
    else none
  else if 128 ≤ b ∧ b < 192 then some (pending - 1) else none

def utf8Run : Option Nat → List UInt8 → Option Nat
  | s, [] => s
  | none, _ :: _ => none
  | some p, b :: t => utf8Run (utf8Step p b) t

/-- the byte string is well-formed UTF-8 (by shape) -/
def isUtf8 (l : List UInt8) : Bool := utf8Run (some 0) l == some 0

theorem utf8Run_none (l : List UInt8) : utf8Run none l = none := by
  cases l <;> rfl

theorem utf8Run_append (s : Option Nat) (a b : List UInt8) : utf8Run s (a ++ b) = utf8Run (utf8Run s a) b := by
  induction a generalizing s with
  | nil => rfl
  | cons x t ih =>
    cases s with
    | none => simp [utf8Run, utf8Run_none]
    | some p => simp [utf8Run, ih]

theorem hexDigit_ascii : ∀ k : Nat, k < 32 →
    hexDigit (UInt8.ofNat k >>> 4) < 128 ∧ hexDigit (UInt8.ofNat k &&& 15) < 128 := by decide

/-- one escaped byte drives the decoder exactly like the byte itself -/
theorem utf8Run_escByte (p : Nat) (b : UInt8) : utf8Run (some p) (escByte b) = utf8Step p b := by
  unfold escByte
  by_cases h1 : b = 34 ∨ b = 92
  · rw [if_pos h1]
    rcases h1 with h | h <;> subst h <;> by_cases hp : p = 0 <;> simp [utf8Run, utf8Step, hp] <;> decide
  · rw [if_neg h1]
    by_cases h2 : b < 32
    · rw [if_pos h2]
      have hn : b.toNat < 32 := by simpa using (UInt8.lt_iff_toNat_lt.mp h2)
      have hd := hexDigit_ascii b.toNat hn
      rw [UInt8.ofNat_toNat] at hd
      have hb : b < 128 := by
        apply UInt8.lt_iff_toNat_lt.mpr; simp; omega
      have hnc : ¬ (128 ≤ b ∧ b < 192) := by
        intro hc
        have := UInt8.le_iff_toNat_le.mp hc.1
        simp at this; omega
      by_cases hp : p = 0
      · subst hp
        simp [utf8Run, utf8Step, hb, hd.1, hd.2]
      · have a92 : ¬ ((128 : UInt8) ≤ 92 ∧ (92 : UInt8) < 192) := by decide
        simp [utf8Run, utf8Step, hp, hnc, a92]
    · rw [if_neg h2]
      simp [utf8Run]

/-- **escaping is UTF-8 transparent**: from any decoder state, the escaped spelling leads to the same state (or the
same failure) as the spelling itself; in particular it is well-formed UTF-8 iff the spelling is -/
theorem utf8Run_jsonEscape (s : Option Nat) (w : List UInt8) : utf8Run s (jsonEscape w) = utf8Run s w := by
  induction w generalizing s with
  | nil => rfl
  | cons b t ih =>
    cases s with
    | none => simp [utf8Run_none]
    | some p =>
      rw [jsonEscape, utf8Run_append, utf8Run_escByte, ih]
      rfl

end SSVerif.Json
