import SSVerif.Proofs.AlignPop
namespace SSVerif.Align

theorem childIdx_shift : ∀ (lens : List Nat) (b k : Nat), childIdx (b + k) lens = (childIdx b lens).map (· + k)
  | [], _, _ => rfl
  | n :: ns, b, k => by
    simp only [childIdx, List.map_cons]
    have : b + k + n = (b + n) + k := by omega
    rw [this, childIdx_shift ns (b + n) k]

theorem childrenOf_drop (level : List Entry) (i n x : Nat) :
    childrenOf level i (n + x) = childrenOf (level.drop n) i x := by
  simp [childrenOf, List.drop_drop]

theorem takeWhile_block (off : Nat) : ∀ (cs rest : List Entry), (∀ c ∈ cs, c.parent = off) →
    (∀ e, rest.head? = some e → e.parent ≠ off) →
    (cs ++ rest).takeWhile (fun x => x.parent == off) = cs
  | [], rest, _, hr => by
    cases rest with
    | nil => rfl
    | cons e r =>
      have := hr e rfl
      simp [this]
  | c :: cs, rest, hc, hr => by
    have h1 : c.parent = off := hc c (List.mem_cons_self ..)
    simp only [List.cons_append, List.takeWhile, h1, beq_self_eq_true]
    rw [takeWhile_block off cs rest (fun x hx => hc x (List.mem_cons_of_mem _ hx)) hr]

theorem patternFrom_head (off : Nat) : ∀ (lens : List Nat), (∀ n ∈ lens, 0 < n) →
    ∀ e, (patternFrom off lens).head? = some e → e = off
  | [], _, e, h => by simp [patternFrom] at h
  | n :: ns, hpos, e, h => by
    have hn : 0 < n := hpos n (List.mem_cons_self ..)
    obtain ⟨m, rfl⟩ : ∃ m, n = m + 1 := ⟨n - 1, by omega⟩
    simp [patternFrom, List.replicate_succ] at h
    exact h.symm

/-- **children through the iterator API are the blocks.** -/
theorem childrenOf_blocks : ∀ (lens : List Nat) (off : Nat) (level : List Entry) (i : Nat),
    level.map (·.parent) = patternFrom off lens → (∀ n ∈ lens, 0 < n) → (h : i < lens.length) →
    childrenOf level (off + i) ((childIdx 0 lens).getD i 0) = (splitLens lens level).getD i []
  | [], _, _, _, _, _, h => by simp at h
  | n :: ns, off, level, i, hpat, hpos, h => by
    obtain ⟨h1, h2, h3⟩ := map_eq_replicate_append (by simpa [patternFrom] using hpat)
    have hn : 0 < n := hpos n (List.mem_cons_self ..)
    cases i with
    | zero =>
      simp only [childIdx, List.getD_cons_zero, splitLens, Nat.add_zero]
      cases hb : level.take n with
      | nil => rw [hb] at h1; simp at h1; omega
      | cons c cs =>
        have hsplit : level = (c :: cs) ++ level.drop n := by rw [← hb, List.take_append_drop]
        rw [hb] at h2
        have hc : c.parent = off := h2 c (List.mem_cons_self ..)
        have key : (cs ++ level.drop n).takeWhile (fun x => x.parent == off) = cs := by
          apply takeWhile_block off cs _ (fun x hx => h2 x (List.mem_cons_of_mem _ hx))
          intro e he
          have : ((level.drop n).map (·.parent)).head? = some e.parent := by
            cases hd : level.drop n with
            | nil => rw [hd] at he; simp at he
            | cons x xs => rw [hd] at he; simp at he; simp [he]
          rw [h3] at this
          have := patternFrom_head (off + 1) ns (fun m hm => hpos m (List.mem_cons_of_mem _ hm)) _ this
          omega
        have e0 : childrenOf level off 0 = childrenOf ((c :: cs) ++ level.drop n) off 0 := by rw [← hsplit]
        rw [e0]
        simp [childrenOf, key]
    | succ i =>
      have hi : i < ns.length := by simpa using h
      simp only [childIdx, List.getD_cons_succ, splitLens]
      have e1 : (childIdx (0 + n) ns).getD i 0 = n + (childIdx 0 ns).getD i 0 := by
        have := childIdx_shift ns 0 n
        rw [this]
        have hl : i < (childIdx 0 ns).length := by
          have : ∀ (l : List Nat) (b : Nat), (childIdx b l).length = l.length := by
            intro l; induction l with
            | nil => intro _; rfl
            | cons a l ih => intro b; simp [childIdx, ih]
          rw [this]; exact hi
        simp [List.getD_eq_getElem?_getD, hl, Nat.add_comm]
      rw [e1, childrenOf_drop]
      have := childrenOf_blocks ns (off + 1) (level.drop n) i h3 (fun m hm => hpos m (List.mem_cons_of_mem _ hm)) hi
      have e2 : off + (i + 1) = off + 1 + i := by omega
      rw [e2]; exact this

end SSVerif.Align
