import SSVerif.Proofs.LatticeBuildNodes
/-! `findStartEnd` (`find_start_node`, `find_end_node`) without folds: the explicit shape `EndsShape`. -/
namespace SSVerif.Lattice
open SSVerif.Nfa
namespace BuildShape

def lastEfOf (b : Build) : Int := b.nodes.foldl (fun m a => max m (a.lef : Int)) (-1)

def scOf (b : Build) : List Nat :=
  candidates b fun v a => a.sf = 0 ∧ (hasExit b v ∨ (a.lef : Int) = lastEfOf b)

def startStep (b : Build) (wS : Nat) : Build × Nat :=
  match scOf b with
  | [v] => (b, v)
  | _ =>
    let s := b.nodes.size
    let b' := { b with nodes := b.nodes.push ⟨wS, 0, 0, 0, none, 0⟩ }
    ((scOf b).foldl (fun b v => latticeLink b s v 0 0) b', s)

def ecOf (b : Build) (lastEf : Int) (start : Nat) : List Nat :=
  candidates b fun v a => (a.lef : Int) = lastEf ∧ (hasEntry b v ∨ v = start)

def fallback (b : Build) : Option Nat × Nat :=
  (candidates b fun v _ => hasEntry b v).foldl
    (fun (acc : Option Nat × Nat) v =>
      let a := b.nodes.getD v default
      if a.lef > acc.2 then (some v, a.lef) else acc) (none, 0)

def endStep (b : Build) (lastEf : Int) (start frame wE : Nat) : Option BuildResult :=
  match ecOf b lastEf start with
  | [v] => some ⟨b, start, v⟩
  | [] => (fallback b).1.map fun v => ⟨b, start, v⟩
  | _ =>
    let e := b.nodes.size
    let b' := { b with nodes := b.nodes.push ⟨wE, frame, frame, frame, none, 0⟩ }
    some ⟨(ecOf b lastEf start).foldl (fun b v => latticeLink b v e (b.nodes.getD v default).bestExit frame) b', start, e⟩

theorem findStartEnd_eq (b : Build) (frame wS wE : Nat) :
    findStartEnd b frame wS wE = endStep (startStep b wS).1 (lastEfOf b) (startStep b wS).2 frame wE := by
  unfold findStartEnd
  rfl

/-! ### the frame of the last word exit -/

theorem foldl_maxI (l : List BNode) : ∀ m : Int,
    m ≤ l.foldl (fun m a => max m (a.lef : Int)) m ∧
    (∀ a ∈ l, (a.lef : Int) ≤ l.foldl (fun m a => max m (a.lef : Int)) m) ∧
    (l.foldl (fun m a => max m (a.lef : Int)) m = m ∨ ∃ a ∈ l, (a.lef : Int) = l.foldl (fun m a => max m (a.lef : Int)) m) := by
  induction l with
  | nil => intro m; simp
  | cons x xs ih =>
    intro m
    simp only [List.foldl_cons]
    obtain ⟨h1, h2, h3⟩ := ih (max m (x.lef : Int))
    refine ⟨by omega, ?_, ?_⟩
    · intro a ha
      rcases List.mem_cons.1 ha with rfl | ha
      · omega
      · exact h2 a ha
    · rcases h3 with h | ⟨a, ha, h⟩
      · by_cases hm : (x.lef : Int) ≤ m
        · left; rw [h]; omega
        · right; exact ⟨x, List.mem_cons_self, by rw [h]; omega⟩
      · right; exact ⟨a, List.mem_cons_of_mem _ ha, h⟩

theorem lastEf_ub (b : Build) (v : Nat) (hv : v < b.nodes.size) : ((b.node v).lef : Int) ≤ lastEfOf b := by
  unfold lastEfOf
  rw [← Array.foldl_toList]
  rw [BuildNodes.node_lt b v hv]
  exact (foldl_maxI b.nodes.toList (-1)).2.1 _ (Array.getElem_mem_toList hv)

theorem lastEf_att (b : Build) :
    (b.nodes.size = 0 ∧ lastEfOf b = -1) ∨ ∃ v, v < b.nodes.size ∧ ((b.node v).lef : Int) = lastEfOf b := by
  have h := (foldl_maxI b.nodes.toList (-1)).2.2
  rw [Array.foldl_toList] at h
  rcases h with h | ⟨a, ha, h⟩
  · by_cases h0 : b.nodes.size = 0
    · exact Or.inl ⟨h0, h⟩
    · have := lastEf_ub b 0 (by omega)
      unfold lastEfOf at this
      omega
  · right
    obtain ⟨i, hi, rfl⟩ := List.mem_iff_getElem.1 ha
    have hi' : i < b.nodes.size := by simpa using hi
    refine ⟨i, hi', ?_⟩
    rw [BuildNodes.node_lt b i hi']
    rw [Array.getElem_toList] at h
    exact h

/-! ### candidates, exits, entries -/

theorem candidates_nodup (b : Build) (p : Nat → BNode → Bool) : (candidates b p).Nodup := by
  unfold candidates
  apply List.Pairwise.filter
  rw [List.pairwise_reverse]
  exact (List.nodup_range (n := b.nodes.size)).imp (fun h => fun e => h e.symm)

theorem mem_candidates (b : Build) (p : Nat → BNode → Bool) (v : Nat) :
    v ∈ candidates b p ↔ v < b.nodes.size ∧ p v (b.node v) = true := by
  unfold candidates Build.node
  simp only [List.mem_filter, List.mem_reverse, List.mem_range]

theorem hasExit_iff (b : Build) (v : Nat) : hasExit b v = true ↔ ∃ l ∈ b.links.toList, l.src = v := by
  unfold hasExit
  rw [← Array.any_toList, List.any_eq_true]
  simp only [decide_eq_true_eq]

theorem hasEntry_iff (b : Build) (v : Nat) : hasEntry b v = true ↔ ∃ l ∈ b.links.toList, l.dst = v := by
  unfold hasEntry
  rw [← Array.any_toList, List.any_eq_true]
  simp only [decide_eq_true_eq]

/-! ### links to fresh pairs are appended -/

theorem latticeLink_fresh (b : Build) (src dst : Nat) (a : Int) (e : Nat)
    (h : ∀ l ∈ b.links.toList, ¬(l.src = src ∧ l.dst = dst)) :
    latticeLink b src dst a e = { b with links := b.links.push ⟨src, dst, e, a⟩ } := by
  unfold latticeLink
  have : b.links.findIdx? (fun l => decide (l.src = src ∧ l.dst = dst)) = none := by
    rw [Array.findIdx?_eq_none_iff]
    intro x hx
    have := h x (Array.mem_def.1 hx)
    simpa using this
  rw [this]

theorem startFold (s : Nat) : ∀ (vs : List Nat) (b : Build), vs.Nodup →
    (∀ l ∈ b.links.toList, l.src ≠ s) →
    (vs.foldl (fun b v => latticeLink b s v 0 0) b).nodes = b.nodes ∧
    (vs.foldl (fun b v => latticeLink b s v 0 0) b).links.toList =
      b.links.toList ++ vs.map fun v => (⟨s, v, 0, 0⟩ : BLink) := by
  intro vs
  -- generalise: links of `b` with source `s` point outside `vs`
  suffices H : ∀ (vs : List Nat) (b : Build), vs.Nodup →
      (∀ l ∈ b.links.toList, l.src = s → l.dst ∉ vs) →
      (vs.foldl (fun b v => latticeLink b s v 0 0) b).nodes = b.nodes ∧
      (vs.foldl (fun b v => latticeLink b s v 0 0) b).links.toList =
        b.links.toList ++ vs.map fun v => (⟨s, v, 0, 0⟩ : BLink) by
    intro b hnd hs
    exact H vs b hnd (fun l hl h => absurd h (hs l hl))
  intro vs
  induction vs with
  | nil => intro b _ _; simp
  | cons v vs ih =>
    intro b hnd hs
    simp only [List.foldl_cons]
    have hfresh : ∀ l ∈ b.links.toList, ¬(l.src = s ∧ l.dst = v) := by
      intro l hl h
      exact hs l hl h.1 (h.2 ▸ List.mem_cons_self)
    rw [latticeLink_fresh b s v 0 0 hfresh]
    have hnd' := (List.nodup_cons.1 hnd)
    obtain ⟨h1, h2⟩ := ih { b with links := b.links.push ⟨s, v, 0, 0⟩ } hnd'.2 (by
      intro l hl hls
      simp only [Array.toList_push, List.mem_append, List.mem_singleton] at hl
      rcases hl with hl | rfl
      · intro hm; exact hs l hl hls (List.mem_cons_of_mem _ hm)
      · exact hnd'.1)
    refine ⟨h1, ?_⟩
    rw [h2]
    simp [Array.toList_push]

theorem endFold (e frame : Nat) (sc' : Nat → Int) : ∀ (vs : List Nat) (b : Build), vs.Nodup →
    (∀ l ∈ b.links.toList, l.dst = e → l.src ∉ vs) →
    (∀ v, (b.nodes.getD v default).bestExit = sc' v) →
    (vs.foldl (fun b v => latticeLink b v e (b.nodes.getD v default).bestExit frame) b).nodes = b.nodes ∧
    (vs.foldl (fun b v => latticeLink b v e (b.nodes.getD v default).bestExit frame) b).links.toList =
      b.links.toList ++ vs.map fun v => (⟨v, e, frame, sc' v⟩ : BLink) := by
  intro vs
  induction vs with
  | nil => intro b _ _ _; simp
  | cons v vs ih =>
    intro b hnd hs hsc
    simp only [List.foldl_cons]
    have hfresh : ∀ l ∈ b.links.toList, ¬(l.src = v ∧ l.dst = e) := by
      intro l hl h
      exact hs l hl h.2 (h.1 ▸ List.mem_cons_self)
    rw [latticeLink_fresh b v e _ frame hfresh]
    have hnd' := (List.nodup_cons.1 hnd)
    obtain ⟨h1, h2⟩ := ih { b with links := b.links.push ⟨v, e, frame, (b.nodes.getD v default).bestExit⟩ } hnd'.2 (by
      intro l hl hld
      simp only [Array.toList_push, List.mem_append, List.mem_singleton] at hl
      rcases hl with hl | rfl
      · intro hm; exact hs l hl hld (List.mem_cons_of_mem _ hm)
      · exact hnd'.1) hsc
    refine ⟨h1, ?_⟩
    rw [h2, hsc v]
    simp [Array.toList_push]

/-! ### the fallback end node -/

theorem fallbackFold (b : Build) : ∀ (vs : List Nat) (acc : Option Nat × Nat) (v : Nat),
    (vs.foldl (fun (acc : Option Nat × Nat) v =>
      let a := b.nodes.getD v default
      if a.lef > acc.2 then (some v, a.lef) else acc) acc).1 = some v → acc.1 = some v ∨ v ∈ vs := by
  intro vs
  induction vs with
  | nil => intro acc v h; exact Or.inl h
  | cons x xs ih =>
    intro acc v h
    simp only [List.foldl_cons] at h
    rcases ih _ v h with h' | h'
    · split at h'
      · simp only [Option.some.injEq] at h'; subst h'; exact Or.inr List.mem_cons_self
      · exact Or.inl h'
    · exact Or.inr (List.mem_cons_of_mem _ h')

/-! ### the two steps -/

theorem startStep_spec (b0 : Build) (wS : Nat) (hl : ∀ l ∈ b0.links.toList, l.src < b0.nodes.size ∧ l.dst < b0.nodes.size) :
    (scOf b0 = [(startStep b0 wS).2] ∧ (startStep b0 wS).1 = b0) ∨
    ((∀ v, scOf b0 ≠ [v]) ∧ (startStep b0 wS).2 = b0.nodes.size ∧
      (startStep b0 wS).1.nodes = b0.nodes.push ⟨wS, 0, 0, 0, none, 0⟩ ∧
      (startStep b0 wS).1.links.toList = b0.links.toList ++ (scOf b0).map fun v => (⟨b0.nodes.size, v, 0, 0⟩ : BLink)) := by
  unfold startStep
  split
  · rename_i v heq
    exact Or.inl ⟨heq, rfl⟩
  · rename_i hne
    right
    refine ⟨fun v hv => hne v hv, rfl, ?_⟩
    have := startFold b0.nodes.size (scOf b0) { b0 with nodes := b0.nodes.push ⟨wS, 0, 0, 0, none, 0⟩ }
      (candidates_nodup _ _) (by
        intro l hl' h
        have := (hl l hl').1
        omega)
    exact this

theorem endStep_spec (b1 : Build) (lastEf : Int) (start frame wE : Nat) (R : BuildResult)
    (hd : ∀ l ∈ b1.links.toList, l.dst < b1.nodes.size)
    (h : endStep b1 lastEf start frame wE = some R) :
    R.start = start ∧
    ((ecOf b1 lastEf start = [R.final] ∧ R.b = b1) ∨
     (ecOf b1 lastEf start = [] ∧ R.b = b1 ∧ R.final < b1.nodes.size ∧ ∃ l ∈ b1.links.toList, l.dst = R.final) ∨
     (2 ≤ (ecOf b1 lastEf start).length ∧ R.final = b1.nodes.size ∧
       R.b.nodes = b1.nodes.push ⟨wE, frame, frame, frame, none, 0⟩ ∧
       ∃ sc' : Nat → Int, R.b.links.toList =
         b1.links.toList ++ (ecOf b1 lastEf start).map fun v => (⟨v, b1.nodes.size, frame, sc' v⟩ : BLink))) := by
  unfold endStep at h
  split at h
  · rename_i v heq
    simp only [Option.some.injEq] at h
    subst h
    exact ⟨rfl, Or.inl ⟨heq, rfl⟩⟩
  · rename_i heq
    cases hfb : (fallback b1).1 with
    | none => rw [hfb] at h; simp at h
    | some v =>
      rw [hfb] at h
      simp only [Option.map_some, Option.some.injEq] at h
      subst h
      refine ⟨rfl, Or.inr (Or.inl ⟨heq, rfl, ?_⟩)⟩
      unfold fallback at hfb
      rcases fallbackFold b1 _ _ v hfb with h' | h'
      · cases h'
      · have := (mem_candidates b1 _ v).1 h'
        exact ⟨this.1, (hasEntry_iff b1 v).1 this.2⟩
  · rename_i hne1 hne0
    simp only [Option.some.injEq] at h
    subst h
    refine ⟨rfl, Or.inr (Or.inr ⟨?_, rfl, ?_⟩)⟩
    · match hec : ecOf b1 lastEf start with
      | [] => exact absurd hec hne0
      | [v] => exact absurd hec (hne1 v)
      | _ :: _ :: _ => simp
    · have := endFold b1.nodes.size frame
        (fun v => (({ b1 with nodes := b1.nodes.push ⟨wE, frame, frame, frame, none, 0⟩ } : Build).nodes.getD v default).bestExit)
        (ecOf b1 lastEf start) { b1 with nodes := b1.nodes.push ⟨wE, frame, frame, frame, none, 0⟩ }
        (candidates_nodup _ _) (by
          intro l hl' h
          have := hd l hl'
          omega) (fun _ => rfl)
      exact ⟨this.1, _, this.2⟩

end BuildShape

/-- `findStartEnd` without folds: what it computed when it returned a result -/
theorem findStartEnd_shape (b0 : Build) (frame wS wE : Nat) (R : BuildResult)
    (hl : ∀ l ∈ b0.links.toList, l.src < b0.nodes.size ∧ l.dst < b0.nodes.size)
    (h : findStartEnd b0 frame wS wE = some R) :
    ∃ lastEf sc ec b1, EndsShape b0 frame wS wE R lastEf sc ec b1 := by
  open BuildShape in
  rw [findStartEnd_eq] at h
  have hs := startStep_spec b0 wS hl
  have hscmem : ∀ v, v ∈ scOf b0 ↔ v < b0.nodes.size ∧ (b0.node v).sf = 0 ∧
      ((∃ l ∈ b0.links.toList, l.src = v) ∨ ((b0.node v).lef : Int) = lastEfOf b0) := by
    intro v
    unfold scOf
    rw [mem_candidates]
    simp only [decide_eq_true_eq, hasExit_iff]
  have hd1 : ∀ l ∈ (startStep b0 wS).1.links.toList, l.dst < (startStep b0 wS).1.nodes.size := by
    rcases hs with ⟨_, h2⟩ | ⟨_, _, h3, h4⟩
    · rw [h2]; intro l hl'; exact (hl l hl').2
    · rw [h3, h4]
      intro l hl'
      simp only [Array.size_push]
      rcases List.mem_append.1 hl' with h' | h'
      · have := (hl l h').2; omega
      · obtain ⟨v, hv, rfl⟩ := List.mem_map.1 h'
        have := ((hscmem v).1 hv).1
        show v < _
        omega
  obtain ⟨he1, he2⟩ := endStep_spec _ _ _ _ _ R hd1 h
  refine ⟨lastEfOf b0, scOf b0, ecOf (startStep b0 wS).1 (lastEfOf b0) (startStep b0 wS).2, (startStep b0 wS).1, ?_⟩
  refine ⟨lastEf_ub b0, lastEf_att b0, candidates_nodup _ _, hscmem, ?_, candidates_nodup _ _, ?_, he2⟩
  · rw [he1]; exact hs
  · intro v
    unfold ecOf
    rw [mem_candidates, he1]
    simp only [decide_eq_true_eq, hasEntry_iff]
end SSVerif.Lattice
