import SSVerif.Model.FeBuf
/-!
# Naturality of the front-end index model (M4)

The model is polymorphic in the sample type.  These lemmas make the parametricity argument formal:
applying any function `f` to the samples of every chunk commutes with every operation of the model,
hence with a whole run.  Instantiated with `f := x`, the value of the signal at an index, it transfers
the theorems proved over index samples to every concrete signal.
-/
namespace SSVerif.FeBuf
open List

variable {α β : Type}

def Frame.map (f : α → β) (fr : Frame α) : Frame β := { win := fr.win.map f, prior := fr.prior.map f }

def Fe.map (f : α → β) (fe : Fe α) : Fe β :=
  { ovf := fe.ovf.map f, nOvf := fe.nOvf, spch := fe.spch.map f, prior := fe.prior.map f,
    out := fe.out.map (Frame.map f) }

theorem rd_map (f : α → β) (buf : List α) (a n : Nat) :
    rd (buf.map f) a n = (rd buf a n).map (List.map f) := by
  unfold rd
  rw [length_map]
  split <;> simp [List.map_take, List.map_drop]

theorem spchToFrame_map (f : α → β) (c : Cfg) (fe : Fe α) (len : Nat) :
    spchToFrame c (fe.map f) len = (spchToFrame c fe len).map f := by
  simp only [spchToFrame, Fe.map, Frame.map, List.map_append, List.map_take, List.map_cons, List.map_nil]
  congr 1
  split <;> simp

theorem readFrame_map (f : α → β) (c : Cfg) (fe : Fe α) (xs : List α) :
    readFrame c (fe.map f) (xs.map f) = (readFrame c fe xs).map f := by
  unfold readFrame
  rw [length_map, ← spchToFrame_map]
  rfl

theorem shiftFrame_map (f : α → β) (c : Cfg) (fe : Fe α) (xs : List α) :
    shiftFrame c (fe.map f) (xs.map f) = (shiftFrame c fe xs).map f := by
  unfold shiftFrame
  simp only [length_map]
  rw [← spchToFrame_map]
  simp [Fe.map, List.map_take, List.map_drop]


@[simp] theorem Fe.map_nOvf (f : α → β) (fe : Fe α) : (fe.map f).nOvf = fe.nOvf := rfl
@[simp] theorem Fe.map_ovf (f : α → β) (fe : Fe α) : (fe.map f).ovf = fe.ovf.map f := rfl

theorem outputFrameCount_map (f : α → β) (c : Cfg) (fe : Fe α) (n : Nat) :
    outputFrameCount c (fe.map f) n = outputFrameCount c fe n := rfl

theorem overflowAppend_map (f : α → β) (fe : Fe α) (buf : List α) :
    overflowAppend (fe.map f) (buf.map f) = (overflowAppend fe buf).map f := by
  unfold overflowAppend
  rw [length_map]
  split
  · rfl
  · simp [Fe.map, List.map_take]

/-- lift a function over the result of the helpers that return a state and a count -/
def mapFst (f : α → β) (x : Fe α × Nat) : Fe β × Nat := (x.1.map f, x.2)

theorem readOverflowFrame_map (f : α → β) (c : Cfg) (fe : Fe α) (buf : List α) :
    readOverflowFrame c (fe.map f) (buf.map f) = (readOverflowFrame c fe buf).map (mapFst f) := by
  simp only [readOverflowFrame, Fe.map_nOvf, Fe.map_ovf, rd_map]
  split
  · rfl
  · cases h1 : rd fe.ovf 0 fe.nOvf.toNat with
    | none => rfl
    | some old =>
      cases h2 : rd buf 0 ((c.size : Int) - fe.nOvf).toNat with
      | none => rfl
      | some xs =>
        simp only [Option.map_some, Option.bind_some, ← List.map_append, rd_map]
        cases h3 : rd (old ++ xs) 0 c.size with
        | none => rfl
        | some w =>
          simp only [Option.map_some, mapFst]
          have key := readFrame_map f c { fe with ovf := old ++ xs } w
          change some (({ readFrame c (Fe.map f { fe with ovf := old ++ xs }) (w.map f) with
              nOvf := (readFrame c (Fe.map f { fe with ovf := old ++ xs }) (w.map f)).nOvf - c.shift } : Fe β), _) = _
          rw [key]; rfl


theorem shiftLoop_map (f : α → β) (c : Cfg) (buf : List α) :
    ∀ (n : Nat) (fe : Fe α) (p : Nat),
      shiftLoop c (buf.map f) n (fe.map f) p = (shiftLoop c buf n fe p).map (mapFst f) := by
  intro n
  induction n with
  | zero => intro fe p; rfl
  | succ n ih =>
    intro fe p
    simp only [shiftLoop, rd_map]
    cases h : rd buf p c.shift with
    | none => rfl
    | some xs =>
      simp only [Option.map_some, Option.bind_some]
      have key := shiftFrame_map f c fe xs
      rw [← ih]
      congr 1
      rw [key]; rfl

theorem createOverflowFrame_map (f : α → β) (c : Cfg) (fe : Fe α) (buf : List α) (p : Nat) :
    createOverflowFrame c (fe.map f) (buf.map f) p = (createOverflowFrame c fe buf p).map (mapFst f) := by
  simp only [createOverflowFrame, length_map, rd_map]
  split
  · split
    · rfl
    · cases rd buf (p - (c.size - c.shift)) (c.size - c.shift + min (c.shift - c.slack) (buf.length - p)) with
      | none => rfl
      | some xs => rfl
  · rfl

theorem appendOverflowFrame_map (f : α → β) (c : Cfg) (fe : Fe α) (buf : List α) (p : Nat) (origN : Int) :
    appendOverflowFrame c (fe.map f) (buf.map f) p origN = (appendOverflowFrame c fe buf p origN).map (mapFst f) := by
  simp only [appendOverflowFrame, length_map, rd_map, Fe.map_nOvf, Fe.map_ovf]
  split
  · rfl
  · cases rd fe.ovf (origN - fe.nOvf).toNat fe.nOvf.toNat with
    | none => rfl
    | some moved =>
      simp only [Option.map_some, Option.bind_some]
      cases rd buf 0 (min buf.length ((c.size : Int) - fe.nOvf - c.slack).toNat) with
      | none => rfl
      | some xs => simp [mapFst, Fe.map]

/-- lift a function over the result of `process` -/
def mapProc (f : α → β) (x : Fe α × Nat × Nat) : Fe β × Nat × Nat := (x.1.map f, x.2)

theorem process_tail_map (f : α → β) (c : Cfg) (buf : List α) (t fc : Nat) (origN : Int)
    (r1 : Option (Fe α × Nat)) :
    ((r1.map (mapFst f)).bind fun x => (shiftLoop c (buf.map f) t x.fst x.snd).bind fun x =>
        Option.map (fun x => (x.fst, x.snd, fc))
          (if x.fst.nOvf ≤ 0 then createOverflowFrame c x.fst (buf.map f) x.snd
           else appendOverflowFrame c x.fst (buf.map f) x.snd origN))
    = Option.map (mapProc f) (r1.bind fun x => (shiftLoop c buf t x.fst x.snd).bind fun x =>
        Option.map (fun x => (x.fst, x.snd, fc))
          (if x.fst.nOvf ≤ 0 then createOverflowFrame c x.fst buf x.snd
           else appendOverflowFrame c x.fst buf x.snd origN)) := by
  cases r1 with
  | none => rfl
  | some x1 =>
    simp only [Option.map_some, Option.bind_some, mapFst, shiftLoop_map]
    generalize shiftLoop c buf t x1.fst x1.snd = r2
    cases r2 with
    | none => rfl
    | some x2 =>
      simp only [Option.map_some, Option.bind_some, mapFst, Fe.map_nOvf,
        createOverflowFrame_map, appendOverflowFrame_map]
      split
      · cases createOverflowFrame c x2.fst buf x2.snd with
        | none => rfl
        | some x3 => rfl
      · cases appendOverflowFrame c x2.fst buf x2.snd origN with
        | none => rfl
        | some x3 => rfl

theorem process_map (f : α → β) (c : Cfg) (fe : Fe α) (buf : List α) (nframes : Nat) :
    process c (fe.map f) (buf.map f) nframes = (process c fe buf nframes).map (mapProc f) := by
  by_cases hA : (buf.length : Int) + fe.nOvf < c.size
  · simp only [process, length_map, Fe.map_nOvf, hA, if_true]
    simp [mapProc, overflowAppend_map]
  · by_cases hL : nframes < 1
    · simp only [process, length_map, Fe.map_nOvf, hA, hL, if_true, if_false]
      rfl
    · have hfirst : ∃ r1, (if fe.nOvf ≠ 0 then readOverflowFrame c fe buf
             else Option.map (fun w => (readFrame c fe w, c.size)) (rd buf 0 c.size)) = r1 ∧
          (if fe.nOvf ≠ 0 then readOverflowFrame c (Fe.map f fe) (map f buf)
          else Option.map (fun w => (readFrame c (Fe.map f fe) w, c.size)) (rd (map f buf) 0 c.size))
          = r1.map (mapFst f) := by
        refine ⟨_, rfl, ?_⟩
        by_cases h0 : fe.nOvf ≠ 0
        · rw [if_pos h0, if_pos h0]; exact readOverflowFrame_map f c fe buf
        · rw [if_neg h0, if_neg h0, rd_map]
          cases rd buf 0 c.size with
          | none => rfl
          | some w => simp [mapFst, readFrame_map]
      obtain ⟨r1, h1, h2⟩ := hfirst
      by_cases h0 : fe.nOvf ≠ 0
      · rw [if_pos h0] at h1 h2
        simp only [process, length_map, Fe.map_nOvf, hA, hL, h0, if_true, if_false, not_false_eq_true, ne_eq]
        rw [h1, h2]
        exact process_tail_map f c buf _ _ _ r1
      · rw [if_neg h0] at h1 h2
        simp only [process, length_map, Fe.map_nOvf, hA, hL, if_false]
        simp only [ne_eq, Decidable.not_not] at h0
        simp only [h0, ne_eq, not_true_eq_false, if_false]
        rw [h1, h2]
        exact process_tail_map f c buf _ _ _ r1


theorem finish_map (f : α → β) (c : Cfg) (fe : Fe α) (nframes : Nat) :
    finish c (fe.map f) nframes = (finish c fe nframes).map (mapFst f) := by
  simp only [finish, Fe.map_nOvf, Fe.map_ovf, rd_map]
  split
  · cases rd fe.ovf 0 (min fe.nOvf.toNat c.size) with
    | none => rfl
    | some w =>
      simp only [Option.map_some, mapFst]
      rw [readFrame_map]; rfl
  · rfl

/-- lift a function over the result of `feedChunk` -/
def mapChunk (f : α → β) (x : Fe α × List CallLog × List α) : Fe β × List CallLog × List β :=
  (x.1.map f, x.2.1, x.2.2.map f)

theorem feedChunk_map (f : α → β) (c : Cfg) :
    ∀ (ls : List Nat) (fe : Fe α) (buf : List α),
      feedChunk c (fe.map f) (buf.map f) ls = (feedChunk c fe buf ls).map (mapChunk f) := by
  intro ls
  induction ls with
  | nil =>
    intro fe buf
    simp only [feedChunk, length_map, outputFrameCount_map, process_map]
    split
    · rfl
    · cases process c fe buf (outputFrameCount c fe buf.length) with
      | none => rfl
      | some x => simp [mapChunk, mapProc, List.map_drop]
  | cons l ls ih =>
    intro fe buf
    simp only [feedChunk, length_map, outputFrameCount_map, process_map]
    cases process c fe buf l with
    | none => rfl
    | some x =>
      simp only [Option.map_some, Option.bind_some, mapProc, ← List.map_drop, ih]
      cases feedChunk c x.fst (drop x.snd.fst buf) ls with
      | none => rfl
      | some y => rfl

def RunResult.map (f : α → β) (r : RunResult α) : RunResult β :=
  { fe := r.fe.map f, calls := r.calls, left := r.left }

/-- apply a function to the samples of every chunk -/
def mapChunks (f : α → β) (chunks : List (List α × List Nat)) : List (List β × List Nat) :=
  chunks.map fun x => (x.1.map f, x.2)

theorem feedAll_map (f : α → β) (c : Cfg) :
    ∀ (chunks : List (List α × List Nat)) (fe : Fe α),
      feedAll c (fe.map f) (mapChunks f chunks) = (feedAll c fe chunks).map (RunResult.map f) := by
  intro chunks
  induction chunks with
  | nil => intro fe; rfl
  | cons ch rest ih =>
    intro fe
    obtain ⟨buf, ls⟩ := ch
    simp only [mapChunks, List.map_cons, feedAll, feedChunk_map]
    cases feedChunk c fe buf ls with
    | none => rfl
    | some x =>
      simp only [Option.map_some, Option.bind_some, mapChunk]
      have := ih x.fst
      simp only [mapChunks] at this
      rw [this]
      cases feedAll c x.fst rest with
      | none => rfl
      | some r => simp [RunResult.map]

/-- **naturality of the whole model**: renaming the samples commutes with running the front end -/
theorem run_map (f : α → β) (c : Cfg) (chunks : List (List α × List Nat)) (endRoom : Nat) :
    run c (mapChunks f chunks) endRoom = (run c chunks endRoom).map (fun x => (x.1.map f, x.2)) := by
  simp only [run]
  have h := feedAll_map f c chunks start
  rw [show (Fe.map f (start : Fe α)) = (start : Fe β) from rfl] at h
  rw [h]
  cases feedAll c start chunks with
  | none => rfl
  | some r =>
    simp only [Option.map_some, Option.bind_some, RunResult.map, finish_map]
    cases finish c r.fe endRoom with
    | none => rfl
    | some y => rfl

end SSVerif.FeBuf
