import SSVerif.Proofs.FlatNet
import SSVerif.Proofs.Beam
/-! Every network `FlatNet.build` produces is well-formed and its labels are consistent with the FSG —
for every model (grammar, dictionary, tables), not per run. Core Lean only. -/
namespace SSVerif.FlatNet
open SSVerif.Viterbi SSVerif.Hmm SSVerif.Nfa

/-- what every instance of `allInsts` satisfies -/
def InstOK (M : Model) (h : Inst) : Prop :=
  isWordArc M h.arc = true ∧ h.src = (arcAt M h.arc).src ∧ h.dst = (arcAt M h.arc).dst

theorem optFlatten_mem : ∀ (ls : List (Option (List Inst))) (r : List Inst), optFlatten ls = some r →
    ∀ h ∈ r, ∃ l, some l ∈ ls ∧ h ∈ l := by
  intro ls
  induction ls with
  | nil => intro r hr h hh; simp only [optFlatten, Option.some.injEq] at hr; subst hr; cases hh
  | cons x xs ih =>
    intro r hr h hh
    cases x with
    | none => simp [optFlatten] at hr
    | some l =>
      simp only [optFlatten] at hr
      cases hx : optFlatten xs with
      | none => rw [hx] at hr; cases hr
      | some r' =>
        rw [hx] at hr
        simp only [Option.map_some, Option.some.injEq] at hr
        subst hr
        rcases List.mem_append.mp hh with h1 | h1
        · exact ⟨l, List.mem_cons_self, h1⟩
        · obtain ⟨l', hl', hm⟩ := ih r' hx h h1
          exact ⟨l', List.mem_cons_of_mem _ hl', hm⟩

theorem wordArcs_spec {M : Model} {i : Nat} {a : Arc} {w : Word} (h : (i, a, w) ∈ wordArcs M) :
    M.arcs[i]? = some a ∧ a.wid.isSome = true := by
  unfold wordArcs at h
  obtain ⟨⟨a', i'⟩, hm, hf⟩ := List.mem_filterMap.mp h
  have hget : M.arcs[i']? = some a' := List.mem_zipIdx_iff_getElem?.mp hm
  cases hw : a'.wid with
  | none => simp [hw] at hf
  | some wd =>
    simp only [hw] at hf
    cases hword : M.word wd with
    | none => simp [hword] at hf
    | some wd' =>
      simp only [hword, Option.map_some, Option.some.injEq, Prod.mk.injEq] at hf
      obtain ⟨h1, h2, _⟩ := hf
      subst h1; subst h2
      exact ⟨hget, by simp [hw]⟩

theorem arcAt_of_get {M : Model} {i : Nat} {a : Arc} (h : M.arcs[i]? = some a) : arcAt M i = a := by
  unfold arcAt; rw [List.getD_eq_getElem?_getD, h]; rfl

theorem allInsts_ok {M : Model} {l : List Inst} (hl : allInsts M = some l) : ∀ h ∈ l, InstOK M h := by
  intro h hh
  unfold allInsts at hl
  obtain ⟨l', hl', hm⟩ := optFlatten_mem _ _ hl h hh
  obtain ⟨⟨i, a, w⟩, hw, heq⟩ := List.mem_map.mp hl'
  obtain ⟨hget, hwid⟩ := wordArcs_spec hw
  cases hi : instsOfArc M i a w with
  | none => simp [hi] at heq
  | some l0 =>
    simp only [hi, Option.map_some, Option.some.injEq] at heq
    subst heq
    obtain ⟨h0, _, hst⟩ := List.mem_map.mp hm
    subst hst
    have hlt : i < M.arcs.length := by
      rcases Nat.lt_or_ge i M.arcs.length with h1 | h1
      · exact h1
      · rw [List.getElem?_eq_none h1] at hget; cases hget
    refine ⟨?_, ?_, ?_⟩
    · simp [stamp, isWordArc, arcAt_of_get hget, hwid, hlt]
    · simp only [stamp, arcAt_of_get hget]
    · simp only [stamp, arcAt_of_get hget]

/-! ### states of the built network -/

theorem st_div (hi k : Nat) (hk : k < 3) : st hi k / 3 = hi := by unfold st; omega

theorem idx_get {insts : Array Inst} {h : Inst} {hi : Nat} (hm : (h, hi) ∈ insts.toList.zipIdx) :
    insts.getD hi default = h ∧ hi < insts.size := by
  have hg : insts.toList[hi]? = some h := List.mem_zipIdx_iff_getElem?.mp hm
  rw [Array.getElem?_toList] at hg
  refine ⟨by rw [Array.getD_eq_getD_getElem?, hg]; rfl, ?_⟩
  rcases Nat.lt_or_ge hi insts.size with h1 | h1
  · exact h1
  · rw [Array.getElem?_eq_none h1] at hg; cases hg

theorem lab_st {M : Model} {tmat : Nat → List Nat} {insts : Array Inst} {h : Inst} {hi k : Nat}
    (hm : (h, hi) ∈ insts.toList.zipIdx) (hk : k < 3) :
    (buildFrom M tmat insts).lab (st hi k) = h.arc := by
  show (insts.getD (st hi k / 3) default).arc = h.arc
  rw [st_div hi k hk, (idx_get hm).1]

theorem hmmExits_lt {tp : List Nat} {k : Nat} {cx : Int} (h : (k, cx) ∈ hmmExits tp) : k < 3 := by
  unfold hmmExits at h
  rcases List.mem_append.mp h with h | h
  · simp only [List.mem_singleton, Prod.mk.injEq] at h; omega
  · split at h
    · simp only [List.mem_singleton, Prod.mk.injEq] at h; omega
    · cases h

theorem hmmEdges_st {tp : List Nat} {hi : Nat} {e : Nat × Nat × Int} (h : e ∈ hmmEdges tp hi) :
    ∃ a b, a < 3 ∧ b < 3 ∧ e.1 = st hi a ∧ e.2.1 = st hi b := by
  unfold hmmEdges at h
  rcases List.mem_append.mp h with h | h
  · simp only [List.mem_cons, List.not_mem_nil, or_false] at h
    rcases h with h | h | h | h | h <;> subst h
    · exact ⟨0, 0, by omega, by omega, rfl, rfl⟩
    · exact ⟨0, 1, by omega, by omega, rfl, rfl⟩
    · exact ⟨1, 1, by omega, by omega, rfl, rfl⟩
    · exact ⟨1, 2, by omega, by omega, rfl, rfl⟩
    · exact ⟨2, 2, by omega, by omega, rfl, rfl⟩
  · split at h
    · simp only [List.mem_singleton] at h; subst h
      exact ⟨0, 2, by omega, by omega, rfl, rfl⟩
    · cases h

theorem hops_ok {M : Model} {s d : Nat} {hop : Int} (h : hop ∈ hops M s d) : hopOK M s d = true := by
  unfold hops at h
  unfold hopOK
  rcases List.mem_append.mp h with h | h
  · split at h
    · rename_i hsd; simp [hsd]
    · cases h
  · obtain ⟨n, hn, hf⟩ := List.mem_filterMap.mp h
    unfold nullArcs at hn
    obtain ⟨hn1, hn2⟩ := List.mem_filter.mp hn
    split at hf
    · rename_i hc
      simp only [Bool.or_eq_true, beq_iff_eq, List.any_eq_true, Bool.and_eq_true]
      right
      exact ⟨n, hn1, ⟨hn2, hc.1⟩, hc.2⟩
    · cases hf

/-- membership in the five edge families of `buildFrom`, unfolded once -/
theorem buildFrom_inner {M : Model} {tmat : Nat → List Nat} {insts : Array Inst} {e : Nat × Nat × Int}
    (he : e ∈ (buildFrom M tmat insts).inner) :
    ∃ h hi h' hj a b, (h, hi) ∈ insts.toList.zipIdx ∧ (h', hj) ∈ insts.toList.zipIdx ∧ a < 3 ∧ b < 3 ∧
      e.1 = st hi a ∧ e.2.1 = st hj b ∧ h'.arc = h.arc := by
  simp only [buildFrom] at he
  rcases List.mem_append.mp he with he | he
  · obtain ⟨⟨h, hi⟩, hm, hin⟩ := List.mem_flatMap.mp he
    obtain ⟨a, b, ha, hb, h1, h2⟩ := hmmEdges_st hin
    exact ⟨h, hi, h, hi, a, b, hm, hm, ha, hb, h1, h2, rfl⟩
  · obtain ⟨⟨h, hi⟩, hm, hin⟩ := List.mem_flatMap.mp he
    simp only at hin
    split at hin
    · cases hin
    · obtain ⟨⟨h', hj⟩, hm', hin'⟩ := List.mem_flatMap.mp hin
      simp only at hin'
      split at hin'
      · rename_i hc
        obtain ⟨⟨k, cx⟩, hk, heq⟩ := List.mem_map.mp hin'
        subst heq
        exact ⟨h, hi, h', hj, k, 0, hm, hm', hmmExits_lt hk, by omega, rfl, rfl, hc.1⟩
      · cases hin'

theorem buildFrom_cross {M : Model} {tmat : Nat → List Nat} {insts : Array Inst} {e : Nat × Nat × Int}
    (he : e ∈ (buildFrom M tmat insts).cross) :
    ∃ h hi h' hj k hop, (h, hi) ∈ insts.toList.zipIdx ∧ (h', hj) ∈ insts.toList.zipIdx ∧ k < 3 ∧
      e.1 = st hi k ∧ e.2.1 = st hj 0 ∧ hop ∈ hops M h.dst h'.src := by
  simp only [buildFrom] at he
  obtain ⟨⟨h, hi⟩, hm, hin⟩ := List.mem_flatMap.mp he
  simp only at hin
  split at hin
  · cases hin
  · obtain ⟨⟨h', hj⟩, hm', hin'⟩ := List.mem_flatMap.mp hin
    simp only at hin'
    split at hin'
    · obtain ⟨hop, hh, hin''⟩ := List.mem_flatMap.mp hin'
      obtain ⟨⟨k, cx⟩, hk, heq⟩ := List.mem_map.mp hin''
      subst heq
      exact ⟨h, hi, h', hj, k, hop, hm, hm', hmmExits_lt hk, rfl, rfl, hh⟩
    · cases hin'

theorem buildFrom_init {M : Model} {tmat : Nat → List Nat} {insts : Array Inst} {e : Nat × Int}
    (he : e ∈ (buildFrom M tmat insts).init) :
    ∃ h' hj hop, (h', hj) ∈ insts.toList.zipIdx ∧ e.1 = st hj 0 ∧ hop ∈ hops M M.start h'.src := by
  simp only [buildFrom] at he
  obtain ⟨⟨h', hj⟩, hm', hin'⟩ := List.mem_flatMap.mp he
  simp only at hin'
  split at hin'
  · obtain ⟨hop, hh, heq⟩ := List.mem_map.mp hin'
    subst heq
    exact ⟨h', hj, hop, hm', rfl, hh⟩
  · cases hin'

theorem buildFrom_exits {M : Model} {tmat : Nat → List Nat} {insts : Array Inst} {e : Nat × Int}
    (he : e ∈ (buildFrom M tmat insts).exits) :
    ∃ h hi k hop, (h, hi) ∈ insts.toList.zipIdx ∧ k < 3 ∧ e.1 = st hi k ∧ hop ∈ hops M h.dst M.final := by
  simp only [buildFrom] at he
  obtain ⟨⟨h, hi⟩, hm, hin⟩ := List.mem_flatMap.mp he
  simp only at hin
  split at hin
  · obtain ⟨hop, hh, hin'⟩ := List.mem_flatMap.mp hin
    obtain ⟨⟨k, cx⟩, hk, heq⟩ := List.mem_map.mp hin'
    subst heq
    exact ⟨h, hi, k, hop, hm, hmmExits_lt hk, rfl, hh⟩
  · cases hin

theorem zipIdx_mem {insts : Array Inst} {h : Inst} {hi : Nat} (hm : (h, hi) ∈ insts.toList.zipIdx) :
    h ∈ insts.toList := List.mem_of_getElem? (List.mem_zipIdx_iff_getElem?.mp hm)

/-- the labels of a network built from instances that belong to word arcs of `M` pass `labelsOK` -/
theorem buildFrom_labelsOK (M : Model) (tmat : Nat → List Nat) (insts : Array Inst)
    (hok : ∀ h ∈ insts.toList, InstOK M h) : labelsOK M (buildFrom M tmat insts) = true := by
  unfold labelsOK
  simp only [Bool.and_eq_true, List.all_eq_true, beq_iff_eq]
  refine ⟨⟨⟨?_, ?_⟩, ?_⟩, ?_⟩
  · intro e he
    obtain ⟨h', hj, hop, hm', h1, hh⟩ := buildFrom_init he
    obtain ⟨o1, o2, _⟩ := hok h' (zipIdx_mem hm')
    rw [h1, lab_st hm' (by omega)]
    exact ⟨o1, by rw [← o2]; exact hops_ok hh⟩
  · intro e he
    obtain ⟨h, hi, h', hj, a, b, hm, hm', ha, hb, h1, h2, harc⟩ := buildFrom_inner he
    rw [h1, h2, lab_st hm ha, lab_st hm' hb, harc]
  · intro e he
    obtain ⟨h, hi, h', hj, k, hop, hm, hm', hk, h1, h2, hh⟩ := buildFrom_cross he
    obtain ⟨_, _, o3⟩ := hok h (zipIdx_mem hm)
    obtain ⟨p1, p2, _⟩ := hok h' (zipIdx_mem hm')
    rw [h1, h2, lab_st hm hk, lab_st hm' (by omega)]
    exact ⟨p1, by rw [← o3, ← p2]; exact hops_ok hh⟩
  · intro e he
    obtain ⟨h, hi, k, hop, hm, hk, h1, hh⟩ := buildFrom_exits he
    obtain ⟨_, _, o3⟩ := hok h (zipIdx_mem hm)
    rw [h1, lab_st hm hk, ← o3]
    exact hops_ok hh

theorem st_lt {insts : Array Inst} {h : Inst} {hi k : Nat} (hm : (h, hi) ∈ insts.toList.zipIdx) (hk : k < 3) :
    st hi k < 3 * insts.size := by
  have := (idx_get hm).2
  unfold st; omega

/-- every state of a built network is below `L.n` -/
theorem buildFrom_wf (M : Model) (tmat : Nat → List Nat) (insts : Array Inst) :
    (buildFrom M tmat insts).toNet.wf (buildFrom M tmat insts).n = true := by
  unfold Net.wf
  simp only [Bool.and_eq_true, List.all_eq_true, decide_eq_true_eq]
  have hn : (buildFrom M tmat insts).n = 3 * insts.size := rfl
  refine ⟨⟨?_, ?_⟩, ?_⟩
  · intro e he
    rcases List.mem_append.mp he with he | he
    · obtain ⟨h, hi, h', hj, a, b, hm, hm', ha, hb, h1, h2, _⟩ := buildFrom_inner he
      rw [h1, h2, hn]; exact ⟨st_lt hm ha, st_lt hm' hb⟩
    · obtain ⟨h, hi, h', hj, k, hop, hm, hm', hk, h1, h2, _⟩ := buildFrom_cross he
      rw [h1, h2, hn]; exact ⟨st_lt hm hk, st_lt hm' (by omega)⟩
  · intro e he
    obtain ⟨h', hj, hop, hm', h1, _⟩ := buildFrom_init (M := M) (tmat := tmat) (insts := insts) he
    rw [h1, hn]; exact st_lt hm' (by omega)
  · intro e he
    obtain ⟨h, hi, k, hop, hm, hk, h1, _⟩ := buildFrom_exits (M := M) (tmat := tmat) (insts := insts) he
    rw [h1, hn]; exact st_lt hm hk

theorem build_labelsOK (M : Model) (tmat : Nat → List Nat) (L : LNet) (insts : Array Inst)
    (hb : build M tmat = some (L, insts)) : labelsOK M L = true ∧ L.toNet.wf L.n = true := by
  unfold build at hb
  cases hl : allInsts M with
  | none => simp [hl] at hb
  | some l =>
    simp only [hl, Option.map_some, Option.some.injEq, Prod.mk.injEq] at hb
    obtain ⟨h1, h2⟩ := hb
    subst h1
    refine ⟨buildFrom_labelsOK M tmat l.toArray ?_, buildFrom_wf M tmat l.toArray⟩
    intro h hh
    exact allInsts_ok hl h (by simpa using hh)

/-! ### the beam-annotated network is the same network -/

open SSVerif.Beam in
theorem flatMap_map_congr {α β γ : Type} (l : List α) (f : α → List β) (g : β → γ) (f' : α → List γ)
    (h : ∀ a ∈ l, (f a).map g = f' a) : (l.flatMap f).map g = l.flatMap f' := by
  rw [List.map_flatMap]
  induction l with
  | nil => rfl
  | cons a as ih =>
    simp only [List.flatMap_cons]
    rw [h a List.mem_cons_self, ih (fun x hx => h x (List.mem_cons_of_mem _ hx))]

open SSVerif.Beam in
theorem buildB_toNet (M : Model) (tmat : Nat → List Nat) (insts : Array Inst) :
    (buildB M tmat insts).toNet = (buildFrom M tmat insts).toNet := by
  simp only [buildB, buildFrom, BNet.toNet, LNet.toNet, List.map_append, List.append_assoc]
  refine congr (congr (congrArg Viterbi.Net.mk ?_) ?_) ?_
  · congr 1
    · apply flatMap_map_congr
      intro a _
      rw [List.map_map]
      conv => rhs; rw [← List.map_id (hmmEdges (tmat a.1.tmat) a.2)]
      apply List.map_congr_left
      intro e _
      simp [BEdge.triple, BEdge.cost]
    · congr 1
      · apply flatMap_map_congr
        intro a _
        split
        · rfl
        · apply flatMap_map_congr
          intro a' _
          split
          · rw [List.map_map]; apply List.map_congr_left; intro e _; simp [BEdge.triple, BEdge.cost]
          · rfl
      · apply flatMap_map_congr
        intro a _
        split
        · rfl
        · apply flatMap_map_congr
          intro a' _
          split
          · apply flatMap_map_congr
            intro hop _
            rw [List.map_map]; apply List.map_congr_left; intro e _; simp [BEdge.triple, BEdge.cost]
          · rfl
  · apply flatMap_map_congr
    intro a _
    split
    · rw [List.map_map]; apply List.map_congr_left; intro e _; simp [BInit.pair]
    · rfl
  · apply flatMap_map_congr
    intro a _
    split
    · apply flatMap_map_congr
      intro hop _
      rw [List.map_map]; apply List.map_congr_left; intro e _; simp [BExit.pair]
    · rfl

end SSVerif.FlatNet
