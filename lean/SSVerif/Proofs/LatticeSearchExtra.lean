import SSVerif.Proofs.Search
import SSVerif.Proofs.SearchHmm
import SSVerif.Proofs.LatticeHistBridge
/-! The two facts `HistBridge.Extra` asks of the history table beyond `WFHist`, over the modelled token-passing
search (`Search.Reachable`):

* (N) `reachable_noNullChain`: null entries never chain — proved for every reachable state;
* (W) "no word exit in frame 0" — see the section at the end of the file. -/
namespace SSVerif.Lattice
open SSVerif.Hist SSVerif.Search HistBridge
namespace SearchExtra

/-- (N) as a predicate on a table -/
def NoNullChain (g : Fsg) (h : Hist) : Prop :=
  ∀ i lid, 0 < i → i < h.size → (ent h i).link = some lid → (g.link lid).wid < 0 →
    (ent h i).pred ≠ 0 → isWord g h (ent h i).pred.toNat

theorem isWord_congr {g : Fsg} {h h' : Hist} {i : Nat} (he : ent h' i = ent h i) (hw : isWord g h i) :
    isWord g h' i := by
  unfold isWord at *
  rw [he]; exact hw

/-- an entry made by `fsg_search_pnode_exit` records a word arc -/
theorem exit_is_word {lt : LexTree} {g : Fsg} {s s' : SState} (lok : LexTreeOK lt g) (inv : HmmsInv lt g s)
    {e : Entry} (he : ExitOK lt s s' e) : ∃ lid, e.link = some lid ∧ ¬ (g.link lid).wid < 0 := by
  obtain ⟨p, hpa, _, hleaf, hlink, _⟩ := he
  have hpN := (inv.2.1 p hpa).1
  obtain ⟨_, _, h3⟩ := lok.2.2 p hpN hleaf
  exact ⟨_, hlink, by omega⟩

/-- the table `fsg_search_start` makes: every entry but the root hangs off the root -/
theorem start_noNullChain {shift : Nat} {lt : LexTree} {g : Fsg} {s0 s : SState} (st : StartRel shift lt g s0 s) :
    NoNullChain g s.hist := by
  obtain ⟨_, ⟨d0, nulls, htab, _, hnl⟩, _⟩ := st
  intro i lid hi hlt _ _ hp
  exfalso
  rw [htab] at hlt hp
  rw [size_foldl_push] at hlt
  have hm := ent_foldl_push_mem nulls #[d0] (i := i) (by simp; omega) hlt
  obtain ⟨_, _, _, _, c4, _, c6, _⟩ := nullOK_elim (hnl _ hm)
  have : (#[d0] : Hist).size = 1 := rfl
  rw [this] at c6
  apply hp
  omega

/-- one frame keeps (N) -/
theorem step_noNullChain {shift : Nat} {lt : LexTree} {g : Fsg} {s s' : SState} (lok : LexTreeOK lt g)
    (inv : SearchInv lt g s) (st : StepRel shift lt g s s') (ih : NoNullChain g s.hist) :
    NoNullChain g s'.hist := by
  obtain ⟨wf, hinv⟩ := inv
  obtain ⟨_, htab, _⟩ := st
  obtain ⟨exits, nulls, htab, hex, hnl⟩ := htab
  have hsz1 := size_foldl_push exits s.hist
  have hsz2 := size_foldl_push nulls (exits.foldl Array.push s.hist)
  have hold : ∀ j, j < s.hist.size → ent s'.hist j = ent s.hist j := by
    intro j hj
    rw [htab, ent_foldl_push_lt nulls _ (by omega), ent_foldl_push_lt exits _ hj]
  have hmid : ∀ j, j < (exits.foldl Array.push s.hist).size →
      ent s'.hist j = ent (exits.foldl Array.push s.hist) j := by
    intro j hj
    rw [htab, ent_foldl_push_lt nulls _ hj]
  intro i lid hi hlt hlid hw hp
  have hlt' : i < (exits.foldl Array.push s.hist).size + nulls.length := by
    rw [htab, hsz2] at hlt; exact hlt
  by_cases h1 : i < s.hist.size
  · -- an old entry
    rw [hold i h1] at hlid hp ⊢
    have hd := wf.desc i hi h1
    exact isWord_congr (hold _ (by omega)) (ih i lid hi h1 hlid hw hp)
  · by_cases h2 : i < (exits.foldl Array.push s.hist).size
    · -- a word exit of this frame: not a null entry
      exfalso
      rw [hmid i h2] at hlid
      have hm := ent_foldl_push_mem exits s.hist (i := i) (by omega) (by omega)
      obtain ⟨lid', hl', hnw⟩ := exit_is_word lok hinv (hex _ hm)
      rw [hl'] at hlid
      cases hlid
      exact hnw hw
    · -- a null entry of this frame: hangs off a word exit of this frame
      have hm := ent_foldl_push_mem nulls (exits.foldl Array.push s.hist) (i := i) (by omega) hlt'
      rw [← htab] at hm
      obtain ⟨_, _, _, _, c4, c5, c6, _⟩ := nullOK_elim (hnl _ hm)
      have hm2 := ent_foldl_push_mem exits s.hist (i := (ent s'.hist i).pred.toNat) c5 (by omega)
      obtain ⟨lid', hl', hnw⟩ := exit_is_word lok hinv (hex _ hm2)
      refine isWord_congr (hmid _ c6) ⟨lid', hl', hnw⟩

end SearchExtra

open SearchExtra in
/-- T1 (N): in every reachable state of the modelled search null entries do not chain -/
theorem reachable_noNullChain {shift : Nat} {lt : Search.LexTree} {g : Hist.Fsg} {s : Search.SState}
    (lok : Search.LexTreeOK lt g) (hr : Search.Reachable shift lt g s) :
    ∀ i lid, 0 < i → i < s.hist.size → (Hist.ent s.hist i).link = some lid → (g.link lid).wid < 0 →
      (Hist.ent s.hist i).pred ≠ 0 → HistBridge.isWord g s.hist (Hist.ent s.hist i).pred.toNat := by
  induction hr with
  | first _ st => exact start_noNullChain st
  | step hr' st ih => exact step_noNullChain lok (reachable_inv lok hr') st ih
  | again _ st _ => exact start_noNullChain st

/-! ### (W): no word exit in frame 0

(W) follows from the relational model for the two topologies `hmm_vit_eval` has dedicated evaluators for
(`lt.nst = 3` — every shipped model — and `lt.nst = 5`): `EvalOut n h h'` lets the exit state take its score only
from an emitting state `i` with `OutFrom n i`, i.e. never from state 0, the state `hmm_enter` makes live
(`hmm_vit_eval_3st_lr`: the exit block reads only `s1`, `s2`; `hmm_vit_eval_5st_lr`: only `s3`, `s4`).  So
`OutLater` — a live exit score comes from a live exit score or from a live emitting state `i ≥ 1` — holds of every
evaluated HMM (`evalOut_outLater`, `stepRel_outLaterStep`), every `Reachable` state is `ReachableL`
(`Reachable.reachableL`), and no leaf entered by `fsg_search_start` can exit in the very first frame.  Until round 3
`EvalOut` allowed `i = 0` and (W) was *not* derivable (`SearchExtra.Cx`: the state pair that used to be a model
step is now rejected by `HmmsStep`).  For the other topologies (`hmm_vit_eval_anytopo`) an arc from state 0 to the
exit state may exist in the transition matrix, and then the C code does exit in the frame of entry:
`SearchExtra.Cx2` keeps that as a machine-checked reachable state with `nst = 2`. -/
namespace SearchExtra
open SSVerif.Generated.Search (worstScore)

/-- (W) as a predicate on a table -/
def WordFrame (g : Fsg) (h : Hist) : Prop :=
  ∀ i lid, 0 < i → i < h.size → (ent h i).link = some lid → ¬ (g.link lid).wid < 0 → 1 ≤ (ent h i).frame

/-- the exit state is not reached from emitting state 0 within one frame -/
def OutLater (n : Nat) (h h' : Hmm) : Prop :=
  live h'.outScore → live h.outScore ∨ ∃ i ∈ List.range n, 0 < i ∧ live (h.sc i)

instance (n : Nat) (h h' : Hmm) : Decidable (OutLater n h h') := by unfold OutLater; infer_instance

/-- `OutLater` for every HMM evaluated in the frame `s → s'` that stays active -/
def OutLaterStep (lt : LexTree) (s s' : SState) : Prop :=
  ∀ p ∈ s.active, p ∈ s'.active → OutLater lt.nst (s.hmm p) (s'.hmm p)

instance (lt : LexTree) (s s' : SState) : Decidable (OutLaterStep lt s s') := by unfold OutLaterStep; infer_instance

/-- `hmm_vit_eval_3st_lr` (model `evalHist3`) meets `OutLater` when the emission scores are `≤ 0` -/
theorem evalHist3_outLater (tp : List Nat) (e : Nat → Int) (h : Hmm) (he : ∀ k, e k ≤ 0) :
    OutLater 3 h (evalHist3 tp e h) := by
  have e1 := he 1
  have e2 := he 2
  obtain ⟨hx, _⟩ := exit3_spec tp (h.sc 1 + e 1) (h.sc 2 + e 2) h
  have hsc : (evalHist3 tp e h).outScore = (exit3 tp (h.sc 1 + e 1) (h.sc 2 + e 2) h).1 := rfl
  unfold OutLater
  rw [hsc]
  intro hl
  rcases hx with ⟨_, b⟩ | ⟨_, b⟩ | ⟨_, b⟩
  · rw [b] at hl; exact Or.inl hl
  · exact Or.inr ⟨2, by simp, by omega, by have := b hl; unfold live; omega⟩
  · exact Or.inr ⟨1, by simp, by omega, by have := b hl; unfold live; omega⟩

/-- right after `fsg_search_start`: only state 0 of an active HMM can be live -/
def Fresh (lt : LexTree) (s : SState) : Prop :=
  ∀ p ∈ s.active, ¬ live (s.hmm p).outScore ∧ ∀ j, 0 < j → j < lt.nst → ¬ live ((s.hmm p).sc j)

structure WInv (lt : LexTree) (g : Fsg) (s : SState) : Prop where
  wordFrame : WordFrame g s.hist
  nonneg : 0 ≤ s.frame
  fresh : s.frame = 0 → Fresh lt s

theorem start_wInv {shift : Nat} {lt : LexTree} {g : Fsg} {s0 s : SState} (h0 : AllCleared lt s0)
    (st : StartRel shift lt g s0 s) : WInv lt g s := by
  obtain ⟨hfr, ⟨d0, nulls, htab, _, hnl⟩, _, hact, hpn⟩ := st
  obtain ⟨_, _, h0cl⟩ := h0
  refine ⟨?_, by omega, ?_⟩
  · intro i lid hi hlt hlid hw
    exfalso
    rw [htab, size_foldl_push] at hlt
    have hm := ent_foldl_push_mem nulls #[d0] (i := i) (by simp; omega) hlt
    rw [← htab] at hm
    obtain ⟨lid', c1, _, c3, _⟩ := nullOK_elim (hnl _ hm)
    rw [c1] at hlid
    cases hlid
    exact hw c3
  · intro _ p hp
    have hpN := hact p hp
    obtain ⟨_, hout, hinner, _⟩ := (hpn p hpN).2 hp
    refine ⟨?_, ?_⟩
    · rw [hout, h0cl p hpN]; exact clear_out_not_live _
    · intro j hj0 hj
      rw [hinner j hj hj0, h0cl p hpN]; exact clear_not_live _ _

theorem step_wInv {shift : Nat} {lt : LexTree} {g : Fsg} {s s' : SState}
    (st : StepRel shift lt g s s') (hx : s.frame = 0 → OutLaterStep lt s s') (ih : WInv lt g s) :
    WInv lt g s' := by
  obtain ⟨hW, hnn, hfresh⟩ := ih
  obtain ⟨hfr, htab, _⟩ := st
  obtain ⟨exits, nulls, htab, hex, hnl⟩ := htab
  have hsz1 := size_foldl_push exits s.hist
  have hsz2 := size_foldl_push nulls (exits.foldl Array.push s.hist)
  refine ⟨?_, by omega, fun h => by omega⟩
  intro i lid hi hlt hlid hw
  have hlt' : i < (exits.foldl Array.push s.hist).size + nulls.length := by
    rw [htab, hsz2] at hlt; exact hlt
  by_cases h1 : i < s.hist.size
  · have hold : ent s'.hist i = ent s.hist i := by
      rw [htab, ent_foldl_push_lt nulls _ (by omega), ent_foldl_push_lt exits _ h1]
    rw [hold] at hlid ⊢
    exact hW i lid hi h1 hlid hw
  · by_cases h2 : i < (exits.foldl Array.push s.hist).size
    · -- a word exit of this frame
      have hmid : ent s'.hist i = ent (exits.foldl Array.push s.hist) i := by
        rw [htab, ent_foldl_push_lt nulls _ h2]
      have hm := ent_foldl_push_mem exits s.hist (i := i) (by omega) (by omega)
      rw [← hmid] at hm
      obtain ⟨p, hpa, hpa', _, _, hef, _, hlive, _⟩ := hex _ hm
      rw [hef]
      by_cases hz : s.frame = 0
      · exfalso
        obtain ⟨f1, f2⟩ := hfresh hz p hpa
        rcases hx hz p hpa hpa' hlive with h | ⟨j, hj, hj0, hjl⟩
        · exact f1 h
        · exact f2 j hj0 (List.mem_range.1 hj) hjl
      · omega
    · -- a null entry
      exfalso
      have hm := ent_foldl_push_mem nulls (exits.foldl Array.push s.hist) (i := i) (by omega) hlt'
      rw [← htab] at hm
      obtain ⟨lid', c1, _, c3, _⟩ := nullOK_elim (hnl _ hm)
      rw [c1] at hlid
      cases hlid
      exact hw c3

/-- `Reachable` with the extra condition `OutLaterStep` on the step that searches frame 0 -/
inductive ReachableL (shift : Nat) (lt : LexTree) (g : Fsg) : SState → Prop
  | first {s0 s : SState} : AllCleared lt s0 → StartRel shift lt g s0 s → ReachableL shift lt g s
  | step {s s' : SState} : ReachableL shift lt g s → StepRel shift lt g s s' →
      (s.frame = 0 → OutLaterStep lt s s') → ReachableL shift lt g s'
  | again {s s' : SState} : ReachableL shift lt g s → StartRel shift lt g (finish lt s) s' → ReachableL shift lt g s'

theorem ReachableL.reachable {shift : Nat} {lt : LexTree} {g : Fsg} {s : SState}
    (hr : ReachableL shift lt g s) : Reachable shift lt g s := by
  induction hr with
  | first h0 st => exact .first h0 st
  | step _ st _ ih => exact .step ih st
  | again _ st ih => exact .again ih st

theorem reachableL_wInv {shift : Nat} {lt : LexTree} {g : Fsg} {s : SState} (lok : LexTreeOK lt g)
    (hr : ReachableL shift lt g s) : WInv lt g s := by
  induction hr with
  | first h0 st => exact start_wInv h0 st
  | step _ st hx ih => exact step_wInv st hx ih
  | again hr' st _ => exact start_wInv (finish_allCleared (reachable_inv lok hr'.reachable).hmms) st

/-- the exit clause of the step relation implies `OutLater` for 3- and 5-state HMMs -/
theorem evalOut_outLater {n : Nat} (hn : LaterTopo n) {h h' : Hmm} (ev : EvalOut n h h') : OutLater n h h' := by
  intro hl
  rcases ev with ⟨_, hlv⟩ | ⟨i, hi, hfrom, _, hlv⟩
  · exact Or.inl (hlv hl)
  · refine Or.inr ⟨i, hi, ?_, hlv hl⟩
    rcases hn with hn | hn
    · have := hfrom.1 hn; omega
    · have := hfrom.2 hn; omega

/-- **`OutLaterStep` is part of the step relation**: in a frame of the modelled search over 3- or 5-state HMMs
no evaluated HMM gets a live exit score out of its entry state -/
theorem stepRel_outLaterStep {shift : Nat} {lt : LexTree} {g : Fsg} {s s' : SState} (hn : LaterTopo lt.nst)
    (st : StepRel shift lt g s s') : OutLaterStep lt s s' := by
  intro p hpa hpa'
  obtain ⟨_, hact', hstep⟩ := st.hmms
  have hout := ((hstep p (hact' p hpa')).2 hpa').2.2.1
  simp only [hpa, if_true] at hout
  exact evalOut_outLater hn hout

/-- every reachable state of the modelled search over 3- or 5-state HMMs is `ReachableL` -/
theorem _root_.SSVerif.Search.Reachable.reachableL {shift : Nat} {lt : LexTree} {g : Fsg} {s : SState}
    (hn : LaterTopo lt.nst) (hr : Reachable shift lt g s) : ReachableL shift lt g s := by
  induction hr with
  | first h0 st => exact .first h0 st
  | step _ st ih => exact .step ih st (fun _ => stepRel_outLaterStep hn st)
  | again _ st ih => exact .again ih st

/-! #### the state pair that the model accepted as a frame-0 word exit until round 3 is no step any more -/
namespace Cx
def g : Fsg := { links := #[⟨0, 1, 0, 0⟩], start := 0, final := 1, filler := [] }
def lt : LexTree := { nst := 3, nodes := #[{ owner := 0, leaf := true, link := 0 }], root := #[some 0, none] }
def s0 : SState := { frame := 0, hist := #[], hmms := #[Hmm.clear 3], active := [] }
def hm1 : Hmm :=
  { frame := 0, score := [0, worstScore, worstScore], hist := [0, -1, -1], outScore := worstScore, outHist := -1 }
def s1 : SState := { frame := 0, hist := #[dummy], hmms := #[hm1], active := [0] }
def e1 : Entry := { link := some 0, frame := 0, score := -5, pred := 0 }
def hm2 : Hmm := { frame := 1, score := [-5, -5, -5], hist := [0, 0, 0], outScore := -5, outHist := 0 }
def s2 : SState := { frame := 1, hist := #[dummy, e1], hmms := #[hm2], active := [0] }
/-- the same frame without the exit: the token moves from state 0 to state 1 only -/
def hm2' : Hmm :=
  { frame := 1, score := [-5, -5, worstScore], hist := [0, 0, -1], outScore := worstScore, outHist := -1 }
def s2' : SState := { frame := 1, hist := #[dummy], hmms := #[hm2'], active := [0] }

theorem lok : LexTreeOK lt g := by decide
theorem cleared : AllCleared lt s0 := by decide
theorem start : StartRel 10 lt g s0 s1 := startRelB_sound (by decide)
theorem not_wordFrame : ¬ WordFrame g s2.hist := by
  intro h
  have := h 1 0 (by decide) (by decide) (by decide) (by decide)
  revert this
  decide
/-- the exit in the frame of entry is rejected (by the `EvalOut` clause of `HmmsStep`) … -/
theorem not_step : ¬ StepRel 10 lt g s1 s2 := fun st => absurd st.hmms (by decide)
theorem stepRelB_false : stepRelB 10 lt g s1 s2 = false := by decide
/-- … the step that moves the token one state is accepted -/
theorem step' : StepRel 10 lt g s1 s2' := stepRelB_sound (by decide)
end Cx

/-! #### with `hmm_vit_eval_anytopo` (here: 2 emitting states) the exit in the frame of entry remains possible -/
namespace Cx2
def lt : LexTree := { nst := 2, nodes := #[{ owner := 0, leaf := true, link := 0 }], root := #[some 0, none] }
def s0 : SState := { frame := 0, hist := #[], hmms := #[Hmm.clear 2], active := [] }
def hm1 : Hmm := { frame := 0, score := [0, worstScore], hist := [0, -1], outScore := worstScore, outHist := -1 }
def s1 : SState := { frame := 0, hist := #[dummy], hmms := #[hm1], active := [0] }
def hm2 : Hmm := { frame := 1, score := [-5, -5], hist := [0, 0], outScore := -5, outHist := 0 }
def s2 : SState := { frame := 1, hist := #[dummy, Cx.e1], hmms := #[hm2], active := [0] }

theorem lok : LexTreeOK lt Cx.g := by decide
theorem cleared : AllCleared lt s0 := by decide
theorem start : StartRel 10 lt Cx.g s0 s1 := startRelB_sound (by decide)
theorem step : StepRel 10 lt Cx.g s1 s2 := stepRelB_sound (by decide)
theorem reach : Reachable 10 lt Cx.g s2 := .step (.first cleared start) step
theorem not_wordFrame : ¬ WordFrame Cx.g s2.hist := Cx.not_wordFrame
end Cx2

end SearchExtra

open SearchExtra in
/-- **(W) from the modelled search**: in every reachable state of the search over 3- or 5-state HMMs every word
entry of the history table was recorded in a frame `≥ 1` -/
theorem reachable_wordFrame {shift : Nat} {lt : Search.LexTree} {g : Hist.Fsg} {s : Search.SState}
    (lok : Search.LexTreeOK lt g) (hn : LaterTopo lt.nst) (hr : Search.Reachable shift lt g s) :
    WordFrame g s.hist :=
  (reachableL_wInv lok (hr.reachableL hn)).wordFrame

open SearchExtra in
/-- the hypothesis on the topology cannot be dropped: with 2 emitting states (`hmm_vit_eval_anytopo`, arc 0 → exit
allowed) there is a reachable state with a word entry of frame 0 -/
theorem wordFrame_needs_topology :
    ∃ (shift : Nat) (lt : Search.LexTree) (g : Hist.Fsg) (s : Search.SState),
      Search.LexTreeOK lt g ∧ Search.Reachable shift lt g s ∧ 2 ≤ lt.nst ∧ ¬ WordFrame g s.hist :=
  ⟨10, Cx2.lt, Cx.g, Cx2.s2, Cx2.lok, Cx2.reach, by decide, Cx2.not_wordFrame⟩

open SearchExtra in
/-- T2 (W), conditional: no word exit is recorded in frame 0, when the step that searches frame 0 does not let an
exit state be reached from emitting state 0 (`OutLaterStep`, part of `ReachableL`) -/
theorem reachableL_wordFrame {shift : Nat} {lt : Search.LexTree} {g : Hist.Fsg} {s : Search.SState}
    (lok : Search.LexTreeOK lt g) (hr : ReachableL shift lt g s) :
    ∀ i lid, 0 < i → i < s.hist.size → (Hist.ent s.hist i).link = some lid → ¬ (g.link lid).wid < 0 →
      1 ≤ (Hist.ent s.hist i).frame :=
  (reachableL_wInv lok hr).wordFrame

open SearchExtra in
/-- both extra facts of `HistBridge.Extra` over `ReachableL` -/
theorem reachableL_extra {shift : Nat} {lt : Search.LexTree} {g : Hist.Fsg} {s : Search.SState}
    (lok : Search.LexTreeOK lt g) (hr : ReachableL shift lt g s) : HistBridge.Extra g s.hist :=
  ⟨reachableL_wordFrame lok hr, reachable_noNullChain lok hr.reachable⟩

open SearchExtra in
/-- over `Reachable`: (N) is proved, so `Extra` needs (W) only -/
theorem reachable_extra_of_wordFrame {shift : Nat} {lt : Search.LexTree} {g : Hist.Fsg} {s : Search.SState}
    (lok : Search.LexTreeOK lt g) (hr : Search.Reachable shift lt g s) (hw : WordFrame g s.hist) :
    HistBridge.Extra g s.hist :=
  ⟨hw, reachable_noNullChain lok hr⟩

open SearchExtra in
/-- the hypothesis `HistWF` of `C11_build_latticeOK` in every `ReachableL` state, without an observation on the table -/
theorem reachableL_histWF {shift : Nat} {lt : Search.LexTree} {g : Hist.Fsg} {s : Search.SState}
    (lok : Search.LexTreeOK lt g) (hr : ReachableL shift lt g s) :
    HistWF g.toNfa (HistBridge.toH g s.hist) s.frame.toNat :=
  histWF_of_WFHist g s.hist s.frame (Search.reachable_inv lok hr.reachable).wf (reachableL_extra lok hr)

open SearchExtra in
/-- over `Reachable`, `HistWF` needs (W) only -/
theorem reachable_histWF_of_wordFrame {shift : Nat} {lt : Search.LexTree} {g : Hist.Fsg} {s : Search.SState}
    (lok : Search.LexTreeOK lt g) (hr : Search.Reachable shift lt g s) (hw : WordFrame g s.hist) :
    HistWF g.toNfa (HistBridge.toH g s.hist) s.frame.toNat :=
  histWF_of_WFHist g s.hist s.frame (Search.reachable_inv lok hr).wf (reachable_extra_of_wordFrame lok hr hw)

open SearchExtra in
/-- the hypothesis `HistWF` of `C11_build_latticeOK` in every `Reachable` state of the search over 3- or 5-state HMMs,
without an observation on the table -/
theorem reachable_histWF {shift : Nat} {lt : Search.LexTree} {g : Hist.Fsg} {s : Search.SState}
    (lok : Search.LexTreeOK lt g) (hn : LaterTopo lt.nst) (hr : Search.Reachable shift lt g s) :
    HistWF g.toNfa (HistBridge.toH g s.hist) s.frame.toNat :=
  reachableL_histWF lok (hr.reachableL hn)

open SearchExtra in
theorem reachable_extra {shift : Nat} {lt : Search.LexTree} {g : Hist.Fsg} {s : Search.SState}
    (lok : Search.LexTreeOK lt g) (hn : LaterTopo lt.nst) (hr : Search.Reachable shift lt g s) :
    HistBridge.Extra g s.hist :=
  reachableL_extra lok (hr.reachableL hn)

end SSVerif.Lattice
