import SSVerif.Proofs.SearchScoreMem
import SSVerif.Proofs.FlatNetBuild
import SSVerif.Proofs.Viterbi
/-!
# Every alignment of the lextree network is an alignment of the flat network (C02, certificate-free direction)

`treeNet E` shares HMMs between words and context variants, `FlatNet.buildFrom` does not.  This file proves, by a forward
induction over a path of the lextree network, that the path exists in the flat network with the same score — WITHOUT a
certificate.  The look-ahead problem (the word arc a shared pnode belongs to is only known at the leaf) is solved by the
invariant: after `t` frames, *for every completion* `q'` of the pnode path `q 0 … q j` walked inside the current word to a
leaf, *every* flat instance of position `j` that the completion's word arc offers (`S j x`) is reached with the same score.

`Spec` is what a root-to-leaf pnode path must offer (an interface: instances of one word arc, position by position, with the
parameters of the pnodes, one root instance per bit of the root's context set, one leaf instance per bit of the leaf's context
set).  `Proofs/LexCoverBuild.lean` derives it for `buildLexTree` from the theorems of `Props/C02Lex`.  Core Lean only.
-/
namespace SSVerif.LexCover
open SSVerif.Search SSVerif.Hist SSVerif.Hmm SSVerif.Viterbi SSVerif.FlatNet SSVerif.SearchScore

/-! ### membership in the flat network, introduction forms -/

section Flat
variable {M : Model} {tmat : Nat → List Nat} {insts : Array Inst}

theorem flat_intra_mem {x : Inst} {hi : Nat} (hm : (x, hi) ∈ insts.toList.zipIdx) {e : Nat × Nat × Int}
    (he : e ∈ hmmEdges (tmat x.tmat) hi) : e ∈ (buildFrom M tmat insts).toNet.edges := by
  show e ∈ (buildFrom M tmat insts).inner ++ (buildFrom M tmat insts).cross
  refine List.mem_append.2 (Or.inl ?_)
  simp only [buildFrom]
  refine List.mem_append.2 (Or.inl ?_)
  exact List.mem_flatMap.2 ⟨(x, hi), hm, he⟩

theorem flat_phone_mem {x x' : Inst} {hi hi' : Nat} (hm : (x, hi) ∈ insts.toList.zipIdx) (hm' : (x', hi') ∈ insts.toList.zipIdx)
    (hl : x.isLeaf = false) (ha : x'.arc = x.arc) (hp : x'.pos = x.pos + 1) {k : Nat} {cx : Int}
    (hk : (k, cx) ∈ hmmExits (tmat x.tmat)) :
    (st hi k, st hi' 0, cx + x'.entry) ∈ (buildFrom M tmat insts).toNet.edges := by
  show _ ∈ (buildFrom M tmat insts).inner ++ (buildFrom M tmat insts).cross
  refine List.mem_append.2 (Or.inl ?_)
  simp only [buildFrom]
  refine List.mem_append.2 (Or.inr ?_)
  refine List.mem_flatMap.2 ⟨(x, hi), hm, ?_⟩
  simp only [hl, Bool.false_eq_true, if_false]
  refine List.mem_flatMap.2 ⟨(x', hi'), hm', ?_⟩
  simp only [ha, hp, and_self, if_true]
  exact List.mem_map.2 ⟨(k, cx), hk, rfl⟩

theorem flat_cross_mem {x x' : Inst} {hi hi' : Nat} (hm : (x, hi) ∈ insts.toList.zipIdx) (hm' : (x', hi') ∈ insts.toList.zipIdx)
    (hl : x.isLeaf = true) (hr : x'.isRoot = true) (hlc : x'.lc = none ∨ x'.lc = some x.ciExt)
    (hrc : x.rc = none ∨ x.rc = some x'.ciExt) {hop : Int} (hh : hop ∈ hops M x.dst x'.src) {k : Nat} {cx : Int}
    (hk : (k, cx) ∈ hmmExits (tmat x.tmat)) :
    (st hi k, st hi' 0, cx + hop + x'.entry) ∈ (buildFrom M tmat insts).toNet.edges := by
  show _ ∈ (buildFrom M tmat insts).inner ++ (buildFrom M tmat insts).cross
  refine List.mem_append.2 (Or.inr ?_)
  simp only [buildFrom]
  refine List.mem_flatMap.2 ⟨(x, hi), hm, ?_⟩
  simp only [hl, Bool.not_true, Bool.false_eq_true, if_false]
  refine List.mem_flatMap.2 ⟨(x', hi'), hm', ?_⟩
  rw [if_pos ⟨hr, hlc, hrc⟩]
  refine List.mem_flatMap.2 ⟨hop, hh, ?_⟩
  exact List.mem_map.2 ⟨(k, cx), hk, rfl⟩

theorem flat_init_mem {x' : Inst} {hi' : Nat} (hm' : (x', hi') ∈ insts.toList.zipIdx)
    (hr : x'.isRoot = true) (hlc : x'.lc = none ∨ x'.lc = some M.sil) {hop : Int} (hh : hop ∈ hops M M.start x'.src) :
    (st hi' 0, hop + x'.entry) ∈ (buildFrom M tmat insts).toNet.init := by
  show _ ∈ (buildFrom M tmat insts).init
  simp only [buildFrom]
  refine List.mem_flatMap.2 ⟨(x', hi'), hm', ?_⟩
  rw [if_pos ⟨hr, hlc⟩]
  exact List.mem_map.2 ⟨hop, hh, rfl⟩

theorem flat_exit_mem {x : Inst} {hi : Nat} (hm : (x, hi) ∈ insts.toList.zipIdx)
    (hl : x.isLeaf = true) {hop : Int} (hh : hop ∈ hops M x.dst M.final) {k : Nat} {cx : Int}
    (hk : (k, cx) ∈ hmmExits (tmat x.tmat)) :
    (st hi k, cx + hop) ∈ (buildFrom M tmat insts).toNet.exits := by
  show _ ∈ (buildFrom M tmat insts).exits
  simp only [buildFrom]
  refine List.mem_flatMap.2 ⟨(x, hi), hm, ?_⟩
  simp only [hl, if_true]
  refine List.mem_flatMap.2 ⟨hop, hh, ?_⟩
  exact List.mem_map.2 ⟨(k, cx), hk, rfl⟩

end Flat

/-- the intra-HMM edges of HMM `p` are those of HMM `h`, moved -/
theorem hmmEdges_move (tp : List Nat) {p h a b : Nat} {c : Int} (ha : a < 3) (hb : b < 3)
    (he : (st p a, st p b, c) ∈ hmmEdges tp p) : (st h a, st h b, c) ∈ hmmEdges tp h := by
  rw [hmmEdges_shift] at he ⊢
  obtain ⟨y, hy, heq⟩ := List.mem_map.1 he
  have hlt := hmmEdges0_lt tp y hy
  simp only [Prod.mk.injEq] at heq
  refine List.mem_map.2 ⟨y, hy, ?_⟩
  unfold st at heq ⊢
  obtain ⟨h1, h2, h3⟩ := heq
  have e1 : y.1 = a := by omega
  have e2 : y.2.1 = b := by omega
  simp only [Prod.mk.injEq]
  exact ⟨by omega, by omega, h3⟩

theorem treeEm_st (E : Env) (e : Nat → Nat → Nat → Int) (t p k : Nat) (hk : k < 3) :
    treeEm E e t (st p k) = e t (E.node p).ssid k := by
  unfold treeEm st
  have h1 : (3 * p + k) / 3 = p := by omega
  have h2 : (3 * p + k) % 3 = k := by omega
  rw [h1, h2]

theorem flatEm_st {insts : Array Inst} (e : Nat → Nat → Nat → Int) (t : Nat) {x : Inst} {hi : Nat}
    (hm : (x, hi) ∈ insts.toList.zipIdx) (k : Nat) (hk : k < 3) :
    flatEm insts e t (st hi k) = e t x.ssid k := by
  unfold flatEm st
  have h1 : (3 * hi + k) / 3 = hi := by omega
  have h2 : (3 * hi + k) % 3 = k := by omega
  rw [h1, h2, (idx_get hm).1]

/-! ### the interface: what a root-to-leaf pnode path offers in the flat network -/

/-- `q 0 → … → q m` is a root-to-leaf path of state `d`; `S j x`: `x` is a flat instance of position `j` of the path's word arc -/
structure Spec (E : Env) (insts : Array Inst) (d m : Nat) (q : Nat → Nat) (S : Nat → Inst → Prop) : Prop where
  mem : ∀ j x, S j x → ∃ hi, (x, hi) ∈ insts.toList.zipIdx
  arc : ∀ j x j' x', S j x → S j' x' → x'.arc = x.arc
  pos : ∀ j x, S j x → x.pos = j
  src : ∀ x, S 0 x → x.src = d
  dst : ∀ x, S m x → x.dst = dstOf E (q m)
  ssid : ∀ j x, S j x → x.ssid = (E.node (q j)).ssid
  tm : ∀ j x, S j x → x.tmat = (E.node (q j)).tmatid
  entry : ∀ j x, S j x → x.entry = (E.node (q j)).logs2prob
  leaf : ∀ j x, S j x → x.isLeaf = (E.node (q j)).leaf
  root : ∀ x, S 0 x → x.isRoot = true
  ciR : ∀ x, S 0 x → x.ciExt = (E.node (q 0)).ciExt
  ciL : ∀ x, S m x → x.ciExt = (E.node (q m)).ciExt
  ex0 : ∀ c, (E.node (q 0)).ctxt.testBit c = true → ∃ x, S 0 x ∧ (x.lc = none ∨ x.lc = some c)
  exI : ∀ j, 0 < j → j < m → ∃ x, S j x
  exL : 0 < m → ∀ c, (E.node (q m)).ctxt.testBit c = true → ∃ x, S m x ∧ (x.rc = none ∨ x.rc = some c)
  rc0 : m = 0 → ∀ x, S 0 x → x.rc = none
  /-- a word of two or more phones leaves only to the contexts of its leaf, and the leaf has one -/
  anyF : 0 < m → E.anyRc (E.g.link (E.node (q m)).link).wid.toNat = false
  bit : 0 < m → ∃ c, (E.node (q m)).ctxt.testBit c = true

/-- every root-to-leaf path of the lextree has its instances in the flat network; the two networks are over the same FSG -/
structure Iface (E : Env) (M : Model) (insts : Array Inst) : Prop where
  spec : ∀ d m q, q 0 ∈ E.lt.roots d → (∀ j, j < m → q (j + 1) ∈ E.lt.children (q j)) → (E.node (q m)).leaf = true →
    ∃ S, Spec E insts d m q S
  reach : ∀ s d hop, (d, hop) ∈ reach E.g s → hop ∈ hops M s d
  start : E.g.start = M.start
  final : E.g.final = M.final
  sil : E.sil = M.sil

/-- the invariant of the induction (see the header) -/
def Inv (E : Env) (M : Model) (insts : Array Inst) (e : Nat → Nat → Nat → Int) (t s1 : Nat) (v : Int) : Prop :=
  ∃ (j : Nat) (q : Nat → Nat) (k d c0 : Nat), s1 = st (q j) k ∧ k < 3 ∧ q 0 ∈ E.lt.roots d ∧ (∀ j', j' < j → q (j' + 1) ∈ E.lt.children (q j')) ∧
    (E.node (q 0)).ctxt.testBit c0 = true ∧
    ∀ (m : Nat) (q' : Nat → Nat) (S : Nat → Inst → Prop), j ≤ m → (∀ j', j' ≤ j → q' j' = q j') → (∀ j', j' < m → q' (j' + 1) ∈ E.lt.children (q' j')) →
      (E.node (q' m)).leaf = true → Spec E insts d m q' S → ∀ x, S j x → (j = 0 → x.lc = none ∨ x.lc = some c0) →
        ∃ hi, (x, hi) ∈ insts.toList.zipIdx ∧ PathTo (buildFrom M E.tmat insts).toNet (flatEm insts e) t (st hi k) v

theorem children_nonleaf {E : Env} {p c : Nat} (h : c ∈ E.lt.children p) : (E.node p).leaf = false := by
  unfold LexTree.children at h
  cases hl : (E.lt.node p).leaf with
  | true => rw [hl] at h; simp at h
  | false => exact hl

theorem admits_bits {E : Env} {lc : Nat} {rc : List Nat} {r : Nat} (h : admits E lc rc r = true) :
    (E.node r).ctxt.testBit lc = true ∧ (E.node r).ciExt ∈ rc := by
  unfold admits at h
  simp only [Bool.and_eq_true, List.contains_iff_mem] at h
  exact h

theorem mem_ctxList {m c : Nat} (h : c ∈ SearchScore.ctxList m) : m.testBit c = true := by
  unfold SearchScore.ctxList at h
  exact (List.mem_filter.1 h).2

theorem st_inj {p p' k k' : Nat} (hk : k < 3) (hk' : k' < 3) (h : st p k = st p' k') : p = p' ∧ k = k' := by
  unfold st at h; omega

/-- a leaf instance of the path `q 0 … q j` walked so far (which ends in a leaf), for an exit of the network -/
theorem pick_leaf_any {E : Env} {insts : Array Inst} {d j : Nat} {q : Nat → Nat} {S : Nat → Inst → Prop} (sp : Spec E insts d j q S)
    {c0 : Nat} (hc0 : (E.node (q 0)).ctxt.testBit c0 = true) :
    ∃ L, S j L ∧ (j = 0 → L.lc = none ∨ L.lc = some c0) := by
  rcases Nat.eq_zero_or_pos j with hj | hj
  · subst hj
    obtain ⟨L, hL, hlc⟩ := sp.ex0 c0 hc0
    exact ⟨L, hL, fun _ => hlc⟩
  · obtain ⟨c, hc⟩ := sp.bit hj
    obtain ⟨L, hL, _⟩ := sp.exL hj c hc
    exact ⟨L, hL, fun h0 => absurd h0 (by omega)⟩

/-- … compatible with the phone `c` the next root presents -/
theorem pick_leaf_rc {E : Env} {insts : Array Inst} {d j : Nat} {q : Nat → Nat} {S : Nat → Inst → Prop} (sp : Spec E insts d j q S)
    {c0 : Nat} (hc0 : (E.node (q 0)).ctxt.testBit c0 = true) (c : Nat)
    (hc : 0 < j → (E.node (q j)).ctxt.testBit c = true) :
    ∃ L, S j L ∧ (j = 0 → L.lc = none ∨ L.lc = some c0) ∧ (L.rc = none ∨ L.rc = some c) := by
  rcases Nat.eq_zero_or_pos j with hj | hj
  · subst hj
    obtain ⟨L, hL, hlc⟩ := sp.ex0 c0 hc0
    exact ⟨L, hL, fun _ => hlc, Or.inl (sp.rc0 rfl L hL)⟩
  · obtain ⟨L, hL, hrc⟩ := sp.exL hj c (hc hj)
    exact ⟨L, hL, fun h0 => absurd h0 (by omega), hrc⟩

/-! ### the induction -/

theorem path_sim {E : Env} {M : Model} {insts : Array Inst} (I : Iface E M insts) (e : Nat → Nat → Nat → Int) :
    ∀ {t s : Nat} {v : Int}, PathTo (treeNet E) (treeEm E e) t s v → Inv E M insts e t s v := by
  intro t s v h
  induction h with
  | @start s c hin =>
    obtain ⟨d, hop, hr, r, hrr, ha, rfl, rfl⟩ := mem_init.1 hin
    obtain ⟨hbit, _⟩ := admits_bits ha
    refine ⟨0, fun _ => r, 0, d, E.sil, rfl, by omega, hrr, fun j' hj' => absurd hj' (by omega), hbit, ?_⟩
    intro m q' S _ hag _ _ sp x hx hlc
    obtain ⟨hi, hm⟩ := sp.mem 0 x hx
    refine ⟨hi, hm, ?_⟩
    have hq0 : q' 0 = r := hag 0 (Nat.le_refl 0)
    have hent : x.entry = (E.node r).logs2prob := by rw [sp.entry 0 x hx, hq0]
    rw [← hent]
    refine PathTo.start (flat_init_mem hm (sp.root x hx) ?_ ?_)
    · rw [← I.sil]; exact hlc rfl
    · rw [← I.start, sp.src x hx]; exact I.reach _ _ _ hr
  | @step t i j c sc hp he ih =>
    obtain ⟨j0, q, k, d, c0, hi_eq, hk, hroot, hchain, hc0, hall⟩ := ih
    rcases mem_edges.1 he with ⟨p, _, hin⟩ | ⟨p, _, hlf, ch, hch, k', cx, hkx, h1, h2, h3⟩ |
      ⟨p, _, hlf, d', hop, hr, r, hrr, ha, k', cx, hkx, h1, h2, h3⟩
    · -- inside one HMM
      obtain ⟨a, b, ha, hb, e1, e2⟩ := hmmEdges_st hin
      simp only at e1 e2
      obtain ⟨hp', hka⟩ := st_inj hk ha (hi_eq.symm.trans e1)
      subst hka
      refine ⟨j0, q, b, d, c0, by rw [hp']; exact e2, hb, hroot, hchain, hc0, ?_⟩
      intro m q' S hjm hag hch' hleaf sp x hx hlc
      obtain ⟨hi, hm, hpath⟩ := hall m q' S hjm hag hch' hleaf sp x hx hlc
      refine ⟨hi, hm, ?_⟩
      have hin' : (st p k, st p b, c) ∈ hmmEdges (E.tp p) p := by rw [← e1, ← e2]; exact hin
      have htm : E.tmat x.tmat = E.tp p := by rw [sp.tm j0 x hx, hag j0 (Nat.le_refl _), hp']; rfl
      have hem : treeEm E e t i = flatEm insts e t (st hi k) := by
        rw [hi_eq, treeEm_st _ _ _ _ _ hk, flatEm_st e t hm k hk, sp.ssid j0 x hx, hag j0 (Nat.le_refl _)]
      rw [hem]
      exact PathTo.step hpath (flat_intra_mem hm (by rw [htm]; exact hmmEdges_move (E.tp p) hk hb hin'))
    · -- to the next phone of the word
      obtain ⟨hp', hka⟩ := st_inj hk (SSVerif.FlatNet.hmmExits_lt hkx) (hi_eq.symm.trans h1)
      subst hka
      let qn : Nat → Nat := fun j' => if j' ≤ j0 then q j' else ch
      have hqn1 : qn (j0 + 1) = ch := if_neg (by omega)
      have hqnle : ∀ j', j' ≤ j0 → qn j' = q j' := fun j' hj' => if_pos hj'
      refine ⟨j0 + 1, qn, 0, d, c0, by rw [hqn1]; exact h2, by omega, by rw [hqnle 0 (Nat.zero_le _)]; exact hroot, ?_,
        by rw [hqnle 0 (Nat.zero_le _)]; exact hc0, ?_⟩
      · intro j' hj'
        rcases Nat.lt_or_ge j' j0 with h5 | h5
        · rw [hqnle j' (by omega), hqnle (j' + 1) (by omega)]; exact hchain j' h5
        · have : j' = j0 := by omega
          subst this
          rw [hqn1, hqnle j' (Nat.le_refl _), hp']; exact hch
      · intro m q' S hjm hag hch' hleaf sp x' hx' _
        have hag0 : ∀ j', j' ≤ j0 → q' j' = q j' := fun j' hj' => (hag j' (by omega)).trans (hqnle j' hj')
        have hq1 : q' (j0 + 1) = ch := (hag (j0 + 1) (Nat.le_refl _)).trans hqn1
        have hex : ∃ x, S j0 x ∧ (j0 = 0 → x.lc = none ∨ x.lc = some c0) := by
          rcases Nat.eq_zero_or_pos j0 with h0 | h0
          · obtain ⟨x, hx, hl⟩ := sp.ex0 c0 (by rw [hag0 0 (Nat.zero_le _)]; exact hc0)
            exact ⟨x, by rw [h0]; exact hx, fun _ => hl⟩
          · obtain ⟨x, hx⟩ := sp.exI j0 h0 (by omega)
            exact ⟨x, hx, fun h => absurd h (by omega)⟩
        obtain ⟨x, hx, hlc⟩ := hex
        obtain ⟨hi, hm, hpath⟩ := hall m q' S (by omega) hag0 hch' hleaf sp x hx hlc
        obtain ⟨hi', hm'⟩ := sp.mem _ x' hx'
        refine ⟨hi', hm', ?_⟩
        have htm : E.tmat x.tmat = E.tp p := by rw [sp.tm j0 x hx, hag0 j0 (Nat.le_refl _), hp']; rfl
        have hem : treeEm E e t i = flatEm insts e t (st hi k) := by
          rw [hi_eq, treeEm_st _ _ _ _ _ hk, flatEm_st e t hm k hk, sp.ssid j0 x hx, hag0 j0 (Nat.le_refl _)]
        have hent : x'.entry = (E.node ch).logs2prob := by rw [sp.entry _ x' hx', hq1]
        have hleafx : x.isLeaf = false := by rw [sp.leaf j0 x hx, hag0 j0 (Nat.le_refl _), hp']; exact hlf
        rw [hem, h3, ← hent]
        exact PathTo.step hpath (flat_phone_mem hm hm' hleafx (sp.arc _ _ _ _ hx hx')
          (by rw [sp.pos _ _ hx', sp.pos _ _ hx]) (by rw [htm]; exact hkx))
    · -- to the next word
      obtain ⟨hp', hka⟩ := st_inj hk (SSVerif.FlatNet.hmmExits_lt hkx) (hi_eq.symm.trans h1)
      subst hka
      obtain ⟨hbit, hrcm⟩ := admits_bits ha
      have hleafq : (E.node (q j0)).leaf = true := by rw [hp']; exact hlf
      obtain ⟨S0, sp0⟩ := I.spec d j0 q hroot hchain hleafq
      have hcr : 0 < j0 → (E.node (q j0)).ctxt.testBit (E.node r).ciExt = true := by
        intro hj
        have hany := sp0.anyF hj
        rw [hp'] at hany ⊢
        unfold rcOf at hrcm
        rw [hany] at hrcm
        simp only [Bool.false_eq_true, if_false] at hrcm
        exact mem_ctxList hrcm
      obtain ⟨L, hL, hLlc, hLrc⟩ := pick_leaf_rc sp0 hc0 (E.node r).ciExt hcr
      obtain ⟨hi, hm, hpath⟩ := hall j0 q S0 (Nat.le_refl _) (fun _ _ => rfl) hchain hleafq sp0 L hL hLlc
      refine ⟨0, fun _ => r, 0, d', (E.node p).ciExt, h2, by omega, hrr, fun j' hj' => absurd hj' (by omega), hbit, ?_⟩
      intro m q' S _ hag _ _ sp x' hx' hlc'
      have hq0 : q' 0 = r := hag 0 (Nat.le_refl 0)
      obtain ⟨hi', hm'⟩ := sp.mem 0 x' hx'
      refine ⟨hi', hm', ?_⟩
      have htm : E.tmat L.tmat = E.tp p := by rw [sp0.tm j0 L hL, hp']; rfl
      have hem : treeEm E e t i = flatEm insts e t (st hi k) := by
        rw [hi_eq, treeEm_st _ _ _ _ _ hk, flatEm_st e t hm k hk, sp0.ssid j0 L hL]
      have hent : x'.entry = (E.node r).logs2prob := by rw [sp.entry 0 x' hx', hq0]
      have hLleaf : L.isLeaf = true := by rw [sp0.leaf j0 L hL]; exact hleafq
      have hLci : L.ciExt = (E.node p).ciExt := by rw [sp0.ciL L hL, hp']
      have hxci : x'.ciExt = (E.node r).ciExt := by rw [sp.ciR x' hx', hq0]
      have hLdst : L.dst = dstOf E p := by rw [sp0.dst L hL, hp']
      rw [hem, h3, ← hent]
      refine PathTo.step hpath (flat_cross_mem hm hm' hLleaf (sp.root x' hx') ?_ ?_ ?_ (by rw [htm]; exact hkx))
      · rw [hLci]; exact hlc' rfl
      · rw [hxci]; exact hLrc
      · rw [hLdst, sp.src x' hx']; exact I.reach _ _ _ hr

/-- **every complete alignment of the lextree network is one of the flat network, with the same score** -/
theorem alignment_sim {E : Env} {M : Model} {insts : Array Inst} (I : Iface E M insts) (e : Nat → Nat → Nat → Int) {T : Nat} {v : Int}
    (h : Alignment (treeNet E) (treeEm E e) T v) :
    Alignment (buildFrom M E.tmat insts).toNet (flatEm insts e) T v := by
  cases h with
  | @mk i c sc hp hx =>
    obtain ⟨j0, q, k, d, c0, hi_eq, hk, hroot, hchain, hc0, hall⟩ := path_sim I e hp
    obtain ⟨p, _, hlf, hop, hr, k', cx, hkx, h1, h2⟩ := mem_exits.1 hx
    obtain ⟨hp', hka⟩ := st_inj hk (SSVerif.FlatNet.hmmExits_lt hkx) (hi_eq.symm.trans h1)
    subst hka
    have hleafq : (E.node (q j0)).leaf = true := by rw [hp']; exact hlf
    obtain ⟨S0, sp0⟩ := I.spec d j0 q hroot hchain hleafq
    obtain ⟨L, hL, hLlc⟩ := pick_leaf_any sp0 hc0
    obtain ⟨hi, hm, hpath⟩ := hall j0 q S0 (Nat.le_refl _) (fun _ _ => rfl) hchain hleafq sp0 L hL hLlc
    have htm : E.tmat L.tmat = E.tp p := by rw [sp0.tm j0 L hL, hp']; rfl
    have hem : treeEm E e (T - 1) i = flatEm insts e (T - 1) (st hi k) := by
      rw [hi_eq, treeEm_st _ _ _ _ _ hk, flatEm_st e (T - 1) hm k hk, sp0.ssid j0 L hL]
    have hLleaf : L.isLeaf = true := by rw [sp0.leaf j0 L hL]; exact hleafq
    have hLdst : L.dst = dstOf E p := by rw [sp0.dst L hL, hp']
    rw [hem, h2]
    refine Alignment.mk hpath (flat_exit_mem hm hLleaf ?_ (by rw [htm]; exact hkx))
    rw [hLdst, ← I.final]; exact I.reach _ _ _ hr

/-- hence the optimum of the lextree network is at most the optimum of the flat network -/
theorem viterbi_tree_le_flat {E : Env} {M : Model} {insts : Array Inst} (I : Iface E M insts) (e : Nat → Nat → Nat → Int) (T : Nat) :
    ole (viterbi (treeNet E) (treeEm E e) T) (viterbi (buildFrom M E.tmat insts).toNet (flatEm insts e) T) := by
  cases hv : viterbi (treeNet E) (treeEm E e) T with
  | none => simp [ole]
  | some v => exact (viterbi_is_max _ _ T).1 v (alignment_sim I e ((viterbi_is_max _ _ T).2 v hv))

end SSVerif.LexCover
