import SSVerif.Proofs.LexCoverRev
import SSVerif.Proofs.LexCoverBuild
/-!
# The converse interface (`Proofs/LexCoverRev.lean`) holds for the lextree the code builds (C02)

From `lexHypsB M li` and `ctxRangeB M`: the instances of every word arc form a family (`FamOK`), and
`C02_flat_instances_in_lextree` (`bridge_filler` / `bridge_single` / `bridge_multi`) gives a witness path for every pair
(word-initial instance, word-final instance).  Hence every alignment of the flat network is an alignment of the lextree network.
-/
namespace SSVerif.LexCover
open SSVerif.Search SSVerif.Hist SSVerif.Hmm SSVerif.Viterbi SSVerif.FlatNet SSVerif.SearchScore SSVerif.LexFlat
open SSVerif.Generated.Search (ctxtBvsz)

variable {ar : Bool}

theorem getD_mem' {l : List Nat} {k : Nat} (h : k < l.length) : l.getD k 0 ∈ l := by
  rw [List.getD_eq_getElem?_getD, List.getElem?_eq_getElem h]
  exact List.getElem_mem h

theorem insts_facts2 {M : Model} {i : Nat} {a : Arc} {w : Word} {l : List Inst} (hi : instsOfArc M i a w = some l) :
    ∀ y ∈ l, y.arc = i ∧ (y.pos = 0 → y.isRoot = true) ∧ (y.pos = w.pron.length - 1 → y.isLeaf = true) ∧
      (y.isRoot = false → y.isLeaf = false → 1 ≤ y.pos ∧ y.pos < w.pron.length - 1) ∧ (y.ciExt = M.sil ∨ y.ciExt ∈ w.pron) ∧
      (y.isRoot = true → y.lc = none → w.filler = true ∧ w.pron.length = 1) ∧ (y.isLeaf = true → y.rc = none → w.pron.length = 1) := by
  unfold instsOfArc at hi
  cases hp : w.pron with
  | nil => simp [hp] at hi
  | cons p0 t =>
    cases t with
    | nil =>
      by_cases hf : w.filler = true
      · simp only [hp, hf, if_true, Option.bind_eq_bind, Option.bind_eq_some_iff, Option.pure_def, Option.some.injEq] at hi
        obtain ⟨ss, _, tmv, _, hins⟩ := hi
        intro y hy
        rw [← hins] at hy
        simp only [List.mem_singleton] at hy
        subst hy
        simp [hf]
      · have hf' : w.filler = false := by simpa using hf
        simp only [hp, hf', Bool.false_eq_true, if_false, Option.bind_eq_bind, Option.bind_eq_some_iff] at hi
        obtain ⟨tmv, _, hmap⟩ := hi
        intro y hy
        obtain ⟨lc, _, hfx⟩ := mem_mapM_option hmap y hy
        simp only [Option.bind_eq_some_iff, Option.pure_def, Option.some.injEq] at hfx
        obtain ⟨ss, _, hxe⟩ := hfx
        subst hxe
        simp
    | cons p1 rest =>
      simp only [hp, Option.bind_eq_bind, Option.bind_eq_some_iff, Option.pure_def, Option.some.injEq] at hi
      obtain ⟨tm0, _, roots, hroots, inner, hinner, tml, _, leaves, hleaves, hins⟩ := hi
      intro y hy
      rw [← hins] at hy
      rcases List.mem_append.1 hy with h1 | h1
      · rcases List.mem_append.1 h1 with h2 | h2
        · obtain ⟨k, _, hk⟩ := mem_mapM_option hroots y h2
          simp only [Option.bind_eq_some_iff, Option.some.injEq] at hk
          obtain ⟨_, _, hk⟩ := hk
          subst hk
          simp
        · obtain ⟨k, hkm, hk⟩ := mem_mapM_option hinner y h2
          simp only [Option.bind_eq_some_iff, Option.some.injEq] at hk
          obtain ⟨_, _, _, _, hk⟩ := hk
          subst hk
          have hkr := List.mem_range.1 hkm
          simp only [List.length_cons] at hkr
          refine ⟨rfl, ?_, ?_, ?_, Or.inr (getD_mem' (by simp only [List.length_cons]; omega)), ?_, ?_⟩
          · simp
          · simp only [List.length_cons]; intro h; omega
          · intro _ _; simp only [List.length_cons]; omega
          · simp
          · simp
      · obtain ⟨k, _, hk⟩ := mem_mapM_option hleaves y h1
        simp only [Option.bind_eq_some_iff, Option.some.injEq] at hk
        obtain ⟨_, _, hk⟩ := hk
        subst hk
        refine ⟨rfl, ?_, ?_, ?_, Or.inr (getD_mem' (by simp)), ?_, ?_⟩
        · simp
        · simp
        · simp
        · simp
        · simp

theorem hops_reach (M : Model) {s d : Nat} {hop : Int} (h : hop ∈ hops M s d) : (d, hop) ∈ reach (fsgOf M) s := by
  unfold hops at h
  rcases List.mem_append.1 h with h | h
  · split at h
    · rename_i hsd
      simp only [List.mem_singleton] at h
      subst h; subst hsd
      exact mem_reach.2 (Or.inl ⟨rfl, rfl⟩)
    · cases h
  · obtain ⟨n, hn, hf⟩ := List.mem_filterMap.1 h
    split at hf
    · rename_i hc
      simp only [Option.some.injEq] at hf
      subst hf
      unfold nullArcs at hn
      obtain ⟨hnm, hnw⟩ := List.mem_filter.1 hn
      obtain ⟨lid, hlid⟩ := List.mem_iff_getElem?.1 hnm
      have hlink := fsgOf_link M hlid
      have hlt : lid < M.arcs.length := by
        rcases Nat.lt_or_ge lid M.arcs.length with h5 | h5
        · exact h5
        · rw [List.getElem?_eq_none h5] at hlid; cases hlid
      refine mem_reach.2 (Or.inr ⟨lid, (fsgOf M).link lid, ?_, by rw [hlink]; exact hc.2.symm, by rw [hlink]⟩)
      unfold nullFrom
      refine List.mem_filterMap.2 ⟨lid, List.mem_range.2 (by rw [fsgOf_size]; exact hlt), ?_⟩
      rw [if_pos]
      rw [hlink]
      exact ⟨(widInt_neg n).2 (Option.isNone_iff_eq_none.1 hnw), hc.1⟩
    · cases hf

theorem allInsts_elim {M : Model} {l : List Inst} (hl : allInsts M = some l) {x : Inst} (hx : x ∈ l) :
    ∃ i a w il y, (i, a, w) ∈ wordArcs M ∧ instsOfArc M i a w = some il ∧ y ∈ il ∧ x = stamp i a y := by
  unfold allInsts at hl
  obtain ⟨l', hl', hxl'⟩ := optFlatten_mem _ l hl x hx
  obtain ⟨⟨i, a, w⟩, hm, heq⟩ := List.mem_map.1 hl'
  simp only at heq
  cases hi : instsOfArc M i a w with
  | none => rw [hi] at heq; cases heq
  | some il =>
    rw [hi] at heq
    simp only [Option.map_some, Option.some.injEq] at heq
    subst heq
    obtain ⟨y, hy, rfl⟩ := List.mem_map.1 hxl'
    exact ⟨i, a, w, il, y, hm, hi, hy, rfl⟩

theorem zip_mem {l : List Inst} {x : Inst} {hi : Nat} (h : (x, hi) ∈ l.toArray.toList.zipIdx) : x ∈ l := by
  have : l[hi]? = some x := by simpa using List.mem_zipIdx_iff_getElem?.1 h
  exact List.mem_of_getElem? this

theorem wordArcs_unique {M : Model} {i : Nat} {a a2 : Arc} {w w2 : Word} (h : (i, a, w) ∈ wordArcs M) (h2 : (i, a2, w2) ∈ wordArcs M) :
    a2 = a ∧ w2 = w := by
  obtain ⟨g1, wid, hw, hd⟩ := (mem_wordArcs M _).1 h
  obtain ⟨g2, wid2, hw2, hd2⟩ := (mem_wordArcs M _).1 h2
  simp only at g1 g2 hw hw2 hd hd2
  have ha : a2 = a := by rw [g1] at g2; exact (Option.some.inj g2).symm
  subst ha
  rw [hw] at hw2
  have : wid2 = wid := (Option.some.inj hw2).symm
  subst this
  rw [hd] at hd2
  exact ⟨rfl, (Option.some.inj hd2).symm⟩

theorem ctx_lt {M : Model} (h : ctxRangeB M = true) {i : Nat} {a : Arc} {w : Word} (hx : (i, a, w) ∈ wordArcs M) {c : Nat}
    (hc : c = M.sil ∨ c ∈ w.pron) : c < 32 * ctxtBvsz := by
  unfold ctxRangeB at h
  simp only [Bool.and_eq_true, decide_eq_true_eq, List.all_eq_true] at h
  rcases hc with rfl | hc
  · exact h.1
  · exact h.2 (i, a, w) hx c hc

section Wit
variable {M : Model} {li : LexIn} (tmat : Nat → List Nat) {i : Nat} {a : Arc} {w : Word} {il : List Inst}

/-- a root-to-leaf pnode path whose pnodes are (`NodeOf`) the instances of the word arc is a witness -/
theorem wit_mk (hA : Agree M li) (hLk : LookAgree M li) (_hrange : ctxRangeB M = true) (hx : (i, a, w) ∈ wordArcs M)
    (hi : instsOfArc M i a w = some il) {R0 L0 : Inst} (hR0 : R0 ∈ il) (hRr : R0.isRoot = true) (hL0 : L0 ∈ il) (hLl : L0.isLeaf = true)
    (q : Nat → Nat) (m : Nat) (hroot : q 0 ∈ (buildLexTree li (fsgOf M)).roots a.src)
    (hchain : ∀ j, j < m → q (j + 1) ∈ (buildLexTree li (fsgOf M)).children (q j))
    (nR : NodeOf ((buildLexTree li (fsgOf M)).node (q 0)) R0) (nL : NodeOf ((buildLexTree li (fsgOf M)).node (q m)) L0)
    (nI : ∀ x ∈ il, x.isRoot = false → x.isLeaf = false → NodeOf ((buildLexTree li (fsgOf M)).node (q x.pos)) x)
    (hall : R0.lc = none → AllCtx ((buildLexTree li (fsgOf M)).node (q 0))) :
    Wit (envOfG ar M li tmat) (il.map (stamp i a)) (stamp i a R0) (stamp i a L0) m q := by
  have f2R := insts_facts2 hi R0 hR0
  have f2L := insts_facts2 hi L0 hL0
  have v := arcView hA hLk hx
  obtain ⟨wid, hwid, hwd, _⟩ := v.wid
  have hlinkq : ((buildLexTree li (fsgOf M)).node (q m)).link = i := by rw [nL.2.2.2.2.2.1 hLl]; exact f2L.1
  refine { root := hroot, chain := hchain, leaf := by rw [← hLl]; exact nL.2.1, parR := ?_, parL := ?_, parI := ?_, ciR := ?_, ciL := ?_,
           lcbit := ?_, rcOK := ?_, dst := ?_ }
  · exact ⟨nR.2.2.1.symm, nR.2.2.2.1.symm, nR.2.2.2.2.1.symm⟩
  · exact ⟨nL.2.2.1.symm, nL.2.2.2.1.symm, nL.2.2.2.2.1.symm⟩
  · intro x hxm hr hl
    obtain ⟨x0, hx0, rfl⟩ := List.mem_map.1 hxm
    have hn := nI x0 hx0 hr hl
    exact ⟨hn.2.2.1.symm, hn.2.2.2.1.symm, hn.2.2.2.2.1.symm⟩
  · exact nR.2.2.2.2.2.2.1 (Or.inl hRr)
  · exact nL.2.2.2.2.2.2.1 (Or.inr hLl)
  · intro c hc h
    rcases h with h | h
    · exact hall h c hc
    · exact nR.2.2.2.2.2.2.2.1 c h
  · intro c hc h
    have hany : (envOfG ar M li tmat).anyRc ((envOfG ar M li tmat).g.link ((envOfG ar M li tmat).node (q m)).link).wid.toNat =
        ((ar && w.filler) || w.pron.length == 1) := by
      show (match M.word ((fsgOf M).link ((buildLexTree li (fsgOf M)).node (q m)).link).wid.toNat with
        | some wd => (ar && wd.filler) || wd.pron.length == 1 | none => false) = _
      rw [hlinkq, hwid, hwd]
    unfold rcOf
    rw [hany]
    rcases h with h | h
    · have h1 : w.pron.length = 1 := f2L.2.2.2.2.2.2 hLl h
      simp only [h1, beq_self_eq_true, Bool.or_true, if_true]
      exact mem_allCtx hc
    · split
      · exact mem_allCtx hc
      · unfold SearchScore.ctxList
        exact List.mem_filter.2 ⟨mem_allCtx hc, nL.2.2.2.2.2.2.2.2 c h⟩
  · show ((fsgOf M).link ((buildLexTree li (fsgOf M)).node (q m)).link).dst = a.dst
    rw [hlinkq, fsgOf_link M (wordArcs_spec hx).1]

end Wit

/-- **the instances of a word arc are a family with a witness path for every (root, leaf) pair** -/
theorem fam_of_build {M : Model} {li : LexIn} (tmat : Nat → List Nat) {l : List Inst} (hyp : lexHypsB M li = true)
    (hrange : ctxRangeB M = true) (hl : allInsts M = some l) {i : Nat} {a : Arc} {w : Word} {il : List Inst}
    (hx : (i, a, w) ∈ wordArcs M) (hi : instsOfArc M i a w = some il) :
    FamOK (envOfG ar M li tmat) l.toArray (il.map (stamp i a)) (w.pron.length - 1) := by
  obtain ⟨hA, hLk, hTm, _⟩ := lexHyps_sound (of_decide_eq_true hyp)
  have f1 := insts_facts hi
  have f2 := insts_facts2 hi
  refine { closed := ?_, rootPos := ?_, posRoot := ?_, leafPos := ?_, posLeaf := ?_, intPos := ?_, ciLt := ?_, wit := ?_ }
  · intro y hy z hz hzm harc
    obtain ⟨y0, hy0, rfl⟩ := List.mem_map.1 hy
    obtain ⟨i2, a2, w2, il2, z0, hx2, hi2, hz0, rfl⟩ := allInsts_elim hl (zip_mem hzm)
    have hii : i2 = i := harc
    subst hii
    obtain ⟨rfl, rfl⟩ := wordArcs_unique hx hx2
    rw [hi] at hi2
    have := Option.some.inj hi2
    subst this
    exact List.mem_map.2 ⟨z0, hz0, rfl⟩
  · intro y hy hr
    obtain ⟨y0, hy0, rfl⟩ := List.mem_map.1 hy
    exact (f1 y0 hy0).1 hr
  · intro y hy hp
    obtain ⟨y0, hy0, rfl⟩ := List.mem_map.1 hy
    exact (f2 y0 hy0).2.1 hp
  · intro y hy hlf
    obtain ⟨y0, hy0, rfl⟩ := List.mem_map.1 hy
    exact (f1 y0 hy0).2.1 hlf
  · intro y hy hp
    obtain ⟨y0, hy0, rfl⟩ := List.mem_map.1 hy
    exact (f2 y0 hy0).2.2.1 hp
  · intro y hy hr hlf
    obtain ⟨y0, hy0, rfl⟩ := List.mem_map.1 hy
    exact (f2 y0 hy0).2.2.2.1 hr hlf
  · intro y hy
    obtain ⟨y0, hy0, rfl⟩ := List.mem_map.1 hy
    exact ctx_lt hrange hx (f2 y0 hy0).2.2.2.2.1
  · intro R hR hRr L hL hLl hm0
    obtain ⟨R0, hR0, rfl⟩ := List.mem_map.1 hR
    obtain ⟨L0, hL0, rfl⟩ := List.mem_map.1 hL
    have hRr0 : R0.isRoot = true := hRr
    have hLl0 : L0.isLeaf = true := hLl
    cases hp : w.pron with
    | nil => unfold instsOfArc at hi; simp [hp] at hi
    | cons p0 t =>
      cases t with
      | nil =>
        have hLR : stamp i a L0 = stamp i a R0 := hm0 (by rw [hp]; rfl)
        rw [hLR]
        have hLl1 : R0.isLeaf = true := by
          have : (stamp i a L0).isLeaf = (stamp i a R0).isLeaf := by rw [hLR]
          exact this ▸ hLl0
        by_cases hf : w.filler = true
        · obtain ⟨r, hr, hn, hall⟩ := bridge_filler hA hLk hx hp hf hi R0 hR0
          exact ⟨fun _ => r, wit_mk tmat hA hLk hrange hx hi hR0 hRr0 hR0 hLl1 (fun _ => r) 0 hr (fun j hj => absurd hj (by omega)) hn hn
            (fun x hx' hr' hl' => by
              have := ((f1 x hx').2.2 (by rw [hp]; rfl)).2
              rw [hr'] at this; cases this) (fun _ => hall)⟩
        · have hf' : w.filler = false := by simpa using hf
          obtain ⟨r, hr, hn⟩ := bridge_single hA hLk hx hp hf' hi R0 hR0
          exact ⟨fun _ => r, wit_mk tmat hA hLk hrange hx hi hR0 hRr0 hR0 hLl1 (fun _ => r) 0 hr (fun j hj => absurd hj (by omega)) hn hn
            (fun x hx' hr' hl' => by
              have := ((f1 x hx').2.2 (by rw [hp]; rfl)).2
              rw [hr'] at this; cases this) (fun h => absurd ((f2 R0 hR0).2.2.2.2.2.1 hRr0 h).1 hf)⟩
      | cons p1 rest =>
        obtain ⟨r, hr, qf, lf, hnR, hnL, hint, hk0, hk1⟩ := bridge_multi hA hLk hTm hx hp hi R0 hR0 hRr0 L0 hL0 hLl0
        have e2 : (p0 :: p1 :: rest).length - 2 = rest.length := by simp
        have e1 : (p0 :: p1 :: rest).length - 1 = rest.length + 1 := by simp
        rw [hp] at hint hk0 hk1
        rw [e2] at hint hk0 hk1
        rw [e1]
        let q : Nat → Nat := fun j => if j = 0 then r else if j = rest.length + 1 then lf else qf j
        have hq0 : q 0 = r := if_pos rfl
        have hqm : q (rest.length + 1) = lf := by
          show (if rest.length + 1 = 0 then r else if rest.length + 1 = rest.length + 1 then lf else qf (rest.length + 1)) = lf
          rw [if_neg (by omega), if_pos rfl]
        have hqi : ∀ j, 1 ≤ j → j ≤ rest.length → q j = qf j := by
          intro j h1 h2
          show (if j = 0 then r else if j = rest.length + 1 then lf else qf j) = qf j
          rw [if_neg (by omega), if_neg (by omega)]
        refine ⟨q, wit_mk tmat hA hLk hrange hx hi hR0 hRr0 hL0 hLl0 q (rest.length + 1) (by rw [hq0]; exact hr) ?_ (by rw [hq0]; exact hnR)
          (by rw [hqm]; exact hnL) ?_ ?_⟩
        · intro j hj
          rcases Nat.eq_zero_or_pos rest.length with hz | hz
          · have hj0 : j = 0 := by omega
            subst hj0
            have : q (0 + 1) = lf := by rw [← hqm, hz]
            rw [this, hq0]; exact hk0 hz
          · obtain ⟨c1, c2, c3⟩ := hk1 hz
            rcases Nat.eq_zero_or_pos j with hj0 | hj0
            · subst hj0
              rw [hqi (0 + 1) (by omega) (by omega), hq0]; exact c1
            · rcases Nat.lt_or_ge j rest.length with h5 | h5
              · rw [hqi (j + 1) (by omega) (by omega), hqi j hj0 (by omega)]; exact c2 j hj0 h5
              · have : j = rest.length := by omega
                subst this
                rw [hqm, hqi rest.length hj0 (Nat.le_refl _)]; exact c3
        · intro x hx' hr' hl'
          obtain ⟨h1, h2, h3⟩ := hint x hx' hr' hl'
          rw [hqi x.pos h1 h2]; exact h3
        · intro h
          have := ((f2 R0 hR0).2.2.2.2.2.1 hRr0 h).2
          rw [hp] at this
          simp at this

/-- the converse interface, for the lextree the code builds -/
theorem riface_of_build {M : Model} {li : LexIn} (tmat : Nat → List Nat) {l : List Inst} (hyp : lexHypsB M li = true)
    (hrange : ctxRangeB M = true) (hl : allInsts M = some l) : RIface (envOfG ar M li tmat) M l.toArray :=
  { fam := fun x hi hm => by
      obtain ⟨i, a, w, il, y, hx, hii, hy, rfl⟩ := allInsts_elim hl (zip_mem hm)
      exact ⟨il.map (stamp i a), w.pron.length - 1, List.mem_map.2 ⟨y, hy, rfl⟩, fam_of_build tmat hyp hrange hl hx hii⟩
    reach := fun _ _ _ h => hops_reach M h
    start := rfl, final := rfl, sil := rfl
    silLt := by
      unfold ctxRangeB at hrange
      simp only [Bool.and_eq_true, decide_eq_true_eq] at hrange
      exact hrange.1 }

/-- **the lextree network of the lextree the code builds and the flat network have the same optimum** -/
theorem viterbi_tree_eq_flat {M : Model} {li : LexIn} (tmat : Nat → List Nat) {l : List Inst} (hyp : lexHypsB M li = true)
    (hfill : ar = true → fillerSingleB M = true) (hbitB : leafCtxB (buildLexTree li (fsgOf M)) = true) (hrange : ctxRangeB M = true)
    (hl : allInsts M = some l) (e : Nat → Nat → Nat → Int) (T : Nat) :
    viterbi (treeNet (envOfG ar M li tmat)) (treeEm (envOfG ar M li tmat) e) T =
      viterbi (buildFrom M tmat l.toArray).toNet (flatEm l.toArray e) T :=
  ole_antisymm (viterbi_tree_le_flat (iface_of_build tmat hyp hfill hbitB hl) e T)
    (viterbi_flat_le_tree (riface_of_build tmat hyp hrange hl) e T)

end SSVerif.LexCover
