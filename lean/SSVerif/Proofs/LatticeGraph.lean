import SSVerif.Model.Lattice
import SSVerif.Proofs.Nfa
/-! graph theorems that lift the local predicate `LatticeOK` to statements about all paths -/
namespace SSVerif.Lattice
open SSVerif.Nfa

variable {G : Nfa} {L : Lat}

/-! ### paths -/

theorem Path.append {u v w : Nat} {p q : List Link} (h1 : Path L u p v) (h2 : Path L v q w) :
    Path L u (p ++ q) w := by
  induction h1 with
  | nil => simpa using h2
  | cons hm hs _ ih => exact .cons hm hs (ih h2)

theorem Path.snoc {u v : Nat} {p : List Link} {l : Link} (h : Path L u p v) (hm : l ∈ L.links)
    (hs : l.src = v) : Path L u (p ++ [l]) l.dst :=
  h.append (.cons hm hs (.nil _))

theorem Path.mem {u v : Nat} {p : List Link} (h : Path L u p v) : ∀ l ∈ p, l ∈ L.links := by
  induction h with
  | nil => intro l hl; cases hl
  | cons hm _ _ ih =>
    intro l hl
    rcases List.mem_cons.1 hl with rfl | hl
    · exact hm
    · exact ih l hl

theorem Path.eq_of_nil {u v : Nat} (h : Path L u [] v) : u = v := by
  generalize hp : ([] : List Link) = p at h
  cases h with
  | nil => rfl
  | cons => cases hp

theorem pathB_iff : ∀ (p : List Link) (u v : Nat), pathB L u p v = true ↔ Path L u p v := by
  intro p
  induction p with
  | nil =>
    intro u v
    simp only [pathB, beq_iff_eq]
    constructor
    · rintro rfl; exact .nil _
    · intro h; cases h; rfl
  | cons l ls ih =>
    intro u v
    simp only [pathB, Bool.and_eq_true, List.contains_iff_mem, beq_iff_eq, ih]
    constructor
    · rintro ⟨⟨h1, h2⟩, h3⟩; exact .cons h1 h2 h3
    · intro h; cases h with
      | cons h1 h2 h3 => exact ⟨⟨h1, h2⟩, h3⟩

/-! ### every link increases the rank -/

theorem node_sf_le (ok : LatticeOK G L) {v : Nat} (hv : v < L.n) : (L.node v).sf ≤ L.nframes := by
  have h := ok.nodeTimes v hv
  cases hr : (L.node v).real with
  | true => have := h.1 hr; omega
  | false =>
    have := h.2 hr
    by_cases hs : v = L.start
    · have := this.1 hs; omega
    · have := this.2.1 hs; omega

theorem rank_le (ok : LatticeOK G L) {v : Nat} (hv : v < L.n) : L.rank v ≤ L.nframes + 1 := by
  unfold Lat.rank
  have := node_sf_le ok hv
  split <;> omega

theorem rank_lt (ok : LatticeOK G L) {l : Link} (hl : l ∈ L.links) : L.rank l.src < L.rank l.dst := by
  have ht := ok.linkTimes l hl
  have hse := ok.startEnd.1 l hl
  have hep := ok.endpoints.2.2 l hl
  have hd : L.rank l.dst = (L.node l.dst).sf + 1 := by
    unfold Lat.rank; rw [if_neg]; intro h; exact hse.1 h.1
  rw [hd]
  cases hs : (L.node l.src).real with
  | false =>
    have := ht.2.2 hs
    have : L.rank l.src = 0 := by unfold Lat.rank; rw [if_pos ⟨this.1, hs⟩]
    omega
  | true =>
    have hr : L.rank l.src = (L.node l.src).sf + 1 := by
      unfold Lat.rank; rw [if_neg]; intro h; rw [hs] at h; exact absurd h.2 (by simp)
    rw [hr]
    cases hdr : (L.node l.dst).real with
    | true => have := ht.1 hs hdr; omega
    | false =>
      have h1 := ht.2.1 hs hdr
      have h2 := (ok.nodeTimes l.dst hep.2).2 hdr
      have h3 := h2.2.1 hse.1
      have h4 := (ok.nodeTimes l.src hep.1).1 hs
      omega

theorem path_rank (ok : LatticeOK G L) {u v : Nat} {p : List Link} (h : Path L u p v) :
    L.rank u + p.length ≤ L.rank v := by
  induction h with
  | nil => simp
  | cons hm hs _ ih =>
    have := rank_lt ok hm
    subst hs
    simp only [List.length_cons]; omega

theorem path_end_lt (ok : LatticeOK G L) {u v : Nat} {p : List Link} (h : Path L u p v) (hu : u < L.n) :
    v < L.n := by
  induction h with
  | nil => exact hu
  | cons hm _ _ ih => exact ih (ok.endpoints.2.2 _ hm).2

/-- no cycle -/
theorem acyclic (ok : LatticeOK G L) {u : Nat} {p : List Link} (h : Path L u p u) : p = [] := by
  have := path_rank ok h
  have : p.length = 0 := by omega
  exact List.length_eq_zero_iff.1 this

/-- a path has at most `nframes + 1` links -/
theorem path_length_le (ok : LatticeOK G L) {u v : Nat} {p : List Link} (h : Path L u p v) (hu : u < L.n) :
    p.length ≤ L.nframes + 1 := by
  have h1 := path_rank ok h
  have h2 := rank_le ok (path_end_lt ok h hu)
  omega

/-! ### every node lies on a start→end path -/

theorem reach_from_start (ok : LatticeOK G L) : ∀ (r v : Nat), L.rank v = r → v < L.n →
    ∃ p, Path L L.start p v := by
  intro r
  induction r using Nat.strongRecOn with
  | _ r ih =>
    intro v hr hv
    by_cases hs : v = L.start
    · subst hs; exact ⟨[], .nil _⟩
    · obtain ⟨l, hl, hd⟩ := ok.startEnd.2.1 v hv hs
      have hlt := rank_lt ok hl
      rw [hd, hr] at hlt
      obtain ⟨p, hp⟩ := ih _ hlt l.src rfl (ok.endpoints.2.2 l hl).1
      exact ⟨p ++ [l], hd ▸ hp.snoc hl rfl⟩

theorem reach_final (ok : LatticeOK G L) : ∀ (k v : Nat), L.nframes + 2 - L.rank v = k → v < L.n →
    ∃ p, Path L v p L.final := by
  intro k
  induction k using Nat.strongRecOn with
  | _ k ih =>
    intro v hk hv
    by_cases hf : v = L.final
    · subst hf; exact ⟨[], .nil _⟩
    · obtain ⟨l, hl, hs⟩ := ok.startEnd.2.2 v hv hf
      have hlt := rank_lt ok hl
      have hd := (ok.endpoints.2.2 l hl).2
      have hle := rank_le ok hd
      rw [hs] at hlt
      obtain ⟨p, hp⟩ := ih (L.nframes + 2 - L.rank l.dst) (by omega) l.dst rfl hd
      exact ⟨l :: p, .cons hl hs hp⟩

/-! ### labels along any path from the start form a grammar path from the start state -/

/-- words of the word nodes entered along a list of links -/
def tailWords (L : Lat) (p : List Link) : List Nat :=
  p.filterMap fun l => if (L.node l.dst).real then some (L.node l.dst).word else none

/-- the word sequence of a path that begins at node `u` -/
def sentence (L : Lat) (u : Nat) (p : List Link) : List Nat :=
  (if (L.node u).real then [(L.node u).word] else []) ++ tailWords L p

theorem stepOK_reach {q w r : Nat} (h : stepOK G q w r) : Reach G q [w] r := by
  rcases h with h | ⟨a, ha, h1, h2, h3⟩
  · exact .sym h .refl
  · obtain ⟨a1, a2, a3⟩ := a
    simp only at h1 h2 h3
    subst h1 h2
    exact .eps ha (.sym h3 .refl)

theorem gstate_of_state {v r : Nat} (h : (L.node v).state = some r) : gstate G L v = r := by
  unfold gstate; rw [h]; rfl

theorem walk_grammar (ok : LatticeOK G L) {u v : Nat} {p : List Link} (h : Path L u p v) :
    ∃ q, Reach G (gstate G L u) (tailWords L p) q ∧ ((L.node v).real = true → (L.node v).state = some q) := by
  induction h with
  | nil u =>
    refine ⟨gstate G L u, .refl, ?_⟩
    intro hr
    unfold Node.real at hr
    cases hst : (L.node u).state with
    | none => rw [hst] at hr; cases hr
    | some r => rw [gstate_of_state hst]
  | @cons u l ls v hm hs hp ih =>
    cases hdr : (L.node l.dst).real with
    | true =>
      obtain ⟨q, hq, hv⟩ := ih
      have hg := ok.linkGrammar l hm
      unfold LinkGrammarOK at hg
      unfold Node.real at hdr
      cases hst : (L.node l.dst).state with
      | none => rw [hst] at hdr; cases hdr
      | some r =>
        rw [hst] at hg
        simp only at hg
        rw [gstate_of_state hst] at hq
        rw [hs] at hg
        refine ⟨q, ?_, hv⟩
        have : tailWords L (l :: ls) = [(L.node l.dst).word] ++ tailWords L ls := by
          simp [tailWords, Node.real, hst]
        rw [this]
        exact (stepOK_reach hg).trans hq
    | false =>
      -- a synthetic target can only be the end node, which has no exits
      have hd := (ok.endpoints.2.2 l hm).2
      have hmk := ok.markers l.dst hd hdr
      have hne := (ok.startEnd.1 l hm).1
      have hfin : l.dst = L.final := by rcases hmk with h | h; exact absurd h hne; exact h
      have hls : ls = [] := by
        cases hp with
        | nil => rfl
        | cons hm' hs' _ => exact absurd (hs'.trans hfin) (ok.startEnd.1 _ hm').2
      subst hls
      cases hp
      refine ⟨gstate G L u, ?_, ?_⟩
      · have : tailWords L [l] = [] := by simp [tailWords, hdr]
        rw [this]; exact .refl
      · intro h; rw [hdr] at h; cases h

/-- the word sequence of every path from the start node is the label sequence of a path of the
grammar from its start state (ending in the grammar state stored with the last word node) -/
theorem paths_grammar (ok : LatticeOK G L) {v : Nat} {p : List Link} (h : Path L L.start p v) :
    ∃ q, Reach G G.start (sentence L L.start p) q ∧ ((L.node v).real = true → (L.node v).state = some q) := by
  obtain ⟨q, hq, hv⟩ := walk_grammar ok h
  refine ⟨q, ?_, hv⟩
  unfold sentence
  cases hr : (L.node L.start).real with
  | false =>
    have : gstate G L L.start = G.start := by
      unfold gstate; unfold Node.real at hr
      cases hst : (L.node L.start).state with
      | none => rfl
      | some r => rw [hst] at hr; cases hr
    rw [this] at hq
    simpa using hq
  | true =>
    have hg := ok.startGrammar
    unfold StartGrammarOK at hg
    unfold Node.real at hr
    cases hst : (L.node L.start).state with
    | none => rw [hst] at hr; cases hr
    | some r =>
      rw [hst] at hg
      simp only at hg
      rw [gstate_of_state hst] at hq
      simp only [if_true]
      exact (stepOK_reach hg).trans hq

/-! ### first-best witness, cache -/

theorem checkFirstBest_sound {segs : List Seg} {ls : List Link} (h : checkFirstBest L segs ls = true) :
    FirstBestInLattice L segs := by
  unfold checkFirstBest at h
  simp only [Bool.and_eq_true, beq_iff_eq] at h
  exact ⟨ls, (pathB_iff _ _ _).1 h.1, h.2⟩

theorem orElse_isSome_right {α : Type} (a b : Option α) (h : b.isSome = true) : (a <|> b).isSome = true := by
  cases a with
  | none => simpa using h
  | some x => rfl

theorem orElse_isSome_left {α : Type} (a b : Option α) (h : a.isSome = true) : (a <|> b).isSome = true := by
  cases a with
  | none => cases h
  | some x => rfl

/-- the search for a witness path is complete: whenever the segmentation is the instance sequence of a
path to the end node, the search (with enough fuel) finds a path -/
theorem findSegPath_complete : ∀ (ls : List Link) (u : Nat) (segs : List Seg) (fuel : Nat),
    Path L u ls L.final → instances L u ls = segs → ls.length < fuel → (findSegPath L fuel u segs).isSome = true := by
  intro ls
  induction ls with
  | nil =>
    intro u segs fuel hp hi hf
    have hu : u = L.final := hp.eq_of_nil
    cases fuel with
    | zero => omega
    | succ fuel =>
      unfold findSegPath
      simp only [instances] at hi
      cases hr : (L.node u).real with
      | true =>
        rw [hr] at hi
        simp only [if_true] at hi ⊢
        subst hi
        simp only [and_self, if_true]
        apply orElse_isSome_left
        simp [hu]
      | false =>
        rw [hr] at hi
        simp only [Bool.false_eq_true, if_false] at hi ⊢
        subst hi
        apply orElse_isSome_left
        simp [hu]
  | cons l ls ih =>
    intro u segs fuel hp hi hf
    cases hp with
    | cons hm hs hrest =>
      cases fuel with
      | zero => omega
      | succ fuel =>
        have hlen : ls.length < fuel := by simp at hf; omega
        unfold findSegPath
        simp only [instances] at hi
        have hex : l ∈ exits L u := by
          simp only [exits, List.mem_filter, beq_iff_eq]; exact ⟨hm, hs⟩
        cases hr : (L.node u).real with
        | true =>
          rw [hr] at hi
          simp only [if_true, List.singleton_append] at hi ⊢
          subst hi
          simp only [and_self, if_true]
          apply orElse_isSome_right
          rw [List.findSome?_isSome_iff]
          refine ⟨l, hex, ?_⟩
          rw [if_pos rfl, Option.isSome_map]
          exact ih l.dst _ fuel hrest rfl hlen
        | false =>
          rw [hr] at hi
          simp only [Bool.false_eq_true, if_false, List.nil_append] at hi ⊢
          subst hi
          apply orElse_isSome_right
          rw [List.findSome?_isSome_iff]
          refine ⟨l, hex, ?_⟩
          rw [Option.isSome_map]
          exact ih l.dst _ fuel hrest rfl hlen

theorem orElse_eq_some {α : Type} {a b : Option α} {x : α} (h : (a <|> b) = some x) : a = some x ∨ (a = none ∧ b = some x) := by
  cases a with
  | none => exact Or.inr ⟨rfl, by simpa using h⟩
  | some y => exact Or.inl (by simpa using h)

/-- the search is sound: a path it returns leads to the end node and has the given instance sequence -/
theorem findSegPath_sound : ∀ (fuel u : Nat) (segs : List Seg) (ls : List Link),
    findSegPath L fuel u segs = some ls → Path L u ls L.final ∧ instances L u ls = segs := by
  intro fuel
  induction fuel with
  | zero => intro u segs ls h; simp [findSegPath] at h
  | succ fuel ih =>
    intro u segs ls h
    unfold findSegPath at h
    cases hr : (L.node u).real with
    | true =>
      rw [hr] at h
      simp only [if_true] at h
      cases segs with
      | nil => simp at h
      | cons s rest =>
        simp only at h
        split at h
        · rename_i hc
          rcases orElse_eq_some h with h1 | ⟨_, h2⟩
          · split at h1
            · rename_i hfin
              cases h1
              obtain ⟨rfl, rfl, hef⟩ := hfin
              refine ⟨.nil _, ?_⟩
              simp only [instances, hr, if_true]
              cases s
              simp_all
            · cases h1
          · obtain ⟨l, hl, hfl⟩ := List.exists_of_findSome?_eq_some h2
            by_cases hef : (if (L.node l.dst).real = true then l.ef else (L.node u).lef) = s.ef
            · rw [if_pos hef] at hfl
              obtain ⟨ls', h3, rfl⟩ := Option.map_eq_some_iff.1 hfl
              obtain ⟨hp, hi⟩ := ih l.dst rest ls' h3
              have hm : l ∈ L.links ∧ l.src = u := by simpa [exits, List.mem_filter] using hl
              refine ⟨.cons hm.1 hm.2 hp, ?_⟩
              simp only [instances, hr, if_true, hi, List.singleton_append, List.cons.injEq, and_true]
              rw [hef]
              cases s
              simp_all
            · rw [if_neg hef] at hfl; cases hfl
        · cases h
    | false =>
      rw [hr] at h
      simp only [Bool.false_eq_true, if_false] at h
      rcases orElse_eq_some h with h1 | ⟨_, h2⟩
      · split at h1
        · rename_i hfin
          cases h1
          obtain ⟨rfl, rfl⟩ := hfin
          exact ⟨.nil _, by simp [instances, hr]⟩
        · cases h1
      · obtain ⟨l, hl, hfl⟩ := List.exists_of_findSome?_eq_some h2
        obtain ⟨ls', h3, rfl⟩ := Option.map_eq_some_iff.1 hfl
        obtain ⟨hp, hi⟩ := ih l.dst segs ls' h3
        have hm : l ∈ L.links ∧ l.src = u := by simpa [exits, List.mem_filter] using hl
        exact ⟨.cons hm.1 hm.2 hp, by simp [instances, hr, hi]⟩

theorem cache_same (c : Cache) (f : Nat) (b b' : Bool) (id : Nat) (h : (c.request f b).2 = some id) :
    ((c.request f b).1.request f b').2 = some id ∧ ((c.request f b).1.request f b').1 = (c.request f b).1 := by
  unfold Cache.request at h ⊢
  rcases c with ⟨dag, nid⟩
  cases dag with
  | none =>
    cases b <;> simp_all
  | some d =>
    obtain ⟨nf, i⟩ := d
    by_cases hnf : nf = f
    · simp_all
    · cases b <;> simp_all

end SSVerif.Lattice
