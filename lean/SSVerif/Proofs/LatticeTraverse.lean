import SSVerif.Proofs.LatticeGraph
/-! `lattice_traverse_edges`: on a well-formed lattice every link is handed out exactly once, after
all links into its source node -/
namespace SSVerif.Lattice

variable {L : Lat}

/-- the graph conditions the traversal (and the dynamic programs over it) rely on -/
structure DagOK (L : Lat) (rank : Nat → Nat) : Prop where
  nodup : L.links.Nodup
  rank_lt : ∀ l ∈ L.links, rank l.src < rank l.dst
  no_entry_start : ∀ l ∈ L.links, l.dst ≠ L.start
  no_exit_final : ∀ l ∈ L.links, l.src ≠ L.final
  has_entry : ∀ l ∈ L.links, l.src ≠ L.start → ∃ l' ∈ L.links, l'.dst = l.src
  reach_final : ∀ l ∈ L.links, ∃ p, Path L l.dst p L.final

theorem DagOK.of_latticeOK {G : Nfa.Nfa} (ok : LatticeOK G L) : DagOK L L.rank where
  nodup := by
    have := ok.distinct
    unfold LinksDistinct at this
    exact this.imp (fun {a b} h hab => h (by subst hab; exact ⟨rfl, rfl⟩))
  rank_lt := fun _ hl => _root_.SSVerif.Lattice.rank_lt ok hl
  no_entry_start := fun l hl => (ok.startEnd.1 l hl).1
  no_exit_final := fun l hl => (ok.startEnd.1 l hl).2
  has_entry := fun l hl hs => ok.startEnd.2.1 l.src (ok.endpoints.2.2 l hl).1 hs
  reach_final := fun l hl => _root_.SSVerif.Lattice.reach_final ok _ l.dst rfl (ok.endpoints.2.2 l hl).2

/-- `xs` lists links so that every link comes after all links into its source node -/
def Topo (L : Lat) (xs : List Link) : Prop :=
  ∀ pre l post, xs = pre ++ l :: post → ∀ l' ∈ L.links, l'.dst = l.src → l' ∈ pre

theorem mem_exits {v : Nat} {x : Link} : x ∈ exits L v ↔ x ∈ L.links ∧ x.src = v := by
  simp [exits, List.mem_filter]

theorem mem_entries {v : Nat} {x : Link} : x ∈ entries L v ↔ x ∈ L.links ∧ x.dst = v := by
  simp [entries, List.mem_filter]

theorem Topo.closed {xs : List Link} (h : Topo L xs) {x : Link} (hx : x ∈ xs) {l' : Link}
    (hl' : l' ∈ L.links) (hd : l'.dst = x.src) : l' ∈ xs := by
  obtain ⟨pre, post, rfl⟩ := List.append_of_mem hx
  have := h pre x post rfl l' hl' hd
  exact List.mem_append_left _ this

theorem append_singleton_eq : ∀ {xs pre post : List Link} {l x : Link}, xs ++ [l] = pre ++ x :: post →
    (post = [] ∧ x = l ∧ pre = xs) ∨ (∃ post', post = post' ++ [l] ∧ xs = pre ++ x :: post') := by
  intro xs
  induction xs with
  | nil =>
    intro pre post l x h
    cases pre with
    | nil =>
      simp only [List.nil_append, List.cons.injEq] at h
      exact Or.inl ⟨h.2.symm, h.1.symm, rfl⟩
    | cons p pre' =>
      simp only [List.nil_append, List.cons_append, List.cons.injEq] at h
      have := h.2
      cases pre' <;> simp at this
  | cons a xs' ih =>
    intro pre post l x h
    cases pre with
    | nil =>
      simp only [List.cons_append, List.nil_append, List.cons.injEq] at h
      exact Or.inr ⟨xs', h.2.symm, by rw [h.1]; rfl⟩
    | cons p pre' =>
      simp only [List.cons_append, List.cons.injEq] at h
      rcases ih h.2 with ⟨h1, h2, h3⟩ | ⟨post', h1, h2⟩
      · exact Or.inl ⟨h1, h2, by rw [h3, h.1]⟩
      · exact Or.inr ⟨post', h1, by rw [h2, h.1]; rfl⟩

theorem Topo.snoc {xs : List Link} (h : Topo L xs) {l : Link}
    (hl : ∀ l' ∈ L.links, l'.dst = l.src → l' ∈ xs) : Topo L (xs ++ [l]) := by
  intro pre x post heq l' hl' hd
  rcases append_singleton_eq heq with ⟨_, h2, h3⟩ | ⟨post', _, h2⟩
  · subst h2 h3; exact hl l' hl' hd
  · exact h pre x post' h2 l' hl' hd

/-- counting: removing one satisfying element of a duplicate-free list from a filter -/
theorem filter_remove_one : ∀ {E : List Link}, E.Nodup → ∀ {l : Link}, l ∈ E → ∀ (P : Link → Bool), P l = true →
    (E.filter (fun x => P x && !(x == l))).length + 1 = (E.filter P).length := by
  intro E
  induction E with
  | nil => intro _ l hl; cases hl
  | cons e E' ih =>
    intro hnd l hl P hp
    rw [List.nodup_cons] at hnd
    by_cases he : e = l
    · subst he
      have h1 : (e :: E').filter (fun x => P x && !(x == e)) = E'.filter P := by
        rw [List.filter_cons]
        simp only [beq_self_eq_true, Bool.not_true, Bool.and_false, Bool.false_eq_true, if_false]
        apply List.filter_congr
        intro x hx
        have : x ≠ e := fun h => hnd.1 (h ▸ hx)
        simp [this]
      rw [h1, List.filter_cons, if_pos hp]
      simp
    · have hl' : l ∈ E' := by
        rcases List.mem_cons.1 hl with h | h
        · exact absurd h.symm he
        · exact h
      have := ih hnd.2 hl' P hp
      rw [List.filter_cons, List.filter_cons]
      have hbe : (e == l) = false := by simpa using he
      simp only [hbe, Bool.not_false, Bool.and_true]
      split <;> simp_all <;> omega

/-- a source node is expanded when its exits have been queued: the start, or a node all of whose
(at least one) entries have been handed out -/
def Expanded (L : Lat) (out : List Link) (v : Nat) : Prop :=
  v = L.start ∨ ((∃ l' ∈ L.links, l'.dst = v) ∧ ∀ l' ∈ L.links, l'.dst = v → l' ∈ out)

structure TInv (L : Lat) (out : List Link) (s : TState) : Prop where
  nd : (out ++ s.queue).Nodup
  sub : ∀ l ∈ out ++ s.queue, l ∈ L.links
  fan : ∀ v, s.fanin v = (((entries L v).filter (fun x => !out.contains x)).length : Int)
  exp : ∀ l ∈ L.links, l ∈ out ++ s.queue ↔ Expanded L out l.src
  topo : Topo L out

theorem tinv_init {rank : Nat → Nat} (ok : DagOK L rank) : TInv L [] (traverseInit L) where
  nd := by
    simp only [traverseInit, List.nil_append]
    exact ok.nodup.sublist List.filter_sublist
  sub := by
    intro l hl
    simp only [traverseInit, List.nil_append] at hl
    exact (mem_exits.1 hl).1
  fan := by
    intro v
    simp only [traverseInit, List.contains_nil, Bool.not_false]
    rw [List.filter_eq_self.2 (fun _ _ => rfl)]
  exp := by
    intro l hl
    simp only [traverseInit, List.nil_append, mem_exits]
    constructor
    · rintro ⟨_, h⟩; exact Or.inl h
    · rintro (h | ⟨⟨l', hl', hd⟩, hall⟩)
      · exact ⟨hl, h⟩
      · exact absurd (hall l' hl' hd) (by simp)
  topo := by
    intro pre l post h
    cases pre <;> simp at h

theorem entries_nodup {rank : Nat → Nat} (ok : DagOK L rank) (v : Nat) : (entries L v).Nodup :=
  ok.nodup.sublist List.filter_sublist

theorem exits_nodup {rank : Nat → Nat} (ok : DagOK L rank) (v : Nat) : (exits L v).Nodup :=
  ok.nodup.sublist List.filter_sublist

theorem contains_snoc (out : List Link) (l x : Link) :
    (!(out ++ [l]).contains x) = (!out.contains x && !(x == l)) := by
  rw [Bool.eq_iff_iff]
  simp [List.mem_append]

/-- a set of links closed under "all links into the source of a member", containing all links into
`w`, contains all links into every node from which `w` is reachable -/
theorem back_closed {O : List Link} (hc : ∀ x ∈ O, ∀ l' ∈ L.links, l'.dst = x.src → l' ∈ O) {w : Nat}
    (hall : ∀ l' ∈ L.links, l'.dst = w → l' ∈ O) {v : Nat} {p : List Link} (hp : Path L v p w) :
    p ≠ [] → ∀ l' ∈ L.links, l'.dst = v → l' ∈ O := by
  induction hp with
  | nil => intro h; exact absurd rfl h
  | @cons u x ls w hxm hxs hrest ih =>
    intro _ l' hl' hd
    have hxout : x ∈ O := by
      cases ls with
      | nil => exact hall x hxm hrest.eq_of_nil
      | cons y ls' => exact ih hall (by simp) x hxm rfl
    exact hc x hxout l' hl' (hd.trans hxs.symm)

/-- the state after one `lattice_traverse_next`, independent of the branch taken except for the queue -/
theorem step_inv {rank : Nat → Nat} (ok : DagOK L rank) {out : List Link} {s : TState} (inv : TInv L out s)
    {l : Link} {q : List Link} (hq : s.queue = l :: q) :
    ∃ s', traverseStep L s = some (l, s') ∧ TInv L (out ++ [l]) s' := by
  have hlmem : l ∈ out ++ s.queue := by rw [hq]; simp
  have hl : l ∈ L.links := inv.sub l hlmem
  have hnd := inv.nd
  rw [hq] at hnd
  have hlout : l ∉ out := by
    intro h
    have := (List.nodup_append.1 hnd).2.2 l h l (by simp)
    exact this rfl
  have hlq : l ∉ q := by
    have := (List.nodup_append.1 hnd).2.1
    exact (List.nodup_cons.1 this).1
  have hds : l.dst ≠ L.start := ok.no_entry_start l hl
  -- the new counter of the target node
  have hcount : s.fanin l.dst - 1 = (((entries L l.dst).filter (fun x => !(out ++ [l]).contains x)).length : Int) := by
    rw [inv.fan l.dst]
    have h1 := filter_remove_one (entries_nodup ok l.dst) (mem_entries.2 ⟨hl, rfl⟩) (fun x => !out.contains x)
      (by simpa [List.contains_iff_mem] using hlout)
    have h2 : (entries L l.dst).filter (fun x => !(out ++ [l]).contains x)
        = (entries L l.dst).filter (fun x => !out.contains x && !(x == l)) := by
      apply List.filter_congr; intro x _; exact contains_snoc out l x
    rw [h2]; omega
  have hfan' : ∀ v, (if v = l.dst then s.fanin l.dst - 1 else s.fanin v)
      = (((entries L v).filter (fun x => !(out ++ [l]).contains x)).length : Int) := by
    intro v
    by_cases hv : v = l.dst
    · subst hv; rw [if_pos rfl]; exact hcount
    · rw [if_neg hv, inv.fan v]
      congr 2
      apply List.filter_congr
      intro x hx
      rw [contains_snoc]
      have : x ≠ l := by
        intro h; subst h; exact hv (mem_entries.1 hx).2.symm
      simp [this]
  have hzero : s.fanin l.dst - 1 = 0 ↔ ∀ l' ∈ L.links, l'.dst = l.dst → l' ∈ out ++ [l] := by
    rw [hcount]
    constructor
    · intro h l' hl' hd
      have h0 : ((entries L l.dst).filter (fun x => !(out ++ [l]).contains x)) = [] := by
        apply List.eq_nil_of_length_eq_zero; omega
      rw [List.filter_eq_nil_iff] at h0
      have := h0 l' (mem_entries.2 ⟨hl', hd⟩)
      by_cases hm : l' ∈ out ++ [l]
      · exact hm
      · exact absurd (by simpa [List.contains_iff_mem] using hm) this
    · intro h
      have h0 : ((entries L l.dst).filter (fun x => !(out ++ [l]).contains x)) = [] := by
        rw [List.filter_eq_nil_iff]
        intro x hx
        have := h x (mem_entries.1 hx).1 (mem_entries.1 hx).2
        simp only [Bool.not_eq_true', Bool.not_eq_false]
        simpa [List.contains_iff_mem] using this
      rw [h0]; rfl
  -- expansion status of the other nodes is unchanged
  have hexp_other : ∀ v, v ≠ l.dst → (Expanded L (out ++ [l]) v ↔ Expanded L out v) := by
    intro v hv
    unfold Expanded
    constructor
    · rintro (h | ⟨h1, h2⟩)
      · exact Or.inl h
      · refine Or.inr ⟨h1, fun l' hl' hd => ?_⟩
        rcases List.mem_append.1 (h2 l' hl' hd) with h | h
        · exact h
        · simp at h; subst h; exact absurd hd.symm hv
    · rintro (h | ⟨h1, h2⟩)
      · exact Or.inl h
      · exact Or.inr ⟨h1, fun l' hl' hd => List.mem_append_left _ (h2 l' hl' hd)⟩
  have hexp_before : ¬ Expanded L out l.dst := by
    rintro (h | ⟨_, h2⟩)
    · exact hds h
    · exact hlout (h2 l hl rfl)
  have hexp_after : Expanded L (out ++ [l]) l.dst ↔ s.fanin l.dst - 1 = 0 := by
    rw [hzero]
    unfold Expanded
    constructor
    · rintro (h | ⟨_, h2⟩)
      · exact absurd h hds
      · exact h2
    · intro h; exact Or.inr ⟨⟨l, hl, rfl⟩, h⟩
  have htopo : Topo L (out ++ [l]) := by
    apply inv.topo.snoc
    intro l' hl' hd
    rcases (inv.exp l hl).1 hlmem with h | ⟨_, h2⟩
    · exact absurd (hd.trans h) (ok.no_entry_start l' hl')
    · exact h2 l' hl' hd
  have hassoc : out ++ [l] ++ q = out ++ l :: q := by simp
  -- the state when nothing new is queued
  have keep : ¬ Expanded L (out ++ [l]) l.dst →
      TInv L (out ++ [l]) { fanin := fun v => if v = l.dst then s.fanin l.dst - 1 else s.fanin v, queue := q } := by
    intro hne
    refine ⟨by simpa [hassoc] using hnd, ?_, hfan', ?_, htopo⟩
    · intro x hx
      apply inv.sub x
      rw [hq]
      simpa [hassoc] using hx
    · intro x hx
      have h0 := inv.exp x hx
      rw [hq] at h0
      show x ∈ out ++ [l] ++ q ↔ _
      rw [hassoc, h0]
      by_cases hxs : x.src = l.dst
      · rw [hxs]; exact ⟨fun h => absurd h hexp_before, fun h => absurd h hne⟩
      · exact (hexp_other _ hxs).symm
  -- the state when the exits of the target are queued
  have push : Expanded L (out ++ [l]) l.dst →
      TInv L (out ++ [l]) { fanin := fun v => if v = l.dst then s.fanin l.dst - 1 else s.fanin v,
                            queue := q ++ exits L l.dst } := by
    intro hex
    have hdisj : ∀ x ∈ exits L l.dst, x ∉ out ++ l :: q := by
      intro x hx hmem
      have h0 := (inv.exp x (mem_exits.1 hx).1).1 (by rw [hq]; exact hmem)
      rw [(mem_exits.1 hx).2] at h0
      exact hexp_before h0
    refine ⟨?_, ?_, hfan', ?_, htopo⟩
    · show (out ++ [l] ++ (q ++ exits L l.dst)).Nodup
      rw [← List.append_assoc, hassoc]
      apply List.nodup_append.2
      refine ⟨hnd, exits_nodup ok _, ?_⟩
      intro a ha b hb hab
      subst hab
      exact hdisj a hb ha
    · intro x hx
      have hx' : x ∈ out ++ l :: q ∨ x ∈ exits L l.dst := by
        have : x ∈ (out ++ [l] ++ q) ++ exits L l.dst := by simpa [List.append_assoc] using hx
        rcases List.mem_append.1 this with h | h
        · exact Or.inl (by rwa [hassoc] at h)
        · exact Or.inr h
      rcases hx' with h | h
      · exact inv.sub x (by rw [hq]; exact h)
      · exact (mem_exits.1 h).1
    · intro x hx
      have h0 := inv.exp x hx
      rw [hq] at h0
      show x ∈ out ++ [l] ++ (q ++ exits L l.dst) ↔ _
      rw [← List.append_assoc, hassoc, List.mem_append, h0, mem_exits]
      by_cases hxs : x.src = l.dst
      · rw [hxs]
        exact ⟨fun _ => hex, fun _ => Or.inr ⟨hx, rfl⟩⟩
      · rw [hexp_other _ hxs]
        exact ⟨fun h => h.elim id (fun h => absurd h.2 hxs), Or.inl⟩
  unfold traverseStep
  rw [hq]
  simp only
  by_cases hf : s.fanin l.dst - 1 = 0
  · rw [if_pos hf]
    have hex := hexp_after.2 hf
    by_cases hfin : l.dst = L.final
    · rw [if_pos hfin]
      -- all entries of the end node are out: nothing can still be queued
      have hq_nil : q = [] := by
        cases q with
        | nil => rfl
        | cons y q' =>
          exfalso
          have hy : y ∈ L.links := inv.sub y (by rw [hq]; simp)
          have hyout : y ∉ out ++ [l] := by
            intro h
            have h2 := (List.nodup_append.1 hnd)
            rcases List.mem_append.1 h with h | h
            · exact h2.2.2 y h y (by simp) rfl
            · simp at h; subst h
              exact (List.nodup_cons.1 h2.2.1).1 (by simp)
          have hall : ∀ l' ∈ L.links, l'.dst = L.final → l' ∈ out ++ [l] := by
            intro l' hl' hd
            exact (hzero.1 hf) l' hl' (hd.trans hfin.symm)
          have back : ∀ {v : Nat} {p : List Link}, Path L v p L.final → p ≠ [] →
              ∀ l' ∈ L.links, l'.dst = v → l' ∈ out ++ [l] :=
            fun hp => back_closed (fun x hx l' hl' hd => htopo.closed hx hl' hd) hall hp
          obtain ⟨p, hp⟩ := ok.reach_final y hy
          cases p with
          | nil => exact hyout (hall y hy hp.eq_of_nil)
          | cons x ls => exact hyout (back hp (by simp) y hy rfl)
      subst hq_nil
      refine ⟨_, rfl, ?_⟩
      have := push hex
      have hnil : exits L l.dst = [] := by
        rw [List.eq_nil_iff_forall_not_mem]
        intro x hx
        exact ok.no_exit_final x (mem_exits.1 hx).1 ((mem_exits.1 hx).2.trans hfin)
      rw [hnil] at this
      simpa using this
    · rw [if_neg hfin]
      exact ⟨_, rfl, push hex⟩
  · rw [if_neg hf]
    exact ⟨_, rfl, keep (fun h => hf (hexp_after.1 h))⟩

theorem traverseGo_spec {rank : Nat → Nat} (ok : DagOK L rank) : ∀ (fuel : Nat) (out : List Link) (s : TState),
    TInv L out s → L.links.length + 1 ≤ out.length + fuel →
    ∃ s', TInv L (out ++ traverseGo L fuel s) s' ∧ s'.queue = [] := by
  intro fuel
  induction fuel with
  | zero =>
    intro out s inv hlen
    exfalso
    have hnd : out.Nodup := (List.nodup_append.1 inv.nd).1
    have := hnd.length_le_of_subset (fun x hx => inv.sub x (List.mem_append_left _ hx))
    omega
  | succ fuel ih =>
    intro out s inv hlen
    cases hq : s.queue with
    | nil =>
      refine ⟨s, ?_, hq⟩
      have : traverseStep L s = none := by unfold traverseStep; rw [hq]
      simp only [traverseGo, this, List.append_nil]
      exact inv
    | cons l q =>
      obtain ⟨s', hstep, inv'⟩ := step_inv ok inv hq
      obtain ⟨s'', h1, h2⟩ := ih (out ++ [l]) s' inv' (by simp; omega)
      refine ⟨s'', ?_, h2⟩
      simp only [traverseGo, hstep]
      simpa using h1

/-- when the queue has run empty every link has been handed out -/
theorem all_out {rank : Nat → Nat} (ok : DagOK L rank) {out : List Link} {s : TState} (inv : TInv L out s)
    (hq : s.queue = []) : ∀ l ∈ L.links, l ∈ out := by
  have key : ∀ (r : Nat) (l : Link), l ∈ L.links → rank l.src = r → l ∈ out := by
    intro r
    induction r using Nat.strongRecOn with
    | _ r ih =>
      intro l hl hr
      have h0 := inv.exp l hl
      rw [hq, List.append_nil] at h0
      rw [h0]
      by_cases hs : l.src = L.start
      · exact Or.inl hs
      · refine Or.inr ⟨ok.has_entry l hl hs, fun l' hl' hd => ?_⟩
        have := ok.rank_lt l' hl'
        rw [hd, hr] at this
        exact ih _ this l' hl' rfl
  intro l hl
  exact key _ l hl rfl

/-- **traversal theorem** -/
theorem traverse_topological {rank : Nat → Nat} (ok : DagOK L rank) :
    (traverseEdges L).Perm L.links ∧ Topo L (traverseEdges L) := by
  obtain ⟨s', inv, hq⟩ := traverseGo_spec ok (L.links.length + 1) [] (traverseInit L) (tinv_init ok) (by simp)
  simp only [List.nil_append] at inv
  have hnd : (traverseEdges L).Nodup := by
    have := inv.nd; rw [hq, List.append_nil] at this; exact this
  refine ⟨?_, inv.topo⟩
  rw [List.perm_ext_iff_of_nodup hnd ok.nodup]
  intro a
  exact ⟨fun h => inv.sub a (List.mem_append_left _ h), fun h => all_out ok inv hq a h⟩

end SSVerif.Lattice
