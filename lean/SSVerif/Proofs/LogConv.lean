import SSVerif.Model.LogAdd
/-!
# Integer side of `logmath_log` / `logmath_exp` (helper lemmas for C19)

`v = num/den` is the exact value of the `double` that `logmath_log` converts with `(int)`;
`L = logPost shift num den` is what it returns; `L · 2^shift` is the exponent `logmath_exp`
hands to `pow`.  All statements are about `v` versus `L · 2^shift` in units of the base,
cross-multiplied by `den`.
-/
namespace SSVerif.LogAdd

theorem two_pow_pos_int (s : Nat) : (0 : Int) < ((2 ^ s : Nat) : Int) :=
  Int.natCast_pos.mpr (Nat.pow_pos (by decide))

/-- the arithmetic shift is the floor division by `2^shift` -/
theorem logPost_floor (s : Nat) (num : Int) (den : Nat) :
    logPost s num den * ((2 ^ s : Nat) : Int) ≤ Int.tdiv num den ∧
    Int.tdiv num den < (logPost s num den + 1) * ((2 ^ s : Nat) : Int) := by
  unfold logPost
  rw [Int.shiftRight_eq_div_pow]
  exact ⟨Int.ediv_mul_le _ (Int.ne_of_gt (two_pow_pos_int s)), Int.lt_ediv_add_one_mul_self _ (two_pow_pos_int s)⟩

/-- `(int)` keeps the value within less than one of `v`, from either side -/
theorem tdiv_near (num : Int) {den : Nat} (hd : 0 < den) :
    Int.tdiv num den * den < num + den ∧ num < (Int.tdiv num den + 1) * den := by
  have hd' : (0 : Int) < den := Int.natCast_pos.mpr hd
  refine ⟨?_, Int.lt_tdiv_add_one_mul_self num hd'⟩
  have := Int.tdiv_mul_le num (b := (den : Int)) (Int.ne_of_gt hd')
  split at this
  · omega
  · simp only [Int.natAbs_natCast] at this; omega

/-- for `v ≥ 0`, `(int)` rounds down -/
theorem tdiv_le_of_nonneg {num : Int} {den : Nat} (hd : 0 < den) (h : 0 ≤ num) : Int.tdiv num den * den ≤ num := by
  have hd' : (0 : Int) < den := Int.natCast_pos.mpr hd
  have := Int.tdiv_mul_le num (b := (den : Int)) (Int.ne_of_gt hd')
  rw [if_pos h] at this
  omega

/-- **loses less than one unit**: `v < (L + 1) · 2^shift` -/
theorem lt_logPost_succ (s : Nat) (num : Int) {den : Nat} (hd : 0 < den) :
    num < (logPost s num den + 1) * ((2 ^ s : Nat) : Int) * den := by
  have hd' : (0 : Int) < den := Int.natCast_pos.mpr hd
  obtain ⟨_, h2⟩ := logPost_floor s num den
  obtain ⟨_, h4⟩ := tdiv_near num hd
  have : (Int.tdiv num den + 1) * den ≤ (logPost s num den + 1) * ((2 ^ s : Nat) : Int) * den :=
    Int.mul_le_mul_of_nonneg_right (by omega) (Int.le_of_lt hd')
  omega

/-- **never increases, for `p ≥ 1`** (`v ≥ 0`): `L · 2^shift ≤ v` -/
theorem logPost_le_of_nonneg (s : Nat) {num : Int} {den : Nat} (hd : 0 < den) (h : 0 ≤ num) :
    logPost s num den * ((2 ^ s : Nat) : Int) * den ≤ num := by
  have hd' : (0 : Int) < den := Int.natCast_pos.mpr hd
  obtain ⟨h1, _⟩ := logPost_floor s num den
  have : logPost s num den * ((2 ^ s : Nat) : Int) * den ≤ Int.tdiv num den * den :=
    Int.mul_le_mul_of_nonneg_right h1 (Int.le_of_lt hd')
  have := tdiv_le_of_nonneg hd h
  omega

/-- in general the result exceeds `v` by less than one unit of the *unshifted* base:
`L · 2^shift < v + 1` -/
theorem logPost_lt_add_one (s : Nat) (num : Int) {den : Nat} (hd : 0 < den) :
    logPost s num den * ((2 ^ s : Nat) : Int) * den < num + den := by
  have hd' : (0 : Int) < den := Int.natCast_pos.mpr hd
  obtain ⟨h1, _⟩ := logPost_floor s num den
  have : logPost s num den * ((2 ^ s : Nat) : Int) * den ≤ Int.tdiv num den * den :=
    Int.mul_le_mul_of_nonneg_right h1 (Int.le_of_lt hd')
  obtain ⟨h3, _⟩ := tdiv_near num hd
  omega

/-- `log(exp(l)) = l` on the integer side: the exponent `l << shift` is converted back to `l` -/
theorem logPost_expArg (s : Nat) (l : Int) : logPost s (expArg s l) 1 = l := by
  unfold logPost expArg
  rw [Int.shiftRight_eq_div_pow]
  have e : Int.tdiv (l * 2 ^ s) ((1 : Nat) : Int) = l * 2 ^ s := by simp
  rw [e]
  have : ((2 ^ s : Nat) : Int) = (2 : Int) ^ s := by simp
  rw [this]
  exact Int.mul_ediv_cancel _ (Int.ne_of_gt (Int.pow_pos (by decide)))

end SSVerif.LogAdd
