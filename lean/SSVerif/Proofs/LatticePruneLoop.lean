import SSVerif.Proofs.LatticePrune
/-! the unlink loop of `lattice_posterior_prune`, run step by step, leaves the closed form `exitsCut` -/
namespace SSVerif.Lattice
open SSVerif.Nfa
namespace Prune

theorem pushOthers_go (l : Link) : ∀ (xs acc : List Link),
    xs.foldl (fun tmp x => if x = l then tmp else x :: tmp) acc = (xs.filter (fun x => !(x == l))).reverse ++ acc := by
  intro xs
  induction xs with
  | nil => intro acc; rfl
  | cons x xs ih =>
    intro acc
    simp only [List.foldl_cons]
    rw [ih]
    by_cases h : x = l
    · simp [h]
    · simp [h]

theorem pushOthers_eq (l : Link) (xs : List Link) : pushOthers l xs = (xs.filter (fun x => !(x == l))).reverse := by
  unfold pushOthers
  rw [pushOthers_go, List.append_nil]

/-- reversed `k` times -/
def revN (k : Nat) (xs : List Link) : List Link := if k % 2 = 1 then xs.reverse else xs

theorem revN_succ (k : Nat) (xs : List Link) : revN k xs.reverse = revN (k + 1) xs := by
  unfold revN
  rcases Nat.mod_two_eq_zero_or_one k with h | h
  · have : (k + 1) % 2 = 1 := by omega
    simp [h, this]
  · have : (k + 1) % 2 = 0 := by omega
    simp [h, this]

theorem loop_closed (c : Link → Bool) : ∀ (vs xs : List Link),
    vs.foldl (fun xs l => if c l = true then pushOthers l xs else xs) xs =
      revN (vs.filter c).length (xs.filter (fun x => !(vs.filter c).contains x)) := by
  intro vs
  induction vs with
  | nil =>
    intro xs
    simp only [revN, List.filter_nil, List.length_nil, List.foldl_nil]
    exact (List.filter_eq_self.2 (fun _ _ => by simp)).symm
  | cons l vs ih =>
    intro xs
    simp only [List.foldl_cons]
    by_cases h : c l = true
    · rw [if_pos h, ih, pushOthers_eq, List.filter_cons_of_pos h, List.length_cons, List.filter_reverse, revN_succ,
        List.filter_filter]
      congr 1
      apply List.filter_congr
      intro x _
      simp only [List.contains_cons]
      cases (x == l) <;> simp
    · rw [if_neg h, ih, List.filter_cons_of_neg h]

variable {G : Nfa} {L : Lat} {post : Link → Int} {beam : Int}

/-- **the unlink loop computes the closed form** -/
theorem exitsLoop_eq (ok : LatticeOK G L) (v : Nat) : exitsLoop L post beam v = exitsCut L post beam v := by
  have hperm := (traverse_topological (DagOK.of_latticeOK ok)).1
  unfold exitsLoop
  have hstep : unlinkStep post beam v = fun xs l =>
      if (decide (l.src = v ∧ post l < beam)) = true then pushOthers l xs else xs := by
    funext xs l
    unfold unlinkStep
    simp only [decide_eq_true_eq]
  rw [hstep, loop_closed]
  unfold exitsCut
  simp only
  have e1 : (exits L v).filter (fun x => !((traverseEdges L).filter
        (fun l => decide (l.src = v ∧ post l < beam))).contains x) =
      (exits L v).filter (fun l => !cutB (traverseEdges L) post beam l) := by
    apply List.filter_congr
    intro x hx
    have hs := (mem_exits.1 hx).2
    congr 1
    rw [Bool.eq_iff_iff]
    unfold cutB
    simp only [List.contains_iff_mem, List.mem_filter, decide_eq_true_eq, Bool.and_eq_true]
    constructor
    · rintro ⟨h1, _, h3⟩; exact ⟨h1, h3⟩
    · rintro ⟨h1, h3⟩; exact ⟨h1, hs, h3⟩
  have e2 : ((traverseEdges L).filter (fun l => decide (l.src = v ∧ post l < beam))).length =
      ((exits L v).filter (cutB (traverseEdges L) post beam)).length := by
    rw [(hperm.filter _).length_eq]
    unfold exits
    rw [List.filter_filter]
    congr 1
    apply List.filter_congr
    intro x hx
    rw [cutB_eq ok hx, Bool.eq_iff_iff]
    simp only [decide_eq_true_eq, Bool.and_eq_true, beq_iff_eq]
    constructor
    · rintro ⟨h1, h2⟩; exact ⟨h2, h1⟩
    · rintro ⟨h2, h1⟩; exact ⟨h1, h2⟩
  rw [e1, e2]
  rfl

end Prune
end SSVerif.Lattice
