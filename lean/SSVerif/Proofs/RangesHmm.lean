import SSVerif.Model.RangesHmm
import SSVerif.Proofs.Ranges
/-!
Range lemmas for the multiplex evaluators (`hmm3MpxStep`, `hmm5MpxStep`) of `Model/RangesHmm.lean`.

Common scheme: with senone scores in `[cl, ch]` (`cl ≤ 0 ≤ ch`, inside int16) and state scores in `[WORST, U]`
every "score + senone score" value lies in `[WORST - ch, V]`, every candidate (`… + tp`, or `WORST_SCORE` for "don't
propagate") in `[WORST - ch - 255, V]` or is the `INT_MIN` marker of the stale `t2`; the comparison cascades return one
of their candidates and every result is floored at `WORST_SCORE`.
-/
namespace SSVerif.Ranges
open SSVerif.Generated.Ranges

/-- a candidate of a comparison cascade -/
def Cand (L V x : Int) : Prop := x = intMin ∨ (L - 255 ≤ x ∧ x ≤ V)

theorem pick3_cand {L V t0 t1 t2 : Int} (a b c : Int) (h0 : Cand L V t0) (h1 : Cand L V t1) (h2 : Cand L V t2) :
    Cand L V (pick3 t0 t1 t2 a b c).1 := by
  rcases pick3_val t0 t1 t2 a b c with e | e | e <;> rw [e] <;> assumption

theorem cand_i32 {L V x : Int} (hL : -2147483648 + 255 ≤ L) (hV : V ≤ 2147483647) (h : Cand L V x) : I32 x := by
  rw [i32_iff]
  rcases h with h | h
  · rw [h, intMin_eq]; omega
  · omega

theorem cand_clamp {L V x : Int} (hWV : WORST ≤ V) (h : Cand L V x) : WORST ≤ clampW x ∧ clampW x ≤ V := by
  refine ⟨clampW_ge x, ?_⟩
  rcases h with h | h
  · unfold clampW
    have := intMin_eq
    have := worst_room
    split <;> omega
  · exact clampW_le h.2 hWV

theorem pick2_val (v0 v1 a b c d : Int) : (pick2 v0 v1 a b c d).1 = v0 ∨ (pick2 v0 v1 a b c d).1 = v1 := by
  unfold pick2; split <;> simp

section mpx
variable {tp : Nat → Nat → Nat} (htp : ∀ i j, tp i j ≤ 255)
variable {cl ch U V : Int} (hcl : -32768 ≤ cl) (hcl0 : cl ≤ 0) (hch0 : 0 ≤ ch) (hch : ch ≤ 32767)
  (hV : V ≤ 2147483647) (hUV : U ≤ V) (hUc : U - cl ≤ V) (hWU : WORST ≤ U)

include hch0 hUV hUc hWU in
theorem mpxAdd_bd (id : Int) {score c : Int} (hs : WORST ≤ score ∧ score ≤ U) (hc : cl ≤ c ∧ c ≤ ch) :
    WORST - ch ≤ mpxAdd id score c ∧ mpxAdd id score c ≤ V := by
  unfold mpxAdd; split <;> omega

include htp hch0 hUV hWU in
theorem mpxOut_cand (id : Int) {s : Int} (i j : Nat) (hs : WORST - ch ≤ s ∧ s ≤ V) :
    Cand (WORST - ch) V (mpxOut id s (tprob tp i j)) := by
  have := tprob_range htp i j
  unfold mpxOut; split
  · right; omega
  · right; omega

include htp in
theorem noProp_cand {s : Int} (i j : Nat) (hs : WORST - ch ≤ s ∧ s ≤ V) :
    Cand (WORST - ch) V (noProp s (tprob tp i j)) := by
  have := tprob_range htp i j
  unfold noProp; split
  · right; omega
  · right; omega

include htp in
theorem plus_cand {s : Int} (i j : Nat) (hs : WORST - ch ≤ s ∧ s ≤ V) :
    Cand (WORST - ch) V (s + tprob tp i j) := by
  have := tprob_range htp i j
  right; omega

include htp hch0 hch hV hUV hUc hWU in
/-- core lemma for `hmm_vit_eval_3st_lr_mpx` -/
theorem hmm3MpxStep_core {sen : Int → Nat → Int} (hsen : ∀ id st, cl ≤ sen id st ∧ sen id st ≤ ch) {m : M3}
    (hb : Bd3 WORST U m.h) :
    (∀ x ∈ (hmm3MpxStep tp sen m).2, I32 x) ∧ Bd3 WORST V (hmm3MpxStep tp sen m).1.h ∧
    WORST ≤ (hmm3MpxStep tp sen m).1.h.best ∧ (hmm3MpxStep tp sen m).1.h.best ≤ V := by
  have hW := worst_room
  obtain ⟨⟨l0, u0⟩, ⟨l1, u1⟩, ⟨l2, u2⟩, -⟩ := hb
  have hL : -2147483648 + 255 ≤ WORST - ch := by omega
  have hWV : WORST ≤ V := by omega
  have B2 := mpxAdd_bd hch0 hUV hUc hWU m.i2 ⟨l2, u2⟩ (hsen m.i2 2)
  have B1 := mpxAdd_bd hch0 hUV hUc hWU m.i1 ⟨l1, u1⟩ (hsen m.i1 1)
  have B0 : WORST - ch ≤ m.h.s0 + -(sen m.i0 0) ∧ m.h.s0 + -(sen m.i0 0) ≤ V := by
    have := hsen m.i0 0; omega
  simp only [hmm3MpxStep]
  generalize mpxAdd m.i2 m.h.s2 (sen m.i2 2) = s2 at B2 ⊢
  generalize mpxAdd m.i1 m.h.s1 (sen m.i1 1) = s1 at B1 ⊢
  generalize m.h.s0 + -(sen m.i0 0) = s0 at B0 ⊢
  have T1 := mpxOut_cand htp hch0 hUV hWU m.i2 2 3 B2
  have T2 : Cand (WORST - ch) V
      (if m.i1 = BAD then WORST else (if tprob tp 1 3 > tmatWorstScore then s1 + tprob tp 1 3 else intMin)) := by
    split
    · right; omega
    · split
      · exact plus_cand htp 1 3 B1
      · left; rfl
  generalize mpxOut m.i2 s2 (tprob tp 2 3) = t1 at T1 ⊢
  generalize (if m.i1 = BAD then WORST else (if tprob tp 1 3 > tmatWorstScore then s1 + tprob tp 1 3 else intMin)) = t2
    at T2 ⊢
  have S3 : Cand (WORST - ch) V (if t1 > t2 then t1 else t2) := by split <;> assumption
  have U0 := noProp_cand htp 2 2 B2
  have U1 := noProp_cand htp 1 2 B1
  have U2 : Cand (WORST - ch) V (if tprob tp 0 2 > tmatWorstScore then s0 + tprob tp 0 2 else t2) := by
    split
    · exact plus_cand htp 0 2 B0
    · exact T2
  generalize noProp s2 (tprob tp 2 2) = u0 at U0 ⊢
  generalize noProp s1 (tprob tp 1 2) = u1 at U1 ⊢
  generalize (if tprob tp 0 2 > tmatWorstScore then s0 + tprob tp 0 2 else t2) = u2 at U2 ⊢
  have P := pick3_cand m.h.h2 m.h.h1 m.h.h0 U0 U1 U2
  have V0 := noProp_cand htp 1 1 B1
  have V1 := plus_cand htp 0 1 B0
  generalize noProp s1 (tprob tp 1 1) = v0 at V0 ⊢
  generalize s0 + tprob tp 0 1 = v1 at V1 ⊢
  have Q : Cand (WORST - ch) V (pick2 v0 v1 m.h.h1 m.h.h0 m.i1 m.i0).1 := by
    rcases pick2_val v0 v1 m.h.h1 m.h.h0 m.i1 m.i0 with e | e <;> rw [e] <;> assumption
  have Z := plus_cand htp 0 0 B0
  have c3 := cand_clamp hWV S3
  have c2 := cand_clamp hWV P
  have c1 := cand_clamp hWV Q
  have c0 := cand_clamp hWV Z
  have i3 := cand_i32 hL hV S3
  have iT1 := cand_i32 hL hV T1
  have iT2 := cand_i32 hL hV T2
  have iU0 := cand_i32 hL hV U0
  have iU1 := cand_i32 hL hV U1
  have iU2 := cand_i32 hL hV U2
  have iV0 := cand_i32 hL hV V0
  have iV1 := cand_i32 hL hV V1
  have iZ := cand_i32 hL hV Z
  generalize clampW (if t1 > t2 then t1 else t2) = s3 at c3 ⊢
  generalize clampW (pick3 u0 u1 u2 m.h.h2 m.h.h1 m.h.h0).1 = s2c at c2 ⊢
  generalize clampW (pick2 v0 v1 m.h.h1 m.h.h0 m.i1 m.i0).1 = s1c at c1 ⊢
  generalize clampW (s0 + tprob tp 0 0) = s0c at c0 ⊢
  refine ⟨?_, ⟨c0, c1, c2, c3⟩, ?_, ?_⟩
  · intro x hx
    simp only [List.mem_cons, List.mem_nil_iff, or_false] at hx
    rcases hx with e | e | e | e | e | e | e | e | e | e | e | e | e | e | e <;> rw [e] <;>
      first
        | assumption
        | (rw [i32_iff]; omega)
  · exact Int.le_trans (Int.le_trans (Int.le_trans c3.1 (upd_ge_left _ _)) (upd_ge_left _ _)) (upd_ge_left _ _)
  · exact upd_le (upd_le (upd_le c3.2 c2.2) c1.2) c0.2

include htp hch0 hch hV hUV hUc hWU in
/-- core lemma for `hmm_vit_eval_5st_lr_mpx` -/
theorem hmm5MpxStep_core {sen : Int → Nat → Int} (hsen : ∀ id st, cl ≤ sen id st ∧ sen id st ≤ ch) {m : M5}
    (hb : Bd5 WORST U m.h) :
    (∀ x ∈ (hmm5MpxStep tp sen m).2, I32 x) ∧ Bd5 WORST V (hmm5MpxStep tp sen m).1.h ∧
    WORST ≤ (hmm5MpxStep tp sen m).1.h.best ∧ (hmm5MpxStep tp sen m).1.h.best ≤ V := by
  have hW := worst_room
  obtain ⟨⟨l0, u0⟩, ⟨l1, u1⟩, ⟨l2, u2⟩, ⟨l3, u3⟩, ⟨l4, u4⟩, -⟩ := hb
  have hL : -2147483648 + 255 ≤ WORST - ch := by omega
  have hWV : WORST ≤ V := by omega
  have B4 := mpxAdd_bd hch0 hUV hUc hWU m.i4 ⟨l4, u4⟩ (hsen m.i4 4)
  have B3 := mpxAdd_bd hch0 hUV hUc hWU m.i3 ⟨l3, u3⟩ (hsen m.i3 3)
  have B2 := mpxAdd_bd hch0 hUV hUc hWU m.i2 ⟨l2, u2⟩ (hsen m.i2 2)
  have B1 := mpxAdd_bd hch0 hUV hUc hWU m.i1 ⟨l1, u1⟩ (hsen m.i1 1)
  have B0 : WORST - ch ≤ m.h.s0 + -(sen m.i0 0) ∧ m.h.s0 + -(sen m.i0 0) ≤ V := by
    have := hsen m.i0 0; omega
  simp only [hmm5MpxStep]
  generalize mpxAdd m.i4 m.h.s4 (sen m.i4 4) = s4 at B4 ⊢
  generalize mpxAdd m.i3 m.h.s3 (sen m.i3 3) = s3 at B3 ⊢
  generalize mpxAdd m.i2 m.h.s2 (sen m.i2 2) = s2 at B2 ⊢
  generalize mpxAdd m.i1 m.h.s1 (sen m.i1 1) = s1 at B1 ⊢
  generalize m.h.s0 + -(sen m.i0 0) = s0 at B0 ⊢
  have T1 := mpxOut_cand htp hch0 hUV hWU m.i4 4 5 B4
  have T2 := mpxOut_cand htp hch0 hUV hWU m.i3 3 5 B3
  generalize mpxOut m.i4 s4 (tprob tp 4 5) = t1 at T1 ⊢
  generalize mpxOut m.i3 s3 (tprob tp 3 5) = t2 at T2 ⊢
  have S5 : Cand (WORST - ch) V (if t1 > t2 then t1 else t2) := by split <;> assumption
  have A2 := mpxOut_cand htp hch0 hUV hWU m.i2 2 4 B2
  have A0 := noProp_cand htp 4 4 B4
  have A1 := noProp_cand htp 3 4 B3
  generalize mpxOut m.i2 s2 (tprob tp 2 4) = a2 at A2 ⊢
  generalize noProp s4 (tprob tp 4 4) = a0 at A0 ⊢
  generalize noProp s3 (tprob tp 3 4) = a1 at A1 ⊢
  have P4 := pick3_cand m.h.h4 m.h.h3 m.h.h2 A0 A1 A2
  have Bb2 := mpxOut_cand htp hch0 hUV hWU m.i1 1 3 B1
  have Bb0 := noProp_cand htp 3 3 B3
  have Bb1 := noProp_cand htp 2 3 B2
  generalize mpxOut m.i1 s1 (tprob tp 1 3) = b2 at Bb2 ⊢
  generalize noProp s3 (tprob tp 3 3) = b0 at Bb0 ⊢
  generalize noProp s2 (tprob tp 2 3) = b1 at Bb1 ⊢
  have P3 := pick3_cand m.h.h3 m.h.h2 m.h.h1 Bb0 Bb1 Bb2
  have C0 := noProp_cand htp 2 2 B2
  have C1 := noProp_cand htp 1 2 B1
  have C2 := plus_cand htp 0 2 B0
  generalize noProp s2 (tprob tp 2 2) = c0 at C0 ⊢
  generalize noProp s1 (tprob tp 1 2) = c1 at C1 ⊢
  generalize s0 + tprob tp 0 2 = c2 at C2 ⊢
  have P2 := pick3_cand m.h.h2 m.h.h1 m.h.h0 C0 C1 C2
  have D0 := noProp_cand htp 1 1 B1
  have D1 := plus_cand htp 0 1 B0
  generalize noProp s1 (tprob tp 1 1) = d0 at D0 ⊢
  generalize s0 + tprob tp 0 1 = d1 at D1 ⊢
  have Q : Cand (WORST - ch) V (pick2 d0 d1 m.h.h1 m.h.h0 m.i1 m.i0).1 := by
    rcases pick2_val d0 d1 m.h.h1 m.h.h0 m.i1 m.i0 with e | e <;> rw [e] <;> assumption
  have Z := plus_cand htp 0 0 B0
  have k5 := cand_clamp hWV S5
  have k4 := cand_clamp hWV P4
  have k3 := cand_clamp hWV P3
  have k2 := cand_clamp hWV P2
  have k1 := cand_clamp hWV Q
  have k0 := cand_clamp hWV Z
  have iT1 := cand_i32 hL hV T1
  have iT2 := cand_i32 hL hV T2
  have iA0 := cand_i32 hL hV A0
  have iA1 := cand_i32 hL hV A1
  have iA2 := cand_i32 hL hV A2
  have iB0 := cand_i32 hL hV Bb0
  have iB1 := cand_i32 hL hV Bb1
  have iB2 := cand_i32 hL hV Bb2
  have iC0 := cand_i32 hL hV C0
  have iC1 := cand_i32 hL hV C1
  have iC2 := cand_i32 hL hV C2
  have iD0 := cand_i32 hL hV D0
  have iD1 := cand_i32 hL hV D1
  have iZ := cand_i32 hL hV Z
  generalize clampW (if t1 > t2 then t1 else t2) = s5 at k5 ⊢
  generalize clampW (pick3 a0 a1 a2 m.h.h4 m.h.h3 m.h.h2).1 = s4c at k4 ⊢
  generalize clampW (pick3 b0 b1 b2 m.h.h3 m.h.h2 m.h.h1).1 = s3c at k3 ⊢
  generalize clampW (pick3 c0 c1 c2 m.h.h2 m.h.h1 m.h.h0).1 = s2c at k2 ⊢
  generalize clampW (pick2 d0 d1 m.h.h1 m.h.h0 m.i1 m.i0).1 = s1c at k1 ⊢
  generalize clampW (s0 + tprob tp 0 0) = s0c at k0 ⊢
  refine ⟨?_, ⟨k0, k1, k2, k3, k4, k5⟩, ?_, ?_⟩
  · intro x hx
    simp only [List.mem_cons, List.mem_nil_iff, or_false] at hx
    rcases hx with e | e | e | e | e | e | e | e | e | e | e | e | e | e | e | e | e | e | e | e | e | e | e | e | e <;>
      rw [e] <;>
      first
        | assumption
        | (rw [i32_iff]; omega)
  · exact Int.le_trans (Int.le_trans (Int.le_trans (Int.le_trans (Int.le_trans k5.1 (upd_ge_left _ _))
      (upd_ge_left _ _)) (upd_ge_left _ _)) (upd_ge_left _ _)) (upd_ge_left _ _)
  · exact upd_le (upd_le (upd_le (upd_le (upd_le k5.2 k4.2) k3.2) k2.2) k1.2) k0.2

end mpx

end SSVerif.Ranges
