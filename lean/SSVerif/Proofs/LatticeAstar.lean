import SSVerif.Proofs.LatticeTraverse
/-! A* over the lattice: sorted agenda, non-increasing results, results are lattice paths -/
namespace SSVerif.Lattice

variable {L : Lat}

/-! ### the agenda -/

def Sorted (rem : Nat → Int) (ag : List APath) : Prop :=
  ag.Pairwise fun a b => total rem a ≥ total rem b

def Bounded (rem : Nat → Int) (B : Int) (ag : List APath) : Prop := ∀ p ∈ ag, total rem p ≤ B

theorem insertGo_mem (rem : Nat → Int) (np : APath) : ∀ (k : Nat) (ag : List APath) (x : APath),
    x ∈ insertGo rem np k ag → x = np ∨ x ∈ ag := by
  intro k
  induction k with
  | zero => intro ag x h; simp [insertGo] at h
  | succ k ih =>
    intro ag x h
    cases ag with
    | nil => simp [insertGo] at h; exact Or.inl h
    | cons p ps =>
      simp only [insertGo] at h
      split at h
      · rcases List.mem_cons.1 h with h | h
        · exact Or.inl h
        · exact Or.inr h
      · rcases List.mem_cons.1 h with h | h
        · exact Or.inr (h ▸ List.mem_cons_self)
        · rcases ih ps x h with h | h
          · exact Or.inl h
          · exact Or.inr (List.mem_cons_of_mem _ h)

/-- `path_insert` keeps the agenda sorted (also when it cuts the agenda at `MAX_PATHS`) -/
theorem insertGo_sorted (rem : Nat → Int) (np : APath) : ∀ (k : Nat) (ag : List APath),
    Sorted rem ag → Sorted rem (insertGo rem np k ag) := by
  intro k
  induction k with
  | zero => intro ag _; simp [insertGo, Sorted]
  | succ k ih =>
    intro ag hs
    cases ag with
    | nil => simp [insertGo, Sorted]
    | cons p ps =>
      simp only [insertGo]
      unfold Sorted at hs
      rw [List.pairwise_cons] at hs
      split
      · rename_i hlt
        unfold Sorted
        rw [List.pairwise_cons]
        refine ⟨?_, List.pairwise_cons.2 hs⟩
        intro b hb
        rcases List.mem_cons.1 hb with rfl | hb
        · omega
        · have := hs.1 b hb; omega
      · rename_i hnlt
        unfold Sorted
        rw [List.pairwise_cons]
        refine ⟨?_, ih ps hs.2⟩
        intro b hb
        rcases insertGo_mem rem np k ps b hb with rfl | hb
        · omega
        · exact hs.1 b hb

theorem insertGo_bounded (rem : Nat → Int) (np : APath) (B : Int) (k : Nat) (ag : List APath)
    (hb : Bounded rem B ag) (hnp : total rem np ≤ B) : Bounded rem B (insertGo rem np k ag) := by
  intro x hx
  rcases insertGo_mem rem np k ag x hx with rfl | h
  · exact hnp
  · exact hb x h

/-- the heuristic is consistent along every link whose target can reach the end -/
def RemOK (L : Lat) (rem : Nat → Int) : Prop :=
  ∀ x ∈ L.links, rem x.dst ≤ worstScore ∨ x.ascr + rem x.dst ≤ rem x.src

/-- one exit in `path_extend` -/
def extendOne (rem : Nat → Int) (mp : Nat) (p : APath) (ag : List APath) (x : Link) : List APath :=
  if rem x.dst ≤ worstScore then ag
  else
    let np : APath := { nodes := x.dst :: p.nodes, score := p.score + x.ascr }
    if ag.length ≥ mp ∧ worseThanTail rem ag np = true then ag
    else pathInsert rem mp ag np

theorem pathExtend_eq (rem : Nat → Int) (mp : Nat) (ag : List APath) (p : APath) :
    pathExtend L rem mp ag p = (exits L p.node).foldl (extendOne rem mp p) ag := rfl

/-- a predicate that holds for the agenda and for every child of `p` holds for the extended agenda -/
theorem extend_all (rem : Nat → Int) (mp : Nat) (p : APath) (Q : APath → Prop) :
    ∀ (xs : List Link) (ag : List APath), (∀ a ∈ ag, Q a) →
    (∀ x ∈ xs, rem x.dst > worstScore → Q { nodes := x.dst :: p.nodes, score := p.score + x.ascr }) →
    ∀ a ∈ xs.foldl (extendOne rem mp p) ag, Q a := by
  intro xs
  induction xs with
  | nil => intro ag h _; exact h
  | cons x xs ih =>
    intro ag h hq
    simp only [List.foldl_cons]
    apply ih
    · intro a ha
      unfold extendOne at ha
      split at ha
      · exact h a ha
      · rename_i hw
        simp only at ha
        split at ha
        · exact h a ha
        · rcases insertGo_mem _ _ _ _ _ ha with rfl | ha
          · exact hq x List.mem_cons_self (by omega)
          · exact h a ha
    · intro y hy; exact hq y (List.mem_cons_of_mem _ hy)

theorem extend_sorted (rem : Nat → Int) (mp : Nat) (p : APath) :
    ∀ (xs : List Link) (ag : List APath), Sorted rem ag → Sorted rem (xs.foldl (extendOne rem mp p) ag) := by
  intro xs
  induction xs with
  | nil => intro ag h; exact h
  | cons x xs ih =>
    intro ag h
    simp only [List.foldl_cons]
    apply ih
    unfold extendOne
    split
    · exact h
    · simp only
      split
      · exact h
      · exact insertGo_sorted _ _ _ _ h

theorem child_total_le (rem : Nat → Int) (hrem : RemOK L rem) (p : APath) {x : Link} (hx : x ∈ exits L p.node)
    (hw : rem x.dst > worstScore) :
    total rem { nodes := x.dst :: p.nodes, score := p.score + x.ascr } ≤ total rem p := by
  have hm := mem_exits.1 hx
  rcases hrem x hm.1 with h | h
  · omega
  · simp only [total, APath.node, List.headD_cons]
    rw [hm.2] at h
    simp only [APath.node] at h
    omega

/-! ### `astar_next` and the result list -/

theorem astarNext_spec (rem : Nat → Int) (hrem : RemOK L rem) (mp : Nat) (Q : APath → Prop)
    (hQ : ∀ p, Q p → ∀ x ∈ exits L p.node, rem x.dst > worstScore →
      Q { nodes := x.dst :: p.nodes, score := p.score + x.ascr }) :
    ∀ (fuel : Nat) (ag : List APath) (B : Int), Sorted rem ag → Bounded rem B ag → (∀ a ∈ ag, Q a) →
    ∀ p ag', astarNext L rem mp fuel ag = some (p, ag') →
      Sorted rem ag' ∧ Bounded rem (total rem p) ag' ∧ (∀ a ∈ ag', Q a) ∧ total rem p ≤ B ∧ Q p ∧
        complete L p = true := by
  intro fuel
  induction fuel with
  | zero => intro ag B _ _ _ p ag' h; simp [astarNext] at h
  | succ fuel ih =>
    intro ag B hs hb hq p ag' h
    cases ag with
    | nil => simp [astarNext] at h
    | cons top rest =>
      simp only [astarNext] at h
      have hs' := hs
      unfold Sorted at hs'
      rw [List.pairwise_cons] at hs'
      have hrest_b : Bounded rem (total rem top) rest := fun a ha => hs'.1 a ha
      have htop_b : total rem top ≤ B := hb top List.mem_cons_self
      have hrest_q : ∀ a ∈ rest, Q a := fun a ha => hq a (List.mem_cons_of_mem _ ha)
      have htop_q : Q top := hq top List.mem_cons_self
      split at h
      · rename_i hc
        cases h
        exact ⟨hs'.2, hrest_b, hrest_q, htop_b, htop_q, hc⟩
      · split at h
        · rw [pathExtend_eq] at h
          have h1 := extend_sorted rem mp top (exits L top.node) rest hs'.2
          have h2 : Bounded rem (total rem top) ((exits L top.node).foldl (extendOne rem mp top) rest) :=
            extend_all rem mp top (fun a => total rem a ≤ total rem top) _ _ hrest_b
              (fun x hx hw => child_total_le rem hrem top hx hw)
          have h3 := extend_all rem mp top Q _ _ hrest_q (fun x hx hw => hQ top htop_q x hx hw)
          obtain ⟨r1, r2, r3, r4, r5, r6⟩ := ih _ (total rem top) h1 h2 h3 p ag' h
          exact ⟨r1, r2, r3, by omega, r5, r6⟩
        · obtain ⟨r1, r2, r3, r4, r5, r6⟩ := ih _ (total rem top) hs'.2 hrest_b hrest_q p ag' h
          exact ⟨r1, r2, r3, by omega, r5, r6⟩

theorem nbestGo_spec (rem : Nat → Int) (hrem : RemOK L rem) (mp fuel : Nat) (Q : APath → Prop)
    (hQ : ∀ p, Q p → ∀ x ∈ exits L p.node, rem x.dst > worstScore →
      Q { nodes := x.dst :: p.nodes, score := p.score + x.ascr }) :
    ∀ (k : Nat) (ag : List APath) (B : Int), Sorted rem ag → Bounded rem B ag → (∀ a ∈ ag, Q a) →
      (∀ p ∈ nbestGo L rem mp fuel k ag, total rem p ≤ B ∧ Q p ∧ complete L p = true) ∧
      (nbestGo L rem mp fuel k ag).Pairwise (fun a b => total rem a ≥ total rem b) := by
  intro k
  induction k with
  | zero => intro ag B _ _ _; simp [nbestGo]
  | succ k ih =>
    intro ag B hs hb hq
    simp only [nbestGo]
    cases hn : astarNext L rem mp fuel ag with
    | none => simp
    | some pa =>
      obtain ⟨p, ag'⟩ := pa
      simp only
      obtain ⟨r1, r2, r3, r4, r5, r6⟩ := astarNext_spec rem hrem mp Q hQ fuel ag B hs hb hq p ag' hn
      obtain ⟨i1, i2⟩ := ih ag' (total rem p) r1 r2 r3
      constructor
      · intro x hx
        rcases List.mem_cons.1 hx with rfl | hx
        · exact ⟨r4, r5, r6⟩
        · obtain ⟨j1, j2, j3⟩ := i1 x hx
          exact ⟨by omega, j2, j3⟩
      · rw [List.pairwise_cons]
        exact ⟨fun b hb' => (i1 b hb').1, i2⟩

theorem astarStart_spec (rem : Nat → Int) (mp : Nat) (Q : APath → Prop) :
    ∀ (vs : List Nat) (ag : List APath), Sorted rem ag → (∀ a ∈ ag, Q a) →
    (∀ v ∈ vs, Q { nodes := [v], score := 0 }) →
    Sorted rem (vs.foldl (fun ag v => pathInsert rem mp ag { nodes := [v], score := 0 }) ag) ∧
    ∀ a ∈ vs.foldl (fun ag v => pathInsert rem mp ag { nodes := [v], score := 0 }) ag, Q a := by
  intro vs
  induction vs with
  | nil => intro ag hs hq _; exact ⟨hs, hq⟩
  | cons v vs ih =>
    intro ag hs hq hv
    simp only [List.foldl_cons]
    apply ih
    · exact insertGo_sorted _ _ _ _ hs
    · intro a ha
      rcases insertGo_mem _ _ _ _ _ ha with rfl | ha
      · exact hv v List.mem_cons_self
      · exact hq a ha
    · intro w hw; exact hv w (List.mem_cons_of_mem _ hw)

/-! ### the heuristic table is exact enough: it is a fixed point of `remStep` -/

theorem remStep_length (T : List Int) : (remStep L T).length = L.n := by simp [remStep]

theorem remLevel_length : ∀ f, (remLevel L f).length = L.n := by
  intro f; cases f <;> simp [remLevel, remStep]

theorem remStep_get (T : List Int) {v : Nat} (hv : v < L.n) :
    (remStep L T).getD v worstScore =
      if v = L.final then 0
      else (exits L v).foldl (fun best x =>
        let s := T.getD x.dst worstScore + x.ascr
        if s > best then s else best) worstScore := by
  unfold remStep
  rw [List.getD_eq_getElem?_getD, List.getElem?_map, List.getElem?_range hv]
  rfl

theorem foldmax_congr (T T' : List Int) : ∀ (xs : List Link) (b : Int),
    (∀ x ∈ xs, T.getD x.dst worstScore = T'.getD x.dst worstScore) →
    xs.foldl (fun best x => let s := T.getD x.dst worstScore + x.ascr; if s > best then s else best) b =
    xs.foldl (fun best x => let s := T'.getD x.dst worstScore + x.ascr; if s > best then s else best) b := by
  intro xs
  induction xs with
  | nil => intro b _; rfl
  | cons x xs ih =>
    intro b h
    simp only [List.foldl_cons]
    rw [h x List.mem_cons_self]
    exact ih _ (fun y hy => h y (List.mem_cons_of_mem _ hy))

theorem foldmax_ge (T : List Int) : ∀ (xs : List Link) (b : Int),
    b ≤ xs.foldl (fun best x => let s := T.getD x.dst worstScore + x.ascr; if s > best then s else best) b ∧
    ∀ x ∈ xs, T.getD x.dst worstScore + x.ascr ≤
      xs.foldl (fun best x => let s := T.getD x.dst worstScore + x.ascr; if s > best then s else best) b := by
  intro xs
  induction xs with
  | nil => intro b; exact ⟨Int.le_refl _, fun x hx => by cases hx⟩
  | cons x xs ih =>
    intro b
    simp only [List.foldl_cons]
    obtain ⟨h1, h2⟩ := ih (if T.getD x.dst worstScore + x.ascr > b then T.getD x.dst worstScore + x.ascr else b)
    constructor
    · refine Int.le_trans ?_ h1
      split <;> omega
    · intro y hy
      rcases List.mem_cons.1 hy with rfl | hy
      · refine Int.le_trans ?_ h1
        split <;> omega
      · exact h2 y hy

/-- after enough rounds the table no longer changes at nodes of high enough rank -/
theorem remLevel_stable {rank : Nat → Nat} (hrank : ∀ l ∈ L.links, rank l.src < rank l.dst) (M : Nat)
    (hM : ∀ l ∈ L.links, rank l.src < M) :
    ∀ (f : Nat) (v : Nat), M ≤ f + rank v → (remLevel L (f + 1)).getD v worstScore = (remLevel L f).getD v worstScore := by
  intro f
  induction f with
  | zero =>
    intro v hv
    by_cases hvn : v < L.n
    · show (remStep L (remLevel L 0)).getD v worstScore = _
      rw [remStep_get _ hvn]
      have hex : exits L v = [] := by
        rw [List.eq_nil_iff_forall_not_mem]
        intro x hx
        have := hM x (mem_exits.1 hx).1
        rw [(mem_exits.1 hx).2] at this
        omega
      rw [hex]
      simp only [List.foldl_nil, remLevel]
      rw [List.getD_eq_getElem?_getD, List.getElem?_map, List.getElem?_range hvn]
      rfl
    · rw [List.getD_eq_getElem?_getD, List.getD_eq_getElem?_getD,
        List.getElem?_eq_none (by rw [remLevel_length]; omega),
        List.getElem?_eq_none (by rw [remLevel_length]; omega)]
  | succ f ih =>
    intro v hv
    by_cases hvn : v < L.n
    · show (remStep L (remLevel L (f + 1))).getD v worstScore = (remStep L (remLevel L f)).getD v worstScore
      rw [remStep_get _ hvn, remStep_get _ hvn]
      split
      · rfl
      · apply foldmax_congr
        intro x hx
        apply ih
        have := hrank x (mem_exits.1 hx).1
        rw [(mem_exits.1 hx).2] at this
        omega
    · rw [List.getD_eq_getElem?_getD, List.getD_eq_getElem?_getD,
        List.getElem?_eq_none (by rw [remLevel_length]; omega),
        List.getElem?_eq_none (by rw [remLevel_length]; omega)]

/-- the heuristic of the model is consistent, and zero at the end node -/
theorem remTable_ok {rank : Nat → Nat} (hrank : ∀ l ∈ L.links, rank l.src < rank l.dst)
    (hM : ∀ l ∈ L.links, rank l.src < L.nframes + 2) (hsrc : ∀ l ∈ L.links, l.src < L.n)
    (hne : ∀ l ∈ L.links, l.src ≠ L.final) (hfin : L.final < L.n) :
    RemOK L (remTable L) ∧ remTable L L.final = 0 := by
  have hstable : ∀ v, (remLevel L (L.nframes + 2 + 1)).getD v worstScore = (remLevel L (L.nframes + 2)).getD v worstScore :=
    fun v => remLevel_stable hrank (L.nframes + 2) hM (L.nframes + 2) v (by omega)
  constructor
  · intro x hx
    right
    show x.ascr + (remLevel L (L.nframes + 2)).getD x.dst worstScore ≤ (remLevel L (L.nframes + 2)).getD x.src worstScore
    rw [← hstable x.src]
    show _ ≤ (remStep L (remLevel L (L.nframes + 2))).getD x.src worstScore
    rw [remStep_get _ (hsrc x hx), if_neg (hne x hx)]
    have := (foldmax_ge (remLevel L (L.nframes + 2)) (exits L x.src) worstScore).2 x (mem_exits.2 ⟨hx, rfl⟩)
    omega
  · show (remLevel L (L.nframes + 1 + 1)).getD L.final worstScore = 0
    show (remStep L (remLevel L (L.nframes + 1))).getD L.final worstScore = 0
    rw [remStep_get _ hfin, if_pos rfl]

/-! ### results are lattice paths -/

/-- nodes visited by a link list starting at `u` -/
def nodesOf (u : Nat) (ls : List Link) : List Nat := u :: ls.map (·.dst)

/-- a partial hypothesis is a path of the lattice from a node starting at frame 0, with the exact
sum of the link scores -/
def Valid (L : Lat) (p : APath) : Prop :=
  ∃ u ls, Path L u ls p.node ∧ p.nodes.reverse = nodesOf u ls ∧ score ls = p.score ∧
    (L.node u).sf = 0 ∧ u < L.n

theorem valid_seed {v : Nat} (hv : v < L.n) (hsf : (L.node v).sf = 0) : Valid L { nodes := [v], score := 0 } :=
  ⟨v, [], .nil _, rfl, rfl, hsf, hv⟩

theorem valid_child {p : APath} (h : Valid L p) {x : Link} (hx : x ∈ exits L p.node) :
    Valid L { nodes := x.dst :: p.nodes, score := p.score + x.ascr } := by
  obtain ⟨u, ls, hp, hn, hs, hsf, hu⟩ := h
  have hm := mem_exits.1 hx
  refine ⟨u, ls ++ [x], hp.snoc hm.1 hm.2, ?_, ?_, hsf, hu⟩
  · simp only [List.reverse_cons, hn, nodesOf, List.map_append, List.map_cons, List.map_nil, List.cons_append]
  · simp only [score, List.map_append, List.sum_append, List.map_cons, List.map_nil, List.sum_cons, List.sum_nil]
    simp only [score] at hs
    omega

/-! ### the first result is a maximum over all paths from the seed nodes -/

/-- some agenda entry has total score at least `T` -/
def Wit (rem : Nat → Int) (T : Int) (ag : List APath) : Prop := ∃ a ∈ ag, T ≤ total rem a

theorem insertGo_wit (rem : Nat → Int) (np : APath) (T : Int) : ∀ (k : Nat) (ag : List APath), Sorted rem ag →
    (Wit rem T ag ∨ T ≤ total rem np) → Wit rem T (insertGo rem np (k + 1) ag) := by
  intro k ag hs h
  cases ag with
  | nil =>
    simp only [insertGo]
    rcases h with ⟨a, ha, _⟩ | h
    · cases ha
    · exact ⟨np, by simp, h⟩
  | cons p ps =>
    simp only [insertGo]
    unfold Sorted at hs
    rw [List.pairwise_cons] at hs
    split
    · rcases h with ⟨a, ha, hT⟩ | h
      · exact ⟨a, List.mem_cons_of_mem _ ha, hT⟩
      · exact ⟨np, List.mem_cons_self, h⟩
    · rename_i hnlt
      refine ⟨p, List.mem_cons_self, ?_⟩
      rcases h with ⟨a, ha, hT⟩ | h
      · rcases List.mem_cons.1 ha with rfl | ha
        · exact hT
        · have := hs.1 a ha; omega
      · omega

theorem getLast?_mem {α : Type} : ∀ {l : List α} {a : α}, l.getLast? = some a → a ∈ l := by
  intro l a h
  exact List.mem_of_getLast? h

theorem extendOne_wit (rem : Nat → Int) (mp : Nat) (p : APath) (T : Int) (ag : List APath) (x : Link)
    (hs : Sorted rem ag)
    (h : Wit rem T ag ∨ (rem x.dst > worstScore ∧ T ≤ total rem { nodes := x.dst :: p.nodes, score := p.score + x.ascr })) :
    Wit rem T (extendOne rem (mp + 1) p ag x) := by
  unfold extendOne
  split
  · rename_i hw
    rcases h with h | ⟨h1, _⟩
    · exact h
    · omega
  · simp only
    split
    · rename_i hrej
      rcases h with h | ⟨_, h2⟩
      · exact h
      · -- rejected against the tail: the tail is a witness
        unfold worseThanTail at hrej
        cases hl : ag.getLast? with
        | none => rw [hl] at hrej; simp at hrej
        | some t =>
          rw [hl] at hrej
          simp only [decide_eq_true_eq] at hrej
          exact ⟨t, getLast?_mem hl, by omega⟩
    · apply insertGo_wit _ _ _ _ _ hs
      rcases h with h | ⟨_, h2⟩
      · exact Or.inl h
      · exact Or.inr h2

theorem extend_wit (rem : Nat → Int) (mp : Nat) (p : APath) (T : Int) :
    ∀ (xs : List Link) (ag : List APath), Sorted rem ag →
    (Wit rem T ag ∨ ∃ x ∈ xs, rem x.dst > worstScore ∧ T ≤ total rem { nodes := x.dst :: p.nodes, score := p.score + x.ascr }) →
    Wit rem T (xs.foldl (extendOne rem (mp + 1) p) ag) := by
  intro xs
  induction xs with
  | nil =>
    intro ag _ h
    rcases h with h | ⟨x, hx, _⟩
    · exact h
    · cases hx
  | cons y ys ih =>
    intro ag hs h
    simp only [List.foldl_cons]
    have hs' : Sorted rem (extendOne rem (mp + 1) p ag y) := extend_sorted rem (mp + 1) p [y] ag hs
    apply ih _ hs'
    rcases h with h | ⟨x, hx, h1, h2⟩
    · exact Or.inl (extendOne_wit rem mp p T ag y hs (Or.inl h))
    · rcases List.mem_cons.1 hx with rfl | hx
      · exact Or.inl (extendOne_wit rem mp p T ag x hs (Or.inr ⟨h1, h2⟩))
      · exact Or.inr ⟨x, hx, h1, h2⟩

/-- the heuristic is attained by an exit -/
def RemAttained (L : Lat) (rem : Nat → Int) : Prop :=
  ∀ v, v < L.n → v ≠ L.final → ∃ x ∈ exits L v, rem x.dst > worstScore ∧ rem v = x.ascr + rem x.dst

theorem astarNext_first (rem : Nat → Int) (hatt : RemAttained L rem) (mp : Nat) (T : Int)
    (hcompl : ∀ p : APath, p.node < L.n → complete L p = false → p.node ≠ L.final)
    (hfef : ∀ v, v < L.n → (L.node v).fef < L.nframes + 1)
    (hdst : ∀ l ∈ L.links, l.dst < L.n) :
    ∀ (fuel : Nat) (ag : List APath), Sorted rem ag → Wit rem T ag → (∀ a ∈ ag, a.node < L.n) →
    ∀ p ag', astarNext L rem (mp + 1) fuel ag = some (p, ag') → T ≤ total rem p := by
  intro fuel
  induction fuel with
  | zero => intro ag _ _ _ p ag' h; simp [astarNext] at h
  | succ fuel ih =>
    intro ag hs hw hn p ag' h
    cases ag with
    | nil => simp [astarNext] at h
    | cons top rest =>
      simp only [astarNext] at h
      have hs' := hs
      unfold Sorted at hs'
      rw [List.pairwise_cons] at hs'
      have htopn : top.node < L.n := hn top List.mem_cons_self
      have hrestn : ∀ a ∈ rest, a.node < L.n := fun a ha => hn a (List.mem_cons_of_mem _ ha)
      have htopT : T ≤ total rem top := by
        obtain ⟨a, ha, hT⟩ := hw
        rcases List.mem_cons.1 ha with rfl | ha
        · exact hT
        · have := hs'.1 a ha; omega
      split at h
      · cases h; exact htopT
      · rename_i hc
        have hc' : complete L top = false := by simpa using hc
        rw [if_pos (hfef _ htopn), pathExtend_eq] at h
        obtain ⟨x, hx, h1, h2⟩ := hatt top.node htopn (hcompl top htopn hc')
        have hw' : Wit rem T ((exits L top.node).foldl (extendOne rem (mp + 1) top) rest) := by
          apply extend_wit rem mp top T _ _ hs'.2
          refine Or.inr ⟨x, hx, h1, ?_⟩
          simp only [total, APath.node, List.headD_cons]
          simp only [total, APath.node] at htopT h2
          omega
        have hn' : ∀ a ∈ (exits L top.node).foldl (extendOne rem (mp + 1) top) rest, a.node < L.n :=
          extend_all rem (mp + 1) top (fun a => a.node < L.n) _ _ hrestn
            (fun y hy _ => by simp only [APath.node, List.headD_cons]; exact hdst y (mem_exits.1 hy).1)
        exact ih _ (extend_sorted rem (mp + 1) top _ _ hs'.2) hw' hn' p ag' h

theorem astarNext_complete (rem : Nat → Int) (mp : Nat) : ∀ (fuel : Nat) (ag : List APath) (p : APath) (ag' : List APath),
    astarNext L rem mp fuel ag = some (p, ag') → complete L p = true := by
  intro fuel
  induction fuel with
  | zero => intro ag p ag' h; simp [astarNext] at h
  | succ fuel ih =>
    intro ag p ag' h
    cases ag with
    | nil => simp [astarNext] at h
    | cons top rest =>
      simp only [astarNext] at h
      split at h
      · rename_i hc; cases h; exact hc
      · split at h
        · exact ih _ p ag' h
        · exact ih _ p ag' h

theorem astarStart_wit (rem : Nat → Int) (mp : Nat) (T : Int) :
    ∀ (vs : List Nat) (ag : List APath), Sorted rem ag →
    (Wit rem T ag ∨ ∃ v ∈ vs, T ≤ total rem { nodes := [v], score := 0 }) →
    Wit rem T (vs.foldl (fun ag v => pathInsert rem (mp + 1) ag { nodes := [v], score := 0 }) ag) := by
  intro vs
  induction vs with
  | nil =>
    intro ag _ h
    rcases h with h | ⟨v, hv, _⟩
    · exact h
    · cases hv
  | cons w ws ih =>
    intro ag hs h
    simp only [List.foldl_cons]
    apply ih _ (insertGo_sorted _ _ _ _ hs)
    rcases h with h | ⟨v, hv, hT⟩
    · exact Or.inl (insertGo_wit rem _ T mp ag hs (Or.inl h))
    · rcases List.mem_cons.1 hv with rfl | hv
      · exact Or.inl (insertGo_wit rem _ T mp ag hs (Or.inr hT))
      · exact Or.inr ⟨v, hv, hT⟩

/-- a consistent heuristic that is 0 at the end node bounds the score of every path to the end -/
theorem score_le_rem (rem : Nat → Int) (hcons : ∀ x ∈ L.links, x.ascr + rem x.dst ≤ rem x.src) (hfin : rem L.final = 0)
    {u : Nat} {ls : List Link} (hp : Path L u ls L.final) : score ls ≤ rem u := by
  generalize hw : L.final = w at hp
  induction hp with
  | nil => rw [← hw, hfin]; simp [score]
  | @cons u x ls w hm hs _ ih =>
    have := ih hw
    have := hcons x hm
    simp only [score, List.map_cons, List.sum_cons] at *
    rw [hs] at *
    omega

/-- the fold of `remStep` returns its start value or the value of one of the exits -/
theorem foldmax_attained (T : List Int) : ∀ (xs : List Link) (b : Int),
    xs.foldl (fun best x => let s := T.getD x.dst worstScore + x.ascr; if s > best then s else best) b = b ∨
    ∃ x ∈ xs, xs.foldl (fun best x => let s := T.getD x.dst worstScore + x.ascr; if s > best then s else best) b
      = T.getD x.dst worstScore + x.ascr := by
  intro xs
  induction xs with
  | nil => intro b; exact Or.inl rfl
  | cons y ys ih =>
    intro b
    simp only [List.foldl_cons]
    rcases ih (if T.getD y.dst worstScore + y.ascr > b then T.getD y.dst worstScore + y.ascr else b) with h | ⟨x, hx, h⟩
    · rw [h]
      split
      · exact Or.inr ⟨y, List.mem_cons_self, rfl⟩
      · exact Or.inl rfl
    · exact Or.inr ⟨x, List.mem_cons_of_mem _ hx, h⟩

/-- the heuristic table of the model is consistent on every link, zero at the end, and attained -/
theorem remTable_exact {rank : Nat → Nat} (hrank : ∀ l ∈ L.links, rank l.src < rank l.dst)
    (hM : ∀ l ∈ L.links, rank l.src < L.nframes + 2) (hsrc : ∀ l ∈ L.links, l.src < L.n)
    (hne : ∀ l ∈ L.links, l.src ≠ L.final) (hfin : L.final < L.n)
    (hnu : ∀ v, v < L.n → remTable L v > worstScore) :
    (∀ x ∈ L.links, x.ascr + remTable L x.dst ≤ remTable L x.src) ∧ remTable L L.final = 0 ∧
    (∀ v, v < L.n → v ≠ L.final → ∃ x ∈ exits L v, remTable L v = x.ascr + remTable L x.dst) := by
  obtain ⟨h1, h2⟩ := remTable_ok hrank hM hsrc hne hfin
  have hstable : ∀ v, (remLevel L (L.nframes + 2 + 1)).getD v worstScore = (remLevel L (L.nframes + 2)).getD v worstScore :=
    fun v => remLevel_stable hrank (L.nframes + 2) hM (L.nframes + 2) v (by omega)
  refine ⟨?_, h2, ?_⟩
  · intro x hx
    show x.ascr + (remLevel L (L.nframes + 2)).getD x.dst worstScore ≤ (remLevel L (L.nframes + 2)).getD x.src worstScore
    rw [← hstable x.src]
    show _ ≤ (remStep L (remLevel L (L.nframes + 2))).getD x.src worstScore
    rw [remStep_get _ (hsrc x hx), if_neg (hne x hx)]
    have := (foldmax_ge (remLevel L (L.nframes + 2)) (exits L x.src) worstScore).2 x (mem_exits.2 ⟨hx, rfl⟩)
    omega
  · intro v hv hvf
    have := hnu v hv
    have e : remTable L v = (remStep L (remLevel L (L.nframes + 2))).getD v worstScore := (hstable v).symm
    rw [remStep_get _ hv, if_neg hvf] at e
    rcases foldmax_attained (remLevel L (L.nframes + 2)) (exits L v) worstScore with h | ⟨x, hx, h⟩
    · rw [h] at e; omega
    · refine ⟨x, hx, ?_⟩
      rw [e, h]
      show _ = x.ascr + (remLevel L (L.nframes + 2)).getD x.dst worstScore
      omega

end SSVerif.Lattice
