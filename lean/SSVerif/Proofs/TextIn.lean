import SSVerif.Model.TextIn
/-! # lemmas about the tokenisers of `Model/TextIn.lean` (C10) -/
namespace SSVerif.TextIn

/-! ## `nextLine` -/

theorem nextLine_spec (buf : Buf) (ptr : Nat) (l : Span buf.size) (h : nextLine buf ptr = some l) :
    l.lo = ptr ∧
    (∀ i (hi : i < buf.size), l.lo ≤ i → i + 1 < l.hi → buf[i]'hi ≠ 10) ∧
    (l.hi = buf.size ∨ ∃ (hh : l.hi - 1 < buf.size), buf[l.hi - 1]'hh = 10) := by
  unfold nextLine at h
  split at h
  · rename_i hp
    simp only at h
    split at h
    · rename_i h2
      injection h with h; subst h
      refine ⟨rfl, ?_, ?_⟩
      · intro i hi h1 h3
        simp only at h1 h3
        have := scanTo_skipped buf (· == 10) ptr buf.size (Nat.le_refl _) i h1 (by omega) hi
        simpa using this
      · right
        refine ⟨by simpa using h2, ?_⟩
        have := scanTo_stop buf (· == 10) ptr buf.size (Nat.le_refl _) h2
        simpa using this
    · rename_i h2
      injection h with h; subst h
      refine ⟨rfl, ?_, ?_⟩
      · intro i hi h1 h3
        simp only at h1 h3
        have := scanTo_skipped buf (· == 10) ptr buf.size (Nat.le_refl _) i h1 (by omega) hi
        simpa using this
      · left
        have := scanTo_le buf (· == 10) ptr buf.size (Nat.le_refl _) (Nat.le_of_lt hp)
        simp only; omega
  · cases h

theorem nextLine_none (buf : Buf) (ptr : Nat) : nextLine buf ptr = none ↔ buf.size ≤ ptr := by
  unfold nextLine
  split
  · rename_i h; simp only; split <;> simp <;> omega
  · rename_i h; simp; omega

/-- the lines from `ptr` on tile `[ptr, buf.size)`: each starts where the previous one ended -/
inductive Tiles {n : Nat} : Nat → List (Span n) → Prop where
  | nil {p : Nat} (h : n ≤ p) : Tiles p []
  | cons {p : Nat} {l : Span n} {r : List (Span n)} (h : l.lo = p) (t : Tiles l.hi r) : Tiles p (l :: r)

theorem allLines_tiles (buf : Buf) (ptr : Nat) : Tiles ptr (allLines buf ptr) := by
  fun_induction allLines buf ptr with
  | case1 ptr h => exact .nil ((nextLine_none buf ptr).mp h)
  | case2 ptr l h ih => exact .cons (nextLine_lo buf ptr l h) ih

theorem allLines_length (buf : Buf) (ptr : Nat) : (allLines buf ptr).length ≤ buf.size - ptr := by
  fun_induction allLines buf ptr with
  | case1 ptr h => simp
  | case2 ptr l h ih =>
    have := nextLine_lo buf ptr l h
    have := l.lt; have := l.le
    simp only [List.length_cons]; omega

/-! ## `nextWord` -/

theorem nextWord_spec (buf : Buf) (p e : Nat) (he : e ≤ buf.size) (w : Span buf.size)
    (h : nextWord buf p e he = some w) :
    p ≤ w.lo ∧ w.hi ≤ e ∧
    (∀ i (hi : i < buf.size), p ≤ i → i < w.lo → isSpaceC (buf[i]'hi) = true) ∧
    (∀ i (hi : i < buf.size), w.lo ≤ i → i < w.hi → isSpaceC (buf[i]'hi) = false) ∧
    (w.hi = e ∨ ∃ (hh : w.hi < buf.size), isSpaceC (buf[w.hi]'hh) = true) := by
  unfold nextWord at h
  split at h
  · rename_i hp
    simp only at h
    split at h
    · rename_i hw
      injection h with h; subst h
      simp only
      refine ⟨scanTo_ge .., scanTo_le _ _ _ _ _ hw, ?_, ?_, ?_⟩
      · intro i hi h1 h2
        have := scanTo_skipped buf (fun b => !isSpaceC b) p e he i h1 h2 hi
        simpa using this
      · intro i hi h1 h2
        by_cases hiw : i = scanTo buf (fun b => !isSpaceC b) p e he
        · subst hiw
          have := scanTo_stop buf (fun b => !isSpaceC b) p e he hw
          simpa using this
        · exact scanTo_skipped buf isSpaceC _ e he i (by omega) h2 hi
      · by_cases hq : scanTo buf isSpaceC (scanTo buf (fun b => !isSpaceC b) p e he + 1) e he < e
        · right
          exact ⟨Nat.lt_of_lt_of_le hq he, scanTo_stop buf isSpaceC _ e he hq⟩
        · left
          have := scanTo_le buf isSpaceC (scanTo buf (fun b => !isSpaceC b) p e he + 1) e he hw
          omega
    · cases h
  · cases h

theorem nextWord_none (buf : Buf) (p e : Nat) (he : e ≤ buf.size) (h : nextWord buf p e he = none) :
    ∀ i (hi : i < buf.size), p ≤ i → i < e → isSpaceC (buf[i]'hi) = true := by
  intro i hi h1 h2
  unfold nextWord at h
  split at h
  · rename_i hp
    simp only at h
    split at h
    · cases h
    · rename_i hw
      have hle := scanTo_le buf (fun b => !isSpaceC b) p e he (Nat.le_of_lt hp)
      have := scanTo_skipped buf (fun b => !isSpaceC b) p e he i h1 (by omega) hi
      simpa using this
  · omega

theorem wordsFrom_within (buf : Buf) (p e : Nat) (he : e ≤ buf.size) :
    ∀ w ∈ wordsFrom buf p e he, p ≤ w.lo ∧ w.hi ≤ e := by
  fun_induction wordsFrom buf p e he with
  | case1 p h => intro w hw; cases hw
  | case2 p w h ih =>
    intro w' hw'
    have hs := nextWord_within buf p e he w h
    cases hw' with
    | head => exact hs
    | tail _ hm =>
      have := ih w' hm
      have := w.lt
      omega

/-- words handed out for a line never extend beyond the line (`end = s->ptr`) -/
theorem lineWords_within (buf : Buf) (l : Span buf.size) :
    ∀ w ∈ lineWords buf l, l.lo ≤ w.lo ∧ w.hi ≤ l.hi :=
  wordsFrom_within buf l.lo l.hi l.le

/-! ## `slice` -/

theorem sliceGo_eq (buf : Buf) (lo hi : Nat) (h : hi ≤ buf.size) (acc : List UInt8) :
    sliceGo buf lo hi h acc = (buf.extract lo hi).toList ++ acc := by
  fun_induction sliceGo buf lo hi h acc with
  | case1 hi h acc hl ih =>
    rw [ih]
    have e1 : (buf.extract lo hi).toList = (buf.extract lo (hi - 1)).toList ++ [buf[hi - 1]'(by omega)] := by
      apply List.ext_getElem
      · simp; omega
      · intro i h1 h2
        simp only [Array.length_toList, Array.size_extract] at h1
        by_cases hi' : i < hi - 1 - lo
        · rw [List.getElem_append_left (by simp; omega)]
          simp
        · rw [List.getElem_append_right (by simp; omega)]
          simp
          congr 1
          simp at h2
          omega
    rw [e1]; simp
  | case2 hi h acc hl =>
    have : (buf.extract lo hi).toList = [] := by
      simp; omega
    rw [this]; rfl

theorem slice_eq (buf : Buf) (s : Span buf.size) : slice buf s = (buf.extract s.lo s.hi).toList := by
  unfold slice; rw [sliceGo_eq]; simp

theorem slice_length (buf : Buf) (s : Span buf.size) : (slice buf s).length = s.hi - s.lo := by
  rw [slice_eq]; simp; have := s.le; omega

theorem slice_ne_nil (buf : Buf) (s : Span buf.size) : slice buf s ≠ [] := by
  intro h
  have h1 := slice_length buf s
  rw [h] at h1
  have := s.lt
  simp at h1; omega

theorem slice_getElem (buf : Buf) (s : Span buf.size) (k : Nat) (hk : k < (slice buf s).length) :
    (slice buf s)[k] = buf[s.lo + k]'(by have := slice_length buf s; have := s.le; omega) := by
  simp [slice_eq]

/-! ## number scanners -/

theorem satLong_range (v : Int) : longMin ≤ satLong v ∧ satLong v ≤ longMax := by
  unfold satLong longMin longMax
  split
  · omega
  · split <;> omega

theorem strtol10_range (s : List UInt8) (v : Int) (h : strtol10 s = some v) : longMin ≤ v ∧ v ≤ longMax := by
  unfold strtol10 at h
  simp only at h
  split at h
  · split at h
    · injection h with h; subst h; exact satLong_range _
    · cases h
  · cases h

theorem wrap32_range (v : Int) : -2147483648 ≤ wrap32 v ∧ wrap32 v ≤ 2147483647 := by
  unfold wrap32
  simp only
  split <;> omega

end SSVerif.TextIn
