import SSVerif.Proofs.DblMono
/-! # Error budget of a begin field: the three roundings between `start + f/frate` and the printed decimal -/
namespace SSVerif.Dbl
open SSVerif.Fmt3

/-- half-ulp bound of the division: `roundVal f fr` units against the exact `f·2^1074/fr` -/
theorem roundVal_close (num den : Nat) (hd : 0 < den) :
    2 * (roundVal num den * den) ≤ 2 * (num * 2 ^ 1074) + den * 2 ^ ulpB num den ∧
    2 * (num * 2 ^ 1074) ≤ 2 * (roundVal num den * den) + den * 2 ^ ulpB num den := by
  have hspec := rne_spec (num * 2 ^ 1074) (den * 2 ^ ulpB num den) (Nat.mul_pos hd (two_pow_pos _))
  change IsRNE (num * 2 ^ 1074) (den * 2 ^ ulpB num den) (mantB num den) at hspec
  unfold roundVal
  obtain ⟨s1, s2, _, _⟩ := hspec
  have e1 : mantB num den * 2 ^ ulpB num den * den = mantB num den * (den * 2 ^ ulpB num den) := by
    rw [Nat.mul_assoc, Nat.mul_comm (2 ^ ulpB num den) den]
  rw [e1]
  exact ⟨s1, s2⟩

/-- the ulp is at most `2^-52` of the value (or the denormal ulp) -/
theorem ulpB_rel (num den : Nat) : ulpB num den = 0 ∨ 2 ^ (ulpB num den + 52) ≤ num * 2 ^ 1074 / den := by
  unfold ulpB
  generalize num * 2 ^ 1074 / den = q
  by_cases h : q.log2 - 52 = 0
  · exact Or.inl h
  · right
    have hq : q ≠ 0 := by
      intro h0; subst h0
      have : Nat.log2 0 = 0 := by decide
      omega
    have : q.log2 - 52 + 52 = q.log2 := by omega
    rw [this]
    exact Nat.log2_self_le hq

/-- **error budget of `%.3f` of `start + (double)f / fr`**: with `A` = |start|, `U` = the rounded quotient, `Z` the exact
signed sum, `V` the rounded |sum| (all in units of `2^-1074`) and `k` the printed thousandths:
each of the three roundings is off by at most half of its unit -/
theorem begin_budget (start : Nat) (hs : isFiniteBits start = true) (f fr : Nat) (hfr : 0 < fr) (hf : f ≤ 2 ^ 31) :
    ∃ (na : Bool) (ma : Nat) (ea : Int) (Z : Int) (neg : Bool) (k : Nat),
      ofBits start = some (na, ma, ea) ∧
      Z = (if na = true then -((ma * 2 ^ (ea + 1074).toNat : Nat) : Int) else ((ma * 2 ^ (ea + 1074).toNat : Nat) : Int)) +
            ((roundVal f fr : Nat) : Int) ∧
      -- the division: |U·fr − f·2^1074| ≤ fr·ulp/2
      (2 * (roundVal f fr * fr) ≤ 2 * (f * 2 ^ 1074) + fr * 2 ^ ulpB f fr ∧
       2 * (f * 2 ^ 1074) ≤ 2 * (roundVal f fr * fr) + fr * 2 ^ ulpB f fr) ∧
      -- the addition: |V − |Z|| ≤ ulp/2
      (2 * roundVal Z.natAbs (2 ^ 1074) ≤ 2 * Z.natAbs + 2 ^ ulpB Z.natAbs (2 ^ 1074) ∧
       2 * Z.natAbs ≤ 2 * roundVal Z.natAbs (2 ^ 1074) + 2 ^ ulpB Z.natAbs (2 ^ 1074)) ∧
      -- the decimal: |k − 1000·V| ≤ 1/2 (in units)
      (Z ≠ 0 → 2 * (k * 2 ^ 1074) ≤ 2 * (1000 * roundVal Z.natAbs (2 ^ 1074)) + 2 ^ 1074 ∧
               2 * (1000 * roundVal Z.natAbs (2 ^ 1074)) ≤ 2 * (k * 2 ^ 1074) + 2 ^ 1074) ∧
      (Z = 0 → k = 0) ∧
      readMilli (fmtBits (timeBits start (f : Int) (fr : Int))) = some (neg, k) ∧
      neg = decide (Z < 0) := by
  unfold isFiniteBits at hs
  cases ha : ofBits start with
  | none => rw [ha] at hs; cases hs
  | some x =>
    obtain ⟨na, ma, ea⟩ := x
    -- the quotient
    have hb : divInt (f : Int) (fr : Int) = roundPos f fr := ratioBits_nat f fr hfr
    obtain ⟨m, e, d1, d2, d3⟩ := decode_value f fr (ulpB_small f fr hfr hf)
    obtain ⟨m', e', s1, _, s3⟩ := decode_small false (roundPos f fr) (roundPos_small f fr hfr
      (Nat.le_trans hf (Nat.le_mul_of_pos_right _ hfr)))
    have hz : sgn false + roundPos f fr = roundPos f fr := by
      show 0 + roundPos f fr = roundPos f fr
      rw [Nat.zero_add]
    rw [hz, d1] at s1
    cases s1
    have hU : m * 2 ^ (e + 1074).toNat = roundVal f fr := d3
    obtain ⟨neg, k, r1, q1, hneg⟩ := printed_of_sum start (divInt (f : Int) (fr : Int)) na ma m ea e ha (by rw [hb]; exact d1) d2 s3 _ rfl
    rw [hU] at q1 hneg
    generalize hZ : (if na = true then -((ma * 2 ^ (ea + 1074).toNat : Nat) : Int) else ((ma * 2 ^ (ea + 1074).toNat : Nat) : Int)) +
      ((roundVal f fr : Nat) : Int) = Z at q1 hneg
    have hadd : 2 * roundVal Z.natAbs (2 ^ 1074) ≤ 2 * Z.natAbs + 2 ^ ulpB Z.natAbs (2 ^ 1074) ∧
        2 * Z.natAbs ≤ 2 * roundVal Z.natAbs (2 ^ 1074) + 2 ^ ulpB Z.natAbs (2 ^ 1074) := by
      obtain ⟨hu, hm⟩ := roundPos_int Z.natAbs
      obtain ⟨t1, t2, _, _⟩ := rne_spec Z.natAbs (2 ^ (Z.natAbs.log2 - 52)) (two_pow_pos _)
      unfold roundVal
      rw [hu, hm]
      exact ⟨t1, t2⟩
    refine ⟨na, ma, ea, Z, neg, k, rfl, hZ.symm, roundVal_close f fr hfr, hadd, ?_, ?_, r1, ?_⟩
    · intro hz0
      unfold SP at q1
      rw [if_neg hz0] at q1
      have hk : k = K (roundVal Z.natAbs (2 ^ 1074)) := by
        by_cases hn : Z < 0
        · rw [if_pos hn] at q1
          cases neg <;> simp only [Bool.false_eq_true, if_false, if_true] at q1 <;> omega
        · rw [if_neg hn] at q1
          cases neg <;> simp only [Bool.false_eq_true, if_false, if_true] at q1 <;> omega
      obtain ⟨t1, t2, _, _⟩ := rne_spec (1000 * roundVal Z.natAbs (2 ^ 1074)) (2 ^ 1074) (two_pow_pos _)
      rw [hk]
      exact ⟨t1, t2⟩
    · intro hz0
      unfold SP at q1
      rw [if_pos hz0] at q1
      cases neg <;> simp only [Bool.false_eq_true, if_false, if_true] at q1 <;> omega
    · exact hneg

end SSVerif.Dbl
