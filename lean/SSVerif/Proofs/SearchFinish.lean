import SSVerif.Model.SearchFinish
import SSVerif.Proofs.SearchScoreBeam
/-! Every state the search with beams can reach keeps every HMM that is off the active list in the cleared state; hence
`searchFinish` (clear the listed ones) restores the all-cleared array, and the next utterance on the same search object
runs exactly like the first.  Core Lean only. -/
namespace SSVerif.SearchScore
open SSVerif.Viterbi SSVerif.Hmm SSVerif.Search SSVerif.Hist

/-- what `fsg_search_start` assumes: all HMMs cleared, exit scores cleared, nothing listed -/
structure Clean (E : Env) (sb : SSB) : Prop where
  hmm : sb.s.hmm = (List.replicate E.n inact).toArray
  out : sb.s.out = (List.replicate E.n none).toArray
  act : sb.act = (List.replicate E.n false).toArray

/-- an HMM that is not on the active list is cleared -/
def OffListCleared (E : Env) (sb : SSB) : Prop :=
  ∀ p, p < E.n → sb.act.getD p false = false → hget sb.s.hmm p = inact ∧ sb.s.out.getD p none = none

theorem map_range_const {α : Type} (n : Nat) (c : α) (f : Nat → α) (hf : ∀ p, p < n → f p = c) :
    (List.range n).map f = List.replicate n c := by
  apply List.ext_getElem
  · simp
  · intro i h1 h2
    simp only [List.getElem_map, List.getElem_range, List.getElem_replicate]
    exact hf i (by simpa using h1)

theorem getD_mapRange {α : Type} (n : Nat) (f : Nat → α) (d : α) (p : Nat) (hp : p < n) :
    (((List.range n).map f).toArray).getD p d = f p := by
  simp [Array.getD, hp]

theorem getD_replicate {α : Type} (n : Nat) (c : α) (p : Nat) : ((List.replicate n c).toArray).getD p c = c := by
  simp only [Array.getD, List.size_toArray, List.length_replicate]
  split
  · simp
  · rfl

theorem searchFrameBeam_offList (E : Env) (beam pbeam wbeam : Int) (e : Nat → Nat → Int) (sb : SSB) :
    OffListCleared E (searchFrameBeam E beam pbeam wbeam e sb) := by
  unfold searchFrameBeam
  simp only
  split
  · intro p _ _
    exact ⟨hget_replicate _ _, getD_replicate _ _ _⟩
  · intro p hp h
    simp only [getD_mapRange _ _ _ _ hp] at h
    simp only [hget_mapRange _ _ _ hp, getD_mapRange _ _ _ _ hp]
    rw [h]
    exact ⟨rfl, rfl⟩

theorem foldl_enter_s12 (l : List (Nat × Int)) (h : Array ISt) (j : Nat) (hj : j < h.size) :
    (hget (l.foldl enter h) j).s1 = (hget h j).s1 ∧ (hget (l.foldl enter h) j).s2 = (hget h j).s2 := by
  obtain ⟨_, a1, a2, _⟩ := foldl_enter l h j hj
  exact ⟨a1, a2⟩

theorem searchStartBeam_offList (E : Env) (beam wbeam : Int) : OffListCleared E (searchStartBeam E beam wbeam) := by
  intro p hp h
  unfold searchStartBeam at h ⊢
  simp only at h ⊢
  rw [getD_mapRange _ _ _ _ hp] at h
  refine ⟨?_, getD_replicate _ _ _⟩
  have hsz : p < ((List.replicate E.n inact).toArray).size := by simpa using hp
  obtain ⟨b1, b2⟩ := foldl_enter_s12
    ((wordRelax E (dummyTok E :: ((nullFrom E.g (dummyTok E).dst).map fun (x : Nat × Link) =>
      (⟨some x.1, x.2.dst, -1, (dummyTok E).score + FlatNet.shiftS x.2.logp, (dummyTok E).lc, (dummyTok E).rc⟩ : Tok)).filter
        fun tk => decide (tk.score ≥ wbeam))).filter fun x => decide (x.2 > beam))
    ((List.replicate E.n inact).toArray) p hsz
  rw [hget_replicate] at b1 b2
  generalize hget _ p = x at h b1 b2 ⊢
  cases x with
  | mk s0 s1 s2 =>
    simp only at b1 b2 h
    cases s0 with
    | none => subst b1; subst b2; rfl
    | some v => simp at h

theorem runSearchBeam_offList (E : Env) (beam pbeam wbeam : Int) (e : Nat → Nat → Nat → Int) (T : Nat) :
    OffListCleared E (runSearchBeam E beam pbeam wbeam e T) := by
  cases T with
  | zero => exact searchStartBeam_offList E beam wbeam
  | succ T => rw [runSearchBeam_succ]; exact searchFrameBeam_offList E beam pbeam wbeam (e T) _

theorem searchFinish_clean (E : Env) (sb : SSB) (h : OffListCleared E sb) : Clean E (searchFinish E sb) := by
  refine ⟨?_, ?_, rfl⟩
  · unfold searchFinish
    simp only
    congr 1
    apply map_range_const
    intro p hp
    by_cases ha : sb.act.getD p false = true
    · simp [ha]
    · have ha' : sb.act.getD p false = false := by simpa using ha
      simp only [ha']
      exact (h p hp ha').1
  · unfold searchFinish
    simp only
    congr 1
    apply map_range_const
    intro p hp
    by_cases ha : sb.act.getD p false = true
    · simp [ha]
    · have ha' : sb.act.getD p false = false := by simpa using ha
      simp only [ha']
      exact (h p hp ha').2

theorem freshSearch_clean (E : Env) : Clean E (freshSearch E) := ⟨rfl, rfl, rfl⟩

theorem searchStartBeamOn_clean (E : Env) (beam wbeam : Int) (prev : SSB) (h : Clean E prev) :
    searchStartBeamOn E beam wbeam prev = searchStartBeam E beam wbeam := by
  obtain ⟨⟨ph, po, pold, pcur, pf, pb⟩, pa⟩ := prev
  obtain ⟨h1, h2, h3⟩ := h
  simp only at h1 h2 h3
  subst h1; subst h2; subst h3
  unfold searchStartBeamOn searchStartBeam
  simp only [SSB.mk.injEq, true_and]
  congr 1
  apply List.map_congr_left
  intro p _
  rw [getD_replicate, hget_replicate]
  simp only [Bool.false_or]
  generalize (hget _ p).s0 = x
  cases x <;> simp [inact]

theorem runUttOn_clean (E : Env) (beam pbeam wbeam : Int) (prev : SSB) (h : Clean E prev) (e : Nat → Nat → Nat → Int) (T : Nat) :
    runUttOn E beam pbeam wbeam prev e T = runSearchBeam E beam pbeam wbeam e T := by
  unfold runUttOn runSearchBeam
  rw [searchStartBeamOn_clean E beam wbeam prev h]

theorem foldHistory_clean (E : Env) (beam pbeam wbeam : Int) (hist : List ((Nat → Nat → Nat → Int) × Nat)) :
    ∀ sb0, Clean E sb0 →
      Clean E (hist.foldl (fun sb u => searchFinish E (runUttOn E beam pbeam wbeam sb u.1 u.2)) sb0) := by
  induction hist with
  | nil => intro sb0 h; exact h
  | cons u l ih =>
    intro sb0 h
    rw [List.foldl_cons]
    apply ih
    rw [runUttOn_clean E beam pbeam wbeam _ h]
    exact searchFinish_clean E _ (runSearchBeam_offList E beam pbeam wbeam u.1 u.2)

theorem afterHistory_clean (E : Env) (beam pbeam wbeam : Int) (hist : List ((Nat → Nat → Nat → Int) × Nat)) :
    Clean E (afterHistory E beam pbeam wbeam hist) :=
  foldHistory_clean E beam pbeam wbeam hist _ (freshSearch_clean E)

end SSVerif.SearchScore
