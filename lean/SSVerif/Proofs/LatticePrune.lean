import SSVerif.Proofs.LatticePruneReach
import SSVerif.Proofs.LatticeBest
import SSVerif.Proofs.LatticeBuildPrune
/-! structure of the lattice left by `lattice_posterior_prune` (`posteriorPrune`) on a well-formed lattice -/
namespace SSVerif.Lattice
open SSVerif.Nfa
namespace Prune

variable {G : Nfa} {L : Lat} {post : Link → Int} {beam : Int}

/-! ### what is cut -/

theorem vis_mem (ok : LatticeOK G L) (l : Link) : l ∈ traverseEdges L ↔ l ∈ L.links :=
  (traverse_topological (DagOK.of_latticeOK ok)).1.mem_iff

theorem cutB_eq (ok : LatticeOK G L) {l : Link} (hl : l ∈ L.links) :
    cutB (traverseEdges L) post beam l = decide (post l < beam) := by
  unfold cutB
  have h : (traverseEdges L).contains l = true := List.contains_iff_mem.2 ((vis_mem ok l).2 hl)
  rw [h, Bool.true_and]

theorem mem_survivors (ok : LatticeOK G L) {l : Link} :
    l ∈ survivors L post beam ↔ l ∈ L.links ∧ beam ≤ post l := by
  unfold survivors
  rw [List.mem_filter]
  constructor
  · rintro ⟨h1, h2⟩
    rw [cutB_eq ok h1] at h2
    refine ⟨h1, ?_⟩
    simpa using h2
  · rintro ⟨h1, h2⟩
    refine ⟨h1, ?_⟩
    rw [cutB_eq ok h1]
    simpa using h2

theorem nPruned_eq (ok : LatticeOK G L) :
    nPruned L post beam = (L.links.filter fun l => decide (post l < beam)).length := by
  unfold nPruned
  exact ((traverse_topological (DagOK.of_latticeOK ok)).1.filter _).length_eq

theorem stale_false (ok : LatticeOK G L) {v : Nat} (hv : v < L.n) (hf : v ≠ L.final) : stale L v = false := by
  obtain ⟨l, hl, hs⟩ := ok.startEnd.2.2 v hv hf
  unfold stale staleV
  have : (traverseEdges L).any (fun l => l.src == v) = true :=
    List.any_eq_true.2 ⟨l, (vis_mem ok l).2 hl, by simp [hs]⟩
  rw [this]; rfl

/-! ### paths over the surviving links -/

theorem Path.mono {L1 L2 : Lat} (h : ∀ l ∈ L1.links, l ∈ L2.links) {u v : Nat} {p : List Link}
    (hp : Path L1 u p v) : Path L2 u p v := by
  induction hp with
  | nil u => exact .nil u
  | cons hm hs _ ih => exact .cons (h _ hm) hs ih

section
variable {S : List Link}

theorem path_of_S (hS : ∀ l ∈ S, l ∈ L.links) {u v : Nat} {p : List Link} (hp : Path (L.withLinks S) u p v) :
    Path L u p v := Path.mono (L1 := L.withLinks S) hS hp

theorem chain_of_path_fwd {u w : Nat} {p : List Link} (hp : Path (L.withLinks S) u p w) :
    Chain S (·.src) (·.dst) (fun _ => false) p.length u w := by
  induction hp with
  | nil u => exact .nil u
  | cons hm hs _ ih => exact .cons hm hs rfl ih

theorem chain_of_path_bwd {blk : Nat → Bool} (hb : ∀ l ∈ S, blk l.src = false) {u w : Nat} {p : List Link}
    (hp : Path (L.withLinks S) u p w) : Chain S (·.dst) (·.src) blk p.length w u := by
  induction hp with
  | nil u => exact .nil u
  | cons hm hs _ ih => subst hs; exact ih.snoc hm rfl (hb _ hm)

theorem mem_fromStart (ok : LatticeOK G L) (hS : ∀ l ∈ S, l ∈ L.links) {v : Nat} :
    v ∈ fromStart L S ↔ ∃ p, Path (L.withLinks S) L.start p v := by
  constructor
  · intro h
    refine reachGo_sound (S := S) (a := (·.src)) (b := (·.dst)) (blk := fun _ => false)
      (fun v => ∃ p, Path (L.withLinks S) L.start p v) ?_ (sweepFuel L) [L.start] ?_ v h
    · rintro l hl _ ⟨p, hp⟩
      exact ⟨p ++ [l], hp.snoc hl rfl⟩
    · intro w hw
      rw [List.mem_singleton.1 hw]
      exact ⟨[], .nil _⟩
  · rintro ⟨p, hp⟩
    have hlen := path_length_le ok (path_of_S hS hp) ok.endpoints.1
    exact reachGo_complete (sweepFuel L) [L.start] p.length L.start v (List.mem_singleton.2 rfl)
      (chain_of_path_fwd hp) (by unfold sweepFuel; omega)

theorem mem_toEnd (ok : LatticeOK G L) (hS : ∀ l ∈ S, l ∈ L.links) {v : Nat} (hv : v < L.n) :
    v ∈ toEnd L S ↔ ∃ p, Path (L.withLinks S) v p L.final := by
  constructor
  · intro h
    refine reachGo_sound (S := S) (a := (·.dst)) (b := (·.src)) (blk := stale L)
      (fun v => ∃ p, Path (L.withLinks S) v p L.final) ?_ (sweepFuel L) [L.final] ?_ v h
    · rintro l hl _ ⟨p, hp⟩
      exact ⟨l :: p, .cons hl rfl hp⟩
    · intro w hw
      rw [List.mem_singleton.1 hw]
      exact ⟨[], .nil _⟩
  · rintro ⟨p, hp⟩
    have hlen := path_length_le ok (path_of_S hS hp) hv
    refine reachGo_complete (sweepFuel L) [L.final] p.length L.final v (List.mem_singleton.2 rfl)
      (chain_of_path_bwd ?_ hp) (by unfold sweepFuel; omega)
    intro l hl
    exact stale_false ok (ok.endpoints.2.2 l (hS l hl)).1 (ok.startEnd.1 l (hS l hl)).2

/-- the node stays: it is the start, the end, or lies on a start→end path of surviving links -/
def Keep (L : Lat) (S : List Link) (v : Nat) : Prop :=
  v = L.start ∨ v = L.final ∨
    ((∃ p, Path (L.withLinks S) L.start p v) ∧ ∃ q, Path (L.withLinks S) v q L.final)

theorem keepB_iff (ok : LatticeOK G L) (hS : ∀ l ∈ S, l ∈ L.links) {v : Nat} (hv : v < L.n) :
    keepB L S v = true ↔ Keep L S v := by
  unfold keepB Keep
  rw [Bool.or_eq_true, Bool.or_eq_true, Bool.and_eq_true, Bool.or_eq_true, beq_iff_eq, beq_iff_eq,
    List.contains_iff_mem, List.contains_iff_mem, mem_fromStart ok hS, mem_toEnd ok hS hv]
  by_cases hf : v = L.final
  · simp [hf]
  · rw [stale_false ok hv hf]
    simp [hf]

end

/-! ### the surviving nodes and their new numbers -/

local notation "SS" => survivors L post beam
local notation "ord" => keepOrder L post beam
local notation "LP" => prunedLat L post beam

theorem surv_sub (ok : LatticeOK G L) : ∀ l ∈ SS, l ∈ L.links := fun _ h => ((mem_survivors ok).1 h).1

theorem mem_ord (ok : LatticeOK G L) {v : Nat} : v ∈ ord ↔ v < L.n ∧ Keep L SS v := by
  unfold keepOrder
  rw [List.mem_filter, List.mem_range]
  constructor
  · rintro ⟨h1, h2⟩; exact ⟨h1, (keepB_iff ok (surv_sub ok) h1).1 h2⟩
  · rintro ⟨h1, h2⟩; exact ⟨h1, (keepB_iff ok (surv_sub ok) h1).2 h2⟩

theorem ord_nodup : (ord).Nodup := by
  unfold keepOrder
  exact List.Pairwise.filter _ List.nodup_range

theorem start_ord (ok : LatticeOK G L) : L.start ∈ ord := (mem_ord ok).2 ⟨ok.endpoints.1, Or.inl rfl⟩
theorem final_ord (ok : LatticeOK G L) : L.final ∈ ord := (mem_ord ok).2 ⟨ok.endpoints.2.1, Or.inr (Or.inl rfl)⟩

theorem idx_lt {v : Nat} (h : v ∈ ord) : (ord).idxOf v < (ord).length := List.idxOf_lt_length_iff.2 h

theorem get_idx {v : Nat} (h : v ∈ ord) : (ord)[(ord).idxOf v]'(idx_lt h) = v := List.getElem_idxOf _

theorem idx_inj {u v : Nat} (hu : u ∈ ord) (hv : v ∈ ord) (h : (ord).idxOf u = (ord).idxOf v) : u = v := by
  have h1 := get_idx hu
  have h2 := get_idx hv
  rw [← h1, ← h2]
  congr 1

theorem n_eq : (LP).n = (ord).length := by simp [Lat.n, prunedLat]

theorem exists_of_lt {i : Nat} (h : i < (LP).n) : ∃ v, v ∈ ord ∧ (ord).idxOf v = i := by
  rw [n_eq] at h
  exact ⟨(ord)[i], List.getElem_mem h, ord_nodup.idxOf_getElem i h⟩

theorem node_idx {v : Nat} (h : v ∈ ord) : (LP).node ((ord).idxOf v) = L.node v := by
  have hlt := idx_lt h
  unfold Lat.node prunedLat
  simp only
  rw [List.getD_eq_getElem?_getD, List.getElem?_map, List.getElem?_eq_getElem hlt, get_idx h]
  rfl

theorem start_eq : (LP).start = (ord).idxOf L.start := rfl
theorem final_eq : (LP).final = (ord).idxOf L.final := rfl
theorem nframes_eq : (LP).nframes = L.nframes := rfl

/-- a link of the original lattice that is in the pruned lattice: not below the beam, both ends stay -/
def Kept (L : Lat) (post : Link → Int) (beam : Int) (l : Link) : Prop :=
  l ∈ L.links ∧ beam ≤ post l ∧ l.src ∈ keepOrder L post beam ∧ l.dst ∈ keepOrder L post beam

theorem mem_exitsCut {v : Nat} {l : Link} :
    l ∈ exitsCut L post beam v ↔ l ∈ SS ∧ l.src = v := by
  unfold exitsCut
  simp only
  have key : l ∈ (exits L v).filter (fun l => !cutB (traverseEdges L) post beam l) ↔ l ∈ SS ∧ l.src = v := by
    unfold survivors exits
    simp only [List.mem_filter, beq_iff_eq]
    constructor
    · rintro ⟨⟨h1, h2⟩, h3⟩; exact ⟨⟨h1, h3⟩, h2⟩
    · rintro ⟨⟨h1, h3⟩, h2⟩; exact ⟨⟨h1, h2⟩, h3⟩
  split
  · rw [List.mem_reverse]; exact key
  · exact key

theorem mem_keptLinks (ok : LatticeOK G L) {l : Link} : l ∈ keptLinks L post beam ↔ Kept L post beam l := by
  unfold keptLinks Kept
  simp only [List.mem_flatMap, List.mem_filter]
  constructor
  · rintro ⟨v, hv, hl, hd⟩
    obtain ⟨hs, rfl⟩ := mem_exitsCut.1 hl
    obtain ⟨h1, h2⟩ := (mem_survivors ok).1 hs
    have hdl := (ok.endpoints.2.2 l h1).2
    exact ⟨h1, h2, hv, (mem_ord ok).2 ⟨hdl, (keepB_iff ok (surv_sub ok) hdl).1 hd⟩⟩
  · rintro ⟨h1, h2, h3, h4⟩
    have hdl := (ok.endpoints.2.2 l h1).2
    exact ⟨l.src, h3, mem_exitsCut.2 ⟨(mem_survivors ok).2 ⟨h1, h2⟩, rfl⟩,
      (keepB_iff ok (surv_sub ok) hdl).2 ((mem_ord ok).1 h4).2⟩

theorem mem_links (ok : LatticeOK G L) {l' : Link} :
    l' ∈ (LP).links ↔ ∃ l, Kept L post beam l ∧ l' = renumLink (ord) l := by
  show l' ∈ (keptLinks L post beam).map (renumLink (ord)) ↔ _
  rw [List.mem_map]
  constructor
  · rintro ⟨l, hl, rfl⟩; exact ⟨l, (mem_keptLinks ok).1 hl, rfl⟩
  · rintro ⟨l, hl, rfl⟩; exact ⟨l, (mem_keptLinks ok).2 hl, rfl⟩

end Prune
end SSVerif.Lattice
