import SSVerif.Proofs.HashTableOps
/-!
The three concrete modes of `hash_table.c` satisfy `Lawful`; global duplicate-freeness
of the iteration order; lifting to operation sequences.
-/
namespace SSVerif.HashTable

/-! ### key comparison -/

theorem keycmp_false_iff (a b : Key) : keycmp false a b = true ↔ a = b := by
  induction a generalizing b with
  | nil => cases b <;> simp [keycmp]
  | cons x xs ih =>
    cases b with
    | nil => simp [keycmp]
    | cons y ys => simp [keycmp, ih]

theorem keycmp_true_iff (a b : Key) : keycmp true a b = true ↔ a.map upper = b.map upper := by
  induction a generalizing b with
  | nil => cases b <;> simp [keycmp]
  | cons x xs ih =>
    cases b with
    | nil => simp [keycmp]
    | cons y ys => simp [keycmp, ih]

theorem upper_idem (c : UInt8) : upper (upper c) = upper c := by
  unfold upper
  by_cases h : 97 ≤ c ∧ c ≤ 122
  · simp only [h, and_self, if_true]
    have h1 : ¬ (97 ≤ c - 32 ∧ c - 32 ≤ 122) := by
      obtain ⟨h1, h2⟩ := h
      rw [UInt8.le_iff_toNat_le] at h1 h2
      intro ⟨h3, _⟩
      rw [UInt8.le_iff_toNat_le] at h3
      have : (c - 32).toNat = c.toNat - 32 := by
        rw [UInt8.toNat_sub_of_le]
        · rfl
        · rw [UInt8.le_iff_toNat_le]; simp at h1 ⊢; omega
      simp at h1 h2 h3 this
      omega
    simp [h1]
  · simp [h]

theorem hashLoop_upper (k : Key) (acc : UInt32) (s : Nat) :
    hashLoop true (k.map upper) acc s = hashLoop true k acc s := by
  induction k generalizing acc s with
  | nil => rfl
  | cons c cs ih => simp only [List.map_cons, hashLoop, upper_idem, if_true]; exact ih _ _

theorem lawful_str_case (size : Nat) (hs : 0 < size) : Lawful (strParams size false) size where
  refl a := (keycmp_false_iff a a).mpr rfl
  symm a b h := (keycmp_false_iff b a).mpr ((keycmp_false_iff a b).mp h).symm
  trans a b c h1 h2 := (keycmp_false_iff a c).mpr (((keycmp_false_iff a b).mp h1).trans ((keycmp_false_iff b c).mp h2))
  hash_compat a b h := by rw [(keycmp_false_iff a b).mp h]
  hash_lt a := Nat.mod_lt _ hs

theorem lawful_str_nocase (size : Nat) (hs : 0 < size) : Lawful (strParams size true) size where
  refl a := (keycmp_true_iff a a).mpr rfl
  symm a b h := (keycmp_true_iff b a).mpr ((keycmp_true_iff a b).mp h).symm
  trans a b c h1 h2 := (keycmp_true_iff a c).mpr (((keycmp_true_iff a b).mp h1).trans ((keycmp_true_iff b c).mp h2))
  hash_compat a b h := by
    have := (keycmp_true_iff a b).mp h
    show key2hash size true a = key2hash size true b
    unfold key2hash
    rw [← hashLoop_upper a, ← hashLoop_upper b, this]
  hash_lt a := Nat.mod_lt _ hs

theorem lawful_bin (size : Nat) (hs : 0 < size) : Lawful (binParams size) size where
  refl a := (keycmp_false_iff a a).mpr rfl
  symm a b h := (keycmp_false_iff b a).mpr ((keycmp_false_iff a b).mp h).symm
  trans a b c h1 h2 := (keycmp_false_iff a c).mpr (((keycmp_false_iff a b).mp h1).trans ((keycmp_false_iff b c).mp h2))
  hash_compat a b h := by rw [(keycmp_false_iff a b).mp h]
  hash_lt a := Nat.mod_lt _ hs

/-! ### the iteration order has no two equal keys (across buckets too) -/

variable {P : Params}

theorem iter_noDup (L : Lawful P h.size) (hI : Inv P h) : NoDup P (iter h) := by
  unfold NoDup iter
  rw [List.pairwise_flatten]
  constructor
  · intro b hb
    obtain ⟨i, hi, rfl⟩ := List.getElem_of_mem hb
    have hbi : h.bucket i = h.buckets[i] := by
      simp [HT.bucket, List.getD_eq_getElem?_getD, hi]
    rw [← hbi]; exact hI.nodup i
  · rw [List.pairwise_iff_getElem]
    intro i j hi hj hij x hx y hy
    have hbi : h.bucket i = h.buckets[i] := by
      simp [HT.bucket, List.getD_eq_getElem?_getD, hi]
    have hbj : h.bucket j = h.buckets[j] := by
      simp [HT.bucket, List.getD_eq_getElem?_getD, hj]
    have h1 := hI.home i x (by rw [hbi]; exact hx)
    have h2 := hI.home j y (by rw [hbj]; exact hy)
    cases hk : P.keq x.key y.key with
    | false => rfl
    | true =>
      have := L.hash_compat _ _ hk
      omega

/-! ### operation sequences -/

inductive Op where
  | enter (k : Key) (v : Int)
  | replace (k : Key) (v : Int)
  | delete (k : Key)
  | lookup (k : Key)
  | empty
  | inuse
deriving Repr

inductive Out where
  | val (v : Int)
  | opt (o : Option Int)
  | unit
deriving Repr, DecidableEq

def step (P : Params) (h : HT) : Op → HT × Out
  | .enter k v => let r := enter P h k v false; (r.1, .val r.2)
  | .replace k v => let r := enter P h k v true; (r.1, .val r.2)
  | .delete k => let r := delete P h k; (r.1, .opt r.2)
  | .lookup k => (h, .opt (lookup P h k))
  | .empty => (empty h, .unit)
  | .inuse => (h, .val h.inuse)

def run (P : Params) (h : HT) : List Op → HT × List Out
  | [] => (h, [])
  | op :: ops =>
    let r := step P h op
    let r' := run P r.1 ops
    (r'.1, r.2 :: r'.2)

/-- the abstract map: what every key is bound to, and how many keys are bound -/
structure Spec where
  m : Key → Option Int
  n : Int

def specStep (P : Params) (s : Spec) : Op → Spec × Out
  | .enter k v =>
    ({ m := fun k' => if P.keq k k' then some ((s.m k).getD v) else s.m k',
       n := s.n + (if (s.m k).isSome then 0 else 1) }, .val ((s.m k).getD v))
  | .replace k v =>
    ({ m := fun k' => if P.keq k k' then some v else s.m k',
       n := s.n + (if (s.m k).isSome then 0 else 1) }, .val ((s.m k).getD v))
  | .delete k =>
    ({ m := fun k' => if P.keq k k' then none else s.m k',
       n := s.n - (if (s.m k).isSome then 1 else 0) }, .opt (s.m k))
  | .lookup k => (s, .opt (s.m k))
  | .empty => ({ m := fun _ => none, n := 0 }, .unit)
  | .inuse => (s, .val s.n)

def specRun (P : Params) (s : Spec) : List Op → Spec × List Out
  | [] => (s, [])
  | op :: ops =>
    let r := specStep P s op
    let r' := specRun P r.1 ops
    (r'.1, r.2 :: r'.2)

def abs (P : Params) (h : HT) : Spec := { m := lookup P h, n := h.inuse }

theorem size_enter (h : HT) (k : Key) (v : Int) (r : Bool) : (enter P h k v r).1.size = h.size := by
  unfold enter; simp only; split
  · split <;> rfl
  · rfl

theorem size_delete (h : HT) (k : Key) : (delete P h k).1.size = h.size := by
  unfold delete; simp only; split <;> rfl

theorem size_step (h : HT) (op : Op) : (step P h op).1.size = h.size := by
  cases op <;> simp [step, size_enter, size_delete, empty]

theorem size_run (h : HT) (ops : List Op) : (run P h ops).1.size = h.size := by
  induction ops generalizing h with
  | nil => rfl
  | cons op ops ih => simp only [run]; rw [ih, size_step]

theorem inv_step (L : Lawful P h.size) (hI : Inv P h) (op : Op) : Inv P (step P h op).1 := by
  cases op with
  | enter k v => exact inv_enter L hI k v false
  | replace k v => exact inv_enter L hI k v true
  | delete k => exact inv_delete L hI k
  | lookup k => exact hI
  | empty => exact inv_empty
  | inuse => exact hI

theorem step_refines (L : Lawful P h.size) (hI : Inv P h) (op : Op) :
    abs P (step P h op).1 = (specStep P (abs P h) op).1 ∧ (step P h op).2 = (specStep P (abs P h) op).2 := by
  cases op with
  | enter k v =>
    refine ⟨?_, ?_⟩
    · simp only [step, specStep, abs, Spec.mk.injEq]
      exact ⟨funext fun k' => by rw [lookup_enter L hI]; simp, inuse_enter h k v false⟩
    · simp [step, specStep, abs, enter_ret]
  | replace k v =>
    refine ⟨?_, ?_⟩
    · simp only [step, specStep, abs, Spec.mk.injEq]
      exact ⟨funext fun k' => by rw [lookup_enter L hI]; simp, inuse_enter h k v true⟩
    · simp [step, specStep, abs, enter_ret]
  | delete k =>
    refine ⟨?_, ?_⟩
    · simp only [step, specStep, abs, Spec.mk.injEq]
      exact ⟨funext fun k' => lookup_delete L hI k k', inuse_delete h k⟩
    · simp [step, specStep, abs, delete_ret]
  | lookup k => exact ⟨rfl, rfl⟩
  | empty =>
    refine ⟨?_, rfl⟩
    simp only [step, specStep, abs, Spec.mk.injEq]
    exact ⟨funext fun k' => lookup_empty h k', rfl⟩
  | inuse => exact ⟨rfl, rfl⟩

end SSVerif.HashTable
