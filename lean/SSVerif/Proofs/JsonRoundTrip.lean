import SSVerif.Model.JsonParse
set_option linter.unusedSimpArgs false
/-! C14 helper lemmas: the recogniser inverts the compact printer (on values whose numbers are JSON numbers) -/
namespace SSVerif.Json

mutual
/-- every number in the value is a JSON number -/
def wfV : JV → Bool
  | .num raw => isJsonNumber raw
  | .arr l => wfL l
  | .obj kvs => wfM kvs
  | _ => true
def wfL : List JV → Bool
  | [] => true
  | v :: t => wfV v && wfL t
def wfM : List (List UInt8 × JV) → Bool
  | [] => true
  | (_, v) :: t => wfV v && wfM t
end

mutual
def sizeV : JV → Nat
  | .arr l => 1 + sizeL l
  | .obj kvs => 1 + sizeM kvs
  | _ => 1
def sizeL : List JV → Nat
  | [] => 0
  | v :: t => 1 + sizeV v + sizeL t
def sizeM : List (List UInt8 × JV) → Nat
  | [] => 0
  | (_, v) :: t => 1 + sizeV v + sizeM t
end

/-- what may follow a value: nothing, or a byte that cannot continue a number -/
def Delim (rest : List UInt8) : Prop := ∀ c t, rest = c :: t → isNumChar c = false

theorem skipWs_cons {c : UInt8} {t : List UInt8} (h : isWs c = false) : skipWs (c :: t) = c :: t := by
  simp [skipWs, h]

theorem printL_single (v : JV) : printL [v] = printV v := by simp [printL]
theorem printL_cons_cons (v v' : JV) (t : List JV) : printL (v :: v' :: t) = printV v ++ 44 :: printL (v' :: t) := by
  rw [printL]
theorem printM_single (k : List UInt8) (v : JV) : printM [(k, v)] = printStr k ++ 58 :: printV v := by simp [printM]
theorem printM_cons_cons (k : List UInt8) (v : JV) (kv' : List UInt8 × JV) (t : List (List UInt8 × JV)) :
    printM ((k, v) :: kv' :: t) = printStr k ++ 58 :: printV v ++ 44 :: printM (kv' :: t) := by
  rw [printM]

/-! ### strings -/

theorem hex_roundtrip : ∀ n : Nat, n < 32 →
    hex4 48 48 (hexDigit (UInt8.ofNat n >>> 4)) (hexDigit (UInt8.ofNat n &&& 15)) = some n := by decide

theorem parseStr_escByte (b : UInt8) (s rest : List UInt8) (ih : parseStr (s ++ 34 :: rest) = some (s', rest)) :
    parseStr (escByte b ++ (s ++ 34 :: rest)) = some (b :: s', rest) := by
  unfold escByte
  by_cases h1 : b = 34 ∨ b = 92
  · rw [if_pos h1]
    rcases h1 with h | h <;> subst h <;> rw [parseStr.eq_def] <;> simp [simpleEsc, ih]
  · rw [if_neg h1]
    have h34 : ¬ b = 34 := fun h => h1 (Or.inl h)
    have h92 : ¬ b = 92 := fun h => h1 (Or.inr h)
    by_cases h2 : b < 32
    · rw [if_pos h2]
      have hn : b.toNat < 32 := by simpa using (UInt8.lt_iff_toNat_lt.mp h2)
      have hr := hex_roundtrip b.toNat hn
      rw [UInt8.ofNat_toNat] at hr
      have hu : utf8 b.toNat = [b] := by
        have : b.toNat < 128 := by omega
        simp [utf8, this]
      simp [parseStr, hr, ih, hu]
    · rw [if_neg h2]
      rw [parseStr.eq_def]; simp [h34, h92, h2, ih]

theorem parseStr_print (s rest : List UInt8) :
    parseStr (s.flatMap escByte ++ 34 :: rest) = some (s, rest) := by
  induction s with
  | nil => rw [List.flatMap_nil, List.nil_append, parseStr.eq_def]; simp
  | cons b t ih =>
    rw [List.flatMap_cons, List.append_assoc]
    exact parseStr_escByte b _ rest ih

/-! ### numbers -/

theorem span_num : ∀ (n rest : List UInt8), n.all isNumChar = true → Delim rest →
    (n ++ rest).takeWhile isNumChar = n ∧ (n ++ rest).dropWhile isNumChar = rest
  | [], rest, _, hd => by
    cases rest with
    | nil => simp
    | cons c t => have := hd c t rfl; simp [List.takeWhile, List.dropWhile, this]
  | c :: n, rest, hall, hd => by
    simp only [List.all_cons, Bool.and_eq_true] at hall
    have ih := span_num n rest hall.2 hd
    simp [List.takeWhile, List.dropWhile, hall.1, ih.1, ih.2]

theorem numChar_head {c : UInt8} (h : isNumChar c = true) :
    isWs c = false ∧ c ≠ 123 ∧ c ≠ 91 ∧ c ≠ 34 ∧ c ≠ 116 ∧ c ≠ 102 ∧ c ≠ 110 ∧ c ≠ 93 ∧ c ≠ 125 := by
  refine ⟨?_, ?_, ?_, ?_, ?_, ?_, ?_, ?_, ?_⟩
  · simp only [isNumChar, isDigit, Bool.or_eq_true, Bool.and_eq_true, decide_eq_true_eq] at h
    simp only [isWs, Bool.or_eq_false_iff, decide_eq_false_iff_not]
    refine ⟨⟨⟨?_, ?_⟩, ?_⟩, ?_⟩ <;> (intro heq; subst heq; revert h; decide)
  all_goals (intro heq; subst heq; revert h; decide)

theorem isJsonNumber_ne_nil {n : List UInt8} (h : isJsonNumber n = true) : n ≠ [] := by
  intro e; subst e; revert h; decide

theorem parseValue_num (fuel : Nat) (n rest : List UInt8) (hn : isJsonNumber n = true) (hd : Delim rest) :
    parseValue (fuel + 1) (n ++ rest) = some (.num n, rest) := by
  have hall : n.all isNumChar = true := by
    unfold isJsonNumber at hn; simp only [Bool.and_eq_true] at hn; exact hn.1
  obtain ⟨c, n', rfl⟩ := List.exists_cons_of_ne_nil (isJsonNumber_ne_nil hn)
  have hc : isNumChar c = true := by simp only [List.all_cons, Bool.and_eq_true] at hall; exact hall.1
  obtain ⟨h0, h1, h2, h3, h4, h5, h6, _, _⟩ := numChar_head hc
  have hs := span_num (c :: n') rest hall hd
  rw [List.cons_append] at hs ⊢
  rw [parseValue, skipWs_cons h0]
  simp only [h1, h2, h3, h4, h5, h6, if_false, hs.1, hs.2, hn, if_true]

/-! ### values -/

theorem delim_cons {c : UInt8} (t : List UInt8) (h : isNumChar c = false) : Delim (c :: t) := by
  intro c' t' e; cases e; exact h

theorem printV_head : ∀ (v : JV), wfV v = true → ∃ c t, printV v = c :: t ∧ isWs c = false ∧ c ≠ 93
  | .null, _ => ⟨110, _, rfl, by decide, by decide⟩
  | .bool true, _ => ⟨116, _, rfl, by decide, by decide⟩
  | .bool false, _ => ⟨102, _, rfl, by decide, by decide⟩
  | .num raw, h => by
    simp only [wfV] at h
    obtain ⟨c, n', rfl⟩ := List.exists_cons_of_ne_nil (isJsonNumber_ne_nil h)
    have hall : (c :: n').all isNumChar = true := by
      unfold isJsonNumber at h; simp only [Bool.and_eq_true] at h; exact h.1
    have hc : isNumChar c = true := by simp only [List.all_cons, Bool.and_eq_true] at hall; exact hall.1
    obtain ⟨h0, _, _, _, _, _, _, h93, _⟩ := numChar_head hc
    exact ⟨c, n', rfl, h0, h93⟩
  | .str s, _ => ⟨34, _, rfl, by decide, by decide⟩
  | .arr l, _ => ⟨91, printL l ++ [93], by rw [printV, List.cons_append], by decide, by decide⟩
  | .obj kvs, _ => ⟨123, printM kvs ++ [125], by rw [printV, List.cons_append], by decide, by decide⟩

mutual
theorem parseValue_print : ∀ (v : JV), wfV v = true → ∀ (fuel : Nat) (rest : List UInt8), sizeV v ≤ fuel → Delim rest →
    parseValue fuel (printV v ++ rest) = some (v, rest)
  | .null, _, fuel, rest, hf, _ => by
    obtain ⟨f, rfl⟩ : ∃ f, fuel = f + 1 := ⟨fuel - 1, by simp only [sizeV] at hf; omega⟩
    rw [printV]; simp only [List.cons_append, List.append_assoc, List.nil_append]; rw [parseValue, skipWs_cons (c := 110) (by decide)]
    simp
  | .bool true, _, fuel, rest, hf, _ => by
    obtain ⟨f, rfl⟩ : ∃ f, fuel = f + 1 := ⟨fuel - 1, by simp only [sizeV] at hf; omega⟩
    rw [printV]; simp only [List.cons_append, List.append_assoc, List.nil_append]; rw [parseValue, skipWs_cons (c := 116) (by decide)]
    simp
  | .bool false, _, fuel, rest, hf, _ => by
    obtain ⟨f, rfl⟩ : ∃ f, fuel = f + 1 := ⟨fuel - 1, by simp only [sizeV] at hf; omega⟩
    rw [printV]; simp only [List.cons_append, List.append_assoc, List.nil_append]; rw [parseValue, skipWs_cons (c := 102) (by decide)]
    simp
  | .num raw, hw, fuel, rest, hf, hd => by
    obtain ⟨f, rfl⟩ : ∃ f, fuel = f + 1 := ⟨fuel - 1, by simp only [sizeV] at hf; omega⟩
    simp only [wfV] at hw
    rw [printV]
    exact parseValue_num f raw rest hw hd
  | .str s, _, fuel, rest, hf, _ => by
    obtain ⟨f, rfl⟩ : ∃ f, fuel = f + 1 := ⟨fuel - 1, by simp only [sizeV] at hf; omega⟩
    rw [printV, printStr]; simp only [List.cons_append, List.append_assoc, List.nil_append]; rw [parseValue, skipWs_cons (c := 34) (by decide)]
    have := parseStr_print s rest
    simp only [List.append_assoc, List.cons_append, List.nil_append]
    simp [this]
  | .arr l, hw, fuel, rest, hf, _ => by
    obtain ⟨f, rfl⟩ : ∃ f, fuel = f + 1 := ⟨fuel - 1, by simp only [sizeV] at hf; omega⟩
    simp only [wfV] at hw
    cases l with
    | nil =>
      rw [printV]; simp only [printL, printM, List.cons_append, List.append_assoc, List.nil_append]; rw [parseValue, skipWs_cons (c := 91) (by decide)]
      simp [skipWs, isWs]
    | cons v t =>
      have ih := parseElems_print (v :: t) (by simp) hw f rest (by simp only [sizeV] at hf; omega)
      have hwv : wfV v = true := by simp only [wfL, Bool.and_eq_true] at hw; exact hw.1
      obtain ⟨c, tl, hc, hws, h93⟩ := printV_head v hwv
      have hl : ∃ tl', printL (v :: t) = c :: tl' := by
        cases t with
        | nil => exact ⟨tl, by rw [printL, hc]; simp⟩
        | cons v' t' => exact ⟨tl ++ 44 :: printL (v' :: t'), by rw [printL, hc]; simp⟩
      obtain ⟨tl', hl⟩ := hl
      rw [printV]; simp only [List.cons_append, List.append_assoc, List.nil_append]; rw [parseValue, skipWs_cons (c := 91) (by decide)]
      simp only [List.append_assoc, List.cons_append, List.nil_append] at ih ⊢
      rw [hl] at ih ⊢
      simp only [List.cons_append] at ih ⊢
      rw [skipWs_cons hws]
      simp [h93, ih]
  | .obj kvs, hw, fuel, rest, hf, _ => by
    obtain ⟨f, rfl⟩ : ∃ f, fuel = f + 1 := ⟨fuel - 1, by simp only [sizeV] at hf; omega⟩
    simp only [wfV] at hw
    cases kvs with
    | nil =>
      rw [printV]; simp only [printL, printM, List.cons_append, List.append_assoc, List.nil_append]; rw [parseValue, skipWs_cons (c := 123) (by decide)]
      simp [skipWs, isWs]
    | cons kv t =>
      obtain ⟨k, v⟩ := kv
      have ih := parseMembers_print ((k, v) :: t) (by simp) hw f rest (by simp only [sizeV] at hf; omega)
      have hl : ∃ tl', printM ((k, v) :: t) = 34 :: tl' := by
        cases t with
        | nil => rw [printM_single, printStr]; simp only [List.cons_append]; exact ⟨_, rfl⟩
        | cons kv' t' => rw [printM_cons_cons, printStr]; simp only [List.cons_append]; exact ⟨_, rfl⟩
      obtain ⟨tl', hl⟩ := hl
      rw [printV]; simp only [List.cons_append, List.append_assoc, List.nil_append]; rw [parseValue, skipWs_cons (c := 123) (by decide)]
      simp only [List.append_assoc, List.cons_append, List.nil_append] at ih ⊢
      rw [hl] at ih ⊢
      simp only [List.cons_append] at ih ⊢
      rw [skipWs_cons (c := 34) (by decide)]
      simp [ih]

theorem parseElems_print : ∀ (l : List JV), l ≠ [] → wfL l = true → ∀ (fuel : Nat) (rest : List UInt8), sizeL l ≤ fuel →
    parseElems fuel (printL l ++ 93 :: rest) = some (l, rest)
  | [], h, _, _, _, _ => absurd rfl h
  | [v], _, hw, fuel, rest, hf => by
    obtain ⟨f, rfl⟩ : ∃ f, fuel = f + 1 := ⟨fuel - 1, by simp only [sizeL] at hf; omega⟩
    have hwv : wfV v = true := by simp only [wfL, Bool.and_eq_true] at hw; exact hw.1
    have ih := parseValue_print v hwv f (93 :: rest) (by simp only [sizeL] at hf; omega) (delim_cons _ (by decide))
    rw [printL_single, parseElems]
    simp only [ih]
    rw [skipWs_cons (c := 93) (by decide)]
    simp
  | v :: v' :: t, _, hw, fuel, rest, hf => by
    obtain ⟨f, rfl⟩ : ∃ f, fuel = f + 1 := ⟨fuel - 1, by simp only [sizeL] at hf; omega⟩
    have hwv : wfV v = true := by simp only [wfL, Bool.and_eq_true] at hw; exact hw.1
    have hwt : wfL (v' :: t) = true := by
      rw [wfL] at hw; simp only [Bool.and_eq_true] at hw; exact hw.2
    have ih := parseValue_print v hwv f (44 :: (printL (v' :: t) ++ 93 :: rest))
      (by simp only [sizeL] at hf; omega) (delim_cons _ (by decide))
    have ih2 := parseElems_print (v' :: t) (by simp) hwt f rest (by rw [sizeL] at hf; omega)
    rw [printL_cons_cons, parseElems]
    simp only [List.append_assoc, List.cons_append, ih]
    rw [skipWs_cons (c := 44) (by decide)]
    simp only [ih2]

theorem parseMembers_print : ∀ (kvs : List (List UInt8 × JV)), kvs ≠ [] → wfM kvs = true → ∀ (fuel : Nat) (rest : List UInt8),
    sizeM kvs ≤ fuel → parseMembers fuel (printM kvs ++ 125 :: rest) = some (kvs, rest)
  | [], h, _, _, _, _ => absurd rfl h
  | [(k, v)], _, hw, fuel, rest, hf => by
    obtain ⟨f, rfl⟩ : ∃ f, fuel = f + 1 := ⟨fuel - 1, by simp only [sizeM] at hf; omega⟩
    have hwv : wfV v = true := by simp only [wfM, Bool.and_eq_true] at hw; exact hw.1
    have ih := parseValue_print v hwv f (125 :: rest) (by simp only [sizeM] at hf; omega) (delim_cons _ (by decide))
    have hs := parseStr_print k (58 :: (printV v ++ 125 :: rest))
    rw [printM_single, printStr, parseMembers]
    simp only [List.append_assoc, List.cons_append, List.nil_append, List.append_nil]
    rw [skipWs_cons (c := 34) (by decide)]
    simp only [hs]
    rw [skipWs_cons (c := 58) (by decide)]
    simp only [ih]
    rw [skipWs_cons (c := 125) (by decide)]
    simp
  | (k, v) :: kv' :: t, _, hw, fuel, rest, hf => by
    obtain ⟨f, rfl⟩ : ∃ f, fuel = f + 1 := ⟨fuel - 1, by simp only [sizeM] at hf; omega⟩
    have hwv : wfV v = true := by simp only [wfM, Bool.and_eq_true] at hw; exact hw.1
    have hwt : wfM (kv' :: t) = true := by
      rw [wfM] at hw; simp only [Bool.and_eq_true] at hw; exact hw.2
    have ih := parseValue_print v hwv f (44 :: (printM (kv' :: t) ++ 125 :: rest))
      (by simp only [sizeM] at hf; omega) (delim_cons _ (by decide))
    have ih2 := parseMembers_print (kv' :: t) (by simp) hwt f rest (by rw [sizeM] at hf; omega)
    have hs := parseStr_print k (58 :: (printV v ++ 44 :: (printM (kv' :: t) ++ 125 :: rest)))
    rw [printM_cons_cons, printStr, parseMembers]
    simp only [List.append_assoc, List.cons_append, List.nil_append]
    rw [skipWs_cons (c := 34) (by decide)]
    simp only [hs]
    rw [skipWs_cons (c := 58) (by decide)]
    simp only [ih]
    rw [skipWs_cons (c := 44) (by decide)]
    simp only [ih2]
end

/-! ### the whole line -/

mutual
theorem sizeV_le : ∀ (v : JV), wfV v = true → sizeV v ≤ (printV v).length
  | .null, _ => by simp [sizeV, printV]
  | .bool true, _ => by simp [sizeV, printV]
  | .bool false, _ => by simp [sizeV, printV]
  | .num raw, h => by
    simp only [wfV] at h
    have := List.length_pos_iff.mpr (isJsonNumber_ne_nil h)
    simp only [sizeV, printV]; omega
  | .str s, _ => by simp [sizeV, printV, printStr]
  | .arr l, h => by
    simp only [wfV] at h
    have := sizeL_le l h
    simp only [sizeV, printV, List.length_append, List.length_cons, List.length_nil]; omega
  | .obj kvs, h => by
    simp only [wfV] at h
    have := sizeM_le kvs h
    simp only [sizeV, printV, List.length_append, List.length_cons, List.length_nil]; omega
theorem sizeL_le : ∀ (l : List JV), wfL l = true → sizeL l ≤ (printL l).length + 1
  | [], _ => by simp [sizeL]
  | [v], h => by
    have hv : wfV v = true := by simp only [wfL, Bool.and_eq_true] at h; exact h.1
    have := sizeV_le v hv
    rw [printL_single]; simp only [sizeL]; omega
  | v :: v' :: t, h => by
    have hv : wfV v = true := by simp only [wfL, Bool.and_eq_true] at h; exact h.1
    have ht : wfL (v' :: t) = true := by rw [wfL] at h; simp only [Bool.and_eq_true] at h; exact h.2
    have := sizeV_le v hv
    have := sizeL_le (v' :: t) ht
    rw [printL_cons_cons, sizeL]; simp only [List.length_append, List.length_cons]; omega
theorem sizeM_le : ∀ (kvs : List (List UInt8 × JV)), wfM kvs = true → sizeM kvs ≤ (printM kvs).length + 1
  | [], _ => by simp [sizeM]
  | [(k, v)], h => by
    have hv : wfV v = true := by simp only [wfM, Bool.and_eq_true] at h; exact h.1
    have := sizeV_le v hv
    rw [printM_single]; simp only [sizeM, List.length_append, List.length_cons]; omega
  | (k, v) :: kv' :: t, h => by
    have hv : wfV v = true := by simp only [wfM, Bool.and_eq_true] at h; exact h.1
    have ht : wfM (kv' :: t) = true := by rw [wfM] at h; simp only [Bool.and_eq_true] at h; exact h.2
    have := sizeV_le v hv
    have := sizeM_le (kv' :: t) ht
    rw [printM_cons_cons, sizeM]; simp only [List.length_append, List.length_cons]; omega
end

/-- the recogniser accepts the compact print of an object followed by one newline, and returns the object -/
theorem parseLine_print (kvs : List (List UInt8 × JV)) (hw : wfV (.obj kvs) = true) :
    parseLine (printV (.obj kvs) ++ [10]) = some (.obj kvs) := by
  have hs := sizeV_le (.obj kvs) hw
  have := parseValue_print (.obj kvs) hw ((printV (.obj kvs) ++ [10]).length + 1) [10]
    (by simp only [List.length_append]; omega) (delim_cons _ (by decide))
  simp only [parseLine, this]

theorem wfL_map {α : Type} (f : α → JV) (l : List α) (h : ∀ a, wfV (f a) = true) : wfL (l.map f) = true := by
  induction l with
  | nil => rfl
  | cons a t ih => simp [wfL, h a, ih]

end SSVerif.Json
