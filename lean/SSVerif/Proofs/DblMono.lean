import SSVerif.Proofs.DblExact
/-! # The IEEE operations of the time fields are monotone (lemmas for `C14_begin_fields_monotone`) -/
namespace SSVerif.Dbl
open SSVerif.Fmt3

theorem log2_mono {a b : Nat} (h : a ≤ b) : a.log2 ≤ b.log2 := by
  by_cases ha : a = 0
  · subst ha
    have : Nat.log2 0 = 0 := by decide
    omega
  · have hb : b ≠ 0 := by omega
    exact (Nat.le_log2 hb).mpr (Nat.le_trans (Nat.log2_self_le ha) h)

/-- the rounded value, in units of `2^-1074` -/
def roundVal (num den : Nat) : Nat := mantB num den * 2 ^ ulpB num den

/-- rounding to a double is monotone (same denominator) -/
theorem roundVal_mono (a b d : Nat) (hd : 0 < d) (h : a ≤ b) : roundVal a d ≤ roundVal b d := by
  unfold roundVal
  have hu : ulpB a d ≤ ulpB b d := by
    unfold ulpB
    have : a * 2 ^ 1074 / d ≤ b * 2 ^ 1074 / d := Nat.div_le_div_right (Nat.mul_le_mul_right _ h)
    have := log2_mono this
    omega
  by_cases heq : ulpB a d = ulpB b d
  · have : mantB a d ≤ mantB b d := by
      unfold mantB
      rw [heq]
      exact rne_mono_den (Nat.mul_pos hd (two_pow_pos _)) (Nat.mul_le_mul_right _ h)
    rw [heq]
    exact Nat.mul_le_mul_right _ this
  · have hlt : ulpB a d + 1 ≤ ulpB b d := by omega
    have h1 := mantB_le a d
    have h2 := mantB_ge b d (by omega)
    calc mantB a d * 2 ^ ulpB a d ≤ 2 ^ 53 * 2 ^ ulpB a d := Nat.mul_le_mul_right _ h1
      _ = 2 ^ 52 * 2 ^ (ulpB a d + 1) := by
        have h53 : (2 : Nat) ^ 53 = 2 ^ 52 * 2 := by decide
        have hs : (2 : Nat) ^ (ulpB a d + 1) = 2 ^ ulpB a d * 2 := Nat.pow_succ 2 (ulpB a d)
        rw [h53, hs, Nat.mul_assoc, Nat.mul_comm 2 (2 ^ ulpB a d)]
      _ ≤ 2 ^ 52 * 2 ^ ulpB b d := Nat.mul_le_mul_left _ (Nat.pow_le_pow_right (by decide) hlt)
      _ ≤ mantB b d * 2 ^ ulpB b d := Nat.mul_le_mul_right _ h2

/-- decoding what `roundPos` encoded, with a sign, for any result below infinity -/
theorem decode_value_gen (neg : Bool) (num den : Nat) (hlt : ulpB num den * 2 ^ 52 + mantB num den < 2047 * 2 ^ 52) :
    ∃ m e, ofBits (sgn neg + roundPos num den) = some (neg, m, e) ∧ -1074 ≤ e ∧
      m * 2 ^ (e + 1074).toNat = roundVal num den := by
  unfold roundVal
  have hm := mantB_le num den
  have hge := mantB_ge num den
  have hb : roundPos num den = ulpB num den * 2 ^ 52 + mantB num den := by
    have hinf : infBits = 2047 * 2 ^ 52 := by decide
    have h2 : ulpB num den * 2 ^ 52 + mantB num den ≤ infBits := by rw [hinf]; omega
    unfold roundPos
    exact Nat.min_eq_left h2
  rw [hb]
  generalize ulpB num den = e' at *
  generalize mantB num den = m at *
  have hex : ∀ x, x < 2047 * 2 ^ 52 → (sgn neg + x) / 2 ^ 52 % 2048 = x / 2 ^ 52 := by
    intro x hx
    cases neg <;> simp only [sgn, signBit, Bool.false_eq_true, if_false, if_true] <;> omega
  have hfr : ∀ x, (sgn neg + x) % 2 ^ 52 = x % 2 ^ 52 := by
    intro x
    cases neg <;> simp only [sgn, signBit, Bool.false_eq_true, if_false, if_true] <;> omega
  have hsg : ∀ x, x < 2047 * 2 ^ 52 → decide ((sgn neg + x) / 2 ^ 63 % 2 = 1) = neg := by
    intro x hx
    cases neg <;> simp only [sgn, signBit, Bool.false_eq_true, if_false, if_true, decide_eq_true_eq, decide_eq_false_iff_not] <;> omega
  unfold ofBits
  dsimp only
  rw [hex _ hlt, hfr, hsg _ hlt]
  by_cases h1 : m < 2 ^ 52
  · have h0 : e' = 0 := by
      by_cases h : 0 < e'
      · have := hge h; omega
      · omega
    subst h0
    have a1 : (0 * 2 ^ 52 + m) / 2 ^ 52 = 0 := by omega
    have a2 : (0 * 2 ^ 52 + m) % 2 ^ 52 = m := by omega
    rw [a1, a2]
    refine ⟨m, -1074, by simp, by omega, by simp⟩
  · by_cases h2 : m = 2 ^ 53
    · subst h2
      have a1 : (e' * 2 ^ 52 + 2 ^ 53) / 2 ^ 52 = e' + 2 := by omega
      have a2 : (e' * 2 ^ 52 + 2 ^ 53) % 2 ^ 52 = 0 := by omega
      rw [a1, a2]
      refine ⟨2 ^ 52 + 0, ((e' + 2 : Nat) : Int) - 1075, ?_, by omega, ?_⟩
      · have b1 : ¬ (e' + 2 = 2047) := by omega
        have b2 : ¬ (e' + 2 = 0) := by omega
        rw [if_neg b1, if_neg b2]
      · have : (((e' + 2 : Nat) : Int) - 1075 + 1074).toNat = e' + 1 := by omega
        rw [this, Nat.pow_succ]
        grind
    · have a1 : (e' * 2 ^ 52 + m) / 2 ^ 52 = e' + 1 := by omega
      have a2 : (e' * 2 ^ 52 + m) % 2 ^ 52 = m - 2 ^ 52 := by omega
      rw [a1, a2]
      refine ⟨2 ^ 52 + (m - 2 ^ 52), ((e' + 1 : Nat) : Int) - 1075, ?_, by omega, ?_⟩
      · have b1 : ¬ (e' + 1 = 2047) := by omega
        have b2 : ¬ (e' + 1 = 0) := by omega
        rw [if_neg b1, if_neg b2]
      · have : (((e' + 1 : Nat) : Int) - 1075 + 1074).toNat = e' := by omega
        rw [this]
        have : 2 ^ 52 + (m - 2 ^ 52) = m := by omega
        rw [this]

/-- the printed thousandths are monotone in the rounded value -/
theorem milli_of_units_mono {m1 m2 : Nat} {e1 e2 : Int} (h1 : -1074 ≤ e1) (h2 : -1074 ≤ e2)
    (h : m1 * 2 ^ (e1 + 1074).toNat ≤ m2 * 2 ^ (e2 + 1074).toNat) : milli m1 e1 ≤ milli m2 e2 := by
  rw [milli_biased m1 e1 h1, milli_biased m2 e2 h2]
  exact rne_mono_den (two_pow_pos _) (Nat.mul_le_mul_left _ h)


/-! ## the shape of a sum -/

theorem scale_facts (s : Int) (P : Nat) (hP : 0 < P) :
    (s * (P : Int) = 0 ↔ s = 0) ∧ (s * (P : Int) < 0 ↔ s < 0) ∧ (s * (P : Int)).natAbs = s.natAbs * P := by
  have hPi : (0 : Int) < (P : Int) := by exact_mod_cast hP
  refine ⟨?_, ?_, ?_⟩
  · constructor
    · intro h
      rcases Int.mul_eq_zero.mp h with h | h
      · exact h
      · omega
    · intro h; rw [h, Int.zero_mul]
  · constructor
    · intro h
      by_cases hs : s < 0
      · exact hs
      · have : 0 ≤ s * (P : Int) := Int.mul_nonneg (by omega) (by omega)
        omega
    · intro h; exact Int.mul_neg_of_neg_of_pos h hPi
  · rw [Int.natAbs_mul, Int.natAbs_natCast]

/-- `a + b` for a finite `a` and a finite non-negative `b`, in units of `2^-1074`: the exact signed sum `Z`, rounded -/
theorem add_shape (a b : Nat) (na : Bool) (ma mb : Nat) (ea eb : Int)
    (ha : ofBits a = some (na, ma, ea)) (hb : ofBits b = some (false, mb, eb)) (hbe : -1074 ≤ eb)
    (Z : Int) (hZ : Z = (if na = true then -((ma * 2 ^ (ea + 1074).toNat : Nat) : Int) else ((ma * 2 ^ (ea + 1074).toNat : Nat) : Int)) +
      ((mb * 2 ^ (eb + 1074).toNat : Nat) : Int)) :
    addBits a b = if Z = 0 then 0 else sgn (decide (Z < 0)) + roundPos Z.natAbs (2 ^ 1074) := by
  obtain ⟨ha1, _, _⟩ := decode_bounds ha
  unfold addBits
  rw [ha, hb]
  dsimp only
  generalize hA : ma * 2 ^ (ea - min ea eb).toNat = xa
  generalize hB : mb * 2 ^ (eb - min ea eb).toNat = xb
  have hP : 0 < 2 ^ (min ea eb + 1074).toNat := two_pow_pos _
  have hA' : xa * 2 ^ (min ea eb + 1074).toNat = ma * 2 ^ (ea + 1074).toNat := by
    rw [← hA, Nat.mul_assoc, ← Nat.pow_add]
    have : (ea - min ea eb).toNat + (min ea eb + 1074).toNat = (ea + 1074).toNat := by omega
    rw [this]
  have hB' : xb * 2 ^ (min ea eb + 1074).toNat = mb * 2 ^ (eb + 1074).toNat := by
    rw [← hB, Nat.mul_assoc, ← Nat.pow_add]
    have : (eb - min ea eb).toNat + (min ea eb + 1074).toNat = (eb + 1074).toNat := by omega
    rw [this]
  generalize hS : ((if na = true then -((xa : Nat) : Int) else (xa : Int)) + (if false = true then -((xb : Nat) : Int) else (xb : Int))) = S
  have hSZ : Z = S * ((2 ^ (min ea eb + 1074).toNat : Nat) : Int) := by
    rw [hZ, ← hS, ← hA', ← hB']
    cases na <;> simp only [Bool.false_eq_true, if_false, if_true, Int.add_mul, Int.neg_mul, Int.natCast_mul]
  obtain ⟨f1, f2, f3⟩ := scale_facts S _ hP
  rw [← hSZ] at f1 f2 f3
  have hand : (na && false) = false := by cases na <;> rfl
  by_cases h0 : S = 0
  · rw [if_pos h0, if_pos (f1.mpr h0), hand]; rfl
  · have hz0 : ¬ Z = 0 := fun h => h0 (f1.mp h)
    rw [if_neg h0, if_neg hz0, f3]
    have : decide (S < 0) = decide (Z < 0) := by
      by_cases h : S < 0
      · simp [h, f2.mpr h]
      · have : ¬ Z < 0 := fun hh => h (f2.mp hh)
        simp [h, this]
    rw [this]


/-! ## what is printed for a sum, and its monotonicity -/

/-- a sum of magnitude at most `DBL_MAX + 2^31` stays below infinity (the uncapped pattern) -/
theorem roundPos_big' (X : Nat) (h : X ≤ sumMax) :
    ulpB X (2 ^ 1074) * 2 ^ 52 + mantB X (2 ^ 1074) < 2047 * 2 ^ 52 := by
  obtain ⟨hu, hm⟩ := roundPos_int X
  have hm53 := mantB_le X (2 ^ 1074)
  rw [hu]
  have hlog : X.log2 ≤ 2097 := by
    by_cases h0 : X = 0
    · subst h0
      have : Nat.log2 0 = 0 := by decide
      omega
    · have hx : X < 2 ^ 2098 := Nat.lt_of_le_of_lt h sumMax_lt
      have := (Nat.log2_lt h0).mpr hx
      omega
  by_cases he : X.log2 - 52 = 2045
  · rw [hm, he]
    have h1 : rne X (2 ^ 2045) ≤ rne sumMax (2 ^ 2045) := rne_mono_den (two_pow_pos _) h
    rw [rne_sumMax] at h1
    omega
  · have h1 : X.log2 - 52 ≤ 2044 := by omega
    have h2 := Nat.mul_le_mul_right (2 ^ 52) h1
    omega

/-- thousandths printed for a magnitude of `v` units of `2^-1074` -/
def K (v : Nat) : Nat := rne (1000 * v) (2 ^ 1074)

theorem K_mono {v1 v2 : Nat} (h : v1 ≤ v2) : K v1 ≤ K v2 :=
  rne_mono_den (two_pow_pos _) (Nat.mul_le_mul_left _ h)

/-- the signed number of thousandths printed for the exact sum `Z` (units of `2^-1074`) after rounding to a double -/
def SP (Z : Int) : Int :=
  if Z = 0 then 0 else if Z < 0 then -((K (roundVal Z.natAbs (2 ^ 1074)) : Nat) : Int)
  else ((K (roundVal Z.natAbs (2 ^ 1074)) : Nat) : Int)

theorem SP_mono {Z1 Z2 : Int} (h : Z1 ≤ Z2) : SP Z1 ≤ SP Z2 := by
  have m1 : Z1.natAbs ≤ Z2.natAbs → K (roundVal Z1.natAbs (2 ^ 1074)) ≤ K (roundVal Z2.natAbs (2 ^ 1074)) :=
    fun hh => K_mono (roundVal_mono _ _ _ (two_pow_pos _) hh)
  have m2 : Z2.natAbs ≤ Z1.natAbs → K (roundVal Z2.natAbs (2 ^ 1074)) ≤ K (roundVal Z1.natAbs (2 ^ 1074)) :=
    fun hh => K_mono (roundVal_mono _ _ _ (two_pow_pos _) hh)
  unfold SP
  generalize K (roundVal Z1.natAbs (2 ^ 1074)) = k1 at *
  generalize K (roundVal Z2.natAbs (2 ^ 1074)) = k2 at *
  by_cases a1 : Z1 = 0 <;> by_cases a2 : Z2 = 0 <;> by_cases b1 : Z1 < 0 <;> by_cases b2 : Z2 < 0 <;>
    simp only [a1, a2, b1, b2, if_true, if_false] <;> omega

theorem milli_zero_units : milli 0 (-1074) = 0 := by decide +kernel

/-- what `%.3f` prints for `a + b` (finite `a`, finite non-negative `b` of at most `2^31`): the sign and `SP Z` -/
theorem printed_of_sum (a b : Nat) (na : Bool) (ma mb : Nat) (ea eb : Int)
    (ha : ofBits a = some (na, ma, ea)) (hb : ofBits b = some (false, mb, eb)) (hbe : -1074 ≤ eb)
    (hU : mb * 2 ^ (eb + 1074).toNat ≤ 2 ^ 1105)
    (Z : Int) (hZ : Z = (if na = true then -((ma * 2 ^ (ea + 1074).toNat : Nat) : Int) else ((ma * 2 ^ (ea + 1074).toNat : Nat) : Int)) +
      ((mb * 2 ^ (eb + 1074).toNat : Nat) : Int)) :
    ∃ neg k, readMilli (fmtBits (addBits a b)) = some (neg, k) ∧ (if neg = true then -((k : Nat) : Int) else (k : Int)) = SP Z ∧
      neg = (decide (Z < 0)) := by
  obtain ⟨ha1, ha2, ha3⟩ := decode_bounds ha
  rw [add_shape a b na ma mb ea eb ha hb hbe Z hZ]
  unfold SP
  by_cases h0 : Z = 0
  · rw [if_pos h0, if_pos h0]
    refine ⟨false, 0, ?_, by simp, by simp [h0]⟩
    have hz : ofBits 0 = some (false, 0, -1074) := by decide
    rw [fmtBits_eq_fmt3 0 false 0 (-1074) hz, readMilli_fmt3, milli_zero_units]
  · rw [if_neg h0, if_neg h0]
    have hAm : ma * 2 ^ (ea + 1074).toNat ≤ (2 ^ 53 - 1) * 2 ^ 2045 :=
      Nat.mul_le_mul (by omega) (Nat.pow_le_pow_right (by decide) (by omega))
    have hX : Z.natAbs ≤ sumMax := by
      unfold sumMax
      generalize ma * 2 ^ (ea + 1074).toNat = A at *
      generalize mb * 2 ^ (eb + 1074).toNat = U at *
      rw [hZ]
      cases na <;> simp only [Bool.false_eq_true, if_false, if_true] <;> omega
    obtain ⟨m, e, d1, d2, d3⟩ := decode_value_gen (decide (Z < 0)) Z.natAbs (2 ^ 1074) (roundPos_big' _ hX)
    refine ⟨decide (Z < 0), milli m e, ?_, ?_, rfl⟩
    · rw [fmtBits_eq_fmt3 _ _ m e d1, readMilli_fmt3]
    · have hk : milli m e = K (roundVal Z.natAbs (2 ^ 1074)) := by
        unfold K
        rw [milli_biased m e d2, d3]
      rw [hk]
      by_cases hn : Z < 0
      · simp [hn]
      · simp [hn]

/-- **begin times never go backwards**: for a finite start and frame numbers `0 ≤ f1 ≤ f2 ≤ 2^31`, the decimal printed
for `start + (double)f1 / fr` is at most the one printed for `start + (double)f2 / fr` -/
theorem time_mono (start : Nat) (hs : isFiniteBits start = true) (f1 f2 fr : Nat) (hfr : 0 < fr) (h12 : f1 ≤ f2)
    (h2 : f2 ≤ 2 ^ 31) :
    ∃ n1 k1 n2 k2, readMilli (fmtBits (timeBits start (f1 : Int) (fr : Int))) = some (n1, k1) ∧
      readMilli (fmtBits (timeBits start (f2 : Int) (fr : Int))) = some (n2, k2) ∧
      (if n1 = true then -((k1 : Nat) : Int) else (k1 : Int)) ≤ (if n2 = true then -((k2 : Nat) : Int) else (k2 : Int)) := by
  have h1 : f1 ≤ 2 ^ 31 := Nat.le_trans h12 h2
  unfold isFiniteBits at hs
  cases ha : ofBits start with
  | none => rw [ha] at hs; cases hs
  | some x =>
    obtain ⟨na, ma, ea⟩ := x
    have key : ∀ f : Nat, f ≤ 2 ^ 31 → ∃ m e, ofBits (divInt (f : Int) (fr : Int)) = some (false, m, e) ∧ -1074 ≤ e ∧
        m * 2 ^ (e + 1074).toNat = roundVal f fr ∧ m * 2 ^ (e + 1074).toNat ≤ 2 ^ 1105 := by
      intro f hf
      have hb : divInt (f : Int) (fr : Int) = roundPos f fr := ratioBits_nat f fr hfr
      obtain ⟨m, e, d1, d2, d3⟩ := decode_value f fr (ulpB_small f fr hfr hf)
      obtain ⟨m', e', s1, _, s3⟩ := decode_small false (roundPos f fr) (roundPos_small f fr hfr
        (Nat.le_trans hf (Nat.le_mul_of_pos_right _ hfr)))
      have hz : sgn false + roundPos f fr = roundPos f fr := by
        show 0 + roundPos f fr = roundPos f fr
        rw [Nat.zero_add]
      rw [hz, d1] at s1
      cases s1
      exact ⟨m, e, by rw [hb]; exact d1, d2, d3, s3⟩
    obtain ⟨m1, e1, b1, c1, v1, u1⟩ := key f1 h1
    obtain ⟨m2, e2, b2, c2, v2, u2⟩ := key f2 h2
    have hV : m1 * 2 ^ (e1 + 1074).toNat ≤ m2 * 2 ^ (e2 + 1074).toNat := by
      rw [v1, v2]; exact roundVal_mono f1 f2 fr hfr h12
    obtain ⟨n1, k1, r1, q1, _⟩ := printed_of_sum start _ na ma m1 ea e1 ha b1 c1 u1 _ rfl
    obtain ⟨n2, k2, r2, q2, _⟩ := printed_of_sum start _ na ma m2 ea e2 ha b2 c2 u2 _ rfl
    refine ⟨n1, k1, n2, k2, r1, r2, ?_⟩
    rw [q1, q2]
    apply SP_mono
    have : ((m1 * 2 ^ (e1 + 1074).toNat : Nat) : Int) ≤ ((m2 * 2 ^ (e2 + 1074).toNat : Nat) : Int) := Int.ofNat_le.mpr hV
    omega

end SSVerif.Dbl
