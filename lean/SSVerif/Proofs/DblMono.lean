import SSVerif.Proofs.DblExact
/-! # The IEEE operations of the time fields are monotone (lemmas for `C14_begin_fields_monotone`) -/
namespace SSVerif.Dbl
open SSVerif.Fmt3

theorem log2_mono {a b : Nat} (h : a ≤ b) : a.log2 ≤ b.log2 := by
  by_cases ha : a = 0
  · subst ha
    have : Nat.log2 0 = 0 := by decide
    omega
  · have hb : b ≠ 0 := by omega
    exact (Nat.le_log2 hb).mpr (Nat.le_trans (Nat.log2_self_le ha) h)

/-- the rounded value, in units of `2^-1074` -/
def roundVal (num den : Nat) : Nat := mantB num den * 2 ^ ulpB num den

/-- rounding to a double is monotone (same denominator) -/
theorem roundVal_mono (a b d : Nat) (hd : 0 < d) (h : a ≤ b) : roundVal a d ≤ roundVal b d := by
  unfold roundVal
  have hu : ulpB a d ≤ ulpB b d := by
    unfold ulpB
    have : a * 2 ^ 1074 / d ≤ b * 2 ^ 1074 / d := Nat.div_le_div_right (Nat.mul_le_mul_right _ h)
    have := log2_mono this
    omega
  by_cases heq : ulpB a d = ulpB b d
  · have : mantB a d ≤ mantB b d := by
      unfold mantB
      rw [heq]
      exact rne_mono_den (Nat.mul_pos hd (two_pow_pos _)) (Nat.mul_le_mul_right _ h)
    rw [heq]
    exact Nat.mul_le_mul_right _ this
  · have hlt : ulpB a d + 1 ≤ ulpB b d := by omega
    have h1 := mantB_le a d
    have h2 := mantB_ge b d (by omega)
    calc mantB a d * 2 ^ ulpB a d ≤ 2 ^ 53 * 2 ^ ulpB a d := Nat.mul_le_mul_right _ h1
      _ = 2 ^ 52 * 2 ^ (ulpB a d + 1) := by rw [Nat.pow_succ]; grind
      _ ≤ 2 ^ 52 * 2 ^ ulpB b d := Nat.mul_le_mul_left _ (Nat.pow_le_pow_right (by decide) hlt)
      _ ≤ mantB b d * 2 ^ ulpB b d := Nat.mul_le_mul_right _ h2

/-- decoding what `roundPos` encoded, with a sign, for any result below infinity -/
theorem decode_value_gen (neg : Bool) (num den : Nat) (hlt : ulpB num den * 2 ^ 52 + mantB num den < 2047 * 2 ^ 52) :
    ∃ m e, ofBits (sgn neg + roundPos num den) = some (neg, m, e) ∧ -1074 ≤ e ∧
      m * 2 ^ (e + 1074).toNat = roundVal num den := by
  unfold roundVal
  have hm := mantB_le num den
  have hge := mantB_ge num den
  have hb : roundPos num den = ulpB num den * 2 ^ 52 + mantB num den := by
    have hinf : infBits = 2047 * 2 ^ 52 := by decide
    have h2 : ulpB num den * 2 ^ 52 + mantB num den ≤ infBits := by rw [hinf]; omega
    unfold roundPos
    exact Nat.min_eq_left h2
  rw [hb]
  generalize ulpB num den = e' at *
  generalize mantB num den = m at *
  have hex : ∀ x, x < 2047 * 2 ^ 52 → (sgn neg + x) / 2 ^ 52 % 2048 = x / 2 ^ 52 := by
    intro x hx
    cases neg <;> simp only [sgn, signBit, Bool.false_eq_true, if_false, if_true] <;> omega
  have hfr : ∀ x, (sgn neg + x) % 2 ^ 52 = x % 2 ^ 52 := by
    intro x
    cases neg <;> simp only [sgn, signBit, Bool.false_eq_true, if_false, if_true] <;> omega
  have hsg : ∀ x, x < 2047 * 2 ^ 52 → decide ((sgn neg + x) / 2 ^ 63 % 2 = 1) = neg := by
    intro x hx
    cases neg <;> simp only [sgn, signBit, Bool.false_eq_true, if_false, if_true, decide_eq_true_eq, decide_eq_false_iff_not] <;> omega
  unfold ofBits
  dsimp only
  rw [hex _ hlt, hfr, hsg _ hlt]
  by_cases h1 : m < 2 ^ 52
  · have h0 : e' = 0 := by
      by_cases h : 0 < e'
      · have := hge h; omega
      · omega
    subst h0
    have a1 : (0 * 2 ^ 52 + m) / 2 ^ 52 = 0 := by omega
    have a2 : (0 * 2 ^ 52 + m) % 2 ^ 52 = m := by omega
    rw [a1, a2]
    refine ⟨m, -1074, by simp, by omega, by simp⟩
  · by_cases h2 : m = 2 ^ 53
    · subst h2
      have a1 : (e' * 2 ^ 52 + 2 ^ 53) / 2 ^ 52 = e' + 2 := by omega
      have a2 : (e' * 2 ^ 52 + 2 ^ 53) % 2 ^ 52 = 0 := by omega
      rw [a1, a2]
      refine ⟨2 ^ 52 + 0, ((e' + 2 : Nat) : Int) - 1075, ?_, by omega, ?_⟩
      · have b1 : ¬ (e' + 2 = 2047) := by omega
        have b2 : ¬ (e' + 2 = 0) := by omega
        rw [if_neg b1, if_neg b2]
      · have : (((e' + 2 : Nat) : Int) - 1075 + 1074).toNat = e' + 1 := by omega
        rw [this, Nat.pow_succ]
        grind
    · have a1 : (e' * 2 ^ 52 + m) / 2 ^ 52 = e' + 1 := by omega
      have a2 : (e' * 2 ^ 52 + m) % 2 ^ 52 = m - 2 ^ 52 := by omega
      rw [a1, a2]
      refine ⟨2 ^ 52 + (m - 2 ^ 52), ((e' + 1 : Nat) : Int) - 1075, ?_, by omega, ?_⟩
      · have b1 : ¬ (e' + 1 = 2047) := by omega
        have b2 : ¬ (e' + 1 = 0) := by omega
        rw [if_neg b1, if_neg b2]
      · have : (((e' + 1 : Nat) : Int) - 1075 + 1074).toNat = e' := by omega
        rw [this]
        have : 2 ^ 52 + (m - 2 ^ 52) = m := by omega
        rw [this]

/-- the printed thousandths are monotone in the rounded value -/
theorem milli_of_units_mono {m1 m2 : Nat} {e1 e2 : Int} (h1 : -1074 ≤ e1) (h2 : -1074 ≤ e2)
    (h : m1 * 2 ^ (e1 + 1074).toNat ≤ m2 * 2 ^ (e2 + 1074).toNat) : milli m1 e1 ≤ milli m2 e2 := by
  rw [milli_biased m1 e1 h1, milli_biased m2 e2 h2]
  exact rne_mono_den (two_pow_pos _) (Nat.mul_le_mul_left _ h)

end SSVerif.Dbl
