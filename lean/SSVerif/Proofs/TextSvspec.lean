import SSVerif.Model.TextSvspec
import SSVerif.Proofs.TextIn
/-! # `parse_subvecs` / `feat_set_subvecs` model: the pointer stays inside the string, the fuel is
never observed, accepted specifications are well-formed, projection reads inside the frame (C10) -/
namespace SSVerif.TextIn

/-- `r` is what is left of `s` after a non-empty prefix was consumed: the pointer moved forward
by at least one byte and not beyond the terminator -/
def ProperSuffix (r s : List UInt8) : Prop := ∃ pre, pre ≠ [] ∧ s = pre ++ r

/-- the pointer did not move backwards and not beyond the terminator -/
def Suffix (r s : List UInt8) : Prop := ∃ pre, s = pre ++ r

theorem ProperSuffix.length_lt {r s : List UInt8} (h : ProperSuffix r s) : r.length < s.length := by
  obtain ⟨pre, hne, rfl⟩ := h
  have : 0 < pre.length := List.length_pos_iff.mpr hne
  simp only [List.length_append]; omega

theorem Suffix.length_le {r s : List UInt8} (h : Suffix r s) : r.length ≤ s.length := by
  obtain ⟨pre, rfl⟩ := h
  simp only [List.length_append]; omega

theorem ProperSuffix.trans_suffix {a b c : List UInt8} (h1 : ProperSuffix a b) (h2 : Suffix b c) :
    ProperSuffix a c := by
  obtain ⟨p1, hne, rfl⟩ := h1
  obtain ⟨p2, rfl⟩ := h2
  exact ⟨p2 ++ p1, by simp [hne], by simp⟩

theorem Suffix.trans_proper {a b c : List UInt8} (h1 : Suffix a b) (h2 : ProperSuffix b c) :
    ProperSuffix a c := by
  obtain ⟨p1, rfl⟩ := h1
  obtain ⟨p2, hne, rfl⟩ := h2
  exact ⟨p2 ++ p1, by simp [hne], by simp⟩

theorem ProperSuffix.trans {a b c : List UInt8} (h1 : ProperSuffix a b) (h2 : ProperSuffix b c) :
    ProperSuffix a c := by
  obtain ⟨p1, _, rfl⟩ := h1
  exact Suffix.trans_proper ⟨p1, rfl⟩ h2

theorem ProperSuffix.cons (b : UInt8) (r : List UInt8) : ProperSuffix r (b :: r) :=
  ⟨[b], by simp, by simp⟩

theorem ProperSuffix.suffix {r s : List UInt8} (h : ProperSuffix r s) : Suffix r s := by
  obtain ⟨p, _, e⟩ := h; exact ⟨p, e⟩

theorem dropSpaceLibc_suffix : ∀ s : List UInt8, Suffix (dropSpaceLibc s) s
  | [] => ⟨[], rfl⟩
  | b :: r => by
    unfold dropSpaceLibc
    split
    · obtain ⟨p, hp⟩ := dropSpaceLibc_suffix r
      exact ⟨b :: p, by rw [List.cons_append, ← hp]⟩
    · exact ⟨[], rfl⟩

theorem digitsVal_suffix : ∀ (s : List UInt8) (acc : Nat), Suffix (digitsVal acc s).2 s
  | [], acc => ⟨[], rfl⟩
  | b :: r, acc => by
    unfold digitsVal
    split
    · obtain ⟨p, hp⟩ := digitsVal_suffix r (10 * acc + (b.toNat - 48))
      exact ⟨b :: p, by rw [List.cons_append, ← hp]⟩
    · exact ⟨[], rfl⟩

theorem digitsVal_proper (b : UInt8) (r : List UInt8) (acc : Nat) (h : isDigit b = true) :
    ProperSuffix (digitsVal acc (b :: r)).2 (b :: r) := by
  unfold digitsVal
  rw [if_pos h]
  exact Suffix.trans_proper (digitsVal_suffix r _) (ProperSuffix.cons b r)

theorem signSplit_suffix (s : List UInt8) : Suffix (signSplit s).2 s := by
  unfold signSplit
  split
  · exact ⟨[45], by simp⟩
  · exact ⟨[43], by simp⟩
  · exact ⟨[], rfl⟩

theorem scanDigits_ok (neg : Bool) (s : List UInt8) (v : Int) (r : List UInt8)
    (h : scanDigits neg s = some (v, r)) : ProperSuffix r s ∧ -2147483648 ≤ v ∧ v ≤ 2147483647 := by
  unfold scanDigits at h
  split at h
  · rename_i b u'
    split at h
    · rename_i hb
      injection h with h
      injection h with hv hr
      subst hv; subst hr
      exact ⟨digitsVal_proper b u' 0 hb, wrap32_range _⟩
    · cases h
  · cases h

/-- **`strp += l` stays inside the string and makes progress**: a successful `sscanf("%d%n")`
leaves a proper suffix; the stored value is an `int` -/
theorem scanfInt_ok (s : List UInt8) (v : Int) (r : List UInt8) (h : scanfInt s = some (v, r)) :
    ProperSuffix r s ∧ -2147483648 ≤ v ∧ v ≤ 2147483647 := by
  unfold scanfInt at h
  simp only at h
  obtain ⟨hp, hv⟩ := scanDigits_ok _ _ v r h
  refine ⟨hp.trans_suffix ?_, hv⟩
  obtain ⟨p1, e1⟩ := signSplit_suffix (dropSpaceLibc s)
  obtain ⟨p2, e2⟩ := dropSpaceLibc_suffix s
  exact ⟨p2 ++ p1, by rw [List.append_assoc, ← e1, ← e2]⟩

/-! ## range expansion -/

theorem addRange_eq : ∀ (cnt : Nat) (dims : List Nat) (n : Nat) (d : List Nat),
    addRange dims n cnt = some d → d = dims ++ List.range' n cnt
  | 0, dims, n, d, h => by simp [addRange] at h; simp [h]
  | cnt + 1, dims, n, d, h => by
    unfold addRange at h
    split at h
    · cases h
    · have := addRange_eq cnt _ _ _ h
      rw [this, List.range'_succ]; simp

theorem addRange_nodup : ∀ (cnt : Nat) (dims : List Nat) (n : Nat) (d : List Nat),
    addRange dims n cnt = some d → dims.Nodup → d.Nodup
  | 0, dims, n, d, h, hn => by simp [addRange] at h; subst h; exact hn
  | cnt + 1, dims, n, d, h, hn => by
    unfold addRange at h
    split at h
    · cases h
    · rename_i hc
      refine addRange_nodup cnt _ _ _ h ?_
      rw [List.nodup_append]
      refine ⟨hn, by simp, ?_⟩
      intro a ha b hb
      simp only [List.mem_singleton] at hb
      subst hb
      intro hab; subst hab
      exact hc (by simpa using ha)

/-- a refused range really contains a dimension that is already listed (completeness of the
duplicate test) -/
theorem addRange_none : ∀ (cnt : Nat) (dims : List Nat) (n : Nat),
    addRange dims n cnt = none → ∃ x, n ≤ x ∧ x < n + cnt ∧ x ∈ dims ++ List.range' n (x - n)
  | 0, dims, n, h => by simp [addRange] at h
  | cnt + 1, dims, n, h => by
    unfold addRange at h
    split at h
    · rename_i hc
      exact ⟨n, Nat.le_refl _, by omega, by simpa using hc⟩
    · obtain ⟨x, h1, h2, h3⟩ := addRange_none cnt _ _ h
      refine ⟨x, by omega, by omega, ?_⟩
      have : x - n = (x - (n + 1)) + 1 := by omega
      rw [this, List.range'_succ]
      simpa using h3

/-! ## items, sub-vectors, specification -/

/-- invariant of the dimension list of one sub-vector -/
structure DimsOK (d : List Nat) : Prop where
  nodup : d.Nodup
  int32 : ∀ x ∈ d, x ≤ 2147483647

theorem svItem_ok (dims : List Nat) (s : List UInt8) (d : List Nat) (r : List UInt8)
    (h : svItem dims s = .ok (d, r)) (hd : DimsOK dims) :
    ProperSuffix r s ∧ DimsOK d ∧ dims.length < d.length := by
  unfold svItem at h
  split at h
  · cases h
  · rename_i n r0 hs
    obtain ⟨hp0, hn_lo, hn_hi⟩ := scanfInt_ok s n r0 hs
    simp only at h
    -- the optional second number
    have sec : ∀ (n2 : Int) (r2 : List UInt8),
        (match r0 with
          | 45 :: r' => (match scanfInt r' with
              | none => (Except.error SvErr.noInt : Except SvErr (Int × List UInt8))
              | some (n2, r'') => .ok (n2, r''))
          | _ => .ok (n, r0)) = .ok (n2, r2) →
        ProperSuffix r2 s ∧ n2 ≤ 2147483647 := by
      intro n2 r2 hm
      split at hm
      · rename_i r'
        split at hm
        · cases hm
        · rename_i n2' r'' hs2
          injection hm with hm; injection hm with e1 e2; subst e1; subst e2
          obtain ⟨hp2, _, hhi⟩ := scanfInt_ok r' _ _ hs2
          exact ⟨(hp2.trans (ProperSuffix.cons 45 r')).trans hp0, hhi⟩
      · injection hm with hm; injection hm with e1 e2; subst e1; subst e2
        exact ⟨hp0, hn_hi⟩
    split at h
    · cases h
    · rename_i n2 r2 hsec
      obtain ⟨hp2, hn2⟩ := sec n2 r2 hsec
      split at h
      · cases h
      · rename_i hrange
        split at h
        · cases h
        · rename_i d' hadd
          injection h with h; injection h with e1 e2; subst e1; subst e2
          have hge : 0 ≤ n ∧ n ≤ n2 := by omega
          have heq := addRange_eq _ _ _ _ hadd
          refine ⟨hp2, ⟨addRange_nodup _ _ _ _ hadd hd.nodup, ?_⟩, ?_⟩
          · intro x hx
            rw [heq, List.mem_append] at hx
            rcases hx with hx | hx
            · exact hd.int32 x hx
            · rw [List.mem_range'_1] at hx
              omega
          · rw [heq, List.length_append, List.length_range']
            omega

theorem svVecF_ok : ∀ (fuel : Nat) (dims : List Nat) (s : List UInt8) (d : List Nat) (r : List UInt8),
    svVecF fuel dims s = .ok (d, r) → DimsOK dims →
    ProperSuffix r s ∧ DimsOK d ∧ dims.length < d.length ∧ (r = [] ∨ ∃ r', r = 47 :: r')
  | 0, _, _, _, _, h, _ => by simp [svVecF] at h
  | fuel + 1, dims, s, d, r, h, hd => by
    unfold svVecF at h
    split at h
    · cases h
    · rename_i d1 r1 hi
      obtain ⟨hp, hd1, hl⟩ := svItem_ok dims s d1 r1 hi hd
      split at h
      · injection h with h; injection h with e1 e2; subst e1; subst e2
        exact ⟨hp, hd1, hl, .inl rfl⟩
      · rename_i r'
        injection h with h; injection h with e1 e2; subst e1; subst e2
        exact ⟨hp, hd1, hl, .inr ⟨r', rfl⟩⟩
      · rename_i r'
        obtain ⟨hp', hd', hl', hr'⟩ := svVecF_ok fuel d1 r' d r h hd1
        exact ⟨(hp'.trans (ProperSuffix.cons 44 r')).trans hp, hd', by omega, hr'⟩
      · cases h

/-- the fuel of the inner loop is never observed -/
theorem svVecF_fuel : ∀ (f1 f2 : Nat) (dims : List Nat) (s : List UInt8),
    s.length < f1 → s.length < f2 → DimsOK dims → svVecF f1 dims s = svVecF f2 dims s
  | 0, _, _, _, h, _, _ => by omega
  | _, 0, _, _, _, h, _ => by omega
  | f1 + 1, f2 + 1, dims, s, h1, h2, hd => by
    unfold svVecF
    cases hi : svItem dims s with
    | error e => rfl
    | ok p =>
      obtain ⟨d1, r1⟩ := p
      obtain ⟨hp, hd1, _⟩ := svItem_ok dims s d1 r1 hi hd
      have hl := hp.length_lt
      simp only
      split
      · rfl
      · rfl
      · rename_i r'
        simp only [List.length_cons] at hl
        exact svVecF_fuel f1 f2 d1 r' (by omega) (by omega) hd1
      · rfl

theorem svVec_ok (s : List UInt8) (d : List Nat) (r : List UInt8) (h : svVec s = .ok (d, r)) :
    ProperSuffix r s ∧ DimsOK d ∧ d ≠ [] ∧ (r = [] ∨ ∃ r', r = 47 :: r') := by
  obtain ⟨hp, hd, hl, hr⟩ := svVecF_ok _ [] s d r h ⟨List.nodup_nil, by intro x hx; cases hx⟩
  exact ⟨hp, hd, by intro e; subst e; simp at hl, hr⟩

/-- well-formedness of a parsed specification: at least one sub-vector, every sub-vector non-empty,
without repetition, every dimension a non-negative `int32` -/
def SvWF (vs : List (List Nat)) : Prop := vs ≠ [] ∧ ∀ v ∈ vs, v ≠ [] ∧ v.Nodup ∧ ∀ x ∈ v, x ≤ 2147483647

theorem svAllF_ok : ∀ (fuel : Nat) (acc : List (List Nat)) (s : List UInt8) (vs : List (List Nat)),
    svAllF fuel acc s = .ok vs → (∀ v ∈ acc, v ≠ [] ∧ v.Nodup ∧ ∀ x ∈ v, x ≤ 2147483647) →
    vs ≠ [] ∧ ∀ v ∈ vs, v ≠ [] ∧ v.Nodup ∧ ∀ x ∈ v, x ≤ 2147483647
  | 0, _, _, _, h, _ => by simp [svAllF] at h
  | fuel + 1, acc, s, vs, h, hacc => by
    unfold svAllF at h
    split at h
    · cases h
    · rename_i d r hv
      obtain ⟨_, hd, hne, _⟩ := svVec_ok s d r hv
      have hacc' : ∀ v ∈ acc ++ [d], v ≠ [] ∧ v.Nodup ∧ ∀ x ∈ v, x ≤ 2147483647 := by
        intro v hv
        rw [List.mem_append] at hv
        rcases hv with hv | hv
        · exact hacc v hv
        · simp only [List.mem_singleton] at hv; subst hv; exact ⟨hne, hd.nodup, hd.int32⟩
      split at h
      · injection h with h; subst h
        exact ⟨by simp, hacc'⟩
      · exact svAllF_ok fuel _ _ vs h hacc'

/-- the fuel of the outer loop is never observed -/
theorem svAllF_fuel : ∀ (f1 f2 : Nat) (acc : List (List Nat)) (s : List UInt8),
    s.length < f1 → s.length < f2 → svAllF f1 acc s = svAllF f2 acc s
  | 0, _, _, _, h, _ => by omega
  | _, 0, _, _, _, h => by omega
  | f1 + 1, f2 + 1, acc, s, h1, h2 => by
    unfold svAllF
    cases hv : svVec s with
    | error e => rfl
    | ok p =>
      obtain ⟨d, r⟩ := p
      obtain ⟨hp, _, _, _⟩ := svVec_ok s d r hv
      have hl := hp.length_lt
      simp only
      cases r with
      | nil => rfl
      | cons b r' =>
        simp only [List.length_cons] at hl
        exact svAllF_fuel f1 f2 _ r' (by omega) (by omega)

theorem parseSubvecs_wf (s : List UInt8) (vs : List (List Nat)) (h : parseSubvecs s = .ok vs) : SvWF vs :=
  svAllF_ok _ [] s vs h (by intro v hv; cases hv)

/-- what `feat_set_subvecs` accepts can be projected inside the frame and fits back into it -/
theorem svSet_ok (nStream dim : Nat) (vs : List (List Nat)) (nsv svdim : Nat)
    (h : svSet nStream dim vs = .ok (nsv, svdim)) :
    nStream = 1 ∧ (∀ v ∈ vs, ∀ d ∈ v, d < dim) ∧ nsv = vs.length ∧
      svdim = (vs.map List.length).sum ∧ svdim ≤ dim := by
  unfold svSet at h
  split at h
  · cases h
  · rename_i hs
    split at h
    · cases h
    · rename_i hany
      split at h
      · cases h
      · rename_i hsum
        injection h with h; injection h with e1 e2
        refine ⟨by simpa using hs, ?_, e1.symm, e2.symm, by omega⟩
        intro v hv d hd
        have := hany
        simp only [List.any_eq_true, decide_eq_true_eq, not_exists, not_and, Nat.not_le] at this
        exact this v hv d hd

end SSVerif.TextIn
