import SSVerif.Proofs.JsonFormat
import SSVerif.Proofs.JsonRoundTrip
set_option linter.unusedSimpArgs false
/-! C14 helper lemmas: `format_seg_align` (words > phones > states) in both passes -/
namespace SSVerif.Json

/-- locals of `format_seg_align` in the dry run -/
def DInv (s : St) (m0 : Mem) (len : Int) : Prop := s.m = m0 ∧ s.outptr = none ∧ s.maxlen = 0 ∧ s.len = len

/-- locals of `format_seg_align` in the writing run: `maxlen` is the true remaining room -/
def WInv (s : St) (pre : Bytes) (k : Nat) (len : Int) : Prop :=
  At s.m pre k ∧ s.outptr = some (pre.length : Int) ∧ s.maxlen = (k : Int) ∧ s.len = len

def aentText (fmt : Fmt) (frate : Int) (e : AEnt) : Bytes :=
  entryText fmt (.time e.start frate) (.ratio e.dur frate) (.prob e.score) e.name

theorem entry_dry (fmt : Fmt) (frate : Int) (e : AEnt) {s : St} {m0 : Mem} {len : Int} (h : DInv s m0 len) :
    DInv (s.entry fmt e frate) m0 (len + (aentText fmt frate e).length) := by
  obtain ⟨h1, h2, h3, h4⟩ := h
  simp [St.entry, formatAlignIter, h1, h2, h3, h4, formatEntry_dry, DInv, aentText]

theorem lit_dry (bs : Bytes) {s : St} {m0 : Mem} {len : Int} (h : DInv s m0 len) :
    DInv (s.lit bs) m0 (len + bs.length) := by
  obtain ⟨h1, h2, h3, h4⟩ := h
  simp [St.lit, h1, h2, h3, h4, DInv]

theorem entry_wr (fmt : Fmt) (frate : Int) (e : AEnt) {s : St} {pre : Bytes} {k : Nat} {len : Int}
    (h : WInv s pre k len) (hk : (aentText fmt frate e).length < k) :
    WInv (s.entry fmt e frate) (pre ++ aentText fmt frate e) (k - (aentText fmt frate e).length)
      (len + (aentText fmt frate e).length) := by
  obtain ⟨h1, h2, h3, h4⟩ := h
  have he := formatEntry_write fmt (n := s.maxlen) (.time e.start frate) (.ratio e.dur frate) (.prob e.score) e.name h1
    (p := (pre.length : Int)) rfl (by rw [h3]; unfold aentText at hk; omega) hk
  unfold aentText at hk ⊢
  generalize hT : entryText fmt (.time e.start frate) (.ratio e.dur frate) (.prob e.score) e.name = T at *
  simp only [St.entry, formatAlignIter, h2]
  generalize formatEntry fmt s.m (some (pre.length : Int)) s.maxlen (.time e.start frate) (.ratio e.dur frate) (.prob e.score) e.name = res at *
  obtain ⟨hl, m'⟩ := res
  obtain ⟨e1, e2⟩ := he
  simp only at e1 e2
  subst e1
  refine ⟨e2, ?_, ?_, ?_⟩
  · simp
  · simp only [h3]
    have : ¬ ((k : Int) = 0) := by omega
    simp only [ne_eq, this, not_false_eq_true, if_true]
    omega
  · simp [h4]

theorem lit_wr (bs : Bytes) {s : St} {pre : Bytes} {k : Nat} {len : Int}
    (h : WInv s pre k len) (hk : bs.length < k) :
    WInv (s.lit bs) (pre ++ bs) (k - bs.length) (len + bs.length) := by
  obtain ⟨h1, h2, h3, h4⟩ := h
  have hs := storeList_spec bs h1 (p := (pre.length : Int)) rfl (by omega)
  simp only [St.lit, h2]
  refine ⟨hs, ?_, ?_, ?_⟩
  · simp
  · simp only [h3]
    have : ¬ ((k : Int) = 0) := by omega
    simp only [ne_eq, this, not_false_eq_true, if_true]
    omega
  · simp [h4]

theorem printV_obj_entry_w (fmt : Fmt) (st dur prob : Num) (text : Option Bytes) (l : List JV) :
    printV (.obj (entryFields fmt st dur prob text ++ [([119], .arr l)])) =
      entryText fmt st dur prob text ++ wOpen ++ printL l ++ [93, 125] := by
  have e1 : escByte 119 = [119] := by decide
  simp [printV, entryText, entryFields, printM, printStr, wOpen, e1]

theorem printV_stateTree (fmt : Fmt) (frate : Int) (e : AEnt) :
    printV (stateTree fmt frate e) = aentText fmt frate e ++ [125] := by
  simp [stateTree, aentFields, printV_obj_entry, aentText]

/-! ### the state loop -/


theorem statesLoop_single (fmt : Fmt) (frate : Int) (s : St) (e : AEnt) :
    statesLoop fmt frate s [e] = (s.entry fmt e frate).lit [125] := rfl
theorem statesLoop_cons_cons (fmt : Fmt) (frate : Int) (s : St) (e e' : AEnt) (r : List AEnt) :
    statesLoop fmt frate s (e :: e' :: r) = statesLoop fmt frate (((s.entry fmt e frate).lit [125]).lit [44]) (e' :: r) := rfl

theorem DInv.congr {s : St} {m0 : Mem} {a b : Int} (h : DInv s m0 a) (e : a = b) : DInv s m0 b := e ▸ h
theorem WInv.congr {s : St} {pre pre' : Bytes} {k k' : Nat} {a b : Int} (h : WInv s pre k a)
    (e1 : pre = pre') (e2 : k = k') (e3 : a = b) : WInv s pre' k' b := by subst e1 e2 e3; exact h

theorem statesLoop_dry (fmt : Fmt) (frate : Int) (es : List AEnt) : ∀ {s : St} {m0 : Mem} {len : Int}, DInv s m0 len →
    DInv (statesLoop fmt frate s es) m0 (len + (printL (es.map (stateTree fmt frate))).length) := by
  induction es with
  | nil => intro s m0 len h; simpa [statesLoop, printL] using h
  | cons e rest ih =>
    intro s m0 len h
    have h1 := lit_dry [125] (entry_dry fmt frate e h)
    cases rest with
    | nil =>
      simp only [List.map_cons, List.map_nil]
      rw [statesLoop_single, printL_single, printV_stateTree]
      exact h1.congr (by simp; omega)
    | cons e' r =>
      have h2 := ih (lit_dry [44] h1)
      simp only [List.map_cons] at h2 ⊢
      rw [statesLoop_cons_cons, printL_cons_cons, printV_stateTree]
      exact h2.congr (by simp; omega)

theorem statesLoop_wr (fmt : Fmt) (frate : Int) (es : List AEnt) : ∀ {s : St} {pre : Bytes} {k : Nat} {len : Int},
    WInv s pre k len → (printL (es.map (stateTree fmt frate))).length < k →
    WInv (statesLoop fmt frate s es) (pre ++ printL (es.map (stateTree fmt frate)))
      (k - (printL (es.map (stateTree fmt frate))).length) (len + (printL (es.map (stateTree fmt frate))).length) := by
  induction es with
  | nil => intro s pre k len h _; simpa [statesLoop, printL] using h
  | cons e rest ih =>
    intro s pre k len h hk
    cases rest with
    | nil =>
      simp only [List.map_cons, List.map_nil] at hk ⊢
      rw [printL_single, printV_stateTree] at hk ⊢
      simp only [List.length_append, List.length_cons, List.length_nil] at hk
      have h1 := lit_wr [125] (entry_wr fmt frate e h (by omega)) (by simp; omega)
      rw [statesLoop_single]
      exact h1.congr (by simp) (by simp; omega) (by simp; omega)
    | cons e' r =>
      simp only [List.map_cons] at hk ih ⊢
      rw [printL_cons_cons, printV_stateTree] at hk ⊢
      simp only [List.length_append, List.length_cons, List.length_nil] at hk
      have h1 := lit_wr [125] (entry_wr fmt frate e h (by omega)) (by simp; omega)
      have h2 := lit_wr [44] h1 (by simp; omega)
      have h3 := ih h2 (by simp; omega)
      rw [statesLoop_cons_cons]
      exact h3.congr (by simp) (by simp; omega) (by simp; omega)

/-! ### the phone loop -/

/-- one iteration of the phone loop without the separating comma -/
def phoneStep (fmt : Fmt) (frate : Int) (sa : Bool) (s : St) (p : APhone) : St :=
  let s := s.entry fmt p.e frate
  let s := if sa then (statesLoop fmt frate (s.lit wOpen) p.states).lit [93] else s
  s.lit [125]

theorem phonesLoop_single (fmt : Fmt) (frate : Int) (sa : Bool) (s : St) (p : APhone) :
    phonesLoop fmt frate sa s [p] = phoneStep fmt frate sa s p := rfl
theorem phonesLoop_cons_cons (fmt : Fmt) (frate : Int) (sa : Bool) (s : St) (p p' : APhone) (r : List APhone) :
    phonesLoop fmt frate sa s (p :: p' :: r) = phonesLoop fmt frate sa ((phoneStep fmt frate sa s p).lit [44]) (p' :: r) := rfl

theorem printV_phoneTree (fmt : Fmt) (frate : Int) (sa : Bool) (p : APhone) :
    printV (phoneTree fmt frate sa p) =
      if sa then aentText fmt frate p.e ++ wOpen ++ printL (p.states.map (stateTree fmt frate)) ++ [93, 125]
      else aentText fmt frate p.e ++ [125] := by
  cases sa with
  | true => simp only [phoneTree, aentFields, if_true, printV_obj_entry_w, aentText]
  | false => simp [phoneTree, aentFields, printV_obj_entry, aentText]

theorem wOpen_length : wOpen.length = 6 := rfl

theorem phoneStep_dry (fmt : Fmt) (frate : Int) (sa : Bool) (p : APhone) {s : St} {m0 : Mem} {len : Int} (h : DInv s m0 len) :
    DInv (phoneStep fmt frate sa s p) m0 (len + (printV (phoneTree fmt frate sa p)).length) := by
  rw [printV_phoneTree]
  have h1 := entry_dry fmt frate p.e h
  cases sa with
  | true =>
    have h2 := lit_dry [125] (lit_dry [93] (statesLoop_dry fmt frate p.states (lit_dry wOpen h1)))
    simp only [phoneStep, if_true]
    exact h2.congr (by simp; omega)
  | false =>
    have h2 := lit_dry [125] h1
    simp only [phoneStep]
    exact h2.congr (by simp; omega)

theorem phoneStep_wr (fmt : Fmt) (frate : Int) (sa : Bool) (p : APhone) {s : St} {pre : Bytes} {k : Nat} {len : Int}
    (h : WInv s pre k len) (hk : (printV (phoneTree fmt frate sa p)).length < k) :
    WInv (phoneStep fmt frate sa s p) (pre ++ printV (phoneTree fmt frate sa p))
      (k - (printV (phoneTree fmt frate sa p)).length) (len + (printV (phoneTree fmt frate sa p)).length) := by
  rw [printV_phoneTree] at hk ⊢
  cases sa with
  | true =>
    simp only [if_true, List.length_append, List.length_cons, List.length_nil, wOpen_length] at hk
    have h1 := entry_wr fmt frate p.e h (by omega)
    have h2 := lit_wr wOpen h1 (by rw [wOpen_length]; omega)
    have h3 := statesLoop_wr fmt frate p.states h2 (by rw [wOpen_length]; omega)
    have h4 := lit_wr [93] h3 (by rw [wOpen_length]; simp; omega)
    have h5 := lit_wr [125] h4 (by rw [wOpen_length]; simp; omega)
    simp only [phoneStep, if_true]
    exact h5.congr (by simp) (by simp [wOpen_length]; omega) (by simp [wOpen_length]; omega)
  | false =>
    simp only [Bool.false_eq_true, if_false, List.length_append, List.length_cons, List.length_nil] at hk
    have h1 := entry_wr fmt frate p.e h (by omega)
    have h2 := lit_wr [125] h1 (by simp; omega)
    simp only [phoneStep]
    exact h2.congr (by simp) (by simp; omega) (by simp; omega)

theorem phonesLoop_dry (fmt : Fmt) (frate : Int) (sa : Bool) (ps : List APhone) : ∀ {s : St} {m0 : Mem} {len : Int}, DInv s m0 len →
    DInv (phonesLoop fmt frate sa s ps) m0 (len + (printL (ps.map (phoneTree fmt frate sa))).length) := by
  induction ps with
  | nil => intro s m0 len h; simpa [phonesLoop, printL] using h
  | cons p rest ih =>
    intro s m0 len h
    have h1 := phoneStep_dry fmt frate sa p h
    cases rest with
    | nil =>
      simp only [List.map_cons, List.map_nil]
      rw [phonesLoop_single, printL_single]
      exact h1
    | cons p' r =>
      have h2 := ih (lit_dry [44] h1)
      simp only [List.map_cons] at h2 ⊢
      rw [phonesLoop_cons_cons, printL_cons_cons]
      exact h2.congr (by simp; omega)

theorem phonesLoop_wr (fmt : Fmt) (frate : Int) (sa : Bool) (ps : List APhone) : ∀ {s : St} {pre : Bytes} {k : Nat} {len : Int},
    WInv s pre k len → (printL (ps.map (phoneTree fmt frate sa))).length < k →
    WInv (phonesLoop fmt frate sa s ps) (pre ++ printL (ps.map (phoneTree fmt frate sa)))
      (k - (printL (ps.map (phoneTree fmt frate sa))).length) (len + (printL (ps.map (phoneTree fmt frate sa))).length) := by
  induction ps with
  | nil => intro s pre k len h _; simpa [phonesLoop, printL] using h
  | cons p rest ih =>
    intro s pre k len h hk
    cases rest with
    | nil =>
      simp only [List.map_cons, List.map_nil] at hk ⊢
      rw [printL_single] at hk ⊢
      rw [phonesLoop_single]
      exact phoneStep_wr fmt frate sa p h hk
    | cons p' r =>
      simp only [List.map_cons] at hk ih ⊢
      rw [printL_cons_cons] at hk ⊢
      simp only [List.length_append, List.length_cons] at hk
      have h1 := phoneStep_wr fmt frate sa p h (by omega)
      have h2 := lit_wr [44] h1 (by simp; omega)
      have h3 := ih h2 (by simp; omega)
      rw [phonesLoop_cons_cons]
      exact h3.congr (by simp) (by simp; omega) (by simp; omega)

/-! ### `format_seg_align` -/

theorem printV_wordTree (fmt : Fmt) (frate : Int) (sa : Bool) (w : AWord) :
    printV (wordTree fmt frate sa w) =
      aentText fmt frate w.e ++ wOpen ++ printL (w.phones.map (phoneTree fmt frate sa)) ++ [93, 125] := by
  simp only [wordTree, aentFields, printV_obj_entry_w, aentText]

theorem formatSegAlign_dry (fmt : Fmt) (m : Mem) (w : AWord) (frate : Int) (sa : Bool) :
    formatSegAlign fmt m none 0 w frate sa = (((printV (wordTree fmt frate sa w)).length : Int), m) := by
  have h0 : DInv { m := m, outptr := none, maxlen := 0, len := 0 } m 0 := ⟨rfl, rfl, rfl, rfl⟩
  have h1 := phonesLoop_dry fmt frate sa w.phones (lit_dry wOpen (entry_dry fmt frate w.e h0))
  obtain ⟨e1, e2, _, e4⟩ := h1
  simp only [formatSegAlign, e1, e2, e4, printV_wordTree]
  simp [wOpen_length]; omega

theorem formatSegAlign_write (fmt : Fmt) {m : Mem} {pre : Bytes} {k : Nat} {p n : Int} (w : AWord) (frate : Int) (sa : Bool)
    (h : At m pre k) (hp : p = pre.length) (hn : n = k) (hk : (printV (wordTree fmt frate sa w)).length < k) :
    (formatSegAlign fmt m (some p) n w frate sa).1 = ((printV (wordTree fmt frate sa w)).length : Int) ∧
    At (formatSegAlign fmt m (some p) n w frate sa).2 (pre ++ printV (wordTree fmt frate sa w))
      (k - (printV (wordTree fmt frate sa w)).length) := by
  rw [printV_wordTree] at hk ⊢
  simp only [List.length_append, List.length_cons, List.length_nil, wOpen_length] at hk
  subst hp hn
  have h0 : WInv { m := m, outptr := some (pre.length : Int), maxlen := (k : Int), len := 0 } pre k 0 := ⟨h, rfl, rfl, rfl⟩
  have h1 := entry_wr fmt frate w.e h0 (by omega)
  have h2 := lit_wr wOpen h1 (by rw [wOpen_length]; omega)
  have h3 := phonesLoop_wr fmt frate sa w.phones h2 (by rw [wOpen_length]; omega)
  obtain ⟨e1, e2, _, e4⟩ := h3
  simp only [formatSegAlign, e2, e4]
  have s1 := store_spec 93 e1 rfl (by rw [wOpen_length]; omega)
  have s2 := store_spec 125 s1 (p := ((pre ++ aentText fmt frate w.e ++ wOpen ++
      printL (w.phones.map (phoneTree fmt frate sa))).length : Int) + 1) (by simp; omega) (by rw [wOpen_length]; omega)
  have s3 := store_nul s2 (p := ((pre ++ aentText fmt frate w.e ++ wOpen ++
      printL (w.phones.map (phoneTree fmt frate sa))).length : Int) + 2) (by simp; omega) (by rw [wOpen_length]; omega)
  rw [s3]
  constructor
  · simp [wOpen_length]; omega
  · unfold At at s2 ⊢
    rw [s2]
    simp [wOpen_length]
    omega

end SSVerif.Json
