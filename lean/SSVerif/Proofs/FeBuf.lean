import SSVerif.Model.FeBuf
/-!
# Proofs about the front-end index model (M4): the rest invariant is preserved by every call

`Rest c fe m o` — between calls: `m` complete frames have been emitted, they are the first `m`
canonical frames, the overflow buffer holds exactly the samples `[m·shift, m·shift+o)`, the
pre-emphasis prior is sample `m·shift−1`, `o + slack ≤ size` (so `o < size` with the D25 repair)
and, after the first frame, `size − shift ≤ o`.  All samples before `m·shift+o` have been consumed.
-/
namespace SSVerif.FeBuf
open List

/-! ## reads of index ranges -/

theorem take_range'_le {s n m : Nat} (h : m ≤ n) : (range' s n).take m = range' s m :=
  take_range'_of_length_ge h

theorem drop_range'_one {s n k : Nat} : (range' s n).drop k = range' (s + k) (n - k) := by
  simp

theorem rd_range' {s n a m : Nat} (h : a + m ≤ n) : rd (range' s n) a m = some (range' (s + a) m) := by
  unfold rd
  rw [length_range', if_pos h, drop_range'_one, take_range'_le (by omega)]

theorem getElem?_range'_one {s n i : Nat} (h : i < n) : (range' s n)[i]? = some (s + i) := by
  rw [getElem?_range' h]; simp

/-! ## invariants -/

structure Rest (c : Cfg) (fe : Fe Nat) (m o : Nat) : Prop where
  ovf : fe.ovf = range' (m * c.shift) o
  novf : fe.nOvf = (o : Int)
  le : o + c.slack ≤ c.size
  ge : m = 0 ∨ c.size ≤ o + c.shift
  prior : fe.prior = if m = 0 then none else some (m * c.shift - 1)
  out : fe.out = (List.range m).map (fullFrame c.size c.shift)

/-- inside a call that started at rest `(k, o)`, after the first frame and `i` shift steps -/
structure Mid (c : Cfg) (fe : Fe Nat) (k o i : Nat) : Prop where
  spch : fe.spch = range' (k * c.shift + i * c.shift) c.size
  prior : fe.prior = some (k * c.shift + i * c.shift + c.shift - 1)
  out : fe.out = (List.range (k + i + 1)).map (fullFrame c.size c.shift)
  nov_pos : 0 < fe.nOvf → fe.nOvf = (o : Int) - ((i * c.shift + c.shift : Nat) : Int)
  nov_le : fe.nOvf ≤ 0 → o ≤ i * c.shift + c.shift
  ovf : o ≠ 0 → fe.ovf = range' (k * c.shift) c.size

theorem slack_le_one (c : Cfg) : c.slack ≤ 1 := by
  unfold Cfg.slack; split <;> omega

theorem fullFrame_pos {size shift m a : Nat} (hm : m ≠ 0) (ha : m * shift = a) :
    fullFrame size shift m = { win := range' a size, prior := some (a - 1) } := by
  unfold fullFrame; rw [if_neg hm, ha]

theorem range_map_succ {β : Type} (f : Nat → β) (m : Nat) :
    (List.range (m + 1)).map f = (List.range m).map f ++ [f m] := by
  rw [range_succ, map_append]; rfl

/-! ## the shift loop -/

/-- one iteration of the frame loop, stated on the fields of the new state -/
theorem mid_step (c : Cfg) (hs : 0 < c.shift) (hss : c.shift ≤ c.size) {k o i p : Nat} {fe fe1 : Fe Nat}
    (M : Mid c fe k o i) (hp : p + o = c.size + i * c.shift)
    (h_spch : fe1.spch = (fe.spch.drop c.shift).take (c.size - c.shift) ++ range' (k * c.shift + o + p) c.shift)
    (h_prior : fe1.prior = if c.shift ≤ c.size - c.shift + (range' (k * c.shift + o + p) c.shift).length
        then fe1.spch[c.shift - 1]? else fe1.spch[c.size - c.shift + (range' (k * c.shift + o + p) c.shift).length - 1]?)
    (h_out : fe1.out = fe.out ++ [Frame.mk (fe1.spch.take (c.size - c.shift + (range' (k * c.shift + o + p) c.shift).length)) fe.prior])
    (h_novf : fe1.nOvf = if fe.nOvf > 0 then fe.nOvf - c.shift else fe.nOvf)
    (h_ovf : fe1.ovf = fe.ovf) : Mid c fe1 k o (i + 1) := by
  have e2 : (i + 1) * c.shift = i * c.shift + c.shift := Nat.succ_mul _ _
  have hlen : c.size - c.shift + (range' (k * c.shift + o + p) c.shift).length = c.size := by
    rw [length_range']; omega
  have hspch : fe1.spch = range' (k * c.shift + (i + 1) * c.shift) c.size := by
    rw [h_spch, M.spch, drop_range'_one, take_range'_le (Nat.le_refl _)]
    have : k * c.shift + o + p = k * c.shift + i * c.shift + c.shift + (c.size - c.shift) := by omega
    rw [this, range'_append_1]
    congr 1 <;> omega
  have hf : fullFrame c.size c.shift (k + i + 1) =
      Frame.mk (range' (k * c.shift + (i + 1) * c.shift) c.size) (some (k * c.shift + i * c.shift + c.shift - 1)) := by
    have hm : (k + i + 1) * c.shift = k * c.shift + (i + 1) * c.shift := by
      rw [Nat.add_mul, Nat.add_mul, Nat.one_mul]; omega
    rw [fullFrame_pos (m := k + i + 1) (by omega) hm]
    congr 2; omega
  refine ⟨hspch, ?_, ?_, ?_, ?_, ?_⟩
  · rw [h_prior, hlen, if_pos hss, hspch, getElem?_range'_one (by omega)]
    congr 1; omega
  · rw [h_out, hlen, hspch, M.out, M.prior, take_range'_le (Nat.le_refl _)]
    rw [show k + (i + 1) + 1 = (k + i + 1) + 1 by omega, range_map_succ _ (k + i + 1), hf]
  · intro h
    rw [h_novf] at h ⊢
    split at h
    · rename_i hpos
      rw [if_pos hpos, M.nov_pos hpos]; omega
    · omega
  · intro h
    rw [h_novf] at h
    split at h
    · rename_i hpos
      rw [M.nov_pos hpos] at h; omega
    · have := M.nov_le (by omega); omega
  · intro h; rw [h_ovf]; exact M.ovf h

theorem shiftLoop_spec (c : Cfg) (hs : 0 < c.shift) (hss : c.shift ≤ c.size) (k o n : Nat) :
    ∀ (t i : Nat) (fe : Fe Nat) (p : Nat),
      Mid c fe k o i → p + o = c.size + i * c.shift → p + t * c.shift ≤ n →
      ∃ fe', shiftLoop c (range' (k * c.shift + o) n) t fe p = some (fe', p + t * c.shift) ∧
        Mid c fe' k o (i + t) := by
  intro t
  induction t with
  | zero =>
    intro i fe p M _ _
    exact ⟨fe, by simp [shiftLoop], by simp; exact M⟩
  | succ t ih =>
    intro i fe p M hp hn
    have e1 : (t + 1) * c.shift = t * c.shift + c.shift := Nat.succ_mul _ _
    have e2 : (i + 1) * c.shift = i * c.shift + c.shift := Nat.succ_mul _ _
    have hrd : rd (range' (k * c.shift + o) n) p c.shift = some (range' (k * c.shift + o + p) c.shift) :=
      rd_range' (by omega)
    unfold shiftLoop
    rw [hrd, Option.bind_some]
    obtain ⟨fe', h1, h2⟩ := ih (i + 1) _ (p + c.shift)
      (mid_step c hs hss M hp (fe1 := { shiftFrame c fe (range' (k * c.shift + o + p) c.shift) with
          nOvf := if (shiftFrame c fe (range' (k * c.shift + o + p) c.shift)).nOvf > 0
                  then (shiftFrame c fe (range' (k * c.shift + o + p) c.shift)).nOvf - c.shift
                  else (shiftFrame c fe (range' (k * c.shift + o + p) c.shift)).nOvf })
        rfl rfl rfl rfl rfl) (by omega) (by omega)
    refine ⟨fe', ?_, ?_⟩
    · show shiftLoop c _ t _ (p + c.shift) = _
      rw [h1]; congr 2; omega
    · rw [show i + (t + 1) = i + 1 + t by omega]; exact h2

/-! ## one call -/

theorem mid_first (c : Cfg) (hs : 0 < c.shift) (hss : c.shift ≤ c.size) {k o : Nat} {fe fe1 : Fe Nat}
    (R : Rest c fe k o)
    (h_spch : fe1.spch = range' (k * c.shift) c.size)
    (h_prior : fe1.prior = if c.shift ≤ (range' (k * c.shift) c.size).length then fe1.spch[c.shift - 1]?
        else fe1.spch[(range' (k * c.shift) c.size).length - 1]?)
    (h_out : fe1.out = fe.out ++ [Frame.mk (fe1.spch.take (range' (k * c.shift) c.size).length) fe.prior])
    (h_novf : fe1.nOvf = if o = 0 then 0 else (o : Int) - c.shift)
    (h_ovf : o ≠ 0 → fe1.ovf = range' (k * c.shift) c.size) : Mid c fe1 k o 0 := by
  refine ⟨by simpa using h_spch, ?_, ?_, ?_, ?_, h_ovf⟩
  · rw [h_prior, length_range', if_pos hss, h_spch, getElem?_range'_one (by omega)]
    congr 1; omega
  · rw [h_out, length_range', h_spch, R.out, R.prior, take_range'_le (Nat.le_refl _), Nat.add_zero,
      range_map_succ]
    rfl
  · intro h; rw [h_novf] at h ⊢; split at h <;> rename_i ho
    · omega
    · rw [if_neg ho]; omega
  · intro h; rw [h_novf] at h; split at h <;> omega

theorem firstFrame_spec (c : Cfg) (hs : 0 < c.shift) (hss : c.shift ≤ c.size) {k o : Nat} {fe : Fe Nat}
    (R : Rest c fe k o) (n : Nat) (hn : c.size ≤ n + o) :
    ∃ fe1, (if fe.nOvf ≠ 0 then readOverflowFrame c fe (range' (k * c.shift + o) n)
            else (rd (range' (k * c.shift + o) n) 0 c.size).map fun w => (readFrame c fe w, c.size))
        = some (fe1, c.size - o) ∧ Mid c fe1 k o 0 := by
  have hle := R.le
  by_cases ho : o = 0
  · subst ho
    have h0 : ¬ fe.nOvf ≠ 0 := by rw [R.novf]; omega
    rw [if_neg h0, rd_range' (by omega), Option.map_some]
    simp only [Nat.add_zero, Nat.sub_zero]
    exact ⟨_, rfl, mid_first c hs hss R rfl rfl rfl (by rw [if_pos rfl]; exact R.novf) (by omega)⟩
  · have h0 : fe.nOvf ≠ 0 := by rw [R.novf]; omega
    have h1 : ¬ ((c.size : Int) - fe.nOvf < 0 ∨ fe.nOvf < 0) := by rw [R.novf]; omega
    have h2 : fe.nOvf.toNat = o := by rw [R.novf]; omega
    have h3 : ((c.size : Int) - fe.nOvf).toNat = c.size - o := by rw [R.novf]; omega
    rw [if_pos h0]
    simp only [readOverflowFrame]
    rw [if_neg h1, h2, h3, R.ovf, rd_range' (by omega), Option.bind_some, rd_range' (by omega), Option.bind_some]
    simp only [Nat.add_zero]
    rw [range'_append_1, show o + (c.size - o) = c.size by omega, rd_range' (by omega), Option.map_some]
    simp only [Nat.add_zero]
    refine ⟨_, rfl, mid_first c hs hss R rfl rfl rfl ?_ (fun _ => rfl)⟩
    rw [if_neg ho]
    show fe.nOvf - c.shift = _
    rw [R.novf]

theorem rest_of_mid (c : Cfg) {k o t o' : Nat} {fe fe3 : Fe Nat} (M : Mid c fe k o t)
    (h_ovf : fe3.ovf = range' ((k + t + 1) * c.shift) o') (h_novf : fe3.nOvf = (o' : Int))
    (h_le : o' + c.slack ≤ c.size) (h_ge : c.size ≤ o' + c.shift)
    (h_prior : fe3.prior = fe.prior) (h_out : fe3.out = fe.out) : Rest c fe3 (k + t + 1) o' := by
  have hm : (k + t + 1) * c.shift = k * c.shift + t * c.shift + c.shift := by
    rw [Nat.add_mul, Nat.add_mul, Nat.one_mul]
  refine ⟨h_ovf, h_novf, h_le, Or.inr h_ge, ?_, ?_⟩
  · rw [h_prior, M.prior, if_neg (by omega), hm]
  · rw [h_out, M.out]

theorem create_spec (c : Cfg) (hs : 0 < c.shift) (hss : c.shift ≤ c.size) {k o t n p : Nat} {fe : Fe Nat}
    (M : Mid c fe k o t) (hp : p + o = c.size + t * c.shift) (hpn : p ≤ n) (hneg : fe.nOvf ≤ 0) :
    ∃ fe3 o', createOverflowFrame c fe (range' (k * c.shift + o) n) p
        = some (fe3, p + min (c.shift - c.slack) (n - p)) ∧
      Rest c fe3 (k + t + 1) o' ∧
      (k + t + 1) * c.shift + o' = k * c.shift + o + (p + min (c.shift - c.slack) (n - p)) := by
  have hm : (k + t + 1) * c.shift = k * c.shift + t * c.shift + c.shift := by
    rw [Nat.add_mul, Nat.add_mul, Nat.one_mul]
  have hsl := slack_le_one c
  have ho := M.nov_le hneg
  simp only [createOverflowFrame, length_range']
  by_cases hno : c.size - c.shift + min (c.shift - c.slack) (n - p) > 0
  · rw [if_pos hno, if_neg (by omega), rd_range' (by omega), Option.map_some]
    refine ⟨_, _, rfl, rest_of_mid c M ?_ rfl (by omega) (by omega) rfl rfl, by omega⟩
    show range' _ _ = _
    congr 1; omega
  · rw [if_neg hno]
    have h0 : min (c.shift - c.slack) (n - p) = 0 := by omega
    rw [h0]
    exact ⟨_, 0, rfl, rest_of_mid c M rfl rfl (by omega) (by omega) rfl rfl, by omega⟩


theorem append_spec (c : Cfg) (hs : 0 < c.shift) (_hss : c.shift ≤ c.size) {k o t n p : Nat} {fe : Fe Nat}
    (M : Mid c fe k o t) (hp : p + o = c.size + t * c.shift) (hpn : p ≤ n) (hpos : 0 < fe.nOvf)
    (hle : o + c.slack ≤ c.size) :
    ∃ fe3 o', appendOverflowFrame c fe (range' (k * c.shift + o) n) p (o : Int)
        = some (fe3, min n (c.size + t * c.shift + c.shift - o - c.slack)) ∧
      Rest c fe3 (k + t + 1) o' ∧
      (k + t + 1) * c.shift + o' = k * c.shift + o + min n (c.size + t * c.shift + c.shift - o - c.slack) := by
  have hm : (k + t + 1) * c.shift = k * c.shift + t * c.shift + c.shift := by
    rw [Nat.add_mul, Nat.add_mul, Nat.one_mul]
  have hsl := slack_le_one c
  have hv := M.nov_pos hpos
  have ho : o ≠ 0 := by omega
  have h1 : ¬ ((o : Int) < fe.nOvf ∨ (c.size : Int) - fe.nOvf - c.slack < 0) := by omega
  have h2 : ((o : Int) - fe.nOvf).toNat = t * c.shift + c.shift := by omega
  have h3 : fe.nOvf.toNat = o - (t * c.shift + c.shift) := by omega
  have h4 : ((c.size : Int) - fe.nOvf - c.slack).toNat = c.size + t * c.shift + c.shift - o - c.slack := by omega
  simp only [appendOverflowFrame, length_range']
  rw [if_neg h1, h2, h3, h4, M.ovf ho, rd_range' (by omega), Option.bind_some, rd_range' (by omega),
    Option.map_some]
  have hnov : (if min n (c.size + t * c.shift + c.shift - o - c.slack) > p
      then min n (c.size + t * c.shift + c.shift - o - c.slack) else p)
      = min n (c.size + t * c.shift + c.shift - o - c.slack) := by split <;> omega
  rw [hnov]
  refine ⟨_, o - (t * c.shift + c.shift) + min n (c.size + t * c.shift + c.shift - o - c.slack), rfl,
    rest_of_mid c M ?_ ?_ (by omega) (by omega) rfl rfl, by omega⟩
  · show range' _ _ ++ range' _ _ = _
    rw [show k * c.shift + o + 0 = k * c.shift + (t * c.shift + c.shift) + (o - (t * c.shift + c.shift)) by omega,
      range'_append_1]
    congr 1; omega
  · show fe.nOvf + _ = _
    omega

/-- number of complete frames available from `n` new samples when `o` are in the overflow buffer -/
def avail (c : Cfg) (n o : Nat) : Nat := if n + o < c.size then 0 else 1 + (n + o - c.size) / c.shift

theorem outputFrameCount_eq (c : Cfg) (hs : 0 < c.shift) {k o : Nat} {fe : Fe Nat} (R : Rest c fe k o) (n : Nat) :
    outputFrameCount c fe n = avail c n o + 1 := by
  have e : ((n : Int) + (o : Int) - (c.size : Int)).toNat = n + o - c.size := by omega
  by_cases h : n + o < c.size
  · have hc : ((n : Int) + (o : Int) < (c.size : Int)) := by omega
    simp only [outputFrameCount, avail, R.novf, hc, h, if_true]
    rw [if_pos (by omega)]
  · have hc : ¬ ((n : Int) + (o : Int) < (c.size : Int)) := by omega
    simp only [outputFrameCount, avail, R.novf, hc, h, if_false, e]
    have := Nat.lt_div_mul_add (a := n + o - c.size) hs
    have e1 : (1 + (n + o - c.size) / c.shift) * c.shift = (n + o - c.size) / c.shift * c.shift + c.shift := by
      rw [Nat.add_mul, Nat.one_mul, Nat.add_comm]
    rw [if_pos (by omega)]

theorem process_spec (c : Cfg) (hs : 0 < c.shift) (hss : c.shift ≤ c.size) {k o : Nat} {fe : Fe Nat}
    (R : Rest c fe k o) (n L : Nat) :
    ∃ fe' used o', process c fe (range' (k * c.shift + o) n) L = some (fe', used, min (avail c n o) L) ∧
      Rest c fe' (k + min (avail c n o) L) o' ∧
      (k + min (avail c n o) L) * c.shift + o' = k * c.shift + o + used ∧ used ≤ n ∧
      (avail c n o ≤ L → used = n) := by
  have hle := R.le
  have hsl := slack_le_one c
  simp only [process, length_range', R.novf]
  by_cases hA : n + o < c.size
  · -- overflow_append
    have hav : avail c n o = 0 := by unfold avail; rw [if_pos hA]
    rw [if_pos (by omega), hav, Nat.zero_min, Nat.add_zero]
    refine ⟨_, n, o + n, rfl, ?_, by omega, Nat.le_refl _, fun _ => rfl⟩
    unfold overflowAppend
    rw [length_range']
    by_cases hn : n = 0
    · subst hn; rw [if_pos rfl]; exact R
    · rw [if_neg hn]
      refine ⟨?_, ?_, by omega, ?_, R.prior, R.out⟩
      · show fe.ovf.take fe.nOvf.toNat ++ range' (k * c.shift + o) n = _
        rw [R.novf, R.ovf, Int.toNat_natCast, take_range'_le (Nat.le_refl _), range'_append_1]
      · show fe.nOvf + _ = _
        rw [R.novf]; omega
      · rcases R.ge with h | h
        · exact Or.inl h
        · exact Or.inr (by omega)
  · rw [if_neg (by omega)]
    have e : ((n : Int) + (o : Int) - (c.size : Int)).toNat = n + o - c.size := by omega
    have hav : avail c n o = 1 + (n + o - c.size) / c.shift := by unfold avail; rw [if_neg hA]
    have hd1 := Nat.div_mul_le_self (n + o - c.size) c.shift
    have hd2 := Nat.lt_div_mul_add (a := n + o - c.size) hs
    rw [e, ← hav]
    generalize (n + o - c.size) / c.shift = q at hd1 hd2 hav
    by_cases hL : L < 1
    · have : L = 0 := by omega
      subst this
      rw [if_pos hL, Nat.min_zero, Nat.add_zero]
      exact ⟨_, 0, o, rfl, R, by omega, by omega, fun h => by omega⟩
    · rw [if_neg hL]
      -- first frame
      obtain ⟨fe1, hf1, M1⟩ := firstFrame_spec c hs hss R n (by omega)
      rw [R.novf] at hf1
      rw [hf1, Option.bind_some]
      -- the loop
      have ht : (min (avail c n o) L - 1) * c.shift ≤ q * c.shift :=
        Nat.mul_le_mul_right _ (by omega)
      obtain ⟨fe2, hf2, M2⟩ := shiftLoop_spec c hs hss k o n (min (avail c n o) L - 1) 0 fe1 (c.size - o) M1
        (by omega) (by omega)
      simp only []
      rw [hf2, Option.bind_some]
      have hmin : min (avail c n o) L = (min (avail c n o) L - 1) + 1 := by omega
      generalize min (avail c n o) L - 1 = t at hmin ht hf2 M2
      rw [hmin]
      rw [Nat.zero_add] at M2
      have hp2 : c.size - o + t * c.shift + o = c.size + t * c.shift := by omega
      have hm : (k + (t + 1)) * c.shift = (k + t + 1) * c.shift := by rw [Nat.add_assoc]
      have hm2 : (k + t + 1) * c.shift = k * c.shift + t * c.shift + c.shift := by
        rw [Nat.add_mul, Nat.add_mul, Nat.one_mul]
      show ∃ fe' used o', Option.map (fun x => (x.fst, x.snd, t + 1))
          (if fe2.nOvf ≤ 0 then createOverflowFrame c fe2 (range' (k * c.shift + o) n) (c.size - o + t * c.shift)
           else appendOverflowFrame c fe2 (range' (k * c.shift + o) n) (c.size - o + t * c.shift) ↑o) = _ ∧ _
      by_cases hneg : fe2.nOvf ≤ 0
      · rw [if_pos hneg]
        obtain ⟨fe3, o', h3, R3, hpos⟩ := create_spec c hs hss M2 hp2 (n := n) (by omega) hneg
        rw [h3, Option.map_some]
        refine ⟨fe3, _, o', rfl, by rw [← Nat.add_assoc]; exact R3, by rw [hm]; exact hpos, by omega, ?_⟩
        intro hfull
        have : t = q := by omega
        subst this
        omega
      · rw [if_neg hneg]
        obtain ⟨fe3, o', h3, R3, hpos⟩ := append_spec c hs hss M2 hp2 (n := n) (by omega) (by omega) hle
        rw [h3, Option.map_some]
        refine ⟨fe3, _, o', rfl, by rw [← Nat.add_assoc]; exact R3, by rw [hm]; exact hpos, by omega, ?_⟩
        intro hfull
        have : t = q := by omega
        subst this
        omega
/-! ## the caller: chunks, limits, end of stream -/

/-- what every logged call satisfies: it wrote `min (dry − 1) limit` frames, and `dry ≥ 1` -/
def LogOk (l : CallLog) : Prop := l.frames = min (l.dry - 1) l.limit ∧ 1 ≤ l.dry

theorem feedChunk_spec (c : Cfg) (hs : 0 < c.shift) (hss : c.shift ≤ c.size) :
    ∀ (limits : List Nat) {k o : Nat} {fe : Fe Nat} (_ : Rest c fe k o) (n : Nat),
    ∃ fe' logs k' o', feedChunk c fe (range' (k * c.shift + o) n) limits = some (fe', logs, []) ∧
      Rest c fe' k' o' ∧ k' * c.shift + o' = k * c.shift + o + n ∧
      (logs.map (·.consumed)).sum = n ∧ k' = k + (logs.map (·.frames)).sum ∧
      (∀ l ∈ logs, LogOk l) := by
  intro limits
  induction limits with
  | nil =>
    intro k o fe R n
    simp only [feedChunk, length_range']
    by_cases hn : n = 0
    · subst hn
      rw [if_pos rfl]
      exact ⟨fe, [], k, o, by simp, R, by omega, by simp, by simp, by simp⟩
    · rw [if_neg hn, outputFrameCount_eq c hs R n]
      obtain ⟨fe', used, o', h1, R', hpos, hle, hfull⟩ := process_spec c hs hss R n (avail c n o + 1)
      have hu : used = n := hfull (by omega)
      rw [hu] at h1 hpos
      have hmin : min (avail c n o) (avail c n o + 1) = avail c n o := by omega
      rw [hmin] at h1 R' hpos
      rw [h1, Option.map_some]
      refine ⟨fe', [CallLog.mk (avail c n o + 1) (avail c n o + 1) n (avail c n o) fe'.nOvf], _, o', ?_, R', hpos, by simp, by simp, ?_⟩
      · simp
      · intro l hl
        simp only [List.mem_singleton] at hl
        subst hl
        show avail c n o = min (avail c n o + 1 - 1) (avail c n o + 1) ∧ 1 ≤ avail c n o + 1
        omega
  | cons l ls ih =>
    intro k o fe R n
    simp only [feedChunk, length_range']
    obtain ⟨fe', used, o', h1, R', hpos, hle, _⟩ := process_spec c hs hss R n l
    rw [h1, Option.bind_some]
    simp only [drop_range'_one]
    rw [← hpos]
    obtain ⟨fe'', logs, k'', o'', h2, R'', hpos2, hsum, hk, hall⟩ := ih R' (n - used)
    rw [h2, Option.map_some]
    refine ⟨fe'', _, k'', o'', rfl, R'', by omega, ?_, ?_, ?_⟩
    · simp only [List.map_cons, List.sum_cons, hsum]; omega
    · simp only [List.map_cons, List.sum_cons]; omega
    · intro x hx
      rcases List.mem_cons.mp hx with rfl | hx
      · show min (avail c n o) l = min (outputFrameCount c fe n - 1) l ∧ 1 ≤ outputFrameCount c fe n
        rw [outputFrameCount_eq c hs R n]; simp
      · exact hall x hx

theorem feedAll_spec (c : Cfg) (hs : 0 < c.shift) (hss : c.shift ≤ c.size) :
    ∀ (specs : List (Nat × List Nat)) {k o : Nat} {fe : Fe Nat} (_ : Rest c fe k o),
    ∃ r k' o', feedAll c fe (chunksFrom (k * c.shift + o) specs) = some r ∧ Rest c r.fe k' o' ∧
      k' * c.shift + o' = k * c.shift + o + (specs.map (·.1)).sum ∧ r.left = 0 ∧
      (r.calls.map (·.consumed)).sum = (specs.map (·.1)).sum ∧
      k' = k + (r.calls.map (·.frames)).sum ∧
      (∀ l ∈ r.calls, LogOk l) := by
  intro specs
  induction specs with
  | nil =>
    intro k o fe R
    exact ⟨_, k, o, rfl, R, by simp, rfl, by simp, by simp, by simp⟩
  | cons sp rest ih =>
    intro k o fe R
    obtain ⟨n, ls⟩ := sp
    simp only [chunksFrom, feedAll]
    obtain ⟨fe', logs, k', o', h1, R', hpos, hsum, hk, hall⟩ := feedChunk_spec c hs hss ls R n
    rw [h1, Option.bind_some, ← hpos]
    obtain ⟨r, k'', o'', h2, R'', hpos2, hleft, hsum2, hk2, hall2⟩ := ih R'
    rw [h2, Option.map_some]
    refine ⟨_, k'', o'', rfl, R'', ?_, ?_, ?_, ?_, ?_⟩
    · simp only [List.map_cons, List.sum_cons]; omega
    · show ([] : List Nat).length + r.left = 0
      rw [hleft]; rfl
    · show ((logs ++ r.calls).map (·.consumed)).sum = _
      simp only [List.map_append, List.sum_append, List.map_cons, List.sum_cons, hsum, hsum2]
    · show k'' = k + ((logs ++ r.calls).map (·.frames)).sum
      simp only [List.map_append, List.sum_append]; omega
    · intro l hl
      have hl' : l ∈ logs ++ r.calls := hl
      rcases List.mem_append.mp hl' with h | h
      · exact hall l h
      · exact hall2 l h

/-! ## end of stream and the canonical framing -/

theorem fullCount_eq {size shift k o : Nat} (hs : 0 < shift) (hlt : o < size) (hge : k = 0 ∨ size ≤ o + shift) :
    fullCount size shift (k * shift + o) = k := by
  unfold fullCount
  cases k with
  | zero => rw [if_pos (by omega)]
  | succ j =>
    have e : (j + 1) * shift = j * shift + shift := Nat.succ_mul _ _
    have hge' : size ≤ o + shift := by omega
    rw [if_neg (by omega)]
    have : ((j + 1) * shift + o - size) / shift = j := by
      rw [Nat.div_eq_iff hs]; omega
    omega

/-- the frame `fe_end` flushes when `o` samples starting at `k·shift` are pending -/
def tailFrame (shift k o : Nat) : Frame Nat :=
  Frame.mk (range' (k * shift) o) (if k = 0 then none else some (k * shift - 1))

theorem canonical_eq {size shift k o : Nat} (hs : 0 < shift) (hlt : o < size) (hge : k = 0 ∨ size ≤ o + shift) :
    canonical size shift (k * shift + o) =
      (List.range k).map (fullFrame size shift) ++ (if 0 < o then [tailFrame shift k o] else []) := by
  simp only [canonical, fullCount_eq hs hlt hge, tailFrame]
  by_cases ho : 0 < o
  · rw [if_pos (by omega), if_pos ho, show k * shift + o - k * shift = o by omega]
  · rw [if_neg (by omega), if_neg ho]

theorem finish_spec (c : Cfg) {k o : Nat} {fe : Fe Nat} (R : Rest c fe k o) (e : Nat) (he : 0 < e) :
    ∃ fe', finish c fe e = some (fe', if 0 < o then 1 else 0) ∧
      fe'.out = (List.range k).map (fullFrame c.size c.shift) ++ (if 0 < o then [tailFrame c.shift k o] else []) ∧
      fe'.nOvf = 0 := by
  have hle := R.le
  simp only [finish, R.novf]
  by_cases ho : 0 < o
  · rw [if_pos ⟨he, by omega⟩, if_pos ho, if_pos ho, Int.toNat_natCast, Nat.min_eq_left (by omega), R.ovf,
      rd_range' (by omega), Option.map_some]
    refine ⟨_, rfl, ?_, rfl⟩
    show fe.out ++ [Frame.mk ((range' (k * c.shift + 0) o).take (range' (k * c.shift + 0) o).length) fe.prior] = _
    rw [List.take_length, R.out, R.prior, Nat.add_zero]
    rfl
  · rw [if_neg (by omega), if_neg ho, if_neg ho]
    exact ⟨_, rfl, by simp [R.out], rfl⟩

theorem rest_start (c : Cfg) (hs : 0 < c.shift) (hss : c.shift ≤ c.size) : Rest c (start : Fe Nat) 0 0 :=
  ⟨rfl, rfl, by have := slack_le_one c; omega, Or.inl rfl, rfl, rfl⟩

/-- the whole utterance, for both variants of the code (`slack` 0 or 1) -/
theorem run_spec (c : Cfg) (hs : 0 < c.shift) (hss : c.shift ≤ c.size) (specs : List (Nat × List Nat))
    (e : Nat) (he : 0 < e) :
    ∃ r nend k o, run c (chunksFrom 0 specs) e = some (r, nend) ∧
      k * c.shift + o = (specs.map (·.1)).sum ∧ o + c.slack ≤ c.size ∧ (k = 0 ∨ c.size ≤ o + c.shift) ∧
      r.fe.out = (List.range k).map (fullFrame c.size c.shift) ++ (if 0 < o then [tailFrame c.shift k o] else []) ∧
      nend = (if 0 < o then 1 else 0) ∧ r.fe.nOvf = 0 ∧ r.left = 0 ∧
      (r.calls.map (·.consumed)).sum = (specs.map (·.1)).sum ∧
      k = (r.calls.map (·.frames)).sum ∧
      (∀ l ∈ r.calls, LogOk l) := by
  obtain ⟨r, k, o, h1, R, hpos, hleft, hsum, hk, hall⟩ := feedAll_spec c hs hss specs (rest_start c hs hss)
  obtain ⟨fe', h2, hout, hn⟩ := finish_spec c R e he
  simp only [Nat.zero_mul, Nat.add_zero, Nat.zero_add] at h1 hpos hk
  simp only [run]
  rw [h1, Option.bind_some, h2, Option.map_some]
  exact ⟨_, _, k, o, rfl, hpos, R.le, R.ge, hout, rfl, hn, hleft, hsum, hk, hall⟩

end SSVerif.FeBuf
