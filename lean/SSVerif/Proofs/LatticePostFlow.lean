import Mathlib.Data.Real.Basic
import Mathlib.Tactic.Linarith
import Mathlib.Tactic.Ring
import SSVerif.Proofs.LatticeSemiring
/-! exact forward/backward on the lattice with REAL link weights (port of the natural-number flow
theory of `LatticeSemiring.lean`): for non-negative weights the forward total equals the backward
total and `alpha · beta ≤ total` for every link. -/
namespace SSVerif.Lattice

noncomputable section

variable {L : Lat}

/-! ### finite sums over lists, real-valued -/

/-- `SR xs f = Σ_{x ∈ xs} f x` over ℝ -/
def SR {α : Type} (xs : List α) (f : α → ℝ) : ℝ := (xs.map f).sum

theorem SR_nil {α : Type} (f : α → ℝ) : SR [] f = 0 := by
  simp [SR]

theorem SR_cons {α : Type} (x : α) (xs : List α) (f : α → ℝ) : SR (x :: xs) f = f x + SR xs f := by
  simp [SR]

theorem SR_append {α : Type} (xs ys : List α) (f : α → ℝ) : SR (xs ++ ys) f = SR xs f + SR ys f := by
  induction xs with
  | nil => rw [List.nil_append, SR_nil, zero_add]
  | cons x xs ih => rw [List.cons_append, SR_cons, SR_cons, ih, add_assoc]

theorem SR_congr {α : Type} {xs : List α} {f g : α → ℝ} (h : ∀ x ∈ xs, f x = g x) : SR xs f = SR xs g := by
  induction xs with
  | nil => rw [SR_nil, SR_nil]
  | cons x xs ih =>
    rw [SR_cons, SR_cons, h x List.mem_cons_self, ih (fun y hy => h y (List.mem_cons_of_mem _ hy))]

theorem SR_zero {α : Type} (xs : List α) : SR xs (fun _ => (0 : ℝ)) = 0 := by
  induction xs with
  | nil => exact SR_nil _
  | cons x xs ih => rw [SR_cons, ih, add_zero]

theorem SR_eq_zero {α : Type} {xs : List α} {f : α → ℝ} (h : ∀ x ∈ xs, f x = 0) : SR xs f = 0 := by
  rw [SR_congr h, SR_zero]

theorem SR_add {α : Type} (xs : List α) (f g : α → ℝ) : SR xs (fun x => f x + g x) = SR xs f + SR xs g := by
  induction xs with
  | nil => simp [SR_nil]
  | cons x xs ih => rw [SR_cons, SR_cons, SR_cons, ih]; ring

theorem SR_mul_left {α : Type} (xs : List α) (c : ℝ) (f : α → ℝ) : SR xs (fun x => c * f x) = c * SR xs f := by
  induction xs with
  | nil => simp [SR_nil]
  | cons x xs ih => rw [SR_cons, SR_cons, ih, mul_add]

theorem SR_mul_right {α : Type} (xs : List α) (c : ℝ) (f : α → ℝ) : SR xs (fun x => f x * c) = SR xs f * c := by
  induction xs with
  | nil => simp [SR_nil]
  | cons x xs ih => rw [SR_cons, SR_cons, ih, add_mul]

theorem SR_comm {α β : Type} (xs : List α) (ys : List β) (f : α → β → ℝ) :
    SR xs (fun x => SR ys (fun y => f x y)) = SR ys (fun y => SR xs (fun x => f x y)) := by
  induction xs with
  | nil => simp [SR_nil, SR_zero]
  | cons x xs ih =>
    rw [SR_cons, ih]
    have : SR ys (fun y => SR (x :: xs) (fun x => f x y)) = SR ys (fun y => f x y + SR xs (fun x => f x y)) :=
      SR_congr (fun y _ => SR_cons x xs _)
    rw [this, SR_add]

theorem SR_nonneg {α : Type} {xs : List α} {f : α → ℝ} (h : ∀ x ∈ xs, 0 ≤ f x) : 0 ≤ SR xs f := by
  induction xs with
  | nil => rw [SR_nil]
  | cons x xs ih =>
    rw [SR_cons]
    have h1 := h x List.mem_cons_self
    have h2 := ih (fun y hy => h y (List.mem_cons_of_mem _ hy))
    linarith

/-- one summand is at most the sum when all summands are non-negative -/
theorem SR_le_of_mem {α : Type} {xs : List α} {x : α} (hx : x ∈ xs) {f : α → ℝ} (hnn : ∀ y ∈ xs, 0 ≤ f y) :
    f x ≤ SR xs f := by
  induction xs with
  | nil => cases hx
  | cons y ys ih =>
    rw [SR_cons]
    have h1 := hnn y List.mem_cons_self
    have h2 : 0 ≤ SR ys f := SR_nonneg (fun z hz => hnn z (List.mem_cons_of_mem _ hz))
    rcases List.mem_cons.1 hx with rfl | h
    · linarith
    · have := ih h (fun z hz => hnn z (List.mem_cons_of_mem _ hz)); linarith

theorem SR_le_SR {α : Type} {xs : List α} {f g : α → ℝ} (h : ∀ x ∈ xs, f x ≤ g x) : SR xs f ≤ SR xs g := by
  induction xs with
  | nil => rw [SR_nil, SR_nil]
  | cons x xs ih =>
    rw [SR_cons, SR_cons]
    have h1 := h x List.mem_cons_self
    have h2 := ih (fun y hy => h y (List.mem_cons_of_mem _ hy))
    linarith

/-- the sum does not depend on the order of the list -/
theorem SR_perm {α : Type} {xs ys : List α} {f : α → ℝ} (h : xs.Perm ys) : SR xs f = SR ys f := by
  induction h with
  | nil => rfl
  | cons x _ ih => rw [SR_cons, SR_cons, ih]
  | swap x y l => rw [SR_cons, SR_cons, SR_cons, SR_cons]; ring
  | trans _ _ ih1 ih2 => rw [ih1, ih2]

/-- `Σ_{v < n} [d = v] g v = g d` for `d < n` -/
theorem SR_range_pick (n d : Nat) (hd : d < n) (g : Nat → ℝ) :
    SR (List.range n) (fun v => if d = v then g v else 0) = g d := by
  induction n with
  | zero => omega
  | succ n ih =>
    rw [List.range_succ, SR_append, SR_cons, SR_nil]
    by_cases h : d = n
    · subst h
      have : SR (List.range d) (fun v => if d = v then g v else 0) = 0 := by
        apply SR_eq_zero
        intro v hv
        have : v < d := List.mem_range.1 hv
        rw [if_neg (by omega)]
      rw [this, if_pos rfl]; ring
    · rw [ih (by omega), if_neg h]; ring

theorem SR_range_pick' (n d : Nat) (hd : d < n) (g : Nat → ℝ) :
    SR (List.range n) (fun v => if v = d then g v else 0) = g d := by
  rw [← SR_range_pick n d hd g]
  apply SR_congr; intro v _
  by_cases h : v = d
  · rw [if_pos h, if_pos h.symm]
  · rw [if_neg h, if_neg (fun h' => h h'.symm)]

/-- sum over a filtered list = sum with an indicator -/
theorem SR_filter {α : Type} (xs : List α) (p : α → Bool) (f : α → ℝ) :
    SR (xs.filter p) f = SR xs (fun x => if p x then f x else 0) := by
  induction xs with
  | nil => rfl
  | cons x xs ih =>
    rw [List.filter_cons, SR_cons]
    cases hp : p x
    · simp only [Bool.false_eq_true, if_false]; rw [ih, zero_add]
    · simp only [if_true]; rw [SR_cons, ih]

theorem SR_entries (v : Nat) (f : Link → ℝ) :
    SR (entries L v) f = SR L.links (fun l => if l.dst = v then f l else 0) := by
  unfold entries
  rw [SR_filter]
  apply SR_congr; intro l _
  by_cases h : l.dst = v <;> simp [h]

theorem SR_exits (v : Nat) (f : Link → ℝ) :
    SR (exits L v) f = SR L.links (fun l => if l.src = v then f l else 0) := by
  unfold exits
  rw [SR_filter]
  apply SR_congr; intro l _
  by_cases h : l.src = v <;> simp [h]

/-! ### flows on a ranked graph -/

/-- forward/backward equations over ℝ -/
structure FwdBwdR (L : Lat) (w A B : Link → ℝ) : Prop where
  fwd : ∀ l ∈ L.links, A l = w l * ((if l.src = L.start then 1 else 0) + SR (entries L l.src) A)
  bwd : ∀ l ∈ L.links, B l = (if l.dst = L.final then 1 else 0) + SR (exits L l.dst) (fun x => w x * B x)

/-- forward total: `Σ_{x into end} A x`; backward total: `Σ_{x out of start} w x · B x` -/
def ZfR (L : Lat) (A : Link → ℝ) : ℝ := SR (entries L L.final) A
def ZbR (L : Lat) (w B : Link → ℝ) : ℝ := SR (exits L L.start) (fun x => w x * B x)

section flow
variable {w A B : Link → ℝ} (rank : Nat → Nat)

def cutR (L : Lat) (A B : Link → ℝ) (rank : Nat → Nat) (r : Nat) : ℝ :=
  SR L.links (fun l => if rank l.src < r ∧ r ≤ rank l.dst then A l * B l else 0)

/-- flow into / out of a node -/
def inflowR (L : Lat) (A B : Link → ℝ) (v : Nat) : ℝ := SR L.links (fun l => if l.dst = v then A l * B l else 0)
def outflowR (L : Lat) (A B : Link → ℝ) (v : Nat) : ℝ := SR L.links (fun l => if l.src = v then A l * B l else 0)

/-- conservation at every node, with the totals as source and sink terms -/
theorem node_balanceR (h : FwdBwdR L w A B) (v : Nat) :
    inflowR L A B v + (if v = L.start then ZbR L w B else 0) = outflowR L A B v + (if v = L.final then ZfR L A else 0) := by
  have hin : inflowR L A B v = SR (entries L v) A * ((if v = L.final then 1 else 0) + SR (exits L v) (fun x => w x * B x)) := by
    unfold inflowR
    rw [← SR_mul_right, SR_entries]
    apply SR_congr
    intro l hl
    by_cases hd : l.dst = v
    · rw [if_pos hd, if_pos hd, h.bwd l hl, hd]
    · rw [if_neg hd, if_neg hd]
  have hout : outflowR L A B v = ((if v = L.start then 1 else 0) + SR (entries L v) A) * SR (exits L v) (fun x => w x * B x) := by
    unfold outflowR
    rw [← SR_mul_left, SR_exits]
    apply SR_congr
    intro l hl
    by_cases hs : l.src = v
    · rw [if_pos hs, if_pos hs, h.fwd l hl, hs]
      ring
    · rw [if_neg hs, if_neg hs]
  rw [hin, hout]
  by_cases hs : v = L.start <;> by_cases hf : v = L.final
  · subst hs
    simp only [if_true, hf, ZbR, ZfR]
    rw [← hf]
    ring
  · subst hs
    simp only [if_true, if_neg hf, ZbR]
    ring
  · subst hf
    simp only [if_true, if_neg hs, ZfR]
    ring
  · simp only [if_neg hs, if_neg hf, zero_add, add_zero]

/-- flow entering / leaving the nodes of one rank -/
def levelInR (L : Lat) (A B : Link → ℝ) (rank : Nat → Nat) (r : Nat) : ℝ :=
  SR L.links (fun l => if rank l.dst = r then A l * B l else 0)
def levelOutR (L : Lat) (A B : Link → ℝ) (rank : Nat → Nat) (r : Nat) : ℝ :=
  SR L.links (fun l => if rank l.src = r then A l * B l else 0)

theorem levelInR_eq (hv : ∀ l ∈ L.links, l.dst < L.n) (r : Nat) :
    levelInR L A B rank r = SR (List.range L.n) (fun v => if rank v = r then inflowR L A B v else 0) := by
  unfold levelInR inflowR
  have : SR (List.range L.n) (fun v => if rank v = r then SR L.links (fun l => if l.dst = v then A l * B l else 0) else 0)
      = SR (List.range L.n) (fun v => SR L.links (fun l => if l.dst = v then (if rank v = r then A l * B l else 0) else 0)) := by
    apply SR_congr; intro v _
    by_cases h : rank v = r
    · rw [if_pos h]; apply SR_congr; intro l _; simp [h]
    · rw [if_neg h]; symm; apply SR_eq_zero; intro l _; simp [h]
  rw [this, SR_comm]
  apply SR_congr
  intro l hl
  exact (SR_range_pick L.n l.dst (hv l hl) (fun v => if rank v = r then A l * B l else 0)).symm

theorem levelOutR_eq (hv : ∀ l ∈ L.links, l.src < L.n) (r : Nat) :
    levelOutR L A B rank r = SR (List.range L.n) (fun v => if rank v = r then outflowR L A B v else 0) := by
  unfold levelOutR outflowR
  have : SR (List.range L.n) (fun v => if rank v = r then SR L.links (fun l => if l.src = v then A l * B l else 0) else 0)
      = SR (List.range L.n) (fun v => SR L.links (fun l => if l.src = v then (if rank v = r then A l * B l else 0) else 0)) := by
    apply SR_congr; intro v _
    by_cases h : rank v = r
    · rw [if_pos h]; apply SR_congr; intro l _; simp [h]
    · rw [if_neg h]; symm; apply SR_eq_zero; intro l _; simp [h]
  rw [this, SR_comm]
  apply SR_congr
  intro l hl
  exact (SR_range_pick L.n l.src (hv l hl) (fun v => if rank v = r then A l * B l else 0)).symm

/-- conservation per rank level -/
theorem level_balanceR (h : FwdBwdR L w A B) (hsrc : ∀ l ∈ L.links, l.src < L.n) (hdst : ∀ l ∈ L.links, l.dst < L.n)
    (hs : L.start < L.n) (hf : L.final < L.n) (r : Nat) :
    levelInR L A B rank r + (if rank L.start = r then ZbR L w B else 0)
      = levelOutR L A B rank r + (if rank L.final = r then ZfR L A else 0) := by
  rw [levelInR_eq rank hdst, levelOutR_eq rank hsrc]
  have e1 : (if rank L.start = r then ZbR L w B else 0)
      = SR (List.range L.n) (fun v => if v = L.start then (if rank v = r then ZbR L w B else 0) else 0) :=
    (SR_range_pick' L.n L.start hs (fun v => if rank v = r then ZbR L w B else 0)).symm
  have e2 : (if rank L.final = r then ZfR L A else 0)
      = SR (List.range L.n) (fun v => if v = L.final then (if rank v = r then ZfR L A else 0) else 0) :=
    (SR_range_pick' L.n L.final hf (fun v => if rank v = r then ZfR L A else 0)).symm
  rw [e1, e2, ← SR_add, ← SR_add]
  apply SR_congr
  intro v _
  have := node_balanceR h v
  by_cases hr : rank v = r
  · simp only [if_pos hr]
    exact this
  · simp [hr]

/-- moving the cut by one rank level -/
theorem cutR_succ (hrank : ∀ l ∈ L.links, rank l.src < rank l.dst) (r : Nat) :
    cutR L A B rank (r + 1) + levelInR L A B rank r = cutR L A B rank r + levelOutR L A B rank r := by
  unfold cutR levelInR levelOutR
  rw [← SR_add, ← SR_add]
  apply SR_congr
  intro l hl
  have := hrank l hl
  generalize A l * B l = c
  by_cases h1 : rank l.dst = r
  · rw [if_neg (by omega), if_pos h1, if_pos (by omega), if_neg (by omega)]; ring
  · by_cases h2 : rank l.src = r
    · rw [if_pos (by omega), if_neg h1, if_neg (by omega), if_pos h2]; ring
    · rw [if_neg h1, if_neg h2]
      by_cases h3 : rank l.src < r ∧ r ≤ rank l.dst
      · rw [if_pos (by omega), if_pos h3]
      · rw [if_neg (by omega), if_neg h3]

theorem ite_lt_succR (x r : Nat) (c : ℝ) :
    (if x < r + 1 then c else 0) = (if x < r then c else 0) + (if x = r then c else 0) := by
  by_cases h1 : x < r
  · rw [if_pos (by omega), if_pos h1, if_neg (by omega)]; ring
  · by_cases h2 : x = r
    · rw [if_pos (by omega), if_neg h1, if_pos h2]; ring
    · rw [if_neg (by omega), if_neg h1, if_neg h2]; ring

/-- the cut identity -/
theorem cutR_identity (h : FwdBwdR L w A B) (hrank : ∀ l ∈ L.links, rank l.src < rank l.dst)
    (hsrc : ∀ l ∈ L.links, l.src < L.n) (hdst : ∀ l ∈ L.links, l.dst < L.n)
    (hs : L.start < L.n) (hf : L.final < L.n) :
    ∀ r, cutR L A B rank r + (if rank L.final < r then ZfR L A else 0) = (if rank L.start < r then ZbR L w B else 0) := by
  intro r
  induction r with
  | zero =>
    have : cutR L A B rank 0 = 0 := by
      unfold cutR
      apply SR_eq_zero; intro l _; rw [if_neg (by omega)]
    simp [this]
  | succ r ih =>
    have h1 := cutR_succ (A := A) (B := B) rank hrank r
    have h2 := level_balanceR rank h hsrc hdst hs hf r
    rw [ite_lt_succR, ite_lt_succR]
    generalize (if rank L.final < r then ZfR L A else 0) = a1 at ih ⊢
    generalize (if rank L.final = r then ZfR L A else 0) = a2 at h2 ⊢
    generalize (if rank L.start < r then ZbR L w B else 0) = b1 at ih ⊢
    generalize (if rank L.start = r then ZbR L w B else 0) = b2 at h2 ⊢
    linarith

/-- **forward total = backward total** -/
theorem fwd_eq_bwdR (h : FwdBwdR L w A B) (hrank : ∀ l ∈ L.links, rank l.src < rank l.dst)
    (hsrc : ∀ l ∈ L.links, l.src < L.n) (hdst : ∀ l ∈ L.links, l.dst < L.n)
    (hs : L.start < L.n) (hf : L.final < L.n) : ZfR L A = ZbR L w B := by
  -- a rank above everything: the cut is empty
  have hM : ∀ l ∈ L.links, rank l.dst < S L.links (fun l => rank l.dst) + rank L.start + rank L.final + 1 := by
    intro l hl
    have := S_le_of_mem hl (fun l => rank l.dst)
    omega
  generalize hMd : S L.links (fun l => rank l.dst) + rank L.start + rank L.final + 1 = M at hM
  have hcut : cutR L A B rank M = 0 := by
    unfold cutR
    apply SR_eq_zero; intro l hl
    have := hM l hl
    rw [if_neg (by omega)]
  have := cutR_identity rank h hrank hsrc hdst hs hf M
  rw [hcut, if_pos (by omega), if_pos (by omega)] at this
  linarith

/-- every cut is non-negative when all link flows are -/
theorem cutR_nonneg (hnn : ∀ l ∈ L.links, 0 ≤ A l * B l) (r : Nat) : 0 ≤ cutR L A B rank r := by
  unfold cutR
  apply SR_nonneg
  intro l hl
  split
  · exact hnn l hl
  · exact le_refl _

/-- forward weights vanish on links that leave a node ranked below the start node -/
theorem fwd_zero_before_start (h : FwdBwdR L w A B) (hrank : ∀ l ∈ L.links, rank l.src < rank l.dst) :
    ∀ n, ∀ l ∈ L.links, rank l.src < n → rank l.src < rank L.start → A l = 0 := by
  intro n
  induction n with
  | zero => intro l _ h0; omega
  | succ n ih =>
    intro l hl hn hlt
    rw [h.fwd l hl]
    have hne : l.src ≠ L.start := by
      intro e; rw [e] at hlt; omega
    have hz : SR (entries L l.src) A = 0 := by
      apply SR_eq_zero
      intro x hx
      have hm := mem_entries.1 hx
      have := hrank x hm.1
      rw [hm.2] at this
      exact ih x hm.1 (by omega) (by omega)
    rw [if_neg hne, hz]; ring

/-- the totals are non-negative when all link flows are -/
theorem ZbR_nonneg (h : FwdBwdR L w A B) (hnn : ∀ l ∈ L.links, 0 ≤ A l * B l)
    (hrank : ∀ l ∈ L.links, rank l.src < rank l.dst)
    (hsrc : ∀ l ∈ L.links, l.src < L.n) (hdst : ∀ l ∈ L.links, l.dst < L.n)
    (hs : L.start < L.n) (hf : L.final < L.n) : 0 ≤ ZbR L w B := by
  by_cases hlt : rank L.start < rank L.final
  · have := cutR_identity rank h hrank hsrc hdst hs hf (rank L.start + 1)
    rw [if_neg (by omega), if_pos (by omega)] at this
    have hc := cutR_nonneg (A := A) (B := B) rank hnn (rank L.start + 1)
    linarith
  · rw [← fwd_eq_bwdR rank h hrank hsrc hdst hs hf]
    have : ZfR L A = 0 := by
      unfold ZfR
      apply SR_eq_zero
      intro x hx
      have hm := mem_entries.1 hx
      have := hrank x hm.1
      rw [hm.2] at this
      exact fwd_zero_before_start rank h hrank (rank x.src + 1) x hm.1 (by omega) (by omega)
    rw [this]

/-- **`alpha · beta ≤ total` for every link** (link posterior at most one) -/
theorem link_flow_leR (h : FwdBwdR L w A B) (hnn : ∀ l ∈ L.links, 0 ≤ A l * B l)
    (hrank : ∀ l ∈ L.links, rank l.src < rank l.dst)
    (hsrc : ∀ l ∈ L.links, l.src < L.n) (hdst : ∀ l ∈ L.links, l.dst < L.n)
    (hs : L.start < L.n) (hf : L.final < L.n) {l : Link} (hl : l ∈ L.links) : A l * B l ≤ ZbR L w B := by
  have hid := cutR_identity rank h hrank hsrc hdst hs hf (rank l.dst)
  have hZb := ZbR_nonneg rank h hnn hrank hsrc hdst hs hf
  have hZf : 0 ≤ ZfR L A := by rw [fwd_eq_bwdR rank h hrank hsrc hdst hs hf]; exact hZb
  have hmem : A l * B l ≤ cutR L A B rank (rank l.dst) := by
    unfold cutR
    have := SR_le_of_mem hl
      (f := fun l' => if rank l'.src < rank l.dst ∧ rank l.dst ≤ rank l'.dst then A l' * B l' else 0)
      (by
        intro y hy
        show 0 ≤ (if rank y.src < rank l.dst ∧ rank l.dst ≤ rank y.dst then A y * B y else 0)
        split
        · exact hnn y hy
        · exact le_refl _)
    rw [if_pos ⟨hrank l hl, Nat.le_refl _⟩] at this
    exact this
  have h1 : 0 ≤ (if rank L.final < rank l.dst then ZfR L A else 0) := by
    split
    · exact hZf
    · exact le_refl _
  have h2 : (if rank L.start < rank l.dst then ZbR L w B else 0) ≤ ZbR L w B := by
    split
    · exact le_refl _
    · exact hZb
  linarith

end flow

/-! ### real-weighted forward/backward weights that solve the equations -/

/-- total weight of all paths from the start to `v` (`fuel` bounds the number of links), ℝ weights -/
def alphaNodeR (L : Lat) (w : Link → ℝ) : Nat → Nat → ℝ
  | 0, v => if v = L.start then 1 else 0
  | fuel + 1, v =>
    (if v = L.start then 1 else 0) + ((entries L v).map fun l => alphaNodeR L w fuel l.src * w l).sum

/-- total weight of all paths from `v` to the end, ℝ weights -/
def betaNodeR (L : Lat) (w : Link → ℝ) : Nat → Nat → ℝ
  | 0, v => if v = L.final then 1 else 0
  | fuel + 1, v =>
    (if v = L.final then 1 else 0) + ((exits L v).map fun l => w l * betaNodeR L w fuel l.dst).sum

def alphaLinkR (L : Lat) (w : Link → ℝ) (l : Link) : ℝ := alphaNodeR L w (L.nframes + 2) l.src * w l
def betaLinkR (L : Lat) (w : Link → ℝ) (l : Link) : ℝ := betaNodeR L w (L.nframes + 2) l.dst

section model
variable {w : Link → ℝ} {rank : Nat → Nat}

theorem betaNodeR_zero (v : Nat) : betaNodeR L w 0 v = (if v = L.final then 1 else 0) := rfl

theorem alphaNodeR_zero (v : Nat) : alphaNodeR L w 0 v = (if v = L.start then 1 else 0) := rfl

theorem betaNodeR_succ (f v : Nat) :
    betaNodeR L w (f + 1) v = (if v = L.final then 1 else 0) + SR (exits L v) (fun l => w l * betaNodeR L w f l.dst) := rfl

theorem alphaNodeR_succ (f v : Nat) :
    alphaNodeR L w (f + 1) v = (if v = L.start then 1 else 0) + SR (entries L v) (fun l => alphaNodeR L w f l.src * w l) := rfl

theorem betaNodeR_stable (hrank : ∀ l ∈ L.links, rank l.src < rank l.dst) (M : Nat)
    (hM : ∀ l ∈ L.links, rank l.src < M) :
    ∀ (f v : Nat), M ≤ f + rank v → betaNodeR L w (f + 1) v = betaNodeR L w f v := by
  intro f
  induction f with
  | zero =>
    intro v hv
    rw [betaNodeR_succ]
    have hex : exits L v = [] := by
      rw [List.eq_nil_iff_forall_not_mem]
      intro x hx
      have := hM x (mem_exits.1 hx).1
      rw [(mem_exits.1 hx).2] at this
      omega
    rw [hex, SR_nil, add_zero, betaNodeR_zero]
  | succ f ih =>
    intro v hv
    rw [betaNodeR_succ, betaNodeR_succ]
    congr 1
    apply SR_congr
    intro x hx
    have := hrank x (mem_exits.1 hx).1
    rw [(mem_exits.1 hx).2] at this
    rw [ih x.dst (by omega)]

theorem alphaNodeR_stable (hrank : ∀ l ∈ L.links, rank l.src < rank l.dst) :
    ∀ (f v : Nat), rank v ≤ f → alphaNodeR L w (f + 1) v = alphaNodeR L w f v := by
  intro f
  induction f with
  | zero =>
    intro v hv
    rw [alphaNodeR_succ]
    have hen : entries L v = [] := by
      rw [List.eq_nil_iff_forall_not_mem]
      intro x hx
      have := hrank x (mem_entries.1 hx).1
      rw [(mem_entries.1 hx).2] at this
      omega
    rw [hen, SR_nil, add_zero, alphaNodeR_zero]
  | succ f ih =>
    intro v hv
    rw [alphaNodeR_succ, alphaNodeR_succ]
    congr 1
    apply SR_congr
    intro x hx
    have := hrank x (mem_entries.1 hx).1
    rw [(mem_entries.1 hx).2] at this
    rw [ih x.src (by omega)]

/-- the real forward/backward weights satisfy the equations -/
theorem model_fwdBwdR (hrank : ∀ l ∈ L.links, rank l.src < rank l.dst)
    (hM : ∀ l ∈ L.links, rank l.dst ≤ L.nframes + 1) :
    FwdBwdR L w (alphaLinkR L w) (betaLinkR L w) where
  fwd := by
    intro l hl
    have h1 := hrank l hl
    have h2 := hM l hl
    show alphaNodeR L w (L.nframes + 2) l.src * w l = _
    rw [← alphaNodeR_stable (w := w) hrank (L.nframes + 2) l.src (by omega), alphaNodeR_succ]
    exact mul_comm _ _
  bwd := by
    intro l hl
    show betaNodeR L w (L.nframes + 2) l.dst = _
    rw [← betaNodeR_stable (w := w) hrank (L.nframes + 2) (fun x hx => by have := hrank x hx; have := hM x hx; omega)
      (L.nframes + 2) l.dst (by omega), betaNodeR_succ]
    rfl

theorem alphaNodeR_nonneg (hw : ∀ l, 0 ≤ w l) : ∀ (f v : Nat), 0 ≤ alphaNodeR L w f v := by
  intro f
  induction f with
  | zero =>
    intro v
    rw [alphaNodeR_zero]
    split
    · exact zero_le_one
    · exact le_refl _
  | succ f ih =>
    intro v
    rw [alphaNodeR_succ]
    have h1 : (0 : ℝ) ≤ (if v = L.start then 1 else 0) := by
      split
      · exact zero_le_one
      · exact le_refl _
    have h2 : 0 ≤ SR (entries L v) (fun l => alphaNodeR L w f l.src * w l) :=
      SR_nonneg (fun l _ => mul_nonneg (ih l.src) (hw l))
    linarith

theorem betaNodeR_nonneg (hw : ∀ l, 0 ≤ w l) : ∀ (f v : Nat), 0 ≤ betaNodeR L w f v := by
  intro f
  induction f with
  | zero =>
    intro v
    rw [betaNodeR_zero]
    split
    · exact zero_le_one
    · exact le_refl _
  | succ f ih =>
    intro v
    rw [betaNodeR_succ]
    have h1 : (0 : ℝ) ≤ (if v = L.final then 1 else 0) := by
      split
      · exact zero_le_one
      · exact le_refl _
    have h2 : 0 ≤ SR (exits L v) (fun l => w l * betaNodeR L w f l.dst) :=
      SR_nonneg (fun l _ => mul_nonneg (hw l) (ih l.dst))
    linarith

theorem alphaLinkR_nonneg (hw : ∀ l, 0 ≤ w l) (l : Link) : 0 ≤ alphaLinkR L w l :=
  mul_nonneg (alphaNodeR_nonneg hw _ _) (hw l)

theorem betaLinkR_nonneg (hw : ∀ l, 0 ≤ w l) (l : Link) : 0 ≤ betaLinkR L w l :=
  betaNodeR_nonneg hw _ _

end model

/-- packaged: for every lattice satisfying the C11 predicate and non-negative real weights there are
exact forward/backward link weights solving the equations, non-negative, forward total = backward
total, and `alpha · beta ≤ total` for every link -/
theorem exact_real_fwdBwd {G : SSVerif.Nfa.Nfa} (ok : LatticeOK G L) (w : Link → ℝ) (hw : ∀ l, 0 ≤ w l) :
    ∃ A B : Link → ℝ, FwdBwdR L w A B ∧ (∀ l, 0 ≤ A l) ∧ (∀ l, 0 ≤ B l) ∧
      ZfR L A = ZbR L w B ∧ ∀ l ∈ L.links, A l * B l ≤ ZfR L A := by
  have hrank : ∀ l ∈ L.links, L.rank l.src < L.rank l.dst := fun l hl => rank_lt ok hl
  have hM : ∀ l ∈ L.links, L.rank l.dst ≤ L.nframes + 1 := fun l hl => rank_le ok (ok.endpoints.2.2 l hl).2
  have hsrc : ∀ l ∈ L.links, l.src < L.n := fun l hl => (ok.endpoints.2.2 l hl).1
  have hdst : ∀ l ∈ L.links, l.dst < L.n := fun l hl => (ok.endpoints.2.2 l hl).2
  have hfb : FwdBwdR L w (alphaLinkR L w) (betaLinkR L w) := model_fwdBwdR hrank hM
  have hA : ∀ l, 0 ≤ alphaLinkR L w l := alphaLinkR_nonneg hw
  have hB : ∀ l, 0 ≤ betaLinkR L w l := betaLinkR_nonneg hw
  have heq := fwd_eq_bwdR L.rank hfb hrank hsrc hdst ok.endpoints.1 ok.endpoints.2.1
  refine ⟨alphaLinkR L w, betaLinkR L w, hfb, hA, hB, heq, ?_⟩
  intro l hl
  rw [heq]
  exact link_flow_leR L.rank hfb (fun x _ => mul_nonneg (hA x) (hB x)) hrank hsrc hdst
    ok.endpoints.1 ok.endpoints.2.1 hl

end

end SSVerif.Lattice
