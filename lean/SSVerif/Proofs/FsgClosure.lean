import SSVerif.Proofs.Fsg
/-!
# The null-closure loop reaches its fixpoint, and the fixpoint is the all-pairs best null path

Bellman–Ford argument for `fsg_model_null_trans_closure` (model: `closureLoop`):
after pass `p` every simple null path of the input with at most `p + 1` links is dominated by a
null link; simple paths have at most as many links as the input has null links; after that no
pass can change anything.  Consequences: the fuel `closureFuel` suffices (`closureRun_converged`),
the result is closed (`closure_closed`), closing again changes nothing, and the null links of the
result are exactly the best null-path weights of the input (`closure_lookup_iff`), hence do not
depend on the order in which the C code iterates its hash tables.
-/
namespace SSVerif.Fsg

variable {z : Int}

/-! ### list lemmas about `raiseFirst` and `find?` -/

theorem find?_raiseFirst_same {p : Link → Bool} {lp : Int} (hp : ∀ l x, p { l with logp := x } = p l) :
    ∀ ls : List Link, (raiseFirst p lp ls).find? p = (ls.find? p).map fun l => { l with logp := lp }
  | [] => rfl
  | l :: ls => by
    by_cases h : p l = true
    · simp [raiseFirst, h, List.find?, hp]
    · have h' : p l = false := by simpa using h
      simp [raiseFirst, h', List.find?, find?_raiseFirst_same hp ls]

theorem find?_raiseFirst_other {p q : Link → Bool} {lp : Int} (hpq : ∀ l, p l = true → q l = false)
    (hq : ∀ l x, q { l with logp := x } = q l) :
    ∀ ls : List Link, (raiseFirst p lp ls).find? q = ls.find? q
  | [] => rfl
  | l :: ls => by
    by_cases h : p l = true
    · have : q l = false := hpq l h
      simp [raiseFirst, h, List.find?, hq, this]
    · have h' : p l = false := by simpa using h
      simp [raiseFirst, h', List.find?, find?_raiseFirst_other hpq hq ls]

theorem isNullAt_logp (a c : Nat) (l : Link) (x : Int) : Link.isNullAt a c { l with logp := x } = Link.isNullAt a c l := rfl

theorem isNullAt_disj {a c a' c' : Nat} (h : ¬(a = a' ∧ c = c')) (l : Link) (hl : Link.isNullAt a c l = true) :
    Link.isNullAt a' c' l = false := by
  have := isNullAt_iff.1 hl
  cases hx : Link.isNullAt a' c' l with
  | false => rfl
  | true =>
    have h2 := isNullAt_iff.1 hx
    exact absurd ⟨this.2.1.symm.trans h2.2.1, this.2.2.symm.trans h2.2.2⟩ h

/-! ### monotonicity of look-ups -/

def LookupMono (g g' : Fsg) : Prop :=
  ∀ a c v, nullLookup g a c = some v → ∃ v', nullLookup g' a c = some v' ∧ v ≤ v'

theorem LookupMono.refl (g : Fsg) : LookupMono g g := fun _ _ v h => ⟨v, h, Int.le_refl _⟩

theorem LookupMono.trans {a b c : Fsg} (h1 : LookupMono a b) (h2 : LookupMono b c) : LookupMono a c := by
  intro x y v h
  obtain ⟨v1, e1, l1⟩ := h1 x y v h
  obtain ⟨v2, e2, l2⟩ := h2 x y v1 e1
  exact ⟨v2, e2, Int.le_trans l1 l2⟩

theorem nullAdd_lookupMono (g : Fsg) (a c : Nat) (lp : Int) : LookupMono g (nullAdd g a c lp).1 := by
  unfold nullAdd
  split
  · exact LookupMono.refl g
  · cases hlk : nullLookup g a c with
    | none =>
      intro a' c' v h
      refine ⟨v, ?_, Int.le_refl _⟩
      have hne : ¬(a = a' ∧ c = c') := by
        rintro ⟨rfl, rfl⟩; rw [hlk] at h; cases h
      show nullLookup { g with links := ⟨a, c, lp, none⟩ :: g.links } a' c' = some v
      unfold nullLookup at h ⊢
      have : Link.isNullAt a' c' ⟨a, c, lp, none⟩ = false :=
        isNullAt_disj hne _ (isNullAt_iff.2 ⟨rfl, rfl, rfl⟩)
      simp only [List.find?, this]; exact h
    | some old =>
      simp only
      split
      · rename_i hlt
        intro a' c' v h
        show ∃ v', nullLookup { g with links := raiseFirst (Link.isNullAt a c) lp g.links } a' c' = some v' ∧ v ≤ v'
        by_cases he : a = a' ∧ c = c'
        · obtain ⟨rfl, rfl⟩ := he
          rw [hlk] at h; cases h
          refine ⟨lp, ?_, Int.le_of_lt hlt⟩
          unfold nullLookup at hlk ⊢
          simp only
          rw [find?_raiseFirst_same (isNullAt_logp a c)]
          cases hf : g.links.find? (Link.isNullAt a c) with
          | none => simp [hf] at hlk
          | some l => simp
        · refine ⟨v, ?_, Int.le_refl _⟩
          unfold nullLookup at h ⊢
          simp only
          rw [find?_raiseFirst_other (isNullAt_disj he) (isNullAt_logp a' c')]; exact h
      · exact LookupMono.refl g

/-- after `nullAdd g a c lp` with `a ≠ c` there is a null link `a → c` at least as good as `lp` -/
theorem nullAdd_post (g : Fsg) {a c : Nat} (lp : Int) (hne : a ≠ c) :
    ∃ v, nullLookup (nullAdd g a c lp).1 a c = some v ∧ lp ≤ v := by
  unfold nullAdd
  rw [if_neg hne]
  cases hlk : nullLookup g a c with
  | none =>
    refine ⟨lp, ?_, Int.le_refl _⟩
    show nullLookup { g with links := ⟨a, c, lp, none⟩ :: g.links } a c = some lp
    unfold nullLookup
    have : Link.isNullAt a c ⟨a, c, lp, none⟩ = true := isNullAt_iff.2 ⟨rfl, rfl, rfl⟩
    simp [List.find?, this]
  | some old =>
    simp only
    split
    · refine ⟨lp, ?_, Int.le_refl _⟩
      show nullLookup { g with links := raiseFirst (Link.isNullAt a c) lp g.links } a c = some lp
      unfold nullLookup at hlk ⊢
      simp only
      rw [find?_raiseFirst_same (isNullAt_logp a c)]
      cases hf : g.links.find? (Link.isNullAt a c) with
      | none => simp [hf] at hlk
      | some l => simp
    · rename_i hge
      exact ⟨old, hlk, Int.not_lt.1 hge⟩

/-- a pass step: links dominated and look-ups monotone -/
structure Step (g g' : Fsg) : Prop where
  dom : Dom g g'
  mono : LookupMono g g'

theorem Step.refl (g : Fsg) : Step g g := ⟨Dom.refl g, LookupMono.refl g⟩
theorem Step.trans {a b c : Fsg} (h1 : Step a b) (h2 : Step b c) : Step a c :=
  ⟨h1.dom.trans h2.dom, h1.mono.trans h2.mono⟩

theorem nullAdd_step (g : Fsg) (a c : Nat) (lp : Int) : Step g (nullAdd g a c lp).1 :=
  ⟨nullAdd_dom g a c lp, nullAdd_lookupMono g a c lp⟩

theorem innerFold_step {a : Nat} {lp1 : Int} : ∀ (tl2s : List Link) (s : PassSt),
    Step s.g (tl2s.foldl (innerStep z a lp1) s).g
  | [], _ => Step.refl _
  | t :: ts, s => (nullAdd_step s.g a t.dst (satAdd z lp1 t.logp)).trans (innerFold_step ts (innerStep z a lp1 s t))

theorem outerStep_step (s : PassSt) (k : Key) : Step s.g (outerStep z s k).g := by
  unfold outerStep
  cases nullLookup s.g k.1 k.2 with
  | none => exact Step.refl _
  | some lp1 => exact innerFold_step _ _

theorem outerFold_step : ∀ (ks : List Key) (s : PassSt), Step s.g (ks.foldl (outerStep z) s).g
  | [], _ => Step.refl _
  | k :: ks, s => (outerStep_step s k).trans (outerFold_step ks _)

/-! ### what a pass achieves -/

/-- relative to the grammar `cur` at the start of the pass: the pair of null links `a → b`,
`b → c` of `cur` has been relaxed in `g'` -/
def Done (z : Int) (cur : Fsg) (a b : Nat) (g' : Fsg) : Prop :=
  ∀ v1, nullLookup cur a b = some v1 → ∀ l2 ∈ cur.links, l2.wid = none → l2.src = b → a ≠ l2.dst →
    ∃ v, nullLookup g' a l2.dst = some v ∧ satAdd z v1 l2.logp ≤ v

theorem le_satAdd (z a b : Int) : a + b ≤ satAdd z a b := by unfold satAdd; split <;> omega

theorem satAdd_ge (z a b : Int) : z ≤ satAdd z a b := by unfold satAdd; split <;> omega

theorem satAdd_mono {z a b a' b' : Int} (ha : a ≤ a') (hb : b ≤ b') : satAdd z a b ≤ satAdd z a' b' := by
  unfold satAdd; split <;> split <;> omega

theorem satAdd_le0 {z a b : Int} (hz : z ≤ 0) (ha : a ≤ 0) (hb : b ≤ 0) : satAdd z a b ≤ 0 := by
  unfold satAdd; split <;> omega

theorem Done.mono {cur g' g'' : Fsg} {a b : Nat} (h : Done z cur a b g') (m : LookupMono g' g'') : Done z cur a b g'' := by
  intro v1 h1 l2 hl2 hw hs hne
  obtain ⟨v, e, le⟩ := h v1 h1 l2 hl2 hw hs hne
  obtain ⟨v', e', le'⟩ := m _ _ _ e
  exact ⟨v', e', Int.le_trans le le'⟩

theorem innerFold_done {a : Nat} {lp1 : Int} : ∀ (tl2s : List Link) (s : PassSt),
    ∀ t ∈ tl2s, a ≠ t.dst → ∃ v, nullLookup (tl2s.foldl (innerStep z a lp1) s).g a t.dst = some v ∧ satAdd z lp1 t.logp ≤ v
  | [], _, t, ht, _ => by cases ht
  | x :: xs, s, t, ht, hne => by
    rcases List.mem_cons.1 ht with rfl | ht
    · obtain ⟨v, e, le⟩ := nullAdd_post s.g (satAdd z lp1 t.logp) hne
      obtain ⟨v', e', le'⟩ := (innerFold_step (a := a) (lp1 := lp1) xs (innerStep z a lp1 s t)).mono _ _ _ e
      exact ⟨v', e', Int.le_trans le le'⟩
    · exact innerFold_done xs _ t ht hne

theorem outerStep_done {cur : Fsg} {s : PassSt} (hs : Step cur s.g) (k : Key) :
    Done z cur k.1 k.2 (outerStep z s k).g := by
  intro v1 h1 l2 hl2 hw hsrc hne
  obtain ⟨lp1, e1, le1⟩ := hs.mono _ _ _ h1
  obtain ⟨l2', m2, s2, d2, w2, p2⟩ := hs.dom l2 hl2
  unfold outerStep
  simp only [e1]
  have hmem : l2' ∈ s.g.links.filter fun l => l.isNull && l.src == k.2 := by
    apply List.mem_filter.2
    refine ⟨m2, ?_⟩
    simp [Link.isNull, w2, hw, s2, hsrc]
  obtain ⟨v, e, le⟩ := innerFold_done (a := k.1) (lp1 := lp1) _ s l2' hmem (d2 ▸ hne)
  rw [d2] at e
  exact ⟨v, e, Int.le_trans (satAdd_mono le1 p2) le⟩

theorem outerFold_done {cur : Fsg} : ∀ (ks : List Key) (s : PassSt), Step cur s.g →
    ∀ k ∈ ks, Done z cur k.1 k.2 (ks.foldl (outerStep z) s).g
  | [], _, _, k, hk => by cases hk
  | x :: xs, s, hs, k, hk => by
    rcases List.mem_cons.1 hk with rfl | hk
    · exact (outerStep_done hs k).mono (outerFold_step xs _).mono
    · exact outerFold_done xs _ (hs.trans (outerStep_step s x)) k hk

theorem pass_step (g : Fsg) (nulls : List Key) : Step g (pass z g nulls).g :=
  outerFold_step nulls { g, nulls, updated := false }

theorem pass_done (g : Fsg) (nulls : List Key) : ∀ k ∈ nulls, Done z g k.1 k.2 (pass z g nulls).g :=
  outerFold_done nulls { g, nulls, updated := false } (Step.refl g)

/-! ### simple null paths of the input grammar -/

/-- null log-probabilities are `≤ 0` (otherwise `fsg_model_null_trans_add` is `E_FATAL`) -/
def NullLe0 (g : Fsg) : Prop := ∀ l ∈ g.links, l.wid = none → l.logp ≤ 0

/-- `SPath g a vs w c`: null path from `a` to `c` of weight `w` visiting, after `a`, the
pairwise distinct vertices `vs` (the last one is `c`), none of them `a` -/
inductive SPath (g : Fsg) : Nat → List Nat → Int → Nat → Prop
  | one {l : Link} : l ∈ g.links → l.wid = none → l.src ≠ l.dst → SPath g l.src [l.dst] l.logp l.dst
  | cons {l : Link} {vs w c} : l ∈ g.links → l.wid = none → SPath g l.dst vs w c → l.src ∉ vs →
      l.src ≠ l.dst → SPath g l.src (l.dst :: vs) (l.logp + w) c

theorem SPath.ne_nil {g a vs w c} (h : SPath g a vs w c) : vs ≠ [] := by
  cases h <;> simp

theorem SPath.last_mem {g a vs w c} (h : SPath g a vs w c) : c ∈ vs := by
  induction h with
  | one => simp
  | cons _ _ _ _ _ ih => exact List.mem_cons_of_mem _ ih

theorem SPath.nodup {g a vs w c} (h : SPath g a vs w c) : vs.Nodup ∧ a ∉ vs := by
  induction h with
  | one _ _ hne => exact ⟨by simp, by simpa using hne⟩
  | cons _ _ _ hnin hne ih =>
    refine ⟨List.nodup_cons.2 ⟨ih.2, ih.1⟩, ?_⟩
    intro hm
    rcases List.mem_cons.1 hm with h | h
    · exact hne h
    · exact hnin h

theorem SPath.ne {g a vs w c} (h : SPath g a vs w c) : a ≠ c := by
  intro e; exact h.nodup.2 (e ▸ h.last_mem)

theorem SPath.le0 {g a vs w c} (h : SPath g a vs w c) (h0 : NullLe0 g) : w ≤ 0 := by
  induction h with
  | one hm hw _ => exact h0 _ hm hw
  | cons hm hw _ _ _ ih => have := h0 _ hm hw; omega

theorem SPath.dsts {g a vs w c} (h : SPath g a vs w c) : ∀ x ∈ vs, x ∈ (nullLinks g).map (·.dst) := by
  induction h with
  | @one l hm hw _ =>
    intro x hx
    have : x = l.dst := by simpa using hx
    subst this
    exact List.mem_map.2 ⟨l, List.mem_filter.2 ⟨hm, by simp [Link.isNull, hw]⟩, rfl⟩
  | @cons l vs w c hm hw _ _ _ ih =>
    intro x hx
    rcases List.mem_cons.1 hx with rfl | hx
    · exact List.mem_map.2 ⟨l, List.mem_filter.2 ⟨hm, by simp [Link.isNull, hw]⟩, rfl⟩
    · exact ih x hx

/-- a simple path has at most as many links as the grammar has null links -/
theorem SPath.length_le {g a vs w c} (h : SPath g a vs w c) : vs.length ≤ (nullLinks g).length := by
  have := List.Nodup.length_le_of_subset h.nodup.1 (fun x hx => h.dsts x hx)
  simpa using this

theorem SPath.suffix {g b vs w c} (h : SPath g b vs w c) (h0 : NullLe0 g) :
    ∀ x ∈ vs, x ≠ c → ∃ vs' w', SPath g x vs' w' c ∧ w ≤ w' := by
  induction h with
  | one _ _ _ =>
    intro x hx hne
    exact absurd (by simpa using hx) hne
  | @cons l vs w c hm hw inner _ _ ih =>
    intro x hx hne
    have hl := h0 _ hm hw
    rcases List.mem_cons.1 hx with rfl | hx
    · exact ⟨vs, w, inner, by omega⟩
    · obtain ⟨vs', w', p, le⟩ := ih x hx hne
      exact ⟨vs', w', p, by omega⟩

theorem run_null_le0 {g : Fsg} (h0 : NullLe0 g) {p ws v q} (r : Run g p ws v q) (hws : ws = []) : v ≤ 0 := by
  induction r with
  | nil => exact Int.le_refl _
  | eps hm hw _ ih => have := h0 _ hm hw; have := ih hws; omega
  | sym _ _ _ _ => cases hws

/-- loop removal: a null path between different states is dominated by a simple one -/
theorem spath_of_run {g : Fsg} (h0 : NullLe0 g) {a ws v c} (r : Run g a ws v c) (hws : ws = []) (hne : a ≠ c) :
    ∃ vs w, SPath g a vs w c ∧ v ≤ w := by
  induction r with
  | nil => exact absurd rfl hne
  | @eps l ws v c hm hw rest ih =>
    have hl := h0 _ hm hw
    have hv := run_null_le0 h0 rest hws
    by_cases hdc : l.dst = c
    · subst hdc
      exact ⟨[l.dst], l.logp, .one hm hw hne, by omega⟩
    · obtain ⟨vs, w, p, le⟩ := ih hws hdc
      by_cases hself : l.src = l.dst
      · rw [hself]; exact ⟨vs, w, p, by omega⟩
      · by_cases hin : l.src ∈ vs
        · obtain ⟨vs', w', p', le'⟩ := p.suffix h0 l.src hin hne
          exact ⟨vs', w', p', by omega⟩
        · exact ⟨l.dst :: vs, l.logp + w, .cons hm hw p hin hself, by omega⟩
  | sym _ _ _ _ => cases hws

/-! ### coverage: Bellman–Ford progress -/

/-- every simple null path of `g0` with at most `p` links is dominated by a null link of `cur` -/
def Covers (g0 : Fsg) (p : Nat) (cur : Fsg) : Prop :=
  ∀ a vs w c, SPath g0 a vs w c → vs.length ≤ p → ∃ v, nullLookup cur a c = some v ∧ w ≤ v

/-- every null link is found by its key (no second null link between the same states) -/
def NullUniq (g : Fsg) : Prop := ∀ l ∈ g.links, l.wid = none → nullLookup g l.src l.dst = some l.logp

/-- the C `nulls` list holds (a pointer to) every null link -/
def KeysCover (g : Fsg) (nulls : List Key) : Prop := ∀ a c v, nullLookup g a c = some v → (a, c) ∈ nulls

theorem covers_one {g0 : Fsg} (hu : NullUniq g0) : Covers g0 1 g0 := by
  intro a vs w c p hlen
  cases p with
  | one hm hw _ => exact ⟨_, hu _ hm hw, Int.le_refl _⟩
  | @cons l vs' w' c _ _ inner _ _ =>
    have := inner.ne_nil
    cases vs' with
    | nil => exact absurd rfl this
    | cons x xs => simp at hlen

theorem Covers.mono {g0 cur cur' : Fsg} {p : Nat} (h : Covers g0 p cur) (m : LookupMono cur cur') : Covers g0 p cur' := by
  intro a vs w c sp hlen
  obtain ⟨v, e, le⟩ := h a vs w c sp hlen
  obtain ⟨v', e', le'⟩ := m _ _ _ e
  exact ⟨v', e', Int.le_trans le le'⟩

theorem covers_pass {g0 cur : Fsg} {p : Nat} {nulls : List Key} (hp : 1 ≤ p) (h : Covers g0 p cur)
    (hk : KeysCover cur nulls) : Covers g0 (p + 1) (pass z cur nulls).g := by
  intro a vs w c sp hlen
  cases sp with
  | one hm hw hne =>
    exact (h.mono (pass_step cur nulls).mono) _ _ _ _ (.one hm hw hne) (by simpa using hp)
  | @cons l vs' w' c hm hw inner hnin hne =>
    have hlen' : vs'.length ≤ p := by simpa using hlen
    obtain ⟨v2, e2, le2⟩ := h _ _ _ _ inner hlen'
    obtain ⟨v1, e1, le1⟩ := h _ _ _ _ (.one hm hw hne) (by simpa using hp)
    obtain ⟨l2, m2, w2, s2, d2, p2⟩ := nullLookup_some e2
    have hkey := hk _ _ _ e1
    have hac : l.src ≠ l2.dst := by
      rw [d2]; intro e; exact hnin (e ▸ inner.last_mem)
    obtain ⟨v, e, le⟩ := pass_done (z := z) cur nulls _ hkey v1 e1 l2 m2 w2 s2 hac
    rw [d2] at e
    have := le_satAdd z v1 l2.logp
    exact ⟨v, e, by omega⟩

/-! ### return codes, the `nulls` list, quiet passes -/

theorem nullLookup_isSome_iff {g : Fsg} {a c : Nat} :
    (∃ v, nullLookup g a c = some v) ↔ ∃ l ∈ g.links, l.wid = none ∧ l.src = a ∧ l.dst = c := by
  constructor
  · rintro ⟨v, h⟩
    obtain ⟨l, m, w, s, d, _⟩ := nullLookup_some h
    exact ⟨l, m, w, s, d⟩
  · rintro ⟨l, m, hc⟩
    cases h : nullLookup g a c with
    | none => exact absurd hc (nullLookup_none h l m)
    | some v => exact ⟨v, rfl⟩

/-- the three outcomes of `fsg_model_null_trans_add` -/
theorem nullAdd_code (g : Fsg) (a c : Nat) (lp : Int) :
    ((nullAdd g a c lp).2 = 1 ∧ nullLookup g a c = none ∧ a ≠ c) ∨
    ((nullAdd g a c lp).2 = 0 ∧ ∃ old, nullLookup g a c = some old) ∨
    ((nullAdd g a c lp).2 = -1 ∧ (nullAdd g a c lp).1 = g) := by
  unfold nullAdd
  split
  · exact .inr (.inr ⟨rfl, rfl⟩)
  · rename_i hne
    cases hlk : nullLookup g a c with
    | none => exact .inl ⟨rfl, rfl, hne⟩
    | some old =>
      simp only
      split
      · exact .inr (.inl ⟨rfl, old, rfl⟩)
      · exact .inr (.inr ⟨rfl, rfl⟩)

theorem innerStep_keys {a : Nat} {lp1 : Int} {s : PassSt} (t : Link) (hk : KeysCover s.g s.nulls) :
    KeysCover (innerStep z a lp1 s t).g (innerStep z a lp1 s t).nulls := by
  intro x y v h
  obtain ⟨l, m, w, hs, hd⟩ := nullLookup_isSome_iff.1 ⟨v, h⟩
  have hold : (∃ v, nullLookup s.g x y = some v) → (x, y) ∈ (innerStep z a lp1 s t).nulls := by
    rintro ⟨v', h'⟩
    have := hk _ _ _ h'
    unfold innerStep; simp only
    split
    · exact List.mem_cons_of_mem _ this
    · exact this
  rcases mem_nullAdd m with m | ⟨e1, e2, _, _, _⟩
  · exact hold (nullLookup_isSome_iff.2 ⟨l, m, w, hs, hd⟩)
  · have hx : x = a := hs.symm.trans e1
    have hy : y = t.dst := hd.symm.trans e2
    subst hx hy
    rcases nullAdd_code s.g x t.dst (satAdd z lp1 t.logp) with ⟨c1, _, _⟩ | ⟨_, old, ho⟩ | ⟨_, hg⟩
    · unfold innerStep; simp only
      rw [if_pos (by rw [c1]; decide)]
      exact List.mem_cons_self
    · exact hold ⟨old, ho⟩
    · apply hold
      have : (innerStep z x lp1 s t).g = s.g := hg
      rw [this] at h
      exact ⟨v, h⟩

theorem innerFold_keys {a : Nat} {lp1 : Int} : ∀ (ts : List Link) (s : PassSt), KeysCover s.g s.nulls →
    KeysCover (ts.foldl (innerStep z a lp1) s).g (ts.foldl (innerStep z a lp1) s).nulls
  | [], _, h => h
  | t :: ts, _, h => innerFold_keys ts _ (innerStep_keys t h)

theorem outerStep_keys (s : PassSt) (k : Key) (h : KeysCover s.g s.nulls) :
    KeysCover (outerStep z s k).g (outerStep z s k).nulls := by
  unfold outerStep
  cases nullLookup s.g k.1 k.2 with
  | none => exact h
  | some lp1 => exact innerFold_keys _ _ h

theorem outerFold_keys : ∀ (ks : List Key) (s : PassSt), KeysCover s.g s.nulls →
    KeysCover (ks.foldl (outerStep z) s).g (ks.foldl (outerStep z) s).nulls
  | [], _, h => h
  | k :: ks, s, h => outerFold_keys ks _ (outerStep_keys s k h)

theorem pass_keys {g : Fsg} {nulls : List Key} (h : KeysCover g nulls) :
    KeysCover (pass z g nulls).g (pass z g nulls).nulls :=
  outerFold_keys nulls { g, nulls, updated := false } h

theorem nullKeys_cover (g : Fsg) : KeysCover g (nullKeys g) := by
  intro a c v h
  obtain ⟨l, m, w, s, d, _⟩ := nullLookup_some h
  unfold nullKeys nullLinks
  refine List.mem_map.2 ⟨l, List.mem_filter.2 ⟨m, by simp [Link.isNull, w]⟩, by rw [s, d]⟩

/-- a pass that reports `updated = false` has not touched the grammar -/
theorem innerStep_quiet {a : Nat} {lp1 : Int} {s : PassSt} (t : Link) (h : (innerStep z a lp1 s t).updated = false) :
    (innerStep z a lp1 s t).g = s.g ∧ s.updated = false := by
  unfold innerStep at h ⊢
  simp only [Bool.or_eq_false_iff, decide_eq_false_iff_not, Int.not_le] at h
  refine ⟨?_, h.1⟩
  rcases nullAdd_code s.g a t.dst (satAdd z lp1 t.logp) with ⟨c1, _, _⟩ | ⟨c0, _⟩ | ⟨_, hg⟩
  · omega
  · omega
  · exact hg

theorem innerFold_quiet {a : Nat} {lp1 : Int} : ∀ (ts : List Link) (s : PassSt),
    (ts.foldl (innerStep z a lp1) s).updated = false → (ts.foldl (innerStep z a lp1) s).g = s.g ∧ s.updated = false
  | [], _, h => ⟨rfl, h⟩
  | t :: ts, s, h => by
    obtain ⟨e1, u1⟩ := innerFold_quiet ts _ h
    obtain ⟨e2, u2⟩ := innerStep_quiet t u1
    exact ⟨e1.trans e2, u2⟩

theorem outerStep_quiet (s : PassSt) (k : Key) (h : (outerStep z s k).updated = false) :
    (outerStep z s k).g = s.g ∧ s.updated = false := by
  unfold outerStep at h ⊢
  cases hl : nullLookup s.g k.1 k.2 with
  | none => rw [hl] at h; exact ⟨rfl, h⟩
  | some lp1 => rw [hl] at h; exact innerFold_quiet _ _ h

theorem outerFold_quiet : ∀ (ks : List Key) (s : PassSt),
    (ks.foldl (outerStep z) s).updated = false → (ks.foldl (outerStep z) s).g = s.g ∧ s.updated = false
  | [], _, h => ⟨rfl, h⟩
  | k :: ks, s, h => by
    obtain ⟨e1, u1⟩ := outerFold_quiet ks _ h
    obtain ⟨e2, u2⟩ := outerStep_quiet s k u1
    exact ⟨e1.trans e2, u2⟩

theorem pass_quiet {g : Fsg} {nulls : List Key} (h : (pass z g nulls).updated = false) : (pass z g nulls).g = g :=
  (outerFold_quiet nulls { g, nulls, updated := false } h).1

/-! ### closed grammars -/

/-- fixpoint of the closure loop with saturation point `z`: relaxing any two consecutive null
links changes nothing -/
def NullClosedZ (z : Int) (g : Fsg) : Prop := ∀ a b, Done z g a b g

/-- closed for the grammar's own log-zero -/
def NullClosed (g : Fsg) : Prop := NullClosedZ g.logZero g

theorem closed_of_quiet {g : Fsg} {nulls : List Key} (hk : KeysCover g nulls)
    (h : (pass z g nulls).updated = false) : NullClosedZ z g := by
  intro a b v1 h1
  have := pass_done (z := z) g nulls (a, b) (hk _ _ _ h1)
  rw [pass_quiet h] at this
  exact this v1 h1

theorem innerFold_closed {g : Fsg} (hc : NullClosedZ z g) {a b : Nat} {lp1 : Int} (h1 : nullLookup g a b = some lp1)
    (nulls : List Key) : ∀ (ts : List Link), (∀ t ∈ ts, t ∈ g.links ∧ t.wid = none ∧ t.src = b) →
    ts.foldl (innerStep z a lp1) { g, nulls, updated := false } = { g, nulls, updated := false }
  | [], _ => rfl
  | t :: ts, h => by
    have ht := h t List.mem_cons_self
    have : innerStep z a lp1 { g, nulls, updated := false } t = { g, nulls, updated := false } := by
      have key : nullAdd g a t.dst (satAdd z lp1 t.logp) = (g, -1) := by
        unfold nullAdd
        by_cases hac : a = t.dst
        · rw [if_pos hac]
        · rw [if_neg hac]
          obtain ⟨v, e, le⟩ := hc a b lp1 h1 t ht.1 ht.2.1 ht.2.2 hac
          rw [e]; simp only
          rw [if_neg (by omega)]
      unfold innerStep
      simp only [key]
      simp
    rw [List.foldl_cons, this]
    exact innerFold_closed hc h1 nulls ts fun t' ht' => h t' (List.mem_cons_of_mem _ ht')

theorem outerStep_closed {g : Fsg} (hc : NullClosedZ z g) (nulls : List Key) (k : Key) :
    outerStep z { g, nulls, updated := false } k = { g, nulls, updated := false } := by
  unfold outerStep
  cases hl : nullLookup g k.1 k.2 with
  | none => rfl
  | some lp1 =>
    simp only
    apply innerFold_closed hc hl
    intro t ht
    have := List.mem_filter.1 ht
    refine ⟨this.1, ?_, ?_⟩
    · have := this.2; simp [Link.isNull, Option.isNone_iff_eq_none] at this; exact this.1
    · have := this.2; simp [Link.isNull] at this; exact this.2

theorem pass_closed {g : Fsg} (hc : NullClosedZ z g) (nulls : List Key) :
    pass z g nulls = { g, nulls, updated := false } := by
  unfold pass
  generalize nulls = ks at *
  suffices H : ∀ (xs : List Key), xs.foldl (outerStep z) { g, nulls := ks, updated := false } = { g, nulls := ks, updated := false } from H ks
  intro xs
  induction xs with
  | nil => rfl
  | cons x xs ih => rw [List.foldl_cons, outerStep_closed hc, ih]

theorem closureLoop_closed {g : Fsg} (hc : NullClosedZ z g) (nulls : List Key) (fuel : Nat) :
    closureLoop z (fuel + 1) g nulls = (g, nulls, true) := by
  simp [closureLoop, pass_closed hc]

/-! ### well-formedness of null links, kept by every operation of the API -/

/-- well-formedness of the null links, an invariant of the C representation: log-probabilities
`≤ 0` (else `E_FATAL`), no self-loops (rejected by `fsg_model_null_trans_add`), one link per pair
of states (the hash table of a state is keyed by the target state) -/
structure NullWF (g : Fsg) : Prop where
  le0 : NullLe0 g
  noLoop : ∀ l ∈ g.links, l.wid = none → l.src ≠ l.dst
  uniq : (nullKeys g).Nodup

/-- no null link is below log-zero (what `logmath_log` returns for probability zero is the lowest
value the library produces) -/
def NullGe (z : Int) (g : Fsg) : Prop := ∀ l ∈ g.links, l.wid = none → z ≤ l.logp

theorem nullKeys_cons (l : Link) (ls : List Link) (g : Fsg) :
    nullKeys { g with links := l :: ls } =
      if l.isNull then (l.src, l.dst) :: nullKeys { g with links := ls } else nullKeys { g with links := ls } := by
  unfold nullKeys nullLinks
  by_cases h : l.isNull = true <;> simp [List.filter, h]

theorem mem_nullKeys {g : Fsg} {a c : Nat} : (a, c) ∈ nullKeys g ↔ ∃ l ∈ g.links, l.wid = none ∧ l.src = a ∧ l.dst = c := by
  unfold nullKeys nullLinks
  constructor
  · intro h
    obtain ⟨l, hl, e⟩ := List.mem_map.1 h
    have := List.mem_filter.1 hl
    simp only [Prod.mk.injEq] at e
    exact ⟨l, this.1, by simpa [Link.isNull, Option.isNone_iff_eq_none] using this.2, e.1, e.2⟩
  · rintro ⟨l, m, w, rfl, rfl⟩
    exact List.mem_map.2 ⟨l, List.mem_filter.2 ⟨m, by simp [Link.isNull, w]⟩, rfl⟩

theorem nullUniq_of_nodup : ∀ (ls : List Link) (g : Fsg), (nullKeys { g with links := ls }).Nodup →
    ∀ x ∈ ls, x.wid = none → (ls.find? (Link.isNullAt x.src x.dst)).map (·.logp) = some x.logp
  | [], _, _, x, hx, _ => by cases hx
  | l :: ls, g, hnd, x, hx, hw => by
    rw [nullKeys_cons] at hnd
    by_cases hm : Link.isNullAt x.src x.dst l = true
    · have hl := isNullAt_iff.1 hm
      rcases List.mem_cons.1 hx with rfl | hx
      · simp [List.find?, hm]
      · exfalso
        have hn : l.isNull = true := by simp [Link.isNull, hl.1]
        rw [if_pos hn] at hnd
        have := (List.nodup_cons.1 hnd).1
        apply this
        rw [hl.2.1, hl.2.2]
        exact mem_nullKeys.2 ⟨x, hx, hw, rfl, rfl⟩
    · have hm' : Link.isNullAt x.src x.dst l = false := by simpa using hm
      rcases List.mem_cons.1 hx with rfl | hx
      · exact absurd (isNullAt_iff.2 ⟨hw, rfl, rfl⟩) hm
      · simp only [List.find?, hm']
        apply nullUniq_of_nodup ls g _ x hx hw
        split at hnd
        · exact (List.nodup_cons.1 hnd).2
        · exact hnd

theorem NullWF.nullUniq {g : Fsg} (h : NullWF g) : NullUniq g := by
  intro l hl hw
  exact nullUniq_of_nodup g.links g h.uniq l hl hw

theorem nullKeys_raiseFirst (p : Link → Bool) (lp : Int) : ∀ (ls : List Link) (g : Fsg),
    nullKeys { g with links := raiseFirst p lp ls } = nullKeys { g with links := ls }
  | [], _ => rfl
  | l :: ls, g => by
    simp only [raiseFirst]
    split
    · rw [nullKeys_cons, nullKeys_cons]; rfl
    · rw [nullKeys_cons, nullKeys_cons, nullKeys_raiseFirst p lp ls g]

theorem nullWF_init (name : String) (n s f : Nat) (z : Int) : NullWF (Fsg.init name n s f z) :=
  ⟨fun _ h => (by cases h), fun _ h => (by cases h), List.nodup_nil⟩

theorem nullWF_nullAdd {g : Fsg} (h : NullWF g) (a c : Nat) {lp : Int} (hlp : lp ≤ 0) : NullWF (nullAdd g a c lp).1 := by
  refine ⟨fun l hl hw => ?_, fun l hl hw => ?_, ?_⟩
  · rcases mem_nullAdd hl with hl | ⟨_, _, _, e, _⟩
    · exact h.le0 l hl hw
    · omega
  · rcases mem_nullAdd hl with hl | ⟨e1, e2, _, _, hne⟩
    · exact h.noLoop l hl hw
    · rw [e1, e2]; exact hne
  · rcases nullAdd_code g a c lp with ⟨_, hnone, hne⟩ | ⟨_, old, ho⟩ | ⟨_, hg⟩
    · have : (nullAdd g a c lp).1 = { g with links := ⟨a, c, lp, none⟩ :: g.links } := by
        unfold nullAdd; rw [if_neg hne, hnone]
      rw [this, nullKeys_cons]
      simp only [Link.isNull, Option.isNone_none, if_true]
      refine List.nodup_cons.2 ⟨?_, h.uniq⟩
      intro hm
      obtain ⟨l, ml, wl, sl, dl⟩ := mem_nullKeys.1 hm
      exact nullLookup_none hnone l ml ⟨wl, sl, dl⟩
    · have : nullKeys (nullAdd g a c lp).1 = nullKeys g := by
        unfold nullAdd
        split
        · rfl
        · rw [ho]; simp only
          split
          · exact nullKeys_raiseFirst _ _ g.links g
          · rfl
      rw [this]; exact h.uniq
    · rw [hg]; exact h.uniq

theorem nullGe_nullAdd {g : Fsg} (h : NullGe z g) (a c : Nat) {lp : Int} (hlp : z ≤ lp) : NullGe z (nullAdd g a c lp).1 := by
  intro l hl hw
  rcases mem_nullAdd hl with hl | ⟨_, _, _, e, _⟩
  · exact h l hl hw
  · omega

theorem nullWF_transAdd {g : Fsg} (h : NullWF g) (a c : Nat) (lp : Int) (w : Nat) : NullWF (transAdd g a c lp w) := by
  refine ⟨fun l hl hw => ?_, fun l hl hw => ?_, ?_⟩
  · rcases mem_transAdd hl with hl | ⟨_, _, e, _⟩
    · exact h.le0 l hl hw
    · rw [hw] at e; cases e
  · rcases mem_transAdd hl with hl | ⟨_, _, e, _⟩
    · exact h.noLoop l hl hw
    · rw [hw] at e; cases e
  · unfold transAdd
    split
    · split
      · rw [nullKeys_raiseFirst]; exact h.uniq
      · exact h.uniq
    · rw [nullKeys_cons]; simp [Link.isNull]; exact h.uniq

theorem nullGe_transAdd {g : Fsg} (h : NullGe z g) (a c : Nat) (lp : Int) (w : Nat) : NullGe z (transAdd g a c lp w) := by
  intro l hl hw
  rcases mem_transAdd hl with hl | ⟨_, _, e, _⟩
  · exact h l hl hw
  · rw [hw] at e; cases e

/-- invariant of the loop: well-formed, nothing below the saturation point (which is `≤ 0`) -/
structure LoopWF (z : Int) (g : Fsg) : Prop where
  wf : NullWF g
  ge : NullGe z g

theorem innerFold_wf {a : Nat} {lp1 : Int} (hz : z ≤ 0) (hlp : lp1 ≤ 0) : ∀ (ts : List Link) (s : PassSt), LoopWF z s.g →
    (∀ t ∈ ts, t.logp ≤ 0) → LoopWF z (ts.foldl (innerStep z a lp1) s).g
  | [], _, h, _ => h
  | t :: ts, s, h, ht =>
    innerFold_wf hz hlp ts _
      ⟨nullWF_nullAdd h.wf a t.dst (satAdd_le0 hz hlp (ht t List.mem_cons_self)),
       nullGe_nullAdd h.ge a t.dst (satAdd_ge z lp1 t.logp)⟩
      fun t' m => ht t' (List.mem_cons_of_mem _ m)

theorem outerStep_wf (hz : z ≤ 0) (s : PassSt) (k : Key) (h : LoopWF z s.g) : LoopWF z (outerStep z s k).g := by
  unfold outerStep
  cases hl : nullLookup s.g k.1 k.2 with
  | none => exact h
  | some lp1 =>
    obtain ⟨l, m, w, _, _, p⟩ := nullLookup_some hl
    refine innerFold_wf hz (p ▸ h.wf.le0 l m w) _ _ h fun t ht => ?_
    have := List.mem_filter.1 ht
    exact h.wf.le0 t this.1 (by have := this.2; simp [Link.isNull, Option.isNone_iff_eq_none] at this; exact this.1)

theorem outerFold_wf (hz : z ≤ 0) : ∀ (ks : List Key) (s : PassSt), LoopWF z s.g → LoopWF z (ks.foldl (outerStep z) s).g
  | [], _, h => h
  | k :: ks, s, h => outerFold_wf hz ks _ (outerStep_wf hz s k h)

theorem pass_wf (hz : z ≤ 0) {g : Fsg} (nulls : List Key) (h : LoopWF z g) : LoopWF z (pass z g nulls).g :=
  outerFold_wf hz nulls _ h

theorem closureLoop_wf (hz : z ≤ 0) : ∀ (fuel : Nat) (g : Fsg) (nulls : List Key), LoopWF z g → LoopWF z (closureLoop z fuel g nulls).1
  | 0, _, _, h => h
  | fuel + 1, g, nulls, h => by
    rw [closureLoop]
    have hp := pass_wf hz nulls h
    split
    · exact closureLoop_wf hz fuel _ _ hp
    · exact hp

/-! ### upper bound: every null link is a path of the input, or sits at the saturation point -/

/-- every link of `g'` is matched by a path of `g` that is at least as probable — or it is a
null link at (or below) the saturation point `z` -/
def SimZ (z : Int) (g' g : Fsg) : Prop :=
  ∀ l' ∈ g'.links, ∃ v, Run g l'.src (lab l'.wid) v l'.dst ∧ (l'.logp ≤ v ∨ (l'.wid = none ∧ l'.logp ≤ z))

theorem SimZ.refl (z : Int) (g : Fsg) : SimZ z g g := fun l h => ⟨l.logp, Run.single h, .inl (Int.le_refl _)⟩

/-- the candidate computed from two consecutive null links is again bounded that way -/
theorem simZ_pair {g g0 : Fsg} (hs : SimZ z g g0) (h0 : NullLe0 g) {l1 l2 : Link} (m1 : l1 ∈ g.links)
    (w1 : l1.wid = none) (m2 : l2 ∈ g.links) (w2 : l2.wid = none) (hd : l1.dst = l2.src) :
    ∃ v, Run g0 l1.src [] v l2.dst ∧ (satAdd z l1.logp l2.logp ≤ v ∨ satAdd z l1.logp l2.logp ≤ z) := by
  obtain ⟨x1, r1, b1⟩ := hs l1 m1
  obtain ⟨x2, r2, b2⟩ := hs l2 m2
  rw [w1] at r1; rw [w2] at r2
  have r : Run g0 l1.src ([] ++ []) (x1 + x2) l2.dst := Run.trans (q := l1.dst) (by simpa [lab] using r1) (by rw [hd]; simpa [lab] using r2)
  refine ⟨x1 + x2, r, ?_⟩
  have p1 := h0 l1 m1 w1
  have p2 := h0 l2 m2 w2
  unfold satAdd
  split
  · exact .inr (Int.le_refl _)
  · rcases b1 with b1 | ⟨_, b1⟩
    · rcases b2 with b2 | ⟨_, b2⟩
      · exact .inl (by omega)
      · exact .inr (by omega)
    · exact .inr (by omega)

theorem nullAdd_simZ {g g0 : Fsg} (hs : SimZ z g g0) {a c : Nat} {lp : Int}
    (h : ∃ v, Run g0 a [] v c ∧ (lp ≤ v ∨ lp ≤ z)) : SimZ z (nullAdd g a c lp).1 g0 := by
  intro x hx
  rcases mem_nullAdd hx with hx | ⟨rfl, rfl, hw, hl, _⟩
  · exact hs x hx
  · obtain ⟨v, r, b⟩ := h
    refine ⟨v, by rw [hw]; exact r, ?_⟩
    rcases b with b | b
    · exact .inl (hl ▸ b)
    · exact .inr ⟨hw, hl ▸ b⟩

theorem innerFold_simZ {g0 : Fsg} {a : Nat} {lp1 : Int} : ∀ (ts : List Link) (s : PassSt), SimZ z s.g g0 →
    (∀ t ∈ ts, ∃ v, Run g0 a [] v t.dst ∧ (satAdd z lp1 t.logp ≤ v ∨ satAdd z lp1 t.logp ≤ z)) →
    SimZ z (ts.foldl (innerStep z a lp1) s).g g0
  | [], _, h, _ => h
  | t :: ts, s, h, hw =>
    innerFold_simZ ts _ (nullAdd_simZ h (hw t List.mem_cons_self)) fun t' m => hw t' (List.mem_cons_of_mem _ m)

theorem outerStep_simZ {g0 : Fsg} (s : PassSt) (k : Key) (hwf : NullWF s.g) (h : SimZ z s.g g0) :
    SimZ z (outerStep z s k).g g0 := by
  unfold outerStep
  cases hl : nullLookup s.g k.1 k.2 with
  | none => exact h
  | some lp1 =>
    simp only
    obtain ⟨l1, m1, w1, s1, d1, p1⟩ := nullLookup_some hl
    refine innerFold_simZ _ _ h fun t ht => ?_
    have hm := List.mem_filter.1 ht
    have hw2 : t.wid = none := by
      have := hm.2; simp [Link.isNull, Option.isNone_iff_eq_none] at this; exact this.1
    have hs2 : t.src = k.2 := by
      have := hm.2; simp [Link.isNull] at this; exact this.2
    have := simZ_pair h hwf.le0 m1 w1 hm.1 hw2 (d1.trans hs2.symm)
    rw [s1, p1] at this
    exact this

theorem pass_simZ (hz : z ≤ 0) {g0 g : Fsg} (nulls : List Key) (hwf : LoopWF z g) (h : SimZ z g g0) :
    SimZ z (pass z g nulls).g g0 := by
  unfold pass
  suffices H : ∀ (ks : List Key) (s : PassSt), LoopWF z s.g → SimZ z s.g g0 → SimZ z (ks.foldl (outerStep z) s).g g0 from
    H nulls _ hwf h
  intro ks
  induction ks with
  | nil => intro _ _ h; exact h
  | cons k ks ih => intro s hw hs; exact ih _ (outerStep_wf hz s k hw) (outerStep_simZ s k hw.wf hs)

/-- full coverage makes the grammar closed -/
theorem closed_of_covers {g0 g : Fsg} (h0 : NullLe0 g0) {p : Nat} (hp : (nullLinks g0).length ≤ p)
    (hc : Covers g0 p g) (hs : SimZ z g g0) (hwf : LoopWF z g) : NullClosedZ z g := by
  intro a b v1 h1 l2 m2 w2 s2 hne
  obtain ⟨l1, m1, w1, sr1, d1, p1⟩ := nullLookup_some h1
  obtain ⟨x, r, bx⟩ := simZ_pair hs hwf.wf.le0 m1 w1 m2 w2 (d1.trans s2.symm)
  rw [sr1] at r
  rw [p1] at bx
  obtain ⟨vs, w, sp, le⟩ := spath_of_run h0 r rfl hne
  obtain ⟨v, e, le'⟩ := hc _ _ _ _ sp (Nat.le_trans sp.length_le hp)
  refine ⟨v, e, ?_⟩
  rcases bx with bx | bx
  · omega
  · obtain ⟨l3, m3, w3, _, _, p3⟩ := nullLookup_some e
    have := hwf.ge l3 m3 w3
    omega

/-! ### the loop -/

theorem closureLoop_converges {g0 : Fsg} (hz : z ≤ 0) (h0 : NullLe0 g0) : ∀ (fuel : Nat) (g : Fsg) (nulls : List Key) (p : Nat),
    1 ≤ p → Covers g0 p g → SimZ z g g0 → LoopWF z g → KeysCover g nulls → (nullLinks g0).length ≤ p + fuel →
    (closureLoop z (fuel + 1) g nulls).2.2 = true ∧ NullClosedZ z (closureLoop z (fuel + 1) g nulls).1 ∧
    SimZ z (closureLoop z (fuel + 1) g nulls).1 g0
  | 0, g, nulls, p, _, hc, hs, hwf, _, hm => by
    have hcl := closed_of_covers h0 (by simpa using hm) hc hs hwf
    rw [closureLoop_closed hcl]
    exact ⟨rfl, hcl, hs⟩
  | fuel + 1, g, nulls, p, hp, hc, hs, hwf, hk, hm => by
    rw [closureLoop]
    split
    · refine closureLoop_converges hz h0 fuel _ _ (p + 1) (by omega) (covers_pass hp hc hk)
        (pass_simZ hz nulls hwf hs) (pass_wf hz nulls hwf) (pass_keys hk) (by omega)
    · rename_i hq
      have hq' : (pass z g nulls).updated = false := by simpa using hq
      have := closed_of_quiet hk hq'
      rw [pass_quiet hq']
      exact ⟨rfl, this, hs⟩

/-- the hypotheses of the closure theorems: well-formed null links, none below the grammar's
log-zero, which is not positive -/
structure ClosureWF (g : Fsg) : Prop where
  wf : NullWF g
  ge : NullGe g.logZero g
  zero : g.logZero ≤ 0

theorem ClosureWF.loop {g : Fsg} (h : ClosureWF g) : LoopWF g.logZero g := ⟨h.wf, h.ge⟩

theorem closureRun_converges {g : Fsg} (h : ClosureWF g) :
    (closureRun g).2.2 = true ∧ NullClosedZ g.logZero (closure g) ∧ SimZ g.logZero (closure g) g := by
  unfold closure closureRun closureFuel
  exact closureLoop_converges h.zero h.wf.le0 _ g _ 1 (Nat.le_refl 1) (covers_one h.wf.nullUniq) (SimZ.refl _ g) h.loop
    (nullKeys_cover g) (by omega)

theorem closureLoop_logZero : ∀ (fuel : Nat) (g : Fsg) (nulls : List Key), (closureLoop z fuel g nulls).1.logZero = g.logZero := by
  have hn : ∀ (g : Fsg) a c lp, (nullAdd g a c lp).1.logZero = g.logZero := fun g a c lp => (nullAdd_start g a c lp).2.2.2.2.2.2.2
  have hi : ∀ (a : Nat) (lp1 : Int) (ts : List Link) (s : PassSt), (ts.foldl (innerStep z a lp1) s).g.logZero = s.g.logZero := by
    intro a lp1 ts
    induction ts with
    | nil => intro _; rfl
    | cons t ts ih => intro s; rw [List.foldl_cons, ih]; exact hn _ _ _ _
  have ho : ∀ (ks : List Key) (s : PassSt), (ks.foldl (outerStep z) s).g.logZero = s.g.logZero := by
    intro ks
    induction ks with
    | nil => intro _; rfl
    | cons k ks ih =>
      intro s
      rw [List.foldl_cons, ih]
      unfold outerStep
      cases nullLookup s.g k.1 k.2 with
      | none => rfl
      | some lp1 => exact hi _ _ _ _
  intro fuel
  induction fuel with
  | zero => intro _ _; rfl
  | succ n ih =>
    intro g nulls
    rw [closureLoop]
    have hp : (pass z g nulls).g.logZero = g.logZero := ho nulls _
    split
    · rw [ih, hp]
    · exact hp

theorem closure_logZero (g : Fsg) : (closure g).logZero = g.logZero := closureLoop_logZero _ g _

theorem closure_closed {g : Fsg} (h : ClosureWF g) : NullClosed (closure g) := by
  unfold NullClosed; rw [closure_logZero]; exact (closureRun_converges h).2.1

theorem closure_of_closed {g : Fsg} (hc : NullClosed g) : closure g = g := by
  unfold closure closureRun closureFuel
  rw [closureLoop_closed hc]

theorem closure_idem {g : Fsg} (h : ClosureWF g) : closure (closure g) = closure g :=
  closure_of_closed (closure_closed h)

theorem closureWF_closure {g : Fsg} (h : ClosureWF g) : ClosureWF (closure g) := by
  have := closureLoop_wf h.zero (closureFuel g) g (nullKeys g) h.loop
  have hz := closure_logZero g
  exact ⟨this.wf, by rw [hz]; exact this.ge, by rw [hz]; exact h.zero⟩

theorem nullWF_closure {g : Fsg} (h : ClosureWF g) : NullWF (closure g) := (closureWF_closure h).wf

/-! ### the closed grammar is determined by the input: all-pairs best null path, floored at log-zero -/

theorem covers_of_closed {g0 g : Fsg} (hc : NullClosedZ z g) (h1 : Covers g0 1 g) : ∀ p, Covers g0 p g := by
  intro p a vs w c sp hlen
  clear hlen
  induction sp with
  | one hm hw hne => exact h1 _ _ _ _ (.one hm hw hne) (by simp)
  | @cons l vs' w' c hm hw inner hnin hne ih =>
    obtain ⟨v2, e2, le2⟩ := ih
    obtain ⟨v1, e1, le1⟩ := h1 _ _ _ _ (.one hm hw hne) (by simp)
    obtain ⟨l2, m2, w2, s2, d2, p2⟩ := nullLookup_some e2
    have hac : l.src ≠ l2.dst := by
      rw [d2]; intro e; exact hnin (e ▸ inner.last_mem)
    obtain ⟨v, e, le⟩ := hc _ _ v1 e1 l2 m2 w2 s2 hac
    rw [d2] at e
    have := le_satAdd z v1 l2.logp
    exact ⟨v, e, by omega⟩

/-- `v` is the best weight of a null path from `a` to `c` in `g` -/
def IsBestNull (g : Fsg) (a c : Nat) (v : Int) : Prop :=
  Run g a [] v c ∧ ∀ v', Run g a [] v' c → v' ≤ v

/-- `v` is the best weight of a null path from `a` to `c` in `g`, floored at `z`: there is a null
path, none is better than `v`, `v ≥ z`, and when `v > z` a path of weight `v` exists -/
def IsSatBestNull (z : Int) (g : Fsg) (a c : Nat) (v : Int) : Prop :=
  (∃ x, Run g a [] x c) ∧ (∀ x, Run g a [] x c → x ≤ v) ∧ z ≤ v ∧ (z < v → Run g a [] v c)

theorem IsSatBestNull.unique {g : Fsg} {a c : Nat} {v v' : Int} (h : IsSatBestNull z g a c v)
    (h' : IsSatBestNull z g a c v') : v = v' := by
  obtain ⟨_, u, ge, att⟩ := h
  obtain ⟨_, u', ge', att'⟩ := h'
  by_cases h1 : z < v
  · have := u' v (att h1)
    by_cases h2 : z < v'
    · have := u v' (att' h2); omega
    · omega
  · by_cases h2 : z < v'
    · have := u v' (att' h2); omega
    · omega

theorem closureLoop_step : ∀ (fuel : Nat) (g : Fsg) (nulls : List Key), Step g (closureLoop z fuel g nulls).1
  | 0, g, _ => Step.refl g
  | fuel + 1, g, nulls => by
    rw [closureLoop]
    split
    · exact (pass_step g nulls).trans (closureLoop_step fuel _ _)
    · exact pass_step g nulls

theorem closure_lookup_iff {g : Fsg} (h : ClosureWF g) (a c : Nat) (v : Int) :
    nullLookup (closure g) a c = some v ↔ a ≠ c ∧ IsSatBestNull g.logZero g a c v := by
  obtain ⟨_, hcl, hsim⟩ := closureRun_converges h
  have hwf := closureWF_closure h
  have hstep : Step g (closure g) := closureLoop_step _ g _
  have hcov : ∀ p, Covers g p (closure g) :=
    covers_of_closed hcl ((covers_one h.wf.nullUniq).mono hstep.mono)
  have upper : ∀ {a c : Nat} {x : Int}, a ≠ c → Run g a [] x c → ∃ v', nullLookup (closure g) a c = some v' ∧ x ≤ v' := by
    intro a c x hne r
    obtain ⟨vs, w, sp, le⟩ := spath_of_run h.wf.le0 r rfl hne
    obtain ⟨v', e, le'⟩ := hcov vs.length _ _ _ _ sp (Nat.le_refl _)
    exact ⟨v', e, by omega⟩
  have fwd : ∀ {v : Int}, nullLookup (closure g) a c = some v → a ≠ c ∧ IsSatBestNull g.logZero g a c v := by
    intro v hl
    obtain ⟨l, m, w, s, d, p⟩ := nullLookup_some hl
    have hne : a ≠ c := by rw [← s, ← d]; exact hwf.wf.noLoop l m w
    obtain ⟨x, r, bx⟩ := hsim l m
    rw [w, s, d] at r
    have r' : Run g a [] x c := r
    have hmax : ∀ v', Run g a [] v' c → v' ≤ v := by
      intro v' r2
      obtain ⟨v'', e, le⟩ := upper hne r2
      rw [hl] at e; cases e; exact le
    have hge : g.logZero ≤ v := by
      have := hwf.ge l m w; rw [closure_logZero] at this; omega
    refine ⟨hne, ⟨x, r'⟩, hmax, hge, fun hlt => ?_⟩
    rcases bx with bx | ⟨_, bx⟩
    · have := hmax x r'
      have : x = v := by omega
      exact this ▸ r'
    · omega
  constructor
  · exact fwd
  · rintro ⟨hne, hs⟩
    obtain ⟨x, r⟩ := hs.1
    obtain ⟨v', e, _⟩ := upper hne r
    have := (fwd e).2.unique hs
    rw [← this]; exact e

/-! ### when nothing saturates, the closure preserves best probabilities exactly -/

theorem SPath.run {g a vs w c} (h : SPath g a vs w c) : Run g a [] w c := by
  induction h with
  | one hm hw _ => have := Run.eps hm hw (Run.nil (g := g)); simpa using this
  | cons hm hw _ _ _ ih => exact Run.eps hm hw ih

/-- no simple null path of `g` is below the saturation point: the closure never saturates a link
that matters -/
def NoSat (z : Int) (g : Fsg) : Prop := ∀ a vs w c, SPath g a vs w c → z ≤ w

theorem sim_of_simZ {g' g : Fsg} (h0 : NullLe0 g) (hn : NoSat z g)
    (hl : ∀ l ∈ g'.links, l.wid = none → l.src ≠ l.dst) (hs : SimZ z g' g) : Sim g' g := by
  intro l hm
  obtain ⟨x, r, b⟩ := hs l hm
  rcases b with b | ⟨w, b⟩
  · exact ⟨x, b, r⟩
  · rw [w] at r
    obtain ⟨vs, y, sp, _⟩ := spath_of_run h0 r rfl (hl l hm w)
    have := hn _ _ _ _ sp
    exact ⟨y, by omega, by rw [w]; exact sp.run⟩

/-- under `NoSat` the closed grammar accepts the same sentences with the same best log-probability -/
theorem closure_ext {g : Fsg} (h : ClosureWF g) (hn : NoSat g.logZero g) : Ext g (closure g) := by
  have l := closure_lext g
  exact ⟨l.dom, sim_of_simZ h.wf.le0 hn (nullWF_closure h).noLoop (closureRun_converges h).2.2, l.start, l.final⟩

/-- under `NoSat` the floor plays no role: the null links of the closure are the best null paths -/
theorem closure_lookup_iff_noSat {g : Fsg} (h : ClosureWF g) (hn : NoSat g.logZero g) (a c : Nat) (v : Int) :
    nullLookup (closure g) a c = some v ↔ a ≠ c ∧ IsBestNull g a c v := by
  rw [closure_lookup_iff h]
  constructor
  · rintro ⟨hne, ⟨x, r⟩, hmax, hge, hatt⟩
    refine ⟨hne, ?_, hmax⟩
    by_cases hlt : g.logZero < v
    · exact hatt hlt
    · obtain ⟨vs, y, sp, _⟩ := spath_of_run h.wf.le0 r rfl hne
      have h1 := hn _ _ _ _ sp
      have h2 := hmax y sp.run
      have : y = v := by omega
      exact this ▸ sp.run
  · rintro ⟨hne, r, hmax⟩
    refine ⟨hne, ⟨v, r⟩, hmax, ?_, fun _ => r⟩
    obtain ⟨vs, y, sp, _⟩ := spath_of_run h.wf.le0 r rfl hne
    have h1 := hn _ _ _ _ sp
    have h2 := hmax y sp.run
    omega

/-! ### a decidable sufficient condition for `NoSat`: the null log-probabilities sum to no less than `z` -/

theorem sum_erase_link (f : Link → Int) : ∀ (L : List Link) (x : Link), x ∈ L →
    (L.map f).sum = f x + ((L.erase x).map f).sum
  | [], _, h => by cases h
  | y :: L, x, h => by
    by_cases hyx : y = x
    · subst hyx; simp
    · have hx : x ∈ L := by
        rcases List.mem_cons.1 h with h | h
        · exact absurd h.symm hyx
        · exact h
      have hb : (y == x) = false := by simpa using hyx
      rw [List.erase_cons, hb]
      simp only [Bool.false_eq_true, if_false, List.map_cons, List.sum_cons]
      rw [sum_erase_link f L x hx]; omega

theorem sum_nonpos_link (f : Link → Int) : ∀ (L : List Link), (∀ x ∈ L, f x ≤ 0) → (L.map f).sum ≤ 0
  | [], _ => by simp
  | y :: L, h0 => by
    simp only [List.map_cons, List.sum_cons]
    have h1 := h0 y List.mem_cons_self
    have h2 := sum_nonpos_link f L (fun x hx => h0 x (List.mem_cons_of_mem _ hx))
    omega

theorem sum_le_of_nodup_subset (f : Link → Int) : ∀ (ls L : List Link), ls.Nodup → (∀ x ∈ ls, x ∈ L) →
    (∀ x ∈ L, f x ≤ 0) → (L.map f).sum ≤ (ls.map f).sum
  | [], L, _, _, h0 => by
    simp only [List.map_nil, List.sum_nil]
    exact sum_nonpos_link f L h0
  | x :: xs, L, hnd, hsub, h0 => by
    have hx := hsub x List.mem_cons_self
    have hnd' := List.nodup_cons.1 hnd
    rw [sum_erase_link f L x hx]
    simp only [List.map_cons, List.sum_cons]
    have := sum_le_of_nodup_subset f xs (L.erase x) hnd'.2
      (fun y hy => (List.mem_erase_of_ne (fun e : y = x => hnd'.1 (e ▸ hy))).2 (hsub y (List.mem_cons_of_mem _ hy)))
      (fun y hy => h0 y (List.mem_of_mem_erase hy))
    omega

theorem SPath.links {g a vs w c} (h : SPath g a vs w c) :
    ∃ ls : List Link, (∀ x ∈ ls, x ∈ nullLinks g) ∧ ls.map (·.dst) = vs ∧ w = (ls.map (·.logp)).sum := by
  induction h with
  | @one l hm hw _ =>
    exact ⟨[l], fun x hx => by
      have : x = l := by simpa using hx
      subst this; exact List.mem_filter.2 ⟨hm, by simp [Link.isNull, hw]⟩, rfl, by simp⟩
  | @cons l vs w c hm hw _ _ _ ih =>
    obtain ⟨ls, hsub, hd, hs⟩ := ih
    refine ⟨l :: ls, fun x hx => ?_, by simp [hd], by simp [hs]⟩
    rcases List.mem_cons.1 hx with rfl | hx
    · exact List.mem_filter.2 ⟨hm, by simp [Link.isNull, hw]⟩
    · exact hsub x hx

/-- if all null log-probabilities together do not go below `z`, no simple null path does -/
theorem noSat_of_total {g : Fsg} (h0 : NullLe0 g) (hz : z ≤ ((nullLinks g).map (·.logp)).sum) : NoSat z g := by
  intro a vs w c sp
  obtain ⟨ls, hsub, hd, hs⟩ := sp.links
  have hnd : ls.Nodup := by
    have : (ls.map (·.dst)).Nodup := hd ▸ sp.nodup.1
    exact List.Pairwise.of_map (·.dst) (fun a b hab e => hab (e ▸ rfl)) this
  have := sum_le_of_nodup_subset (·.logp) ls (nullLinks g) hnd hsub (fun x hx => by
    have := List.mem_filter.1 hx
    exact h0 x this.1 (by simpa [Link.isNull, Option.isNone_iff_eq_none] using this.2))
  omega

end SSVerif.Fsg
