import SSVerif.Proofs.AlignProp
/-!
Structure of what `alignment_populate` builds (block structure of the phone and state vectors), and the
lifting of activity windows from children to parents.
-/
namespace SSVerif.Align

/-- activity window of a populated entry -/
def winE (e : Entry) : Int × Int := (sfOf e, efOf e)

/-- windows of a block-structured child vector whose blocks copy the parents' windows -/
def blockWins : List Nat → List (Int × Int) → List (Int × Int)
  | n :: ns, w :: ws => List.replicate n w ++ blockWins ns ws
  | _, _ => []

/-- index of the first child of each parent -/
def childIdx : Nat → List Nat → List Nat
  | _, [] => []
  | b, n :: ns => b :: childIdx (b + n) ns

def plen (D : Dict) (w : Entry) : Nat := (D.pron w.id).length

/-! ### phone level -/

theorem wordPhones_length (D : Dict) (i : Nat) (w : Entry) (lc rc : Int) :
    (wordPhones D i w lc rc).length = plen D w := by
  simp [wordPhones, plen]

theorem wordPhones_parent (D : Dict) (i : Nat) (w : Entry) (lc rc : Int) :
    (wordPhones D i w lc rc).map (·.parent) = List.replicate (plen D w) i := by
  apply List.ext_getElem
  · simp [wordPhones, plen]
  · intro n h1 h2
    simp [wordPhones]

theorem wordPhones_id (D : Dict) (i : Nat) (w : Entry) (lc rc : Int) :
    (wordPhones D i w lc rc).map (·.id) = D.pron w.id := by
  apply List.ext_getElem
  · simp [wordPhones]
  · intro n h1 h2
    simp [wordPhones]

theorem wordPhones_win (D : Dict) (i : Nat) (w : Entry) (lc rc : Int) :
    (wordPhones D i w lc rc).map winE = List.replicate (plen D w) (winE w) := by
  apply List.ext_getElem
  · simp [wordPhones, plen]
  · intro n h1 h2
    simp [wordPhones, winE, sfOf, efOf]

theorem take_append_len {α : Type} (a b : List α) (n : Nat) (h : a.length = n) : (a ++ b).take n = a := by
  subst h; simp

theorem drop_append_len {α : Type} (a b : List α) (n : Nat) (h : a.length = n) : (a ++ b).drop n = b := by
  subst h; simp

theorem popWords_spec (D : Dict) : ∀ (words : List Entry) (i base : Nat) (lc : Int),
    let r := popWords D i base lc words
    r.1.map (fun e => (e.id, e.start, e.duration, e.score)) = words.map (fun e => (e.id, e.start, e.duration, e.score)) ∧
    r.1.map (·.child) = childIdx base (words.map (plen D)) ∧
    r.2.map (·.parent) = patternFrom i (words.map (plen D)) ∧
    r.2.map winE = blockWins (words.map (plen D)) (words.map winE) ∧
    (splitLens (words.map (plen D)) r.2).map (·.map (·.id)) = words.map (fun w => D.pron w.id) ∧
    r.2.length = (words.map (plen D)).sum
  | [], _, _, _ => by simp [popWords, childIdx, patternFrom, blockWins, splitLens]
  | w :: rest, i, base, lc => by
    have ih := popWords_spec D rest (i + 1) (base + (wordPhones D i w lc (rcOf D rest)).length)
      ((D.pron w.id).getLastD 0)
    obtain ⟨h1, h2, h3, h4, h5, h6⟩ := ih
    have hl := wordPhones_length D i w lc (rcOf D rest)
    simp only [popWords, List.map_cons, List.map_append, List.length_append, List.sum_cons]
    refine ⟨?_, ?_, ?_, ?_, ?_, ?_⟩
    · rw [h1]
    · rw [h2, hl]; simp [childIdx]
    · rw [h3, wordPhones_parent]; simp [patternFrom]
    · rw [h4, wordPhones_win]; simp [blockWins]
    · simp only [splitLens, List.map_cons]
      rw [take_append_len _ _ _ hl, drop_append_len _ _ _ hl, h5, wordPhones_id]
    · rw [h6, hl]

/-! ### state level -/

theorem phoneStates_length (D : Dict) (p : Nat) (e : Entry) : (phoneStates D p e).length = D.nEmit := by
  simp [phoneStates]

theorem phoneStates_parent (D : Dict) (p : Nat) (e : Entry) :
    (phoneStates D p e).map (·.parent) = List.replicate D.nEmit p := by
  apply List.ext_getElem
  · simp [phoneStates]
  · intro n h1 h2
    simp [phoneStates]

theorem phoneStates_id (D : Dict) (p : Nat) (e : Entry) :
    (phoneStates D p e).map (·.id) = (List.range D.nEmit).map (D.sen e.ssid) := by
  simp [phoneStates]

theorem phoneStates_win (D : Dict) (p : Nat) (e : Entry) :
    (phoneStates D p e).map winE = List.replicate D.nEmit (winE e) := by
  apply List.ext_getElem
  · simp [phoneStates]
  · intro n h1 h2
    simp [phoneStates, winE, sfOf, efOf]

/-- everything of a phone entry except `child` -/
def noChild (e : Entry) : Int × Int × Int × Nat × Int × Int × Int :=
  (e.start, e.duration, e.score, e.parent, e.id, e.ssid, e.tmatid)

theorem popStates_spec (D : Dict) : ∀ (phones : List Entry) (p : Nat),
    let r := popStates D p phones
    r.1.map noChild = phones.map noChild ∧
    r.1.map (·.child) = (List.range' p phones.length).map (· * D.nEmit) ∧
    r.2.map (·.parent) = patternFrom p (List.replicate phones.length D.nEmit) ∧
    r.2.map winE = blockWins (List.replicate phones.length D.nEmit) (phones.map winE) ∧
    (splitLens (List.replicate phones.length D.nEmit) r.2).map (·.map (·.id)) =
      phones.map (fun e => (List.range D.nEmit).map (D.sen e.ssid)) ∧
    r.2.length = (List.replicate phones.length D.nEmit).sum
  | [], _ => by simp [popStates, patternFrom, blockWins, splitLens]
  | e :: rest, p => by
    obtain ⟨h1, h2, h3, h4, h5, h6⟩ := popStates_spec D rest (p + 1)
    have hl := phoneStates_length D p e
    simp only [popStates, List.map_cons, List.map_append, List.length_append, List.length_cons,
      List.replicate_succ, List.sum_cons]
    refine ⟨?_, ?_, ?_, ?_, ?_, ?_⟩
    · rw [h1]; simp [noChild]
    · rw [h2]; simp [List.range'_succ]
    · rw [h3, phoneStates_parent]; simp [patternFrom]
    · rw [h4, phoneStates_win]; simp [blockWins]
    · simp only [splitLens, List.map_cons]
      rw [take_append_len _ _ _ hl, drop_append_len _ _ _ hl, h5, phoneStates_id]
    · rw [h6, hl]

/-! ### windows lift from children to parents -/

/-- every segment lies in the corresponding window -/
def WithinW : List Entry → List (Int × Int) → Prop
  | [], [] => True
  | x :: xs, w :: ws => w.1 ≤ x.start ∧ x.start + x.duration ≤ w.2 ∧ WithinW xs ws
  | _, _ => False

theorem within2_withinW : ∀ (xs ys : List Entry), Within2 xs ys → WithinW xs (ys.map winE)
  | [], [], _ => True.intro
  | _ :: xs, _ :: ys, h => ⟨h.1, h.2.1, within2_withinW xs ys h.2.2⟩
  | [], _ :: _, h => False.elim h
  | _ :: _, [], h => False.elim h

theorem withinW_length : ∀ (xs : List Entry) (ws : List (Int × Int)), WithinW xs ws → xs.length = ws.length
  | [], [], _ => rfl
  | _ :: xs, _ :: ws, h => by simp [withinW_length xs ws h.2.2]
  | [], _ :: _, h => False.elim h
  | _ :: _, [], h => False.elim h

/-- splitting off a block whose windows are all `w` -/
theorem withinW_replicate_append : ∀ (n : Nat) (xs : List Entry) (w : Int × Int) (ws : List (Int × Int)),
    WithinW xs (List.replicate n w ++ ws) →
    (∀ e ∈ xs.take n, w.1 ≤ e.start ∧ e.start + e.duration ≤ w.2) ∧ WithinW (xs.drop n) ws
  | 0, xs, w, ws, h => by simpa using h
  | n + 1, [], w, ws, h => by simp [List.replicate_succ, WithinW] at h
  | n + 1, x :: xs, w, ws, h => by
    simp only [List.replicate_succ, List.cons_append, WithinW] at h
    obtain ⟨h1, h2, h3⟩ := h
    obtain ⟨i1, i2⟩ := withinW_replicate_append n xs w ws h3
    refine ⟨?_, by simpa using i2⟩
    intro e he
    simp only [List.take_succ_cons, List.mem_cons] at he
    rcases he with rfl | he
    · exact ⟨h1, h2⟩
    · exact i1 e he

theorem contig_last : ∀ (l : List Entry) (a b : Int), Contig l a b → l ≠ [] → ∃ e ∈ l, e.start + e.duration = b
  | [], _, _, _, h => absurd rfl h
  | [e], a, b, h, _ => by
    obtain ⟨h1, _, h3⟩ := h
    have : a + e.duration = b := h3
    exact ⟨e, by simp, by omega⟩
  | e :: e' :: r, a, b, h, _ => by
    obtain ⟨_, _, h3⟩ := h
    obtain ⟨x, hx, hx2⟩ := contig_last (e' :: r) _ b h3 (by simp)
    exact ⟨x, List.mem_cons_of_mem _ hx, hx2⟩

/-- if every block tiles its (summarised) parent and every child lies in the window its block copies from
the parent, every parent lies in its window -/
theorem within_blocks : ∀ (lens : List Nat) (children ps : List Entry) (wins : List (Int × Int)),
    ps.length = lens.length → wins.length = lens.length →
    Parts (List.zipWith summarize ps (splitLens lens children)) (splitLens lens children) →
    WithinW children (blockWins lens wins) →
    WithinW (List.zipWith summarize ps (splitLens lens children)) wins
  | [], children, ps, wins, hp, hw, _, _ => by
    have h1 : ps = [] := by simpa using hp
    have h2 : wins = [] := by simpa using hw
    subst h1; subst h2
    simp [splitLens, WithinW]
  | n :: ns, children, ps, wins, hp, hw, hparts, hwin => by
    cases ps with
    | nil => simp at hp
    | cons p ps =>
      cases wins with
      | nil => simp at hw
      | cons w wins =>
        simp only [splitLens, List.zipWith_cons_cons, Parts] at hparts ⊢
        obtain ⟨hc, _, hne, hrest⟩ := hparts
        simp only [blockWins] at hwin
        obtain ⟨hb, hd⟩ := withinW_replicate_append n children w _ hwin
        have ih := within_blocks ns (children.drop n) ps wins (by simpa using hp) (by simpa using hw) hrest hd
        refine ⟨?_, ?_, ih⟩
        · -- the parent starts where its first child starts
          cases hbk : children.take n with
          | nil => exact absurd hbk hne
          | cons c cs =>
            rw [hbk] at hc
            have := (hb c (by rw [hbk]; simp)).1
            have hs : c.start = (summarize p (c :: cs)).start := hc.1
            omega
        · obtain ⟨e, he, hee⟩ := contig_last _ _ _ hc hne
          have := (hb e he).2
          omega

/-! ### two tilings with the same number of segments, one inside the other, are equal -/

theorem tilings_eq : ∀ (xs : List Entry) (ws : List (Int × Int)) (a b : Int),
    Contig xs a b → WithinW xs ws →
    -- the windows tile [a,b) as well
    (∀ (ys : List Entry), ys.map (fun e => (e.start, e.start + e.duration)) = ws → Contig ys a b →
      xs.map (fun e => (e.start, e.duration)) = ys.map (fun e => (e.start, e.duration)))
  | [], [], _, _, _, _, ys, hy, _ => by
    have : ys = [] := by simpa using hy
    simp [this]
  | x :: xs, w :: ws, a, b, hc, hw, ys, hy, hcy => by
    cases ys with
    | nil => simp at hy
    | cons y ys =>
      simp only [List.map_cons, List.cons.injEq] at hy
      obtain ⟨hy1, hy2⟩ := hy
      obtain ⟨hx1, hx2, hx3⟩ := hc
      obtain ⟨hz1, hz2, hz3⟩ := hcy
      obtain ⟨hw1, hw2, hw3⟩ := hw
      have hwa : w.1 = y.start := by rw [← hy1]
      have hwb : w.2 = y.start + y.duration := by rw [← hy1]
      -- x.duration ≤ y.duration from the window; ≥ from the next segment (or the common end)
      have hle : x.duration ≤ y.duration := by omega
      have hge : y.duration ≤ x.duration := by
        cases xs with
        | nil =>
          cases ys with
          | nil =>
            have e1 : a + x.duration = b := hx3
            have e2 : a + y.duration = b := hz3
            omega
          | cons y' ys' =>
            have := withinW_length _ _ hw3
            rw [← hy2] at this; simp at this
        | cons x' xs' =>
          cases ys with
          | nil =>
            have := withinW_length _ _ hw3
            rw [← hy2] at this; simp at this
          | cons y' ys' =>
            cases ws with
            | nil => simp at hy2
            | cons w' ws' =>
              simp only [List.map_cons, List.cons.injEq] at hy2
              have hw'1 := hw3.1
              have : w'.1 = y'.start := by rw [← hy2.1]
              have hx' := hx3.1
              have hy' := hz3.1
              omega
      have hd : x.duration = y.duration := by omega
      have ih := tilings_eq xs ws (a + x.duration) b hx3 hw3 ys hy2 (by rw [hd]; exact hz3)
      simp only [List.map_cons, List.cons.injEq, Prod.mk.injEq]
      exact ⟨⟨by omega, hd⟩, ih⟩
  | [], _ :: _, _, _, _, hw, _, _, _ => False.elim hw
  | _ :: _, [], _, _, _, hw, _, _, _ => False.elim hw

end SSVerif.Align
