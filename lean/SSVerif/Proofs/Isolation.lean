import SSVerif.Model.Isolation
/-!
Generic theorems about the dataflow model of `SSVerif.Model.Isolation`, for **every** system `S`
whose tables satisfy the stated (decidable) well-formedness conditions, every constant assignment `K`,
every semantics `sem`, every history.  Instantiated for the decoder in `SSVerif.Props.C08`.
-/
namespace SSVerif.Isolation

variable {Cell Phase Op Val Inp : Type} [DecidableEq Cell]

/-! ## Layer 1: definedness (no stale read) -/

/-- definedness invariant of a phase: everything that is never killed, and every killable cell the
phase guarantees, holds a value -/
def Inv (S : Sys Cell Phase Op) (ph : Phase) (s : State Cell Val) : Prop :=
  ∀ c, (S.always c = true ∨ c ∈ S.defd ph) → (s c).isSome = true

/-- table conditions for layer 1 -/
structure WF (S : Sys Cell Phase Op) : Prop where
  /-- an operation only reads what its phase guarantees -/
  reads : ∀ ph op ph', S.trans ph op = some ph' →
    ∀ c ∈ (S.spec ph op).reads, S.always c = true ∨ c ∈ S.defd ph
  /-- only killable cells are killed -/
  kills : ∀ ph op, ∀ c ∈ (S.spec ph op).kills, S.always c = false
  /-- what the next phase guarantees is written by the operation, or was guaranteed and is not killed -/
  defd : ∀ ph op ph', S.trans ph op = some ph' → ∀ c ∈ S.defd ph',
    ((S.spec ph op).writes.lookup c).isSome = true ∨ (c ∈ S.defd ph ∧ c ∉ (S.spec ph op).kills)

theorem applySpec_written (K : Cell → Val) (f : Cell → List (Option Val) → Val) (sp : Spec Cell)
    (s : State Cell Val) (c : Cell) (h : (sp.writes.lookup c).isSome = true) :
    (applySpec K f sp s c).isSome = true := by
  unfold applySpec
  cases hw : sp.writes.lookup c with
  | none => rw [hw] at h; cases h
  | some w => cases w <;> rfl

theorem applySpec_untouched (K : Cell → Val) (f : Cell → List (Option Val) → Val) (sp : Spec Cell)
    (s : State Cell Val) (c : Cell) (hw : sp.writes.lookup c = none) (hk : c ∉ sp.kills) :
    applySpec K f sp s c = s c := by
  unfold applySpec
  rw [hw]
  simp [hk]

theorem firstStale_none_of_inv (S : Sys Cell Phase Op) (hwf : WF S) {ph ph' : Phase} {op : Op}
    {s : State Cell Val} (ht : S.trans ph op = some ph') (hinv : Inv S ph s) :
    firstStale (S.spec ph op) s = none := by
  unfold firstStale
  rw [List.find?_eq_none]
  intro c hc
  have := hinv c (hwf.reads ph op ph' ht c hc)
  cases hs : s c with
  | none => rw [hs] at this; cases this
  | some v => simp

theorem step_ok_of_inv (S : Sys Cell Phase Op) (hwf : WF S) (K : Cell → Val)
    (sem : Op → Inp → Cell → List (Option Val) → Val) {ph ph' : Phase} {op : Op} (i : Inp)
    {s : State Cell Val} (ht : S.trans ph op = some ph') (hinv : Inv S ph s) :
    step S K sem (ph, s) op i = .ok (ph', applySpec K (sem op i) (S.spec ph op) s) := by
  unfold step
  simp only [ht, firstStale_none_of_inv S hwf ht hinv]

theorem inv_applySpec (S : Sys Cell Phase Op) (hwf : WF S) (K : Cell → Val)
    (f : Cell → List (Option Val) → Val) {ph ph' : Phase} {op : Op}
    {s : State Cell Val} (ht : S.trans ph op = some ph') (hinv : Inv S ph s) :
    Inv S ph' (applySpec K f (S.spec ph op) s) := by
  intro c hc
  cases hw : (S.spec ph op).writes.lookup c with
  | some w => exact applySpec_written K f _ s c (by rw [hw]; rfl)
  | none =>
    cases hc with
    | inl ha =>
      have hk : c ∉ (S.spec ph op).kills := by
        intro hmem
        have := hwf.kills ph op c hmem
        rw [ha] at this; cases this
      rw [applySpec_untouched K f _ s c hw hk]
      exact hinv c (Or.inl ha)
    | inr hd =>
      cases hwf.defd ph op ph' ht c hd with
      | inl h => rw [hw] at h; cases h
      | inr h =>
        rw [applySpec_untouched K f _ s c hw h.2]
        exact hinv c (Or.inr h.1)

/-- a step from a state satisfying the invariant either is refused by the protocol or succeeds and
re-establishes the invariant; it never reports a stale read -/
theorem step_cases (S : Sys Cell Phase Op) (hwf : WF S) (K : Cell → Val)
    (sem : Op → Inp → Cell → List (Option Val) → Val) (ph : Phase) (op : Op) (i : Inp)
    (s : State Cell Val) (hinv : Inv S ph s) :
    step S K sem (ph, s) op i = .error .protocol ∨
    ∃ ph' s', step S K sem (ph, s) op i = .ok (ph', s') ∧ S.trans ph op = some ph' ∧ Inv S ph' s' := by
  cases ht : S.trans ph op with
  | none => left; unfold step; simp only [ht]
  | some ph' =>
    right
    exact ⟨ph', _, step_ok_of_inv S hwf K sem i ht hinv, rfl, inv_applySpec S hwf K _ ht hinv⟩

/-- **no stale read**: from a state satisfying the invariant no history ever reads an undefined cell -/
theorem run_never_stale (S : Sys Cell Phase Op) (hwf : WF S) (K : Cell → Val)
    (sem : Op → Inp → Cell → List (Option Val) → Val) :
    ∀ (ops : List (Op × Inp)) (ph : Phase) (s : State Cell Val), Inv S ph s →
      ∀ c, run S K sem (ph, s) ops ≠ .error (.stale c) := by
  intro ops
  induction ops with
  | nil => intro ph s _ c h; simp [run] at h
  | cons x rest ih =>
    intro ph s hinv c
    obtain ⟨op, i⟩ := x
    unfold run
    cases step_cases S hwf K sem ph op i s hinv with
    | inl h => rw [h]; intro h2; cases h2
    | inr h =>
      obtain ⟨ph', s', hs, _, hinv'⟩ := h
      rw [hs]
      exact ih ph' s' hinv' c

/-- the invariant holds after every successful history -/
theorem run_inv (S : Sys Cell Phase Op) (hwf : WF S) (K : Cell → Val)
    (sem : Op → Inp → Cell → List (Option Val) → Val) :
    ∀ (ops : List (Op × Inp)) (ph : Phase) (s : State Cell Val) (ph' : Phase) (s' : State Cell Val),
      Inv S ph s → run S K sem (ph, s) ops = .ok (ph', s') → Inv S ph' s' := by
  intro ops
  induction ops with
  | nil =>
    intro ph s ph' s' hinv h
    simp only [run, Except.ok.injEq, Prod.mk.injEq] at h
    obtain ⟨rfl, rfl⟩ := h
    exact hinv
  | cons x rest ih =>
    intro ph s ph' s' hinv h
    obtain ⟨op, i⟩ := x
    unfold run at h
    cases step_cases S hwf K sem ph op i s hinv with
    | inl he => rw [he] at h; cases h
    | inr hs =>
      obtain ⟨ph1, s1, hs, _, hinv1⟩ := hs
      rw [hs] at h
      exact ih ph1 s1 ph' s' hinv1 h

/-! ## Layer 2: non-interference -/

/-- two states agree on the cells selected by `X` -/
def Agree (X : Cell → Bool) (s₁ s₂ : State Cell Val) : Prop := ∀ c, X c = true → s₁ c = s₂ c

/-- dependency condition for one cell (Boolean, so that table checks are by `decide`): the new content of
`c` is a constant, or a function of `X`-cells only, or `c` is untouched and itself in `X`, or killed -/
def flowCell (X : Cell → Bool) (sp : Spec Cell) (c : Cell) : Bool :=
  match sp.writes.lookup c with
  | some .const => true
  | some (.fn deps) => deps.all X
  | none => X c || decide (c ∈ sp.kills)

/-- dependency condition of one specification: every `Y`-cell afterwards is determined by `X`-cells before -/
def FlowOK (X Y : Cell → Bool) (sp : Spec Cell) : Prop :=
  ∀ c, Y c = true → flowCell X sp c = true

omit [DecidableEq Cell] in
theorem map_congr_agree {X : Cell → Bool} {s₁ s₂ : State Cell Val} (h : Agree X s₁ s₂) :
    ∀ deps : List Cell, (∀ d ∈ deps, X d = true) → deps.map s₁ = deps.map s₂ := by
  intro deps hd
  apply List.map_congr_left
  intro d hmem
  exact h d (hd d hmem)

/-- the one-step non-interference lemma -/
theorem applySpec_agree (K : Cell → Val) (f : Cell → List (Option Val) → Val) (sp : Spec Cell)
    (X Y : Cell → Bool) (hflow : FlowOK X Y sp) {s₁ s₂ : State Cell Val} (h : Agree X s₁ s₂) :
    Agree Y (applySpec K f sp s₁) (applySpec K f sp s₂) := by
  intro c hc
  have := hflow c hc
  unfold flowCell at this
  unfold applySpec
  cases hw : sp.writes.lookup c with
  | some w =>
    rw [hw] at this
    cases w with
    | const => rfl
    | fn deps =>
      simp only [List.all_eq_true] at this
      simp only
      rw [map_congr_agree h deps this]
  | none =>
    rw [hw] at this
    simp only [Bool.or_eq_true, decide_eq_true_eq] at this
    simp only
    cases this with
    | inl hx => rw [h c hx]
    | inr hk => simp [hk]

/-- table condition for layer 2: inside an utterance nothing flows from outside `data` into `data` -/
def FlowClosed (S : Sys Cell Phase Op) (data : Cell → Bool) : Prop :=
  ∀ ph op ph', S.trans ph op = some ph' → FlowOK data data (S.spec ph op)

/-- two runs of the same operations from the same phase and from states that agree on `data`, both
satisfying the definedness invariant: same outcome (same error, or same final phase and agreement on `data`) -/
theorem run_agree (S : Sys Cell Phase Op) (hwf : WF S) (K : Cell → Val)
    (sem : Op → Inp → Cell → List (Option Val) → Val) (data : Cell → Bool)
    (hflow : FlowClosed S data) :
    ∀ (ops : List (Op × Inp)) (ph : Phase) (s₁ s₂ : State Cell Val), Inv S ph s₁ → Inv S ph s₂ →
      Agree data s₁ s₂ →
      (run S K sem (ph, s₁) ops = .error .protocol ∧ run S K sem (ph, s₂) ops = .error .protocol) ∨
      ∃ ph' t₁ t₂, run S K sem (ph, s₁) ops = .ok (ph', t₁) ∧ run S K sem (ph, s₂) ops = .ok (ph', t₂) ∧
        Agree data t₁ t₂ := by
  intro ops
  induction ops with
  | nil =>
    intro ph s₁ s₂ _ _ hag
    right
    exact ⟨ph, s₁, s₂, rfl, rfl, hag⟩
  | cons x rest ih =>
    intro ph s₁ s₂ h1 h2 hag
    obtain ⟨op, i⟩ := x
    cases ht : S.trans ph op with
    | none =>
      left
      constructor <;> (unfold run step; simp only [ht])
    | some ph' =>
      have e1 := step_ok_of_inv S hwf K sem i ht h1
      have e2 := step_ok_of_inv S hwf K sem i ht h2
      have hag' := applySpec_agree K (sem op i) (S.spec ph op) data data (hflow ph op ph' ht) hag
      have i1 := inv_applySpec S hwf K (sem op i) ht h1
      have i2 := inv_applySpec S hwf K (sem op i) ht h2
      have := ih ph' _ _ i1 i2 hag'
      unfold run
      rw [e1, e2]
      exact this

/-- two runs have the same outcome: both refused by the protocol, or both succeed in the same phase
with states that agree on `data` -/
def SameOutcome (data : Cell → Bool)
    (r₁ r₂ : Except (Err Cell) (Phase × State Cell Val)) : Prop :=
  (r₁ = .error .protocol ∧ r₂ = .error .protocol) ∨
  ∃ ph' t₁ t₂, r₁ = .ok (ph', t₁) ∧ r₂ = .ok (ph', t₂) ∧ Agree data t₁ t₂

theorem run_sameOutcome (S : Sys Cell Phase Op) (hwf : WF S) (K : Cell → Val)
    (sem : Op → Inp → Cell → List (Option Val) → Val) (data : Cell → Bool)
    (hflow : FlowClosed S data) (ops : List (Op × Inp)) (ph : Phase) (s₁ s₂ : State Cell Val)
    (h1 : Inv S ph s₁) (h2 : Inv S ph s₂) (hag : Agree data s₁ s₂) :
    SameOutcome data (run S K sem (ph, s₁) ops) (run S K sem (ph, s₂) ops) :=
  run_agree S hwf K sem data hflow ops ph s₁ s₂ h1 h2 hag

/-- one leading operation that is accepted from two (possibly different) phases with the same
specification and the same successor phase, and that turns agreement on `X` into agreement on `Y` -/
theorem run_cons_sameOutcome (S : Sys Cell Phase Op) (hwf : WF S) (K : Cell → Val)
    (sem : Op → Inp → Cell → List (Option Val) → Val) (data X Y : Cell → Bool)
    (op : Op) (i : Inp) (ph₁ ph₂ ph' : Phase)
    (ht₁ : S.trans ph₁ op = some ph') (ht₂ : S.trans ph₂ op = some ph')
    (hspec : S.spec ph₁ op = S.spec ph₂ op) (hf : FlowOK X Y (S.spec ph₁ op))
    (s₁ s₂ : State Cell Val) (hi₁ : Inv S ph₁ s₁) (hi₂ : Inv S ph₂ s₂) (hag : Agree X s₁ s₂)
    (ops : List (Op × Inp))
    (hcont : ∀ t₁ t₂, Inv S ph' t₁ → Inv S ph' t₂ → Agree Y t₁ t₂ →
      SameOutcome data (run S K sem (ph', t₁) ops) (run S K sem (ph', t₂) ops)) :
    SameOutcome data (run S K sem (ph₁, s₁) ((op, i) :: ops)) (run S K sem (ph₂, s₂) ((op, i) :: ops)) := by
  have e1 := step_ok_of_inv S hwf K sem i ht₁ hi₁
  have e2 := step_ok_of_inv S hwf K sem i ht₂ hi₂
  have i1 := inv_applySpec S hwf K (sem op i) ht₁ hi₁
  have i2 := inv_applySpec S hwf K (sem op i) ht₂ hi₂
  have hag' := applySpec_agree K (sem op i) (S.spec ph₁ op) X Y hf hag
  unfold run
  rw [e1, e2]
  rw [← hspec] at i2 ⊢
  exact hcont _ _ i1 i2 hag'

/-! ## cells that rest at their canonical value between utterances (`finish_clears_search`) -/

/-- between utterances every cell of `rest` holds its canonical constant -/
def RestInv (K : Cell → Val) (between : Phase → Bool) (rest : List Cell) (ph : Phase)
    (s : State Cell Val) : Prop :=
  between ph = true → ∀ c ∈ rest, s c = some (K c)

/-- Boolean form of the condition below for one cell -/
def restCell (S : Sys Cell Phase Op) (between : Phase → Bool) (ph : Phase) (op : Op) (c : Cell) : Bool :=
  match (S.spec ph op).writes.lookup c with
  | some .const => true
  | some (.fn _) => false
  | none => between ph && !decide (c ∈ (S.spec ph op).kills)

/-- table condition: an operation that ends between utterances either writes the canonical constant
into a `rest` cell or started between utterances and leaves it alone -/
def RestOK (S : Sys Cell Phase Op) (between : Phase → Bool) (rest : List Cell) : Prop :=
  ∀ ph op ph', S.trans ph op = some ph' → between ph' = true → ∀ c ∈ rest,
    restCell S between ph op c = true

theorem run_rest (S : Sys Cell Phase Op) (K : Cell → Val)
    (sem : Op → Inp → Cell → List (Option Val) → Val) (between : Phase → Bool)
    (rest : List Cell) (hrest : RestOK S between rest) :
    ∀ (ops : List (Op × Inp)) (ph : Phase) (s : State Cell Val) (ph' : Phase) (s' : State Cell Val),
      RestInv K between rest ph s → run S K sem (ph, s) ops = .ok (ph', s') →
      RestInv K between rest ph' s' := by
  intro ops
  induction ops with
  | nil =>
    intro ph s ph' s' hinv h
    simp only [run, Except.ok.injEq, Prod.mk.injEq] at h
    obtain ⟨rfl, rfl⟩ := h
    exact hinv
  | cons x tl ih =>
    intro ph s ph' s' hinv h
    obtain ⟨op, i⟩ := x
    unfold run at h
    cases hs : step S K sem (ph, s) op i with
    | error e => rw [hs] at h; cases h
    | ok cfg1 =>
      rw [hs] at h
      obtain ⟨ph1, s1⟩ := cfg1
      refine ih ph1 s1 ph' s' ?_ h
      -- one step
      unfold step at hs
      cases ht : S.trans ph op with
      | none => simp only [ht] at hs; cases hs
      | some phn =>
        simp only [ht] at hs
        cases hf : firstStale (S.spec ph op) s with
        | some c => simp only [hf] at hs; cases hs
        | none =>
          simp only [hf, Except.ok.injEq, Prod.mk.injEq] at hs
          obtain ⟨rfl, rfl⟩ := hs
          intro hb c hc
          have := hrest ph op phn ht hb c hc
          unfold restCell at this
          unfold applySpec
          cases hw : (S.spec ph op).writes.lookup c with
          | some w =>
            rw [hw] at this
            cases w with
            | const => rfl
            | fn deps => cases this
          | none =>
            rw [hw] at this
            simp only [Bool.and_eq_true, Bool.not_eq_true', decide_eq_false_iff_not] at this
            simp only [this.2, if_false]
            exact hinv this.1 c hc

/-! ## several instances -/

variable {I : Type} [DecidableEq I]

/-- table condition for one operation: in no phase does it write or kill a shared (global) cell -/
def OpNoGlobalWrite (S : Sys Cell Phase Op) (isG : Cell → Bool) (op : Op) : Prop :=
  ∀ ph c, isG c = true → (S.spec ph op).writes.lookup c = none ∧ c ∉ (S.spec ph op).kills

/-- … for every operation of the system -/
def NoGlobalWrite (S : Sys Cell Phase Op) (isG : Cell → Bool) : Prop :=
  ∀ op, OpNoGlobalWrite S isG op

theorem view_stepI_self (S : Sys Cell Phase Op) (K : Cell → Val)
    (sem : Op → Inp → Cell → List (Option Val) → Val) (isG : Cell → Bool)
    (ms ms' : MState I Cell Phase Val) (i : I) (op : Op) (inp : Inp)
    (h : stepI S K sem isG ms i op inp = .ok ms') :
    step S K sem (ms.phase i, view isG ms i) op inp = .ok (ms'.phase i, view isG ms' i) := by
  unfold stepI at h
  cases hs : step S K sem (ms.phase i, view isG ms i) op inp with
  | error e => rw [hs] at h; cases h
  | ok cfg =>
    rw [hs] at h
    obtain ⟨ph', s'⟩ := cfg
    simp only [Except.ok.injEq] at h
    subst h
    simp only [if_true]
    congr 2
    funext c
    unfold view
    by_cases hg : isG c = true <;> simp [hg]

theorem view_stepI_other (S : Sys Cell Phase Op) (K : Cell → Val)
    (sem : Op → Inp → Cell → List (Option Val) → Val) (isG : Cell → Bool)
    (ms ms' : MState I Cell Phase Val) (i j : I) (hij : j ≠ i) (op : Op) (hng : OpNoGlobalWrite S isG op) (inp : Inp)
    (h : stepI S K sem isG ms i op inp = .ok ms') :
    ms'.phase j = ms.phase j ∧ view isG ms' j = view isG ms j := by
  unfold stepI at h
  cases hs : step S K sem (ms.phase i, view isG ms i) op inp with
  | error e => rw [hs] at h; cases h
  | ok cfg =>
    rw [hs] at h
    obtain ⟨ph', s'⟩ := cfg
    simp only [Except.ok.injEq] at h
    subst h
    refine ⟨by simp [hij], ?_⟩
    funext c
    unfold view
    by_cases hg : isG c = true
    · simp only [hg, if_true]
      -- the shared cell is not touched by the step
      unfold step at hs
      cases ht : S.trans (ms.phase i) op with
      | none => simp only [ht] at hs; cases hs
      | some phn =>
        simp only [ht] at hs
        cases hf : firstStale (S.spec (ms.phase i) op) (view isG ms i) with
        | some c' => simp only [hf] at hs; cases hs
        | none =>
          simp only [hf, Except.ok.injEq, Prod.mk.injEq] at hs
          obtain ⟨_, rfl⟩ := hs
          have := hng (ms.phase i) c hg
          rw [applySpec_untouched K _ _ _ c this.1 this.2]
          unfold view
          simp [hg]
    · simp [hg, hij]

/-- **instances are disjoint**: in any interleaving that succeeds and consists of operations that do not
write shared cells, what instance `i` goes through is exactly its own operations run alone from what
it saw at the beginning -/
theorem runI_project (S : Sys Cell Phase Op) (K : Cell → Val)
    (sem : Op → Inp → Cell → List (Option Val) → Val) (isG : Cell → Bool) (i : I) :
    ∀ (l : List (I × Op × Inp)) (ms ms' : MState I Cell Phase Val),
      (∀ x ∈ l, OpNoGlobalWrite S isG x.2.1) →
      runI S K sem isG ms l = .ok ms' →
      run S K sem (ms.phase i, view isG ms i) (opsOf i l) = .ok (ms'.phase i, view isG ms' i) := by
  intro l
  induction l with
  | nil =>
    intro ms ms' _ h
    simp only [runI, Except.ok.injEq] at h
    subst h
    rfl
  | cons x rest ih =>
    intro ms ms' hq h
    obtain ⟨j, op, inp⟩ := x
    have hop : OpNoGlobalWrite S isG op := hq (j, op, inp) (List.mem_cons_self ..)
    have hrest : ∀ x ∈ rest, OpNoGlobalWrite S isG x.2.1 := fun x hx => hq x (List.mem_cons_of_mem _ hx)
    unfold runI at h
    cases hs : stepI S K sem isG ms j op inp with
    | error e => rw [hs] at h; cases h
    | ok ms1 =>
      rw [hs] at h
      have hrec := ih ms1 ms' hrest h
      unfold opsOf
      by_cases hji : j = i
      · subst hji
        simp only [if_true]
        unfold run
        rw [view_stepI_self S K sem isG ms ms1 j op inp hs]
        exact hrec
      · simp only [hji, if_false]
        have := view_stepI_other S K sem isG ms ms1 j i (fun h => hji h.symm) op hop inp hs
        rw [this.1, this.2] at hrec
        exact hrec

end SSVerif.Isolation
