import SSVerif.Model.Hmm
import SSVerif.Proofs.Viterbi
/-! `hmm_vit_eval_3st_lr` (on `Int`, with clamps and guards) computes the max-plus step when nothing
underflows.  Core Lean only. -/
namespace SSVerif.Hmm
open SSVerif.Generated.Search SSVerif.Viterbi

theorem tprob_le (tp : List Nat) (i j : Nat) : tprob tp i j ≤ 0 := by
  unfold tprob; omega

theorem tprob_ge (tp : List Nat) (h : ∀ x ∈ tp, x ≤ 255) (i j : Nat) : -255 ≤ tprob tp i j := by
  unfold tprob
  have : tp.getD (i * 4 + j) 255 ≤ 255 := by
    rw [List.getD_eq_getElem?_getD]
    cases hx : tp[i * 4 + j]? with
    | none => simp
    | some x => simp; exact h x (List.mem_of_getElem? hx)
  omega

/-- `rep` commutes with the strict-comparison maximum of the C code -/
theorem rep_max (a b : Int) : rep (if a > b then a else b) = omax (rep a) (rep b) := by
  unfold rep
  by_cases h : a > b
  · simp only [h, if_true]
    by_cases ha : a ≤ worstScore
    · have hb : b ≤ worstScore := by omega
      simp [ha, hb, omax]
    · by_cases hb : b ≤ worstScore
      · simp [ha, hb, omax]
      · simp only [ha, hb, if_false, omax]; congr 1; omega
  · simp only [h, if_false]
    by_cases hb : b ≤ worstScore
    · have ha : a ≤ worstScore := by omega
      simp [ha, hb, omax]
    · by_cases ha : a ≤ worstScore
      · simp [ha, hb, omax]
      · simp only [ha, hb, if_false, omax]; congr 1; omega

theorem rep_clampW (a : Int) : rep (clampW a) = rep a := by
  unfold rep clampW
  by_cases h : a < worstScore
  · have : a ≤ worstScore := by omega
    simp [h, this]
  · simp [h]

theorem rep_intMin : rep intMin = none := by
  unfold rep; simp [intMin, worstScore]

/-- the three-way comparison of `hmm_vit_eval_3st_lr` -/
theorem rep_max3 (t0 t1 t2 : Int) :
    rep (if t0 > t1 then (if t2 > t0 then t2 else t0) else (if t2 > t1 then t2 else t1)) =
      omax (omax (rep t0) (rep t1)) (rep t2) := by
  have comm : ∀ a b : Int, omax (rep a) (rep b) = omax (rep b) (rep a) := by
    intro a b
    unfold rep
    by_cases ha : a ≤ worstScore <;> by_cases hb : b ≤ worstScore <;> simp [ha, hb, omax, Int.max_comm]
  by_cases h : t0 > t1
  · simp only [h, if_true]
    rw [rep_max t2 t0, comm t2 t0]
    have : omax (rep t0) (rep t1) = rep t0 := by
      have := rep_max t0 t1; simp only [h, if_true] at this; exact this.symm
    rw [this]
  · simp only [h, if_false]
    rw [rep_max t2 t1, comm t2 t1]
    have : omax (rep t0) (rep t1) = rep t1 := by
      have := rep_max t0 t1; simp only [h, if_false] at this; exact this.symm
    rw [this]

/-- a state score is either exactly `WORST_SCORE` (inactive) or far enough above it that one frame
(emission `≥ -32768`, transition `≥ -255`) cannot push it to `WORST_SCORE` -/
def NoUf (x : Int) : Prop := x = worstScore ∨ worstScore + 33023 < x

/-- under `NoUf`, adding an emission and a transition cost commutes with `rep` -/
theorem rep_add {x e c : Int} (hx : NoUf x) (he : -32768 ≤ e ∧ e ≤ 0) (hc : -255 ≤ c ∧ c ≤ 0) :
    rep (x + e + c) = oadd (oadd (rep x) e) c := by
  unfold rep oadd
  rcases hx with h | h
  · rw [h]
    have : worstScore + e + c ≤ worstScore := by omega
    simp [this]
  · have h1 : ¬ x + e + c ≤ worstScore := by omega
    have h2 : ¬ x ≤ worstScore := by omega
    simp [h1, h2]

/-- what the search maintains about an HMM between frames: state 2 is only active when state 1 is, and
the exit score is still `WORST_SCORE` (from `hmm_clear`) while state 1 is inactive -/
def Inv (h : St) : Prop := (h.s1 = worstScore → h.s2 = worstScore) ∧ (h.s1 = worstScore → h.out = worstScore)

/-- hypotheses of one evaluation: transition matrix entries are bytes, emissions are negated `int16`
senone scores, no state underflows, and the `t2` temporary is not carried from the exit block into the
state-2 block (the 1→3 skip is only enabled together with the 0→2 skip) -/
structure StepHyp (tp : List Nat) (e : Nat → Int) (h : St) : Prop where
  tpByte : ∀ x ∈ tp, x ≤ 255
  em : ∀ k, -32768 ≤ e k ∧ e k ≤ 0
  s0 : NoUf h.s0
  s1 : NoUf h.s1
  s2 : NoUf h.s2
  skip : skipOK tp 1 3 = true → skipOK tp 0 2 = true

theorem hmmStep_eq_ideal (tp : List Nat) (e : Nat → Int) (h : St) (H : StepHyp tp e h) (hI : Inv h) :
    (hmmStep tp e h).rep = (hmmStepIdeal tp e h.rep).1 ∧
    rep (hmmStep tp e h).out = (hmmStepIdeal tp e h.rep).2 ∧
    Inv (hmmStep tp e h) := by
  have tr := fun i j => And.intro (tprob_ge tp H.tpByte i j) (tprob_le tp i j)
  -- the candidate values
  have c22 := rep_add H.s2 (H.em 2) (tr 2 2)
  have c23 := rep_add H.s2 (H.em 2) (tr 2 3)
  have c12 := rep_add H.s1 (H.em 1) (tr 1 2)
  have c11 := rep_add H.s1 (H.em 1) (tr 1 1)
  have c13 := rep_add H.s1 (H.em 1) (tr 1 3)
  have c02 := rep_add H.s0 (H.em 0) (tr 0 2)
  have c01 := rep_add H.s0 (H.em 0) (tr 0 1)
  have c00 := rep_add H.s0 (H.em 0) (tr 0 0)
  have hk13 : (tprob tp 1 3 > tmatWorstScore) = (skipOK tp 1 3 = true) := by simp [skipOK]
  have hk02 : (tprob tp 0 2 > tmatWorstScore) = (skipOK tp 0 2 = true) := by simp [skipOK]
  have e1 := H.em 1
  have e2 := H.em 2
  -- is state 1 active?
  by_cases hs1 : h.s1 + e 1 > worstScore
  · -- active: the exit score is recomputed
    have hs1' : h.s1 ≠ worstScore := by intro hh; rw [hh] at hs1; omega
    by_cases k13 : skipOK tp 1 3 = true
    · have k02 := H.skip k13
      refine ⟨?_, ?_, ?_⟩
      · simp only [hmmStep, St.rep, hmmStepIdeal, hs1, if_true, hk13, hk02, k13, k02, ISt.mk.injEq]
        refine ⟨?_, ?_, ?_⟩
        · rw [rep_clampW, c00]
        · rw [rep_clampW, rep_max, c11, c01]
        · rw [rep_clampW, rep_max3, c22, c12, c02]
      · simp only [hmmStep, St.rep, hmmStepIdeal, hs1, if_true, hk13, k13]
        rw [rep_clampW, rep_max, c23, c13]
      · constructor
        · intro hh
          exfalso
          simp only [hmmStep] at hh
          have : rep (clampW (if h.s1 + e 1 + tprob tp 1 1 > h.s0 + e 0 + tprob tp 0 1 then h.s1 + e 1 + tprob tp 1 1
                    else h.s0 + e 0 + tprob tp 0 1)) = none := by rw [hh]; simp [rep]
          rw [rep_clampW, rep_max, c11] at this
          rcases H.s1 with h1 | h1
          · exact hs1' h1
          · have hr : rep h.s1 = some h.s1 := by unfold rep; rw [if_neg (by omega)]
            rw [hr] at this
            cases hx : rep (h.s0 + e 0 + tprob tp 0 1) <;> rw [hx] at this <;> simp [oadd, omax] at this
        · intro hh
          exfalso
          simp only [hmmStep] at hh
          have : rep (clampW (if h.s1 + e 1 + tprob tp 1 1 > h.s0 + e 0 + tprob tp 0 1 then h.s1 + e 1 + tprob tp 1 1
                    else h.s0 + e 0 + tprob tp 0 1)) = none := by rw [hh]; simp [rep]
          rw [rep_clampW, rep_max, c11] at this
          rcases H.s1 with h1 | h1
          · exact hs1' h1
          · have hr : rep h.s1 = some h.s1 := by unfold rep; rw [if_neg (by omega)]
            rw [hr] at this
            cases hx : rep (h.s0 + e 0 + tprob tp 0 1) <;> rw [hx] at this <;> simp [oadd, omax] at this
    · have k13' : ¬ (tprob tp 1 3 > tmatWorstScore) := by rw [hk13]; exact k13
      have k13b : skipOK tp 1 3 = false := by simpa using k13
      refine ⟨?_, ?_, ?_⟩
      · simp only [hmmStep, St.rep, hmmStepIdeal, hs1, if_true, k13', if_false, hk02, ISt.mk.injEq]
        refine ⟨?_, ?_, ?_⟩
        · rw [rep_clampW, c00]
        · rw [rep_clampW, rep_max, c11, c01]
        · rw [rep_clampW, rep_max3, c22, c12]
          by_cases k02 : skipOK tp 0 2 = true
          · simp only [k02, if_true]; rw [c02]
          · simp only [k02, Bool.false_eq_true, if_false]; rw [rep_intMin]
      · simp only [hmmStep, St.rep, hmmStepIdeal, hs1, if_true, k13', if_false, k13b]
        rw [rep_clampW, rep_max, c23, rep_intMin]; rfl
      · constructor
        · intro hh
          exfalso
          simp only [hmmStep] at hh
          have : rep (clampW (if h.s1 + e 1 + tprob tp 1 1 > h.s0 + e 0 + tprob tp 0 1 then h.s1 + e 1 + tprob tp 1 1
                    else h.s0 + e 0 + tprob tp 0 1)) = none := by rw [hh]; simp [rep]
          rw [rep_clampW, rep_max, c11] at this
          rcases H.s1 with h1 | h1
          · exact hs1' h1
          · have hr : rep h.s1 = some h.s1 := by unfold rep; rw [if_neg (by omega)]
            rw [hr] at this
            cases hx : rep (h.s0 + e 0 + tprob tp 0 1) <;> rw [hx] at this <;> simp [oadd, omax] at this
        · intro hh
          exfalso
          simp only [hmmStep] at hh
          have : rep (clampW (if h.s1 + e 1 + tprob tp 1 1 > h.s0 + e 0 + tprob tp 0 1 then h.s1 + e 1 + tprob tp 1 1
                    else h.s0 + e 0 + tprob tp 0 1)) = none := by rw [hh]; simp [rep]
          rw [rep_clampW, rep_max, c11] at this
          rcases H.s1 with h1 | h1
          · exact hs1' h1
          · have hr : rep h.s1 = some h.s1 := by unfold rep; rw [if_neg (by omega)]
            rw [hr] at this
            cases hx : rep (h.s0 + e 0 + tprob tp 0 1) <;> rw [hx] at this <;> simp [oadd, omax] at this
  · -- state 1 inactive: the exit score keeps its old value, `t2` stays `INT_MIN`
    have h1 : h.s1 = worstScore := by
      rcases H.s1 with h1 | h1
      · exact h1
      · exfalso; omega
    have h2 : h.s2 = worstScore := hI.1 h1
    have ho : h.out = worstScore := hI.2 h1
    have r1 : rep h.s1 = none := by rw [h1]; simp [rep]
    have r2 : rep h.s2 = none := by rw [h2]; simp [rep]
    refine ⟨?_, ?_, ?_⟩
    · simp only [hmmStep, St.rep, hmmStepIdeal, hs1, if_false, hk02, ISt.mk.injEq]
      refine ⟨?_, ?_, ?_⟩
      · rw [rep_clampW, c00]
      · rw [rep_clampW, rep_max, c11, c01]
      · rw [rep_clampW, rep_max3, c22, c12]
        by_cases k02 : skipOK tp 0 2 = true
        · simp only [k02, if_true]; rw [c02]
        · simp only [k02, Bool.false_eq_true, if_false]; rw [rep_intMin]
    · simp only [hmmStep, St.rep, hmmStepIdeal, hs1, if_false]
      rw [ho, r1, r2]
      simp [rep, oadd, omax]
    · constructor
      · intro hh
        simp only [hmmStep, hs1, if_false] at hh ⊢
        -- new s1 inactive means state 0 was inactive too, hence nothing reaches state 2
        have hn1 : rep (clampW (if h.s1 + e 1 + tprob tp 1 1 > h.s0 + e 0 + tprob tp 0 1 then h.s1 + e 1 + tprob tp 1 1
                  else h.s0 + e 0 + tprob tp 0 1)) = none := by rw [hh]; simp [rep]
        rw [rep_clampW, rep_max, c11, c01, r1] at hn1
        have r0 : rep h.s0 = none := by
          cases hx : rep h.s0 with
          | none => rfl
          | some v => rw [hx] at hn1; simp [oadd, omax] at hn1
        have hn2 : rep (clampW (if h.s2 + e 2 + tprob tp 2 2 > h.s1 + e 1 + tprob tp 1 2 then
              (if (if tprob tp 0 2 > tmatWorstScore then h.s0 + e 0 + tprob tp 0 2 else intMin) > h.s2 + e 2 + tprob tp 2 2
                then (if tprob tp 0 2 > tmatWorstScore then h.s0 + e 0 + tprob tp 0 2 else intMin) else h.s2 + e 2 + tprob tp 2 2)
              else (if (if tprob tp 0 2 > tmatWorstScore then h.s0 + e 0 + tprob tp 0 2 else intMin) > h.s1 + e 1 + tprob tp 1 2
                then (if tprob tp 0 2 > tmatWorstScore then h.s0 + e 0 + tprob tp 0 2 else intMin) else h.s1 + e 1 + tprob tp 1 2))) = none := by
          rw [rep_clampW, rep_max3, c22, c12, r1, r2]
          by_cases k : tprob tp 0 2 > tmatWorstScore
          · simp only [k, if_true]; rw [c02, r0]; rfl
          · simp only [k, if_false]; rw [rep_intMin]; rfl
        -- a clamped value with `rep = none` is exactly WORST_SCORE
        have clampNone : ∀ x, rep (clampW x) = none → clampW x = worstScore := by
          intro x hx
          unfold rep at hx
          unfold clampW at hx ⊢
          by_cases hlt : x < worstScore
          · simp [hlt]
          · simp only [hlt, if_false] at hx ⊢
            by_cases hle : x ≤ worstScore
            · omega
            · simp [hle] at hx
        exact clampNone _ hn2
      · intro _
        simp only [hmmStep, hs1, if_false]
        exact ho

end SSVerif.Hmm
