import SSVerif.Model.FlatNet
import SSVerif.Proofs.Hmm
import SSVerif.Proofs.Nfa
/-! Lemmas about the flat network: its HMM edges are the ideal max-plus step; labelled alignments project
onto plain alignments; the word arcs of a labelled alignment form a sentence of the FSG. Core Lean only. -/
namespace SSVerif.FlatNet
open SSVerif.Viterbi SSVerif.Hmm SSVerif.Nfa

def vec3 (a0 a1 a2 : Option Int) : Nat → Option Int
  | 0 => a0
  | 1 => a1
  | _ => a2

/-- the `Net` edges emitted for one HMM (`hmmEdges`, `hmmExits`) realise exactly `hmmStepIdeal` -/
theorem hmmEdges_ideal (tp : List Nat) (e : Nat → Int) (a0 a1 a2 : Option Int) :
    let N : Net := ⟨hmmEdges tp 0, [], []⟩
    let v := vec3 a0 a1 a2
    let I := hmmStepIdeal tp e ⟨a0, a1, a2⟩
    stepV N e v 0 = I.1.s0 ∧ stepV N e v 1 = I.1.s1 ∧ stepV N e v 2 = I.1.s2 ∧
    best ((hmmExits tp).map fun (k, c) => (v k).map (· + e k + c)) = I.2 := by
  cases h02 : skipOK tp 0 2 <;> cases h13 : skipOK tp 1 3 <;>
  cases a0 <;> cases a1 <;> cases a2 <;>
  simp [stepV, hmmEdges, hmmExits, hmmStepIdeal, st, best, oadd, vec3, h02, h13, omax, Int.max_comm]

/-! ### labelled ↔ plain alignments -/

theorem LPathTo.forget {L : LNet} {em t j sc ws} (h : LPathTo L em t j sc ws) : PathTo L.toNet em t j sc := by
  induction h with
  | start hm => exact .start hm
  | inner _ he ih => exact .step ih (List.mem_append_left _ he)
  | cross _ he ih => exact .step ih (List.mem_append_right _ he)

theorem PathTo.label {L : LNet} {em t j sc} (h : PathTo L.toNet em t j sc) : ∃ ws, LPathTo L em t j sc ws := by
  induction h with
  | start hm => exact ⟨_, .start hm⟩
  | step _ he ih =>
    obtain ⟨ws, hw⟩ := ih
    rcases List.mem_append.mp he with h | h
    · exact ⟨ws, .inner hw h⟩
    · exact ⟨_, .cross hw h⟩

theorem alignment_iff_labelled (L : LNet) (em : Nat → Nat → Int) (T : Nat) (sc : Int) :
    Alignment L.toNet em T sc ↔ ∃ ws, LAlignment L em T sc ws := by
  constructor
  · intro h
    cases h with
    | mk hp hx =>
      obtain ⟨ws, hw⟩ := PathTo.label hp
      exact ⟨ws, .mk hw hx⟩
  · rintro ⟨ws, h⟩
    cases h with
    | mk hp hx => exact .mk hp.forget hx

/-! ### the word arcs of an alignment form a sentence of the FSG -/

theorem hopOK_reach {M : Model} {s d : Nat} (h : hopOK M s d = true) : Reach (fsgNfa M) s [] d := by
  unfold hopOK at h
  simp only [Bool.or_eq_true, beq_iff_eq, List.any_eq_true, Bool.and_eq_true] at h
  rcases h with h | ⟨a, ha, ⟨hw, hs⟩, hd⟩
  · subst h; exact .refl
  · refine .eps (q' := d) ?_ .refl
    simp only [fsgNfa, List.mem_map]
    refine ⟨a, ha, ?_⟩
    have : a.wid = none := by simpa using hw
    rw [this, hs, hd]

theorem isWordArc_mem {M : Model} {k : Nat} (h : isWordArc M k = true) :
    ((arcAt M k).src, some (widOf M k), (arcAt M k).dst) ∈ (fsgNfa M).arcs := by
  unfold isWordArc at h
  simp only [Bool.and_eq_true, decide_eq_true_eq] at h
  obtain ⟨hk, hw⟩ := h
  simp only [fsgNfa, List.mem_map]
  refine ⟨arcAt M k, ?_, ?_⟩
  · unfold arcAt
    rw [List.getD_eq_getElem?_getD, List.getElem?_eq_getElem hk]
    exact List.getElem_mem hk
  · unfold widOf
    cases hx : (arcAt M k).wid with
    | none => rw [hx] at hw; cases hw
    | some w => rfl

theorem labelsOK_spec {M : Model} {L : LNet} (h : labelsOK M L = true) :
    (∀ e ∈ L.init, isWordArc M (L.lab e.1) = true ∧ hopOK M M.start (arcAt M (L.lab e.1)).src = true) ∧
    (∀ e ∈ L.inner, L.lab e.1 = L.lab e.2.1) ∧
    (∀ e ∈ L.cross, isWordArc M (L.lab e.2.1) = true ∧
        hopOK M (arcAt M (L.lab e.1)).dst (arcAt M (L.lab e.2.1)).src = true) ∧
    (∀ e ∈ L.exits, hopOK M (arcAt M (L.lab e.1)).dst M.final = true) := by
  unfold labelsOK at h
  simp only [Bool.and_eq_true, List.all_eq_true, beq_iff_eq] at h
  obtain ⟨⟨⟨h1, h2⟩, h3⟩, h4⟩ := h
  exact ⟨h1, h2, h3, h4⟩

/-- invariant of a labelled path: the arcs before the current one spell a word sequence that leads from
the start state to the source of the current word arc -/
theorem LPathTo.reach {M : Model} {L : LNet} (hL : labelsOK M L = true) {em t j sc ws}
    (h : LPathTo L em t j sc ws) :
    ∃ pre, ws = pre ++ [L.lab j] ∧ isWordArc M (L.lab j) = true ∧
      Reach (fsgNfa M) M.start (pre.map (widOf M)) (arcAt M (L.lab j)).src := by
  obtain ⟨hi, hin, hc, _⟩ := labelsOK_spec hL
  induction h with
  | start hm =>
    rename_i s c
    obtain ⟨h1, h2⟩ := hi (s, c) hm
    exact ⟨[], rfl, h1, hopOK_reach h2⟩
  | inner hp he ih =>
    rename_i t i j c sc ws
    obtain ⟨pre, h1, h2, h3⟩ := ih
    have hl : L.lab i = L.lab j := hin (i, j, c) he
    rw [← hl]
    exact ⟨pre, h1, h2, h3⟩
  | cross hp he ih =>
    rename_i t i j c sc ws
    obtain ⟨pre, h1, h2, h3⟩ := ih
    obtain ⟨hw, hh⟩ := hc (i, j, c) he
    refine ⟨ws, rfl, hw, ?_⟩
    rw [h1, List.map_append, List.map_singleton]
    have step : Reach (fsgNfa M) (arcAt M (L.lab i)).src [widOf M (L.lab i)] (arcAt M (L.lab j)).src :=
      .sym (isWordArc_mem h2) (hopOK_reach hh)
    exact Reach.trans h3 step

theorem alignment_sentence {M : Model} {L : LNet} (hL : labelsOK M L = true) {em T sc ws}
    (h : LAlignment L em T sc ws) : Accepts (fsgNfa M) (ws.map (widOf M)) := by
  cases h with
  | mk hp hx =>
    rename_i i c sc0
    obtain ⟨pre, h1, h2, h3⟩ := hp.reach hL
    obtain ⟨_, _, _, he⟩ := labelsOK_spec hL
    have hf := he (i, c) hx
    unfold Accepts
    rw [h1, List.map_append, List.map_singleton]
    have step : Reach (fsgNfa M) (arcAt M (L.lab i)).src [widOf M (L.lab i)] M.final :=
      .sym (isWordArc_mem h2) (hopOK_reach hf)
    exact Reach.trans h3 step

end SSVerif.FlatNet
