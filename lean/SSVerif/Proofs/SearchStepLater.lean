import SSVerif.Proofs.Search
import SSVerif.Model.SearchLater
/-! # A token spends at least one frame in an HMM before it leaves it (round 3, `m10later`)

The exit clause `EvalOut` of the step relation (Model/Search.lean) says that the exit state of a 3-state HMM is fed
from the emitting states 1, 2 only and that of a 5-state HMM from 3, 4 only (`OutFrom`; `hmm_vit_eval_3st_lr`,
`hmm_vit_eval_5st_lr` and their `_mpx` twins) — never from state 0, the only state `hmm_enter` writes.  From that
this file proves, for **every reachable state** of the modelled search over such HMMs (`LaterTopo lt.nst`):

* every live emitting state `j ≥ 1` and a live exit state of every HMM hold the index of a history entry that was
  made at least **two** frames before the current one (`HmmLater`) — state 0 holds one that is at least one frame
  old (`HistOK`, C01);
* every **word entry** of the history table was recorded at least two frames after its predecessor entry
  (`WordDur`): the HMM of the first phone is entered (`fsg_search_word_trans`, `hmm_enter(…, frame + 1)`) for the frame
  after the predecessor's, and the earliest frame in which `fsg_search_pnode_exit` can see a live exit score of an HMM
  is the frame after the one it was entered for (3-state HMM with the skip 1 → 3; one frame more without skips).
  So every word segment `[pred.frame + 1, frame]` spans at least two frames;
* no entry has a frame below −1 (`FramesGe`), hence every word entry has frame `≥ 1` (`laterInv_wordFrame`) — the
  clause `HistWF` (C11) needs.

`laterInvB` decides the invariant; the C01 driver evaluates it on every state dumped from the real search. -/
namespace SSVerif.Search
open SSVerif.Hist
open SSVerif.Generated.Search (worstScore)

namespace Later

theorem wordDurB_iff (g : Fsg) (h : Hist) : wordDurB g h = true ↔ WordDur g h := by
  unfold wordDurB WordDur
  simp only [List.all_eq_true, List.mem_range, Bool.or_eq_true, beq_iff_eq]
  constructor
  · intro H i hi h0 lid hl hw
    rcases H i hi with hz | hm
    · omega
    · rw [hl] at hm
      simp only [Bool.or_eq_true, decide_eq_true_eq] at hm
      rcases hm with hm | hm
      · exact absurd hm hw
      · exact hm
  · intro H i hi
    rcases Nat.eq_zero_or_pos i with hz | hz
    · exact Or.inl hz
    · right
      cases hl : (ent h i).link with
      | none => rfl
      | some lid =>
        simp only [Bool.or_eq_true, decide_eq_true_eq]
        by_cases hw : (g.link lid).wid < 0
        · exact Or.inl hw
        · exact Or.inr (H i hi hz lid hl hw)

theorem laterInvB_iff (lt : LexTree) (g : Fsg) (s : SState) : laterInvB lt g s = true ↔ LaterInv lt g s := by
  unfold laterInvB
  simp only [Bool.and_eq_true, decide_eq_true_eq, wordDurB_iff]
  exact ⟨fun ⟨⟨a, b⟩, c⟩ => ⟨a, b, c⟩, fun ⟨a, b, c⟩ => ⟨⟨a, b⟩, c⟩⟩

theorem hmmLater_of_clear {lt : LexTree} {s : SState} {p : Nat} (h : s.hmm p = Hmm.clear lt.nst) :
    HmmLater lt s p := by
  unfold HmmLater
  rw [h]
  exact ⟨fun j _ _ hl => absurd hl (clear_not_live _ _), fun hl => absurd hl (clear_out_not_live _)⟩

/-- an index allowed by `OutFrom` for a 3- or 5-state HMM is not state 0 -/
theorem outFrom_pos {n i : Nat} (hn : LaterTopo n) (h : OutFrom n i) : 0 < i := by
  rcases hn with hn | hn
  · have := h.1 hn; omega
  · have := h.2 hn; omega

/-- the exit state of a pnode evaluated in this frame, if live afterwards, points to an entry of the OLD table that
is at least two frames older than the frame just searched -/
theorem out_two_old {lt : LexTree} {g : Fsg} {s s' : SState} (hn : LaterTopo lt.nst) (inv : HmmsInv lt g s)
    (li : ∀ p, p < lt.nodes.size → HmmLater lt s p) (st : HmmsStep lt g s s')
    {p : Nat} (hpa : p ∈ s.active) (hpa' : p ∈ s'.active) (hl : live (s'.hmm p).outScore) :
    (ent s.hist (s'.hmm p).outHist.toNat).frame + 2 ≤ s.frame := by
  obtain ⟨_, hact, _⟩ := inv
  obtain ⟨_, _, hstep⟩ := st
  have hpN := (hact p hpa).1
  have hout := ((hstep p hpN).2 hpa').2.2.1
  simp only [hpa, if_true] at hout
  rcases hout with ⟨heq, hlv⟩ | ⟨i, hi, hfrom, heq, hlv⟩
  · rw [heq]; exact (li p hpN).2 (hlv hl)
  · rw [heq]; exact (li p hpN).1 i (List.mem_range.1 hi) (outFrom_pos hn hfrom) (hlv hl)

/-- `fsg_search_start` establishes the invariant -/
theorem start_later {shift : Nat} {lt : LexTree} {g : Fsg} {s0 s : SState} (h0 : AllCleared lt s0)
    (st : StartRel shift lt g s0 s) : LaterInv lt g s := by
  obtain ⟨hfr, ⟨d0, nulls, htab, hd0, hnl⟩, _, hact, hpn⟩ := st
  obtain ⟨_, _, h0cl⟩ := h0
  have he0 : ent #[d0] 0 = d0 := rfl
  refine ⟨?_, ?_, ?_⟩
  · intro i hlt hi lid hlid hw
    exfalso
    rw [htab, size_foldl_push] at hlt
    have hm := ent_foldl_push_mem nulls #[d0] (i := i) (by simp; omega) hlt
    rw [← htab] at hm
    obtain ⟨lid', c1, _, c3, _⟩ := nullOK_elim (hnl _ hm)
    rw [c1] at hlid
    cases hlid
    exact hw c3
  · intro i hlt
    rw [htab, size_foldl_push] at hlt
    rcases Nat.eq_zero_or_pos i with hz | hz
    · subst hz
      rw [htab, ent_foldl_push_lt nulls #[d0] (by simp), he0, hd0.2.1]
      omega
    · have hm := ent_foldl_push_mem nulls #[d0] (i := i) (by simp; omega) hlt
      rw [← htab] at hm
      obtain ⟨_, _, _, _, _, _, c6, _, c8⟩ := nullOK_elim (hnl _ hm)
      have hz' : (ent s.hist i).pred.toNat = 0 := by simp at c6; omega
      rw [c8, hz', he0, hd0.2.1]
      omega
  · intro p hpN
    obtain ⟨hrest, hent⟩ := hpn p hpN
    by_cases hpa : p ∈ s.active
    · obtain ⟨_, hout, hinner, _⟩ := hent hpa
      refine ⟨?_, ?_⟩
      · intro j hj hj0 hl
        rw [hinner j hj hj0, h0cl p hpN] at hl
        exact absurd hl (clear_not_live _ _)
      · intro hl
        rw [hout, h0cl p hpN] at hl
        exact absurd hl (clear_out_not_live _)
    · exact hmmLater_of_clear (by rw [hrest hpa]; exact h0cl p hpN)

/-- **one frame keeps the invariant** (3- or 5-state HMMs) -/
theorem step_later {shift : Nat} {lt : LexTree} {g : Fsg} {s s' : SState} (lok : LexTreeOK lt g)
    (hn : LaterTopo lt.nst) (inv : SearchInv lt g s) (st : StepRel shift lt g s s') (ih : LaterInv lt g s) :
    LaterInv lt g s' := by
  obtain ⟨wf, hinv⟩ := inv
  obtain ⟨hfr, htab0, hst⟩ := st
  obtain ⟨hD, hG, hH⟩ := ih
  obtain ⟨_, hsz', hext⟩ := table_step_wf lok wf hinv hst htab0
  have hcur0 : 0 ≤ s.frame := by
    have := wf.below 0 wf.nonempty
    have := wf.root.2.1
    omega
  obtain ⟨exits, nulls, htab, hex, hnl⟩ := htab0
  have hsz1 := size_foldl_push exits s.hist
  have hsz2 := size_foldl_push nulls (exits.foldl Array.push s.hist)
  have hmid : ∀ j, j < (exits.foldl Array.push s.hist).size →
      ent s'.hist j = ent (exits.foldl Array.push s.hist) j := by
    intro j hj
    rw [htab, ent_foldl_push_lt nulls _ hj]
  have hexfr : ∀ b, s.hist.size ≤ b → b < (exits.foldl Array.push s.hist).size → (ent s'.hist b).frame = s.frame := by
    intro b hb1 hb2
    rw [hmid b hb2]
    have hm := ent_foldl_push_mem exits s.hist hb1 (by omega)
    obtain ⟨_, _, _, _, _, hfr', _⟩ := hex _ hm
    exact hfr'
  obtain ⟨hsz, hact, hpn⟩ := hinv
  refine ⟨?_, ?_, ?_⟩
  · -- WordDur
    intro i hlt hi lid hlid hw
    have hlt' : i < (exits.foldl Array.push s.hist).size + nulls.length := by
      rw [htab, hsz2] at hlt; exact hlt
    by_cases h1 : i < s.hist.size
    · -- an old entry; its predecessor is older
      obtain ⟨_, _, _, _, hp2, _⟩ := wf.step i hi h1
      rw [hext i h1] at hlid ⊢
      rw [hext _ (by omega)]
      exact hD i h1 hi lid hlid hw
    · by_cases h2 : i < (exits.foldl Array.push s.hist).size
      · -- a word exit of this frame
        have hm := ent_foldl_push_mem exits s.hist (i := i) (by omega) (by omega)
        rw [← hmid i h2] at hm
        obtain ⟨p, hpa, hpa', _, _, hef, hpred, hlive, _⟩ := hex _ hm
        have hold := out_old_ok ⟨hsz, hact, hpn⟩ hst hpa hpa' hlive
        have htwo := out_two_old hn ⟨hsz, hact, hpn⟩ hH hst hpa hpa' hlive
        rw [hef, hpred, hext _ hold.2.1]
        exact htwo
      · -- a null entry
        exfalso
        have hm := ent_foldl_push_mem nulls (exits.foldl Array.push s.hist) (i := i) (by omega) hlt'
        rw [← htab] at hm
        obtain ⟨lid', c1, _, c3, _⟩ := nullOK_elim (hnl _ hm)
        rw [c1] at hlid
        cases hlid
        exact hw c3
  · -- FramesGe
    intro i hlt
    have hlt' : i < (exits.foldl Array.push s.hist).size + nulls.length := by
      rw [htab, hsz2] at hlt; exact hlt
    by_cases h1 : i < s.hist.size
    · rw [hext i h1]; exact hG i h1
    · by_cases h2 : i < (exits.foldl Array.push s.hist).size
      · rw [hexfr i (by omega) h2]; omega
      · have hm := ent_foldl_push_mem nulls (exits.foldl Array.push s.hist) (i := i) (by omega) hlt'
        rw [← htab] at hm
        obtain ⟨_, _, _, _, _, c5, c6, _, c8⟩ := nullOK_elim (hnl _ hm)
        rw [c8, ← hmid _ c6, hexfr _ c5 c6]
        omega
  · -- the HMMs
    obtain ⟨_, hact', hstep⟩ := hst
    intro p hpN
    obtain ⟨hdrop, hkeep⟩ := hstep p hpN
    by_cases hpa' : p ∈ s'.active
    · obtain ⟨_, hinner, hout, _⟩ := hkeep hpa'
      by_cases hpa : p ∈ s.active
      · refine ⟨?_, ?_⟩
        · intro j hj hj0 hl
          have hin := hinner j hj hj0
          simp only [hpa, if_true] at hin
          obtain ⟨i, hi, heq, hlv⟩ := hin
          have hij : i < lt.nst := by have := List.mem_range.1 hi; omega
          have hok := (hpn p hpN).1.1 i hij (hlv hl)
          rw [heq, hext _ hok.2.1, hfr]
          rcases Nat.eq_zero_or_pos i with hz | hz
          · subst hz
            have := hok.2.2.2
            omega
          · have := (hH p hpN).1 i hij hz (hlv hl)
            omega
        · intro hl
          have hold := out_old_ok ⟨hsz, hact, hpn⟩ ⟨‹_›, hact', hstep⟩ hpa hpa' hl
          have htwo := out_two_old hn ⟨hsz, hact, hpn⟩ hH ⟨‹_›, hact', hstep⟩ hpa hpa' hl
          rw [hext _ hold.2.1, hfr]
          omega
      · -- newly activated: only state 0 was written; the rest is still cleared
        have hcl := (hpn p hpN).2 hpa
        refine ⟨?_, ?_⟩
        · intro j hj hj0 hl
          have hin := hinner j hj hj0
          simp only [hpa, if_false] at hin
          rw [hin.2, hcl] at hl
          exact absurd hl (clear_not_live _ _)
        · intro hl
          simp only [hpa, if_false] at hout
          rw [hout.2, hcl] at hl
          exact absurd hl (clear_out_not_live _)
    · apply hmmLater_of_clear
      rw [hdrop hpa']
      by_cases hpa : p ∈ s.active
      · simp [hpa]
      · simp only [hpa, if_false]; exact (hpn p hpN).2 hpa

/-- every word entry of a table with `WordDur`, `FramesGe` and valid predecessors has frame `≥ 1` -/
theorem laterInv_wordFrame {lt : LexTree} {g : Fsg} {s : SState} (wf : WFHist g s.hist s.frame)
    (li : LaterInv lt g s) :
    ∀ i lid, 0 < i → i < s.hist.size → (ent s.hist i).link = some lid → ¬ (g.link lid).wid < 0 →
      1 ≤ (ent s.hist i).frame := by
  intro i lid hi hlt hlid hw
  obtain ⟨_, _, _, _, hp2, _⟩ := wf.step i hi hlt
  have h1 := li.dur i hlt hi lid hlid hw
  have h2 := li.ge (ent s.hist i).pred.toNat (by omega)
  omega

end Later

open Later in
/-- **the invariant holds in every reachable state** of the modelled search over 3- or 5-state HMMs -/
theorem reachable_later {shift : Nat} {lt : LexTree} {g : Fsg} {s : SState} (lok : LexTreeOK lt g)
    (hn : LaterTopo lt.nst) (hr : Reachable shift lt g s) : LaterInv lt g s := by
  induction hr with
  | first h0 st => exact start_later h0 st
  | step hr' st ih => exact step_later lok hn (reachable_inv lok hr') st ih
  | again hr' st _ => exact start_later (finish_allCleared (reachable_inv lok hr').hmms) st

/-! ### the score guard of a word exit -/

theorem frameBest_foldl_ge (bs : List Int) (b0 : Int) :
    b0 ≤ bs.foldl (fun b x => if x > b then x else b) b0 ∧
    ∀ x ∈ bs, x ≤ bs.foldl (fun b x => if x > b then x else b) b0 := by
  induction bs generalizing b0 with
  | nil => exact ⟨Int.le_refl _, fun x hx => by cases hx⟩
  | cons a t ih =>
    simp only [List.foldl_cons]
    by_cases hc : a > b0
    · simp only [hc, if_true]
      obtain ⟨h1, h2⟩ := ih a
      refine ⟨by omega, ?_⟩
      intro x hx
      rcases List.mem_cons.1 hx with rfl | hx
      · exact h1
      · exact h2 x hx
    · simp only [hc, if_false]
      obtain ⟨h1, h2⟩ := ih b0
      refine ⟨h1, ?_⟩
      intro x hx
      rcases List.mem_cons.1 hx with rfl | hx
      · omega
      · exact h2 x hx

theorem worst_le_frameBest (bs : List Int) : worstScore ≤ frameBest bs := (frameBest_foldl_ge bs worstScore).1

theorem le_frameBest {bs : List Int} {x : Int} (hx : x ∈ bs) : x ≤ frameBest bs :=
  (frameBest_foldl_ge bs worstScore).2 x hx

/-- an exit score that passes the guard of a frame whose word threshold is above `WORST_SCORE` is live -/
theorem fires_live {best wbeam out : Int} (ht : ThreshLive best wbeam) (hf : Fires best wbeam out) : live out := by
  unfold ThreshLive at ht; unfold Fires at hf; unfold live; omega

end SSVerif.Search
