import SSVerif.Proofs.FsgFile
/-!
# What `fsg_model_read_s3file` returns is well-formed (token level)

For every token file: `read` either refuses it with one of the thirteen error kinds, or returns a
grammar whose start/final state and every arc are inside `0 … nState-1`, whose arcs carry word ids
inside the vocabulary, whose vocabulary has no duplicates, which has no filler/alternate marks,
and — when the probability parser only produces values in `[log-zero, 0]` — whose null links are
well-formed and closed.
-/
namespace SSVerif.Fsg

/-- arcs inside the state range -/
def InRange (g : Fsg) : Prop := ∀ l ∈ g.links, l.src < g.nState ∧ l.dst < g.nState

/-- invariant of the reader's transition loop -/
structure RdInv (n : Nat) (z : Int) (g : Fsg) : Prop where
  nState : g.nState = n
  range : InRange g
  voc : VocOK g
  nodup : g.vocab.Nodup
  zero : g.logZero = z
  sil : g.sil = []
  alt : g.alt = []

theorem idxOf?_none_not_mem (w : String) : ∀ (vs : List String), vs.idxOf? w = none → w ∉ vs
  | [], _ => by simp
  | v :: vs, h => by
    simp only [List.idxOf?, List.findIdx?_cons] at h
    by_cases hv : (v == w) = true
    · simp [hv] at h
    · have hv' : (v == w) = false := by simpa using hv
      simp only [hv', Bool.false_eq_true, if_false, Option.map_eq_none_iff] at h
      have := idxOf?_none_not_mem w vs (by simpa [List.idxOf?] using h)
      intro hm
      rcases List.mem_cons.1 hm with e | hm
      · exact hv (by simp [e])
      · exact this hm

theorem wordAdd_inv {n : Nat} {z : Int} {g : Fsg} (h : RdInv n z g) (s : String) : RdInv n z (wordAdd g s).1 := by
  unfold wordAdd
  cases hw : wordId g s with
  | some i => exact h
  | none =>
    refine ⟨h.nState, h.range, fun l hl w hlw => ?_, ?_, h.zero, h.sil, h.alt⟩
    · have := h.voc l hl w hlw; simp; omega
    · have hn := idxOf?_none_not_mem s g.vocab hw
      simp only
      rw [List.nodup_append]
      exact ⟨h.nodup, by simp, fun a ha b hb => by
        have : b = s := by simpa using hb
        subst this; intro e; exact hn (e ▸ ha)⟩

theorem transAdd_inv {n : Nat} {z : Int} {g : Fsg} (h : RdInv n z g) {a c : Nat} (ha : a < n) (hc : c < n) (lp : Int)
    {w : Nat} (hw : w < g.vocab.length) : RdInv n z (transAdd g a c lp w) := by
  have f := transAdd_fields g a c lp w
  refine ⟨f.2.2.1.trans h.nState, fun l hl => ?_, fun l hl i hi => ?_, f.2.2.2.1 ▸ h.nodup, f.2.2.2.2.2.2.2.trans h.zero,
    f.2.2.2.2.1.trans h.sil, f.2.2.2.2.2.1.trans h.alt⟩
  · rw [f.2.2.1]
    rcases mem_transAdd hl with hl | ⟨e1, e2, _, _⟩
    · exact h.range l hl
    · rw [e1, e2, h.nState]; exact ⟨ha, hc⟩
  · rw [f.2.2.2.1]
    rcases mem_transAdd hl with hl | ⟨_, _, e, _⟩
    · exact h.voc l hl i hi
    · rw [e] at hi; cases hi; exact hw

theorem nullAdd_inv {n : Nat} {z : Int} {g : Fsg} (h : RdInv n z g) {a c : Nat} (ha : a < n) (hc : c < n) (lp : Int) :
    RdInv n z (nullAdd g a c lp).1 := by
  have f := nullAdd_start g a c lp
  refine ⟨f.2.2.1.trans h.nState, fun l hl => ?_, fun l hl i hi => ?_, f.2.2.2.1 ▸ h.nodup, f.2.2.2.2.2.2.2.trans h.zero,
    f.2.2.2.2.1.trans h.sil, f.2.2.2.2.2.1.trans h.alt⟩
  · rw [f.2.2.1]
    rcases mem_nullAdd hl with hl | ⟨e1, e2, _, _, _⟩
    · exact h.range l hl
    · rw [e1, e2, h.nState]; exact ⟨ha, hc⟩
  · rw [f.2.2.2.1]
    rcases mem_nullAdd hl with hl | ⟨_, _, e, _, _⟩
    · exact h.voc l hl i hi
    · rw [e] at hi; cases hi

theorem stateTok_lt {C : Codec} {n : Nat} {tok : String} {i : Nat} (h : stateTok C n tok = some i) : i < n := by
  unfold stateTok at h
  cases hp : C.parseN tok with
  | none => simp [hp] at h
  | some v =>
    simp only [hp] at h
    split at h
    · rename_i hc
      cases h; omega
    · cases h

/-- the probabilities the reader lets through are inside `[log-zero, 0]` (`logmath_log` of a
probability in `(0, 1]`, times a language weight ≥ 0, is `≤ 0`; `logmath` never goes below its
zero before weighting) -/
structure ReadLaw (C : Codec) : Prop where
  prob : ∀ tok lp, C.parseP tok = some lp → C.zero ≤ lp ∧ lp ≤ 0
  zero : C.zero ≤ 0

/-- what a successful `readTrans` did -/
theorem readTrans_ok {C : Codec} {g g' : Fsg} {toks : List String} (e : readTrans C g toks = .ok g') :
    ∃ f t p rest i j lp, toks = f :: t :: p :: rest ∧ stateTok C g.nState f = some i ∧ stateTok C g.nState t = some j ∧
      C.parseP p = some lp ∧
      ((rest = [] ∧ g' = (nullAdd g i j lp).1) ∨
       (∃ w tl, rest = w :: tl ∧ g' = transAdd (wordAdd g w).1 i j lp (wordAdd g w).2)) := by
  unfold readTrans at e
  cases toks with
  | nil => simp at e
  | cons f r1 =>
    simp only at e
    cases hf : stateTok C g.nState f with
    | none => simp [hf] at e
    | some i =>
      simp only [hf] at e
      cases r1 with
      | nil => simp at e
      | cons t r2 =>
        simp only at e
        cases ht : stateTok C g.nState t with
        | none => simp [ht] at e
        | some j =>
          simp only [ht] at e
          cases r2 with
          | nil => simp at e
          | cons p r3 =>
            simp only at e
            cases hp : C.parseP p with
            | none => simp [hp] at e
            | some lp =>
              simp only [hp] at e
              cases r3 with
              | nil =>
                simp only [Except.ok.injEq] at e
                exact ⟨f, t, p, [], i, j, lp, rfl, hf, ht, hp, .inl ⟨rfl, e.symm⟩⟩
              | cons w tl =>
                simp only [Except.ok.injEq] at e
                exact ⟨f, t, p, w :: tl, i, j, lp, rfl, hf, ht, hp, .inr ⟨w, tl, rfl, e.symm⟩⟩

theorem readTrans_inv {C : Codec} {n : Nat} {g g' : Fsg} {toks : List String} (h : RdInv n C.zero g)
    (e : readTrans C g toks = .ok g') :
    RdInv n C.zero g' ∧ g'.start = g.start ∧ g'.final = g.final ∧
    (ReadLaw C → NullWF g → NullGe C.zero g → NullWF g' ∧ NullGe C.zero g') := by
  obtain ⟨f, t, p, rest, i, j, lp, _, hf, ht, hp, hcase⟩ := readTrans_ok e
  have hi := h.nState ▸ stateTok_lt hf
  have hj := h.nState ▸ stateTok_lt ht
  rcases hcase with ⟨_, rfl⟩ | ⟨w, tl, _, rfl⟩
  · exact ⟨nullAdd_inv h hi hj lp, (nullAdd_start _ _ _ _).1, (nullAdd_start _ _ _ _).2.1, fun law wf ge =>
      ⟨nullWF_nullAdd wf i j (law.prob p lp hp).2, nullGe_nullAdd ge i j (law.prob p lp hp).1⟩⟩
  · have hw := wordAdd_inv h w
    have ws := wordAdd_spec g w
    have tf := transAdd_fields (wordAdd g w).1 i j lp (wordAdd g w).2
    exact ⟨transAdd_inv hw hi hj lp ws.2.1, tf.1.trans ws.2.2.2.2.2.1, tf.2.1.trans ws.2.2.2.2.2.2, fun _ wf ge =>
      ⟨nullWF_transAdd (nullWF_congr (wordAdd_links g w) wf) _ _ _ _,
       nullGe_transAdd (fun l hl => ge l (wordAdd_links g w ▸ hl)) _ _ _ _⟩⟩

theorem readLines_inv {C : Codec} {n : Nat} : ∀ (lines : List (List String)) (g g' : Fsg), RdInv n C.zero g →
    readLines C g lines = .ok g' →
    RdInv n C.zero g' ∧ g'.start = g.start ∧ g'.final = g.final ∧
    (ReadLaw C → NullWF g → NullGe C.zero g → NullWF g' ∧ NullGe C.zero g')
  | [], g, g', h, e => by
    simp only [readLines, Except.ok.injEq] at e; subst e; exact ⟨h, rfl, rfl, fun _ a b => ⟨a, b⟩⟩
  | [] :: rest, g, g', h, e => by
    rw [readLines] at e; exact readLines_inv rest g g' h e
  | (w :: toks) :: rest, g, g', h, e => by
    rw [readLines] at e
    split at e
    · simp only [Except.ok.injEq] at e; subst e; exact ⟨h, rfl, rfl, fun _ a b => ⟨a, b⟩⟩
    · split at e
      · cases ht : readTrans C g toks with
        | error x => simp [ht] at e
        | ok g1 =>
          simp only [ht] at e
          obtain ⟨i1, s1, f1, w1⟩ := readTrans_inv h ht
          obtain ⟨i2, s2, f2, w2⟩ := readLines_inv rest g1 g' i1 e
          exact ⟨i2, s2.trans s1, f2.trans f1, fun law a b => by obtain ⟨a1, b1⟩ := w1 law a b; exact w2 law a1 b1⟩
      · exact readLines_inv rest g g' h e

/-! the closure keeps arcs in range -/

theorem nullAdd_range {n : Nat} {g : Fsg} (h : ∀ l ∈ g.links, l.src < n ∧ l.dst < n) {a c : Nat} (ha : a < n) (hc : c < n)
    (lp : Int) : ∀ l ∈ (nullAdd g a c lp).1.links, l.src < n ∧ l.dst < n := by
  intro l hl
  rcases mem_nullAdd hl with hl | ⟨e1, e2, _, _, _⟩
  · exact h l hl
  · rw [e1, e2]; exact ⟨ha, hc⟩

theorem closureLoop_range {z : Int} {n : Nat} : ∀ (fuel : Nat) (g : Fsg) (nulls : List Key),
    (∀ l ∈ g.links, l.src < n ∧ l.dst < n) → ∀ l ∈ (closureLoop z fuel g nulls).1.links, l.src < n ∧ l.dst < n := by
  have hi : ∀ (a : Nat) (lp1 : Int), a < n → ∀ (ts : List Link) (s : PassSt), (∀ t ∈ ts, t.dst < n) →
      (∀ l ∈ s.g.links, l.src < n ∧ l.dst < n) →
      ∀ l ∈ (ts.foldl (innerStep z a lp1) s).g.links, l.src < n ∧ l.dst < n := by
    intro a lp1 ha ts
    induction ts with
    | nil => intro s _ h; exact h
    | cons t ts ih =>
      intro s ht h
      rw [List.foldl_cons]
      exact ih _ (fun t' m => ht t' (List.mem_cons_of_mem _ m)) (nullAdd_range h ha (ht t List.mem_cons_self) _)
  have ho : ∀ (ks : List Key) (s : PassSt), (∀ l ∈ s.g.links, l.src < n ∧ l.dst < n) →
      ∀ l ∈ (ks.foldl (outerStep z) s).g.links, l.src < n ∧ l.dst < n := by
    intro ks
    induction ks with
    | nil => intro s h; exact h
    | cons k ks ih =>
      intro s h
      rw [List.foldl_cons]
      apply ih
      unfold outerStep
      cases hl : nullLookup s.g k.1 k.2 with
      | none => exact h
      | some lp1 =>
        obtain ⟨l1, m1, _, s1, _, _⟩ := nullLookup_some hl
        exact hi k.1 lp1 (s1 ▸ (h l1 m1).1) _ s (fun t ht => (h t (List.mem_filter.1 ht).1).2) h
  intro fuel
  induction fuel with
  | zero => intro g _ h; exact h
  | succ f ih =>
    intro g nulls h
    rw [closureLoop]
    have hp := ho nulls { g, nulls, updated := false } h
    split
    · exact ih _ _ hp
    · exact hp

/-- what a successful `read` did -/
theorem read_ok {C : Codec} {lines : List (List String)} {g : Fsg} (e : read C lines = .ok g) :
    ∃ (name : String) (n : Int) (s f : Nat) (l4 : List (List String)) (g0 : Fsg), 0 ≤ n ∧ s < n.toNat ∧ f < n.toNat ∧
      readLines C (Fsg.init name n.toNat s f C.zero) l4 = .ok g0 ∧ g = closure g0 := by
  unfold read at e
  cases h1 : headerValue "FSG_BEGIN" none lines with
  | mk o1 l1 =>
    cases o1 with
    | none => simp [h1] at e
    | some name =>
      simp only [h1] at e
      cases h2 : headerValue "NUM_STATES" (some "N") l1 with
      | mk o2 l2 =>
        cases o2 with
        | none => simp [h2] at e
        | some nTok =>
          simp only [h2] at e
          cases h3 : C.parseN nTok with
          | none => simp [h3] at e
          | some n =>
            simp only [h3] at e
            by_cases hn : n < 0
            · simp [hn] at e
            · simp only [hn, if_false] at e
              cases h4 : headerValue "START_STATE" (some "S") l2 with
              | mk o4 l3 =>
                cases o4 with
                | none => simp [h4] at e
                | some sTok =>
                  simp only [h4] at e
                  cases h5 : stateTok C n.toNat sTok with
                  | none => simp [h5] at e
                  | some s =>
                    simp only [h5] at e
                    cases h6 : headerValue "FINAL_STATE" (some "F") l3 with
                    | mk o6 l4 =>
                      cases o6 with
                      | none => simp [h6] at e
                      | some fTok =>
                        simp only [h6] at e
                        cases h7 : stateTok C n.toNat fTok with
                        | none => simp [h7] at e
                        | some f =>
                          simp only [h7] at e
                          cases h8 : readLines C (Fsg.init name n.toNat s f C.zero) l4 with
                          | error x => simp [h8] at e
                          | ok g0 =>
                            simp only [h8, Except.ok.injEq] at e
                            exact ⟨name, n, s, f, l4, g0, by omega, stateTok_lt h5, stateTok_lt h7, h8, e.symm⟩

/-- **What the reader returns is well-formed.** -/
theorem read_wf {C : Codec} {lines : List (List String)} {g : Fsg} (e : read C lines = .ok g) :
    g.start < g.nState ∧ g.final < g.nState ∧ InRange g ∧ VocOK g ∧ g.vocab.Nodup ∧ g.logZero = C.zero ∧
    g.sil = [] ∧ g.alt = [] ∧ (ReadLaw C → ClosureWF g ∧ NullClosed g) := by
  obtain ⟨name, n, s, f, l4, g0, _, hs, hf, hrl, rfl⟩ := read_ok e
  have inv0 : RdInv n.toNat C.zero (Fsg.init name n.toNat s f C.zero) :=
    ⟨rfl, fun _ h => (by cases h), fun _ h => (by cases h), List.nodup_nil, rfl, rfl, rfl⟩
  obtain ⟨inv, hst, hfi, wf⟩ := readLines_inv l4 _ g0 inv0 hrl
  obtain ⟨wl, sn, ss, sf, sv, ssil, salt, _, sz⟩ := closure_same g0
  have hst' : g0.start = s := hst
  have hfi' : g0.final = f := hfi
  refine ⟨by rw [ss, sn, hst', inv.nState]; exact hs, by rw [sf, sn, hfi', inv.nState]; exact hf, ?_, ?_, sv ▸ inv.nodup,
    sz.trans inv.zero, ssil.trans inv.sil, salt.trans inv.alt, fun law => ?_⟩
  · intro l hl
    rw [sn]
    exact closureLoop_range _ g0 _ inv.range l hl
  · intro l hl w hw
    rw [sv]
    have : l ∈ wordLinks (closure g0) := List.mem_filter.2 ⟨hl, by simp [Link.isNull, hw]⟩
    rw [wl] at this
    exact inv.voc l (List.mem_filter.1 this).1 w hw
  · obtain ⟨w0, g0ge⟩ := wf law (nullWF_init _ _ _ _ _) (fun _ h => (by cases h))
    have cw : ClosureWF g0 := ⟨w0, inv.zero ▸ g0ge, inv.zero ▸ law.zero⟩
    exact ⟨closureWF_closure cw, closure_closed cw⟩

/-- every token file is either refused with one of the error kinds or read into a well-formed grammar -/
theorem read_total (C : Codec) (lines : List (List String)) :
    (∃ err, read C lines = .error err) ∨ (∃ g, read C lines = .ok g) := by
  cases h : read C lines with
  | error err => exact .inl ⟨err, rfl⟩
  | ok g => exact .inr ⟨g, rfl⟩

theorem kwMatch_iff (tok kw : String) : kwMatch tok kw = true ↔ tok.toList <+: kw.toList := by
  unfold kwMatch; exact List.isPrefixOf_iff_prefix

end SSVerif.Fsg
