import SSVerif.Model.RangesSemi
import SSVerif.Proofs.RangesSen
/-!
Range lemmas for the s2_semi scorer (`semiNorm`, `semiPass`, `semiEval` of `Model/Ranges.lean`) and for the final
normalisation of ms_mgau (`msNorm`).
-/
namespace SSVerif.Ranges
open SSVerif.Generated.Ranges

/-! ## `mgau_norm` -/

/-- every entry the loop has visited — the `j` counted ones and the one it stopped at — holds a normalised score -/
theorem semiNormLoop_spec (norm beam : Int) : ∀ (l : List TopN) (j : Nat), (∀ e ∈ l, shr e.score ≤ norm) →
    j ≤ (semiNormLoop norm beam l j).2 ∧
    ∀ e ∈ (semiNormLoop norm beam l j).1.take ((semiNormLoop norm beam l j).2 - j + 1),
      0 ≤ e.score ∧ e.score ≤ maxNegAscr
  | [], j, _ => by simp [semiNormLoop]
  | e :: rest, j, h => by
    have hv := normScore_range (h e (by simp))
    simp only [semiNormLoop]
    split
    · refine ⟨Nat.le_refl _, ?_⟩
      intro x hx
      simp only [Nat.sub_self, Nat.zero_add, List.take_succ_cons, List.take_zero, List.mem_cons,
        List.mem_nil_iff, or_false] at hx
      rw [hx]; exact hv
    · have ih := semiNormLoop_spec norm beam rest (j + 1) (fun x hx => h x (by simp [hx]))
      refine ⟨by omega, ?_⟩
      intro x hx
      have e1 : (semiNormLoop norm beam rest (j + 1)).2 - j + 1 = ((semiNormLoop norm beam rest (j + 1)).2 - (j + 1) + 1) + 1 := by
        omega
      simp only at hx
      rw [e1, List.take_succ_cons] at hx
      rcases List.mem_cons.1 hx with hx | hx
      · rw [hx]; exact hv
      · exact ih.2 x hx

theorem shr_mono' {x y : Int} (h : x ≤ y) : shr x ≤ shr y := by
  rw [shr_eq, shr_eq]; omega

theorem mem_take_mono {α : Type} {l : List α} {k k' : Nat} (hk : k ≤ k') {x : α} (hx : x ∈ l.take k) : x ∈ l.take k' := by
  have : l.take k = (l.take k').take k := by rw [List.take_take, Nat.min_eq_left hk]
  rw [this] at hx
  exact List.mem_of_mem_take hx

/-- the entries the score pass reads (the first `max n 1`) are all normalised: in `[0, MAX_NEG_ASCR]` -/
theorem semiNorm_used (beam : Int) (l : List TopN) (hs : ∀ e ∈ l, e.score ≤ headScore l) :
    ∀ e ∈ (semiNorm beam l).1.take (max (semiNorm beam l).2 1), 0 ≤ e.score ∧ e.score ≤ maxNegAscr := by
  intro e he
  have sp := semiNormLoop_spec (shr (headScore l)) beam l 0 (fun x hx => shr_mono' (hs x hx))
  exact sp.2 e (mem_take_mono (by unfold semiNorm; omega) he)

theorem semiNormLoop_length (norm beam : Int) : ∀ (l : List TopN) (j : Nat),
    (semiNormLoop norm beam l j).1.length = l.length
  | [], j => by simp [semiNormLoop]
  | e :: rest, j => by
    simp only [semiNormLoop]
    split
    · simp
    · simp [semiNormLoop_length norm beam rest (j + 1)]

/-- the best codeword of a stream is normalised to exactly 0 -/
theorem semiNorm_head_zero (beam : Int) (l : List TopN) (hne : l ≠ []) : headScore (semiNorm beam l).1 = 0 := by
  cases l with
  | nil => exact absurd rfl hne
  | cons e rest =>
    have hz : normScore (shr e.score) e.score = 0 := normScore_zero rfl
    have hh : headScore (e :: rest) = e.score := rfl
    unfold semiNorm
    rw [hh]
    simp only [semiNormLoop]
    by_cases hc : beam ≠ 0 ∧ normScore (shr e.score) e.score > beam
    · rw [if_pos hc]; simp [headScore, hz]
    · rw [if_neg hc]; simp [headScore, hz]

/-! ## the per-stream log-sum -/

theorem wrapU8_range (x : Int) : 0 ≤ wrapU8 x ∧ wrapU8 x ≤ 255 := by
  unfold wrapU8; omega

theorem semiFden_bounds {tab : Nat → Nat} (htab : ∀ d, tab d ≤ 255) {m : Mixw} {M B : Int}
    (hm : ∀ f cw s, 0 ≤ m.get false f cw s ∧ m.get false f cw s ≤ M) (hB : M + maxNegAscr ≤ B) (hB2 : 255 ≤ B)
    {K : Nat} (hK1 : 1 ≤ K) (u8 : Bool) (f sen : Nat) {l : List TopN} {n : Nat} (hlen : l.length ≤ K)
    (hl : ∀ e ∈ l.take (max n 1), 0 ≤ e.score ∧ e.score ≤ maxNegAscr) :
    -(255 * ((K : Int) - 1)) ≤ semiFden tab m u8 f sen l n ∧ semiFden tab m u8 f sen l n ≤ B := by
  unfold semiFden
  have := fden_bounds htab (a := 0) (b := B) (K := K)
    (ws := (l.take (max n 1)).map fun e =>
      let v := m.get false f e.cw sen + e.score
      if u8 then wrapU8 v else v)
    (by
      intro y hy
      obtain ⟨e, he, rfl⟩ := List.mem_map.1 hy
      have h1 := hl e he
      have h2 := hm f e.cw sen
      simp only
      split
      · have := wrapU8_range (m.get false f e.cw sen + e.score); omega
      · omega)
    (Int.le_refl _) (by omega)
    (by rw [List.length_map, List.length_take]; omega) hK1
  omega

/-! ## one feature pass: `senone_scores[sen] += tmp` on an `int16` array -/

section pass
variable {g : Nat → Int} {A Bd lo hi : Int}
  (h16 : -32768 ≤ A + lo ∧ Bd + hi ≤ 32767) (hg : ∀ sen, lo ≤ g sen ∧ g sen ≤ hi)
include h16 hg

theorem pass_spec : ∀ (sens : List Nat) (sc : List Int), sens.Nodup →
    (∀ i, A + lo ≤ sc.getD i 0 ∧ sc.getD i 0 ≤ Bd + hi) → (∀ i ∈ sens, A ≤ sc.getD i 0 ∧ sc.getD i 0 ≤ Bd) →
    sens.foldl (fun sc sen => sc.set sen (wrap16 (sc.getD sen 0 + g sen))) sc =
      sens.foldl (fun sc sen => sc.set sen (sc.getD sen 0 + g sen)) sc ∧
    ∀ i, A + lo ≤ (sens.foldl (fun sc sen => sc.set sen (wrap16 (sc.getD sen 0 + g sen))) sc).getD i 0 ∧
      (sens.foldl (fun sc sen => sc.set sen (wrap16 (sc.getD sen 0 + g sen))) sc).getD i 0 ≤ Bd + hi
  | [], sc, _, hall, _ => ⟨rfl, hall⟩
  | sen :: rest, sc, hnd, hall, hin => by
    have hs := hin sen (by simp)
    have hgs := hg sen
    have hw : wrap16 (sc.getD sen 0 + g sen) = sc.getD sen 0 + g sen := wrap16_id (by omega)
    obtain ⟨hnot, hnd'⟩ := List.nodup_cons.1 hnd
    simp only [List.foldl_cons]
    rw [hw]
    refine pass_spec rest (sc.set sen (sc.getD sen 0 + g sen)) hnd' ?_ ?_
    · intro i
      rw [getD_set_list]
      split
      · omega
      · exact hall i
    · intro i hi'
      rw [getD_set_list]
      have hne : ¬ (sen = i ∧ sen < sc.length) := by
        intro hh; rw [hh.1] at hnot; exact hnot hi'
      rw [if_neg hne]
      exact hin i (by simp [hi'])

end pass

/-! ## the feature loop of `s2_semi_mgau_frame_eval` -/

theorem semiFeatFold_spec {tab : Nat → Nat} {m : Mixw} {compall : Bool} {normed : List (List TopN × Nat)}
    {sens : List Nat} {lo hi : Int} {F : Nat} (hlo : lo ≤ 0) (hhi : 0 ≤ hi)
    (h16 : -32768 ≤ lo * F ∧ hi * F ≤ 32767) (hnd : sens.Nodup)
    (hg : ∀ (f sen : Nat) (u8 : Bool), lo ≤ semiFden tab m u8 f sen (normed.getD f ([], 0)).1 (normed.getD f ([], 0)).2 ∧
      semiFden tab m u8 f sen (normed.getD f ([], 0)).1 (normed.getD f ([], 0)).2 ≤ hi) :
    ∀ (fs : List Nat) (sc : List Int) (k : Nat), k + fs.length ≤ F →
      (∀ i, lo * k ≤ sc.getD i 0 ∧ sc.getD i 0 ≤ hi * k) →
      semiFeatFold (semiPass tab m compall) normed sens fs sc = semiFeatFold (semiPassI tab m compall) normed sens fs sc ∧
      ∀ i, lo * ((k + fs.length : Nat) : Int) ≤ (semiFeatFold (semiPass tab m compall) normed sens fs sc).getD i 0 ∧
        (semiFeatFold (semiPass tab m compall) normed sens fs sc).getD i 0 ≤ hi * ((k + fs.length : Nat) : Int)
  | [], sc, k, _, hsc => by
    simp only [semiFeatFold, List.foldl_nil, List.length_nil, Nat.add_zero]
    exact ⟨trivial, hsc⟩
  | f :: rest, sc, k, hk, hsc => by
    simp only [List.length_cons] at hk
    have e1 : lo * ((k + 1 : Nat) : Int) = lo * k + lo := by push_cast; rw [Int.mul_add]; omega
    have e2 : hi * ((k + 1 : Nat) : Int) = hi * k + hi := by push_cast; rw [Int.mul_add]; omega
    have hkF : ((k + 1 : Nat) : Int) ≤ (F : Int) := by exact_mod_cast (by omega : k + 1 ≤ F)
    have b1 : lo * (F : Int) ≤ lo * ((k + 1 : Nat) : Int) := Int.mul_le_mul_of_nonpos_left hlo hkF
    have b2 : hi * ((k + 1 : Nat) : Int) ≤ hi * (F : Int) := Int.mul_le_mul_of_nonneg_left hkF hhi
    have P := pass_spec (A := lo * k) (Bd := hi * k) (lo := lo) (hi := hi)
      (g := fun sen => semiFden tab m (m.cb.isSome && !compall && decide (1 ≤ (normed.getD f ([], 0)).2 ∧ (normed.getD f ([], 0)).2 ≤ 6))
        f sen (normed.getD f ([], 0)).1 (normed.getD f ([], 0)).2)
      (by omega) (fun sen => hg f sen _) sens sc hnd (fun i => by have := hsc i; omega) (fun i _ => hsc i)
    have hstep : semiPass tab m compall f (normed.getD f ([], 0)).1 (normed.getD f ([], 0)).2 sens sc =
        semiPassI tab m compall f (normed.getD f ([], 0)).1 (normed.getD f ([], 0)).2 sens sc := P.1
    have hrange : ∀ i, lo * ((k + 1 : Nat) : Int) ≤
        (semiPass tab m compall f (normed.getD f ([], 0)).1 (normed.getD f ([], 0)).2 sens sc).getD i 0 ∧
        (semiPass tab m compall f (normed.getD f ([], 0)).1 (normed.getD f ([], 0)).2 sens sc).getD i 0 ≤ hi * ((k + 1 : Nat) : Int) := by
      intro i; rw [e1, e2]; exact P.2 i
    have ih := semiFeatFold_spec (compall := compall) hlo hhi h16 hnd hg rest
      (semiPass tab m compall f (normed.getD f ([], 0)).1 (normed.getD f ([], 0)).2 sens sc) (k + 1) (by omega) hrange
    have e3 : k + (rest.length + 1) = k + 1 + rest.length := by omega
    have unf : ∀ (pass : Nat → List TopN → Nat → List Nat → List Int → List Int),
        semiFeatFold pass normed sens (f :: rest) sc =
          semiFeatFold pass normed sens rest (pass f (normed.getD f ([], 0)).1 (normed.getD f ([], 0)).2 sens sc) := by
      intro pass; simp only [semiFeatFold, List.foldl_cons]
    rw [unf, unf, List.length_cons, e3]
    refine ⟨?_, ih.2⟩
    rw [ih.1, hstep]

theorem getD_mapIdx_pair {α β : Type} (g : Nat → α → β) (l : List α) (f : Nat) (d : β) :
    (l.mapIdx g).getD f d = match l[f]? with | some x => g f x | none => d := by
  rw [List.getD_eq_getElem?_getD, List.getElem?_mapIdx]
  cases l[f]? <;> rfl

/-! ## B9: the indices `fast_logmath_add` uses on the add table -/

theorem fla_ge_T {tab : Nat → Nat} {T : Int} (htab : ∀ d, (tab d : Int) ≤ T) {a x y : Int} (hx : a ≤ x) (hy : a ≤ y) :
    a - T ≤ fastLogAdd tab x y := by
  unfold fastLogAdd
  split
  · have := htab (x - y).toNat; omega
  · have := htab (y - x).toNat; omega

theorem flaIdx_bd {a b lo x y : Int} (hx : lo ≤ x ∧ x ≤ b) (hy : a ≤ y ∧ y ≤ b) (hlo : lo ≤ a) :
    0 ≤ fastLogAddIdx x y ∧ fastLogAddIdx x y ≤ b - lo := by
  unfold fastLogAddIdx; split <;> omega

/-- loop invariant of `fdenIdx`: after `k` adds the accumulator is in `[a - T·k, b]`; every index recorded is in
`[0, b - a + T·N]` as long as `k + (remaining) ≤ N + 1` -/
theorem fdenIdx_loop {tab : Nat → Nat} {T a b : Int} (hT : 0 ≤ T) (htab : ∀ d, (tab d : Int) ≤ T) (N : Nat) :
    ∀ (ws : List Int) (acc : Int × List Int) (k : Nat), k + ws.length ≤ N + 1 →
      (a - T * k ≤ acc.1 ∧ acc.1 ≤ b) → (∀ y ∈ ws, a ≤ y ∧ y ≤ b) → (∀ i ∈ acc.2, 0 ≤ i ∧ i ≤ b - a + T * N) →
      ∀ i ∈ (ws.foldl (fun (acc : Int × List Int) y => (fastLogAdd tab acc.1 y, acc.2 ++ [fastLogAddIdx acc.1 y])) acc).2,
        0 ≤ i ∧ i ≤ b - a + T * N
  | [], acc, k, _, _, _, hi => by simpa using hi
  | y :: ys, acc, k, hk, hacc, hws, hi => by
    have hy := hws y (by simp)
    simp only [List.length_cons] at hk
    have hkN : (k : Int) ≤ (N : Int) := by exact_mod_cast (by omega : k ≤ N)
    have hTk : T * k ≤ T * N := Int.mul_le_mul_of_nonneg_left hkN hT
    have hTk0 : 0 ≤ T * k := Int.mul_nonneg hT (by omega)
    have hidx := flaIdx_bd (a := a) (b := b) (lo := a - T * k) hacc hy (by omega)
    have hnew : a - T * ((k + 1 : Nat) : Int) ≤ fastLogAdd tab acc.1 y ∧ fastLogAdd tab acc.1 y ≤ b := by
      have h1 := fla_ge_T htab (a := a - T * k) (x := acc.1) (y := y) hacc.1 (by omega)
      have h2 := (fastLogAdd_le tab acc.1 y).1
      have e : T * ((k + 1 : Nat) : Int) = T * k + T := by push_cast; rw [Int.mul_add]; omega
      rw [e]; omega
    simp only [List.foldl_cons]
    refine fdenIdx_loop hT htab N ys _ (k + 1) (by omega) hnew (fun z hz => hws z (by simp [hz])) ?_
    intro i hi'
    rcases List.mem_append.1 hi' with h | h
    · exact hi i h
    · simp only [List.mem_cons, List.mem_nil_iff, or_false] at h
      rw [h]; omega

/-! ## B8: the maintenance code keeps the length of a top-N list (discharges the `hshape` hypotheses) -/

theorem insRev_length (strict : Bool) (e : TopN) : ∀ (l : List TopN), (insRev strict e l).length = l.length + 1
  | [] => rfl
  | x :: xs => by
    simp only [insRev]
    split
    · simp [insRev_length strict e xs]
    · simp

theorem insertTopn_length (e : TopN) (pre : List TopN) : (insertTopn e pre).length = pre.length + 1 := by
  simp [insertTopn, insRev_length]

theorem foldl_insertTopn_length (score : Nat → Int) : ∀ (l pre : List TopN),
    (l.foldl (fun pre x => insertTopn { x with score := score x.cw } pre) pre).length = pre.length + l.length
  | [], pre => by simp
  | x :: xs, pre => by
    simp only [List.foldl_cons, List.length_cons]
    rw [foldl_insertTopn_length score xs, insertTopn_length]; omega

/-- `eval_topn` re-scores and re-orders: same number of entries -/
theorem evalTopn_length (score : Nat → Int) (l : List TopN) : (evalTopn score l).length = l.length := by
  unfold evalTopn; rw [foldl_insertTopn_length]; simp

theorem insertCb_length_le (e : TopN) (l : List TopN) : (insertCb e l).length ≤ max l.length 1 := by
  simp only [insertCb, List.length_reverse, insRev_length, List.length_drop]
  omega

theorem foldl_evalCb_length_le (dens : Nat → Int) : ∀ (cws : List Nat) (l : List TopN),
    (cws.foldl (fun l cw =>
      if dens cw < (l.getLast?.getD ⟨0, 0⟩).score then l
      else if l.any (fun e => e.cw == cw) then l
      else insertCb ⟨cw, densInt (dens cw)⟩ l) l).length ≤ max l.length 1
  | [], l => by simp only [List.foldl_nil]; omega
  | cw :: rest, l => by
    simp only [List.foldl_cons]
    split
    · exact foldl_evalCb_length_le dens rest l
    · split
      · exact foldl_evalCb_length_le dens rest l
      · have h1 := foldl_evalCb_length_le dens rest (insertCb ⟨cw, densInt (dens cw)⟩ l)
        have h2 := insertCb_length_le ⟨cw, densInt (dens cw)⟩ l
        omega

/-- `eval_cb` overwrites the worst entry: the list does not grow (a list of length 0 — `max_topn = 0`, never
configured — would become one entry) -/
theorem evalCb_length_le (dens : Nat → Int) (nden : Nat) (l : List TopN) : (evalCb dens nden l).length ≤ max l.length 1 :=
  foldl_evalCb_length_le dens (List.range nden) l

/-! ## ms_mgau -/

theorem clamp16_range (x : Int) : -32768 ≤ clamp16 x ∧ clamp16 x ≤ 32767 := by
  unfold clamp16; split
  · omega
  · split <;> omega

theorem msBest_le : ∀ (l : List Int) (b : Int), (∀ x ∈ l, l.foldl (fun b x => if b > x then x else b) b ≤ x) ∧
    l.foldl (fun b x => if b > x then x else b) b ≤ b ∧
    (l.foldl (fun b x => if b > x then x else b) b = b ∨ l.foldl (fun b x => if b > x then x else b) b ∈ l)
  | [], b => ⟨(by intro x hx; cases hx), Int.le_refl _, Or.inl rfl⟩
  | y :: ys, b => by
    have ih := msBest_le ys (if b > y then y else b)
    simp only [List.foldl_cons]
    refine ⟨?_, ?_, ?_⟩
    · intro x hx
      rcases List.mem_cons.1 hx with hx | hx
      · rw [hx]; have := ih.2.1; split at this <;> omega
      · exact ih.1 x hx
    · have := ih.2.1; split at this <;> omega
    · rcases ih.2.2 with h | h
      · rw [h]; split
        · right; simp
        · left; rfl
      · right; simp [h]

end SSVerif.Ranges
