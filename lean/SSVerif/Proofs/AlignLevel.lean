import SSVerif.Proofs.AlignPop
import SSVerif.Proofs.AlignIter
/-!
Helper lemmas for Props/C04: one loop of `alignment_propagate` as a whole (`level_spec`), untouched key fields,
child indices of uniformly sized blocks, facts about tilings.
-/
namespace SSVerif.Align

/-! ### one level of `alignment_propagate` -/

theorem splitLens_length : ∀ (lens : List Nat) (l : List Entry), (splitLens lens l).length = lens.length
  | [], _ => rfl
  | _ :: ns, l => by simp [splitLens, splitLens_length ns]

theorem zipWith_summarize_keys : ∀ (ps : List Entry) (bs : List (List Entry)), ps.length = bs.length →
    (List.zipWith summarize ps bs).map keyOf = ps.map keyOf
  | [], [], _ => rfl
  | p :: ps, b :: bs, h => by
    simp only [List.zipWith_cons_cons, List.map_cons]
    rw [zipWith_summarize_keys ps bs (by simpa using h)]
    rfl
  | [], _ :: _, h => by simp at h
  | _ :: _, [], h => by simp at h

theorem parts_sum : ∀ (ps : List Entry) (bs : List (List Entry)), Parts ps bs → sumScore ps = sumScore bs.flatten
  | [], [], _ => rfl
  | p :: ps, b :: bs, h => by
    obtain ⟨_, h2, _, h4⟩ := h
    simp only [List.flatten_cons, sumScore_append, sumScore_cons]
    rw [parts_sum ps bs h4, h2]
  | [], _ :: _, h => False.elim h
  | _ :: _, [], h => False.elim h

theorem keys_parent {l1 l2 : List Entry} (h : l1.map keyOf = l2.map keyOf) : l1.map (·.parent) = l2.map (·.parent) := by
  have := congrArg (List.map (fun t : Nat × Nat × Int × Int × Int => t.1)) h
  simpa [List.map_map, keyOf, Function.comp_def] using this

theorem keys_id {l1 l2 : List Entry} (h : l1.map keyOf = l2.map keyOf) : l1.map (·.id) = l2.map (·.id) := by
  have := congrArg (List.map (fun t : Nat × Nat × Int × Int × Int => t.2.2.1)) h
  simpa [List.map_map, keyOf, Function.comp_def] using this

theorem keys_length {l1 l2 : List Entry} (h : l1.map keyOf = l2.map keyOf) : l1.length = l2.length := by
  have := congrArg List.length h
  simpa using this

/-- one loop of `alignment_propagate` on a block-structured child vector that tiles `[a,b)` -/
theorem level_spec (lens : List Nat) (children parents : List Entry) (wins : List (Int × Int)) (a b : Int)
    (hpat : children.map (·.parent) = patternFrom 0 lens) (hpos : ∀ n ∈ lens, 0 < n)
    (hlen : parents.length = lens.length) (hsum : children.length = lens.sum) (hw : wins.length = lens.length)
    (hc : Contig children a b) (hwin : WithinW children (blockWins lens wins)) :
    Contig (propLevel children parents) a b ∧ Parts (propLevel children parents) (splitLens lens children) ∧
      (propLevel children parents).map keyOf = parents.map keyOf ∧ WithinW (propLevel children parents) wins := by
  rw [propLevel_blocks lens children parents hpat hpos hlen]
  obtain ⟨h1, h2⟩ := contig_blocks lens children parents a b hpos hsum hlen hc
  exact ⟨h1, h2, zipWith_summarize_keys _ _ (by rw [splitLens_length]; exact hlen),
    within_blocks lens children parents wins hlen hw h2 hwin⟩

theorem keys_child {l1 l2 : List Entry} (h : l1.map keyOf = l2.map keyOf) : l1.map (·.child) = l2.map (·.child) := by
  have := congrArg (List.map (fun t : Nat × Nat × Int × Int × Int => t.2.1)) h
  simpa [List.map_map, keyOf, Function.comp_def] using this

theorem childIdx_replicate_from (n : Nat) : ∀ (m b s : Nat),
    childIdx (b + s * n) (List.replicate m n) = (List.range' s m).map (fun k => b + k * n)
  | 0, _, _ => rfl
  | m + 1, b, s => by
    simp only [List.replicate_succ, childIdx, List.range'_succ, List.map_cons]
    have e : b + s * n + n = b + (s + 1) * n := by rw [Nat.add_mul]; omega
    rw [e, childIdx_replicate_from n m b (s + 1)]

theorem childIdx_replicate (n m : Nat) :
    childIdx 0 (List.replicate m n) = (List.range' 0 m).map (· * n) := by
  have := childIdx_replicate_from n m 0 0
  simpa using this

theorem contig_facts : ∀ (l : List Entry) (a b : Int), Contig l a b → 0 ≤ a →
    ∀ e ∈ l, 0 ≤ e.start ∧ 0 < e.duration
  | [], _, _, _, _, e, he => by simp at he
  | x :: l, a, b, h, ha, e, he => by
    obtain ⟨h1, h2, h3⟩ := h
    rcases List.mem_cons.1 he with rfl | he
    · exact ⟨by omega, h2⟩
    · exact contig_facts l _ b h3 (by omega) e he

end SSVerif.Align
