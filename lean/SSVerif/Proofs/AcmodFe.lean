import SSVerif.Model.AcmodFe
import SSVerif.Proofs.AcmodDec
import SSVerif.Proofs.FeBuf
import SSVerif.Props.C07
/-!
# M5 ∘ M4: the acoustic-model ring fed by the real front end

Simulation of `Model/AcmodFe.lean` by `Model/AcmodBuf.lean` on the responses the front end really gives, and exact
accounting of the cepstral frames: after any sequence of calls the frames written into the ring (`nextId`) are the
frames the front end has emitted (`Rest … k o` of `Proofs/FeBuf.lean`), no sample is dropped or read twice.
-/
namespace SSVerif.AcmodFe

open SSVerif.AcmodBuf SSVerif.FeBuf SSVerif.Generated List

/-- the front end is at rest `(k, o)` (k frames emitted, `o` samples pending) and the unread part of the chunk is the
    next `n` samples of the stream -/
structure FeInv (cfg : Cfg) (x : FS) (k o n : Nat) : Prop where
  rest : Rest cfg x.fe k o
  buf : x.buf = range' (k * cfg.shift + o) n
  ok : x.feBad = false

/-- one front-end call with room `lim` from rest: it never yields more than `lim`, leaves the acoustic model alone,
    consumes what it says, and with room and samples it consumes at least one sample -/
theorem feCall_spec (cfg : Cfg) (hs : 0 < cfg.shift) (hss : cfg.shift ≤ cfg.size) (hsl : cfg.slack = 1)
    (x : FS) (k o n lim : Nat) (h : FeInv cfg x k o n) :
    ∃ f o' n', (feCall cfg x lim).2 = ⟨f, decide (0 < n')⟩ ∧ f ≤ lim ∧ (feCall cfg x lim).1.st = x.st ∧
      (feCall cfg x lim).1.pos = x.pos ∧ FeInv cfg (feCall cfg x lim).1 (k + f) o' n' ∧
      (k + f) * cfg.shift + o' + n' = k * cfg.shift + o + n ∧ n' ≤ n ∧ (1 ≤ lim → 1 ≤ n → n' < n) := by
  obtain ⟨fe', used, o', h1, R', hpos, hle, hfull⟩ := process_spec cfg hs hss h.rest n lim
  have hcall : feCall cfg x lim =
      ({ x with fe := fe', buf := x.buf.drop used,
                calls := (lim, min (avail cfg n o) lim, x.buf.length - used) :: x.calls },
        ⟨min (avail cfg n o) lim, decide (used < x.buf.length)⟩) := by
    simp only [feCall, h.buf, h1]
  rw [hcall]
  refine ⟨min (avail cfg n o) lim, o', n - used, ?_, Nat.min_le_right _ _, rfl, rfl, ⟨R', ?_, h.ok⟩, by omega, by omega, ?_⟩
  · simp only [h.buf, length_range']
    congr 1
    exact decide_eq_decide.mpr (by omega)
  · simp only [h.buf, drop_range'_one]
    rw [hpos]
  · intro hl hn
    by_cases ha : avail cfg n o ≤ lim
    · have := hfull ha; omega
    · have hmin : min (avail cfg n o) lim = lim := by omega
      rw [hmin] at hpos R'
      have hge := R'.ge
      have hle' := h.rest.le
      have hmul : (k + lim) * cfg.shift = k * cfg.shift + lim * cfg.shift := Nat.add_mul _ _ _
      have hl1 : cfg.shift ≤ lim * cfg.shift := Nat.le_mul_of_pos_left _ hl
      rcases hge with h0 | h0
      · omega
      · omega

theorem rawLoopS_spec (cfg : Cfg) (hs : 0 < cfg.shift) (hss : cfg.shift ≤ cfg.size) (hsl : cfg.slack = 1) :
    ∀ (fuel : Nat) (x : FS) (c inptr ncep k o n : Nat) (more : Bool), MfcInv x.st c →
    inptr = (x.st.mfcOutidx + x.st.nMfcFrame) % x.st.nMfcAlloc → ncep = x.st.nMfcAlloc - x.st.nMfcFrame → ncep + 1 ≤ fuel →
    FeInv cfg x k o n → x.st.nextId = k →
    ∃ mb a o' n',
      (rawLoopS cfg fuel x inptr ncep more).x.st = { x.st with mfcBuf := mb, nextId := c + a, nMfcFrame := a } ∧
      MfcInv { x.st with mfcBuf := mb, nextId := c + a, nMfcFrame := a } c ∧ x.st.nMfcFrame ≤ a ∧
      FeInv cfg (rawLoopS cfg fuel x inptr ncep more).x (c + a) o' n' ∧
      (rawLoopS cfg fuel x inptr ncep more).x.pos = x.pos ∧
      (c + a) * cfg.shift + o' + n' = k * cfg.shift + o + n ∧ n' ≤ n ∧
      a = x.st.nMfcFrame + offered (rawLoopS cfg fuel x inptr ncep more).rs ∧
      (∀ tail, rawLoop fuel x.st inptr ncep ((rawLoopS cfg fuel x inptr ncep more).rs ++ tail) more =
        ((rawLoopS cfg fuel x inptr ncep more).x.st, tail, (rawLoopS cfg fuel x inptr ncep more).more,
          (rawLoopS cfg fuel x inptr ncep more).inptr, (rawLoopS cfg fuel x inptr ncep more).ncep,
          (rawLoopS cfg fuel x inptr ncep more).done)) ∧
      ((rawLoopS cfg fuel x inptr ncep more).done = false →
        (rawLoopS cfg fuel x inptr ncep more).inptr = (x.st.mfcOutidx + a) % x.st.nMfcAlloc ∧
        (rawLoopS cfg fuel x inptr ncep more).ncep = x.st.nMfcAlloc - a ∧
        (rawLoopS cfg fuel x inptr ncep more).inptr + (rawLoopS cfg fuel x inptr ncep more).ncep ≤ x.st.nMfcAlloc) ∧
      ((rawLoopS cfg fuel x inptr ncep more).rs = [] →
        n' = n ∧ (rawLoopS cfg fuel x inptr ncep more).more = more ∧ (rawLoopS cfg fuel x inptr ncep more).done = false) ∧
      ((rawLoopS cfg fuel x inptr ncep more).rs ≠ [] →
        (rawLoopS cfg fuel x inptr ncep more).more = decide (0 < n') ∧ (1 ≤ n → n' < n)) := by
  intro fuel
  induction fuel with
  | zero => intro x c inptr ncep k o n more _ _ _ hf; omega
  | succ fuel ih =>
    intro x c inptr ncep k o n more hm hin hnc hf hfe hk
    have hnext := hm.next
    have hcnt := hm.cnt
    have hout := hm.out
    have hin_lt : inptr < x.st.nMfcAlloc := by rw [hin]; exact Nat.mod_lt _ (by omega)
    by_cases hwrap : inptr + ncep > x.st.nMfcAlloc
    · -- one call with room `n_mfc_alloc - inptr`
      obtain ⟨f, o1, n1, c1, c2, c3, c4, c5, c6, c7, c8⟩ := feCall_spec cfg hs hss hsl x k o n (x.st.nMfcAlloc - inptr) hfe
      rcases hC : feCall cfg x (x.st.nMfcAlloc - inptr) with ⟨x1, r⟩
      rw [hC] at c1 c3 c4 c5
      simp only [] at c1 c3 c4 c5
      subst c1
      have hminf : min f (x.st.nMfcAlloc - inptr) = f := Nat.min_eq_left c2
      obtain ⟨mb, e, hm'⟩ := hm.feWrite f inptr hin (by omega) (by omega)
      by_cases hz : f = 0
      · -- goto alldone
        subst hz
        have hR : rawLoopS cfg (fuel + 1) x inptr ncep more =
            ⟨{ x1 with st := { feWrite 0 inptr x.st with nMfcFrame := (feWrite 0 inptr x.st).nMfcFrame + 0 } },
              decide (0 < n1), inptr, ncep, true, [⟨0, decide (0 < n1)⟩]⟩ := by
          simp only [rawLoopS, hwrap, if_true, hC, hminf, c3]
        rw [hR]
        simp only []
        refine ⟨mb, x.st.nMfcFrame, o1, n1, ?_, ?_, Nat.le_refl _, ?_, c4, ?_, c7, ?_, ?_, by simp, by simp, ?_⟩
        · rw [e]; simp only [Nat.add_zero]; rw [hnext]
        · simpa [hnext] using hm'
        · rw [← hnext, hk]
          exact ⟨c5.rest, c5.buf, c5.ok⟩
        · rw [← hnext, hk]; exact c6
        · simp [offered]
        · intro tail
          simp only [rawLoop, hwrap, if_true, cons_append, nil_append, popResp, hminf]
        · intro _
          exact ⟨rfl, fun h1 => c8 (by omega) h1⟩
      · -- some frames, loop again
        have hA : (feWrite f inptr x.st).nMfcAlloc = x.st.nMfcAlloc := by
          obtain ⟨mb0, e0, _⟩ := feWrite_spec f inptr x.st (by rw [hm.len]; omega)
          rw [e0]
        have hR : rawLoopS cfg (fuel + 1) x inptr ncep more =
            { rawLoopS cfg fuel
                { x1 with st := { feWrite f inptr x.st with nMfcFrame := (feWrite f inptr x.st).nMfcFrame + f } }
                ((inptr + f) % x.st.nMfcAlloc) (ncep - f) (decide (0 < n1)) with
              rs := ⟨f, decide (0 < n1)⟩ ::
                (rawLoopS cfg fuel
                  { x1 with st := { feWrite f inptr x.st with nMfcFrame := (feWrite f inptr x.st).nMfcFrame + f } }
                  ((inptr + f) % x.st.nMfcAlloc) (ncep - f) (decide (0 < n1))).rs } := by
          simp only [rawLoopS, hwrap, if_true, hC, hminf, c3, hz, if_false, hA]
        rw [e] at hR
        have hfe1 : FeInv cfg
            { x1 with st := { x.st with mfcBuf := mb, nextId := x.st.nextId + f, nMfcFrame := x.st.nMfcFrame + f } }
            (k + f) o1 n1 := ⟨c5.rest, c5.buf, c5.ok⟩
        obtain ⟨mb2, a2, o2, n2, i1, i2, i3, i4, i5, i6, i7, i8, i9, i10, i11, i12⟩ :=
          ih { x1 with st := { x.st with mfcBuf := mb, nextId := x.st.nextId + f, nMfcFrame := x.st.nMfcFrame + f } }
            c ((inptr + f) % x.st.nMfcAlloc) (ncep - f) (k + f) o1 n1 (decide (0 < n1)) hm'
            (by simp only []; rw [hin, Nat.mod_add_mod, Nat.add_assoc]) (by simp only []; omega) (by omega) hfe1
            (by simp only []; omega)
        generalize hRR : rawLoopS cfg fuel
            { x1 with st := { x.st with mfcBuf := mb, nextId := x.st.nextId + f, nMfcFrame := x.st.nMfcFrame + f } }
            ((inptr + f) % x.st.nMfcAlloc) (ncep - f) (decide (0 < n1)) = RR at hR i1 i4 i5 i8 i9 i10 i11 i12
        rw [hR]
        simp only [] at i1 i2 i3 i4 i5 i6 i7 i8 i9 i10 i11 i12 ⊢
        refine ⟨mb2, a2, o2, n2, by rw [i1], i2, by omega, i4, by rw [i5, c4], by omega, by omega, ?_, ?_, i10, by simp, ?_⟩
        · simp only [offered, map_cons, sum_cons] at i8 ⊢; omega
        · intro tail
          have hRo : rawLoop (fuel + 1) x.st inptr ncep (⟨f, decide (0 < n1)⟩ :: (RR.rs ++ tail)) more =
              rawLoop fuel { feWrite f inptr x.st with nMfcFrame := (feWrite f inptr x.st).nMfcFrame + f }
                ((inptr + f) % x.st.nMfcAlloc) (ncep - f) (RR.rs ++ tail) (decide (0 < n1)) := by
            simp only [rawLoop, hwrap, if_true, popResp, hminf, hz, if_false, hA]
          rw [cons_append, hRo, e]
          exact i9 tail
        · intro _
          by_cases hrr : RR.rs = []
          · obtain ⟨j1, j2, _⟩ := i11 hrr
            refine ⟨by rw [j2, j1], fun h1 => ?_⟩
            have := c8 (by omega) h1; omega
          · obtain ⟨j1, j2⟩ := i12 hrr
            refine ⟨j1, fun h1 => ?_⟩
            have := c8 (by omega) h1; omega
    · have hR : rawLoopS cfg (fuel + 1) x inptr ncep more = ⟨x, more, inptr, ncep, false, []⟩ := by
        simp only [rawLoopS, hwrap, if_false]
      rw [hR]
      simp only []
      refine ⟨x.st.mfcBuf, x.st.nMfcFrame, o, n, ?_, ?_, Nat.le_refl _, ?_, trivial, ?_, Nat.le_refl _, by simp [offered], ?_, ?_,
        by simp, by simp⟩
      · rw [← hnext]
      · rw [← hnext]; exact hm
      · rw [← hnext, hk]; exact hfe
      · rw [← hnext, hk]
      · intro tail
        simp only [rawLoop, hwrap, if_false, nil_append]
      · intro _; exact ⟨hin, hnc, by omega⟩

theorem FeInv.withSt {cfg : Cfg} {x : FS} {k o n : Nat} (h : FeInv cfg x k o n) (s : St) :
    FeInv cfg { x with st := s } k o n := ⟨h.rest, h.buf, h.ok⟩

/-- `acmod_process_raw` on an empty ring, front end inside: `a` fresh frames — exactly the frames the front end yields,
    none clamped away — then `acmod_process_mfcbuf`; the acoustic-model state is the one `processRaw` of M5 computes on
    the responses met -/
theorem processRawS_spec (cfg : Cfg) (hs : 0 < cfg.shift) (hss : cfg.shift ≤ cfg.size) (hsl : cfg.slack = 1)
    (fix : Bool) (win : Nat) (skip : Nat → Bool) (x : FS) (c k o n : Nat) (hm : MfcInv x.st c) (h0 : x.st.nMfcFrame = 0)
    (hfe : FeInv cfg x k o n) (hk : x.st.nextId = k) :
    ∃ mb a o' n',
      (processRawS cfg fix win skip x).x.st =
        (processMfcbuf fix win skip { x.st with mfcBuf := mb, nextId := c + a, nMfcFrame := a }).st ∧
      MfcInv { x.st with mfcBuf := mb, nextId := c + a, nMfcFrame := a } c ∧
      a = offered (processRawS cfg fix win skip x).rs ∧
      FeInv cfg (processRawS cfg fix win skip x).x (c + a) o' n' ∧
      (processRawS cfg fix win skip x).x.pos = x.pos ∧
      (c + a) * cfg.shift + o' + n' = k * cfg.shift + o + n ∧ (1 ≤ n → n' < n) ∧ n' ≤ n ∧
      (processRawS cfg fix win skip x).more = decide (0 < n') ∧
      (processRawS cfg fix win skip x).rs ≠ [] ∧
      (∀ tail, processRaw fix win skip x.st ((processRawS cfg fix win skip x).rs ++ tail) =
        ⟨(processRawS cfg fix win skip x).x.st, tail, (processRawS cfg fix win skip x).more⟩) := by
  obtain ⟨mb, a, o1, n1, i1, i2, i3, i4, i5, i6, i7, i8, i9, i10, i11, i12⟩ :=
    rawLoopS_spec cfg hs hss hsl (x.st.nMfcAlloc - x.st.nMfcFrame + 1) x c
      ((x.st.mfcOutidx + x.st.nMfcFrame) % x.st.nMfcAlloc) (x.st.nMfcAlloc - x.st.nMfcFrame) k o n true hm rfl rfl
      (Nat.le_refl _) hfe hk
  rcases hrl : rawLoopS cfg (x.st.nMfcAlloc - x.st.nMfcFrame + 1) x ((x.st.mfcOutidx + x.st.nMfcFrame) % x.st.nMfcAlloc)
      (x.st.nMfcAlloc - x.st.nMfcFrame) true with ⟨x1, more1, inptr1, ncep1, done1, rs1⟩
  rw [hrl] at i1 i4 i5 i8 i9 i10 i11 i12
  simp only [] at i1 i4 i5 i8 i9 i10 i11 i12
  have hout := hm.out
  cases done1 with
  | true =>
    have hne : rs1 ≠ [] := by
      intro h; have := (i11 h).2.2; exact absurd this (by decide)
    obtain ⟨j1, j2⟩ := i12 hne
    have hP : processRawS cfg fix win skip x = ⟨{ x1 with st := (processMfcbuf fix win skip x1.st).st }, more1, rs1⟩ := by
      simp only [processRawS, hrl, if_true]
    rw [hP]
    simp only []
    refine ⟨mb, a, o1, n1, by rw [i1], i2, by omega, i4.withSt _, i5, i6, j2, i7, j1, hne, ?_⟩
    intro tail
    simp only [processRaw, i9 tail, if_true]
  | false =>
    obtain ⟨j1, j2, j3⟩ := i10 rfl
    have hcnt := i2.cnt
    simp only [] at hcnt
    obtain ⟨f, o2, n2, c1, c2, c3, c4, c5, c6, c7, c8⟩ := feCall_spec cfg hs hss hsl x1 (c + a) o1 n1 ncep1 i4
    rcases hC : feCall cfg x1 ncep1 with ⟨x2, r⟩
    rw [hC] at c1 c3 c4 c5
    simp only [] at c1 c3 c4 c5
    subst c1
    have hminf : min f ncep1 = f := Nat.min_eq_left c2
    obtain ⟨mb2, e2, hm2⟩ := i2.feWrite f inptr1 (by simp only []; exact j1) (by simp only []; omega) (by simp only []; omega)
    simp only [] at e2 hm2
    rw [← i1] at e2
    have hP : processRawS cfg fix win skip x =
        ⟨{ x2 with st := (processMfcbuf fix win skip
            { feWrite f inptr1 x1.st with nMfcFrame := (feWrite f inptr1 x1.st).nMfcFrame + f }).st },
          decide (0 < n2), rs1 ++ [⟨f, decide (0 < n2)⟩]⟩ := by
      simp only [processRawS, hrl, Bool.false_eq_true, if_false, hC, hminf, c3]
    rw [hP, e2]
    simp only []
    refine ⟨mb2, a + f, o2, n2, by rw [Nat.add_assoc], by rw [Nat.add_assoc] at hm2; exact hm2, ?_,
      by rw [← Nat.add_assoc]; exact c5.withSt _, by rw [c4, i5], by rw [← Nat.add_assoc]; omega, ?_, by omega, rfl,
      by simp, ?_⟩
    · simp only [offered, map_append, sum_append, map_cons, map_nil, sum_cons, sum_nil] at i8 ⊢; omega
    · intro h1
      by_cases hr : rs1 = []
      · obtain ⟨k1, _, _⟩ := i11 hr
        have ha : a = 0 := by rw [hr] at i8; simp [offered] at i8; omega
        have := c8 (by omega) (by omega); omega
      · have := (i12 hr).2 h1; omega
    · intro tail
      have hRo : processRaw fix win skip x.st (rs1 ++ ⟨f, decide (0 < n2)⟩ :: tail) =
          ⟨(processMfcbuf fix win skip
            { feWrite f inptr1 x1.st with nMfcFrame := (feWrite f inptr1 x1.st).nMfcFrame + f }).st, tail, decide (0 < n2)⟩ := by
        simp only [processRaw, i9 (⟨f, decide (0 < n2)⟩ :: tail), Bool.false_eq_true, if_false, popResp, hminf]
      rw [append_assoc, singleton_append, hRo, e2]

/-! ## the decoder level -/

theorem fullCount_mono (size shift : Nat) {N N' : Nat} (h : N ≤ N') : FeBuf.fullCount size shift N ≤ FeBuf.fullCount size shift N' := by
  unfold FeBuf.fullCount
  by_cases h1 : N < size
  · rw [if_pos h1]; exact Nat.zero_le _
  · rw [if_neg h1, if_neg (by omega)]
    have := Nat.div_le_div_right (c := shift) (show N - size ≤ N' - size by omega)
    omega

/-- the frames emitted so far never exceed the complete windows of the stream so far -/
theorem rest_le_fullCount {cfg : Cfg} (hs : 0 < cfg.shift) (hsl : cfg.slack = 1) {fe : Fe Nat} {k o T : Nat}
    (R : Rest cfg fe k o) (hT : k * cfg.shift + o ≤ T) : k ≤ FeBuf.fullCount cfg.size cfg.shift T := by
  have hle := R.le
  have := fullCount_eq (size := cfg.size) hs (show o < cfg.size by omega) R.ge
  rw [← this]
  exact fullCount_mono _ _ hT

theorem setGrow_nextId (s : St) (g : Bool) : (setGrow s g).nextId = s.nextId := by
  unfold setGrow growFeatBuf
  simp only []
  split <;> rfl

theorem search_next {win : Nat} {s : St} (h : Open win s) : (searchForward s).nextId = s.nextId := by
  obtain ⟨c, hc, _⟩ := h.core
  rw [searchForward_spec s hc.qinv h.srch]

theorem align_next {win : Nat} {s : St} (h : Open win s) (upto : Nat) : (alignPass s upto).nextId = s.nextId := by
  obtain ⟨c, hc, _⟩ := h.core
  rw [alignPass_spec s upto hc.qinv]

theorem open_next_eq {win : Nat} {s : St} (h : Open win s) {c : Nat} (hm : MfcInv s c) : c = s.nextId := by
  have := hm.next; have := h.mfc0; omega

/-- `acmod_process_mfcbuf` does not number frames -/
theorem mfcbuf_next (win : Nat) (skip : Nat → Bool) (s : St) (c a : Nat) (mb : List (Option Cep)) (h : Open win s)
    (hm0 : MfcInv s c) (hm : MfcInv { s with mfcBuf := mb, nextId := c + a, nMfcFrame := a } c)
    (hb : s.cmnFrames + a ≤ cmnWinHwm) (hw : 3 * win + 1 ≤ livebuf) :
    (processMfcbuf true win skip { s with mfcBuf := mb, nextId := c + a, nMfcFrame := a }).st.nextId = c + a := by
  have hc := open_next_eq h hm0
  rcases h.inv with hs | ⟨c1, hp⟩
  · have hc0 : c = 0 := by have := hs.mfc.next; have := h.mfc0; omega
    subst hc0
    have hsfe : SInv win { s with mfcBuf := mb, nextId := 0 + a, nMfcFrame := a } :=
      ⟨hs.core.setFe _ _ _, hs.st, hm, hs.out0⟩
    by_cases ha0 : a = 0
    · obtain ⟨p1, p2, _⟩ := processMfcbuf_start0 win skip _ hsfe (by simp only []; exact ha0)
      have := p1.mfc.next; omega
    · obtain ⟨p1, p2, _⟩ := processMfcbuf_start win skip _ hsfe (by simp only []; omega) (by simp only []; omega) hw
      have := p1.mfc.next
      simp only [] at this; omega
  · have hc1 : c = c1 := by have := hp.mfc.next; have := h.mfc0; omega
    subst hc1
    have hsfe : PInv win { s with mfcBuf := mb, nextId := c + a, nMfcFrame := a } c :=
      ⟨hp.core.setFe _ _ _, hp.live.of_eq rfl rfl rfl, hp.st, hp.c1, hm⟩
    obtain ⟨p1, p2, _⟩ := processMfcbuf_mid win skip _ c hsfe (by simp only []; omega) hw
    have := p1.mfc.next
    simp only [] at this; omega

theorem decLoopS_spec (cfg : Cfg) (hs : 0 < cfg.shift) (hss : cfg.shift ≤ cfg.size) (hsl : cfg.slack = 1)
    (win : Nat) (skip : Nat → Bool) (ns : Bool) (hw : 3 * win + 1 ≤ livebuf) :
    ∀ (fuel : Nat) (x : FS) (o n b0 : Nat), Open win x.st → FeInv cfg x x.st.nextId o n → 1 ≤ n → n < fuel →
    x.st.cmnFrames ≤ b0 + x.st.nextId →
    b0 + FeBuf.fullCount cfg.size cfg.shift (x.st.nextId * cfg.shift + o + n) ≤ cmnWinHwm →
    ∃ o', Open win (decLoopS cfg true win skip ns fuel x).x.st ∧
      FeInv cfg (decLoopS cfg true win skip ns fuel x).x (decLoopS cfg true win skip ns fuel x).x.st.nextId o' 0 ∧
      (decLoopS cfg true win skip ns fuel x).x.pos = x.pos ∧
      (decLoopS cfg true win skip ns fuel x).x.st.nextId * cfg.shift + o' = x.st.nextId * cfg.shift + o + n ∧
      (decLoopS cfg true win skip ns fuel x).x.st.cmnFrames ≤ b0 + (decLoopS cfg true win skip ns fuel x).x.st.nextId ∧
      x.st.nextId + offered (decLoopS cfg true win skip ns fuel x).rs = (decLoopS cfg true win skip ns fuel x).x.st.nextId ∧
      1 ≤ (decLoopS cfg true win skip ns fuel x).iters ∧
      (decLoopS cfg true win skip ns fuel x).iters ≤ (decLoopS cfg true win skip ns fuel x).rs.length ∧
      (∀ f2, (decLoopS cfg true win skip ns fuel x).iters ≤ f2 →
        decLoop true win skip ns f2 x.st (decLoopS cfg true win skip ns fuel x).rs = (decLoopS cfg true win skip ns fuel x).x.st) := by
  intro fuel
  induction fuel with
  | zero => intro x o n b0 _ _ _ hf; omega
  | succ fuel ih =>
    intro x o n b0 hop hfe hn hf hcm hB
    obtain ⟨c, hcore, hm⟩ := hop.core
    have hc := open_next_eq hop hm
    subst hc
    obtain ⟨mb, a, o1, n1, q1, q2, q3, q4, q5, q6, q7, q8, q9, q10, q11⟩ :=
      processRawS_spec cfg hs hss hsl true win skip x x.st.nextId x.st.nextId o n hm hop.mfc0 hfe rfl
    -- the frames so far are complete windows of the stream so far
    have hk' : x.st.nextId + a ≤ FeBuf.fullCount cfg.size cfg.shift (x.st.nextId * cfg.shift + o + n) :=
      rest_le_fullCount hs hsl q4.rest (by omega)
    have hbud : x.st.cmnFrames + a ≤ cmnWinHwm := by omega
    have hsim := q11 []
    rw [append_nil] at hsim
    obtain ⟨p1, p2, _⟩ := processRaw_open win skip x.st (processRawS cfg true win skip x).rs hop (by omega) hw
    rw [hsim] at p1 p2
    simp only [] at p1 p2
    have hnx : (processRawS cfg true win skip x).x.st.nextId = x.st.nextId + a := by
      rw [q1]; exact mfcbuf_next win skip x.st x.st.nextId a mb hop hm q2 hbud hw
    have hoff0 : offered ([] : List FeResp) = 0 := rfl
    rw [hoff0] at p2
    generalize hP : processRawS cfg true win skip x = P at q1 q3 q4 q5 q9 q10 q11 p1 p2 hnx hsim
    -- the state after the optional search
    have hs' : Open win (if ns then P.x.st else searchForward P.x.st) ∧
        (if ns then P.x.st else searchForward P.x.st).cmnFrames = P.x.st.cmnFrames ∧
        (if ns then P.x.st else searchForward P.x.st).nextId = P.x.st.nextId := by
      cases ns with
      | true => exact ⟨p1, rfl, rfl⟩
      | false => exact ⟨(search_open win _ p1).1, (search_open win _ p1).2, search_next p1⟩
    obtain ⟨s1, s2, s3⟩ := hs'
    by_cases hmore : P.more = true
    · have hL : decLoopS cfg true win skip ns (fuel + 1) x =
          ⟨(decLoopS cfg true win skip ns fuel { P.x with st := if ns then P.x.st else searchForward P.x.st }).x,
            P.rs ++ (decLoopS cfg true win skip ns fuel { P.x with st := if ns then P.x.st else searchForward P.x.st }).rs,
            (decLoopS cfg true win skip ns fuel { P.x with st := if ns then P.x.st else searchForward P.x.st }).iters + 1⟩ := by
        simp only [decLoopS, hP, hmore, if_true]
      have hn1 : 1 ≤ n1 := by
        rw [q9] at hmore; exact of_decide_eq_true hmore
      have hfe1 : FeInv cfg { P.x with st := if ns then P.x.st else searchForward P.x.st }
          (if ns then P.x.st else searchForward P.x.st).nextId o1 n1 := by
        rw [s3, hnx]; exact q4.withSt _
      obtain ⟨o2, j1, j2, j3, j4, j5, j6, j7, j8, j9⟩ :=
        ih { P.x with st := if ns then P.x.st else searchForward P.x.st } o1 n1 b0 s1 hfe1 hn1 (by have := q7 hn; omega)
          (by simp only []; rw [s2, s3, hnx]; omega) (by simp only []; rw [s3, hnx, q6]; exact hB)
      generalize hLL : decLoopS cfg true win skip ns fuel { P.x with st := if ns then P.x.st else searchForward P.x.st } = LL
        at hL j1 j2 j3 j4 j5 j6 j7 j8 j9
      rw [hL]
      simp only [] at j3 j4 j6 j9 ⊢
      rw [s3, hnx] at j4 j6
      refine ⟨o2, j1, j2, by rw [j3, q5], by rw [j4, q6], j5, ?_, by omega, ?_, ?_⟩
      · simp only [offered, map_append, sum_append] at j6 q3 ⊢; omega
      · rw [length_append]
        have : 1 ≤ P.rs.length := by
          cases hrs : P.rs with
          | nil => exact absurd hrs q10
          | cons r rs => simp
        omega
      · intro f2 hf2
        cases f2 with
        | zero => omega
        | succ f2 =>
          simp only [decLoop, q11 LL.rs, hmore, if_true]
          exact j9 f2 (by omega)
    · have hmf : P.more = false := Bool.eq_false_iff.mpr hmore
      have hL : decLoopS cfg true win skip ns (fuel + 1) x =
          ⟨{ P.x with st := if ns then P.x.st else searchForward P.x.st }, P.rs, 1⟩ := by
        simp only [decLoopS, hP, hmf, Bool.false_eq_true, if_false]
      have hn1 : n1 = 0 := by
        rw [q9] at hmf
        have := of_decide_eq_false hmf; omega
      subst hn1
      rw [hL]
      simp only []
      refine ⟨o1, s1, by rw [s3, hnx]; exact q4.withSt _, q5, by rw [s3, hnx]; omega, by rw [s2, s3, hnx]; omega,
        by rw [s3, hnx]; omega, Nat.le_refl _, ?_, ?_⟩
      · cases hrs : P.rs with
        | nil => exact absurd hrs q10
        | cons r rs => simp
      · intro f2 hf2
        cases f2 with
        | zero => omega
        | succ f2 =>
          simp only [decLoop, hsim, hmf, Bool.false_eq_true, if_false]

/-- between two calls of an open utterance: the M5 invariant, the front end at rest on exactly the frames the ring has
    numbered, nothing of the last chunk left, the CMN frame budget -/
structure OpenS (cfg : Cfg) (win b0 : Nat) (x : FS) (o : Nat) : Prop where
  op : Open win x.st
  fe : FeInv cfg x x.st.nextId o 0
  pos : x.pos = x.st.nextId * cfg.shift + o
  cmn : x.st.cmnFrames ≤ b0 + x.st.nextId

theorem decProcessS_spec (cfg : Cfg) (hs : 0 < cfg.shift) (hss : cfg.shift ≤ cfg.size) (hsl : cfg.slack = 1)
    (win : Nat) (skip : Nat → Bool) (hw : 3 * win + 1 ≤ livebuf) (b0 : Nat) (x : FS) (o : Nat) (ns : Bool) (n : Nat)
    (h : OpenS cfg win b0 x o) (hB : b0 + FeBuf.fullCount cfg.size cfg.shift (x.pos + n) ≤ cmnWinHwm) :
    ∃ o', OpenS cfg win b0 (decProcessS cfg true win skip x ns n).1 o' ∧
      (decProcessS cfg true win skip x ns n).1.pos = x.pos + n ∧
      x.st.nextId + offered (decProcessS cfg true win skip x ns n).2 = (decProcessS cfg true win skip x ns n).1.st.nextId ∧
      decProcess true win skip x.st ns (decProcessS cfg true win skip x ns n).2 = (decProcessS cfg true win skip x ns n).1.st := by
  have hst : ¬ x.st.state = .idle := by
    rcases h.op.state with e | e <;> rw [e] <;> decide
  have hg : Open win (if ns then setGrow x.st true else x.st) ∧
      (if ns then setGrow x.st true else x.st).cmnFrames = x.st.cmnFrames ∧
      (if ns then setGrow x.st true else x.st).nextId = x.st.nextId := by
    cases ns with
    | true => exact ⟨(setGrow_open h.op).1, (setGrow_open h.op).2, setGrow_nextId _ _⟩
    | false => exact ⟨h.op, rfl, rfl⟩
  obtain ⟨g1, g2, g3⟩ := hg
  by_cases hn : n = 0
  · subst hn
    have hD : decProcessS cfg true win skip x ns 0 = ({ x with st := if ns then setGrow x.st true else x.st }, []) := by
      simp only [decProcessS, hst, if_false, if_true]
    rw [hD]
    simp only []
    refine ⟨o, ⟨g1, by rw [g3]; exact h.fe.withSt _, by simp only []; rw [g3]; exact h.pos, by rw [g2, g3]; exact h.cmn⟩,
      rfl, by rw [g3]; rfl, ?_⟩
    simp only [decProcess, hst, if_false, isEmpty_nil, if_true]
  · obtain ⟨x0, hx0⟩ : ∃ x0 : FS,
        x0 = FS.mk (if ns then setGrow x.st true else x.st) x.fe (range' x.pos n) (x.pos + n) x.feBad x.calls := ⟨_, rfl⟩
    have hD : decProcessS cfg true win skip x ns n =
        ((decLoopS cfg true win skip ns (n + 1) x0).x, (decLoopS cfg true win skip ns (n + 1) x0).rs) := by
      rw [hx0]
      simp only [decProcessS, hst, hn, if_false]
    have hx0s : x0.st = if ns then setGrow x.st true else x.st := by rw [hx0]
    have hx0p : x0.pos = x.pos + n := by rw [hx0]
    have hfe1 : FeInv cfg x0 x0.st.nextId o n := by
      rw [hx0s, g3]
      exact ⟨by rw [hx0]; exact h.fe.rest, by rw [hx0]; simp only []; rw [h.pos], by rw [hx0]; exact h.fe.ok⟩
    obtain ⟨o2, j1, j2, j3, j4, j5, j6, j7, j8, j9⟩ := decLoopS_spec cfg hs hss hsl win skip ns hw (n + 1) x0
      o n b0 (by rw [hx0s]; exact g1) hfe1 (by omega) (by omega) (by rw [hx0s, g2, g3]; exact h.cmn)
      (by rw [hx0s, g3, ← h.pos]; exact hB)
    generalize hLL : decLoopS cfg true win skip ns (n + 1) x0 = LL at hD j1 j2 j3 j4 j5 j6 j7 j8 j9
    rw [hD]
    simp only []
    rw [hx0s, g3] at j4 j6
    rw [hx0p] at j3
    refine ⟨o2, ⟨j1, j2, by rw [j3, j4, h.pos], j5⟩, j3, j6, ?_⟩
    have hne : LL.rs.isEmpty = false := by
      cases hrs : LL.rs with
      | nil => rw [hrs] at j8; simp at j8; omega
      | cons r rs => rfl
    simp only [decProcess, hst, if_false, hne, Bool.false_eq_true]
    rw [← hx0s]
    exact j9 _ (by omega)

def samplesOf (ops : List OpS) : Nat := (ops.map OpS.samples).sum

theorem stepS_spec (cfg : Cfg) (hs : 0 < cfg.shift) (hss : cfg.shift ≤ cfg.size) (hsl : cfg.slack = 1)
    (win : Nat) (skip : Nat → Bool) (hw : 3 * win + 1 ≤ livebuf) (b0 : Nat) (x : FS) (o : Nat) (op : OpS)
    (h : OpenS cfg win b0 x o) (hB : b0 + FeBuf.fullCount cfg.size cfg.shift (x.pos + op.samples) ≤ cmnWinHwm) :
    ∃ o', OpenS cfg win b0 (stepS cfg true win skip x op).1 o' ∧
      (stepS cfg true win skip x op).1.pos = x.pos + op.samples ∧
      x.st.nextId + offeredOps [(stepS cfg true win skip x op).2] = (stepS cfg true win skip x op).1.st.nextId ∧
      step true win skip x.st (stepS cfg true win skip x op).2 = (stepS cfg true win skip x op).1.st ∧
      (stepS cfg true win skip x op).2.isFull = false := by
  cases op with
  | process ns n =>
    have hst : ¬ x.st.state = .ended := by
      rcases h.op.state with e | e <;> rw [e] <;> decide
    obtain ⟨o', d1, d2, d3, d4⟩ := decProcessS_spec cfg hs hss hsl win skip hw b0 x o ns n h hB
    have hS : stepS cfg true win skip x (.process ns n) =
        ((decProcessS cfg true win skip x ns n).1, .process ns (decProcessS cfg true win skip x ns n).2) := by
      simp only [stepS, hst, if_false]
    rw [hS]
    refine ⟨o', d1, d2, by simp only [offeredOps]; omega, ?_, rfl⟩
    simp only [step, hst, if_false]
    exact d4
  | query => exact ⟨o, h, rfl, by simp [stepS, offeredOps], rfl, rfl⟩
  | align steps =>
    cases steps with
    | none => exact ⟨o, h, rfl, by simp [stepS, offeredOps], rfl, rfl⟩
    | some upto =>
      have e1 := (align_open h.op upto).1
      have e2 := (align_open h.op upto).2
      have e3 := align_next h.op upto
      refine ⟨o, ⟨e1, ?_, ?_, ?_⟩, rfl, ?_, rfl, rfl⟩
      · show FeInv cfg { x with st := alignPass x.st upto } (alignPass x.st upto).nextId o 0
        rw [e3]; exact h.fe.withSt _
      · show x.pos = (alignPass x.st upto).nextId * cfg.shift + o
        rw [e3]; exact h.pos
      · show (alignPass x.st upto).cmnFrames ≤ b0 + (alignPass x.st upto).nextId
        rw [e2, e3]; exact h.cmn
      · show x.st.nextId + offeredOps [Op.align (some upto)] = (alignPass x.st upto).nextId
        rw [e3]; simp [offeredOps]

theorem runOpsS_spec (cfg : Cfg) (hs : 0 < cfg.shift) (hss : cfg.shift ≤ cfg.size) (hsl : cfg.slack = 1)
    (win : Nat) (skip : Nat → Bool) (hw : 3 * win + 1 ≤ livebuf) (b0 : Nat) :
    ∀ (ops : List OpS) (x : FS) (o : Nat), OpenS cfg win b0 x o →
    b0 + FeBuf.fullCount cfg.size cfg.shift (x.pos + samplesOf ops) ≤ cmnWinHwm →
    ∃ o', OpenS cfg win b0 (runOpsS cfg true win skip x ops).1 o' ∧
      (runOpsS cfg true win skip x ops).1.pos = x.pos + samplesOf ops ∧
      x.st.nextId + offeredOps (runOpsS cfg true win skip x ops).2 = (runOpsS cfg true win skip x ops).1.st.nextId ∧
      runOps true win skip x.st (runOpsS cfg true win skip x ops).2 = (runOpsS cfg true win skip x ops).1.st ∧
      (∀ op, op ∈ (runOpsS cfg true win skip x ops).2 → op.isFull = false) := by
  intro ops
  induction ops with
  | nil =>
    intro x o h _
    exact ⟨o, h, by simp [runOpsS, samplesOf], by simp [runOpsS, offeredOps], rfl, by simp [runOpsS]⟩
  | cons op ops ih =>
    intro x o h hB
    have hsum : samplesOf (op :: ops) = op.samples + samplesOf ops := by simp [samplesOf]
    rw [hsum] at hB
    have hB1 : b0 + FeBuf.fullCount cfg.size cfg.shift (x.pos + op.samples) ≤ cmnWinHwm := by
      have := fullCount_mono cfg.size cfg.shift (show x.pos + op.samples ≤ x.pos + (op.samples + samplesOf ops) by omega)
      omega
    obtain ⟨o1, t1, t2, t3, t4, t5⟩ := stepS_spec cfg hs hss hsl win skip hw b0 x o op h hB1
    obtain ⟨o2, u1, u2, u3, u4, u5⟩ := ih (stepS cfg true win skip x op).1 o1 t1 (by rw [t2, Nat.add_assoc]; exact hB)
    have hR : runOpsS cfg true win skip x (op :: ops) =
        ((runOpsS cfg true win skip (stepS cfg true win skip x op).1 ops).1,
          (stepS cfg true win skip x op).2 :: (runOpsS cfg true win skip (stepS cfg true win skip x op).1 ops).2) := rfl
    rw [hR]
    simp only []
    refine ⟨o2, u1, by rw [u2, t2, hsum, Nat.add_assoc], ?_, ?_, ?_⟩
    · rw [offeredOps_cons]; omega
    · show runOps true win skip (step true win skip x.st (stepS cfg true win skip x op).2) _ = _
      rw [t4]; exact u4
    · intro op' hop'
      rcases mem_cons.mp hop' with e | e
      · rw [e]; exact t5
      · exact u5 op' e

/-! ## the end of the utterance and whole runs -/

theorem runOps_closed_next (win : Nat) (skip : Nat → Bool) : ∀ (post : List Op) (s : St), Closed win s →
    (∀ op, op ∈ post → op.isProcess = false) → (runOps true win skip s post).nextId = s.nextId := by
  intro post
  induction post with
  | nil => intro s _ _; rfl
  | cons op post ih =>
    intro s h hp
    have hop := hp op (mem_cons_self ..)
    have hs : Closed win (step true win skip s op) ∧ (step true win skip s op).nextId = s.nextId := by
      cases op with
      | process ns rs => simp [Op.isProcess] at hop
      | processFull ns rs => simp [Op.isProcess] at hop
      | query => exact ⟨h, rfl⟩
      | align steps =>
        cases steps with
        | none => exact ⟨h, rfl⟩
        | some upto => exact ⟨h.align upto, by show (alignPass s upto).nextId = _; rw [alignPass_spec s upto h.qinv]⟩
    simp only [runOps, foldl_cons]
    rw [← hs.2]
    exact ih _ hs.1 (fun op' hm => hp op' (mem_cons_of_mem _ hm))

/-- `decoder_end_utt` on an open utterance: the ring is empty, so `fe_end` is called, with room
    `n_mfc_alloc - inptr ≥ 1`; it flushes the pending samples as the one short frame, which is numbered and consumed -/
theorem decEndS_spec (cfg : Cfg) (hs : 0 < cfg.shift) (hlt : cfg.shift < cfg.size)
    (win : Nat) (skip : Nat → Bool) (hw : 3 * win + 2 ≤ livebuf) (b0 : Nat) (x : FS) (o : Nat)
    (h : OpenS cfg win b0 x o) (hB : b0 + x.st.nextId + (if 0 < o then 1 else 0) ≤ cmnWinHwm) :
    ∃ fe' cl, decEndS cfg true win skip x =
        ({ x with fe := fe', st := decEnd true win skip x.st (decide (0 < o)), calls := cl }, decide (0 < o)) ∧
      fe'.out = (List.range x.st.nextId).map (fullFrame cfg.size cfg.shift) ++
        (if 0 < o then [tailFrame cfg.shift x.st.nextId o] else []) ∧
      Closed win (decEnd true win skip x.st (decide (0 < o))) ∧
      (decEnd true win skip x.st (decide (0 < o))).nextId = x.st.nextId + (if 0 < o then 1 else 0) ∧
      (decide (0 < o) = true ∨ x.st.nextId = 0) := by
  have hst : ¬ (x.st.state = .ended ∨ x.st.state = .idle) := by
    rcases h.op.state with e | e <;> rw [e] <;> decide
  obtain ⟨c, _, hm⟩ := h.op.core
  have hout := hm.out
  have h0 := h.op.mfc0
  have hroom : 0 < x.st.nMfcAlloc - (x.st.mfcOutidx + x.st.nMfcFrame) % x.st.nMfcAlloc := by
    have := Nat.mod_lt (x.st.mfcOutidx + x.st.nMfcFrame) (show 0 < x.st.nMfcAlloc by omega)
    omega
  obtain ⟨fe', f1, f2, _⟩ := finish_spec cfg h.fe.rest _ hroom
  have hdec : decide (0 < (if 0 < o then 1 else 0)) = decide (0 < o) := by
    by_cases ho : 0 < o
    · rw [if_pos ho]; simp [ho]
    · rw [if_neg ho]; simp [ho]
  have hfe : decide (0 < o) = true ∨ x.st.nextId = 0 := by
    by_cases ho : 0 < o
    · left; simp [ho]
    · right
      rcases h.fe.rest.ge with e | e
      · exact e
      · omega
  have hite : (if decide (0 < o) = true then 1 else 0) = if 0 < o then 1 else 0 := by
    by_cases ho : 0 < o
    · simp [ho]
    · simp [ho]
  have hb : x.st.cmnFrames + (if decide (0 < o) = true then 1 else 0) ≤ cmnWinHwm := by
    have := h.cmn; rw [hite]; omega
  refine ⟨fe', (x.st.nMfcAlloc - (x.st.mfcOutidx + x.st.nMfcFrame) % x.st.nMfcAlloc, (if 0 < o then 1 else 0), 0) :: x.calls,
    ?_, f2, decEnd_closed win skip x.st _ h.op hfe hb hw, ?_, hfe⟩
  · simp only [decEndS, hst, if_false, show x.st.nMfcFrame < x.st.nMfcAlloc by omega, if_true, f1, hdec]
  · rw [decEnd_nextId win skip x.st _ h.op hfe hb hw, hite]

theorem startS_open (cfg : Cfg) (hs : 0 < cfg.shift) (hss : cfg.shift ≤ cfg.size) (win : Nat) (s0 : St) (hwf : WF0 s0) :
    OpenS cfg win s0.cmnFrames (startS s0) 0 :=
  ⟨startUtt_open win s0 hwf, ⟨rest_start cfg hs hss, rfl, rfl⟩, by show 0 = 0 * cfg.shift + 0; omega, Nat.le_add_right _ _⟩

end SSVerif.AcmodFe
