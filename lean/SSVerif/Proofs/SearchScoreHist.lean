import SSVerif.Proofs.SearchScoreMax
import SSVerif.Proofs.HistDom
/-! The history module as the search proof sees it: whatever goes through `fsg_history_entry_add` /
`fsg_history_end_frame` (`frameList`, `flush`), the tokens that come out are candidates that went in (same score,
same list, a sub-set of the right contexts), and for every candidate and every right context it offers (and also
regardless of contexts) a token at least as good comes out. Core Lean only. -/
namespace SSVerif.SearchScore
open SSVerif.Viterbi SSVerif.HistDom

theorem ole_some_elim {a : Int} {x : Option Int} (h : ole (some a) x) : ∃ w, x = some w ∧ a ≤ w := by
  cases x with
  | none => exact absurd h ole_some_none
  | some w => exact ⟨w, rfl, ole_some_some.mp h⟩

theorem isMax_bestFor (r : Nat) (l : List Entry) :
    IsMax (fun v => ∃ x ∈ l, r ∈ x.rc ∧ v = x.score) (bestFor r l) := by
  unfold bestFor
  refine (isMax_best _).congr fun v => ?_
  simp only [List.mem_map, HistDom.cand]
  constructor
  · rintro ⟨x, hx, he⟩
    split at he
    · rename_i hr
      cases he
      exact ⟨x, hx, hr, rfl⟩
    · cases he
  · rintro ⟨x, hx, hr, rfl⟩
    exact ⟨x, hx, by simp [hr]⟩

/-- `C02_hist_domination_exact`, restated here for the proofs (same argument) -/
theorem add_exact (l : List Entry) (new : Entry) (hs : Sorted l) :
    (∀ r, bestFor r (add l new) = omax (bestFor r l) (HistDom.cand r new)) ∧
    Sorted (add l new) ∧
    (∀ x ∈ add l new, ∃ y ∈ new :: l, x.score = y.score ∧ x.tag = y.tag ∧ ∀ r ∈ x.rc, r ∈ y.rc) := by
  have spec := addGo_spec l new hs
  unfold add
  cases hgo : addGo new l with
  | none =>
    rw [hgo] at spec
    simp only [Option.getD_none]
    refine ⟨?_, hs, fun x hx => ⟨x, List.mem_cons_of_mem _ hx, rfl, rfl, fun r hr => hr⟩⟩
    intro r
    unfold HistDom.cand
    split
    · rename_i hr
      exact (omax_absorb (spec r hr)).symm
    · rw [omax_none_right]
  | some l' =>
    rw [hgo] at spec
    simp only [Option.getD_some]
    obtain ⟨h1, h2⟩ := addGo_sorted l new hs l' hgo
    exact ⟨spec, h1, h2⟩

/-- the best-scoring entry is never lost, whatever the context sets are -/
theorem add_top (l : List Entry) (new : Entry) (hs : Sorted l) :
    ∃ hd ∈ add l new, new.score ≤ hd.score ∧ ∀ en ∈ l, en.score ≤ hd.score := by
  cases l with
  | nil => exact ⟨new, by simp [add, addGo], Int.le_refl _, fun en h => by cases h⟩
  | cons e es =>
    have hall : ∀ en ∈ e :: es, en.score ≤ e.score := by
      intro en hen
      rcases List.mem_cons.mp hen with h | h
      · subst h; exact Int.le_refl _
      · have := (List.pairwise_cons.mp hs).1 en h
        omega
    by_cases hgt : new.score > e.score
    · refine ⟨new, by simp [add, addGo, hgt], Int.le_refl _, fun en hen => ?_⟩
      have := hall en hen
      omega
    · have hmem : e ∈ add (e :: es) new := by
        unfold add
        simp only [addGo, hgt, if_false]
        split
        · simp
        · cases addGo { new with rc := ctxtSub new.rc e.rc } es <;> simp
      exact ⟨e, hmem, by omega, hall⟩

/-- what a list built by `add` from the candidates `seen` satisfies -/
structure ListOK (seen l : List Entry) : Prop where
  sorted : Sorted l
  sound : ∀ x ∈ l, ∃ y ∈ seen, x.score = y.score ∧ x.tag = y.tag ∧ ∀ r ∈ x.rc, r ∈ y.rc
  compl : ∀ y ∈ seen, ∀ r ∈ y.rc, ∃ x ∈ l, r ∈ x.rc ∧ y.score ≤ x.score
  top : ∀ y ∈ seen, ∃ x ∈ l, y.score ≤ x.score

theorem ListOK.nil : ListOK [] [] :=
  ⟨List.Pairwise.nil, fun x h => (by cases h), fun y h => (by cases h), fun y h => (by cases h)⟩

theorem ListOK.step {seen l : List Entry} (h : ListOK seen l) (new : Entry) : ListOK (seen ++ [new]) (HistDom.add l new) := by
  obtain ⟨hb, hsort, hprov⟩ := add_exact l new h.sorted
  refine ⟨hsort, ?_, ?_, ?_⟩
  · intro x hx
    obtain ⟨y, hy, h1, h2, h3⟩ := hprov x hx
    rcases List.mem_cons.mp hy with hy | hy
    · subst hy
      exact ⟨y, by simp, h1, h2, h3⟩
    · obtain ⟨z, hz, g1, g2, g3⟩ := h.sound y hy
      exact ⟨z, by simp [hz], by omega, by omega, fun r hr => g3 r (h3 r hr)⟩
  · intro y hy r hr
    have key : ole (some y.score) (bestFor r (add l new)) := by
      rw [hb r]
      rcases List.mem_append.mp hy with hy | hy
      · obtain ⟨x, hx, hrx, hle⟩ := h.compl y hy r hr
        have := (isMax_bestFor r l).2 x.score ⟨x, hx, hrx, rfl⟩
        exact ole_trans (ole_trans (ole_some_some.mpr hle) this) (ole_omax_left _ _)
      · simp only [List.mem_singleton] at hy
        subst hy
        have : HistDom.cand r y = some y.score := by simp [HistDom.cand, hr]
        rw [this]
        exact ole_omax_right _ _
    obtain ⟨w, hw, hle⟩ := ole_some_elim key
    obtain ⟨x, hx, hrx, rfl⟩ := (isMax_bestFor r (add l new)).1 w hw
    exact ⟨x, hx, hrx, hle⟩
  · intro y hy
    obtain ⟨hd, hhd, h1, h2⟩ := add_top l new h.sorted
    rcases List.mem_append.mp hy with hy | hy
    · obtain ⟨x, hx, hle⟩ := h.top y hy
      exact ⟨hd, hhd, Int.le_trans hle (h2 x hx)⟩
    · simp only [List.mem_singleton] at hy
      subst hy
      exact ⟨hd, hhd, h1⟩

theorem ListOK.foldl (xs : List Entry) : ∀ (seen l : List Entry), ListOK seen l →
    ListOK (seen ++ xs) (xs.foldl HistDom.add l) := by
  induction xs with
  | nil => intro seen l h; simpa using h
  | cons x xs ih =>
    intro seen l h
    have := ih (seen ++ [x]) (HistDom.add l x) (h.step x)
    simpa [List.append_assoc] using this

theorem frameList_ok (cands : List Cand) (d lc : Nat) :
    ListOK ((cands.filter fun x => x.1 == d && x.2.1 == lc).map (·.2.2)) (frameList cands d lc) := by
  have := ListOK.foldl ((cands.filter fun x => x.1 == d && x.2.1 == lc).map (·.2.2)) [] [] ListOK.nil
  simp only [List.nil_append, List.foldl_map] at this
  exact this

theorem lt_bound {l : List Nat} {x : Nat} (h : x ∈ l) : x < bound l := by
  induction l with
  | nil => cases h
  | cons y ys ih =>
    simp only [bound, List.foldr_cons]
    rcases List.mem_cons.mp h with h | h
    · subst h; omega
    · have := ih h
      simp only [bound] at this
      omega

theorem mem_flush {cands : List Cand} {fr : Int} {tk : Tok} :
    tk ∈ flush cands fr ↔ ∃ d lc en, en ∈ frameList cands d lc ∧ tk = ⟨some en.tag, d, fr, en.score, lc, en.rc⟩ := by
  unfold flush
  simp only [List.mem_flatMap, List.mem_range, List.mem_map]
  constructor
  · rintro ⟨d, _, lc, _, en, hen, rfl⟩
    exact ⟨d, lc, en, hen, rfl⟩
  · rintro ⟨d, lc, en, hen, rfl⟩
    obtain ⟨y, hy, _⟩ := (frameList_ok cands d lc).sound en hen
    obtain ⟨x, hx, rfl⟩ := List.mem_map.mp hy
    have hx' := List.mem_filter.mp hx
    have hk : x.1 = d ∧ x.2.1 = lc := by simpa using hx'.2
    refine ⟨d, ?_, lc, ?_, en, hen, rfl⟩
    · exact lt_bound (List.mem_map.mpr ⟨x, hx'.1, hk.1⟩)
    · exact lt_bound (List.mem_map.mpr ⟨x, hx'.1, hk.2⟩)

/-- **soundness of a phase**: a token that comes out went in -/
theorem flush_sound {cands : List Cand} {fr : Int} {tk : Tok} (h : tk ∈ flush cands fr) :
    ∃ x ∈ cands, x.1 = tk.dst ∧ x.2.1 = tk.lc ∧ x.2.2.score = tk.score ∧ (∀ r ∈ tk.rc, r ∈ x.2.2.rc) ∧
      tk.frame = fr ∧ tk.link = some x.2.2.tag := by
  obtain ⟨d, lc, en, hen, rfl⟩ := mem_flush.mp h
  obtain ⟨y, hy, h1, h2, h3⟩ := (frameList_ok cands d lc).sound en hen
  obtain ⟨x, hx, rfl⟩ := List.mem_map.mp hy
  have hx' := List.mem_filter.mp hx
  have hk : x.1 = d ∧ x.2.1 = lc := by simpa using hx'.2
  exact ⟨x, hx'.1, hk.1, hk.2, h1.symm, h3, rfl, by simp [h2]⟩

/-- **completeness per right context** -/
theorem flush_compl {cands : List Cand} (fr : Int) {x : Cand} (hx : x ∈ cands) {r : Nat} (hr : r ∈ x.2.2.rc) :
    ∃ tk ∈ flush cands fr, tk.dst = x.1 ∧ tk.lc = x.2.1 ∧ r ∈ tk.rc ∧ x.2.2.score ≤ tk.score := by
  have hm : x.2.2 ∈ (cands.filter fun y => y.1 == x.1 && y.2.1 == x.2.1).map (·.2.2) :=
    List.mem_map.mpr ⟨x, List.mem_filter.mpr ⟨hx, by simp⟩, rfl⟩
  obtain ⟨en, hen, hren, hle⟩ := (frameList_ok cands x.1 x.2.1).compl _ hm r hr
  exact ⟨_, mem_flush.mpr ⟨x.1, x.2.1, en, hen, rfl⟩, rfl, rfl, hren, hle⟩

/-- **completeness regardless of contexts** (what `fsg_search_find_exit` relies on) -/
theorem flush_top {cands : List Cand} (fr : Int) {x : Cand} (hx : x ∈ cands) :
    ∃ tk ∈ flush cands fr, tk.dst = x.1 ∧ tk.lc = x.2.1 ∧ x.2.2.score ≤ tk.score := by
  have hm : x.2.2 ∈ (cands.filter fun y => y.1 == x.1 && y.2.1 == x.2.1).map (·.2.2) :=
    List.mem_map.mpr ⟨x, List.mem_filter.mpr ⟨hx, by simp⟩, rfl⟩
  obtain ⟨en, hen, hle⟩ := (frameList_ok cands x.1 x.2.1).top _ hm
  exact ⟨_, mem_flush.mpr ⟨x.1, x.2.1, en, hen, rfl⟩, rfl, rfl, hle⟩

end SSVerif.SearchScore
