import SSVerif.Proofs.JsgfExpand
/-!
Soundness half of the correctness of the mirror of `expand_rule`: every sentence the produced
automaton accepts is denoted by the top rule — for every rule table.

Every state gets a *form* (the sentential form still to be matched from that state); every link
`p --l--> q` satisfies: whatever the machine accepts from the form of `q`, it accepts with `l` in
front from the form of `p`.  The link back to the entry of a stacked rule is justified because
all rules on the stack down to that rule were referenced from last position, so their
continuations coincide (this is exactly the test `depth <= ntail` of the repaired `expand_rhs`).
-/
namespace SSVerif.Jsgf
open SSVerif.Nfa

abbrev Form := List Atom

def pre (l : Option Nat) (ws : List Nat) : List Nat :=
  match l with
  | some w => w :: ws
  | none => ws

def ArcOK (R : Rules) (φ : Nat → Form) (l : XLink) : Prop :=
  ∀ ws, Run R (φ l.dst) ws → Run R (φ l.src) (pre l.label ws)

structure Frame where
  rule : RName
  entry : Nat
  exit : Nat
  κ : Form

structure SInv (R : Rules) (st : XSt) (φ : Nat → Form) (frames : List Frame) : Prop where
  arcs : ∀ l ∈ st.links, ArcOK R φ l
  bnd : ∀ l ∈ st.links, l.src < st.nstate ∧ l.dst < st.nstate
  fr : ∀ f ∈ frames, st.entryExit f.rule = (f.entry, f.exit) ∧ f.entry < st.nstate ∧ f.exit < st.nstate ∧
        φ f.entry = .ref f.rule :: f.κ ∧ φ f.exit = f.κ

/-- `(st', φ')` extends `(st, φ)`: more states, forms of old states unchanged -/
def Ext (st : XSt) (φ : Nat → Form) (st' : XSt) (φ' : Nat → Form) : Prop :=
  st.nstate ≤ st'.nstate ∧ ∀ q, q < st.nstate → φ' q = φ q

theorem Ext.refl (st : XSt) (φ : Nat → Form) : Ext st φ st φ := ⟨Nat.le_refl _, fun _ _ => rfl⟩

theorem Ext.trans {a b c : XSt} {φa φb φc : Nat → Form} (h1 : Ext a φa b φb) (h2 : Ext b φb c φc) :
    Ext a φa c φc :=
  ⟨Nat.le_trans h1.1 h2.1, fun q hq => (h2.2 q (Nat.lt_of_lt_of_le hq h1.1)).trans (h1.2 q hq)⟩

/-- the top `ntail + 1` frames have the continuation `κ` -/
def Chain (frames : List Frame) (ntail : Nat) (κ : Form) : Prop :=
  ∀ i, i ≤ ntail → ∀ f, frames[i]? = some f → f.κ = κ

def setForm (φ : Nat → Form) (n : Nat) (f : Form) : Nat → Form := fun q => if q = n then f else φ q

theorem setForm_same (φ : Nat → Form) (n : Nat) (f : Form) : setForm φ n f n = f := by simp [setForm]

theorem setForm_other (φ : Nat → Form) {n q : Nat} (f : Form) (h : q ≠ n) : setForm φ n f q = φ q := by
  simp [setForm, h]

theorem ArcOK.mono {R : Rules} {φ φ' : Nat → Form} {l : XLink} (h : ArcOK R φ l)
    (hs : φ' l.src = φ l.src) (hd : φ' l.dst = φ l.dst) : ArcOK R φ' l := by
  intro ws hw
  rw [hs]; rw [hd] at hw
  exact h ws hw

/-- allocate a new state with a form, optionally adding a link into it from an old state -/
theorem SInv.alloc {R : Rules} {st : XSt} {φ : Nat → Form} {frames : List Frame} (I : SInv R st φ frames)
    (f : Form) :
    SInv R { st with nstate := st.nstate + 1 } (setForm φ st.nstate f) frames ∧
      Ext st φ { st with nstate := st.nstate + 1 } (setForm φ st.nstate f) := by
  refine ⟨⟨?_, ?_, ?_⟩, ⟨Nat.le_succ _, fun q hq => setForm_other φ f (Nat.ne_of_lt hq)⟩⟩
  · intro l hl
    obtain ⟨b1, b2⟩ := I.bnd l hl
    exact (I.arcs l hl).mono (setForm_other φ f (Nat.ne_of_lt b1)) (setForm_other φ f (Nat.ne_of_lt b2))
  · intro l hl
    obtain ⟨b1, b2⟩ := I.bnd l hl
    exact ⟨Nat.lt_succ_of_lt b1, Nat.lt_succ_of_lt b2⟩
  · intro fr hfr
    obtain ⟨h1, h2, h3, h4, h5⟩ := I.fr fr hfr
    refine ⟨h1, Nat.lt_succ_of_lt h2, Nat.lt_succ_of_lt h3, ?_, ?_⟩
    · rw [setForm_other φ f (Nat.ne_of_lt h2)]; exact h4
    · rw [setForm_other φ f (Nat.ne_of_lt h3)]; exact h5

theorem entryExit_addLink (st : XSt) (a : Nat) (l : Option Nat) (b : Nat) (w : Rat) (r : RName) :
    (st.addLink a l b w).entryExit r = st.entryExit r := rfl

/-- add a justified link between existing states -/
theorem SInv.link {R : Rules} {st : XSt} {φ : Nat → Form} {frames : List Frame} (I : SInv R st φ frames)
    (a : Nat) (l : Option Nat) (b : Nat) (w : Rat) (ha : a < st.nstate) (hb : b < st.nstate)
    (hok : ∀ ws, Run R (φ b) ws → Run R (φ a) (pre l ws)) :
    SInv R (st.addLink a l b w) φ frames := by
  refine ⟨?_, ?_, ?_⟩
  · intro x hx
    simp only [XSt.addLink, List.mem_append, List.mem_singleton] at hx
    rcases hx with h | rfl
    · exact I.arcs x h
    · exact hok
  · intro x hx
    simp only [XSt.addLink, List.mem_append, List.mem_singleton] at hx
    rcases hx with h | rfl
    · exact I.bnd x h
    · exact ⟨ha, hb⟩
  · intro fr hfr
    exact I.fr fr hfr

theorem run_tok {R : Rules} {w : Nat} {rest : Form} {ws : List Nat} (h : Run R rest ws) :
    Run R (.tok w :: rest) (w :: ws) := .sym .tok h

theorem run_null {R : Rules} {rest : Form} {ws : List Nat} (h : Run R rest ws) :
    Run R (.null :: rest) ws := .eps .null h

theorem run_ref {R : Rules} {r : RName} {alt rest : Form} {ws : List Nat} (hm : alt ∈ R r)
    (h : Run R (alt ++ rest) ws) : Run R (.ref r :: rest) ws := .eps (.ref hm) h

/-! ### `expand_rhs` -/

def AtomsPost (R : Rules) (frames : List Frame) (κ : Form) (st : XSt) (φ : Nat → Form) :
    RhsRes × XSt → Prop
  | (.err, _) => True
  | (.recursion, st') => ∃ φ', Ext st φ st' φ' ∧ SInv R st' φ' frames
  | (.last n, st') => ∃ φ', Ext st φ st' φ' ∧ SInv R st' φ' frames ∧ n < st'.nstate ∧
      ∀ ws, Run R κ ws → Run R (φ' n) ws

theorem AtomsPost.mono {R : Rules} {frames : List Frame} {κ : Form} {st st1 : XSt} {φ φ1 : Nat → Form}
    (he : Ext st φ st1 φ1) {res : RhsRes × XSt} (h : AtomsPost R frames κ st1 φ1 res) :
    AtomsPost R frames κ st φ res := by
  obtain ⟨r, st'⟩ := res
  cases r with
  | err => trivial
  | recursion =>
    obtain ⟨φ', e, i⟩ := h
    exact ⟨φ', he.trans e, i⟩
  | last n =>
    obtain ⟨φ', e, i, hn, hr⟩ := h
    exact ⟨φ', he.trans e, i, hn, hr⟩

/-- what `expand_rule` on a sub-rule guarantees -/
def RecSpec (R : Rules) (T : Table) (recur : Nat → RName → XSt → Option XSt) (frames : List Frame)
    (ntail : Nat) (κ : Form) : Prop :=
  ∀ (nt : Nat) (s : RName) (st : XSt) (φ : Nat → Form) (κJ : Form),
    SInv R st φ frames → s ∉ frames.map (·.rule) → T.defined s = true →
    (nt = 0 ∨ (nt = ntail + 1 ∧ κJ = κ)) →
    match recur nt s st with
    | none => True
    | some st' => ∃ φ' e x, Ext st φ st' φ' ∧ SInv R st' φ' frames ∧ st'.entryExit s = (e, x) ∧
        e < st'.nstate ∧ x < st'.nstate ∧ φ' e = .ref s :: κJ ∧ φ' x = κJ

theorem frame_of_stacked {frames : List Frame} {s : RName} (h : s ∈ frames.map (·.rule)) :
    ∃ f, frames[List.idxOf s (frames.map (·.rule))]? = some f ∧ f ∈ frames ∧ f.rule = s := by
  have hlt : List.idxOf s (frames.map (·.rule)) < (frames.map (·.rule)).length :=
    List.idxOf_lt_length_iff.mpr h
  have hlt' : List.idxOf s (frames.map (·.rule)) < frames.length := by simpa using hlt
  refine ⟨frames[List.idxOf s (frames.map (·.rule))], ?_, List.getElem_mem _, ?_⟩
  · exact List.getElem?_eq_getElem hlt'
  · have h1 := List.getElem_idxOf hlt
    rw [List.getElem_map] at h1
    exact h1

theorem xAtoms_sound {R : Rules} {T : Table} {recur : Nat → RName → XSt → Option XSt}
    {frames : List Frame} {ntail : Nat} {κ : Form}
    (Hrec : RecSpec R T recur frames ntail κ) (hchain : Chain frames ntail κ) :
    ∀ (alt : List WAtom) (last : Nat) (st : XSt) (φ : Nat → Form),
      SInv R st φ frames → last < st.nstate →
      (∀ ws, Run R (atomsOf alt ++ κ) ws → Run R (φ last) ws) →
      AtomsPost R frames κ st φ (xAtoms T recur (frames.map (·.rule)) ntail alt last st)
  | [], last, st, φ, I, hl, hlast => by
    simp only [xAtoms]
    exact ⟨φ, Ext.refl st φ, I, hl, by simpa [atomsOf] using hlast⟩
  | a :: rest, last, st, φ, I, hl, hlast => by
    have ih := xAtoms_sound Hrec hchain rest
    have hform : atomsOf (a :: rest) ++ κ = a.atom :: (atomsOf rest ++ κ) := by simp [atomsOf]
    rw [hform] at hlast
    cases ha : a.atom with
    | tok w =>
      simp only [xAtoms, ha]
      rw [ha] at hlast
      obtain ⟨I1, e1⟩ := I.alloc (atomsOf rest ++ κ)
      have hne : last ≠ st.nstate := Nat.ne_of_lt hl
      have I2 := I1.link last (some w) st.nstate a.wt (Nat.lt_succ_of_lt hl) (Nat.lt_succ_self _)
        (by
          intro ws hw
          rw [setForm_same] at hw
          rw [setForm_other φ _ hne]
          exact hlast _ (run_tok hw))
      have := ih st.nstate _ _ I2 (Nat.lt_succ_self _) (by
        intro ws hw; rw [setForm_same]; exact hw)
      exact AtomsPost.mono e1 this
    | null =>
      simp only [xAtoms, ha]
      rw [ha] at hlast
      obtain ⟨I1, e1⟩ := I.alloc (atomsOf rest ++ κ)
      have hne : last ≠ st.nstate := Nat.ne_of_lt hl
      have I2 := I1.link last none st.nstate a.wt (Nat.lt_succ_of_lt hl) (Nat.lt_succ_self _)
        (by
          intro ws hw
          rw [setForm_same] at hw
          rw [setForm_other φ _ hne]
          exact hlast _ (run_null hw))
      have := ih st.nstate _ _ I2 (Nat.lt_succ_self _) (by
        intro ws hw; rw [setForm_same]; exact hw)
      exact AtomsPost.mono e1 this
    | void =>
      simp only [xAtoms, ha]
      obtain ⟨I1, e1⟩ := I.alloc (atomsOf rest ++ κ)
      have := ih st.nstate _ _ I1 (Nat.lt_succ_self _) (by
        intro ws hw; rw [setForm_same]; exact hw)
      exact AtomsPost.mono e1 this
    | ref s =>
      simp only [xAtoms, ha]
      rw [ha] at hlast
      cases hd : T.defined s with
      | false => simp [AtomsPost]
      | true =>
        simp only [Bool.not_true, Bool.false_eq_true, if_false]
        cases hs : (frames.map (·.rule)).contains s with
        | true =>
          simp only [if_true]
          cases hc : (rest.isEmpty && decide (List.idxOf s (frames.map (·.rule)) ≤ ntail)) with
          | false => simp [AtomsPost]
          | true =>
            simp only [if_true, AtomsPost]
            simp only [Bool.and_eq_true, List.isEmpty_iff, decide_eq_true_eq] at hc
            obtain ⟨hre, hdepth⟩ := hc
            subst hre
            have hmem : s ∈ frames.map (·.rule) := by simpa using hs
            obtain ⟨f, hf, hfm, hfr⟩ := frame_of_stacked hmem
            obtain ⟨h1, h2, _, h4, _⟩ := I.fr f hfm
            have hκ : f.κ = κ := hchain _ hdepth f hf
            rw [hfr] at h1 h4
            refine ⟨φ, Ext.refl st φ, ?_⟩
            rw [h1]
            apply I.link last none f.entry a.wt hl h2
            intro ws hw
            rw [h4, hκ] at hw
            exact hlast _ (by simpa [atomsOf, pre] using hw)
        | false =>
          simp only [Bool.false_eq_true, if_false]
          have hnot : s ∉ frames.map (·.rule) := by
            intro hm
            have : (frames.map (·.rule)).contains s = true := by simpa using hm
            rw [hs] at this; cases this
          have hcond : ((if rest.isEmpty = true then ntail + 1 else 0) = 0 ∨
              ((if rest.isEmpty = true then ntail + 1 else 0) = ntail + 1 ∧ atomsOf rest ++ κ = κ)) := by
            cases rest with
            | nil => right; simp [atomsOf]
            | cons b r => left; simp
          have hr := Hrec (if rest.isEmpty then ntail + 1 else 0) s st φ (atomsOf rest ++ κ) I hnot hd hcond
          cases hrec : recur (if rest.isEmpty = true then ntail + 1 else 0) s st with
          | none => simp [AtomsPost]
          | some st' =>
            rw [hrec] at hr
            simp only at hr ⊢
            obtain ⟨φ', e, x, hext, I', hee, he, hx, hφe, hφx⟩ := hr
            rw [hee]
            simp only
            have hl' : last < st'.nstate := Nat.lt_of_lt_of_le hl hext.1
            have I2 := I'.link last none e a.wt hl' he (by
              intro ws hw
              rw [hφe] at hw
              rw [hext.2 last hl]
              exact hlast _ (by simpa [pre] using hw))
            have := ih x _ φ' I2 hx (by
              intro ws hw; rw [hφx]; exact hw)
            exact AtomsPost.mono hext this

/-! ### the alternatives of one rule instance -/

theorem xAlts_sound {R : Rules} {T : Table} {recur : Nat → RName → XSt → Option XSt}
    {rest : List Frame} {cur : Frame} {ntail : Nat}
    (Hrec : RecSpec R T recur (cur :: rest) ntail cur.κ) (hchain : Chain (cur :: rest) ntail cur.κ) :
    ∀ (alts : List (List WAtom)) (st : XSt) (φ : Nat → Form),
      SInv R st φ (cur :: rest) → (∀ alt ∈ alts, atomsOf alt ∈ R cur.rule) →
      match xAlts T recur ((cur :: rest).map (·.rule)) ntail cur.entry cur.exit alts st with
      | none => True
      | some st' => ∃ φ', Ext st φ st' φ' ∧ SInv R st' φ' (cur :: rest)
  | [], st, φ, I, _ => by
    simp only [xAlts]
    exact ⟨φ, Ext.refl st φ, I⟩
  | alt :: more, st, φ, I, hmem => by
    have ih := xAlts_sound Hrec hchain more
    obtain ⟨_, hE, _, hφe, _⟩ := I.fr cur (by simp)
    have hpost := xAtoms_sound Hrec hchain alt cur.entry st φ I hE (by
      intro ws hw
      rw [hφe]
      exact run_ref (hmem alt (by simp)) hw)
    simp only [xAlts]
    generalize xAtoms T recur ((cur :: rest).map (·.rule)) ntail alt cur.entry st = r at hpost
    obtain ⟨res, st1⟩ := r
    cases res with
    | err => trivial
    | recursion =>
      obtain ⟨φ1, e1, I1⟩ := hpost
      have := ih st1 φ1 I1 (fun a ha => hmem a (List.mem_cons_of_mem _ ha))
      simp only
      generalize xAlts T recur ((cur :: rest).map (·.rule)) ntail cur.entry cur.exit more st1 = r2 at this
      cases r2 with
      | none => trivial
      | some st2 =>
        obtain ⟨φ2, e2, I2⟩ := this
        exact ⟨φ2, e1.trans e2, I2⟩
    | last n =>
      obtain ⟨φ1, e1, I1, hn, hrun⟩ := hpost
      obtain ⟨_, _, hX, _, hφx⟩ := I1.fr cur (by simp)
      have I1' := I1.link n none cur.exit 1 hn hX (by
        intro ws hw
        rw [hφx] at hw
        exact hrun ws hw)
      have := ih _ φ1 I1' (fun a ha => hmem a (List.mem_cons_of_mem _ ha))
      simp only
      generalize xAlts T recur ((cur :: rest).map (·.rule)) ntail cur.entry cur.exit more
        (st1.addLink n none cur.exit 1) = r2 at this
      cases r2 with
      | none => trivial
      | some st2 =>
        obtain ⟨φ2, e2, I2⟩ := this
        refine ⟨φ2, e1.trans ?_, I2⟩
        exact e2

/-! ### `expand_rule` -/

theorem entryExit_cons_same (st : XSt) (r : RName) (e x n : Nat) :
    ({ st with nstate := n, inst := (r, e, x) :: st.inst } : XSt).entryExit r = (e, x) := by
  simp [XSt.entryExit]

theorem entryExit_cons_other (st : XSt) {r s : RName} (e x n : Nat) (h : r ≠ s) :
    ({ st with nstate := n, inst := (r, e, x) :: st.inst } : XSt).entryExit s = st.entryExit s := by
  simp [XSt.entryExit, h]

theorem SInv.drop {R : Rules} {st : XSt} {φ : Nat → Form} {f : Frame} {frames : List Frame}
    (I : SInv R st φ (f :: frames)) : SInv R st φ frames :=
  ⟨I.arcs, I.bnd, fun g hg => I.fr g (List.mem_cons_of_mem _ hg)⟩

theorem xRule_sound (T : Table) : ∀ (fuel : Nat) (frames : List Frame) (ntail : Nat) (r : RName) (st : XSt)
    (φ : Nat → Form) (κJ : Form),
    SInv T.rules st φ frames → r ∉ frames.map (·.rule) →
    Chain (⟨r, st.nstate, st.nstate + 1, κJ⟩ :: frames) ntail κJ →
    match xRule T fuel (frames.map (·.rule)) ntail r st with
    | none => True
    | some st' => ∃ φ', Ext st φ st' φ' ∧ SInv T.rules st' φ' frames ∧
        st'.entryExit r = (st.nstate, st.nstate + 1) ∧
        st.nstate < st'.nstate ∧ st.nstate + 1 < st'.nstate ∧ φ' st.nstate = .ref r :: κJ ∧ φ' (st.nstate + 1) = κJ
  | 0, _, _, _, _, _, _, _, _, _ => by simp [xRule]
  | fuel + 1, frames, ntail, r, st, φ, κJ, I, hnot, hchain => by
    simp only [xRule]
    cases hf : T.find r with
    | none => trivial
    | some rl =>
      simp only
      -- the new instance
      let cur : Frame := ⟨r, st.nstate, st.nstate + 1, κJ⟩
      let st1 : XSt := { st with nstate := st.nstate + 2, inst := (r, st.nstate, st.nstate + 1) :: st.inst }
      let φ1 : Nat → Form := setForm (setForm φ st.nstate (.ref r :: κJ)) (st.nstate + 1) κJ
      have hφ_old : ∀ q, q < st.nstate → φ1 q = φ q := by
        intro q hq
        simp only [φ1]
        rw [setForm_other _ _ (by omega), setForm_other _ _ (by omega)]
      have hφe : φ1 st.nstate = .ref r :: κJ := by
        simp only [φ1]
        rw [setForm_other _ _ (by omega), setForm_same]
      have hφx : φ1 (st.nstate + 1) = κJ := by
        simp only [φ1]
        rw [setForm_same]
      have I1 : SInv T.rules st1 φ1 (cur :: frames) := by
        refine ⟨?_, ?_, ?_⟩
        · intro l hl
          obtain ⟨b1, b2⟩ := I.bnd l hl
          exact (I.arcs l hl).mono (hφ_old _ b1) (hφ_old _ b2)
        · intro l hl
          obtain ⟨b1, b2⟩ := I.bnd l hl
          show l.src < st.nstate + 2 ∧ l.dst < st.nstate + 2
          omega
        · intro f hfm
          rcases List.mem_cons.mp hfm with rfl | hfm'
          · refine ⟨entryExit_cons_same st r _ _ _, ?_, ?_, hφe, hφx⟩
            · show st.nstate < st.nstate + 2
              omega
            · show st.nstate + 1 < st.nstate + 2
              omega
          · obtain ⟨h1, h2, h3, h4, h5⟩ := I.fr f hfm'
            have hne : r ≠ f.rule := by
              intro heq
              apply hnot
              rw [heq]
              exact List.mem_map.mpr ⟨f, hfm', rfl⟩
            refine ⟨(entryExit_cons_other st _ _ _ hne).trans h1, ?_, ?_, ?_, ?_⟩
            · show f.entry < st.nstate + 2
              omega
            · show f.exit < st.nstate + 2
              omega
            · rw [hφ_old _ h2]; exact h4
            · rw [hφ_old _ h3]; exact h5
      have e01 : Ext st φ st1 φ1 := ⟨by show st.nstate ≤ st.nstate + 2; omega, hφ_old⟩
      -- the recursive calls satisfy the specification (induction on the fuel)
      have Hrec : RecSpec T.rules T (fun nt s st' => xRule T fuel (r :: frames.map (·.rule)) nt s st')
          (cur :: frames) ntail cur.κ := by
        intro nt s st' φ' κ' I' hs _ hcond
        have := xRule_sound T fuel (cur :: frames) nt s st' φ' κ' I' hs (by
          intro i hi f hfi
          cases i with
          | zero =>
            simp only [List.getElem?_cons_zero, Option.some.injEq] at hfi
            subst hfi; rfl
          | succ j =>
            simp only [List.getElem?_cons_succ] at hfi
            rcases hcond with h0 | ⟨h1, h2⟩
            · omega
            · rw [h2]
              exact hchain j (by omega) f hfi)
        have key : ∀ res : Option XSt,
            (match res with
              | none => True
              | some st2 => ∃ φ2, Ext st' φ' st2 φ2 ∧ SInv T.rules st2 φ2 (cur :: frames) ∧
                  st2.entryExit s = (st'.nstate, st'.nstate + 1) ∧ st'.nstate < st2.nstate ∧
                  st'.nstate + 1 < st2.nstate ∧ φ2 st'.nstate = .ref s :: κ' ∧ φ2 (st'.nstate + 1) = κ') →
            (match res with
              | none => True
              | some st2 => ∃ φ2 e x, Ext st' φ' st2 φ2 ∧ SInv T.rules st2 φ2 (cur :: frames) ∧
                  st2.entryExit s = (e, x) ∧ e < st2.nstate ∧ x < st2.nstate ∧ φ2 e = .ref s :: κ' ∧ φ2 x = κ') := by
          intro res hres
          cases res with
          | none => trivial
          | some st2 =>
            obtain ⟨φ2, a1, a2, a3, a4, a5, a6, a7⟩ := hres
            exact ⟨φ2, _, _, a1, a2, a3, a4, a5, a6, a7⟩
        exact key _ this
      have hmemR : ∀ alt ∈ (normaliseRule rl).alts, atomsOf alt ∈ T.rules cur.rule := by
        intro alt halt
        have e1 : T.rules r = altsOf rl.alts := by
          unfold Table.rules; rw [hf]; rfl
        show atomsOf alt ∈ T.rules r
        rw [e1, ← altsOf_normalise]
        exact List.mem_map.mpr ⟨alt, halt, rfl⟩
      have hA := xAlts_sound (R := T.rules) (T := T) (rest := frames) (cur := cur) (ntail := ntail)
        Hrec hchain (normaliseRule rl).alts st1 φ1 I1 hmemR
      show match xAlts T (fun nt s st' => xRule T fuel (r :: frames.map (·.rule)) nt s st')
            (r :: frames.map (·.rule)) ntail st.nstate (st.nstate + 1) (normaliseRule rl).alts st1 with
        | none => True
        | some st' => ∃ φ', Ext st φ st' φ' ∧ SInv T.rules st' φ' frames ∧
            st'.entryExit r = (st.nstate, st.nstate + 1) ∧
            st.nstate < st'.nstate ∧ st.nstate + 1 < st'.nstate ∧ φ' st.nstate = .ref r :: κJ ∧
            φ' (st.nstate + 1) = κJ
      have hA' : match xAlts T (fun nt s st' => xRule T fuel (r :: frames.map (·.rule)) nt s st')
            (r :: frames.map (·.rule)) ntail st.nstate (st.nstate + 1) (normaliseRule rl).alts st1 with
        | none => True
        | some st' => ∃ φ', Ext st1 φ1 st' φ' ∧ SInv T.rules st' φ' (cur :: frames) := hA
      generalize xAlts T (fun nt s st' => xRule T fuel (r :: frames.map (·.rule)) nt s st')
            (r :: frames.map (·.rule)) ntail st.nstate (st.nstate + 1) (normaliseRule rl).alts st1 = res at hA'
      cases res with
      | none => trivial
      | some st' =>
        obtain ⟨φ', e12, I2⟩ := hA'
        obtain ⟨h1, h2, h3, h4, h5⟩ := I2.fr cur (by simp)
        exact ⟨φ', e01.trans e12, I2.drop, h1, h2, h3, h4, h5⟩

/-! ### the whole expansion -/

theorem reach_run {R : Rules} {st : XSt} {φ : Nat → Form} (h : ∀ l ∈ st.links, ArcOK R φ l)
    {p q : Nat} {ws : List Nat} (hr : Reach st.toNfa p ws q) :
    ∀ ws', Run R (φ q) ws' → Run R (φ p) (ws ++ ws') := by
  induction hr with
  | refl => intro ws' hw; simpa using hw
  | eps ha _ ih =>
    intro ws' hw
    simp only [XSt.toNfa, List.mem_map] at ha
    obtain ⟨l, hl, heq⟩ := ha
    have hok := h l hl
    simp only [Prod.mk.injEq] at heq
    obtain ⟨h1, h2, h3⟩ := heq
    have := hok _ (by rw [h3]; exact ih ws' hw)
    rw [h1, h2] at this
    exact this
  | sym ha _ ih =>
    intro ws' hw
    simp only [XSt.toNfa, List.mem_map] at ha
    obtain ⟨l, hl, heq⟩ := ha
    have hok := h l hl
    simp only [Prod.mk.injEq] at heq
    obtain ⟨h1, h2, h3⟩ := heq
    have := hok _ (by rw [h3]; exact ih ws' hw)
    rw [h1, h2] at this
    exact this

/-- every sentence accepted by the automaton the mirror of `expand_rule` builds is denoted by the
top rule -/
theorem expandTop_sound {T : Table} {top : RName} {st : XSt} (h : expandTop T top = some st)
    (ws : List Nat) : Accepts st.toNfa ws → Der T.rules [.ref top] ws := by
  unfold expandTop at h
  split at h
  · have I0 : SInv T.rules ({} : XSt) (fun _ => []) [] :=
      { arcs := by intro l hl; cases hl
        bnd := by intro l hl; cases hl
        fr := by intro f hf; cases hf }
    have := xRule_sound T (T.length + 1) [] 0 top {} (fun _ => []) [] I0 (by simp) (by
      intro i hi f hfi
      have : i = 0 := by omega
      subst this
      simp only [List.getElem?_cons_zero, Option.some.injEq] at hfi
      subst hfi; rfl)
    simp only [List.map_nil] at this
    rw [h] at this
    obtain ⟨φ', _, I, _, _, _, hφe, hφx⟩ := this
    intro hacc
    have hr := reach_run I.arcs hacc [] (by
      show Run T.rules (φ' 1) []
      have : φ' 1 = [] := hφx
      rw [this]; exact .done)
    have h0 : φ' 0 = [.ref top] := hφe
    have : Run T.rules [.ref top] ws := by
      have := hr
      simp only [XSt.toNfa, List.append_nil] at this
      rw [h0] at this
      exact this
    exact this.toDer
  · cases h

end SSVerif.Jsgf
